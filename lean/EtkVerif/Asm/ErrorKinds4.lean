/-
C13: the macro-related error kinds tied to a USE in the reporting scope.  The provenance theorems of ErrorKinds.lean /
ErrorKinds2.lean say that SOME scope of the program lacks / has a macro of the name — which an unrelated scope can
satisfy.  Here the same scope `sub` (the program or a nested `%include` scope) both has the offending use in its text —
in a statement, an invocation argument or the body of one of its macro definitions — and lacks the matching definition:
* `UndeclaredExpressionMacro n`: `sub` calls `n(…)` in some expression and declares no expression macro `n`;
* `UndeclaredInstructionMacro n`: `sub` invokes `%n(…)` and declares no instruction macro `n`;
* `MacroArgumentCount n`: `sub` declares the instruction macro `n` with `ps` parameters and invokes `%n(…)` with a
  different number of arguments.
-/
import EtkVerif.Asm.ErrorKinds3
namespace EtkVerif
namespace Asm

mutual
/-- the expression contains a call `n(…)` (arguments of calls included) -/
def Expr.callsMacro (n : String) : Expr → Bool
  | .num _ => false
  | .label _ => false
  | .var _ => false
  | .plus a b => a.callsMacro n || b.callsMacro n
  | .minus a b => a.callsMacro n || b.callsMacro n
  | .times a b => a.callsMacro n || b.callsMacro n
  | .divide a b => a.callsMacro n || b.callsMacro n
  | .paren e => e.callsMacro n
  | .macro m args => m == n || args.callsMacro n
def Exprs.callsMacro (n : String) : Exprs → Bool
  | .nil => false
  | .cons h t => h.callsMacro n || t.callsMacro n
end

mutual
/-- the statement contains a call `n(…)` of an expression macro: in its operand, in an invocation argument, or in the
body of a definition -/
def AOp.callsMacro (n : String) : AOp → Bool
  | .op _ imm => match imm with | some e => e.callsMacro n | none => false
  | .label _ => false
  | .push e => e.callsMacro n
  | .instrDef _ _ body => body.callsMacro n
  | .exprDef _ _ body => body.callsMacro n
  | .macro _ args => args.any (fun e => e.callsMacro n)
def AOps.callsMacro (n : String) : AOps → Bool
  | .nil => false
  | .cons h t => h.callsMacro n || t.callsMacro n
end

mutual
/-- the statement is, or (a definition) contains in its body, an instruction-macro invocation `%n(…)` with `a` arguments -/
def AOp.invokesWith (n : String) (a : Nat) : AOp → Bool
  | .macro m args => m == n && args.length == a
  | .instrDef _ _ body => body.invokesWith n a
  | _ => false
def AOps.invokesWith (n : String) (a : Nat) : AOps → Bool
  | .nil => false
  | .cons h t => h.invokesWith n a || t.invokesWith n a
end

/-! ### calls of expressions: what substitution and label renaming do to them -/

/-- every expression macro the expression calls satisfies `P` -/
def ExprC (P : String → Prop) (e : Expr) : Prop := ∀ n, e.callsMacro n = true → P n
def ExprsC (P : String → Prop) (es : Exprs) : Prop := ∀ n, es.callsMacro n = true → P n

mutual
theorem replaceLabel_callsMacro (old new n : String) :
    ∀ e, (replaceLabel old new e).callsMacro n = e.callsMacro n
  | .paren e => by simp only [replaceLabel, Expr.callsMacro]; exact replaceLabel_callsMacro old new n e
  | .macro m args => by
    simp only [replaceLabel, Expr.callsMacro, replaceLabelArgs_callsMacro old new n args]
  | .num _ => by simp only [replaceLabel]
  | .var x => by simp only [replaceLabel]
  | .label l => by simp only [replaceLabel]; split <;> simp only [Expr.callsMacro]
  | .plus a b => by
    simp only [replaceLabel, Expr.callsMacro, replaceLabel_callsMacro old new n a, replaceLabel_callsMacro old new n b]
  | .minus a b => by
    simp only [replaceLabel, Expr.callsMacro, replaceLabel_callsMacro old new n a, replaceLabel_callsMacro old new n b]
  | .times a b => by
    simp only [replaceLabel, Expr.callsMacro, replaceLabel_callsMacro old new n a, replaceLabel_callsMacro old new n b]
  | .divide a b => by
    simp only [replaceLabel, Expr.callsMacro, replaceLabel_callsMacro old new n a, replaceLabel_callsMacro old new n b]
theorem replaceLabelArgs_callsMacro (old new n : String) :
    ∀ es, (replaceLabelArgs old new es).callsMacro n = es.callsMacro n
  | .nil => by simp only [replaceLabelArgs]
  | .cons a as => by
    simp only [replaceLabelArgs, Exprs.callsMacro, replaceLabel_callsMacro old new n a,
      replaceLabelArgs_callsMacro old new n as]
end

mutual
/-- `fill_variables`: the calls of the result come from the expression or from the bound arguments -/
theorem fillVars_calls {P : String → Prop} {bs : List (String × Expr)} (hb : ∀ p ∈ bs, ExprC P p.2) :
    ∀ e, ExprC P e → ExprC P (fillVars bs e)
  | .paren e, h => by
    intro v hv; simp only [fillVars, Expr.callsMacro] at hv
    exact fillVars_calls hb e (fun v hv => h v (by simp only [Expr.callsMacro]; exact hv)) v hv
  | .macro m args, h => by
    intro v hv; simp only [fillVars, Expr.callsMacro, Bool.or_eq_true] at hv
    rcases hv with hv | hv
    · exact h v (by simp only [Expr.callsMacro, Bool.or_eq_true]; exact Or.inl hv)
    · exact fillVarsArgs_calls hb args
        (fun v hv => h v (by simp only [Expr.callsMacro, Bool.or_eq_true]; exact Or.inr hv)) v hv
  | .num _, h => by simp only [fillVars]; exact h
  | .label l, h => by simp only [fillVars]; exact h
  | .var x, h => by
    simp only [fillVars]
    cases hl : lookupBinding bs x with
    | none => exact h
    | some a =>
      obtain ⟨p, hp, rfl⟩ := lookupBinding_mem hl
      exact hb p hp
  | .plus a b, h => by
    intro v hv; simp only [fillVars, Expr.callsMacro, Bool.or_eq_true] at hv
    rcases hv with hv | hv
    · exact fillVars_calls hb a (fun v hv => h v (by simp only [Expr.callsMacro, Bool.or_eq_true]; exact Or.inl hv)) v hv
    · exact fillVars_calls hb b (fun v hv => h v (by simp only [Expr.callsMacro, Bool.or_eq_true]; exact Or.inr hv)) v hv
  | .minus a b, h => by
    intro v hv; simp only [fillVars, Expr.callsMacro, Bool.or_eq_true] at hv
    rcases hv with hv | hv
    · exact fillVars_calls hb a (fun v hv => h v (by simp only [Expr.callsMacro, Bool.or_eq_true]; exact Or.inl hv)) v hv
    · exact fillVars_calls hb b (fun v hv => h v (by simp only [Expr.callsMacro, Bool.or_eq_true]; exact Or.inr hv)) v hv
  | .times a b, h => by
    intro v hv; simp only [fillVars, Expr.callsMacro, Bool.or_eq_true] at hv
    rcases hv with hv | hv
    · exact fillVars_calls hb a (fun v hv => h v (by simp only [Expr.callsMacro, Bool.or_eq_true]; exact Or.inl hv)) v hv
    · exact fillVars_calls hb b (fun v hv => h v (by simp only [Expr.callsMacro, Bool.or_eq_true]; exact Or.inr hv)) v hv
  | .divide a b, h => by
    intro v hv; simp only [fillVars, Expr.callsMacro, Bool.or_eq_true] at hv
    rcases hv with hv | hv
    · exact fillVars_calls hb a (fun v hv => h v (by simp only [Expr.callsMacro, Bool.or_eq_true]; exact Or.inl hv)) v hv
    · exact fillVars_calls hb b (fun v hv => h v (by simp only [Expr.callsMacro, Bool.or_eq_true]; exact Or.inr hv)) v hv
theorem fillVarsArgs_calls {P : String → Prop} {bs : List (String × Expr)} (hb : ∀ p ∈ bs, ExprC P p.2) :
    ∀ es, ExprsC P es → ExprsC P (fillVarsArgs bs es)
  | .nil, h => by simp only [fillVarsArgs]; exact h
  | .cons a as, h => by
    intro v hv; simp only [fillVarsArgs, Exprs.callsMacro, Bool.or_eq_true] at hv
    rcases hv with hv | hv
    · exact fillVars_calls hb a (fun v hv => h v (by simp only [Exprs.callsMacro, Bool.or_eq_true]; exact Or.inl hv)) v hv
    · exact fillVarsArgs_calls hb as (fun v hv => h v (by simp only [Exprs.callsMacro, Bool.or_eq_true]; exact Or.inr hv)) v hv
end

theorem foldl_callsMacro (n : String) (g : Expr → String × String → Expr)
    (hg : ∀ e p, (g e p).callsMacro n = e.callsMacro n) : ∀ (renames : List (String × String)) (e : Expr),
    (renames.foldl g e).callsMacro n = e.callsMacro n := by
  intro renames
  induction renames with
  | nil => intro e; rfl
  | cons p rest ih =>
    intro e
    simp only [List.foldl_cons]
    rw [ih, hg]

/-- the expression rewriting of `substBody`: local labels renamed, then parameters replaced by arguments -/
theorem substFix_calls {P : String → Prop} {renames : List (String × String)} {bs : List (String × Expr)}
    (hb : ∀ p ∈ bs, ExprC P p.2) (e : Expr) (he : ExprC P e) :
    ExprC P (fillVars bs (renames.foldl (fun e (o, n) => replaceLabel o n e) e)) := by
  apply fillVars_calls hb
  intro v hv
  rw [foldl_callsMacro v _ (by intro e p; obtain ⟨o, n⟩ := p; exact replaceLabel_callsMacro o n v e)] at hv
  exact he v hv

/-! ### evaluator level -/

/-- some expression macro of the table calls `n` in its body -/
def TableCalls (ms : List (String × MacroDef)) (n : String) : Prop :=
  ∃ m ps b, lookupMacro ms m = some (.expr ps b) ∧ b.callsMacro n = true

theorem eval_arith_unkMacro {f : Nat} {c : Ctx} {a b : Expr} {n : String} {g : Int → Int → Except EvErr Int}
    (h : (match eval f c a with
      | .error e => Except.error e
      | .ok x => match eval f c b with
        | .error e => Except.error e
        | .ok y => g x y) = Except.error (.unknownMacro n))
    (hg : ∀ x y, g x y ≠ .error (.unknownMacro n)) :
    eval f c a = .error (.unknownMacro n) ∨ eval f c b = .error (.unknownMacro n) := by
  cases h1 : eval f c a with
  | error e =>
    rw [h1] at h
    simp only [Except.error.injEq] at h
    subst h
    exact Or.inl rfl
  | ok x =>
    rw [h1] at h
    simp only [] at h
    cases h2 : eval f c b with
    | error e =>
      rw [h2] at h
      simp only [Except.error.injEq] at h
      subst h
      exact Or.inr rfl
    | ok y =>
      rw [h2] at h
      exact absurd h (hg x y)

/-- `eval` / `evalArgs`: `unknownMacro n` means `n(…)` is called in the expression evaluated or in the body of an
expression macro of the table -/
theorem eval_unkMacro_aux : ∀ f,
    (∀ (c : Ctx) (e : Expr) (n : String), eval f c e = .error (.unknownMacro n) →
      e.callsMacro n = true ∨ TableCalls c.macros n) ∧
    (∀ (c : Ctx) (params : List String) (args : Exprs) (n : String),
      evalArgs f c params args = .error (.unknownMacro n) →
      args.callsMacro n = true ∨ TableCalls c.macros n) := by
  intro f
  induction f with
  | zero =>
    constructor
    · intro c e v h; simp [eval] at h
    · intro c params args v h; simp [evalArgs] at h
  | succ f ih =>
    have arith : ∀ (c : Ctx) (a b : Expr) (v : String),
        (eval f c a = .error (.unknownMacro v) ∨ eval f c b = .error (.unknownMacro v)) →
        (a.callsMacro v || b.callsMacro v) = true ∨ TableCalls c.macros v := by
      intro c a b v h
      rcases h with h | h
      · rcases ih.1 c a v h with h | h
        · left; simp [h]
        · exact Or.inr h
      · rcases ih.1 c b v h with h | h
        · left; simp [h]
        · exact Or.inr h
    constructor
    · intro c e v h
      cases e with
      | paren e => simp only [eval] at h; simp only [Expr.callsMacro]; exact ih.1 c e v h
      | num n => simp [eval] at h
      | label x =>
        simp only [eval] at h
        split at h <;> simp at h
      | var x =>
        simp only [eval] at h
        split at h
        · simp at h
        · split at h <;> simp at h
      | plus a b =>
        simp only [eval] at h
        simp only [Expr.callsMacro]
        exact arith c a b v (eval_arith_unkMacro (g := fun x y => .ok (x + y)) h (by intro x y; simp))
      | minus a b =>
        simp only [eval] at h
        simp only [Expr.callsMacro]
        exact arith c a b v (eval_arith_unkMacro (g := fun x y => .ok (x - y)) h (by intro x y; simp))
      | times a b =>
        simp only [eval] at h
        simp only [Expr.callsMacro]
        exact arith c a b v (eval_arith_unkMacro (g := fun x y => .ok (x * y)) h (by intro x y; simp))
      | divide a b =>
        simp only [eval] at h
        simp only [Expr.callsMacro]
        refine arith c a b v (eval_arith_unkMacro
          (g := fun x y => if y = 0 then .error .divisionByZero else .ok (Int.tdiv x y)) h ?_)
        intro x y
        split <;> simp
      | «macro» name args =>
        simp only [eval] at h
        simp only [Expr.callsMacro, Bool.or_eq_true]
        cases hlk : lookupMacro c.macros name with
        | none =>
          rw [hlk] at h
          simp only [Except.error.injEq, EvErr.unknownMacro.injEq] at h
          subst h
          left; left; simp
        | some md =>
          cases md with
          | instr ps body =>
            rw [hlk] at h
            simp only [Except.error.injEq, EvErr.unknownMacro.injEq] at h
            subst h
            left; left; simp
          | expr params body =>
            rw [hlk] at h
            simp only [] at h
            cases hea : evalArgs f c params args with
            | error e2 =>
              rw [hea] at h
              simp only [Except.error.injEq] at h
              subst h
              rcases ih.2 c params args v hea with hh | hh
              · exact Or.inl (Or.inr hh)
              · exact Or.inr hh
            | ok vs =>
              rw [hea] at h
              simp only [] at h
              split at h
              · simp at h
              · rcases ih.1 { c with vars := some vs, depth := c.depth + 1 } body v h with hb | hb
                · exact Or.inr ⟨name, params, body, hlk, hb⟩
                · exact Or.inr hb
    · intro c params args v h
      cases params with
      | nil => simp [evalArgs] at h
      | cons p ps =>
        cases args with
        | nil => simp [evalArgs] at h
        | cons a as =>
          simp only [evalArgs] at h
          simp only [Exprs.callsMacro]
          cases hea : eval f c a with
          | error e2 =>
            rw [hea] at h
            simp only [Except.error.injEq] at h
            subst h
            rcases ih.1 c a v hea with h | h
            · left; simp [h]
            · exact Or.inr h
          | ok x =>
            rw [hea] at h
            simp only [] at h
            cases heb : evalArgs f c ps as with
            | error e2 =>
              rw [heb] at h
              simp only [Except.error.injEq] at h
              subst h
              rcases ih.2 c ps as v heb with h | h
              · left; simp [h]
              · exact Or.inr h
            | ok rest => rw [heb] at h; simp at h

theorem labelsBind_unkMacro {A B : Except EvErr (List String)} {n : String}
    (h : (match A with
      | .error e => .error e
      | .ok x => match B with
        | .error e => .error e
        | .ok y => .ok (x ++ y)) = (.error (.unknownMacro n) : Except EvErr (List String))) :
    A = .error (.unknownMacro n) ∨ B = .error (.unknownMacro n) := by
  cases A with
  | error e =>
    simp only [Except.error.injEq] at h
    subst h
    exact Or.inl rfl
  | ok x =>
    cases B with
    | error e =>
      simp only [Except.error.injEq] at h
      subst h
      exact Or.inr rfl
    | ok y => simp at h

/-- `labelsOf` / `labelsOfArgs` fail the same way -/
theorem labelsOf_unkMacro_aux (ms : List (String × MacroDef)) : ∀ f,
    (∀ (depth : Nat) (e : Expr) (n : String), labelsOf ms f depth e = .error (.unknownMacro n) →
      e.callsMacro n = true ∨ TableCalls ms n) ∧
    (∀ (depth : Nat) (args : Exprs) (n : String), labelsOfArgs ms f depth args = .error (.unknownMacro n) →
      args.callsMacro n = true ∨ TableCalls ms n) := by
  intro f
  induction f with
  | zero =>
    constructor
    · intro depth e n h; simp [labelsOf] at h
    · intro depth args n h; simp [labelsOfArgs] at h
  | succ f ih =>
    have arith : ∀ (depth : Nat) (a b : Expr) (v : String),
        (labelsOf ms f depth a = .error (.unknownMacro v) ∨ labelsOf ms f depth b = .error (.unknownMacro v)) →
        (a.callsMacro v || b.callsMacro v) = true ∨ TableCalls ms v := by
      intro depth a b v h
      rcases h with h | h
      · rcases ih.1 depth a v h with h | h
        · left; simp [h]
        · exact Or.inr h
      · rcases ih.1 depth b v h with h | h
        · left; simp [h]
        · exact Or.inr h
    constructor
    · intro depth e n h
      cases e with
      | paren e => simp only [labelsOf] at h; simp only [Expr.callsMacro]; exact ih.1 depth e n h
      | num _ => simp [labelsOf] at h
      | label x => simp [labelsOf] at h
      | var x => simp [labelsOf] at h
      | plus a b =>
        simp only [labelsOf] at h; simp only [Expr.callsMacro]; exact arith depth a b n (labelsBind_unkMacro h)
      | minus a b =>
        simp only [labelsOf] at h; simp only [Expr.callsMacro]; exact arith depth a b n (labelsBind_unkMacro h)
      | times a b =>
        simp only [labelsOf] at h; simp only [Expr.callsMacro]; exact arith depth a b n (labelsBind_unkMacro h)
      | divide a b =>
        simp only [labelsOf] at h; simp only [Expr.callsMacro]; exact arith depth a b n (labelsBind_unkMacro h)
      | «macro» name args =>
        simp only [labelsOf] at h
        simp only [Expr.callsMacro, Bool.or_eq_true]
        cases hlk : lookupMacro ms name with
        | none =>
          rw [hlk] at h
          simp only [Except.error.injEq, EvErr.unknownMacro.injEq] at h
          subst h
          left; left; simp
        | some md =>
          cases md with
          | instr ps body =>
            rw [hlk] at h
            simp only [Except.error.injEq, EvErr.unknownMacro.injEq] at h
            subst h
            left; left; simp
          | expr params body =>
            rw [hlk] at h
            simp only [] at h
            split at h
            · simp at h
            · rcases labelsBind_unkMacro h with hh | hh
              · rcases ih.1 (depth + 1) body n hh with hb | hb
                · exact Or.inr ⟨name, params, body, hlk, hb⟩
                · exact Or.inr hb
              · rcases ih.2 depth args n hh with hb | hb
                · exact Or.inl (Or.inr hb)
                · exact Or.inr hb
    · intro depth args n h
      cases args with
      | nil => simp [labelsOfArgs] at h
      | cons a as =>
        simp only [labelsOfArgs] at h
        simp only [Exprs.callsMacro]
        rcases labelsBind_unkMacro h with hh | hh
        · rcases ih.1 depth a n hh with h | h
          · left; simp [h]
          · exact Or.inr h
        · rcases ih.2 depth as n hh with h | h
          · left; simp [h]
          · exact Or.inr h

/-! ### the invariant: every call / invocation the assembler state can still reach satisfies `PE` / `PI` -/

/-- every expression-macro call of the statement satisfies `PE`, every invocation (name, argument count) `PI` -/
structure AOpU (PE : String → Prop) (PI : String → Nat → Prop) (o : AOp) : Prop where
  calls : ∀ n, o.callsMacro n = true → PE n
  invokes : ∀ n a, o.invokesWith n a = true → PI n a

def DefU (PE : String → Prop) (PI : String → Nat → Prop) : MacroDef → Prop
  | .instr _ body => ∀ o ∈ body, AOpU PE PI o
  | .expr _ b => ExprC PE b

def TableU (PE : String → Prop) (PI : String → Nat → Prop) (ms : List (String × MacroDef)) : Prop :=
  ∀ n d, lookupMacro ms n = some d → DefU PE PI d

def ItemU (PE : String → Prop) : Item → Prop
  | .op _ (some e) => ExprC PE e
  | .push e => ExprC PE e
  | _ => True

/-- the state works on the scope's table `ms`; the table and the items waiting for `finish` call / invoke only what
`PE` / `PI` allow -/
structure StU (PE : String → Prop) (PI : String → Nat → Prop) (ms : List (String × MacroDef)) (s : St) : Prop where
  macros : s.macros = ms
  table : TableU PE PI ms
  ready : ∀ i ∈ s.ready, ItemU PE i

theorem StU.congr {PE PI ms} {s : St} (hs : StU PE PI ms s) (s' : St) (hm : s'.macros = s.macros)
    (hr : s'.ready = s.ready) : StU PE PI ms s' :=
  ⟨by rw [hm]; exact hs.macros, hs.table, by rw [hr]; exact hs.ready⟩

theorem StU.add {PE PI ms} {s : St} (hs : StU PE PI ms s) (s' : St) (item : Item) (hm : s'.macros = s.macros)
    (hr : s'.ready = s.ready ++ [item]) (hi : ItemU PE item) : StU PE PI ms s' := by
  refine ⟨by rw [hm]; exact hs.macros, hs.table, ?_⟩
  rw [hr]
  intro i hi'
  rcases List.mem_append.1 hi' with h | h
  · exact hs.ready i h
  · simp only [List.mem_singleton] at h; subst h; exact hi

/-- what an error of the three kinds says: the use satisfies `PE` / `PI` and the table `ms` lacks / has the
definition -/
def ErrU (PE : String → Prop) (PI : String → Nat → Prop) (ms : List (String × MacroDef)) : AsmErr → Prop
  | .undeclaredExpressionMacro n => PE n ∧ ∀ ps b, lookupMacro ms n ≠ some (.expr ps b)
  | .undeclaredInstructionMacro n => (∃ a, PI n a) ∧ ∀ ps b, lookupMacro ms n ≠ some (.instr ps b)
  | .macroArgumentCount n => ∃ ps b a, lookupMacro ms n = some (.instr ps b) ∧ PI n a ∧ a ≠ ps.length
  | _ => True

def ResU (PE : String → Prop) (PI : String → Nat → Prop) (ms : List (String × MacroDef)) :
    Except AsmErr St → Prop
  | .ok s' => StU PE PI ms s'
  | .error e => ErrU PE PI ms e

def EvU (PE : String → Prop) (ms : List (String × MacroDef)) : EvErr → Prop
  | .unknownMacro n => PE n ∧ ∀ ps b, lookupMacro ms n ≠ some (.expr ps b)
  | _ => True

theorem eval_U {PE PI} {f : Nat} {c : Ctx} {e : Expr} {err : EvErr} (ht : TableU PE PI c.macros)
    (he : ExprC PE e) (h : eval f c e = .error err) : EvU PE c.macros err := by
  cases err with
  | unknownMacro n =>
    refine ⟨?_, eval_fault f c e _ h⟩
    rcases (eval_unkMacro_aux f).1 c e n h with hv | ⟨m, ps, b, hlk, hv⟩
    · exact he n hv
    · exact ht m _ hlk n hv
  | unknownLabel l => trivial
  | undefinedVariable v => trivial
  | divisionByZero => trivial
  | recursionLimit n => trivial

theorem mapErr_U {PE PI ms} {err : EvErr} (h : EvU PE ms err) : ErrU PE PI ms (mapErr err) := by
  cases err with
  | unknownMacro n => exact h
  | unknownLabel l => trivial
  | undefinedVariable v => trivial
  | divisionByZero => trivial
  | recursionLimit n => trivial

theorem concretizeOp_U {PE PI} {c : Ctx} {code : Nat} {imm : Option Expr} {err : EvErr}
    (ht : TableU PE PI c.macros) (hi : ∀ e, imm = some e → ExprC PE e)
    (h : concretizeOp c code imm = .ctx err) : EvU PE c.macros err := by
  unfold concretizeOp at h
  cases imm with
  | none => simp at h
  | some e =>
    simp only [] at h
    cases hev : eval evalFuel c e with
    | error e2 =>
      rw [hev] at h
      simp only [Conc.ctx.injEq] at h
      subst h
      exact eval_U ht (hi e rfl) hev
    | ok x =>
      rw [hev] at h
      simp only [] at h
      split at h
      · cases h
      · split at h <;> cases h

theorem concretizePush_U {PE PI} {c : Ctx} {e : Expr} {err : EvErr}
    (ht : TableU PE PI c.macros) (hi : ExprC PE e)
    (h : concretizePush c e = .ctx err) : EvU PE c.macros err := by
  unfold concretizePush at h
  cases hev : eval evalFuel c e with
  | error e2 =>
    rw [hev] at h
    simp only [Conc.ctx.injEq] at h
    subst h
    exact eval_U ht hi hev
  | ok x =>
    rw [hev] at h
    simp only [] at h
    split at h
    · cases h
    · split at h <;> cases h

/-- `labels()` looks expression macros up too -/
theorem mentionedOf_U {PE PI} {ms : List (String × MacroDef)} {o : AOp} {e : AsmErr}
    (ht : TableU PE PI ms) (ho : ∀ x, o.expr? = some x → ExprC PE x)
    (h : mentionedOf ms o = .error e) : ErrU PE PI ms e := by
  unfold mentionedOf at h
  cases hx : o.expr? with
  | none => rw [hx] at h; simp at h
  | some x =>
    rw [hx] at h
    simp only [] at h
    cases hl : labelsOf ms evalFuel 0 x with
    | ok L => rw [hl] at h; simp at h
    | error err =>
      rw [hl] at h
      cases err with
      | unknownMacro n =>
        simp only [Except.error.injEq] at h
        subst h
        refine ⟨?_, labelsOf_fault ms evalFuel 0 x _ hl⟩
        rcases (labelsOf_unkMacro_aux ms evalFuel).1 0 x n hl with hv | ⟨m, ps, b, hlk, hv⟩
        · exact ho x hx n hv
        · exact ht m _ hlk n hv
      | unknownLabel l => simp only [Except.error.injEq] at h; subst h; trivial
      | undefinedVariable v => simp only [Except.error.injEq] at h; subst h; trivial
      | divisionByZero => simp only [Except.error.injEq] at h; subst h; trivial
      | recursionLimit n => simp only [Except.error.injEq] at h; subst h; trivial

theorem pushInstr_U {PE PI ms} (s : St) (o : AOp) (item : Item) (size : Option Nat) (conc : St → Conc)
    (hs : StU PE PI ms s) (hitem : ItemU PE item) (ho : ∀ x, o.expr? = some x → ExprC PE x)
    (hconc : ∀ (s1 : St) err, s1.macros = s.macros → conc s1 = .ctx err → EvU PE ms err) :
    ResU PE PI ms (pushInstr s o item size conc) := by
  rw [pushInstr_eq]
  cases hm : mentionedOf s.macros o with
  | error e =>
    simp only []
    rw [hs.macros] at hm
    exact mentionedOf_U hs.table ho hm
  | ok L =>
    simp only []
    cases hc : conc { s with undeclared := (L.filter (fun l => !isDefined s l)).foldl insertSet s.undeclared } with
    | ok bytes => exact hs.add _ item rfl rfl hitem
    | tooLarge =>
      simp only []
      split
      · exact hs.add _ item rfl rfl hitem
      · trivial
    | negative =>
      simp only []
      split
      · exact hs.add _ item rfl rfl hitem
      · trivial
    | ctx err =>
      have hf : ErrU PE PI ms (mapErr err) := mapErr_U (hconc _ _ (by rfl) hc)
      cases err with
      | divisionByZero =>
        simp only []
        split
        · exact hs.add _ item rfl rfl hitem
        · trivial
      | unknownLabel l => exact hs.add _ item rfl rfl hitem
      | unknownMacro n => exact hf
      | recursionLimit n => exact hf
      | undefinedVariable w => exact hf

/-! ### `finish` -/

theorem emitItem_U {PE PI} {c : Ctx} {item : Item} {ws : List Nat} {e : AsmErr}
    (ht : TableU PE PI c.macros) (hi : ItemU PE item)
    (h : emitItem c item ws = .error e) : ErrU PE PI c.macros e := by
  have key : ∀ (k : Conc), (∀ err, k = .ctx err → EvU PE c.macros err) → k.toExcept = .error e →
      ErrU PE PI c.macros e := by
    intro k hk hke
    cases k with
    | ok bs => simp [Conc.toExcept] at hke
    | tooLarge => simp only [Conc.toExcept, Except.error.injEq] at hke; subst hke; trivial
    | negative => simp only [Conc.toExcept, Except.error.injEq] at hke; subst hke; trivial
    | ctx err =>
      simp only [Conc.toExcept, Except.error.injEq] at hke
      subst hke
      exact mapErr_U (hk err rfl)
  cases item with
  | label l => simp [emitItem] at h
  | raw bs => simp [emitItem] at h
  | op code imm =>
    refine key _ (fun err hc => concretizeOp_U ht ?_ hc) h
    intro x hx
    subst hx
    exact hi
  | push ex =>
    refine key _ (fun err hc => concretizeOp_U ht ?_ hc) h
    intro x hx
    injection hx with hx
    subst hx
    exact hi

theorem emit_U {PE PI} {c : Ctx} (ht : TableU PE PI c.macros) {e : AsmErr} :
    ∀ (items : List Item) (ws : List Nat), (∀ i ∈ items, ItemU PE i) →
      emit c items ws = .error e → ErrU PE PI c.macros e := by
  intro items
  induction items with
  | nil => intro ws _ h; simp [emit] at h
  | cons x rest ih =>
    intro ws hall h
    rw [emit_cons] at h
    cases hx : emitItem c x ws with
    | error e2 =>
      rw [hx] at h
      simp only [Except.error.injEq] at h
      subst h
      exact emitItem_U ht (hall x (List.mem_cons_self ..)) hx
    | ok bs =>
      rw [hx] at h
      simp only [] at h
      cases hy : emit c rest (ws.drop (pushCount [x])) with
      | error e2 =>
        rw [hy] at h
        simp only [Except.error.injEq] at h
        subst h
        exact ih _ (fun i hi => hall i (List.mem_cons_of_mem _ hi)) hy
      | ok more => rw [hy] at h; simp at h

theorem finish_U {PE PI ms} {s : St} (hs : StU PE PI ms s) {e : AsmErr}
    (h : finish s = .error e) : ErrU PE PI ms e := by
  rw [finish_unfold] at h
  split at h
  · simp only [Except.error.injEq] at h; subst h; trivial
  · have := emit_U (PE := PE) (PI := PI) (c := ⟨_, s.macros, none, 0⟩) (by rw [hs.macros]; exact hs.table) _ _ hs.ready h
    rw [hs.macros] at this
    exact this

/-! ### the macro table of a scope comes from the scope's definition statements -/

theorem AOps.callsMacro_of_mem (n : String) : ∀ (body : AOps) (o : AOp),
    o ∈ body.toList → o.callsMacro n = true → body.callsMacro n = true
  | .nil, o, h, _ => by simp [AOps.toList] at h
  | .cons x t, o, h, hv => by
    simp only [AOps.toList, List.mem_cons] at h
    simp only [AOps.callsMacro, Bool.or_eq_true]
    rcases h with h | h
    · subst h; exact Or.inl hv
    · exact Or.inr (AOps.callsMacro_of_mem n t o h hv)

theorem AOps.invokesWith_of_mem (n : String) (a : Nat) : ∀ (body : AOps) (o : AOp),
    o ∈ body.toList → o.invokesWith n a = true → body.invokesWith n a = true
  | .nil, o, h, _ => by simp [AOps.toList] at h
  | .cons x t, o, h, hv => by
    simp only [AOps.toList, List.mem_cons] at h
    simp only [AOps.invokesWith, Bool.or_eq_true]
    rcases h with h | h
    · subst h; exact Or.inl hv
    · exact Or.inr (AOps.invokesWith_of_mem n a t o h hv)

/-- every entry of the table `declareMacros` builds is the definition of an `.instrDef` / `.exprDef` statement -/
theorem declareMacros_U {PE PI} : ∀ (l : List RawOp) (ms0 ms : List (String × MacroDef)),
    declareMacros l ms0 = .ok ms → (∀ p ∈ ms0, DefU PE PI p.2) → (∀ o, RawOp.op o ∈ l → AOpU PE PI o) →
    ∀ p ∈ ms, DefU PE PI p.2 := by
  intro l
  induction l with
  | nil =>
    intro ms0 ms h h0 _
    simp only [declareMacros, Except.ok.injEq] at h
    subst h
    exact h0
  | cons x rest ih =>
    intro ms0 ms h h0 hl
    have hrest : ∀ o, RawOp.op o ∈ rest → AOpU PE PI o := fun o ho => hl o (List.mem_cons_of_mem _ ho)
    cases x with
    | op o =>
      cases o with
      | instrDef n ps body =>
        simp only [declareMacros] at h
        split at h
        · cases h
        · refine ih _ ms h ?_ hrest
          intro p hp
          rcases List.mem_append.1 hp with hp | hp
          · exact h0 p hp
          · simp only [List.mem_singleton] at hp
            subst hp
            have htop := hl _ (List.mem_cons_self ..)
            intro o ho
            exact ⟨fun v hv => htop.calls v
                (by simp only [AOp.callsMacro]; exact AOps.callsMacro_of_mem v body o ho hv),
              fun v a hv => htop.invokes v a
                (by simp only [AOp.invokesWith]; exact AOps.invokesWith_of_mem v a body o ho hv)⟩
      | exprDef n ps body =>
        simp only [declareMacros] at h
        split at h
        · cases h
        · refine ih _ ms h ?_ hrest
          intro p hp
          rcases List.mem_append.1 hp with hp | hp
          · exact h0 p hp
          · simp only [List.mem_singleton] at hp
            subst hp
            intro v hv
            exact (hl _ (List.mem_cons_self ..)).calls v (by simp only [AOp.callsMacro]; exact hv)
      | op code imm => simp only [declareMacros] at h; exact ih _ ms h h0 hrest
      | label l => simp only [declareMacros] at h; exact ih _ ms h h0 hrest
      | push ex => simp only [declareMacros] at h; exact ih _ ms h h0 hrest
      | «macro» n args => simp only [declareMacros] at h; exact ih _ ms h h0 hrest
    | scope ops => simp only [declareMacros] at h; exact ih _ ms h h0 hrest
    | raw bs => simp only [declareMacros] at h; exact ih _ ms h h0 hrest

theorem declareMacros_tableU {PE PI} {l : List RawOp} {ms : List (String × MacroDef)}
    (h : declareMacros l [] = .ok ms) (hl : ∀ o, RawOp.op o ∈ l → AOpU PE PI o) : TableU PE PI ms := by
  intro n d hlk
  obtain ⟨p, hp, rfl⟩ := lookupMacro_mem_table hlk
  exact declareMacros_U l [] ms h (by intro p hp; cases hp) hl p hp

/-! ### `instantiate`: calls come from the body or from the arguments; invocations (names, argument counts) from the body -/

theorem AOpU.label (PE : String → Prop) (PI : String → Nat → Prop) (l : String) : AOpU PE PI (.label l) :=
  ⟨by intro v hv; simp [AOp.callsMacro] at hv, by intro v a hv; simp [AOp.invokesWith] at hv⟩

theorem aop_macro_calls {PE : String → Prop} {n : String} {args : List Expr} :
    (∀ v, (AOp.macro n args).callsMacro v = true → PE v) ↔ ∀ a ∈ args, ExprC PE a := by
  constructor
  · intro h a ha v hv
    exact h v (by simp only [AOp.callsMacro, List.any_eq_true]; exact ⟨a, ha, hv⟩)
  · intro h v hv
    simp only [AOp.callsMacro, List.any_eq_true] at hv
    obtain ⟨a, ha, hv⟩ := hv
    exact h a ha v hv

/-- `renameLocals` only replaces label statements by label statements -/
theorem renameLocals_pred (Q : AOp → Prop) (hQ : ∀ l, Q (.label l)) (rnd : Nat → Nat) (name : String) :
    ∀ (body : List AOp) (k : Nat)
    (m : List (String × String)) (os : List AOp) (k' : Nat) (m' : List (String × String)),
    renameLocals rnd name body k m = .ok (os, k', m') → (∀ o ∈ body, Q o) → ∀ o ∈ os, Q o := by
  intro body
  induction body with
  | nil =>
    intro k m os k' m' h _
    simp only [renameLocals, Except.ok.injEq, Prod.mk.injEq] at h
    obtain ⟨rfl, _, _⟩ := h
    intro o ho; cases ho
  | cons o rest ih =>
    intro k m os k' m' h hb
    have hrest : ∀ o ∈ rest, Q o := fun x hx => hb x (List.mem_cons_of_mem _ hx)
    have other : (match renameLocals rnd name rest k m with
        | .error e => Except.error e
        | .ok (os, k', m') => (.ok (o :: os, k', m') : Except AsmErr (List AOp × Nat × List (String × String))))
          = .ok (os, k', m') → ∀ x ∈ os, Q x := by
      intro h
      cases hr : renameLocals rnd name rest k m with
      | error e2 => rw [hr] at h; simp at h
      | ok r =>
        obtain ⟨os1, k1, m1⟩ := r
        rw [hr] at h
        simp only [Except.ok.injEq, Prod.mk.injEq] at h
        obtain ⟨rfl, _, _⟩ := h
        intro x hx
        rcases List.mem_cons.1 hx with hx | hx
        · subst hx; exact hb _ (List.mem_cons_self ..)
        · exact ih _ _ _ _ _ hr hrest x hx
    cases o with
    | label l =>
      simp only [renameLocals] at h
      split at h
      · cases h
      · cases hr : renameLocals rnd name rest (k + 1) (m ++ [(l, mangle rnd k name l)]) with
        | error e2 => rw [hr] at h; simp at h
        | ok r =>
          obtain ⟨os1, k1, m1⟩ := r
          rw [hr] at h
          simp only [Except.ok.injEq, Prod.mk.injEq] at h
          obtain ⟨rfl, _, _⟩ := h
          intro x hx
          rcases List.mem_cons.1 hx with hx | hx
          · subst hx; exact hQ _
          · exact ih _ _ _ _ _ hr hrest x hx
    | op code imm => simp only [renameLocals] at h; exact other h
    | push ex => simp only [renameLocals] at h; exact other h
    | instrDef n ps b => simp only [renameLocals] at h; exact other h
    | exprDef n ps b => simp only [renameLocals] at h; exact other h
    | «macro» n args => simp only [renameLocals] at h; exact other h

/-- `substBody` keeps the names and argument counts of nested invocations; the calls of the rewritten expressions
come from the body or from the bound arguments -/
theorem substBody_U {PE PI} (renames : List (String × String)) (bs : List (String × Expr))
    (body : List AOp) (hb : ∀ p ∈ bs, ExprC PE p.2) (hbody : ∀ o ∈ body, AOpU PE PI o) :
    ∀ o ∈ substBody renames bs body, AOpU PE PI o := by
  intro o' ho'
  simp only [substBody, List.mem_map] at ho'
  obtain ⟨o, ho, rfl⟩ := ho'
  have hin := hbody o ho
  cases o with
  | label l => exact hin
  | instrDef n ps b => exact hin
  | exprDef n ps b => exact hin
  | push ex =>
    refine ⟨?_, by intro v a hv; simp [AOp.invokesWith] at hv⟩
    intro v hv
    simp only [AOp.callsMacro] at hv
    exact substFix_calls hb ex (fun v hv => hin.calls v (by simp only [AOp.callsMacro]; exact hv)) v hv
  | op code imm =>
    cases imm with
    | none => exact hin
    | some ex =>
      refine ⟨?_, by intro v a hv; simp [AOp.invokesWith] at hv⟩
      intro v hv
      simp only [AOp.callsMacro] at hv
      exact substFix_calls hb ex (fun v hv => hin.calls v (by simp only [AOp.callsMacro]; exact hv)) v hv
  | «macro» n args =>
    simp only []
    refine ⟨?_, ?_⟩
    · rw [aop_macro_calls]
      have hc := aop_macro_calls.1 hin.calls
      intro a ha
      simp only [List.mem_map] at ha
      obtain ⟨a0, ha0, rfl⟩ := ha
      exact substFix_calls hb a0 (hc a0 ha0)
    · intro v a hv
      simp only [AOp.invokesWith, List.length_map] at hv
      exact hin.invokes v a (by simp only [AOp.invokesWith]; exact hv)

theorem instantiate_U {PE PI} (rnd : Nat → Nat) (name : String) (params : List String)
    (body : List AOp) (args : List Expr) (fresh : Nat) (body2 : List AOp) (k : Nat)
    (h : instantiate rnd name params body args fresh = .ok (body2, k))
    (hbody : ∀ o ∈ body, AOpU PE PI o) (hargs : ∀ a ∈ args, ExprC PE a) : ∀ o ∈ body2, AOpU PE PI o := by
  unfold instantiate at h
  split at h
  · cases h
  · cases hr : renameLocals rnd name body fresh [] with
    | error e2 => rw [hr] at h; simp at h
    | ok r =>
      obtain ⟨body1, k1, renames⟩ := r
      rw [hr] at h
      simp only [Except.ok.injEq, Prod.mk.injEq] at h
      obtain ⟨rfl, _⟩ := h
      apply substBody_U
      · intro p hp
        exact hargs p.2 (List.of_mem_zip hp).2
      · exact renameLocals_pred _ (AOpU.label PE PI) rnd name body fresh [] _ _ _ hr hbody

/-! ### within one scope -/

theorem errU_undeclaredInstr {PE PI ms} {n : String} {a : Nat} (h1 : PI n a)
    (h2 : ∀ ps b, lookupMacro ms n ≠ some (.instr ps b)) : ErrU PE PI ms (.undeclaredInstructionMacro n) := by
  show (∃ a, PI n a) ∧ _
  exact ⟨⟨a, h1⟩, h2⟩

theorem errU_argCount {PE PI ms} {n : String} {a : Nat} {ps : List String} {b : List AOp}
    (h0 : lookupMacro ms n = some (.instr ps b)) (h1 : PI n a) (h2 : a ≠ ps.length) :
    ErrU PE PI ms (.macroArgumentCount n) := by
  show ∃ ps b a, lookupMacro ms n = some (.instr ps b) ∧ PI n a ∧ a ≠ ps.length
  exact ⟨ps, b, a, h0, h1, h2⟩

theorem resU_error {PE PI ms} {e : AsmErr} (h : ErrU PE PI ms e) : ResU PE PI ms (.error e) := h

theorem ops_U (rnd : Nat → Nat) (PE : String → Prop) (PI : String → Nat → Prop) (ms : List (String × MacroDef)) :
    ∀ f,
    (∀ s o, StU PE PI ms s → AOpU PE PI o → ResU PE PI ms (push rnd f s (.op o))) ∧
    (∀ s name args, StU PE PI ms s → (∀ a ∈ args, ExprC PE a) → PI name args.length →
      ResU PE PI ms (expandMacro rnd f s name args)) ∧
    (∀ s body, StU PE PI ms s → (∀ o ∈ body, AOpU PE PI o) → ResU PE PI ms (feed rnd f s body)) := by
  intro f
  induction f with
  | zero =>
    refine ⟨?_, ?_, ?_⟩
    · intro s o _ _; simp only [push]; trivial
    · intro s name args _ _ _; simp only [expandMacro]; trivial
    · intro s body _ _; simp only [feed]; trivial
  | succ f ih =>
    obtain ⟨ihP, ihM, ihF⟩ := ih
    refine ⟨?_, ?_, ?_⟩
    · intro s o hs ho
      cases o with
      | label l =>
        simp only [push]
        split
        · trivial
        · exact hs.add _ (.label l) rfl rfl trivial
      | instrDef n ps body => simp only [push]; exact hs
      | exprDef n ps body => simp only [push]; exact hs
      | «macro» name args =>
        simp only [push]
        exact ihM s name args hs (aop_macro_calls.1 ho.calls)
          (ho.invokes name args.length (by simp [AOp.invokesWith]))
      | op code imm =>
        simp only [push]
        have hi : ∀ e, imm = some e → ExprC PE e := by
          intro e he v hv
          subst he
          exact ho.calls v (by simp only [AOp.callsMacro]; exact hv)
        apply pushInstr_U s _ _ _ _ hs
        · cases imm with
          | none => trivial
          | some e => exact hi e rfl
        · intro x hx; exact hi x hx
        · intro s1 err hs1 hc
          have := concretizeOp_U (PE := PE) (PI := PI) (c := s1.ctx)
            (by simp only [St.ctx]; rw [hs1, hs.macros]; exact hs.table) hi hc
          simp only [St.ctx] at this
          rw [hs1, hs.macros] at this
          exact this
      | push ex =>
        simp only [push]
        have hi : ExprC PE ex := fun v hv => ho.calls v (by simp only [AOp.callsMacro]; exact hv)
        apply pushInstr_U s _ _ _ _ hs (show ItemU PE (.push ex) from hi)
        · intro x hx
          simp only [AOp.expr?, Option.some.injEq] at hx
          subst hx
          exact hi
        · intro s1 err hs1 hc
          have := concretizePush_U (PE := PE) (PI := PI) (c := s1.ctx)
            (by simp only [St.ctx]; rw [hs1, hs.macros]; exact hs.table) hi hc
          simp only [St.ctx] at this
          rw [hs1, hs.macros] at this
          exact this
    · intro s name args hs hargs hPI
      simp only [expandMacro]
      cases hlk : lookupMacro s.macros name with
      | none =>
        simp only []
        refine resU_error (errU_undeclaredInstr hPI ?_)
        intro ps b hc
        rw [← hs.macros, hlk] at hc
        cases hc
      | some md =>
        cases md with
        | expr ps body =>
          simp only []
          refine resU_error (errU_undeclaredInstr hPI ?_)
          intro ps' b hc
          rw [← hs.macros, hlk] at hc
          cases hc
        | instr params body =>
          simp only []
          have hlk' : lookupMacro ms name = some (.instr params body) := by rw [← hs.macros]; exact hlk
          split
          · rename_i hne
            exact resU_error (errU_argCount hlk' hPI (fun h => hne h.symm))
          · rename_i heq
            split
            · trivial
            · cases hinst : instantiate rnd name params body args s.fresh with
              | error e =>
                simp only []
                rcases instantiate_err _ _ _ _ _ _ _ hinst with he | ⟨l, he⟩
                · subst he
                  unfold instantiate at hinst
                  rw [if_neg heq] at hinst
                  cases hr : renameLocals rnd name body s.fresh [] with
                  | error e2 =>
                    obtain ⟨l, hl⟩ := renameLocals_err rnd name body s.fresh [] _ hr
                    rw [hr] at hinst
                    simp only [Except.error.injEq] at hinst
                    rw [hl] at hinst
                    cases hinst
                  | ok r => obtain ⟨x, y, z⟩ := r; rw [hr] at hinst; simp at hinst
                · subst he; trivial
              | ok r =>
                obtain ⟨body2, k⟩ := r
                simp only []
                have hb2 := instantiate_U rnd name params body args s.fresh body2 k hinst
                  (hs.table name _ hlk') hargs
                have hfeed := ihF { s with depth := s.depth + 1, fresh := k } body2 (hs.congr _ rfl rfl) hb2
                cases hfd : feed rnd f { s with depth := s.depth + 1, fresh := k } body2 with
                | error e =>
                  rw [hfd] at hfeed
                  exact hfeed
                | ok s' =>
                  rw [hfd] at hfeed
                  exact (show StU PE PI ms s' from hfeed).congr _ rfl rfl
    · intro s body hs hbody
      cases body with
      | nil => simp only [feed]; exact hs
      | cons o os =>
        simp only [feed]
        have hp := ihP s o hs (hbody o (List.mem_cons_self ..))
        cases hpush : push rnd f s (.op o) with
        | error e =>
          rw [hpush] at hp
          exact hp
        | ok s' =>
          rw [hpush] at hp
          exact ihF s' os hp (fun x hx => hbody x (List.mem_cons_of_mem _ hx))

/-! ### the steps induction through nested scopes -/

/-- what the three statements say about the scope `ops` (nothing for the other error kinds) -/
def UseProv (ops : RawOps) : AsmErr → Prop
  | .undeclaredExpressionMacro n =>
    ∃ (sub : RawOps) (ms : List (String × MacroDef)) (o : AOp),
      SubScope sub ops ∧ declareMacros sub.toList [] = .ok ms ∧
      (∀ ps body, lookupMacro ms n ≠ some (.expr ps body)) ∧
      RawOp.op o ∈ sub.toList ∧ o.callsMacro n = true
  | .undeclaredInstructionMacro n =>
    ∃ (sub : RawOps) (ms : List (String × MacroDef)) (o : AOp) (a : Nat),
      SubScope sub ops ∧ declareMacros sub.toList [] = .ok ms ∧
      (∀ ps body, lookupMacro ms n ≠ some (.instr ps body)) ∧
      RawOp.op o ∈ sub.toList ∧ o.invokesWith n a = true
  | .macroArgumentCount n =>
    ∃ (sub : RawOps) (ms : List (String × MacroDef)) (ps : List String) (body : List AOp) (o : AOp) (a : Nat),
      SubScope sub ops ∧ declareMacros sub.toList [] = .ok ms ∧
      lookupMacro ms n = some (.instr ps body) ∧
      RawOp.op o ∈ sub.toList ∧ o.invokesWith n a = true ∧ a ≠ ps.length
  | _ => True

theorem UseProv.nested {inner ops : RawOps} {e : AsmErr}
    (hmem : RawOp.scope inner ∈ ops.toList) (h : UseProv inner e) : UseProv ops e := by
  cases e with
  | undeclaredExpressionMacro n =>
    obtain ⟨sub, ms, o, hsub, rest⟩ := h
    exact ⟨sub, ms, o, SubScope.nested sub inner ops hmem hsub, rest⟩
  | undeclaredInstructionMacro n =>
    obtain ⟨sub, ms, o, a, hsub, rest⟩ := h
    exact ⟨sub, ms, o, a, SubScope.nested sub inner ops hmem hsub, rest⟩
  | macroArgumentCount n =>
    obtain ⟨sub, ms, ps, body, o, a, hsub, rest⟩ := h
    exact ⟨sub, ms, ps, body, o, a, SubScope.nested sub inner ops hmem hsub, rest⟩
  | duplicateLabel l => trivial
  | duplicateMacro n => trivial
  | expressionTooLarge => trivial
  | expressionNegative => trivial
  | undeclaredLabels ls => trivial
  | undeclaredVariableMacro v => trivial
  | divisionByZero => trivial
  | macroRecursionLimit n => trivial
  | panic site => trivial

/-- a top-level statement of the scope calls `n(…)` -/
def ScopeCalls (ops : RawOps) (n : String) : Prop := ∃ o, RawOp.op o ∈ ops.toList ∧ o.callsMacro n = true
/-- a top-level statement of the scope is / contains an invocation `%n(…)` with `a` arguments -/
def ScopeInvokes (ops : RawOps) (n : String) (a : Nat) : Prop :=
  ∃ o, RawOp.op o ∈ ops.toList ∧ o.invokesWith n a = true

theorem useProv_of_errU {ops : RawOps} {ms : List (String × MacroDef)} {e : AsmErr}
    (hdm : declareMacros ops.toList [] = .ok ms)
    (h : ErrU (ScopeCalls ops) (ScopeInvokes ops) ms e) : UseProv ops e := by
  cases e with
  | undeclaredExpressionMacro n =>
    obtain ⟨⟨o, ho, hv⟩, hn⟩ := h
    exact ⟨ops, ms, o, SubScope.refl ops, hdm, hn, ho, hv⟩
  | undeclaredInstructionMacro n =>
    obtain ⟨⟨a, o, ho, hv⟩, hn⟩ := h
    exact ⟨ops, ms, o, a, SubScope.refl ops, hdm, hn, ho, hv⟩
  | macroArgumentCount n =>
    obtain ⟨ps, b, a, hlk, ⟨o, ho, hv⟩, hne⟩ := h
    exact ⟨ops, ms, ps, b, o, a, SubScope.refl ops, hdm, hlk, ho, hv, hne⟩
  | duplicateLabel l => trivial
  | duplicateMacro n => trivial
  | expressionTooLarge => trivial
  | expressionNegative => trivial
  | undeclaredLabels ls => trivial
  | undeclaredVariableMacro v => trivial
  | divisionByZero => trivial
  | macroRecursionLimit n => trivial
  | panic site => trivial

theorem useProv_steps (rnd : Nat → Nat) : ∀ f,
    (∀ k ops e, assemble rnd f { fresh := k } ops = .error e → UseProv ops e) ∧
    (∀ (PE : String → Prop) (PI : String → Nat → Prop) (ms : List (String × MacroDef)) s rop,
      StU PE PI ms s → (∀ o, rop = .op o → AOpU PE PI o) →
      (∀ s', push rnd f s rop = .ok s' → StU PE PI ms s') ∧
      (∀ e, push rnd f s rop = .error e →
        ErrU PE PI ms e ∨ ∃ inner, rop = .scope inner ∧ UseProv inner e)) ∧
    (∀ (PE : String → Prop) (PI : String → Nat → Prop) (ms : List (String × MacroDef)) s ops,
      StU PE PI ms s → (∀ o, RawOp.op o ∈ ops.toList → AOpU PE PI o) →
      (∀ s', feedAll rnd f s ops = .ok s' → StU PE PI ms s') ∧
      (∀ e, feedAll rnd f s ops = .error e →
        ErrU PE PI ms e ∨ ∃ inner, RawOp.scope inner ∈ ops.toList ∧ UseProv inner e)) := by
  intro f
  induction f with
  | zero =>
    refine ⟨?_, ?_, ?_⟩
    · intro k ops e h
      simp only [assemble, Except.error.injEq] at h
      subst h
      trivial
    · intro PE PI ms s rop _ _
      refine ⟨by intro s' h; simp [push] at h, ?_⟩
      intro e h
      simp only [push, Except.error.injEq] at h
      subst h
      exact Or.inl trivial
    · intro PE PI ms s ops _ _
      refine ⟨by intro s' h; simp [feedAll] at h, ?_⟩
      intro e h
      simp only [feedAll, Except.error.injEq] at h
      subst h
      exact Or.inl trivial
  | succ f ih =>
    obtain ⟨ihA, ihP, ihF⟩ := ih
    refine ⟨?_, ?_, ?_⟩
    · intro k ops e h
      simp only [assemble] at h
      cases hdm : declareMacros ops.toList [] with
      | error e2 =>
        rw [hdm] at h
        simp only [Except.error.injEq] at h
        subst h
        obtain ⟨m, hm⟩ := declareMacros_err _ _ _ hdm
        subst hm
        trivial
      | ok ms =>
        rw [hdm] at h
        simp only [] at h
        have hall : ∀ o, RawOp.op o ∈ ops.toList → AOpU (ScopeCalls ops) (ScopeInvokes ops) o :=
          fun o ho => ⟨fun w hw => ⟨o, ho, hw⟩, fun w a hw => ⟨o, ho, hw⟩⟩
        have hs0 : StU (ScopeCalls ops) (ScopeInvokes ops) ms { macros := ms, fresh := k } :=
          ⟨rfl, declareMacros_tableU hdm hall, by intro i hi; cases hi⟩
        have hF := ihF (ScopeCalls ops) (ScopeInvokes ops) ms { macros := ms, fresh := k } ops hs0 hall
        cases hfa : feedAll rnd f { macros := ms, fresh := k } ops with
        | error e2 =>
          rw [hfa] at h
          simp only [Except.error.injEq] at h
          subst h
          rcases hF.2 _ hfa with hp | ⟨inner, hmem, hp⟩
          · exact useProv_of_errU hdm hp
          · exact hp.nested hmem
        | ok s =>
          rw [hfa] at h
          simp only [] at h
          cases hx : finish s with
          | error e2 =>
            rw [hx] at h
            simp only [Except.map, Except.error.injEq] at h
            subst h
            exact useProv_of_errU hdm (finish_U (hF.1 s hfa) hx)
          | ok b => rw [hx] at h; simp [Except.map] at h
    · intro PE PI ms s rop hs hrop
      cases rop with
      | op o =>
        have := (ops_U rnd PE PI ms (f + 1)).1 s o hs (hrop o rfl)
        refine ⟨?_, ?_⟩
        · intro s' h; rw [h] at this; exact this
        · intro e h; rw [h] at this; exact Or.inl this
      | raw bs =>
        refine ⟨?_, by intro e h; simp [push] at h⟩
        intro s' h
        simp only [push, Except.ok.injEq] at h
        subst h
        exact hs.add _ (.raw bs) rfl rfl trivial
      | scope inner =>
        simp only [push]
        cases hasm : assemble rnd f { fresh := s.fresh } inner with
        | error e2 =>
          refine ⟨(by intro s' h; cases h), ?_⟩
          intro e h
          simp only [Except.error.injEq] at h
          subst h
          exact Or.inr ⟨inner, rfl, ihA _ _ _ hasm⟩
        | ok r =>
          obtain ⟨b, k⟩ := r
          refine ⟨?_, by intro e h; cases h⟩
          intro s' h
          simp only [Except.ok.injEq] at h
          subst h
          exact hs.add _ (.raw b) rfl rfl trivial
    · intro PE PI ms s ops hs hops
      cases ops with
      | nil =>
        simp only [feedAll]
        exact ⟨by intro s' h; injection h with h; subst h; exact hs, by intro e h; cases h⟩
      | cons o rest =>
        simp only [feedAll]
        have hP := ihP PE PI ms s o hs (by intro x hx; subst hx; exact hops x (by simp [RawOps.toList]))
        cases hpush : push rnd f s o with
        | error e2 =>
          refine ⟨(by intro s' h; cases h), ?_⟩
          intro e h
          simp only [Except.error.injEq] at h
          subst h
          rcases hP.2 _ hpush with hp | ⟨inner, hi, hp⟩
          · exact Or.inl hp
          · subst hi
            exact Or.inr ⟨inner, by simp [RawOps.toList], hp⟩
        | ok s' =>
          simp only []
          have hF := ihF PE PI ms s' rest (hP.1 s' hpush)
            (by intro x hx; exact hops x (by simp only [RawOps.toList]; exact List.mem_cons_of_mem _ hx))
          refine ⟨hF.1, ?_⟩
          intro e h
          rcases hF.2 e h with hp | ⟨inner, hmem, hp⟩
          · exact Or.inl hp
          · exact Or.inr ⟨inner, by simp only [RawOps.toList]; exact List.mem_cons_of_mem _ hmem, hp⟩

/-! ### the three statements -/

theorem undeclaredExpressionMacro_use (rnd : Nat → Nat) (fuel k : Nat) (ops : RawOps) (n : String)
    (h : assemble rnd fuel { fresh := k } ops = .error (.undeclaredExpressionMacro n)) :
    ∃ (sub : RawOps) (ms : List (String × MacroDef)) (o : AOp),
      SubScope sub ops ∧ declareMacros sub.toList [] = .ok ms ∧
      (∀ ps body, lookupMacro ms n ≠ some (.expr ps body)) ∧
      RawOp.op o ∈ sub.toList ∧ o.callsMacro n = true :=
  (useProv_steps rnd fuel).1 k ops _ h

theorem undeclaredInstructionMacro_use (rnd : Nat → Nat) (fuel k : Nat) (ops : RawOps) (n : String)
    (h : assemble rnd fuel { fresh := k } ops = .error (.undeclaredInstructionMacro n)) :
    ∃ (sub : RawOps) (ms : List (String × MacroDef)) (o : AOp) (a : Nat),
      SubScope sub ops ∧ declareMacros sub.toList [] = .ok ms ∧
      (∀ ps body, lookupMacro ms n ≠ some (.instr ps body)) ∧
      RawOp.op o ∈ sub.toList ∧ o.invokesWith n a = true :=
  (useProv_steps rnd fuel).1 k ops _ h

theorem macroArgumentCount_use (rnd : Nat → Nat) (fuel k : Nat) (ops : RawOps) (n : String)
    (h : assemble rnd fuel { fresh := k } ops = .error (.macroArgumentCount n)) :
    ∃ (sub : RawOps) (ms : List (String × MacroDef)) (ps : List String) (body : List AOp) (o : AOp) (a : Nat),
      SubScope sub ops ∧ declareMacros sub.toList [] = .ok ms ∧
      lookupMacro ms n = some (.instr ps body) ∧
      RawOp.op o ∈ sub.toList ∧ o.invokesWith n a = true ∧ a ≠ ps.length :=
  (useProv_steps rnd fuel).1 k ops _ h

end Asm
end EtkVerif
