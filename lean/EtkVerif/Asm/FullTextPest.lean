/-
The whole surface language: every structured program text parses — full pest
interpreter over the regenerated grammar, then the walk of `parse_asm` — to
exactly one node per statement, the node `FullText.Stmt.node` describes.
-/
import EtkVerif.Asm.FullText
import EtkVerif.Asm.FullTextStmt3
import EtkVerif.Asm.FullTextDir
import EtkVerif.Asm.FullTextExprDef
import EtkVerif.Asm.FullTextMacro
import EtkVerif.Asm.FullTextTop
namespace EtkVerif
namespace Asm
namespace FullText
open Layout

/-- every well-formed statement satisfies the per-statement interface, on every text -/
theorem stmt_fact (text : List Nat) (st : Stmt) (h : st.WF) : StmtFact text st := by
  cases st with
  | plain b => exact (bstmt_facts b h).1
  | directive d g1 g2 path g3 => exact fact_directive d g1 g2 path g3 h
  | macroDef g0 d trail c crlf more body lead =>
    exact fact_macroDef (fun d hd => decl_fact d hd) (fun b hb => body_fact b hb) g0 d trail c crlf more body lead h
  | exprDef g0 d t1 crlf1 l2 s t2 crlf2 l3 =>
    exact fact_exprDef (fun s hs => seq_fact s hs) (fun s hs => seq_walk s hs) g0 d t1 crlf1 l2 s t2 crlf2 l3 h

theorem parse_full (head : List BlankLine) (items : List Item) (h : WF head items) :
    parseAsm (render head items) = .ok (items.map (fun x => x.stmt.node)) :=
  parse_full_of stmt_fact head items h

end FullText
end Asm
end EtkVerif
