/-
Text to nodes for the whole surface language, given the facts about one statement:
whatever the layout, a program parses — full pest interpreter over the regenerated
grammar, then the walk of `parse_asm` — to exactly one node per statement (the port
of ProgTextPest.lean to `FullText`).
-/
import EtkVerif.Asm.FullTextLoop
import EtkVerif.Asm.ProgTextPest
namespace EtkVerif
namespace Asm
namespace FullText
open Layout
open Pest Listing ExprText

/-! ### terminated statements first, then possibly one unterminated statement -/

theorem split_open : ∀ (items : List Item), OpenOnlyLast items →
    ∃ cs os, items = cs ++ os ∧ (∀ x ∈ cs, x.term.isOpen = false) ∧
      (os = [] ∨ ∃ xo t c, os = [xo] ∧ xo.term = .open_ t c)
  | [], _ => ⟨[], [], rfl, by simp, Or.inl rfl⟩
  | [x], _ => by
    cases hx : x.term with
    | open_ t c => exact ⟨[], [x], rfl, by simp, Or.inr ⟨x, t, c, rfl, hx⟩⟩
    | semi b a => exact ⟨[x], [], rfl, by simp [hx, Term.isOpen], Or.inl rfl⟩
    | line t c crlf more => exact ⟨[x], [], rfl, by simp [hx, Term.isOpen], Or.inl rfl⟩
  | x :: y :: rest, h => by
    obtain ⟨cs, os, h1, h2, h3⟩ := split_open (y :: rest) h.2
    refine ⟨x :: cs, os, by rw [h1]; rfl, ?_, h3⟩
    intro z hz
    rcases List.mem_cons.mp hz with hz | hz
    · rw [hz]; exact h.1
    · exact h2 z hz

variable {text : List Nat}

/-! ### before the first statement -/

theorem head_ok (head : List BlankLine) (items : List Item) (hh : ∀ b ∈ head, b.WF)
    (hit : ∀ x ∈ items, ItemOK x) (htext : text = render head items) :
    ∃ a0 a1 S0, Sk (envOf text) (text.length + 100) .nonAtomic 0 a0 ∧
      (∀ f, 2 * text.length + 300 ≤ f →
        matchE (envOf text) f (.star (.ref 1003)) .nonAtomic false a0 = some (a1, [])) ∧
      Sk (envOf text) (text.length + 100) .nonAtomic a1 S0 ∧ Suf text S0 (core items) := by
  have hlB := leadOf_blanks hit
  have hst := core_start hit
  have h0 : Suf text 0 (head.flatMap BlankLine.text ++ (leadOf items ++ core items)) := by
    have he : text = head.flatMap BlankLine.text ++ (leadOf items ++ core items) := by
      rw [htext, render, ← body_eq]; rfl
    have := Suf.zero text
    rw [he] at this ⊢
    exact this
  cases head with
  | nil =>
    have hs : Suf text 0 (leadOf items ++ core items) := by simpa using h0
    have hlen := hs.len
    simp only [List.length_append] at hlen
    have hsk := ProgText.skip_to_start hlB hst hs
    simp only [Nat.zero_add] at hsk
    have hs2 : Suf text (leadOf items).length (core items) := by
      have := Suf.app (a := leadOf items) (b := core items) hs
      simpa using this
    have hnone : GapG [] (core items) := hst.gapG IsBlanks.nil
    have hsk0 : Sk (envOf text) 100 .nonAtomic (leadOf items).length (leadOf items).length := by
      have := skip_gapG hnone (by simpa using hs2 : Suf text (leadOf items).length ([] ++ core items))
      simpa using this
    refine ⟨_, _, _, hsk.mono (by omega), ?_, hsk0.mono (by omega), hs2⟩
    intro f hf
    exact Ev.star0 (d := 20) (ProgText.nl_fail' hs2 hst) (by omega) f (by omega)
  | cons b bs =>
    have hb : b.WF := hh b (by simp)
    have hs : Suf text 0 (b.blanks ++ commentText b.comment ++
        (newline b.crlf ++ (bs.flatMap BlankLine.text ++ (leadOf items ++ core items)))) := by
      simpa [BlankLine.text, List.append_assoc] using h0
    have hlen := hs.len
    simp only [List.length_append] at hlen
    have hnl := newline_pos b.crlf
    have hsk := skip_gap b.blanks b.comment 0 hb.1 hs
      (fun x hx => ⟨hb.2 x hx, lineEnd_newline _ _⟩) (lineEnd_newline _ _).tail
    have hs2 : Suf text (0 + b.blanks.length + (commentText b.comment).length)
        (newline b.crlf ++ (bs.flatMap BlankLine.text ++ (leadOf items ++ core items))) := by
      have := Suf.app (a := b.blanks ++ commentText b.comment) hs
      simpa [Nat.add_assoc] using this
    have hs3 := hs2.app
    have hs4 : Suf text (0 + b.blanks.length + (commentText b.comment).length + (newline b.crlf).length +
        (bs.flatMap BlankLine.text).length) (leadOf items ++ core items) := hs3.app
    have hsk2 := ProgText.skip_to_start hlB hst hs4
    have hs5 : Suf text (0 + b.blanks.length + (commentText b.comment).length + (newline b.crlf).length +
        (bs.flatMap BlankLine.text).length + (leadOf items).length) (core items) := hs4.app
    have hlen5 := hs5.len
    refine ⟨_, _, _, hsk.mono (by omega), ?_, hsk2.mono (by omega), hs5⟩
    intro f hf
    obtain ⟨f, rfl⟩ : ∃ f', f = f' + 1 := ⟨f - 1, by omega⟩
    obtain ⟨acc', h1, h2⟩ := ProgText.nl_rep hlB hst bs _ [[]] f (fun x hx => hh x (by simp [hx])) hs3 (by omega)
    rw [matchE.eq_7, nl_ok b.crlf hs2 f (by omega)]
    simp only
    rw [h1]
    simp [h2]

/-! ### after the last terminated statement -/

theorem fin_ok (hF : ∀ st : Stmt, st.WF → StmtFact text st) {os : List Item} (hos : ∀ x ∈ os, ItemOK x)
    (hsh : os = [] ∨ ∃ xo t c, os = [xo] ∧ xo.term = .open_ t c) :
    (∀ Q, Suf text Q (core os) → Ev (envOf text) (13 * text.length + 500) lineE .nonAtomic false Q none) ∧
    ∀ P' B', Layout.IsBlanks B' → Suf text P' (B' ++ core os) →
      ∃ S' e ks, Sk (envOf text) (text.length + 100) .nonAtomic P' S' ∧
        Ev (envOf text) (13 * text.length + 501) (.opt (.ref 2)) .nonAtomic false S' (some (e, ks)) ∧
        Sk (envOf text) (13 * text.length + 500) .nonAtomic e text.length ∧ Goods text ks os := by
  rcases hsh with rfl | ⟨xo, t, c, rfl, hterm⟩
  · constructor
    · intro Q hQ
      rw [lineE_eq]
      exact (Ev.seq_fail1 (d := D) (stmt_eof hQ)).mono (by unfold D; omega)
    · intro P' B' hB hs
      have hs' : Suf text P' (B' ++ []) := by simpa [core] using hs
      have hlen := hs'.len
      simp only [List.length_append, List.length_nil] at hlen
      have hsk := ProgText.skip_to_start hB .eof hs'
      have hs2 : Suf text (P' + B'.length) [] := hs'.app
      have hN : P' + B'.length = text.length := by simpa using hs2.len
      refine ⟨_, _, [], hsk.mono (by omega), (Ev.opt_none (d := D) (stmt_eof hs2)).mono (by unfold D; omega), ?_, .nil⟩
      rw [hN] at hs2 ⊢
      exact ((tail_facts hs2 .eof).1).mono (by omega)
  · have hx := hos xo (by simp)
    have hwf : (Term.open_ t c).WF := hterm ▸ hx.2.2
    have hcore : core [xo] = xo.stmt.text ++ (t ++ commentText c) := by
      simp [core, body, hterm, Term.text]
    constructor
    · intro Q hQ
      rw [hcore] at hQ
      exact (item_open hF hx.2.1 hwf.1 hwf.2 hQ).1
    · intro P' B' hB hs
      have hst : ProgText.PStart (core [xo]) := core_start hos
      have hlen := hs.len
      simp only [List.length_append] at hlen
      have hsk := ProgText.skip_to_start hB hst hs
      have hs2 : Suf text (P' + B'.length) (xo.stmt.text ++ (t ++ commentText c)) := by
        have := Suf.app (a := B') hs; rwa [hcore] at this
      obtain ⟨_, e, pr, h1, h2, hN⟩ := item_open hF hx.2.1 hwf.1 hwf.2 hs2
      exact ⟨_, e, [pr], hsk.mono (by omega),
        Ev.opt_some (d := 13 * text.length + 500) h1, h2, .cons hN .nil⟩

/-! ### `inner`, `program`, `parse` -/

theorem pest_render (hF : ∀ (text : List Nat) (st : Stmt), st.WF → StmtFact text st)
    (head : List BlankLine) (items : List Item) (h : WF head items) :
    ∃ ps, Pest.parse Gen.grammar Gen.R_program (render head items) =
        some (ps ++ [.mk Pest.EOI (render head items).length (render head items).length []]) ∧
      Goods (render head items) ps items := by
  obtain ⟨hh, hit, hool⟩ := h
  have hit' : ∀ x ∈ items, ItemOK x := hit
  obtain ⟨cs, os, hsplit, hcs, hsh⟩ := split_open items hool
  have hos : ∀ x ∈ os, ItemOK x := fun x hx => hit' x (by rw [hsplit]; simp [hx])
  have hcs' : ∀ x ∈ cs, ItemOK x ∧ x.term.isOpen = false :=
    fun x hx => ⟨hit' x (by rw [hsplit]; simp [hx]), hcs x hx⟩
  generalize htext : render head items = text
  obtain ⟨a0, a1, S0, hA0, hA1, hA2, hS0⟩ := head_ok head items hh hit' htext.symm
  obtain ⟨hstop, hfin⟩ := fin_ok (text := text) (hF text) hos hsh
  rw [hsplit] at hS0
  obtain ⟨g, hg, hgN⟩ : ∃ g, 16 * text.toArray.size + 1000 = g + 7 ∧ 14 * text.length + 900 ≤ g :=
    ⟨16 * text.toArray.size + 993, by omega, by simp only [List.size_toArray]; omega⟩
  obtain ⟨P', B', ps, hM, hB', hsP, hG⟩ := main_star (hF text) os hos hstop cs S0 hcs' hS0 g (by omega)
  obtain ⟨S', e, ks, hF1, hF2, hF3, hGk⟩ := hfin P' B' hB' hsP
  have he := eof_facts text
  refine ⟨ps ++ ks, ?_, by rw [hsplit]; exact hG.append hGk⟩
  have h1 : findRule Gen.grammar [87, 72, 73, 84, 69, 83, 80, 65, 67, 69] = some 49 := by decide +kernel
  have h2 : findRule Gen.grammar [67, 79, 77, 77, 69, 78, 84] = some 50 := by decide +kernel
  unfold Pest.parse
  simp only [h1, h2]
  have hinner : matchE (envOf text) (g + 2) innerBody .nonAtomic false a0 = some (e, ps ++ ks) := by
    unfold innerBody
    rw [matchE.eq_4, matchE.eq_4, hA1 g (by omega)]
    simp only
    rw [hA2 g (by omega), hM]
    simp only
    rw [hF1 (g + 1) (by omega), hF2 (g + 1) (by omega)]
    simp
  have hsoi : ∀ k, callSpec (envOf text) 1000 .nonAtomic false 0 k = some (0, []) := by
    intro k; simp [callSpec, ANY, SOI]
  have hprog : callRule (envOf text) (g + 7) Gen.R_program .nonAtomic false 0 =
      some (text.length, ps ++ ks ++ [.mk Pest.EOI text.length text.length []]) := by
    show callRule _ _ 0 _ _ _ = _
    rw [call_program]
    unfold programBody
    rw [matchE.eq_4, matchE.eq_4, matchE.eq_11, callRule_succ, hsoi]
    simp only
    rw [hA0 (g + 4) (by omega), matchE.eq_11, call_inner, hinner]
    simp only
    rw [hF3 (g + 5) (by omega), matchE.eq_11]
    have := he.2.2.2.2 (g + 4) (by omega)
    unfold EOI at this
    rw [this]
    simp [EOI]
  rw [hg]
  have hprog' := hprog
  unfold envOf at hprog'
  rw [hprog']

/-! ### the walk -/

theorem go_goods {ps : List Pair} {items : List Item} (hg : Goods text ps items) (f n : Nat)
    (hf : 3 * text.length + 50 ≤ f) :
    parseAsm.go text.toArray f (ps ++ [.mk Pest.EOI n n []]) = .ok (items.map (fun x => x.stmt.node)) := by
  induction hg with
  | nil => simp [parseAsm.go, rule_mk]
  | @cons p x ps xs h _ ih =>
    obtain ⟨hr, hn⟩ := h
    have hp := hn f hf
    simp only [List.cons_append, List.map_cons]
    rw [parseAsm.go]
    simp only [hr, if_false, hp, ih]

theorem parse_full_of (hF : ∀ (text : List Nat) (st : Stmt), st.WF → StmtFact text st)
    (head : List BlankLine) (items : List Item) (h : WF head items) :
    parseAsm (render head items) = .ok (items.map (fun x => x.stmt.node)) := by
  obtain ⟨ps, h1, h2⟩ := pest_render hF head items h
  unfold parseAsm
  rw [h1]
  exact go_goods h2 _ _ (by omega)

end FullText
end Asm
end EtkVerif
