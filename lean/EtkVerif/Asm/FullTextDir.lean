/-
The directives `%import("p")`, `%include("p")`, `%include_hex("p")` with blanks where
the grammar allows them: the string literal with its escapes through `string` /
`string_char` on the real pest interpreter, the statement through `builtin`, and the
walk (`parseBuiltin`, `pathOf`) giving the statement's node.
-/
import EtkVerif.Asm.FullTextBase
namespace EtkVerif
namespace Asm
namespace FullText
open Pest Listing ExprText
open Layout (Suf Gap commentText)

variable {text : List Nat}

theorem dir_gr24 (text : List Nat) : (envOf text).g[24]? =
    some ⟨24, [115, 116, 114, 105, 110, 103, 95, 99, 104, 97, 114], .silent,
      (.alt (.alt (.str [92, 92]) (.str [92, 34])) (.seq (.seq (.neg (.str [92])) (.neg (.str [34]))) (.ref 1002)))⟩ := rfl

section ev
variable {env : Env} {d d1 : Nat} {a : PE} {at_ : Atom} {la : Bool} {p : Nat}

theorem dir_neg_ok (ha : Ev env d1 a at_ true p none) (h1 : d1 ≤ d := by omega) :
    Ev env (d + 1) (.neg a) at_ la p (some (p, [])) := by
  intro f hf
  obtain ⟨f, rfl⟩ : ∃ f', f = f' + 1 := ⟨f - 1, by omega⟩
  rw [matchE.eq_9, ha f (by omega)]

theorem dir_neg_fail {x : Nat × List Pair} (ha : Ev env d1 a at_ true p (some x)) (h1 : d1 ≤ d := by omega) :
    Ev env (d + 1) (.neg a) at_ la p none := by
  intro f hf
  obtain ⟨f, rfl⟩ : ∃ f', f = f' + 1 := ⟨f - 1, by omega⟩
  rw [matchE.eq_9, ha f (by omega)]
end ev

theorem dir_any {p c : Nat} {s : List Nat} {at_ : Atom} {la : Bool} (hs : Suf text p (c :: s)) :
    Ev (envOf text) 2 (.ref 1002) at_ la p (some (p + 1, [])) := by
  intro f hf
  obtain ⟨f, rfl⟩ : ∃ f', f = f' + 1 + 1 := ⟨f - 2, by omega⟩
  have hg := hs.get
  have hlt : p < (envOf text).inp.size := by
    rcases Nat.lt_or_ge p (envOf text).inp.size with h | h
    · exact h
    · rw [Array.getElem?_eq_none h] at hg; cases hg
  rw [matchE.eq_11, callRule_succ]
  simp only [callSpec, ANY, if_true, hlt]

/-- one `string_char` in the atomic state -/
theorem dir_char {p : Nat} {s : List Nat} (c : PChar) (hc : c.WF) (hs : Suf text p (c.text ++ s)) :
    Ev (envOf text) 10 (.ref 24) .atomic false p (some (p + c.text.length, [])) := by
  have ska : Sk (envOf text) 1 .atomic p p := Sk.id_of_ne (by simp) p
  cases c with
  | backslash =>
    exact evr (dir_gr24 text) (by omega)
      (Ev.alt_l (Ev.alt_l (ev_str_ok (pat := [92, 92]) (s := s) hs) (d := 1)) (d := 2)) (d := 3) |>.mono (by omega)
  | quote =>
    have h1 : Ev (envOf text) 1 (.str [92, 92]) .atomic false p none :=
      ev_str_fail hs (by simp [PChar.text, List.isPrefixOf])
    exact evr (dir_gr24 text) (by omega)
      (Ev.alt_l (Ev.alt_r h1 (ev_str_ok (pat := [92, 34]) (s := s) hs) (d := 1)) (d := 2)) (d := 3) |>.mono (by omega)
  | plain x =>
    obtain ⟨h34, h92, _, _⟩ := hc
    have hs' : Suf text p (x :: s) := hs
    have n92 : (92 : Nat) ≠ x := fun h => h92 h.symm
    have n34 : (34 : Nat) ≠ x := fun h => h34 h.symm
    have h1 : Ev (envOf text) 1 (.str [92, 92]) .atomic false p none :=
      ev_str_fail hs' (by simp [List.isPrefixOf, n92])
    have h2 : Ev (envOf text) 1 (.str [92, 34]) .atomic false p none :=
      ev_str_fail hs' (by simp [List.isPrefixOf, n92])
    have h3 : Ev (envOf text) 2 (.neg (.str [92])) .atomic false p (some (p, [])) :=
      dir_neg_ok (ev_str_fail hs' (by simp [List.isPrefixOf, n92])) (d := 1)
    have h4 : Ev (envOf text) 2 (.neg (.str [34])) .atomic false p (some (p, [])) :=
      dir_neg_ok (ev_str_fail hs' (by simp [List.isPrefixOf, n34])) (d := 1)
    have h5 := Ev.seq (Ev.seq h3 ska h4 (d := 2)) ska (dir_any (at_ := .atomic) (la := false) hs') (d := 3)
    exact evr (dir_gr24 text) (by omega) (Ev.alt_r (Ev.alt_r h1 h2 (d := 1)) h5 (d := 4)) (d := 5)
      |>.mono (by omega)

/-- `string_char` fails at the closing quote -/
theorem dir_char_stop {p : Nat} {s : List Nat} (hs : Suf text p (34 :: s)) :
    Ev (envOf text) 10 (.ref 24) .atomic false p none := by
  have ska : Sk (envOf text) 1 .atomic p p := Sk.id_of_ne (by simp) p
  have h1 : Ev (envOf text) 1 (.str [92, 92]) .atomic false p none :=
    ev_str_fail hs (by simp [List.isPrefixOf])
  have h2 : Ev (envOf text) 1 (.str [92, 34]) .atomic false p none :=
    ev_str_fail hs (by simp [List.isPrefixOf])
  have h3 : Ev (envOf text) 2 (.neg (.str [92])) .atomic false p (some (p, [])) :=
    dir_neg_ok (ev_str_fail hs (by simp [List.isPrefixOf])) (d := 1)
  have h4 : Ev (envOf text) 2 (.neg (.str [34])) .atomic false p none :=
    dir_neg_fail (ev_str_ok (pat := [34]) (s := s) hs) (d := 1)
  have h5 : Ev (envOf text) 4 (.seq (.seq (.neg (.str [92])) (.neg (.str [34]))) (.ref 1002)) .atomic false p none :=
    Ev.seq_fail1 (Ev.seq_fail2 h3 ska h4 (d := 2)) (d := 3)
  exact evr (dir_gr24 text) (by omega) (Ev.alt_r (Ev.alt_r h1 h2 (d := 1)) h5 (d := 4)) (d := 5) |>.mono (by omega)


def dirPathText (path : List PChar) : List Nat := path.flatMap PChar.text

theorem dir_pathText_cons (c : PChar) (path : List PChar) : dirPathText (c :: path) = c.text ++ dirPathText path := rfl

theorem dir_text_pos (c : PChar) : 1 ≤ c.text.length := by cases c <;> simp [PChar.text]

theorem dir_rep {s : List Nat} : ∀ (path : List PChar) (p : Nat) (acc : List (List Pair)) (f : Nat),
    (∀ c ∈ path, c.WF) → Suf text p (dirPathText path ++ 34 :: s) → (dirPathText path).length + 12 ≤ f →
    ∃ acc', rep (envOf text) f (.ref 24) .atomic false p acc = (p + (dirPathText path).length, acc') ∧
      acc'.reverse.flatten = acc.reverse.flatten
  | [], p, acc, f, _, hs, hf => by
    obtain ⟨f, rfl⟩ : ∃ f', f = f' + 1 := ⟨f - 1, by omega⟩
    refine ⟨acc, ?_, rfl⟩
    rw [rep.eq_2, skip_atomic, dir_char_stop (s := s) (by simpa [dirPathText] using hs) f (by omega)]
    rfl
  | c :: path, p, acc, f, hw, hs, hf => by
    obtain ⟨f, rfl⟩ : ∃ f', f = f' + 1 := ⟨f - 1, by omega⟩
    rw [dir_pathText_cons, List.length_append] at hf
    have hpos := dir_text_pos c
    have hs' : Suf text p (c.text ++ (dirPathText path ++ 34 :: s)) := by
      rw [dir_pathText_cons, List.append_assoc] at hs; exact hs
    obtain ⟨acc', h1, h2⟩ := dir_rep path (p + c.text.length) ([] :: acc) f (fun x hx => hw x (by simp [hx]))
      hs'.app (by omega)
    refine ⟨acc', ?_, by simpa using h2⟩
    rw [rep.eq_2, skip_atomic, dir_char c (hw c (by simp)) hs' f (by omega)]
    have hne : ¬ (p + c.text.length = p) := by omega
    simp only [hne, if_false]
    rw [h1, dir_pathText_cons, List.length_append]
    congr 1; omega

theorem dir_star {s : List Nat} (path : List PChar) (p : Nat) (hw : ∀ c ∈ path, c.WF)
    (hs : Suf text p (dirPathText path ++ 34 :: s)) :
    Ev (envOf text) ((dirPathText path).length + 13) (.star (.ref 24)) .atomic false p
      (some (p + (dirPathText path).length, [])) := by
  intro f hf
  obtain ⟨f, rfl⟩ : ∃ f', f = f' + 1 := ⟨f - 1, by omega⟩
  rw [matchE.eq_7]
  cases path with
  | nil =>
    rw [dir_char_stop (s := s) (by simpa [dirPathText] using hs) f (by omega)]
    rfl
  | cons c path =>
    rw [dir_pathText_cons, List.length_append] at hf
    have hpos := dir_text_pos c
    have hs' : Suf text p (c.text ++ (dirPathText path ++ 34 :: s)) := by
      rw [dir_pathText_cons, List.append_assoc] at hs; exact hs
    rw [dir_char c (hw c (by simp)) hs' f (by omega)]
    simp only
    obtain ⟨acc', h1, h2⟩ := dir_rep path (p + c.text.length) [[]] f (fun x hx => hw x (by simp [hx]))
      hs'.app (by omega)
    rw [h1]
    simp only [h2, dir_pathText_cons, List.length_append]
    simp; omega

/-- the string literal -/
theorem dir_string {s : List Nat} (path : List PChar) (p : Nat) (hw : ∀ c ∈ path, c.WF)
    (hs : Suf text p (34 :: (dirPathText path ++ 34 :: s))) :
    Ev (envOf text) ((dirPathText path).length + 20) (.ref 23) .nonAtomic false p
      (some (p + 1 + (dirPathText path).length + 1, [.mk 23 p (p + 1 + (dirPathText path).length + 1) []])) := by
  have ska : ∀ q, Sk (envOf text) 1 .atomic q q := fun q => Sk.id_of_ne (by simp) q
  have h1 : Ev (envOf text) 1 (.str [34]) .atomic false p (some (p + 1, [])) :=
    ev_str_ok (pat := [34]) (s := dirPathText path ++ 34 :: s) hs
  have h2 := dir_star path (p + 1) hw hs.tail
  have h3 : Ev (envOf text) 1 (.str [34]) .atomic false (p + 1 + (dirPathText path).length)
      (some (p + 1 + (dirPathText path).length + 1, [])) :=
    ev_str_ok (pat := [34]) (s := s) hs.tail.app
  exact evr (gr23 text) (by omega) (Ev.seq (Ev.seq h1 (ska _) h2 (d := (dirPathText path).length + 13)) (ska _) h3
    (d := (dirPathText path).length + 14)) (d := (dirPathText path).length + 15) |>.mono (by omega)


/-- `arguments` on `( g2 "path" g3 )` -/
theorem dir_args (g2 g3 : List Nat) (path : List PChar) (P : Nat) (X : List Nat)
    (hg2 : ExprText.IsBlanks g2) (hg3 : ExprText.IsBlanks g3) (hw : ∀ c ∈ path, c.WF)
    (hs : Suf text P (40 :: (g2 ++ 34 :: (dirPathText path ++ 34 :: (g3 ++ 41 :: X))))) :
    Ev (envOf text) (g2.length + (dirPathText path).length + g3.length + 60) (.ref 20) .nonAtomic false P
      (some (P + 1 + g2.length + 1 + (dirPathText path).length + 1 + g3.length + 1,
        [.mk 23 (P + 1 + g2.length) (P + 1 + g2.length + 1 + (dirPathText path).length + 1) []])) := by
  generalize hL : (dirPathText path).length = L
  have h40 : Ev (envOf text) 1 (.str [40]) .nonAtomic false P (some (P + 1, [])) :=
    ev_str_ok (pat := [40]) (s := g2 ++ 34 :: (dirPathText path ++ 34 :: (g3 ++ 41 :: X))) hs
  have hskg2 : Sk (envOf text) (g2.length + 30) .nonAtomic (P + 1) (P + 1 + g2.length) :=
    skip_blanks g2 hg2 hs.tail (by simp [NonBlank])
  have hsq : Suf text (P + 1 + g2.length) (34 :: (dirPathText path ++ 34 :: (g3 ++ 41 :: X))) := hs.tail.app
  have hstr := dir_string path (P + 1 + g2.length) hw hsq
  have hsq' : Suf text (P + 1 + g2.length + 1 + (dirPathText path).length + 1) (g3 ++ 41 :: X) := hsq.tail.app.tail
  rw [hL] at hstr hsq'
  generalize hq : P + 1 + g2.length = q at *
  generalize hq' : q + 1 + L + 1 = q' at *
  have harg : Ev (envOf text) (L + 23) (.ref 22) .nonAtomic false q (some (q', [.mk 23 q q' []])) :=
    evr (gr22 text) (by omega) (Ev.alt_l hstr (d := L + 20)) (d := L + 21)
  have hskg3 : Sk (envOf text) (g3.length + 30) .nonAtomic q' (q' + g3.length) :=
    skip_blanks g3 hg3 hsq' (by simp [NonBlank])
  have hsQ : Suf text (q' + g3.length) (41 :: X) := hsq'.app
  have h44 : Ev (envOf text) 1 (.str [44]) .nonAtomic false (q' + g3.length) none :=
    ev_str_fail hsQ (by simp [List.isPrefixOf])
  have hstar : Ev (envOf text) (L + g3.length + 32) (.star (.seq (.ref 22) (.str [44]))) .nonAtomic false
      q (some (q, [])) :=
    Ev.star0 (Ev.seq_fail2 harg hskg3 h44 (d := L + g3.length + 30)) (d := L + g3.length + 31)
  have hskq : Sk (envOf text) 30 .nonAtomic q q := skip_none hsq (by simp [NonBlank])
  have hlist : Ev (envOf text) (L + g3.length + 35) (.ref 21) .nonAtomic false q (some (q', [.mk 23 q q' []])) :=
    evr (gr21' text) (by omega)
      (Ev.seq hstar hskq (Ev.opt_some harg (d := L + 23)) (d := L + g3.length + 32)) (d := L + g3.length + 33)
  have h41 : Ev (envOf text) 1 (.str [41]) .nonAtomic false (q' + g3.length) (some (q' + g3.length + 1, [])) :=
    ev_str_ok (pat := [41]) (s := X) hsQ
  exact (evr (gr20' text) (by omega)
      (Ev.seq (Ev.seq h40 hskg2 (Ev.opt_some hlist (d := L + g3.length + 35)) (d := g2.length + L + g3.length + 36))
        hskg3 h41 (d := g2.length + L + g3.length + 37)) (d := g2.length + L + g3.length + 38)).mono (by omega)


def dirRule : Directive → Nat
  | .import_ => 16
  | .include => 17
  | .includeHex => 18

/-- `builtin` on `% word g1 ( g2 "path" g3 )` -/
theorem dir_builtin (d : Directive) (g1 g2 g3 : List Nat) (path : List PChar) (S : Nat) (X : List Nat)
    (hg1 : ExprText.IsBlanks g1) (hg2 : ExprText.IsBlanks g2) (hg3 : ExprText.IsBlanks g3) (hw : ∀ c ∈ path, c.WF)
    (hs : Suf text S (37 :: (d.word ++ (g1 ++ 40 :: (g2 ++ 34 :: (dirPathText path ++ 34 :: (g3 ++ 41 :: X))))))) :
    Ev (envOf text) (g1.length + g2.length + (dirPathText path).length + g3.length + 130) (.ref 15) .nonAtomic false S
      (some (S + 1 + d.word.length + g1.length + 1 + g2.length + 1 + (dirPathText path).length + 1 + g3.length + 1,
        [.mk 15 S (S + 1 + d.word.length + g1.length + 1 + g2.length + 1 + (dirPathText path).length + 1 + g3.length + 1)
          [.mk (dirRule d) (S + 1)
            (S + 1 + d.word.length + g1.length + 1 + g2.length + 1 + (dirPathText path).length + 1 + g3.length + 1)
            [.mk 23 (S + 1 + d.word.length + g1.length + 1 + g2.length)
              (S + 1 + d.word.length + g1.length + 1 + g2.length + 1 + (dirPathText path).length + 1) []]]])) := by
  have hs1 : Suf text (S + 1) (d.word ++ (g1 ++ 40 :: (g2 ++ 34 :: (dirPathText path ++ 34 :: (g3 ++ 41 :: X))))) :=
    hs.tail
  have hword : Ev (envOf text) 1 (.str d.word) .nonAtomic false (S + 1) (some (S + 1 + d.word.length, [])) :=
    ev_str_ok hs1
  have hskg1 : Sk (envOf text) (g1.length + 30) .nonAtomic (S + 1 + d.word.length) (S + 1 + d.word.length + g1.length) :=
    skip_blanks g1 hg1 hs1.app (by simp [NonBlank])
  have hargs := dir_args g2 g3 path (S + 1 + d.word.length + g1.length) X hg2 hg3 hw hs1.app.app
  have h37 : Ev (envOf text) 1 (.str [37]) .compound false S (some (S + 1, [])) :=
    ev_str_ok (pat := [37]) hs
  generalize hL : (dirPathText path).length = L at *
  generalize hE : S + 1 + d.word.length + g1.length + 1 + g2.length + 1 + L + 1 + g3.length + 1 = E at *
  generalize hA : Pair.mk 23 (S + 1 + d.word.length + g1.length + 1 + g2.length)
              (S + 1 + d.word.length + g1.length + 1 + g2.length + 1 + L + 1) [] = A at *
  generalize hT : dirPathText path ++ 34 :: (g3 ++ 41 :: X) = T at *
  have hbody := Ev.seq hword hskg1 hargs (d := g1.length + g2.length + L + g3.length + 60)
  cases d with
  | import_ =>
    have h16 : Ev (envOf text) (g1.length + g2.length + L + g3.length + 63) (.ref 16) .compound false (S + 1)
        (some (E, [.mk 16 (S + 1) E [A]])) :=
      evr (gr16 text) (by omega) hbody (d := g1.length + g2.length + L + g3.length + 61)
    exact (evr (gr15 text) (by omega)
      (Ev.seq h37 (sk_comp _) (Ev.alt_l (Ev.alt_l (Ev.alt_l h16 (d := g1.length + g2.length + L + g3.length + 63))
        (d := g1.length + g2.length + L + g3.length + 64)) (d := g1.length + g2.length + L + g3.length + 65))
        (d := g1.length + g2.length + L + g3.length + 66)) (d := g1.length + g2.length + L + g3.length + 67)
        (at_ := .nonAtomic)).mono (by omega)
  | «include» =>
    simp only [Directive.word, List.cons_append, List.nil_append] at hs1
    have f16 : Ev (envOf text) 4 (.ref 16) .compound false (S + 1) none :=
      evr (gr16 text) (by omega) (Ev.seq_fail1 (ev_str_fail hs1 (by simp [List.isPrefixOf])) (d := 1))
    have h17 : Ev (envOf text) (g1.length + g2.length + L + g3.length + 63) (.ref 17) .compound false (S + 1)
        (some (E, [.mk 17 (S + 1) E [A]])) :=
      evr (gr17 text) (by omega) hbody (d := g1.length + g2.length + L + g3.length + 61)
    exact (evr (gr15 text) (by omega)
      (Ev.seq h37 (sk_comp _) (Ev.alt_l (Ev.alt_l (Ev.alt_r f16 h17 (d := g1.length + g2.length + L + g3.length + 63))
        (d := g1.length + g2.length + L + g3.length + 64)) (d := g1.length + g2.length + L + g3.length + 65))
        (d := g1.length + g2.length + L + g3.length + 66)) (d := g1.length + g2.length + L + g3.length + 67)
        (at_ := .nonAtomic)).mono (by omega)
  | includeHex =>
    simp only [Directive.word, List.cons_append, List.nil_append] at hs1
    have f16 : Ev (envOf text) 4 (.ref 16) .compound false (S + 1) none :=
      evr (gr16 text) (by omega) (Ev.seq_fail1 (ev_str_fail hs1 (by simp [List.isPrefixOf])) (d := 1))
    have hinc : Ev (envOf text) 1 (.str [105, 110, 99, 108, 117, 100, 101]) .nonAtomic false (S + 1)
        (some (S + 1 + 7, [])) :=
      ev_str_ok (pat := [105, 110, 99, 108, 117, 100, 101]) (s := 95 :: 104 :: 101 :: 120 :: (g1 ++ 40 :: (g2 ++ 34 :: T))) hs1
    have hs8 : Suf text (S + 1 + 7) (95 :: 104 :: 101 :: 120 :: (g1 ++ 40 :: (g2 ++ 34 :: T))) :=
      Suf.app (a := [105, 110, 99, 108, 117, 100, 101]) hs1
    have hsk8 : Sk (envOf text) 30 .nonAtomic (S + 1 + 7) (S + 1 + 7) := skip_none hs8 (by simp [NonBlank])
    have f20 : Ev (envOf text) 5 (.ref 20) .nonAtomic false (S + 1 + 7) none :=
      evr (gr20' text) (by omega)
        (Ev.seq_fail1 (Ev.seq_fail1 (ev_str_fail hs8 (by simp [List.isPrefixOf])) (d := 1)) (d := 2)) (d := 3)
    have f17 : Ev (envOf text) 33 (.ref 17) .compound false (S + 1) none :=
      evr (gr17 text) (by omega) (Ev.seq_fail2 hinc hsk8 f20 (d := 30)) (d := 31)
    have h18 : Ev (envOf text) (g1.length + g2.length + L + g3.length + 63) (.ref 18) .compound false (S + 1)
        (some (E, [.mk 18 (S + 1) E [A]])) :=
      evr (gr18 text) (by omega) hbody (d := g1.length + g2.length + L + g3.length + 61)
    exact (evr (gr15 text) (by omega)
      (Ev.seq h37 (sk_comp _) (Ev.alt_l (Ev.alt_r (Ev.alt_r f16 f17 (d := 33)) h18
        (d := g1.length + g2.length + L + g3.length + 63))
        (d := g1.length + g2.length + L + g3.length + 64))
        (d := g1.length + g2.length + L + g3.length + 66)) (d := g1.length + g2.length + L + g3.length + 67)
        (at_ := .nonAtomic)).mono (by omega)


theorem dir_unesc : ∀ (path : List PChar), (∀ c ∈ path, c.WF) →
    pathOf.unesc (dirPathText path) = path.map PChar.value
  | [], _ => by simp [dirPathText, pathOf.unesc]
  | c :: path, hw => by
    have ih := dir_unesc path (fun x hx => hw x (by simp [hx]))
    rw [dir_pathText_cons, List.map_cons]
    cases c with
    | backslash => simp only [PChar.text, PChar.value, List.cons_append, List.nil_append, pathOf.unesc, ih]
    | quote => simp only [PChar.text, PChar.value, List.cons_append, List.nil_append, pathOf.unesc, ih]
    | plain x =>
      have h92 : x ≠ 92 := (hw (.plain x) (by simp)).2.1
      simp only [PChar.text, PChar.value, List.cons_append, List.nil_append]
      rw [pathOf.unesc, ih]
      · intro _ _ h; exact (h92 h).elim
      · intro h; exact (h92 h).elim

theorem dir_pathOf (path : List PChar) (q : Nat) (Z : List Nat) (hw : ∀ c ∈ path, c.WF)
    (hs : Suf text q (34 :: (dirPathText path ++ 34 :: Z))) :
    pathOf text.toArray (.mk 23 q (q + 1 + (dirPathText path).length + 1) []) =
      .ok (strOf (path.map PChar.value)) := by
  have ht : txt text.toArray (.mk 23 q (q + 1 + (dirPathText path).length + 1) []) =
      34 :: (dirPathText path ++ [34]) := by
    have := txt_suf (y := 34 :: (dirPathText path ++ [34])) (z := Z) (by simpa using hs) 23 []
    have e : q + (34 :: (dirPathText path ++ [34])).length = q + 1 + (dirPathText path).length + 1 := by
      simp only [List.length_cons, List.length_append, List.length_nil]; omega
    rwa [e] at this
  unfold pathOf
  simp only [rule_mk, Gen.R_string, ne_eq, not_true_eq_false, if_false, ht]
  have : List.take ((34 :: (dirPathText path ++ [34])).length - 2) (List.drop 1 (34 :: (dirPathText path ++ [34]))) =
      dirPathText path := by
    simp
  rw [this, dir_unesc path hw]


theorem fact_directive (d : Directive) (g1 g2 : List Nat) (path : List PChar) (g3 : List Nat)
    (h : (Stmt.directive d g1 g2 path g3).WF) : StmtFact text (.directive d g1 g2 path g3) := by
  intro S B c s hs hg
  obtain ⟨hg1, hg2, hw, hg3⟩ := h
  obtain ⟨hG, hC⟩ := ProgText.gap_gapG hg
  obtain ⟨X, hX⟩ : ∃ X, X = B ++ commentText c ++ s := ⟨_, rfl⟩
  rw [← hX] at hs
  have hs0 : Suf text S
      (37 :: (d.word ++ (g1 ++ 40 :: (g2 ++ 34 :: (dirPathText path ++ 34 :: (g3 ++ 41 :: X)))))) := by
    have := hs
    simp only [Stmt.text, List.append_assoc, List.cons_append, List.nil_append] at this
    exact this
  have hsq : Suf text (S + 1 + d.word.length + g1.length + 1 + g2.length)
      (34 :: (dirPathText path ++ 34 :: (g3 ++ 41 :: X))) := hs0.tail.app.app.tail.app
  have hsE : Suf text
      (S + 1 + d.word.length + g1.length + 1 + g2.length + 1 + (dirPathText path).length + 1 + g3.length + 1)
      ((B ++ commentText c) ++ s) := by
    rw [← hX]; exact hsq.tail.app.tail.app.tail
  have hlen := hsE.len
  simp only [List.length_append] at hlen
  have h15 := dir_builtin d g1 g2 g3 path S X hg1 hg2 hg3 hw hs0
  have hw' := ExprText.top_win
  simp only [Bool.and_eq_true] at hw'
  have hA0 := hs0.agree (s1 := [37]) (cs := [single 37]) (closed := false) ⟨single_mem 37, trivial⟩
    (fun h => by cases h)
  have f40 : Ev (envOf text) 30 (.ref 40) .nonAtomic false S none := by
    simpa using Ev.of_window hA0 (resFail_eq hw'.1.1)
  have hsk2 := skip_gapG hG hsE
  have etl : (Stmt.directive d g1 g2 path g3).text.length =
      1 + d.word.length + g1.length + 1 + g2.length + 1 + (dirPathText path).length + 1 + g3.length + 1 := by
    simp only [Stmt.text, dirPathText, List.length_append, List.length_cons, List.length_nil]
  generalize hL : (dirPathText path).length = L at *
  generalize hE : S + 1 + d.word.length + g1.length + 1 + g2.length + 1 + L + 1 + g3.length + 1 = E at *
  have hstmt := Layout.ev_stmt (Ev.alt_l (Ev.alt_l (Ev.alt_l (Ev.alt_r f40 h15 (d := text.length + 130))
      (d := text.length + 131) (b := .ref 14)) (d := text.length + 132) (b := .ref 4)) (d := text.length + 133)
      (b := .ref 3)) (d := text.length + 134)
  refine ⟨_, _, hstmt.mono (by omega), ?_, ?_, ?_⟩
  · rw [etl, List.length_append] at *
    have e2 : S + (1 + d.word.length + g1.length + 1 + g2.length + 1 + L + 1 + g3.length + 1) + B.length +
        (commentText c).length = E + (B.length + (commentText c).length) := by omega
    rw [e2]; exact hsk2.mono (by omega)
  · simp [rule_mk, Pest.EOI]
  · intro f hf
    have hp := dir_pathOf path _ _ hw hsq
    rw [hL] at hp
    cases d <;>
      simp [rule_mk, Gen.R_builtin, parseBuiltin, kids_mk, dirRule, Gen.R_import, Gen.R_include, Gen.R_include_hex,
        oneePath, hp, Except.map, Stmt.node]

end FullText
end Asm
end EtkVerif
