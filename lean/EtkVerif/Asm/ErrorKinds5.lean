/-
C13, two more error kinds in use-site form.
* `DuplicateLabel l`: in the scope that reports it (the program or a nested `%include` scope) the label `l` is written
  twice — two label statements `l:` at the scope's top level, or two inside the body of one of its instruction macros —
  or `l` is a mangled name (`macro_label_suffix`, the name an expansion gives to a macro-local label: two expansions
  drew the same suffix, or a user label collides with a mangled one).
* `DivisionByZero`: the scope's text contains a division: in an operand, an invocation argument, or the body of one of
  its macro definitions.
-/
import EtkVerif.Asm.ErrorKinds4
namespace EtkVerif
namespace Asm

mutual
/-- the expression contains a `/` (arguments of calls included) -/
def Expr.hasDivision : Expr → Bool
  | .num _ => false
  | .label _ => false
  | .var _ => false
  | .plus a b => a.hasDivision || b.hasDivision
  | .minus a b => a.hasDivision || b.hasDivision
  | .times a b => a.hasDivision || b.hasDivision
  | .divide _ _ => true
  | .paren e => e.hasDivision
  | .macro _ args => args.hasDivision
def Exprs.hasDivision : Exprs → Bool
  | .nil => false
  | .cons h t => h.hasDivision || t.hasDivision
end

mutual
def AOp.hasDivision : AOp → Bool
  | .op _ imm => match imm with | some e => e.hasDivision | none => false
  | .label _ => false
  | .push e => e.hasDivision
  | .instrDef _ _ body => body.hasDivision
  | .exprDef _ _ body => body.hasDivision
  | .macro _ args => args.any (fun e => e.hasDivision)
def AOps.hasDivision : AOps → Bool
  | .nil => false
  | .cons h t => h.hasDivision || t.hasDivision
end

/-- the statement is the label definition `l:` -/
def AOp.isLabel (l : String) : AOp → Bool
  | .label x => x == l
  | _ => false

/-- `l` has the shape of a mangled macro-local label -/
def IsMangled (rnd : Nat → Nat) (l : String) : Prop := ∃ k m x, l = mangle rnd k m x

/-! ## `DivisionByZero` -/

/-- a division in the expression implies `D` -/
def ExprD (D : Prop) (e : Expr) : Prop := e.hasDivision = true → D
def ExprsD (D : Prop) (es : Exprs) : Prop := es.hasDivision = true → D
/-- a division in the statement implies `D` -/
def AOpD (D : Prop) (o : AOp) : Prop := o.hasDivision = true → D

mutual
theorem replaceLabel_hasDivision (old new : String) :
    ∀ e, (replaceLabel old new e).hasDivision = e.hasDivision
  | .paren e => by simp only [replaceLabel, Expr.hasDivision]; exact replaceLabel_hasDivision old new e
  | .macro n args => by
    simp only [replaceLabel, Expr.hasDivision]; exact replaceLabelArgs_hasDivision old new args
  | .num n => by simp only [replaceLabel]
  | .var x => by simp only [replaceLabel]
  | .label l => by simp only [replaceLabel]; split <;> simp only [Expr.hasDivision]
  | .plus a b => by
    simp only [replaceLabel, Expr.hasDivision, replaceLabel_hasDivision old new a, replaceLabel_hasDivision old new b]
  | .minus a b => by
    simp only [replaceLabel, Expr.hasDivision, replaceLabel_hasDivision old new a, replaceLabel_hasDivision old new b]
  | .times a b => by
    simp only [replaceLabel, Expr.hasDivision, replaceLabel_hasDivision old new a, replaceLabel_hasDivision old new b]
  | .divide a b => by simp only [replaceLabel, Expr.hasDivision]
theorem replaceLabelArgs_hasDivision (old new : String) :
    ∀ es, (replaceLabelArgs old new es).hasDivision = es.hasDivision
  | .nil => by simp only [replaceLabelArgs]
  | .cons a as => by
    simp only [replaceLabelArgs, Exprs.hasDivision, replaceLabel_hasDivision old new a,
      replaceLabelArgs_hasDivision old new as]
end

mutual
/-- `fill_variables`: the divisions of the result come from the expression or from the bound arguments -/
theorem fillVars_div {D : Prop} {bs : List (String × Expr)} (hb : ∀ p ∈ bs, ExprD D p.2) :
    ∀ e, ExprD D e → ExprD D (fillVars bs e)
  | .paren e, h => by
    intro hv; simp only [fillVars, Expr.hasDivision] at hv
    exact fillVars_div hb e (fun hv => h (by simp only [Expr.hasDivision]; exact hv)) hv
  | .macro n args, h => by
    intro hv; simp only [fillVars, Expr.hasDivision] at hv
    exact fillVarsArgs_div hb args (fun hv => h (by simp only [Expr.hasDivision]; exact hv)) hv
  | .num n, h => by simp only [fillVars]; exact h
  | .label l, h => by simp only [fillVars]; exact h
  | .var x, h => by
    simp only [fillVars]
    cases hl : lookupBinding bs x with
    | none => exact h
    | some a =>
      obtain ⟨p, hp, rfl⟩ := lookupBinding_mem hl
      exact hb p hp
  | .plus a b, h => by
    intro hv; simp only [fillVars, Expr.hasDivision, Bool.or_eq_true] at hv
    rcases hv with hv | hv
    · exact fillVars_div hb a (fun hv => h (by simp only [Expr.hasDivision, Bool.or_eq_true]; exact Or.inl hv)) hv
    · exact fillVars_div hb b (fun hv => h (by simp only [Expr.hasDivision, Bool.or_eq_true]; exact Or.inr hv)) hv
  | .minus a b, h => by
    intro hv; simp only [fillVars, Expr.hasDivision, Bool.or_eq_true] at hv
    rcases hv with hv | hv
    · exact fillVars_div hb a (fun hv => h (by simp only [Expr.hasDivision, Bool.or_eq_true]; exact Or.inl hv)) hv
    · exact fillVars_div hb b (fun hv => h (by simp only [Expr.hasDivision, Bool.or_eq_true]; exact Or.inr hv)) hv
  | .times a b, h => by
    intro hv; simp only [fillVars, Expr.hasDivision, Bool.or_eq_true] at hv
    rcases hv with hv | hv
    · exact fillVars_div hb a (fun hv => h (by simp only [Expr.hasDivision, Bool.or_eq_true]; exact Or.inl hv)) hv
    · exact fillVars_div hb b (fun hv => h (by simp only [Expr.hasDivision, Bool.or_eq_true]; exact Or.inr hv)) hv
  | .divide a b, h => by
    intro _; exact h (by simp only [Expr.hasDivision])
theorem fillVarsArgs_div {D : Prop} {bs : List (String × Expr)} (hb : ∀ p ∈ bs, ExprD D p.2) :
    ∀ es, ExprsD D es → ExprsD D (fillVarsArgs bs es)
  | .nil, h => by simp only [fillVarsArgs]; exact h
  | .cons a as, h => by
    intro hv; simp only [fillVarsArgs, Exprs.hasDivision, Bool.or_eq_true] at hv
    rcases hv with hv | hv
    · exact fillVars_div hb a (fun hv => h (by simp only [Exprs.hasDivision, Bool.or_eq_true]; exact Or.inl hv)) hv
    · exact fillVarsArgs_div hb as (fun hv => h (by simp only [Exprs.hasDivision, Bool.or_eq_true]; exact Or.inr hv)) hv
end

theorem foldl_hasDivision (g : Expr → String × String → Expr)
    (hg : ∀ e p, (g e p).hasDivision = e.hasDivision) : ∀ (renames : List (String × String)) (e : Expr),
    (renames.foldl g e).hasDivision = e.hasDivision := by
  intro renames
  induction renames with
  | nil => intro e; rfl
  | cons p rest ih =>
    intro e
    simp only [List.foldl_cons]
    rw [ih, hg]

/-- the expression rewriting of `substBody`: local labels renamed, then parameters replaced by arguments -/
theorem substFix_div {D : Prop} {renames : List (String × String)} {bs : List (String × Expr)}
    (hb : ∀ p ∈ bs, ExprD D p.2) (e : Expr) (he : ExprD D e) :
    ExprD D (fillVars bs (renames.foldl (fun e (o, n) => replaceLabel o n e) e)) := by
  apply fillVars_div hb
  intro hv
  rw [foldl_hasDivision _ (by intro e p; obtain ⟨o, n⟩ := p; exact replaceLabel_hasDivision o n e)] at hv
  exact he hv

/-! ### evaluator level -/

/-- some expression macro of the table has a division in its body -/
def TableDiv (ms : List (String × MacroDef)) : Prop :=
  ∃ n ps b, lookupMacro ms n = some (.expr ps b) ∧ b.hasDivision = true

theorem eval_arith_div {f : Nat} {c : Ctx} {a b : Expr} {g : Int → Int → Except EvErr Int}
    (h : (match eval f c a with
      | .error e => Except.error e
      | .ok x => match eval f c b with
        | .error e => Except.error e
        | .ok y => g x y) = Except.error .divisionByZero)
    (hg : ∀ x y, g x y ≠ .error .divisionByZero) :
    eval f c a = .error .divisionByZero ∨ eval f c b = .error .divisionByZero := by
  cases h1 : eval f c a with
  | error e =>
    rw [h1] at h
    simp only [Except.error.injEq] at h
    subst h
    exact Or.inl rfl
  | ok x =>
    rw [h1] at h
    simp only [] at h
    cases h2 : eval f c b with
    | error e =>
      rw [h2] at h
      simp only [Except.error.injEq] at h
      subst h
      exact Or.inr rfl
    | ok y =>
      rw [h2] at h
      exact absurd h (hg x y)

/-- `eval` / `evalArgs`: `divisionByZero` means the expression evaluated, or the body of an expression macro of the
table (bodies are evaluated in callee frames), contains a division -/
theorem eval_div_aux : ∀ f,
    (∀ (c : Ctx) (e : Expr), eval f c e = .error .divisionByZero →
      e.hasDivision = true ∨ TableDiv c.macros) ∧
    (∀ (c : Ctx) (params : List String) (args : Exprs),
      evalArgs f c params args = .error .divisionByZero →
      args.hasDivision = true ∨ TableDiv c.macros) := by
  intro f
  induction f with
  | zero =>
    constructor
    · intro c e h; simp [eval] at h
    · intro c params args h; simp [evalArgs] at h
  | succ f ih =>
    have arith : ∀ (c : Ctx) (a b : Expr),
        (eval f c a = .error .divisionByZero ∨ eval f c b = .error .divisionByZero) →
        (a.hasDivision || b.hasDivision) = true ∨ TableDiv c.macros := by
      intro c a b h
      rcases h with h | h
      · rcases ih.1 c a h with h | h
        · left; simp [h]
        · exact Or.inr h
      · rcases ih.1 c b h with h | h
        · left; simp [h]
        · exact Or.inr h
    constructor
    · intro c e h
      cases e with
      | paren e => simp only [eval] at h; simp only [Expr.hasDivision]; exact ih.1 c e h
      | num n => simp [eval] at h
      | label x =>
        simp only [eval] at h
        split at h <;> simp at h
      | var x =>
        simp only [eval] at h
        split at h
        · simp at h
        · split at h <;> simp at h
      | plus a b =>
        simp only [eval] at h
        simp only [Expr.hasDivision]
        exact arith c a b (eval_arith_div (g := fun x y => .ok (x + y)) h (by intro x y; simp))
      | minus a b =>
        simp only [eval] at h
        simp only [Expr.hasDivision]
        exact arith c a b (eval_arith_div (g := fun x y => .ok (x - y)) h (by intro x y; simp))
      | times a b =>
        simp only [eval] at h
        simp only [Expr.hasDivision]
        exact arith c a b (eval_arith_div (g := fun x y => .ok (x * y)) h (by intro x y; simp))
      | divide a b => left; simp only [Expr.hasDivision]
      | «macro» name args =>
        simp only [eval] at h
        simp only [Expr.hasDivision]
        cases hlk : lookupMacro c.macros name with
        | none => rw [hlk] at h; simp at h
        | some md =>
          cases md with
          | instr ps body => rw [hlk] at h; simp at h
          | expr params body =>
            rw [hlk] at h
            simp only [] at h
            cases hea : evalArgs f c params args with
            | error e2 =>
              rw [hea] at h
              simp only [Except.error.injEq] at h
              subst h
              exact ih.2 c params args hea
            | ok vs =>
              rw [hea] at h
              simp only [] at h
              split at h
              · simp at h
              · rcases ih.1 { c with vars := some vs, depth := c.depth + 1 } body h with hb | hb
                · exact Or.inr ⟨name, params, body, hlk, hb⟩
                · exact Or.inr hb
    · intro c params args h
      cases params with
      | nil => simp [evalArgs] at h
      | cons p ps =>
        cases args with
        | nil => simp [evalArgs] at h
        | cons a as =>
          simp only [evalArgs] at h
          simp only [Exprs.hasDivision]
          cases hea : eval f c a with
          | error e2 =>
            rw [hea] at h
            simp only [Except.error.injEq] at h
            subst h
            rcases ih.1 c a hea with h | h
            · left; simp [h]
            · exact Or.inr h
          | ok x =>
            rw [hea] at h
            simp only [] at h
            cases heb : evalArgs f c ps as with
            | error e2 =>
              rw [heb] at h
              simp only [Except.error.injEq] at h
              subst h
              rcases ih.2 c ps as heb with h | h
              · left; simp [h]
              · exact Or.inr h
            | ok rest => rw [heb] at h; simp at h

/-- the evaluator-level fact, spelled out -/
theorem eval_divisionByZero (f : Nat) (ls : List (String × Option Nat)) (ms : List (String × MacroDef))
    (vars : Option (List (String × Int))) (d : Nat) (e : Expr)
    (h : eval f ⟨ls, ms, vars, d⟩ e = .error .divisionByZero) :
    e.hasDivision = true ∨ ∃ n ps b, lookupMacro ms n = some (.expr ps b) ∧ b.hasDivision = true :=
  (eval_div_aux f).1 ⟨ls, ms, vars, d⟩ e h

/-! ### the invariant: a division in anything the assembler state can still evaluate implies `D` -/

def DefD (D : Prop) : MacroDef → Prop
  | .instr _ body => ∀ o ∈ body, AOpD D o
  | .expr _ b => ExprD D b

def TableD (D : Prop) (ms : List (String × MacroDef)) : Prop :=
  ∀ n d, lookupMacro ms n = some d → DefD D d

def ItemD (D : Prop) : Item → Prop
  | .op _ (some e) => ExprD D e
  | .push e => ExprD D e
  | _ => True

/-- a division in the macro table or in the items waiting for `finish` implies `D` -/
structure StD (D : Prop) (s : St) : Prop where
  table : TableD D s.macros
  ready : ∀ i ∈ s.ready, ItemD D i

theorem StD.congr {D : Prop} {s : St} (hs : StD D s) (s' : St) (hm : s'.macros = s.macros)
    (hr : s'.ready = s.ready) : StD D s' :=
  ⟨by rw [hm]; exact hs.table, by rw [hr]; exact hs.ready⟩

theorem StD.add {D : Prop} {s : St} (hs : StD D s) (s' : St) (item : Item) (hm : s'.macros = s.macros)
    (hr : s'.ready = s.ready ++ [item]) (hi : ItemD D item) : StD D s' := by
  refine ⟨by rw [hm]; exact hs.table, ?_⟩
  rw [hr]
  intro i hi'
  rcases List.mem_append.1 hi' with h | h
  · exact hs.ready i h
  · simp only [List.mem_singleton] at h; subst h; exact hi

/-- a step keeps the invariant, and a `divisionByZero` it reports implies `D` -/
def ResD (D : Prop) (r : Except AsmErr St) : Prop :=
  (∀ s', r = .ok s' → StD D s') ∧ (r = .error .divisionByZero → D)

theorem resD_ok {D : Prop} {s : St} (h : StD D s) : ResD D (.ok s) :=
  ⟨fun s' he => (by injection he with he; subst he; exact h), fun he => (by cases he)⟩

theorem resD_error {D : Prop} {e : AsmErr} (h : e = .divisionByZero → D) :
    ResD D (.error e) :=
  ⟨fun s' he => (by cases he), fun he => (by injection he with he; exact h he)⟩

theorem eval_D {D : Prop} {f : Nat} {c : Ctx} {e : Expr} (ht : TableD D c.macros)
    (he : ExprD D e) (h : eval f c e = .error .divisionByZero) : D := by
  rcases (eval_div_aux f).1 c e h with hv | ⟨n, ps, b, hlk, hv⟩
  · exact he hv
  · exact ht n _ hlk hv

theorem mapErr_div {err : EvErr} (h : mapErr err = .divisionByZero) : err = .divisionByZero := by
  cases err <;> simp [mapErr] at h
  rfl

theorem concretizeOp_D {D : Prop} {c : Ctx} {code : Nat} {imm : Option Expr}
    (ht : TableD D c.macros) (hi : ∀ e, imm = some e → ExprD D e)
    (h : concretizeOp c code imm = .ctx .divisionByZero) : D := by
  unfold concretizeOp at h
  cases imm with
  | none => simp at h
  | some e =>
    simp only [] at h
    cases hev : eval evalFuel c e with
    | error e2 =>
      rw [hev] at h
      simp only [Conc.ctx.injEq] at h
      subst h
      exact eval_D ht (hi e rfl) hev
    | ok x =>
      rw [hev] at h
      simp only [] at h
      split at h
      · cases h
      · split at h <;> cases h

theorem concretizePush_D {D : Prop} {c : Ctx} {e : Expr}
    (ht : TableD D c.macros) (hi : ExprD D e)
    (h : concretizePush c e = .ctx .divisionByZero) : D := by
  unfold concretizePush at h
  cases hev : eval evalFuel c e with
  | error e2 =>
    rw [hev] at h
    simp only [Conc.ctx.injEq] at h
    subst h
    exact eval_D ht hi hev
  | ok x =>
    rw [hev] at h
    simp only [] at h
    split at h
    · cases h
    · split at h <;> cases h

/-- `labels()` never reports a division by zero: it does not evaluate -/
theorem mentionedOf_not_div (ms : List (String × MacroDef)) (o : AOp) :
    mentionedOf ms o ≠ .error .divisionByZero := by
  unfold mentionedOf
  cases o.expr? with
  | none => simp
  | some e =>
    simp only []
    cases labelsOf ms evalFuel 0 e with
    | ok L => simp
    | error err => cases err <;> simp

theorem pushInstr_D {D : Prop} (s : St) (o : AOp) (item : Item) (size : Option Nat) (conc : St → Conc)
    (hs : StD D s) (hitem : ItemD D item)
    (hconc : ∀ (s1 : St), s1.macros = s.macros → conc s1 = .ctx .divisionByZero → D) :
    ResD D (pushInstr s o item size conc) := by
  rw [pushInstr_eq]
  cases hm : mentionedOf s.macros o with
  | error e =>
    simp only []
    apply resD_error
    intro hv
    subst hv
    exact absurd hm (mentionedOf_not_div _ _)
  | ok L =>
    simp only []
    cases hc : conc { s with undeclared := (L.filter (fun l => !isDefined s l)).foldl insertSet s.undeclared } with
    | ok bytes => exact resD_ok (hs.add _ item rfl rfl hitem)
    | tooLarge =>
      simp only []
      split
      · exact resD_ok (hs.add _ item rfl rfl hitem)
      · exact resD_error (by intro hv; cases hv)
    | negative =>
      simp only []
      split
      · exact resD_ok (hs.add _ item rfl rfl hitem)
      · exact resD_error (by intro hv; cases hv)
    | ctx err =>
      cases err with
      | divisionByZero =>
        simp only []
        split
        · exact resD_ok (hs.add _ item rfl rfl hitem)
        · exact resD_error (fun _ => hconc _ (by rfl) hc)
      | unknownLabel l => exact resD_ok (hs.add _ item rfl rfl hitem)
      | unknownMacro n => exact resD_error (by intro hv; simp [mapErr] at hv)
      | recursionLimit n => exact resD_error (by intro hv; simp [mapErr] at hv)
      | undefinedVariable w => exact resD_error (by intro hv; simp [mapErr] at hv)

/-! ### `finish` -/

theorem toExcept_div {k : Conc} (h : k.toExcept = .error .divisionByZero) :
    k = .ctx .divisionByZero := by
  cases k with
  | ok bs => simp [Conc.toExcept] at h
  | tooLarge => simp [Conc.toExcept] at h
  | negative => simp [Conc.toExcept] at h
  | ctx err =>
    simp only [Conc.toExcept, Except.error.injEq] at h
    rw [mapErr_div h]

theorem emitItem_D {D : Prop} {c : Ctx} {item : Item} {ws : List Nat}
    (ht : TableD D c.macros) (hi : ItemD D item)
    (h : emitItem c item ws = .error .divisionByZero) : D := by
  cases item with
  | label l => simp [emitItem] at h
  | raw bs => simp [emitItem] at h
  | op code imm =>
    refine concretizeOp_D ht ?_ (toExcept_div h)
    intro e he
    subst he
    exact hi
  | push ex =>
    refine concretizeOp_D ht ?_ (toExcept_div h)
    intro e he
    injection he with he
    subst he
    exact hi

theorem emit_D {D : Prop} {c : Ctx} (ht : TableD D c.macros) :
    ∀ (items : List Item) (ws : List Nat), (∀ i ∈ items, ItemD D i) →
      emit c items ws = .error .divisionByZero → D := by
  intro items
  induction items with
  | nil => intro ws _ h; simp [emit] at h
  | cons x rest ih =>
    intro ws hall h
    rw [emit_cons] at h
    cases hx : emitItem c x ws with
    | error e =>
      rw [hx] at h
      simp only [Except.error.injEq] at h
      subst h
      exact emitItem_D ht (hall x (List.mem_cons_self ..)) hx
    | ok bs =>
      rw [hx] at h
      simp only [] at h
      cases hy : emit c rest (ws.drop (pushCount [x])) with
      | error e =>
        rw [hy] at h
        simp only [Except.error.injEq] at h
        subst h
        exact ih _ (fun i hi => hall i (List.mem_cons_of_mem _ hi)) hy
      | ok more => rw [hy] at h; simp at h

theorem finish_D {D : Prop} {s : St} (hs : StD D s)
    (h : finish s = .error .divisionByZero) : D := by
  rw [finish_unfold] at h
  split at h
  · simp at h
  · exact emit_D (c := ⟨_, s.macros, none, 0⟩) hs.table _ _ hs.ready h

/-! ### the macro table of a scope comes from the scope's definition statements -/

theorem AOps.hasDivision_of_mem : ∀ (body : AOps) (o : AOp),
    o ∈ body.toList → o.hasDivision = true → body.hasDivision = true
  | .nil, o, h, _ => by simp [AOps.toList] at h
  | .cons x t, o, h, hv => by
    simp only [AOps.toList, List.mem_cons] at h
    simp only [AOps.hasDivision, Bool.or_eq_true]
    rcases h with h | h
    · subst h; exact Or.inl hv
    · exact Or.inr (AOps.hasDivision_of_mem t o h hv)

/-- every entry of the table `declareMacros` builds is the definition of an `.instrDef` / `.exprDef` statement -/
theorem declareMacros_D {D : Prop} : ∀ (l : List RawOp) (ms0 ms : List (String × MacroDef)),
    declareMacros l ms0 = .ok ms → (∀ p ∈ ms0, DefD D p.2) →
    (∀ o, RawOp.op o ∈ l → AOpD D o) →
    ∀ p ∈ ms, DefD D p.2 := by
  intro l
  induction l with
  | nil =>
    intro ms0 ms h h0 _
    simp only [declareMacros, Except.ok.injEq] at h
    subst h
    exact h0
  | cons x rest ih =>
    intro ms0 ms h h0 hl
    have hrest : ∀ o, RawOp.op o ∈ rest → AOpD D o :=
      fun o ho => hl o (List.mem_cons_of_mem _ ho)
    cases x with
    | op o =>
      cases o with
      | instrDef n ps body =>
        simp only [declareMacros] at h
        split at h
        · cases h
        · refine ih _ ms h ?_ hrest
          intro p hp
          rcases List.mem_append.1 hp with hp | hp
          · exact h0 p hp
          · simp only [List.mem_singleton] at hp
            subst hp
            intro o ho hv
            exact (hl _ (List.mem_cons_self ..))
              (by simp only [AOp.hasDivision]; exact AOps.hasDivision_of_mem body o ho hv)
      | exprDef n ps body =>
        simp only [declareMacros] at h
        split at h
        · cases h
        · refine ih _ ms h ?_ hrest
          intro p hp
          rcases List.mem_append.1 hp with hp | hp
          · exact h0 p hp
          · simp only [List.mem_singleton] at hp
            subst hp
            intro hv
            exact (hl _ (List.mem_cons_self ..)) (by simp only [AOp.hasDivision]; exact hv)
      | op code imm => simp only [declareMacros] at h; exact ih _ ms h h0 hrest
      | label l => simp only [declareMacros] at h; exact ih _ ms h h0 hrest
      | push ex => simp only [declareMacros] at h; exact ih _ ms h h0 hrest
      | «macro» n args => simp only [declareMacros] at h; exact ih _ ms h h0 hrest
    | scope ops => simp only [declareMacros] at h; exact ih _ ms h h0 hrest
    | raw bs => simp only [declareMacros] at h; exact ih _ ms h h0 hrest

theorem declareMacros_tableD {D : Prop} {l : List RawOp} {ms : List (String × MacroDef)}
    (h : declareMacros l [] = .ok ms) (hl : ∀ o, RawOp.op o ∈ l → AOpD D o) : TableD D ms := by
  intro n d hlk
  obtain ⟨p, hp, rfl⟩ := lookupMacro_mem_table hlk
  exact declareMacros_D l [] ms h (by intro p hp; cases hp) hl p hp

/-! ### `instantiate`: the divisions of an instantiated body come from the body or from the arguments -/

theorem AOpD.label (D : Prop) (l : String) : AOpD D (.label l) := by
  intro hv; simp [AOp.hasDivision] at hv

theorem aopD_macro {D : Prop} {n : String} {args : List Expr} :
    AOpD D (.macro n args) ↔ ∀ a ∈ args, ExprD D a := by
  constructor
  · intro h a ha hv
    exact h (by simp only [AOp.hasDivision, List.any_eq_true]; exact ⟨a, ha, hv⟩)
  · intro h hv
    simp only [AOp.hasDivision, List.any_eq_true] at hv
    obtain ⟨a, ha, hv⟩ := hv
    exact h a ha hv

theorem substBody_D {D : Prop} (renames : List (String × String)) (bs : List (String × Expr))
    (body : List AOp) (hb : ∀ p ∈ bs, ExprD D p.2) (hbody : ∀ o ∈ body, AOpD D o) :
    ∀ o ∈ substBody renames bs body, AOpD D o := by
  intro o' ho'
  simp only [substBody, List.mem_map] at ho'
  obtain ⟨o, ho, rfl⟩ := ho'
  have hin := hbody o ho
  cases o with
  | label l => exact hin
  | instrDef n ps b => exact hin
  | exprDef n ps b => exact hin
  | push ex =>
    intro hv
    simp only [AOp.hasDivision] at hv
    exact substFix_div hb ex (fun hv => hin (by simp only [AOp.hasDivision]; exact hv)) hv
  | op code imm =>
    cases imm with
    | none => exact hin
    | some ex =>
      intro hv
      simp only [AOp.hasDivision] at hv
      exact substFix_div hb ex (fun hv => hin (by simp only [AOp.hasDivision]; exact hv)) hv
  | «macro» n args =>
    simp only []
    rw [aopD_macro] at hin ⊢
    intro a ha
    simp only [List.mem_map] at ha
    obtain ⟨a0, ha0, rfl⟩ := ha
    exact substFix_div hb a0 (hin a0 ha0)

theorem instantiate_D {D : Prop} (rnd : Nat → Nat) (name : String) (params : List String)
    (body : List AOp) (args : List Expr) (fresh : Nat) (body2 : List AOp) (k : Nat)
    (h : instantiate rnd name params body args fresh = .ok (body2, k))
    (hbody : ∀ o ∈ body, AOpD D o) (hargs : ∀ a ∈ args, ExprD D a) : ∀ o ∈ body2, AOpD D o := by
  unfold instantiate at h
  split at h
  · cases h
  · cases hr : renameLocals rnd name body fresh [] with
    | error e2 => rw [hr] at h; simp at h
    | ok r =>
      obtain ⟨body1, k1, renames⟩ := r
      rw [hr] at h
      simp only [Except.ok.injEq, Prod.mk.injEq] at h
      obtain ⟨rfl, _⟩ := h
      apply substBody_D
      · intro p hp
        exact hargs p.2 (List.of_mem_zip hp).2
      · exact renameLocals_pred _ (AOpD.label D) rnd name body fresh [] _ _ _ hr hbody

/-! ### within one scope -/

theorem ops_D (rnd : Nat → Nat) (D : Prop) : ∀ f,
    (∀ s o, StD D s → AOpD D o → ResD D (push rnd f s (.op o))) ∧
    (∀ s name args, StD D s → (∀ a ∈ args, ExprD D a) → ResD D (expandMacro rnd f s name args)) ∧
    (∀ s body, StD D s → (∀ o ∈ body, AOpD D o) → ResD D (feed rnd f s body)) := by
  intro f
  induction f with
  | zero =>
    refine ⟨?_, ?_, ?_⟩
    · intro s o _ _; simp only [push]; exact resD_error (by intro hv; cases hv)
    · intro s name args _ _; simp only [expandMacro]; exact resD_error (by intro hv; cases hv)
    · intro s body _ _; simp only [feed]; exact resD_error (by intro hv; cases hv)
  | succ f ih =>
    obtain ⟨ihP, ihM, ihF⟩ := ih
    refine ⟨?_, ?_, ?_⟩
    · intro s o hs ho
      cases o with
      | label l =>
        simp only [push]
        split
        · exact resD_error (by intro hv; cases hv)
        · exact resD_ok (hs.add _ (.label l) rfl rfl trivial)
      | instrDef n ps body => simp only [push]; exact resD_ok hs
      | exprDef n ps body => simp only [push]; exact resD_ok hs
      | «macro» name args => simp only [push]; exact ihM s name args hs (aopD_macro.1 ho)
      | op code imm =>
        simp only [push]
        have hi : ∀ e, imm = some e → ExprD D e := by
          intro e he hv
          subst he
          exact ho (by simp only [AOp.hasDivision]; exact hv)
        apply pushInstr_D s _ _ _ _ hs
        · cases imm with
          | none => trivial
          | some e => exact hi e rfl
        · intro s1 hs1 hc
          refine concretizeOp_D (c := s1.ctx) ?_ hi hc
          simp only [St.ctx]
          rw [hs1]
          exact hs.table
      | push ex =>
        simp only [push]
        have hi : ExprD D ex := fun hv => ho (by simp only [AOp.hasDivision]; exact hv)
        apply pushInstr_D s _ _ _ _ hs (show ItemD D (.push ex) from hi)
        intro s1 hs1 hc
        refine concretizePush_D (c := s1.ctx) ?_ hi hc
        simp only [St.ctx]
        rw [hs1]
        exact hs.table
    · intro s name args hs hargs
      simp only [expandMacro]
      cases hlk : lookupMacro s.macros name with
      | none => exact resD_error (by intro hv; cases hv)
      | some md =>
        cases md with
        | expr ps body => exact resD_error (by intro hv; cases hv)
        | instr params body =>
          simp only []
          split
          · exact resD_error (by intro hv; cases hv)
          · split
            · exact resD_error (by intro hv; cases hv)
            · cases hinst : instantiate rnd name params body args s.fresh with
              | error e =>
                simp only []
                apply resD_error
                intro hv
                subst hv
                rcases instantiate_err _ _ _ _ _ _ _ hinst with he | ⟨l, he⟩ <;> cases he
              | ok r =>
                obtain ⟨body2, k⟩ := r
                simp only []
                have hb2 := instantiate_D rnd name params body args s.fresh body2 k hinst
                  (hs.table name _ hlk) hargs
                have hfeed := ihF { s with depth := s.depth + 1, fresh := k } body2 (hs.congr _ rfl rfl) hb2
                cases hfd : feed rnd f { s with depth := s.depth + 1, fresh := k } body2 with
                | error e =>
                  rw [hfd] at hfeed
                  exact resD_error (fun hv => hfeed.2 (by rw [hv]))
                | ok s' =>
                  rw [hfd] at hfeed
                  exact resD_ok ((hfeed.1 s' rfl).congr _ rfl rfl)
    · intro s body hs hbody
      cases body with
      | nil => simp only [feed]; exact resD_ok hs
      | cons o os =>
        simp only [feed]
        have hp := ihP s o hs (hbody o (List.mem_cons_self ..))
        cases hpush : push rnd f s (.op o) with
        | error e =>
          rw [hpush] at hp
          exact resD_error (fun hv => hp.2 (by rw [hv]))
        | ok s' =>
          rw [hpush] at hp
          exact ihF s' os (hp.1 s' rfl) (fun x hx => hbody x (List.mem_cons_of_mem _ hx))

/-! ### the steps induction through nested scopes -/

/-- a top-level statement of the program or of one of its nested scopes contains a division -/
def DivProv (ops : RawOps) : Prop :=
  ∃ (sub : RawOps) (o : AOp), SubScope sub ops ∧ RawOp.op o ∈ sub.toList ∧ o.hasDivision = true

theorem DivProv.nested {inner ops : RawOps}
    (hmem : RawOp.scope inner ∈ ops.toList) (h : DivProv inner) : DivProv ops := by
  obtain ⟨sub, o, hsub, rest⟩ := h
  exact ⟨sub, o, SubScope.nested sub inner ops hmem hsub, rest⟩

/-- a top-level statement of the scope contains a division -/
def ScopeDiv (ops : RawOps) : Prop :=
  ∃ o, RawOp.op o ∈ ops.toList ∧ o.hasDivision = true

theorem divProv_steps (rnd : Nat → Nat) : ∀ f,
    (∀ k ops, assemble rnd f { fresh := k } ops = .error .divisionByZero → DivProv ops) ∧
    (∀ (D : Prop) s rop, StD D s → (∀ o, rop = .op o → AOpD D o) →
      (∀ s', push rnd f s rop = .ok s' → StD D s') ∧
      (push rnd f s rop = .error .divisionByZero →
        D ∨ ∃ inner, rop = .scope inner ∧ DivProv inner)) ∧
    (∀ (D : Prop) s ops, StD D s → (∀ o, RawOp.op o ∈ ops.toList → AOpD D o) →
      (∀ s', feedAll rnd f s ops = .ok s' → StD D s') ∧
      (feedAll rnd f s ops = .error .divisionByZero →
        D ∨ ∃ inner, RawOp.scope inner ∈ ops.toList ∧ DivProv inner)) := by
  intro f
  induction f with
  | zero =>
    refine ⟨?_, ?_, ?_⟩
    · intro k ops h; simp [assemble] at h
    · intro D s rop _ _
      exact ⟨by intro s' h; simp [push] at h, by intro h; simp [push] at h⟩
    · intro D s ops _ _
      exact ⟨by intro s' h; simp [feedAll] at h, by intro h; simp [feedAll] at h⟩
  | succ f ih =>
    obtain ⟨ihA, ihP, ihF⟩ := ih
    refine ⟨?_, ?_, ?_⟩
    · intro k ops h
      simp only [assemble] at h
      cases hdm : declareMacros ops.toList [] with
      | error e2 =>
        rw [hdm] at h
        simp only [Except.error.injEq] at h
        subst h
        obtain ⟨m, hm⟩ := declareMacros_err _ _ _ hdm
        cases hm
      | ok ms =>
        rw [hdm] at h
        simp only [] at h
        have hall : ∀ o, RawOp.op o ∈ ops.toList → AOpD (ScopeDiv ops) o :=
          fun o ho hw => ⟨o, ho, hw⟩
        have hs0 : StD (ScopeDiv ops) { macros := ms, fresh := k } :=
          ⟨declareMacros_tableD hdm hall, by intro i hi; cases hi⟩
        have hF := ihF (ScopeDiv ops) { macros := ms, fresh := k } ops hs0 hall
        have fromP : ScopeDiv ops → DivProv ops := by
          rintro ⟨o, ho, hv⟩
          exact ⟨ops, o, SubScope.refl ops, ho, hv⟩
        cases hfa : feedAll rnd f { macros := ms, fresh := k } ops with
        | error e2 =>
          rw [hfa] at h
          simp only [Except.error.injEq] at h
          subst h
          rcases hF.2 hfa with hp | ⟨inner, hmem, hp⟩
          · exact fromP hp
          · exact hp.nested hmem
        | ok s =>
          rw [hfa] at h
          simp only [] at h
          cases hx : finish s with
          | error e2 =>
            rw [hx] at h
            simp only [Except.map, Except.error.injEq] at h
            subst h
            exact fromP (finish_D (hF.1 s hfa) hx)
          | ok b => rw [hx] at h; simp [Except.map] at h
    · intro D s rop hs hrop
      cases rop with
      | op o =>
        have := (ops_D rnd D (f + 1)).1 s o hs (hrop o rfl)
        exact ⟨this.1, fun h => Or.inl (this.2 h)⟩
      | raw bs =>
        refine ⟨?_, by intro h; simp [push] at h⟩
        intro s' h
        simp only [push, Except.ok.injEq] at h
        subst h
        exact hs.add _ (.raw bs) rfl rfl trivial
      | scope inner =>
        simp only [push]
        cases hasm : assemble rnd f { fresh := s.fresh } inner with
        | error e2 =>
          refine ⟨(by intro s' h; cases h), ?_⟩
          intro h
          simp only [Except.error.injEq] at h
          subst h
          exact Or.inr ⟨inner, rfl, ihA _ _ hasm⟩
        | ok r =>
          obtain ⟨b, k⟩ := r
          refine ⟨?_, by intro h; cases h⟩
          intro s' h
          simp only [Except.ok.injEq] at h
          subst h
          exact hs.add _ (.raw b) rfl rfl trivial
    · intro D s ops hs hops
      cases ops with
      | nil =>
        simp only [feedAll]
        exact ⟨by intro s' h; injection h with h; subst h; exact hs, by intro h; cases h⟩
      | cons o rest =>
        simp only [feedAll]
        have hP := ihP D s o hs (by intro x hx; subst hx; exact hops x (by simp [RawOps.toList]))
        cases hpush : push rnd f s o with
        | error e2 =>
          refine ⟨(by intro s' h; cases h), ?_⟩
          intro h
          simp only [Except.error.injEq] at h
          subst h
          rcases hP.2 hpush with hp | ⟨inner, hi, hp⟩
          · exact Or.inl hp
          · subst hi
            exact Or.inr ⟨inner, by simp [RawOps.toList], hp⟩
        | ok s' =>
          simp only []
          have hF := ihF D s' rest (hP.1 s' hpush)
            (by intro x hx; exact hops x (by simp only [RawOps.toList]; exact List.mem_cons_of_mem _ hx))
          refine ⟨hF.1, ?_⟩
          intro h
          rcases hF.2 h with hp | ⟨inner, hmem, hp⟩
          · exact Or.inl hp
          · exact Or.inr ⟨inner, by simp only [RawOps.toList]; exact List.mem_cons_of_mem _ hmem, hp⟩

/-- C13, `DivisionByZero`: the scope that reports it contains a division — in an operand, an invocation argument or
the body of one of its macro definitions -/
theorem divisionByZero_use (rnd : Nat → Nat) (fuel k : Nat) (ops : RawOps)
    (h : assemble rnd fuel { fresh := k } ops = .error .divisionByZero) :
    ∃ (sub : RawOps) (o : AOp), SubScope sub ops ∧ RawOp.op o ∈ sub.toList ∧ o.hasDivision = true :=
  (divProv_steps rnd fuel).1 k ops h

/-! ## `DuplicateLabel` -/

/-- the top-level statement is the label definition `l:` -/
def RawOp.isLabel (l : String) : RawOp → Bool
  | .op o => o.isLabel l
  | _ => false

/-- the scope writes `l:` twice at its top level -/
def TopDup (L : List RawOp) (l : String) : Prop := 2 ≤ (L.filter (fun r => r.isLabel l)).length

/-- the body of an instruction macro of the table writes `l:` twice -/
def MacroDup (ms : List (String × MacroDef)) (l : String) : Prop :=
  ∃ n ps body, lookupMacro ms n = some (.instr ps body) ∧ 2 ≤ (body.filter (fun o => o.isLabel l)).length

theorem filter_len_cons_le {α : Type} (p : α → Bool) (a : α) (l : List α) :
    (l.filter p).length ≤ ((a :: l).filter p).length := by
  simp only [List.filter_cons]; split <;> simp

theorem filter_len_cons_true {α : Type} (p : α → Bool) (a : α) (l : List α) (h : p a = true) :
    ((a :: l).filter p).length = (l.filter p).length + 1 := by
  simp [h]

/-- a member of `done` and the next statement both satisfy `p`: two hits in the whole list -/
theorem filter_len_two {α : Type} (p : α → Bool) (done rest : List α) (x o : α) (hx : x ∈ done)
    (hpx : p x = true) (hpo : p o = true) : 2 ≤ ((done ++ o :: rest).filter p).length := by
  rw [List.filter_append, List.length_append, filter_len_cons_true p o rest hpo]
  have : 0 < (done.filter p).length := List.length_pos_of_mem (List.mem_filter.2 ⟨hx, hpx⟩)
  omega

/-! ### `renameLocals` / `instantiate` and labels -/

/-- `renameLocals` reports `duplicateLabel l` when the body writes `l:` a second time (the labels seen so far are the
keys of `m`) -/
theorem renameLocals_dup (rnd : Nat → Nat) (name : String) : ∀ (body : List AOp) (k : Nat)
    (m : List (String × String)) (l : String),
    renameLocals rnd name body k m = .error (.duplicateLabel l) →
    (m.any (·.1 == l) = true ∧ 1 ≤ (body.filter (fun o => o.isLabel l)).length) ∨
      2 ≤ (body.filter (fun o => o.isLabel l)).length := by
  intro body
  induction body with
  | nil => intro k m l h; simp [renameLocals] at h
  | cons o rest ih =>
    intro k m l h
    have hle := filter_len_cons_le (fun o => AOp.isLabel l o) o rest
    have other : (match renameLocals rnd name rest k m with
        | .error e => Except.error e
        | .ok (os, k', m') => (.ok (o :: os, k', m') : Except AsmErr (List AOp × Nat × List (String × String))))
          = Except.error (.duplicateLabel l) →
        (m.any (·.1 == l) = true ∧ 1 ≤ ((o :: rest).filter (fun o => o.isLabel l)).length) ∨
          2 ≤ ((o :: rest).filter (fun o => o.isLabel l)).length := by
      intro h
      cases hr : renameLocals rnd name rest k m with
      | error e2 =>
        rw [hr] at h
        simp only [Except.error.injEq] at h
        subst h
        rcases ih _ _ _ hr with ⟨h1, h2⟩ | h2
        · exact Or.inl ⟨h1, by omega⟩
        · exact Or.inr (by omega)
      | ok r => rw [hr] at h; simp at h
    cases o with
    | label x =>
      simp only [renameLocals] at h
      split at h
      · rename_i hany
        simp only [Except.error.injEq, AsmErr.duplicateLabel.injEq] at h
        subst h
        left
        exact ⟨hany, by rw [filter_len_cons_true _ _ _ (by simp [AOp.isLabel])]; omega⟩
      · cases hr : renameLocals rnd name rest (k + 1) (m ++ [(x, mangle rnd k name x)]) with
        | error e2 =>
          rw [hr] at h
          simp only [Except.error.injEq] at h
          subst h
          rcases ih _ _ _ hr with ⟨h1, h2⟩ | h2
          · simp only [List.any_append, Bool.or_eq_true, List.any_cons, List.any_nil, Bool.or_false] at h1
            rcases h1 with h1 | h1
            · exact Or.inl ⟨h1, by omega⟩
            · right
              rw [filter_len_cons_true _ _ _ (by simp only [AOp.isLabel]; exact h1)]
              omega
          · exact Or.inr (by omega)
        | ok r => obtain ⟨a, b, c⟩ := r; rw [hr] at h; simp at h
    | op code imm => simp only [renameLocals] at h; exact other h
    | push ex => simp only [renameLocals] at h; exact other h
    | instrDef n ps b => simp only [renameLocals] at h; exact other h
    | exprDef n ps b => simp only [renameLocals] at h; exact other h
    | «macro» n args => simp only [renameLocals] at h; exact other h

/-- every label statement `renameLocals` leaves in the body is a mangled one -/
theorem renameLocals_mangled (rnd : Nat → Nat) (name : String) : ∀ (body : List AOp) (k : Nat)
    (m : List (String × String)) (os : List AOp) (k' : Nat) (m' : List (String × String)),
    renameLocals rnd name body k m = .ok (os, k', m') → ∀ x, AOp.label x ∈ os → IsMangled rnd x := by
  intro body
  induction body with
  | nil =>
    intro k m os k' m' h
    simp only [renameLocals, Except.ok.injEq, Prod.mk.injEq] at h
    obtain ⟨rfl, _, _⟩ := h
    intro x hx; cases hx
  | cons o rest ih =>
    intro k m os k' m' h
    have other : (∀ x, o ≠ .label x) → (match renameLocals rnd name rest k m with
        | .error e => Except.error e
        | .ok (os, k', m') => (.ok (o :: os, k', m') : Except AsmErr (List AOp × Nat × List (String × String))))
          = .ok (os, k', m') → ∀ x, AOp.label x ∈ os → IsMangled rnd x := by
      intro hne h
      cases hr : renameLocals rnd name rest k m with
      | error e2 => rw [hr] at h; simp at h
      | ok r =>
        obtain ⟨os1, k1, m1⟩ := r
        rw [hr] at h
        simp only [Except.ok.injEq, Prod.mk.injEq] at h
        obtain ⟨rfl, _, _⟩ := h
        intro x hx
        rcases List.mem_cons.1 hx with hx | hx
        · exact absurd hx.symm (hne x)
        · exact ih _ _ _ _ _ hr x hx
    cases o with
    | label l =>
      simp only [renameLocals] at h
      split at h
      · cases h
      · cases hr : renameLocals rnd name rest (k + 1) (m ++ [(l, mangle rnd k name l)]) with
        | error e2 => rw [hr] at h; simp at h
        | ok r =>
          obtain ⟨os1, k1, m1⟩ := r
          rw [hr] at h
          simp only [Except.ok.injEq, Prod.mk.injEq] at h
          obtain ⟨rfl, _, _⟩ := h
          intro x hx
          rcases List.mem_cons.1 hx with hx | hx
          · injection hx with hx
            exact ⟨k, name, l, hx⟩
          · exact ih _ _ _ _ _ hr x hx
    | op code imm => simp only [renameLocals] at h; exact other (by intro x hx; cases hx) h
    | push ex => simp only [renameLocals] at h; exact other (by intro x hx; cases hx) h
    | instrDef n ps b => simp only [renameLocals] at h; exact other (by intro x hx; cases hx) h
    | exprDef n ps b => simp only [renameLocals] at h; exact other (by intro x hx; cases hx) h
    | «macro» n args => simp only [renameLocals] at h; exact other (by intro x hx; cases hx) h

/-- `substBody` leaves label statements alone -/
theorem substBody_label (renames : List (String × String)) (bs : List (String × Expr)) (body : List AOp)
    (x : String) (h : AOp.label x ∈ substBody renames bs body) : AOp.label x ∈ body := by
  simp only [substBody, List.mem_map] at h
  obtain ⟨o, ho, heq⟩ := h
  cases o with
  | label l => simp only [] at heq; rw [← heq]; exact ho
  | op code imm => cases imm <;> simp at heq
  | push ex => simp at heq
  | instrDef n ps b => simp at heq
  | exprDef n ps b => simp at heq
  | «macro» n args => simp at heq

/-- every label statement of an instantiated body is a mangled one -/
theorem instantiate_mangled (rnd : Nat → Nat) (name : String) (params : List String)
    (body : List AOp) (args : List Expr) (fresh : Nat) (body2 : List AOp) (k : Nat)
    (h : instantiate rnd name params body args fresh = .ok (body2, k)) :
    ∀ x, AOp.label x ∈ body2 → IsMangled rnd x := by
  unfold instantiate at h
  split at h
  · cases h
  · cases hr : renameLocals rnd name body fresh [] with
    | error e2 => rw [hr] at h; simp at h
    | ok r =>
      obtain ⟨body1, k1, renames⟩ := r
      rw [hr] at h
      simp only [Except.ok.injEq, Prod.mk.injEq] at h
      obtain ⟨rfl, _⟩ := h
      intro x hx
      exact renameLocals_mangled rnd name body fresh [] _ _ _ hr x (substBody_label _ _ _ x hx)

/-- `instantiate` reports `duplicateLabel l` when the macro's body writes `l:` twice -/
theorem instantiate_dup (rnd : Nat → Nat) (name : String) (params : List String)
    (body : List AOp) (args : List Expr) (fresh : Nat) (l : String)
    (h : instantiate rnd name params body args fresh = .error (.duplicateLabel l)) :
    2 ≤ (body.filter (fun o => o.isLabel l)).length := by
  unfold instantiate at h
  split at h
  · cases h
  · cases hr : renameLocals rnd name body fresh [] with
    | error e2 =>
      rw [hr] at h
      simp only [Except.error.injEq] at h
      subst h
      rcases renameLocals_dup rnd name body fresh [] l hr with ⟨hm, _⟩ | h2
      · simp at hm
      · exact h2
    | ok r => obtain ⟨a, b, c⟩ := r; rw [hr] at h; simp at h

/-! ### the label table -/

theorem setLabel_mem {ls : List (String × Option Nat)} {l : String} {v : Option Nat} {p : String × Option Nat}
    (h : p ∈ setLabel ls l v) : p ∈ ls ∨ p.1 = l := by
  unfold setLabel at h
  split at h
  · simp only [List.mem_map] at h
    obtain ⟨q, hq, rfl⟩ := h
    split
    · exact Or.inr rfl
    · exact Or.inl hq
  · rcases List.mem_append.1 h with h | h
    · exact Or.inl h
    · simp only [List.mem_singleton] at h; subst h; exact Or.inr rfl

theorem lookupLabel_isSome_mem {ls : List (String × Option Nat)} {l : String}
    (h : (lookupLabel ls l).isSome = true) : ∃ p ∈ ls, p.1 = l := by
  unfold lookupLabel at h
  cases hf : ls.find? (·.1 == l) with
  | none => rw [hf] at h; simp at h
  | some p =>
    have := List.find?_some hf
    exact ⟨p, List.mem_of_find?_eq_some hf, by simpa using this⟩

/-! ### the invariant: the state works on the scope's table `ms`, and every name of the label table satisfies `K` -/

structure StL (ms : List (String × MacroDef)) (K : String → Prop) (s : St) : Prop where
  macros : s.macros = ms
  labels : ∀ p ∈ s.labels, K p.1

theorem StL.congr {ms K} {s : St} (hs : StL ms K s) (s' : St) (hm : s'.macros = s.macros)
    (hl : s'.labels = s.labels) : StL ms K s' :=
  ⟨by rw [hm]; exact hs.macros, by rw [hl]; exact hs.labels⟩

theorem StL.mono {ms} {K K' : String → Prop} {s : St} (hs : StL ms K s) (h : ∀ x, K x → K' x) : StL ms K' s :=
  ⟨hs.macros, fun p hp => h _ (hs.labels p hp)⟩

/-- a step inside a scope keeps the invariant; a `duplicateLabel l` it reports comes from a macro body of the table
writing `l:` twice, or names a mangled label -/
def ResL (rnd : Nat → Nat) (ms : List (String × MacroDef)) (K : String → Prop) (r : Except AsmErr St) : Prop :=
  (∀ s', r = .ok s' → StL ms K s') ∧ (∀ l, r = .error (.duplicateLabel l) → MacroDup ms l ∨ IsMangled rnd l)

theorem resL_ok {rnd ms K} {s : St} (h : StL ms K s) : ResL rnd ms K (.ok s) :=
  ⟨fun s' he => (by injection he with he; subst he; exact h), fun l he => (by cases he)⟩

theorem resL_error {rnd ms K} {e : AsmErr} (h : ∀ l, e = .duplicateLabel l → MacroDup ms l ∨ IsMangled rnd l) :
    ResL rnd ms K (.error e) :=
  ⟨fun s' he => (by cases he), fun l he => (by injection he with he; exact h l he)⟩

theorem mentionedOf_noDup (ms : List (String × MacroDef)) (o : AOp) (l : String) :
    mentionedOf ms o ≠ .error (.duplicateLabel l) := by
  unfold mentionedOf
  cases o.expr? with
  | none => simp
  | some e =>
    simp only []
    cases labelsOf ms evalFuel 0 e with
    | ok L => simp
    | error err => cases err <;> simp

theorem pushInstr_L {rnd ms K} (s : St) (o : AOp) (item : Item) (size : Option Nat) (conc : St → Conc)
    (hs : StL ms K s) : ResL rnd ms K (pushInstr s o item size conc) := by
  rw [pushInstr_eq]
  cases hm : mentionedOf s.macros o with
  | error e =>
    simp only []
    apply resL_error
    intro l hv
    subst hv
    exact absurd hm (mentionedOf_noDup _ _ _)
  | ok L =>
    simp only []
    cases hc : conc { s with undeclared := (L.filter (fun l => !isDefined s l)).foldl insertSet s.undeclared } with
    | ok bytes => exact resL_ok (hs.congr _ rfl rfl)
    | tooLarge =>
      simp only []
      split
      · exact resL_ok (hs.congr _ rfl rfl)
      · exact resL_error (by intro l hv; cases hv)
    | negative =>
      simp only []
      split
      · exact resL_ok (hs.congr _ rfl rfl)
      · exact resL_error (by intro l hv; cases hv)
    | ctx err =>
      cases err with
      | divisionByZero =>
        simp only []
        split
        · exact resL_ok (hs.congr _ rfl rfl)
        · exact resL_error (by intro l hv; cases hv)
      | unknownLabel l => exact resL_ok (hs.congr _ rfl rfl)
      | unknownMacro n => exact resL_error (by intro l hv; simp [mapErr] at hv)
      | recursionLimit n => exact resL_error (by intro l hv; simp [mapErr] at hv)
      | undefinedVariable w => exact resL_error (by intro l hv; simp [mapErr] at hv)

/-! ### `finish` never reports a duplicate label -/

theorem toExcept_noDup (k : Conc) (l : String) : k.toExcept ≠ .error (.duplicateLabel l) := by
  cases k with
  | ok bs => simp [Conc.toExcept]
  | tooLarge => simp [Conc.toExcept]
  | negative => simp [Conc.toExcept]
  | ctx err => cases err <;> simp [Conc.toExcept, mapErr]

theorem emitItem_noDup (c : Ctx) (item : Item) (ws : List Nat) (l : String) :
    emitItem c item ws ≠ .error (.duplicateLabel l) := by
  cases item with
  | label x => simp [emitItem]
  | raw bs => simp [emitItem]
  | op code imm => exact toExcept_noDup _ l
  | push ex => exact toExcept_noDup _ l

theorem emit_noDup (c : Ctx) (l : String) : ∀ (items : List Item) (ws : List Nat),
    emit c items ws ≠ .error (.duplicateLabel l) := by
  intro items
  induction items with
  | nil => intro ws h; simp [emit] at h
  | cons x rest ih =>
    intro ws h
    rw [emit_cons] at h
    cases hx : emitItem c x ws with
    | error e =>
      rw [hx] at h
      simp only [Except.error.injEq] at h
      subst h
      exact emitItem_noDup c x ws l hx
    | ok bs =>
      rw [hx] at h
      simp only [] at h
      cases hy : emit c rest (ws.drop (pushCount [x])) with
      | error e =>
        rw [hy] at h
        simp only [Except.error.injEq] at h
        subst h
        exact ih _ hy
      | ok more => rw [hy] at h; simp at h

theorem finish_noDup (s : St) (l : String) : finish s ≠ .error (.duplicateLabel l) := by
  rw [finish_unfold]
  split
  · simp
  · exact emit_noDup _ l _ _

/-! ### within one scope: statements of instantiated bodies (their label statements are mangled) -/

theorem ops_L (rnd : Nat → Nat) (ms : List (String × MacroDef)) (K : String → Prop)
    (hK : ∀ x, IsMangled rnd x → K x) : ∀ f,
    (∀ s o, StL ms K s → (∀ x, o = .label x → IsMangled rnd x) → ResL rnd ms K (push rnd f s (.op o))) ∧
    (∀ s name args, StL ms K s → ResL rnd ms K (expandMacro rnd f s name args)) ∧
    (∀ s body, StL ms K s → (∀ x, AOp.label x ∈ body → IsMangled rnd x) → ResL rnd ms K (feed rnd f s body)) := by
  intro f
  induction f with
  | zero =>
    refine ⟨?_, ?_, ?_⟩
    · intro s o _ _; simp only [push]; exact resL_error (by intro l hv; cases hv)
    · intro s name args _; simp only [expandMacro]; exact resL_error (by intro l hv; cases hv)
    · intro s body _ _; simp only [feed]; exact resL_error (by intro l hv; cases hv)
  | succ f ih =>
    obtain ⟨ihP, ihM, ihF⟩ := ih
    refine ⟨?_, ?_, ?_⟩
    · intro s o hs ho
      cases o with
      | label l =>
        simp only [push]
        split
        · apply resL_error
          intro l' hv
          simp only [AsmErr.duplicateLabel.injEq] at hv
          subst hv
          exact Or.inr (ho _ rfl)
        · apply resL_ok
          refine ⟨hs.macros, ?_⟩
          intro p hp
          rcases setLabel_mem hp with hp | hp
          · exact hs.labels p hp
          · rw [hp]; exact hK _ (ho _ rfl)
      | instrDef n ps body => simp only [push]; exact resL_ok hs
      | exprDef n ps body => simp only [push]; exact resL_ok hs
      | «macro» name args => simp only [push]; exact ihM s name args hs
      | op code imm => simp only [push]; exact pushInstr_L s _ _ _ _ hs
      | push ex => simp only [push]; exact pushInstr_L s _ _ _ _ hs
    · intro s name args hs
      simp only [expandMacro]
      cases hlk : lookupMacro s.macros name with
      | none => exact resL_error (by intro l hv; cases hv)
      | some md =>
        cases md with
        | expr ps body => exact resL_error (by intro l hv; cases hv)
        | instr params body =>
          simp only []
          have hlk' : lookupMacro ms name = some (.instr params body) := by rw [← hs.macros]; exact hlk
          split
          · exact resL_error (by intro l hv; cases hv)
          · split
            · exact resL_error (by intro l hv; cases hv)
            · cases hinst : instantiate rnd name params body args s.fresh with
              | error e =>
                simp only []
                apply resL_error
                intro l hv
                subst hv
                exact Or.inl ⟨name, params, body, hlk', instantiate_dup _ _ _ _ _ _ _ hinst⟩
              | ok r =>
                obtain ⟨body2, k⟩ := r
                simp only []
                have hb2 := instantiate_mangled rnd name params body args s.fresh body2 k hinst
                have hfeed := ihF { s with depth := s.depth + 1, fresh := k } body2 (hs.congr _ rfl rfl) hb2
                cases hfd : feed rnd f { s with depth := s.depth + 1, fresh := k } body2 with
                | error e =>
                  rw [hfd] at hfeed
                  exact resL_error (fun l hv => hfeed.2 l (by rw [hv]))
                | ok s' =>
                  rw [hfd] at hfeed
                  exact resL_ok ((hfeed.1 s' rfl).congr _ rfl rfl)
    · intro s body hs hbody
      cases body with
      | nil => simp only [feed]; exact resL_ok hs
      | cons o os =>
        simp only [feed]
        have hp := ihP s o hs (by intro x hx; subst hx; exact hbody x (List.mem_cons_self ..))
        cases hpush : push rnd f s (.op o) with
        | error e =>
          rw [hpush] at hp
          exact resL_error (fun l hv => hp.2 l (by rw [hv]))
        | ok s' =>
          rw [hpush] at hp
          exact ihF s' os (hp.1 s' rfl) (fun x hx => hbody x (List.mem_cons_of_mem _ hx))

/-! ### the steps induction through nested scopes, with the prefix of the scope fed so far -/

/-- the names the label table may hold once the statements `done` of the scope have been fed: mangled ones (written
by expansions) and the labels of the top-level label statements among `done` -/
def KDone (rnd : Nat → Nat) (done : List RawOp) (x : String) : Prop :=
  IsMangled rnd x ∨ RawOp.op (.label x) ∈ done

/-- what `duplicateLabel l` says about the scope with statements `L` and macro table `ms` -/
def DupHere (rnd : Nat → Nat) (ms : List (String × MacroDef)) (L : List RawOp) (l : String) : Prop :=
  TopDup L l ∨ MacroDup ms l ∨ IsMangled rnd l

def DupLabelProv (rnd : Nat → Nat) (ops : RawOps) (l : String) : Prop :=
  ∃ (sub : RawOps) (ms : List (String × MacroDef)),
    SubScope sub ops ∧ declareMacros sub.toList [] = .ok ms ∧ DupHere rnd ms sub.toList l

theorem DupLabelProv.nested {rnd : Nat → Nat} {inner ops : RawOps} {l : String}
    (hmem : RawOp.scope inner ∈ ops.toList) (h : DupLabelProv rnd inner l) : DupLabelProv rnd ops l := by
  obtain ⟨sub, ms, hsub, rest⟩ := h
  exact ⟨sub, ms, SubScope.nested sub inner ops hmem hsub, rest⟩

theorem dupLabelProv_steps (rnd : Nat → Nat) : ∀ f,
    (∀ k ops l, assemble rnd f { fresh := k } ops = .error (.duplicateLabel l) → DupLabelProv rnd ops l) ∧
    (∀ (ms : List (String × MacroDef)) (done : List RawOp) s rop, StL ms (KDone rnd done) s →
      (∀ s', push rnd f s rop = .ok s' → StL ms (KDone rnd (done ++ [rop])) s') ∧
      (∀ l, push rnd f s rop = .error (.duplicateLabel l) →
        MacroDup ms l ∨ IsMangled rnd l ∨ (rop = .op (.label l) ∧ RawOp.op (.label l) ∈ done) ∨
          ∃ inner, rop = .scope inner ∧ DupLabelProv rnd inner l)) ∧
    (∀ (ms : List (String × MacroDef)) (L done : List RawOp) s rest, L = done ++ rest.toList →
      StL ms (KDone rnd done) s →
      (∀ l, feedAll rnd f s rest = .error (.duplicateLabel l) →
        DupHere rnd ms L l ∨ ∃ inner, RawOp.scope inner ∈ L ∧ DupLabelProv rnd inner l)) := by
  intro f
  induction f with
  | zero =>
    refine ⟨?_, ?_, ?_⟩
    · intro k ops l h; simp [assemble] at h
    · intro ms done s rop _
      exact ⟨by intro s' h; simp [push] at h, by intro l h; simp [push] at h⟩
    · intro ms L done s rest _ _ l h
      simp [feedAll] at h
  | succ f ih =>
    obtain ⟨ihA, ihP, ihF⟩ := ih
    refine ⟨?_, ?_, ?_⟩
    · intro k ops l h
      simp only [assemble] at h
      cases hdm : declareMacros ops.toList [] with
      | error e2 =>
        rw [hdm] at h
        simp only [Except.error.injEq] at h
        subst h
        obtain ⟨m, hm⟩ := declareMacros_err _ _ _ hdm
        cases hm
      | ok ms =>
        rw [hdm] at h
        simp only [] at h
        have hs0 : StL ms (KDone rnd []) { macros := ms, fresh := k } :=
          ⟨rfl, by intro p hp; cases hp⟩
        have hF := ihF ms ops.toList [] { macros := ms, fresh := k } ops (by simp) hs0
        cases hfa : feedAll rnd f { macros := ms, fresh := k } ops with
        | error e2 =>
          rw [hfa] at h
          simp only [Except.error.injEq] at h
          subst h
          rcases hF l hfa with hp | ⟨inner, hmem, hp⟩
          · exact ⟨ops, ms, SubScope.refl ops, hdm, hp⟩
          · exact hp.nested hmem
        | ok s =>
          rw [hfa] at h
          simp only [] at h
          cases hx : finish s with
          | error e2 =>
            rw [hx] at h
            simp only [Except.map, Except.error.injEq] at h
            subst h
            exact absurd hx (finish_noDup s l)
          | ok b => rw [hx] at h; simp [Except.map] at h
    · intro ms done s rop hs
      have hmono : ∀ x, KDone rnd done x → KDone rnd (done ++ [rop]) x := by
        intro x hx
        rcases hx with hx | hx
        · exact Or.inl hx
        · exact Or.inr (List.mem_append_left _ hx)
      cases rop with
      | op o =>
        by_cases hlab : ∃ x, o = .label x
        · obtain ⟨x, rfl⟩ := hlab
          simp only [push]
          split
          · rename_i hsome
            refine ⟨(by intro s' h; cases h), ?_⟩
            intro l h
            simp only [Except.error.injEq, AsmErr.duplicateLabel.injEq] at h
            subst h
            obtain ⟨p, hp, hpx⟩ := lookupLabel_isSome_mem hsome
            have := hs.labels p hp
            rw [hpx] at this
            rcases this with hm | hm
            · exact Or.inr (Or.inl hm)
            · exact Or.inr (Or.inr (Or.inl ⟨rfl, hm⟩))
          · refine ⟨?_, by intro l h; cases h⟩
            intro s' h
            simp only [Except.ok.injEq] at h
            subst h
            refine ⟨hs.macros, ?_⟩
            intro p hp
            rcases setLabel_mem hp with hp | hp
            · exact hmono _ (hs.labels p hp)
            · rw [hp]; exact Or.inr (by simp)
        · have := (ops_L rnd ms (KDone rnd done) (fun x hx => Or.inl hx) (f + 1)).1 s o hs
            (fun x hx => absurd ⟨x, hx⟩ hlab)
          refine ⟨fun s' h => (this.1 s' h).mono hmono, ?_⟩
          intro l h
          rcases this.2 l h with hm | hm
          · exact Or.inl hm
          · exact Or.inr (Or.inl hm)
      | raw bs =>
        refine ⟨?_, by intro l h; simp [push] at h⟩
        intro s' h
        simp only [push, Except.ok.injEq] at h
        subst h
        exact ⟨hs.macros, fun p hp => hmono _ (hs.labels p hp)⟩
      | scope inner =>
        simp only [push]
        cases hasm : assemble rnd f { fresh := s.fresh } inner with
        | error e2 =>
          refine ⟨(by intro s' h; cases h), ?_⟩
          intro l h
          simp only [Except.error.injEq] at h
          subst h
          exact Or.inr (Or.inr (Or.inr ⟨inner, rfl, ihA _ _ _ hasm⟩))
        | ok r =>
          obtain ⟨b, k⟩ := r
          refine ⟨?_, by intro l h; cases h⟩
          intro s' h
          simp only [Except.ok.injEq] at h
          subst h
          exact ⟨hs.macros, fun p hp => hmono _ (hs.labels p hp)⟩
    · intro ms L done s rest hL hs l h
      cases rest with
      | nil => simp [feedAll] at h
      | cons o rest =>
        simp only [feedAll] at h
        simp only [RawOps.toList] at hL
        have hP := ihP ms done s o hs
        cases hpush : push rnd f s o with
        | error e2 =>
          rw [hpush] at h
          simp only [Except.error.injEq] at h
          subst h
          rcases hP.2 l hpush with hm | hm | ⟨ho, hm⟩ | ⟨inner, hi, hp⟩
          · exact Or.inl (Or.inr (Or.inl hm))
          · exact Or.inl (Or.inr (Or.inr hm))
          · left; left
            rw [hL]
            exact filter_len_two _ done rest.toList _ o hm (by simp [RawOp.isLabel, AOp.isLabel])
              (by rw [ho]; simp [RawOp.isLabel, AOp.isLabel])
          · subst hi
            exact Or.inr ⟨inner, by rw [hL]; simp, hp⟩
        | ok s' =>
          rw [hpush] at h
          simp only [] at h
          exact ihF ms L (done ++ [o]) s' rest (by rw [hL]; simp) (hP.1 s' hpush) l h

/-- C13, `DuplicateLabel l`: the scope that reports it writes `l:` twice at its top level, or one of its instruction
macros does so in its body, or `l` is a mangled (macro-local) name -/
theorem duplicateLabel_use (rnd : Nat → Nat) (fuel k : Nat) (ops : RawOps) (l : String)
    (h : assemble rnd fuel { fresh := k } ops = .error (.duplicateLabel l)) :
    ∃ (sub : RawOps) (ms : List (String × MacroDef)),
      SubScope sub ops ∧ declareMacros sub.toList [] = .ok ms ∧
      (2 ≤ (sub.toList.filter (fun r => match r with | .op o => o.isLabel l | _ => false)).length ∨
       (∃ n ps body, lookupMacro ms n = some (.instr ps body) ∧ 2 ≤ (body.filter (fun o => o.isLabel l)).length) ∨
       IsMangled rnd l) := by
  obtain ⟨sub, ms, hsub, hdm, hh⟩ := (dupLabelProv_steps rnd fuel).1 k ops l h
  refine ⟨sub, ms, hsub, hdm, ?_⟩
  have hfun : (fun r : RawOp => match r with | .op o => o.isLabel l | _ => false) = fun r => r.isLabel l := by
    funext r
    cases r <;> rfl
  rw [hfun]
  exact hh

end Asm
end EtkVerif
