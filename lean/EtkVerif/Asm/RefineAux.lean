/-
Auxiliary lemmas for `Refine`: how the outcome of `eval` may change between two
label tables, the errors `labelsOf` can produce, and what a feed-time failure of
`concretizeOp` / `concretizePush` implies for emission.
-/
import EtkVerif.Asm.Spec
import EtkVerif.Asm.LayoutLemmas
namespace EtkVerif
namespace Asm

/-! ### `eval` across label tables -/

/-- errors that depend on the label table -/
def BenignErr : EvErr → Prop
  | .unknownLabel _ => True
  | .divisionByZero => True
  | _ => False

def Good {α : Type} (r : Except EvErr α) : Prop :=
  match r with
  | .ok _ => True
  | .error e => BenignErr e

def GoodArgs (vs : List (String × Int)) (r : Except EvErr (List (String × Int))) : Prop :=
  match r with
  | .ok vs' => vs.map Prod.fst = vs'.map Prod.fst
  | .error e => BenignErr e

def VarsRel : Option (List (String × Int)) → Option (List (String × Int)) → Prop
  | none, none => True
  | some a, some b => a.map Prod.fst = b.map Prod.fst
  | _, _ => False

theorem lookupVar_isSome (vs : List (String × Int)) (v : String) :
    (lookupVar vs v).isSome = (vs.map Prod.fst).contains v := by
  unfold lookupVar
  rw [Option.isSome_map, Bool.eq_iff_iff, List.find?_isSome]
  simp only [List.mem_reverse, beq_iff_eq, List.contains_iff_mem, List.mem_map]

theorem lookupVar_rel {a b : List (String × Int)} (h : a.map Prod.fst = b.map Prod.fst) (v : String) :
    (lookupVar a v).isSome = (lookupVar b v).isSome := by
  rw [lookupVar_isSome, lookupVar_isSome, h]

theorem eval_benign_aux (ms : List (String × MacroDef)) (ls1 ls2 : List (String × Option Nat)) :
    ∀ f,
      (∀ e vars1 vars2 d v, VarsRel vars1 vars2 → eval f ⟨ls1, ms, vars1, d⟩ e = .ok v →
        Good (eval f ⟨ls2, ms, vars2, d⟩ e)) ∧
      (∀ args ps vars1 vars2 d vs, VarsRel vars1 vars2 → evalArgs f ⟨ls1, ms, vars1, d⟩ ps args = .ok vs →
        GoodArgs vs (evalArgs f ⟨ls2, ms, vars2, d⟩ ps args)) := by
  intro f
  induction f with
  | zero =>
    constructor
    · intro e vars1 vars2 d v _ h; simp [eval] at h
    · intro args ps vars1 vars2 d vs _ h; simp [evalArgs] at h
  | succ f ih =>
    constructor
    · intro e vars1 vars2 d v hv h
      cases e with
      | paren e =>
        simp only [eval] at h ⊢
        exact ih.1 e vars1 vars2 d v hv h
      | num n => simp only [eval, Good]
      | label l =>
        simp only [eval]
        split <;> simp only [Good, BenignErr]
      | var x =>
        simp only [eval] at h ⊢
        cases vars1 with
        | none => simp at h
        | some vs1 =>
          cases vars2 with
          | none => simp [VarsRel] at hv
          | some vs2 =>
            simp only [VarsRel] at hv
            simp only [] at h ⊢
            have hs := lookupVar_rel hv x
            cases h1 : lookupVar vs1 x with
            | none => rw [h1] at h; simp at h
            | some y =>
              rw [h1] at hs
              cases h2 : lookupVar vs2 x with
              | none => rw [h2] at hs; simp at hs
              | some z => simp only [Good]
      | plus a b | minus a b | times a b =>
        simp only [eval] at h ⊢
        cases ha : eval f ⟨ls1, ms, vars1, d⟩ a with
        | error err => rw [ha] at h; simp at h
        | ok x =>
          rw [ha] at h; simp only [] at h
          cases hb : eval f ⟨ls1, ms, vars1, d⟩ b with
          | error err => rw [hb] at h; simp at h
          | ok y =>
            have ga := ih.1 a vars1 vars2 d x hv ha
            have gb := ih.1 b vars1 vars2 d y hv hb
            cases ha2 : eval f ⟨ls2, ms, vars2, d⟩ a with
            | error err => rw [ha2] at ga; exact ga
            | ok x2 =>
              simp only []
              cases hb2 : eval f ⟨ls2, ms, vars2, d⟩ b with
              | error err => rw [hb2] at gb; exact gb
              | ok y2 => simp only [Good]
      | divide a b =>
        simp only [eval] at h ⊢
        cases ha : eval f ⟨ls1, ms, vars1, d⟩ a with
        | error err => rw [ha] at h; simp at h
        | ok x =>
          rw [ha] at h; simp only [] at h
          cases hb : eval f ⟨ls1, ms, vars1, d⟩ b with
          | error err => rw [hb] at h; simp at h
          | ok y =>
            have ga := ih.1 a vars1 vars2 d x hv ha
            have gb := ih.1 b vars1 vars2 d y hv hb
            cases ha2 : eval f ⟨ls2, ms, vars2, d⟩ a with
            | error err => rw [ha2] at ga; exact ga
            | ok x2 =>
              simp only []
              cases hb2 : eval f ⟨ls2, ms, vars2, d⟩ b with
              | error err => rw [hb2] at gb; exact gb
              | ok y2 =>
                simp only []
                split <;> simp only [Good, BenignErr]
      | «macro» name args =>
        simp only [eval] at h ⊢
        cases hlk : lookupMacro ms name with
        | none => rw [hlk] at h; simp at h
        | some md =>
          cases md with
          | instr ps body => rw [hlk] at h; simp at h
          | expr params body =>
            rw [hlk] at h
            simp only [] at h ⊢
            cases hargs : evalArgs f ⟨ls1, ms, vars1, d⟩ params args with
            | error err => rw [hargs] at h; simp at h
            | ok vs1 =>
              rw [hargs] at h
              simp only [] at h
              have gargs := ih.2 args params vars1 vars2 d vs1 hv hargs
              cases hargs2 : evalArgs f ⟨ls2, ms, vars2, d⟩ params args with
              | error err => rw [hargs2] at gargs; exact gargs
              | ok vs2 =>
                rw [hargs2] at gargs
                simp only [GoodArgs] at gargs
                simp only []
                by_cases hdep : d ≥ maxMacroDepth
                · rw [if_pos hdep] at h; simp at h
                · rw [if_neg hdep] at h ⊢
                  exact ih.1 body (some vs1) (some vs2) (d + 1) v gargs h
    · intro args ps vars1 vars2 d vs hv h
      cases ps with
      | nil => simp only [evalArgs, GoodArgs] at h ⊢; injection h with h; subst h; rfl
      | cons p ps =>
        cases args with
        | nil => simp [evalArgs] at h
        | cons a as =>
          simp only [evalArgs] at h ⊢
          cases ha : eval f ⟨ls1, ms, vars1, d⟩ a with
          | error err => rw [ha] at h; simp at h
          | ok x =>
            rw [ha] at h; simp only [] at h
            cases hb : evalArgs f ⟨ls1, ms, vars1, d⟩ ps as with
            | error err => rw [hb] at h; simp at h
            | ok rest =>
              rw [hb] at h
              simp only [Except.ok.injEq] at h
              subst h
              have ga := ih.1 a vars1 vars2 d x hv ha
              have gb := ih.2 as ps vars1 vars2 d rest hv hb
              cases ha2 : eval f ⟨ls2, ms, vars2, d⟩ a with
              | error err => rw [ha2] at ga; exact ga
              | ok x2 =>
                simp only []
                cases hb2 : evalArgs f ⟨ls2, ms, vars2, d⟩ ps as with
                | error err => rw [hb2] at gb; exact gb
                | ok rest2 =>
                  rw [hb2] at gb
                  simp only [GoodArgs] at gb ⊢
                  simp only [List.map_cons, gb]

/-- If an operand evaluates under one label table, then under any other table it
evaluates too or fails with an error that depends on the table. -/
theorem eval_benign (ms : List (String × MacroDef)) (ls1 ls2 : List (String × Option Nat)) (f : Nat)
    (e : Expr) (v : Int) (h : eval f ⟨ls1, ms, none, 0⟩ e = .ok v) :
    Good (eval f ⟨ls2, ms, none, 0⟩ e) :=
  (eval_benign_aux ms ls1 ls2 f).1 e none none 0 v trivial h

/-! ### errors of `labelsOf` -/

def LabelsErr : EvErr → Prop
  | .unknownMacro _ => True
  | .recursionLimit _ => True
  | _ => False

theorem labelsOf_err_aux (ms : List (String × MacroDef)) :
    ∀ f,
      (∀ d e err, labelsOf ms f d e = .error err → LabelsErr err) ∧
      (∀ d args err, labelsOfArgs ms f d args = .error err → LabelsErr err) := by
  intro f
  induction f with
  | zero =>
    constructor
    · intro d e err h; simp only [labelsOf, Except.error.injEq] at h; subst h; trivial
    · intro d args err h; simp only [labelsOfArgs, Except.error.injEq] at h; subst h; trivial
  | succ f ih =>
    constructor
    · intro d e err h
      cases e with
      | paren e => simp only [labelsOf] at h; exact ih.1 d e err h
      | num n => simp [labelsOf] at h
      | label l => simp [labelsOf] at h
      | var x => simp [labelsOf] at h
      | plus a b | minus a b | times a b | divide a b =>
        simp only [labelsOf] at h
        cases ha : labelsOf ms f d a with
        | error e1 => rw [ha] at h; simp only [Except.error.injEq] at h; subst h; exact ih.1 d a _ ha
        | ok x =>
          rw [ha] at h; simp only [] at h
          cases hb : labelsOf ms f d b with
          | error e1 => rw [hb] at h; simp only [Except.error.injEq] at h; subst h; exact ih.1 d b _ hb
          | ok y => rw [hb] at h; simp at h
      | «macro» name args =>
        simp only [labelsOf] at h
        cases hlk : lookupMacro ms name with
        | none => rw [hlk] at h; simp only [Except.error.injEq] at h; subst h; trivial
        | some md =>
          cases md with
          | instr ps body => rw [hlk] at h; simp only [Except.error.injEq] at h; subst h; trivial
          | expr params body =>
            rw [hlk] at h
            simp only [] at h
            by_cases hdep : d ≥ maxMacroDepth
            · rw [if_pos hdep] at h; simp only [Except.error.injEq] at h; subst h; trivial
            · rw [if_neg hdep] at h
              cases ha : labelsOf ms f (d + 1) body with
              | error e1 => rw [ha] at h; simp only [Except.error.injEq] at h; subst h; exact ih.1 _ body _ ha
              | ok x =>
                rw [ha] at h; simp only [] at h
                cases hb : labelsOfArgs ms f d args with
                | error e1 => rw [hb] at h; simp only [Except.error.injEq] at h; subst h; exact ih.2 d args _ hb
                | ok y => rw [hb] at h; simp at h
    · intro d args err h
      cases args with
      | nil => simp [labelsOfArgs] at h
      | cons a as =>
        simp only [labelsOfArgs] at h
        cases ha : labelsOf ms f d a with
        | error e1 => rw [ha] at h; simp only [Except.error.injEq] at h; subst h; exact ih.1 d a _ ha
        | ok x =>
          rw [ha] at h; simp only [] at h
          cases hb : labelsOfArgs ms f d as with
          | error e1 => rw [hb] at h; simp only [Except.error.injEq] at h; subst h; exact ih.2 d as _ hb
          | ok y => rw [hb] at h; simp at h

theorem labelsOf_err (ms : List (String × MacroDef)) (f d : Nat) (e : Expr) (err : EvErr)
    (h : labelsOf ms f d e = .error err) : LabelsErr err :=
  (labelsOf_err_aux ms f).1 d e err h

/-! ### feed-time failures are emission-time failures -/

/-- feed-time outcomes of the operand after which `pushInstr` reports an error
(`closed`: the operand mentions no label) -/
def FeedBad (closed : Prop) : Conc → Prop
  | .ok _ => False
  | .tooLarge => closed
  | .negative => closed
  | .ctx .divisionByZero => closed
  | .ctx (.unknownLabel _) => False
  | .ctx _ => True

theorem immLen_push_le (w : Nat) : immLen (0x5f + w) ≤ 32 := by
  unfold immLen
  split <;> omega

theorem eval_closed (ms : List (String × MacroDef)) (e : Expr) (hcl : labelsOf ms evalFuel 0 e = .ok [])
    (ls ls' : List (String × Option Nat)) :
    eval evalFuel ⟨ls', ms, none, 0⟩ e = eval evalFuel ⟨ls, ms, none, 0⟩ e :=
  eval_labels_irrelevant ms evalFuel 0 e hcl ⟨ls, ms, none, 0⟩ rfl ls' evalFuel

theorem concretizeOp_feedBad (ms : List (String × MacroDef)) (ls ls' : List (String × Option Nat))
    (code : Nat) (e : Expr)
    (hbad : FeedBad (labelsOf ms evalFuel 0 e = .ok []) (concretizeOp ⟨ls, ms, none, 0⟩ code (some e)))
    (bs : List Nat) : concretizeOp ⟨ls', ms, none, 0⟩ code (some e) ≠ .ok bs := by
  intro hok
  obtain ⟨v, hv, h0, hlen, _⟩ := concretizeOp_some_ok hok
  have hg := eval_benign ms ls' ls evalFuel e v hv
  unfold concretizeOp at hbad
  simp only [] at hbad
  cases hev : eval evalFuel ⟨ls, ms, none, 0⟩ e with
  | error err =>
    rw [hev] at hbad hg
    simp only [Good] at hg
    cases err with
    | unknownLabel l => exact hbad
    | divisionByZero =>
      simp only [FeedBad] at hbad
      rw [eval_closed ms e hbad ls ls', hev] at hv
      simp at hv
    | unknownMacro n => exact hg
    | undefinedVariable n => exact hg
    | recursionLimit n => exact hg
  | ok v0 =>
    rw [hev] at hbad
    simp only [] at hbad
    by_cases hneg : v0 < 0
    · rw [if_pos hneg] at hbad
      simp only [FeedBad] at hbad
      rw [eval_closed ms e hbad ls ls', hev] at hv
      injection hv with hv
      omega
    · rw [if_neg hneg] at hbad
      by_cases hl : (bytesBE v0.toNat).length > immLen code
      · rw [if_pos hl] at hbad
        simp only [FeedBad] at hbad
        rw [eval_closed ms e hbad ls ls', hev] at hv
        injection hv with hv
        subst hv
        omega
      · rw [if_neg hl] at hbad
        exact hbad

theorem concretizePush_feedBad (ms : List (String × MacroDef)) (ls ls' : List (String × Option Nat))
    (e : Expr)
    (hbad : FeedBad (labelsOf ms evalFuel 0 e = .ok []) (concretizePush ⟨ls, ms, none, 0⟩ e))
    (w : Nat) (bs : List Nat) : concretizeOp ⟨ls', ms, none, 0⟩ (0x5f + w) (some e) ≠ .ok bs := by
  intro hok
  obtain ⟨v, hv, h0, hlen, _⟩ := concretizeOp_some_ok hok
  have hg := eval_benign ms ls' ls evalFuel e v hv
  have h32 := immLen_push_le w
  unfold concretizePush at hbad
  cases hev : eval evalFuel ⟨ls, ms, none, 0⟩ e with
  | error err =>
    rw [hev] at hbad hg
    simp only [Good] at hg
    cases err with
    | unknownLabel l => exact hbad
    | divisionByZero =>
      simp only [FeedBad] at hbad
      rw [eval_closed ms e hbad ls ls', hev] at hv
      simp at hv
    | unknownMacro n => exact hg
    | undefinedVariable n => exact hg
    | recursionLimit n => exact hg
  | ok v0 =>
    rw [hev] at hbad
    simp only [] at hbad
    by_cases hneg : v0 < 0
    · rw [if_pos hneg] at hbad
      simp only [FeedBad] at hbad
      rw [eval_closed ms e hbad ls ls', hev] at hv
      injection hv with hv
      omega
    · rw [if_neg hneg] at hbad
      by_cases hl : (bytesBE v0.toNat).length > 32
      · rw [if_pos hl] at hbad
        simp only [FeedBad] at hbad
        rw [eval_closed ms e hbad ls ls', hev] at hv
        injection hv with hv
        subst hv
        omega
      · rw [if_neg hl] at hbad
        exact hbad

end Asm
end EtkVerif
