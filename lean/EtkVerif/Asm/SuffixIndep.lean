/-
The random suffixes drawn for the local labels of macro expansions do not
influence the assembled bytes, as long as they are fresh: two runs with
different suffix sources give the same output.
-/
import EtkVerif.Asm.Refine
import EtkVerif.Asm.SuffixExpand
namespace EtkVerif
namespace Asm

/-! every label name the source text mentions anywhere (definitions and uses, inside macro bodies, arguments and nested scopes) -/
mutual
def exprNames : Expr → List String
  | .label l => [l]
  | .paren e => exprNames e
  | .macro _ args => exprsNames args
  | .plus a b | .minus a b | .times a b | .divide a b => exprNames a ++ exprNames b
  | .num _ => []
  | .var _ => []
def exprsNames : Exprs → List String
  | .nil => []
  | .cons a as => exprNames a ++ exprsNames as
end

mutual
def aopNames : AOp → List String
  | .op _ (some e) => exprNames e
  | .op _ none => []
  | .label l => [l]
  | .push e => exprNames e
  | .instrDef _ _ body => aopsNames body
  | .exprDef _ _ body => exprNames body
  | .macro _ args => args.flatMap exprNames
def aopsNames : AOps → List String
  | .nil => []
  | .cons o os => aopNames o ++ aopsNames os
end

mutual
def rawNames : RawOp → List String
  | .op o => aopNames o
  | .scope ops => rawsNames ops
  | .raw _ => []
def rawsNames : RawOps → List String
  | .nil => []
  | .cons o os => rawNames o ++ rawsNames os
end

/-- the suffix source never produces the same generated name for two different draws, and never a name the source text uses -/
def Fresh (rnd : Nat → Nat) (ops : RawOps) : Prop :=
  (∀ j j' m l m' l', mangle rnd j m l = mangle rnd j' m' l' → j = j') ∧
  (∀ j m l, mangle rnd j m l ∉ rawsNames ops)

/-! ### the renaming relating the two runs

`SufRel rnd rnd' N a b`: either `a = b` is a name of the source text (`N`), or `a` and `b` are the names
generated for the same draw with the two suffix sources. -/

namespace Suffix

def SufRel (rnd rnd' : Nat → Nat) (N : List String) (a b : String) : Prop :=
  (a = b ∧ a ∈ N) ∨ (∃ j m l, a = mangle rnd j m l ∧ b = mangle rnd' j m l)

theorem mangle_eq (rnd : Nat → Nat) (k : Nat) (m l : String) :
    mangle rnd k m l = m ++ "_" ++ l ++ "_" ++ toString (rnd k) := by
  unfold mangle
  simp only [toString]

/-- two spellings of one generated name stay one name under another suffix source -/
theorem mangle_cancel (rnd rnd' : Nat → Nat) (j : Nat) (m l m' l' : String)
    (h : mangle rnd j m l = mangle rnd j m' l') : mangle rnd' j m l = mangle rnd' j m' l' := by
  rw [mangle_eq, mangle_eq] at h ⊢
  rw [(String.append_left_inj _).1 h]

theorem sufRel_pbij {rnd rnd' : Nat → Nat} {ops : RawOps} (hf : Fresh rnd ops) (hf' : Fresh rnd' ops) :
    PBij (SufRel rnd rnd' (rawsNames ops)) := by
  constructor
  · intro a b b' h1 h2
    rcases h1 with ⟨rfl, ha⟩ | ⟨j, m, l, rfl, rfl⟩
    · rcases h2 with ⟨rfl, _⟩ | ⟨j, m, l, rfl, rfl⟩
      · rfl
      · exact absurd ha (hf.2 _ _ _)
    · rcases h2 with ⟨rfl, ha⟩ | ⟨j', m', l', he, rfl⟩
      · exact absurd ha (hf.2 _ _ _)
      · have := hf.1 _ _ _ _ _ _ he
        subst this
        exact mangle_cancel rnd rnd' _ _ _ _ _ he
  · intro a a' b h1 h2
    rcases h1 with ⟨rfl, ha⟩ | ⟨j, m, l, rfl, rfl⟩
    · rcases h2 with ⟨rfl, _⟩ | ⟨j, m, l, rfl, rfl⟩
      · rfl
      · exact absurd ha (hf'.2 _ _ _)
    · rcases h2 with ⟨rfl, ha⟩ | ⟨j', m', l', rfl, he⟩
      · exact absurd ha (hf'.2 _ _ _)
      · have := hf'.1 _ _ _ _ _ _ he
        subst this
        exact mangle_cancel rnd' rnd _ _ _ _ _ he

/-! names fixed by `R` give reflexively related syntax -/

variable {R : String → String → Prop}

mutual
theorem exprRel_refl : ∀ (e : Expr), (∀ x ∈ exprNames e, R x x) → ExprRel R e e
  | .label l, h => .label (h l (by simp [exprNames]))
  | .paren e, h => .paren (exprRel_refl e (by simpa [exprNames] using h))
  | .macro _ args, h => .macro (exprsRel_refl args (by simpa [exprNames] using h))
  | .plus a b, h => .plus (exprRel_refl a (fun x hx => h x (by simp [exprNames, hx])))
      (exprRel_refl b (fun x hx => h x (by simp [exprNames, hx])))
  | .minus a b, h => .minus (exprRel_refl a (fun x hx => h x (by simp [exprNames, hx])))
      (exprRel_refl b (fun x hx => h x (by simp [exprNames, hx])))
  | .times a b, h => .times (exprRel_refl a (fun x hx => h x (by simp [exprNames, hx])))
      (exprRel_refl b (fun x hx => h x (by simp [exprNames, hx])))
  | .divide a b, h => .divide (exprRel_refl a (fun x hx => h x (by simp [exprNames, hx])))
      (exprRel_refl b (fun x hx => h x (by simp [exprNames, hx])))
  | .num _, _ => .num
  | .var _, _ => .var
theorem exprsRel_refl : ∀ (as : Exprs), (∀ x ∈ exprsNames as, R x x) → ExprsRel R as as
  | .nil, _ => .nil
  | .cons a as, h => .cons (exprRel_refl a (fun x hx => h x (by simp [exprsNames, hx])))
      (exprsRel_refl as (fun x hx => h x (by simp [exprsNames, hx])))
end

theorem aopRel_refl (o : AOp) (h : ∀ x ∈ aopNames o, R x x) : AOpRel R o o := by
  cases o with
  | instrDef n ps b => exact .instrDef
  | exprDef n ps b => exact .exprDef
  | label l => exact .label (h l (by simp [aopNames]))
  | push e => exact .push (exprRel_refl e (by simpa [aopNames] using h))
  | op c imm =>
    cases imm with
    | none => exact .op .none
    | some e => exact .op (.some (exprRel_refl e (by simpa [aopNames] using h)))
  | «macro» n args =>
    refine .macro (All₂.refl ?_)
    intro e he
    refine exprRel_refl e (fun x hx => h x ?_)
    simp only [aopNames, List.mem_flatMap]
    exact ⟨e, he, hx⟩

theorem aops_mem_names : ∀ (body : AOps) (o : AOp), o ∈ body.toList → ∀ x ∈ aopNames o, x ∈ aopsNames body
  | .nil, o, ho, _, _ => by simp [AOps.toList] at ho
  | .cons a as, o, ho, x, hx => by
    simp only [AOps.toList, List.mem_cons] at ho
    simp only [aopsNames, List.mem_append]
    rcases ho with rfl | ho
    · exact .inl hx
    · exact .inr (aops_mem_names as o ho x hx)

theorem aopSrc_of_names (o : AOp) (h : ∀ x ∈ aopNames o, R x x) : AOpSrc R o := by
  cases o with
  | instrDef n ps b =>
    simp only [AOpSrc]
    intro o ho
    exact aopRel_refl o (fun x hx => h x (by simp only [aopNames]; exact aops_mem_names b o ho x hx))
  | exprDef n ps b =>
    simp only [AOpSrc]
    exact exprRel_refl b (by simpa [aopNames] using h)
  | label l => exact aopRel_refl _ h
  | push e => exact aopRel_refl _ h
  | op c imm => exact aopRel_refl _ h
  | «macro» n args => exact aopRel_refl _ h

mutual
theorem rawSrc_of_names : ∀ (o : RawOp), (∀ x ∈ rawNames o, R x x) → RawSrc R o
  | .op o, h => by simp only [RawSrc]; exact aopSrc_of_names o (by simpa [rawNames] using h)
  | .scope ops, h => by simp only [RawSrc]; exact rawsSrc_of_names ops (by simpa [rawNames] using h)
  | .raw _, _ => by simp only [RawSrc]
theorem rawsSrc_of_names : ∀ (ops : RawOps), (∀ x ∈ rawsNames ops, R x x) → RawsSrc R ops
  | .nil, _ => by simp only [RawsSrc]
  | .cons o os, h => by
    simp only [RawsSrc]
    exact ⟨rawSrc_of_names o (fun x hx => h x (by simp [rawsNames, hx])),
      rawsSrc_of_names os (fun x hx => h x (by simp [rawsNames, hx]))⟩
end

end Suffix

theorem suffix_independent (rnd rnd' : Nat → Nat) (fuel k : Nat) (ops : RawOps) (bytes : List Nat) (k' : Nat)
    (h : assemble rnd fuel { fresh := k } ops = .ok (bytes, k')) (hf : Fresh rnd ops) (hf' : Fresh rnd' ops) :
    assemble rnd' fuel { fresh := k } ops = .ok (bytes, k') := by
  apply assemble_refines_bwd
  have hs := assemble_refines_fwd _ _ _ _ _ h
  refine Suffix.assembleScope_rel (R := Suffix.SufRel rnd rnd' (rawsNames ops)) (Suffix.sufRel_pbij hf hf') ?_ fuel k ops _ ?_ hs
  · intro j m l; exact .inr ⟨j, m, l, rfl, rfl⟩
  · exact Suffix.rawsSrc_of_names ops (fun x hx => .inl ⟨rfl, hx⟩)

/-! ### `Fresh` is satisfiable: ordinary suffix sources are fresh -/

namespace Suffix

/-- the text after the last underscore is determined by the whole string -/
theorem last_segment_eq : ∀ (xs xs' ds ds' : List Char), '_' ∉ ds → '_' ∉ ds' →
    xs ++ '_' :: ds = xs' ++ '_' :: ds' → ds = ds'
  | [], [], _, _, _, _, h => by simpa using h
  | [], c :: xs', ds, ds', hd, _, h => by
    simp only [List.nil_append, List.cons_append, List.cons.injEq] at h
    exact absurd (by rw [h.2]; simp) hd
  | c :: xs, [], ds, ds', _, hd', h => by
    simp only [List.nil_append, List.cons_append, List.cons.injEq] at h
    exact absurd (by rw [← h.2]; simp) hd'
  | c :: xs, c' :: xs', ds, ds', hd, hd', h => by
    simp only [List.cons_append, List.cons.injEq] at h
    exact last_segment_eq xs xs' ds ds' hd hd' h.2

theorem mangle_toList (rnd : Nat → Nat) (k : Nat) (m l : String) :
    (mangle rnd k m l).toList = (m.toList ++ '_' :: l.toList) ++ '_' :: Nat.toDigits 10 (rnd k) := by
  rw [mangle_eq]
  simp only [String.toList_append, Nat.toString_eq_repr, Nat.toList_repr]
  have : "_".toList = ['_'] := rfl
  rw [this]
  simp

theorem toDigits_ten_inj {a b : Nat} (h : Nat.toDigits 10 a = Nat.toDigits 10 b) : a = b := by
  have ha := @Nat.ofDigitChars_ten_toDigits a
  rw [h, Nat.ofDigitChars_ten_toDigits] at ha
  exact ha.symm

end Suffix

/-- any injective suffix source is fresh for a program none of whose label names contains an underscore -/
theorem fresh_of_injective (rnd : Nat → Nat) (hinj : ∀ a b, rnd a = rnd b → a = b) (ops : RawOps)
    (hnames : ∀ n ∈ rawsNames ops, '_' ∉ n.toList) : Fresh rnd ops := by
  constructor
  · intro j j' m l m' l' h
    have h' := congrArg String.toList h
    rw [Suffix.mangle_toList, Suffix.mangle_toList] at h'
    exact hinj _ _ (Suffix.toDigits_ten_inj
      (Suffix.last_segment_eq _ _ _ _ Nat.underscore_not_in_toDigits Nat.underscore_not_in_toDigits h'))
  · intro j m l hmem
    apply hnames _ hmem
    rw [Suffix.mangle_toList]
    simp

/-- a concrete instance: the identity source is fresh for a program with a macro that has a local label -/
example : Fresh (fun k => k) (RawOps.ofList [
    .op (.instrDef "m" ["x"] (AOps.ofList [.label "a", .op 0x5b none, .op 0x61 (some (.plus (.label "a") (.var "x")))])),
    .op (.label "b"), .op (.op 0x5b none), .op (.macro "m" [.label "b"]), .op (.macro "m" [.num 1])]) :=
  fresh_of_injective _ (fun _ _ h => h) _ (by
    simp only [RawOps.ofList, AOps.ofList, rawsNames, rawNames, aopNames, aopsNames, exprNames, List.flatMap_cons,
      List.flatMap_nil, List.append_nil, List.nil_append, List.cons_append, List.mem_cons, List.not_mem_nil, or_false]
    intro n hn
    rcases hn with rfl | rfl | rfl | rfl <;> decide)

end Asm
end EtkVerif
