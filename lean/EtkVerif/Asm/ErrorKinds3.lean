/-
C13, one more error kind: `UndeclaredVariableMacro v` names a variable the program text really refers to.  When the
assembler model reports it, in the scope that reports it (the program itself or one of its nested `%include` scopes)
either `$v` occurs literally — in an operand, in an argument of an invocation, or inside the body of one of the scope's
instruction or expression macro definitions — or `v` is a PARAMETER of one of the scope's expression macro definitions
(an invocation with fewer arguments than parameters names the first parameter left without argument, whether or not
the body reads it: `fix:` 841db2a, D28).
-/
import EtkVerif.Asm.ErrorKinds2
namespace EtkVerif
namespace Asm

mutual
/-- `$v` occurs in the expression (arguments of calls included) -/
def Expr.mentionsVar (v : String) : Expr → Bool
  | .num _ => false
  | .label _ => false
  | .var x => x == v
  | .plus a b => a.mentionsVar v || b.mentionsVar v
  | .minus a b => a.mentionsVar v || b.mentionsVar v
  | .times a b => a.mentionsVar v || b.mentionsVar v
  | .divide a b => a.mentionsVar v || b.mentionsVar v
  | .paren e => e.mentionsVar v
  | .macro _ args => args.mentionsVar v
def Exprs.mentionsVar (v : String) : Exprs → Bool
  | .nil => false
  | .cons h t => h.mentionsVar v || t.mentionsVar v
end

mutual
/-- `$v` occurs in the statement: operand, invocation arguments, or the body of a definition -/
def AOp.mentionsVar (v : String) : AOp → Bool
  | .op _ imm => match imm with | some e => e.mentionsVar v | none => false
  | .label _ => false
  | .push e => e.mentionsVar v
  | .instrDef _ _ body => body.mentionsVar v
  | .exprDef _ _ body => body.mentionsVar v
  | .macro _ args => args.any (fun e => e.mentionsVar v)
def AOps.mentionsVar (v : String) : AOps → Bool
  | .nil => false
  | .cons h t => h.mentionsVar v || t.mentionsVar v
end

/-- `v` is a parameter of the expression macro the statement defines.  Only top-level definition statements of a scope
enter its macro table (`declareMacros`; a definition inside an instruction macro's body is ignored when the body is
fed), so this does not look into `.instrDef` bodies. -/
def AOp.declaresParam (v : String) : AOp → Bool
  | .exprDef _ params _ => params.contains v
  | _ => false

/-! ### variables of expressions: what substitution and label renaming do to them -/

/-- every variable the expression mentions satisfies `P` -/
def ExprIn (P : String → Prop) (e : Expr) : Prop := ∀ v, e.mentionsVar v = true → P v
def ExprsIn (P : String → Prop) (es : Exprs) : Prop := ∀ v, es.mentionsVar v = true → P v
/-- every variable the statement mentions satisfies `P` -/
def AOpIn (P : String → Prop) (o : AOp) : Prop := ∀ v, o.mentionsVar v = true → P v

mutual
theorem replaceLabel_mentionsVar (old new v : String) :
    ∀ e, (replaceLabel old new e).mentionsVar v = e.mentionsVar v
  | .paren e => by simp only [replaceLabel, Expr.mentionsVar]; exact replaceLabel_mentionsVar old new v e
  | .macro n args => by
    simp only [replaceLabel, Expr.mentionsVar]; exact replaceLabelArgs_mentionsVar old new v args
  | .num n => by simp only [replaceLabel]
  | .var x => by simp only [replaceLabel]
  | .label l => by simp only [replaceLabel]; split <;> simp only [Expr.mentionsVar]
  | .plus a b => by
    simp only [replaceLabel, Expr.mentionsVar, replaceLabel_mentionsVar old new v a, replaceLabel_mentionsVar old new v b]
  | .minus a b => by
    simp only [replaceLabel, Expr.mentionsVar, replaceLabel_mentionsVar old new v a, replaceLabel_mentionsVar old new v b]
  | .times a b => by
    simp only [replaceLabel, Expr.mentionsVar, replaceLabel_mentionsVar old new v a, replaceLabel_mentionsVar old new v b]
  | .divide a b => by
    simp only [replaceLabel, Expr.mentionsVar, replaceLabel_mentionsVar old new v a, replaceLabel_mentionsVar old new v b]
theorem replaceLabelArgs_mentionsVar (old new v : String) :
    ∀ es, (replaceLabelArgs old new es).mentionsVar v = es.mentionsVar v
  | .nil => by simp only [replaceLabelArgs]
  | .cons a as => by
    simp only [replaceLabelArgs, Exprs.mentionsVar, replaceLabel_mentionsVar old new v a,
      replaceLabelArgs_mentionsVar old new v as]
end

theorem renames_mentionsVar (v : String) : ∀ (renames : List (String × String)) (e : Expr),
    (renames.foldl (fun e (p : String × String) => replaceLabel p.1 p.2 e) e).mentionsVar v = e.mentionsVar v := by
  intro renames
  induction renames with
  | nil => intro e; rfl
  | cons p rest ih =>
    intro e
    simp only [List.foldl_cons]
    rw [ih, replaceLabel_mentionsVar]

theorem lookupBinding_mem {bs : List (String × Expr)} {x : String} {a : Expr} (h : lookupBinding bs x = some a) :
    ∃ p ∈ bs, p.2 = a := by
  unfold lookupBinding at h
  cases hf : bs.reverse.find? (·.1 == x) with
  | none => rw [hf] at h; simp at h
  | some p =>
    rw [hf] at h
    simp only [Option.map_some, Option.some.injEq] at h
    exact ⟨p, List.mem_reverse.1 (List.mem_of_find?_eq_some hf), h⟩

mutual
/-- `fill_variables`: the variables of the result come from the expression or from the bound arguments -/
theorem fillVars_in {P : String → Prop} {bs : List (String × Expr)} (hb : ∀ p ∈ bs, ExprIn P p.2) :
    ∀ e, ExprIn P e → ExprIn P (fillVars bs e)
  | .paren e, h => by
    intro v hv; simp only [fillVars, Expr.mentionsVar] at hv
    exact fillVars_in hb e (fun v hv => h v (by simp only [Expr.mentionsVar]; exact hv)) v hv
  | .macro n args, h => by
    intro v hv; simp only [fillVars, Expr.mentionsVar] at hv
    exact fillVarsArgs_in hb args (fun v hv => h v (by simp only [Expr.mentionsVar]; exact hv)) v hv
  | .num n, h => by simp only [fillVars]; exact h
  | .label l, h => by simp only [fillVars]; exact h
  | .var x, h => by
    simp only [fillVars]
    cases hl : lookupBinding bs x with
    | none => exact h
    | some a =>
      obtain ⟨p, hp, rfl⟩ := lookupBinding_mem hl
      exact hb p hp
  | .plus a b, h => by
    intro v hv; simp only [fillVars, Expr.mentionsVar, Bool.or_eq_true] at hv
    rcases hv with hv | hv
    · exact fillVars_in hb a (fun v hv => h v (by simp only [Expr.mentionsVar, Bool.or_eq_true]; exact Or.inl hv)) v hv
    · exact fillVars_in hb b (fun v hv => h v (by simp only [Expr.mentionsVar, Bool.or_eq_true]; exact Or.inr hv)) v hv
  | .minus a b, h => by
    intro v hv; simp only [fillVars, Expr.mentionsVar, Bool.or_eq_true] at hv
    rcases hv with hv | hv
    · exact fillVars_in hb a (fun v hv => h v (by simp only [Expr.mentionsVar, Bool.or_eq_true]; exact Or.inl hv)) v hv
    · exact fillVars_in hb b (fun v hv => h v (by simp only [Expr.mentionsVar, Bool.or_eq_true]; exact Or.inr hv)) v hv
  | .times a b, h => by
    intro v hv; simp only [fillVars, Expr.mentionsVar, Bool.or_eq_true] at hv
    rcases hv with hv | hv
    · exact fillVars_in hb a (fun v hv => h v (by simp only [Expr.mentionsVar, Bool.or_eq_true]; exact Or.inl hv)) v hv
    · exact fillVars_in hb b (fun v hv => h v (by simp only [Expr.mentionsVar, Bool.or_eq_true]; exact Or.inr hv)) v hv
  | .divide a b, h => by
    intro v hv; simp only [fillVars, Expr.mentionsVar, Bool.or_eq_true] at hv
    rcases hv with hv | hv
    · exact fillVars_in hb a (fun v hv => h v (by simp only [Expr.mentionsVar, Bool.or_eq_true]; exact Or.inl hv)) v hv
    · exact fillVars_in hb b (fun v hv => h v (by simp only [Expr.mentionsVar, Bool.or_eq_true]; exact Or.inr hv)) v hv
theorem fillVarsArgs_in {P : String → Prop} {bs : List (String × Expr)} (hb : ∀ p ∈ bs, ExprIn P p.2) :
    ∀ es, ExprsIn P es → ExprsIn P (fillVarsArgs bs es)
  | .nil, h => by simp only [fillVarsArgs]; exact h
  | .cons a as, h => by
    intro v hv; simp only [fillVarsArgs, Exprs.mentionsVar, Bool.or_eq_true] at hv
    rcases hv with hv | hv
    · exact fillVars_in hb a (fun v hv => h v (by simp only [Exprs.mentionsVar, Bool.or_eq_true]; exact Or.inl hv)) v hv
    · exact fillVarsArgs_in hb as (fun v hv => h v (by simp only [Exprs.mentionsVar, Bool.or_eq_true]; exact Or.inr hv)) v hv
end

/-! ### evaluator level -/

/-- some expression macro of the table mentions `$v` in its body -/
def TableMentions (ms : List (String × MacroDef)) (v : String) : Prop :=
  ∃ n ps b, lookupMacro ms n = some (.expr ps b) ∧ b.mentionsVar v = true

/-- some expression macro of the table has the parameter `v` -/
def TableParam (ms : List (String × MacroDef)) (v : String) : Prop :=
  ∃ n ps b, lookupMacro ms n = some (.expr ps b) ∧ v ∈ ps

/-- `$v` is read by the body of an expression macro of the table, or `v` is a parameter of one -/
def TableNames (ms : List (String × MacroDef)) (v : String) : Prop := TableMentions ms v ∨ TableParam ms v

theorem eval_arith_undefVar {f : Nat} {c : Ctx} {a b : Expr} {v : String} {g : Int → Int → Except EvErr Int}
    (h : (match eval f c a with
      | .error e => Except.error e
      | .ok x => match eval f c b with
        | .error e => Except.error e
        | .ok y => g x y) = Except.error (.undefinedVariable v))
    (hg : ∀ x y, g x y ≠ .error (.undefinedVariable v)) :
    eval f c a = .error (.undefinedVariable v) ∨ eval f c b = .error (.undefinedVariable v) := by
  cases h1 : eval f c a with
  | error e =>
    rw [h1] at h
    simp only [Except.error.injEq] at h
    subst h
    exact Or.inl rfl
  | ok x =>
    rw [h1] at h
    simp only [] at h
    cases h2 : eval f c b with
    | error e =>
      rw [h2] at h
      simp only [Except.error.injEq] at h
      subst h
      exact Or.inr rfl
    | ok y =>
      rw [h2] at h
      exact absurd h (hg x y)

/-- `eval` / `evalArgs`: `undefinedVariable v` means `$v` occurs in the expression evaluated or in the body of an
expression macro of the table (bodies are evaluated in callee frames), or `v` is a parameter of an expression macro of
the table (of the one being applied, for `evalArgs`) that an invocation left without argument -/
theorem eval_undefVar_aux : ∀ f,
    (∀ (c : Ctx) (e : Expr) (v : String), eval f c e = .error (.undefinedVariable v) →
      e.mentionsVar v = true ∨ TableNames c.macros v) ∧
    (∀ (c : Ctx) (params : List String) (args : Exprs) (v : String),
      evalArgs f c params args = .error (.undefinedVariable v) →
      args.mentionsVar v = true ∨ v ∈ params ∨ TableNames c.macros v) := by
  intro f
  induction f with
  | zero =>
    constructor
    · intro c e v h; simp [eval] at h
    · intro c params args v h; simp [evalArgs] at h
  | succ f ih =>
    have arith : ∀ (c : Ctx) (a b : Expr) (v : String),
        (eval f c a = .error (.undefinedVariable v) ∨ eval f c b = .error (.undefinedVariable v)) →
        (a.mentionsVar v || b.mentionsVar v) = true ∨ TableNames c.macros v := by
      intro c a b v h
      rcases h with h | h
      · rcases ih.1 c a v h with h | h
        · left; simp [h]
        · exact Or.inr h
      · rcases ih.1 c b v h with h | h
        · left; simp [h]
        · exact Or.inr h
    constructor
    · intro c e v h
      cases e with
      | paren e => simp only [eval] at h; simp only [Expr.mentionsVar]; exact ih.1 c e v h
      | num n => simp [eval] at h
      | label x =>
        simp only [eval] at h
        split at h <;> simp at h
      | var x =>
        simp only [eval] at h
        split at h
        · simp only [Except.error.injEq, EvErr.undefinedVariable.injEq] at h; subst h; simp [Expr.mentionsVar]
        · split at h
          · simp at h
          · simp only [Except.error.injEq, EvErr.undefinedVariable.injEq] at h; subst h; simp [Expr.mentionsVar]
      | plus a b =>
        simp only [eval] at h
        simp only [Expr.mentionsVar]
        exact arith c a b v (eval_arith_undefVar (g := fun x y => .ok (x + y)) h (by intro x y; simp))
      | minus a b =>
        simp only [eval] at h
        simp only [Expr.mentionsVar]
        exact arith c a b v (eval_arith_undefVar (g := fun x y => .ok (x - y)) h (by intro x y; simp))
      | times a b =>
        simp only [eval] at h
        simp only [Expr.mentionsVar]
        exact arith c a b v (eval_arith_undefVar (g := fun x y => .ok (x * y)) h (by intro x y; simp))
      | divide a b =>
        simp only [eval] at h
        simp only [Expr.mentionsVar]
        refine arith c a b v (eval_arith_undefVar
          (g := fun x y => if y = 0 then .error .divisionByZero else .ok (Int.tdiv x y)) h ?_)
        intro x y
        split <;> simp
      | «macro» name args =>
        simp only [eval] at h
        simp only [Expr.mentionsVar]
        cases hlk : lookupMacro c.macros name with
        | none => rw [hlk] at h; simp at h
        | some md =>
          cases md with
          | instr ps body => rw [hlk] at h; simp at h
          | expr params body =>
            rw [hlk] at h
            simp only [] at h
            cases hea : evalArgs f c params args with
            | error e2 =>
              rw [hea] at h
              simp only [Except.error.injEq] at h
              subst h
              rcases ih.2 c params args v hea with hb | hb | hb
              · exact Or.inl hb
              · exact Or.inr (Or.inr ⟨name, params, body, hlk, hb⟩)
              · exact Or.inr hb
            | ok vs =>
              rw [hea] at h
              simp only [] at h
              split at h
              · simp at h
              · rcases ih.1 { c with vars := some vs, depth := c.depth + 1 } body v h with hb | hb
                · exact Or.inr (Or.inl ⟨name, params, body, hlk, hb⟩)
                · exact Or.inr hb
    · intro c params args v h
      cases params with
      | nil => simp [evalArgs] at h
      | cons p ps =>
        cases args with
        | nil =>
          simp only [evalArgs, Except.error.injEq, EvErr.undefinedVariable.injEq] at h
          subst h
          exact Or.inr (Or.inl (List.mem_cons_self ..))
        | cons a as =>
          simp only [evalArgs] at h
          simp only [Exprs.mentionsVar]
          cases hea : eval f c a with
          | error e2 =>
            rw [hea] at h
            simp only [Except.error.injEq] at h
            subst h
            rcases ih.1 c a v hea with h | h
            · left; simp [h]
            · exact Or.inr (Or.inr h)
          | ok x =>
            rw [hea] at h
            simp only [] at h
            cases heb : evalArgs f c ps as with
            | error e2 =>
              rw [heb] at h
              simp only [Except.error.injEq] at h
              subst h
              rcases ih.2 c ps as v heb with h | h | h
              · left; simp [h]
              · exact Or.inr (Or.inl (List.mem_cons_of_mem _ h))
              · exact Or.inr (Or.inr h)
            | ok rest => rw [heb] at h; simp at h

/-- the evaluator-level fact, spelled out -/
theorem eval_undefinedVariable (f : Nat) (ls : List (String × Option Nat)) (ms : List (String × MacroDef))
    (vars : Option (List (String × Int))) (d : Nat) (e : Expr) (v : String)
    (h : eval f ⟨ls, ms, vars, d⟩ e = .error (.undefinedVariable v)) :
    e.mentionsVar v = true ∨ (∃ n ps b, lookupMacro ms n = some (.expr ps b) ∧ b.mentionsVar v = true) ∨
      ∃ n ps b, lookupMacro ms n = some (.expr ps b) ∧ v ∈ ps :=
  (eval_undefVar_aux f).1 ⟨ls, ms, vars, d⟩ e v h

/-! ### the invariant: every variable the assembler state can still evaluate satisfies `P` -/

def DefIn (P : String → Prop) : MacroDef → Prop
  | .instr _ body => ∀ o ∈ body, AOpIn P o
  | .expr ps b => ExprIn P b ∧ ∀ p ∈ ps, P p

def TableIn (P : String → Prop) (ms : List (String × MacroDef)) : Prop :=
  ∀ n d, lookupMacro ms n = some d → DefIn P d

def ItemIn (P : String → Prop) : Item → Prop
  | .op _ (some e) => ExprIn P e
  | .push e => ExprIn P e
  | _ => True

/-- the macro table and the items waiting for `finish` mention only variables satisfying `P` -/
structure StIn (P : String → Prop) (s : St) : Prop where
  table : TableIn P s.macros
  ready : ∀ i ∈ s.ready, ItemIn P i

theorem StIn.congr {P : String → Prop} {s : St} (hs : StIn P s) (s' : St) (hm : s'.macros = s.macros)
    (hr : s'.ready = s.ready) : StIn P s' :=
  ⟨by rw [hm]; exact hs.table, by rw [hr]; exact hs.ready⟩

theorem StIn.add {P : String → Prop} {s : St} (hs : StIn P s) (s' : St) (item : Item) (hm : s'.macros = s.macros)
    (hr : s'.ready = s.ready ++ [item]) (hi : ItemIn P item) : StIn P s' := by
  refine ⟨by rw [hm]; exact hs.table, ?_⟩
  rw [hr]
  intro i hi'
  rcases List.mem_append.1 hi' with h | h
  · exact hs.ready i h
  · simp only [List.mem_singleton] at h; subst h; exact hi

/-- a step keeps the invariant, and an `undeclaredVariableMacro v` it reports has `P v` -/
def ResIn (P : String → Prop) (r : Except AsmErr St) : Prop :=
  (∀ s', r = .ok s' → StIn P s') ∧ (∀ v, r = .error (.undeclaredVariableMacro v) → P v)

theorem resIn_ok {P : String → Prop} {s : St} (h : StIn P s) : ResIn P (.ok s) :=
  ⟨fun s' he => (by injection he with he; subst he; exact h), fun v he => (by cases he)⟩

theorem resIn_error {P : String → Prop} {e : AsmErr} (h : ∀ v, e = .undeclaredVariableMacro v → P v) :
    ResIn P (.error e) :=
  ⟨fun s' he => (by cases he), fun v he => (by injection he with he; exact h v he)⟩

theorem eval_in {P : String → Prop} {f : Nat} {c : Ctx} {e : Expr} {v : String} (ht : TableIn P c.macros)
    (he : ExprIn P e) (h : eval f c e = .error (.undefinedVariable v)) : P v := by
  rcases (eval_undefVar_aux f).1 c e v h with hv | ⟨n, ps, b, hlk, hv⟩ | ⟨n, ps, b, hlk, hv⟩
  · exact he v hv
  · exact (ht n _ hlk).1 v hv
  · exact (ht n _ hlk).2 v hv

theorem mapErr_undefVar {err : EvErr} {v : String} (h : mapErr err = .undeclaredVariableMacro v) :
    err = .undefinedVariable v := by
  cases err <;> simp [mapErr] at h
  subst h; rfl

theorem concretizeOp_in {P : String → Prop} {c : Ctx} {code : Nat} {imm : Option Expr} {v : String}
    (ht : TableIn P c.macros) (hi : ∀ e, imm = some e → ExprIn P e)
    (h : concretizeOp c code imm = .ctx (.undefinedVariable v)) : P v := by
  unfold concretizeOp at h
  cases imm with
  | none => simp at h
  | some e =>
    simp only [] at h
    cases hev : eval evalFuel c e with
    | error e2 =>
      rw [hev] at h
      simp only [Conc.ctx.injEq] at h
      subst h
      exact eval_in ht (hi e rfl) hev
    | ok x =>
      rw [hev] at h
      simp only [] at h
      split at h
      · cases h
      · split at h <;> cases h

theorem concretizePush_in {P : String → Prop} {c : Ctx} {e : Expr} {v : String}
    (ht : TableIn P c.macros) (hi : ExprIn P e)
    (h : concretizePush c e = .ctx (.undefinedVariable v)) : P v := by
  unfold concretizePush at h
  cases hev : eval evalFuel c e with
  | error e2 =>
    rw [hev] at h
    simp only [Conc.ctx.injEq] at h
    subst h
    exact eval_in ht hi hev
  | ok x =>
    rw [hev] at h
    simp only [] at h
    split at h
    · cases h
    · split at h <;> cases h

/-- `labels()` never reports a variable: it does not look variables up -/
theorem mentionedOf_not_undefVar (ms : List (String × MacroDef)) (o : AOp) (v : String) :
    mentionedOf ms o ≠ .error (.undeclaredVariableMacro v) := by
  unfold mentionedOf
  cases o.expr? with
  | none => simp
  | some e =>
    simp only []
    cases labelsOf ms evalFuel 0 e with
    | ok L => simp
    | error err => cases err <;> simp

theorem pushInstr_in {P : String → Prop} (s : St) (o : AOp) (item : Item) (size : Option Nat) (conc : St → Conc)
    (hs : StIn P s) (hitem : ItemIn P item)
    (hconc : ∀ (s1 : St) v, s1.macros = s.macros → conc s1 = .ctx (.undefinedVariable v) → P v) :
    ResIn P (pushInstr s o item size conc) := by
  rw [pushInstr_eq]
  cases hm : mentionedOf s.macros o with
  | error e =>
    simp only []
    apply resIn_error
    intro v hv
    subst hv
    exact absurd hm (mentionedOf_not_undefVar _ _ _)
  | ok L =>
    simp only []
    cases hc : conc { s with undeclared := (L.filter (fun l => !isDefined s l)).foldl insertSet s.undeclared } with
    | ok bytes => exact resIn_ok (hs.add _ item rfl rfl hitem)
    | tooLarge =>
      simp only []
      split
      · exact resIn_ok (hs.add _ item rfl rfl hitem)
      · exact resIn_error (by intro v hv; cases hv)
    | negative =>
      simp only []
      split
      · exact resIn_ok (hs.add _ item rfl rfl hitem)
      · exact resIn_error (by intro v hv; cases hv)
    | ctx err =>
      cases err with
      | divisionByZero =>
        simp only []
        split
        · exact resIn_ok (hs.add _ item rfl rfl hitem)
        · exact resIn_error (by intro v hv; cases hv)
      | unknownLabel l => exact resIn_ok (hs.add _ item rfl rfl hitem)
      | unknownMacro n => exact resIn_error (by intro v hv; simp [mapErr] at hv)
      | recursionLimit n => exact resIn_error (by intro v hv; simp [mapErr] at hv)
      | undefinedVariable w =>
        apply resIn_error
        intro v hv
        simp only [mapErr, AsmErr.undeclaredVariableMacro.injEq] at hv
        subst hv
        exact hconc _ _ (by rfl) hc

/-! ### `finish` -/

theorem toExcept_undefVar {k : Conc} {v : String} (h : k.toExcept = .error (.undeclaredVariableMacro v)) :
    k = .ctx (.undefinedVariable v) := by
  cases k with
  | ok bs => simp [Conc.toExcept] at h
  | tooLarge => simp [Conc.toExcept] at h
  | negative => simp [Conc.toExcept] at h
  | ctx err =>
    simp only [Conc.toExcept, Except.error.injEq] at h
    rw [mapErr_undefVar h]

theorem emitItem_in {P : String → Prop} {c : Ctx} {item : Item} {ws : List Nat} {v : String}
    (ht : TableIn P c.macros) (hi : ItemIn P item)
    (h : emitItem c item ws = .error (.undeclaredVariableMacro v)) : P v := by
  cases item with
  | label l => simp [emitItem] at h
  | raw bs => simp [emitItem] at h
  | op code imm =>
    refine concretizeOp_in ht ?_ (toExcept_undefVar h)
    intro e he
    subst he
    exact hi
  | push ex =>
    refine concretizeOp_in ht ?_ (toExcept_undefVar h)
    intro e he
    injection he with he
    subst he
    exact hi

theorem emit_in {P : String → Prop} {c : Ctx} (ht : TableIn P c.macros) {v : String} :
    ∀ (items : List Item) (ws : List Nat), (∀ i ∈ items, ItemIn P i) →
      emit c items ws = .error (.undeclaredVariableMacro v) → P v := by
  intro items
  induction items with
  | nil => intro ws _ h; simp [emit] at h
  | cons x rest ih =>
    intro ws hall h
    rw [emit_cons] at h
    cases hx : emitItem c x ws with
    | error e =>
      rw [hx] at h
      simp only [Except.error.injEq] at h
      subst h
      exact emitItem_in ht (hall x (List.mem_cons_self ..)) hx
    | ok bs =>
      rw [hx] at h
      simp only [] at h
      cases hy : emit c rest (ws.drop (pushCount [x])) with
      | error e =>
        rw [hy] at h
        simp only [Except.error.injEq] at h
        subst h
        exact ih _ (fun i hi => hall i (List.mem_cons_of_mem _ hi)) hy
      | ok more => rw [hy] at h; simp at h

theorem finish_in {P : String → Prop} {s : St} (hs : StIn P s) {v : String}
    (h : finish s = .error (.undeclaredVariableMacro v)) : P v := by
  rw [finish_unfold] at h
  split at h
  · simp at h
  · exact emit_in (c := ⟨_, s.macros, none, 0⟩) hs.table _ _ hs.ready h

/-! ### the macro table of a scope comes from the scope's definition statements -/

theorem AOps.mentionsVar_of_mem (v : String) : ∀ (body : AOps) (o : AOp),
    o ∈ body.toList → o.mentionsVar v = true → body.mentionsVar v = true
  | .nil, o, h, _ => by simp [AOps.toList] at h
  | .cons x t, o, h, hv => by
    simp only [AOps.toList, List.mem_cons] at h
    simp only [AOps.mentionsVar, Bool.or_eq_true]
    rcases h with h | h
    · subst h; exact Or.inl hv
    · exact Or.inr (AOps.mentionsVar_of_mem v t o h hv)

theorem lookupMacro_mem_table {ms : List (String × MacroDef)} {n : String} {d : MacroDef}
    (h : lookupMacro ms n = some d) : ∃ p ∈ ms, p.2 = d := by
  unfold lookupMacro at h
  cases hf : ms.find? (·.1 == n) with
  | none => rw [hf] at h; simp at h
  | some p =>
    rw [hf] at h
    simp only [Option.map_some, Option.some.injEq] at h
    exact ⟨p, List.mem_of_find?_eq_some hf, h⟩

/-- every parameter the statement declares satisfies `P` -/
def AOpParamsIn (P : String → Prop) (o : AOp) : Prop := ∀ v, o.declaresParam v = true → P v

/-- every entry of the table `declareMacros` builds is the definition of an `.instrDef` / `.exprDef` statement -/
theorem declareMacros_in {P : String → Prop} : ∀ (l : List RawOp) (ms0 ms : List (String × MacroDef)),
    declareMacros l ms0 = .ok ms → (∀ p ∈ ms0, DefIn P p.2) →
    (∀ o, RawOp.op o ∈ l → AOpIn P o ∧ AOpParamsIn P o) →
    ∀ p ∈ ms, DefIn P p.2 := by
  intro l
  induction l with
  | nil =>
    intro ms0 ms h h0 _
    simp only [declareMacros, Except.ok.injEq] at h
    subst h
    exact h0
  | cons x rest ih =>
    intro ms0 ms h h0 hl
    have hrest : ∀ o, RawOp.op o ∈ rest → AOpIn P o ∧ AOpParamsIn P o :=
      fun o ho => hl o (List.mem_cons_of_mem _ ho)
    cases x with
    | op o =>
      cases o with
      | instrDef n ps body =>
        simp only [declareMacros] at h
        split at h
        · cases h
        · refine ih _ ms h ?_ hrest
          intro p hp
          rcases List.mem_append.1 hp with hp | hp
          · exact h0 p hp
          · simp only [List.mem_singleton] at hp
            subst hp
            intro o ho v hv
            exact (hl _ (List.mem_cons_self ..)).1 v
              (by simp only [AOp.mentionsVar]; exact AOps.mentionsVar_of_mem v body o ho hv)
      | exprDef n ps body =>
        simp only [declareMacros] at h
        split at h
        · cases h
        · refine ih _ ms h ?_ hrest
          intro p hp
          rcases List.mem_append.1 hp with hp | hp
          · exact h0 p hp
          · simp only [List.mem_singleton] at hp
            subst hp
            refine ⟨?_, ?_⟩
            · intro v hv
              exact (hl _ (List.mem_cons_self ..)).1 v (by simp only [AOp.mentionsVar]; exact hv)
            · intro v hv
              exact (hl _ (List.mem_cons_self ..)).2 v (by simp only [AOp.declaresParam, List.contains_iff_mem]; exact hv)
      | op code imm => simp only [declareMacros] at h; exact ih _ ms h h0 hrest
      | label l => simp only [declareMacros] at h; exact ih _ ms h h0 hrest
      | push ex => simp only [declareMacros] at h; exact ih _ ms h h0 hrest
      | «macro» n args => simp only [declareMacros] at h; exact ih _ ms h h0 hrest
    | scope ops => simp only [declareMacros] at h; exact ih _ ms h h0 hrest
    | raw bs => simp only [declareMacros] at h; exact ih _ ms h h0 hrest

theorem declareMacros_tableIn {P : String → Prop} {l : List RawOp} {ms : List (String × MacroDef)}
    (h : declareMacros l [] = .ok ms) (hl : ∀ o, RawOp.op o ∈ l → AOpIn P o ∧ AOpParamsIn P o) : TableIn P ms := by
  intro n d hlk
  obtain ⟨p, hp, rfl⟩ := lookupMacro_mem_table hlk
  exact declareMacros_in l [] ms h (by intro p hp; cases hp) hl p hp

/-! ### `instantiate`: the variables of an instantiated body come from the body or from the arguments -/

theorem AOpIn.label (P : String → Prop) (l : String) : AOpIn P (.label l) := by
  intro v hv; simp [AOp.mentionsVar] at hv

theorem aopIn_macro {P : String → Prop} {n : String} {args : List Expr} :
    AOpIn P (.macro n args) ↔ ∀ a ∈ args, ExprIn P a := by
  constructor
  · intro h a ha v hv
    exact h v (by simp only [AOp.mentionsVar, List.any_eq_true]; exact ⟨a, ha, hv⟩)
  · intro h v hv
    simp only [AOp.mentionsVar, List.any_eq_true] at hv
    obtain ⟨a, ha, hv⟩ := hv
    exact h a ha v hv

theorem renameLocals_in {P : String → Prop} (rnd : Nat → Nat) (name : String) : ∀ (body : List AOp) (k : Nat)
    (m : List (String × String)) (os : List AOp) (k' : Nat) (m' : List (String × String)),
    renameLocals rnd name body k m = .ok (os, k', m') → (∀ o ∈ body, AOpIn P o) → ∀ o ∈ os, AOpIn P o := by
  intro body
  induction body with
  | nil =>
    intro k m os k' m' h _
    simp only [renameLocals, Except.ok.injEq, Prod.mk.injEq] at h
    obtain ⟨rfl, _, _⟩ := h
    intro o ho; cases ho
  | cons o rest ih =>
    intro k m os k' m' h hb
    have hrest : ∀ o ∈ rest, AOpIn P o := fun x hx => hb x (List.mem_cons_of_mem _ hx)
    have other : (match renameLocals rnd name rest k m with
        | .error e => Except.error e
        | .ok (os, k', m') => (.ok (o :: os, k', m') : Except AsmErr (List AOp × Nat × List (String × String))))
          = .ok (os, k', m') → ∀ x ∈ os, AOpIn P x := by
      intro h
      cases hr : renameLocals rnd name rest k m with
      | error e2 => rw [hr] at h; simp at h
      | ok r =>
        obtain ⟨os1, k1, m1⟩ := r
        rw [hr] at h
        simp only [Except.ok.injEq, Prod.mk.injEq] at h
        obtain ⟨rfl, _, _⟩ := h
        intro x hx
        rcases List.mem_cons.1 hx with hx | hx
        · subst hx; exact hb _ (List.mem_cons_self ..)
        · exact ih _ _ _ _ _ hr hrest x hx
    cases o with
    | label l =>
      simp only [renameLocals] at h
      split at h
      · cases h
      · cases hr : renameLocals rnd name rest (k + 1) (m ++ [(l, mangle rnd k name l)]) with
        | error e2 => rw [hr] at h; simp at h
        | ok r =>
          obtain ⟨os1, k1, m1⟩ := r
          rw [hr] at h
          simp only [Except.ok.injEq, Prod.mk.injEq] at h
          obtain ⟨rfl, _, _⟩ := h
          intro x hx
          rcases List.mem_cons.1 hx with hx | hx
          · subst hx; exact AOpIn.label P _
          · exact ih _ _ _ _ _ hr hrest x hx
    | op code imm => simp only [renameLocals] at h; exact other h
    | push ex => simp only [renameLocals] at h; exact other h
    | instrDef n ps b => simp only [renameLocals] at h; exact other h
    | exprDef n ps b => simp only [renameLocals] at h; exact other h
    | «macro» n args => simp only [renameLocals] at h; exact other h

theorem foldl_mentionsVar (v : String) (g : Expr → String × String → Expr)
    (hg : ∀ e p, (g e p).mentionsVar v = e.mentionsVar v) : ∀ (renames : List (String × String)) (e : Expr),
    (renames.foldl g e).mentionsVar v = e.mentionsVar v := by
  intro renames
  induction renames with
  | nil => intro e; rfl
  | cons p rest ih =>
    intro e
    simp only [List.foldl_cons]
    rw [ih, hg]

/-- the expression rewriting of `substBody`: local labels renamed, then parameters replaced by arguments -/
theorem substFix_in {P : String → Prop} {renames : List (String × String)} {bs : List (String × Expr)}
    (hb : ∀ p ∈ bs, ExprIn P p.2) (e : Expr) (he : ExprIn P e) :
    ExprIn P (fillVars bs (renames.foldl (fun e (o, n) => replaceLabel o n e) e)) := by
  apply fillVars_in hb
  intro v hv
  rw [foldl_mentionsVar v _ (by intro e p; obtain ⟨o, n⟩ := p; exact replaceLabel_mentionsVar o n v e)] at hv
  exact he v hv

theorem substBody_in {P : String → Prop} (renames : List (String × String)) (bs : List (String × Expr))
    (body : List AOp) (hb : ∀ p ∈ bs, ExprIn P p.2) (hbody : ∀ o ∈ body, AOpIn P o) :
    ∀ o ∈ substBody renames bs body, AOpIn P o := by
  intro o' ho'
  simp only [substBody, List.mem_map] at ho'
  obtain ⟨o, ho, rfl⟩ := ho'
  have hin := hbody o ho
  cases o with
  | label l => exact hin
  | instrDef n ps b => exact hin
  | exprDef n ps b => exact hin
  | push ex =>
    intro v hv
    simp only [AOp.mentionsVar] at hv
    exact substFix_in hb ex (fun v hv => hin v (by simp only [AOp.mentionsVar]; exact hv)) v hv
  | op code imm =>
    cases imm with
    | none => exact hin
    | some ex =>
      intro v hv
      simp only [AOp.mentionsVar] at hv
      exact substFix_in hb ex (fun v hv => hin v (by simp only [AOp.mentionsVar]; exact hv)) v hv
  | «macro» n args =>
    simp only []
    rw [aopIn_macro] at hin ⊢
    intro a ha
    simp only [List.mem_map] at ha
    obtain ⟨a0, ha0, rfl⟩ := ha
    exact substFix_in hb a0 (hin a0 ha0)

theorem instantiate_in {P : String → Prop} (rnd : Nat → Nat) (name : String) (params : List String)
    (body : List AOp) (args : List Expr) (fresh : Nat) (body2 : List AOp) (k : Nat)
    (h : instantiate rnd name params body args fresh = .ok (body2, k))
    (hbody : ∀ o ∈ body, AOpIn P o) (hargs : ∀ a ∈ args, ExprIn P a) : ∀ o ∈ body2, AOpIn P o := by
  unfold instantiate at h
  split at h
  · cases h
  · cases hr : renameLocals rnd name body fresh [] with
    | error e2 => rw [hr] at h; simp at h
    | ok r =>
      obtain ⟨body1, k1, renames⟩ := r
      rw [hr] at h
      simp only [Except.ok.injEq, Prod.mk.injEq] at h
      obtain ⟨rfl, _⟩ := h
      apply substBody_in
      · intro p hp
        exact hargs p.2 (List.of_mem_zip hp).2
      · exact renameLocals_in rnd name body fresh [] _ _ _ hr hbody

/-! ### within one scope -/

theorem ops_vars (rnd : Nat → Nat) (P : String → Prop) : ∀ f,
    (∀ s o, StIn P s → AOpIn P o → ResIn P (push rnd f s (.op o))) ∧
    (∀ s name args, StIn P s → (∀ a ∈ args, ExprIn P a) → ResIn P (expandMacro rnd f s name args)) ∧
    (∀ s body, StIn P s → (∀ o ∈ body, AOpIn P o) → ResIn P (feed rnd f s body)) := by
  intro f
  induction f with
  | zero =>
    refine ⟨?_, ?_, ?_⟩
    · intro s o _ _; simp only [push]; exact resIn_error (by intro v hv; cases hv)
    · intro s name args _ _; simp only [expandMacro]; exact resIn_error (by intro v hv; cases hv)
    · intro s body _ _; simp only [feed]; exact resIn_error (by intro v hv; cases hv)
  | succ f ih =>
    obtain ⟨ihP, ihM, ihF⟩ := ih
    refine ⟨?_, ?_, ?_⟩
    · intro s o hs ho
      cases o with
      | label l =>
        simp only [push]
        split
        · exact resIn_error (by intro v hv; cases hv)
        · exact resIn_ok (hs.add _ (.label l) rfl rfl trivial)
      | instrDef n ps body => simp only [push]; exact resIn_ok hs
      | exprDef n ps body => simp only [push]; exact resIn_ok hs
      | «macro» name args => simp only [push]; exact ihM s name args hs (aopIn_macro.1 ho)
      | op code imm =>
        simp only [push]
        have hi : ∀ e, imm = some e → ExprIn P e := by
          intro e he v hv
          subst he
          exact ho v (by simp only [AOp.mentionsVar]; exact hv)
        apply pushInstr_in s _ _ _ _ hs
        · cases imm with
          | none => trivial
          | some e => exact hi e rfl
        · intro s1 v hs1 hc
          refine concretizeOp_in (c := s1.ctx) ?_ hi hc
          simp only [St.ctx]
          rw [hs1]
          exact hs.table
      | push ex =>
        simp only [push]
        have hi : ExprIn P ex := fun v hv => ho v (by simp only [AOp.mentionsVar]; exact hv)
        apply pushInstr_in s _ _ _ _ hs (show ItemIn P (.push ex) from hi)
        intro s1 v hs1 hc
        refine concretizePush_in (c := s1.ctx) ?_ hi hc
        simp only [St.ctx]
        rw [hs1]
        exact hs.table
    · intro s name args hs hargs
      simp only [expandMacro]
      cases hlk : lookupMacro s.macros name with
      | none => exact resIn_error (by intro v hv; cases hv)
      | some md =>
        cases md with
        | expr ps body => exact resIn_error (by intro v hv; cases hv)
        | instr params body =>
          simp only []
          split
          · exact resIn_error (by intro v hv; cases hv)
          · split
            · exact resIn_error (by intro v hv; cases hv)
            · cases hinst : instantiate rnd name params body args s.fresh with
              | error e =>
                simp only []
                apply resIn_error
                intro v hv
                subst hv
                rcases instantiate_err _ _ _ _ _ _ _ hinst with he | ⟨l, he⟩ <;> cases he
              | ok r =>
                obtain ⟨body2, k⟩ := r
                simp only []
                have hb2 := instantiate_in rnd name params body args s.fresh body2 k hinst
                  (hs.table name _ hlk) hargs
                have hfeed := ihF { s with depth := s.depth + 1, fresh := k } body2 (hs.congr _ rfl rfl) hb2
                cases hfd : feed rnd f { s with depth := s.depth + 1, fresh := k } body2 with
                | error e =>
                  rw [hfd] at hfeed
                  exact resIn_error (fun v hv => hfeed.2 v (by rw [hv]))
                | ok s' =>
                  rw [hfd] at hfeed
                  exact resIn_ok ((hfeed.1 s' rfl).congr _ rfl rfl)
    · intro s body hs hbody
      cases body with
      | nil => simp only [feed]; exact resIn_ok hs
      | cons o os =>
        simp only [feed]
        have hp := ihP s o hs (hbody o (List.mem_cons_self ..))
        cases hpush : push rnd f s (.op o) with
        | error e =>
          rw [hpush] at hp
          exact resIn_error (fun v hv => hp.2 v (by rw [hv]))
        | ok s' =>
          rw [hpush] at hp
          exact ihF s' os (hp.1 s' rfl) (fun x hx => hbody x (List.mem_cons_of_mem _ hx))

/-! ### the steps induction through nested scopes -/

/-- `$v` occurs in a top-level statement of the program or of one of its nested scopes, or `v` is a parameter of an
expression macro such a statement defines -/
def VarProv (ops : RawOps) (v : String) : Prop :=
  ∃ (sub : RawOps) (o : AOp), SubScope sub ops ∧ RawOp.op o ∈ sub.toList ∧
    (o.mentionsVar v = true ∨ o.declaresParam v = true)

theorem VarProv.nested {inner ops : RawOps} {v : String}
    (hmem : RawOp.scope inner ∈ ops.toList) (h : VarProv inner v) : VarProv ops v := by
  obtain ⟨sub, o, hsub, rest⟩ := h
  exact ⟨sub, o, SubScope.nested sub inner ops hmem hsub, rest⟩

/-- `$w` occurs in a top-level statement of the scope, or `w` is a parameter of an expression macro it defines -/
def ScopeMentions (ops : RawOps) (w : String) : Prop :=
  ∃ o, RawOp.op o ∈ ops.toList ∧ (o.mentionsVar w = true ∨ o.declaresParam w = true)

theorem varProv_steps (rnd : Nat → Nat) (v : String) : ∀ f,
    (∀ k ops, assemble rnd f { fresh := k } ops = .error (.undeclaredVariableMacro v) → VarProv ops v) ∧
    (∀ (P : String → Prop) s rop, StIn P s → (∀ o, rop = .op o → AOpIn P o) →
      (∀ s', push rnd f s rop = .ok s' → StIn P s') ∧
      (push rnd f s rop = .error (.undeclaredVariableMacro v) →
        P v ∨ ∃ inner, rop = .scope inner ∧ VarProv inner v)) ∧
    (∀ (P : String → Prop) s ops, StIn P s → (∀ o, RawOp.op o ∈ ops.toList → AOpIn P o) →
      (∀ s', feedAll rnd f s ops = .ok s' → StIn P s') ∧
      (feedAll rnd f s ops = .error (.undeclaredVariableMacro v) →
        P v ∨ ∃ inner, RawOp.scope inner ∈ ops.toList ∧ VarProv inner v)) := by
  intro f
  induction f with
  | zero =>
    refine ⟨?_, ?_, ?_⟩
    · intro k ops h; simp [assemble] at h
    · intro P s rop _ _
      exact ⟨by intro s' h; simp [push] at h, by intro h; simp [push] at h⟩
    · intro P s ops _ _
      exact ⟨by intro s' h; simp [feedAll] at h, by intro h; simp [feedAll] at h⟩
  | succ f ih =>
    obtain ⟨ihA, ihP, ihF⟩ := ih
    refine ⟨?_, ?_, ?_⟩
    · intro k ops h
      simp only [assemble] at h
      cases hdm : declareMacros ops.toList [] with
      | error e2 =>
        rw [hdm] at h
        simp only [Except.error.injEq] at h
        subst h
        obtain ⟨m, hm⟩ := declareMacros_err _ _ _ hdm
        cases hm
      | ok ms =>
        rw [hdm] at h
        simp only [] at h
        have hall : ∀ o, RawOp.op o ∈ ops.toList → AOpIn (ScopeMentions ops) o :=
          fun o ho w hw => ⟨o, ho, Or.inl hw⟩
        have hallp : ∀ o, RawOp.op o ∈ ops.toList → AOpIn (ScopeMentions ops) o ∧ AOpParamsIn (ScopeMentions ops) o :=
          fun o ho => ⟨hall o ho, fun w hw => ⟨o, ho, Or.inr hw⟩⟩
        have hs0 : StIn (ScopeMentions ops) { macros := ms, fresh := k } :=
          ⟨declareMacros_tableIn hdm hallp, by intro i hi; cases hi⟩
        have hF := ihF (ScopeMentions ops) { macros := ms, fresh := k } ops hs0 hall
        have fromP : ScopeMentions ops v → VarProv ops v := by
          rintro ⟨o, ho, hv⟩
          exact ⟨ops, o, SubScope.refl ops, ho, hv⟩
        cases hfa : feedAll rnd f { macros := ms, fresh := k } ops with
        | error e2 =>
          rw [hfa] at h
          simp only [Except.error.injEq] at h
          subst h
          rcases hF.2 hfa with hp | ⟨inner, hmem, hp⟩
          · exact fromP hp
          · exact hp.nested hmem
        | ok s =>
          rw [hfa] at h
          simp only [] at h
          cases hx : finish s with
          | error e2 =>
            rw [hx] at h
            simp only [Except.map, Except.error.injEq] at h
            subst h
            exact fromP (finish_in (hF.1 s hfa) hx)
          | ok b => rw [hx] at h; simp [Except.map] at h
    · intro P s rop hs hrop
      cases rop with
      | op o =>
        have := (ops_vars rnd P (f + 1)).1 s o hs (hrop o rfl)
        exact ⟨this.1, fun h => Or.inl (this.2 v h)⟩
      | raw bs =>
        refine ⟨?_, by intro h; simp [push] at h⟩
        intro s' h
        simp only [push, Except.ok.injEq] at h
        subst h
        exact hs.add _ (.raw bs) rfl rfl trivial
      | scope inner =>
        simp only [push]
        cases hasm : assemble rnd f { fresh := s.fresh } inner with
        | error e2 =>
          refine ⟨(by intro s' h; cases h), ?_⟩
          intro h
          simp only [Except.error.injEq] at h
          subst h
          exact Or.inr ⟨inner, rfl, ihA _ _ hasm⟩
        | ok r =>
          obtain ⟨b, k⟩ := r
          refine ⟨?_, by intro h; cases h⟩
          intro s' h
          simp only [Except.ok.injEq] at h
          subst h
          exact hs.add _ (.raw b) rfl rfl trivial
    · intro P s ops hs hops
      cases ops with
      | nil =>
        simp only [feedAll]
        exact ⟨by intro s' h; injection h with h; subst h; exact hs, by intro h; cases h⟩
      | cons o rest =>
        simp only [feedAll]
        have hP := ihP P s o hs (by intro x hx; subst hx; exact hops x (by simp [RawOps.toList]))
        cases hpush : push rnd f s o with
        | error e2 =>
          refine ⟨(by intro s' h; cases h), ?_⟩
          intro h
          simp only [Except.error.injEq] at h
          subst h
          rcases hP.2 hpush with hp | ⟨inner, hi, hp⟩
          · exact Or.inl hp
          · subst hi
            exact Or.inr ⟨inner, by simp [RawOps.toList], hp⟩
        | ok s' =>
          simp only []
          have hF := ihF P s' rest (hP.1 s' hpush)
            (by intro x hx; exact hops x (by simp only [RawOps.toList]; exact List.mem_cons_of_mem _ hx))
          refine ⟨hF.1, ?_⟩
          intro h
          rcases hF.2 h with hp | ⟨inner, hmem, hp⟩
          · exact Or.inl hp
          · exact Or.inr ⟨inner, by simp only [RawOps.toList]; exact List.mem_cons_of_mem _ hmem, hp⟩

/-- C13, `UndeclaredVariableMacro v`: `$v` occurs literally in the scope that reports it, or `v` is a parameter of an
expression macro that scope defines (an invocation left it without argument) -/
theorem undeclaredVariable_provenance (rnd : Nat → Nat) (fuel k : Nat) (ops : RawOps) (v : String)
    (h : assemble rnd fuel { fresh := k } ops = .error (.undeclaredVariableMacro v)) :
    ∃ (sub : RawOps) (o : AOp), SubScope sub ops ∧ RawOp.op o ∈ sub.toList ∧
      (o.mentionsVar v = true ∨ o.declaresParam v = true) :=
  (varProv_steps rnd v fuel).1 k ops h

end Asm
end EtkVerif
