/-
Lines of a decorated text in the real interpreter: NEWLINE over blank / comment-only
lines, one statement with its terminator, and the statement loop of `inner`.
-/
import EtkVerif.Asm.LayoutStmt
namespace EtkVerif
namespace Asm
namespace Layout
open Pest Listing

variable {text : List Nat}

theorem IsBlanks.append {a b : List Nat} (ha : IsBlanks a) (hb : IsBlanks b) : IsBlanks (a ++ b) := by
  intro c hc
  rcases List.mem_append.mp hc with h | h
  · exact ha c h
  · exact hb c h

theorem IsBlanks.nil : IsBlanks [] := by intro c hc; cases hc

/-- the start of a statement, or the end of input -/
inductive SStart : List Nat → Prop
  | eof : SStart []
  | letter (c : Nat) (t : List Nat) (h : letterCls.mem c) : SStart (c :: t)

theorem SStart.tail {s : List Nat} : SStart s → Tail s
  | .eof => .eof
  | .letter c t h => .letter c t h

/-! ### NEWLINE -/

theorem nl_ok {p : Nat} (crlf : Bool) {t : List Nat} (hs : Suf text p (newline crlf ++ t)) :
    Ev (envOf text) 20 (.ref 1003) .nonAtomic false p (some (p + (newline crlf).length, [])) := by
  have h := lineEnd_ok
  simp only [Bool.and_eq_true] at h
  obtain ⟨⟨⟨⟨⟨⟨⟨_, _⟩, _⟩, _⟩, h5⟩, h6⟩, _⟩, _⟩ := h
  cases crlf with
  | false =>
    simpa [newline] using Ev.of_window (hs.agree (s1 := [10]) (s2 := t) (cs := [single 10]) (closed := false)
      ⟨single_mem 10, trivial⟩ (fun h => by cases h)) (resIs_eq h5)
  | true =>
    simpa [newline] using Ev.of_window (hs.agree (s1 := [13, 10]) (s2 := t) (cs := [single 13, single 10])
      (closed := false) ⟨single_mem 13, single_mem 10, trivial⟩ (fun h => by cases h)) (resIs_eq h6)

theorem nl_fail {p : Nat} {s : List Nat} (hs : Suf text p s) (h : SStart s) :
    Ev (envOf text) 20 (.ref 1003) .nonAtomic false p none := by
  have hh := lineEnd_ok
  simp only [Bool.and_eq_true] at hh
  obtain ⟨⟨⟨⟨⟨⟨⟨_, _⟩, _⟩, h4⟩, _⟩, _⟩, _⟩, h8⟩ := hh
  cases h with
  | eof =>
    simpa using Ev.of_window (hs.agree (s1 := []) (s2 := []) (cs := []) (closed := true) trivial (fun _ => rfl))
      (resFail_eq h4)
  | letter c t hc =>
    simpa using Ev.of_window (hs.agree (s1 := [c]) (s2 := t) (cs := [letterCls]) (closed := false)
      ⟨hc, trivial⟩ (fun h => by cases h)) (resFail_eq h8)

theorem lineEnd_newline (crlf : Bool) (t : List Nat) : LineEnd (newline crlf ++ t) := by
  cases crlf
  · exact .lf t
  · exact .crlf t

theorem newline_pos (crlf : Bool) : 0 < (newline crlf).length := by cases crlf <;> simp [newline]

/-- NEWLINE repeated over blank / comment-only lines; it stops (and restores the position) before the
blanks that lead to the next statement or the end of input -/
theorem nl_rep {Bf s : List Nat} (hBf : IsBlanks Bf) (hst : SStart s) :
    ∀ (bs : List BlankLine) (p : Nat) (acc : List (List Pair)) (f : Nat), (∀ b ∈ bs, b.WF) →
    Suf text p (bs.flatMap BlankLine.text ++ (Bf ++ s)) → 2 * text.length + 200 ≤ f + p →
    ∃ acc', rep (envOf text) f (.ref 1003) .nonAtomic false p acc =
        (p + (bs.flatMap BlankLine.text).length, acc') ∧
      acc'.reverse.flatten = acc.reverse.flatten
  | [], p, acc, f, _, hs, hf => by
    have hs : Suf text p (Bf ++ commentText none ++ s) := by simpa [commentText] using hs
    have hlen := hs.len
    simp only [List.length_append] at hlen
    obtain ⟨f, rfl⟩ : ∃ f', f = f' + 1 := ⟨f - 1, by omega⟩
    refine ⟨acc, ?_, rfl⟩
    have hsk := skip_gap Bf none p hBf hs (fun b h => by cases h) hst.tail f
      (by simp only [commentText, List.length_nil]; omega)
    have hs2 : Suf text (p + Bf.length + (commentText none).length) s := by
      have := Suf.app (a := Bf ++ commentText none) (b := s) hs
      simpa [Nat.add_assoc] using this
    rw [rep.eq_2, hsk, nl_fail hs2 hst f (by omega)]
    simp
  | b :: bs, p, acc, f, hwf, hs, hf => by
    have hb : b.WF := hwf b (by simp)
    have hs : Suf text p (b.blanks ++ commentText b.comment ++
        (newline b.crlf ++ (bs.flatMap BlankLine.text ++ (Bf ++ s)))) := by
      simpa [BlankLine.text, List.append_assoc] using hs
    have hlen := hs.len
    simp only [List.length_append] at hlen
    have hnl := newline_pos b.crlf
    obtain ⟨f, rfl⟩ : ∃ f', f = f' + 1 := ⟨f - 1, by omega⟩
    have hsk := skip_gap b.blanks b.comment p hb.1 hs
      (fun x hx => ⟨hb.2 x hx, lineEnd_newline _ _⟩) (lineEnd_newline _ _).tail f (by omega)
    have hs2 : Suf text (p + b.blanks.length + (commentText b.comment).length)
        (newline b.crlf ++ (bs.flatMap BlankLine.text ++ (Bf ++ s))) := by
      have := Suf.app (a := b.blanks ++ commentText b.comment) hs
      simpa [Nat.add_assoc] using this
    have hs3 := hs2.app
    obtain ⟨acc', h1, h2⟩ := nl_rep hBf hst bs _ ([] :: acc) f (fun x hx => hwf x (by simp [hx])) hs3 (by omega)
    refine ⟨acc', ?_, by simpa using h2⟩
    rw [rep.eq_2, hsk, nl_ok b.crlf hs2 f (by omega)]
    have hne : ¬ (p + b.blanks.length + (commentText b.comment).length + (newline b.crlf).length = p) := by omega
    simp only [hne, if_false]
    rw [h1]
    simp only [List.flatMap_cons, BlankLine.text, List.length_append]
    congr 1; omega

/-- `NEWLINE+` at the line end of a `Term.line`: it takes the line end and every following blank /
comment-only line -/
theorem plus_ok {Bf s : List Nat} (hBf : IsBlanks Bf) (hst : SStart s) (crlf : Bool) (more : List BlankLine)
    (hwf : ∀ b ∈ more, b.WF) {q : Nat}
    (hs : Suf text q (newline crlf ++ (more.flatMap BlankLine.text ++ (Bf ++ s)))) :
    ∃ P2 B2, Ev (envOf text) (2 * text.length + 210) (.plus (.ref 1003)) .nonAtomic false q (some (P2, [])) ∧
      IsBlanks B2 ∧ Suf text P2 (B2 ++ s) ∧ q < P2 := by
  have hnl := newline_pos crlf
  have hlen := hs.len
  simp only [List.length_append] at hlen
  have hs1 := hs.app
  cases more with
  | nil =>
    have hs1' : Suf text (q + (newline crlf).length) (Bf ++ commentText none ++ s) := by
      simpa [commentText] using hs1
    have hs2 : Suf text (q + (newline crlf).length + Bf.length) s := by
      have := Suf.app (a := Bf) (b := s) (by simpa using hs1)
      exact this
    refine ⟨q + (newline crlf).length + Bf.length, [], ?_, IsBlanks.nil, by simpa using hs2, by omega⟩
    intro f hf
    obtain ⟨f, rfl⟩ : ∃ f', f = f' + 1 := ⟨f - 1, by omega⟩
    have hsk := skip_gap Bf none _ hBf hs1' (fun b h => by cases h) hst.tail f
      (by simp only [commentText, List.length_nil]; simp only [List.flatMap_nil, List.length_nil] at hlen; omega)
    simp only [commentText, List.length_nil, Nat.add_zero] at hsk
    rw [matchE.eq_8, nl_ok crlf hs f (by omega)]
    simp only
    rw [hsk, nl_fail hs2 hst f (by omega)]
  | cons b bs =>
    have hb : b.WF := hwf b (by simp)
    have hs1' : Suf text (q + (newline crlf).length) (b.blanks ++ commentText b.comment ++
        (newline b.crlf ++ (bs.flatMap BlankLine.text ++ (Bf ++ s)))) := by
      simpa [BlankLine.text, List.append_assoc] using hs1
    have hlen1 := hs1'.len
    simp only [List.length_append] at hlen1
    have hnl2 := newline_pos b.crlf
    have hs2 : Suf text (q + (newline crlf).length + b.blanks.length + (commentText b.comment).length)
        (newline b.crlf ++ (bs.flatMap BlankLine.text ++ (Bf ++ s))) := by
      have := Suf.app (a := b.blanks ++ commentText b.comment) hs1'
      simpa [Nat.add_assoc] using this
    have hs3 := hs2.app
    have hs4 : Suf text (q + (newline crlf).length + b.blanks.length + (commentText b.comment).length +
        (newline b.crlf).length + (bs.flatMap BlankLine.text).length) (Bf ++ s) := hs3.app
    refine ⟨_, Bf, ?_, hBf, hs4, by omega⟩
    intro f hf
    obtain ⟨f, rfl⟩ : ∃ f', f = f' + 1 := ⟨f - 1, by omega⟩
    have hsk := skip_gap b.blanks b.comment _ hb.1 hs1'
      (fun x hx => ⟨hb.2 x hx, lineEnd_newline _ _⟩) (lineEnd_newline _ _).tail f (by omega)
    obtain ⟨acc', h1, h2⟩ := nl_rep hBf hst bs _ [[], []] f (fun x hx => hwf x (by simp [hx])) hs3 (by omega)
    rw [matchE.eq_8, nl_ok crlf hs f (by omega)]
    simp only
    rw [hsk, nl_ok b.crlf hs2 f (by omega)]
    simp only
    rw [h1]
    simp [h2]

/-! ### separators -/

theorem sep_semi {q : Nat} {t : List Nat} (hs : Suf text q (59 :: t)) :
    Ev (envOf text) 20 sepE .nonAtomic false q (some (q + 1, [])) := by
  have h := sep_ok
  simp only [Bool.and_eq_true] at h
  simpa using Ev.of_window (hs.agree (s1 := [59]) (s2 := t) (cs := [single 59]) (closed := false)
    ⟨single_mem 59, trivial⟩ (fun h => by cases h)) (resIs_eq h.1.1)

theorem sep_eof {q : Nat} (hs : Suf text q []) : Ev (envOf text) 20 sepE .nonAtomic false q none := by
  have h := sep_ok
  simp only [Bool.and_eq_true] at h
  simpa using Ev.of_window (hs.agree (s1 := []) (s2 := []) (cs := []) (closed := true) trivial (fun _ => rfl))
    (resFail_eq h.1.2)

theorem stmt_eof {q : Nat} (hs : Suf text q []) : Ev (envOf text) D (.ref 2) .nonAtomic false q none := by
  have h := sep_ok
  simp only [Bool.and_eq_true] at h
  simpa using Ev.of_window (hs.agree (s1 := []) (s2 := []) (cs := []) (closed := true) trivial (fun _ => rfl))
    (resFail_eq h.2)

theorem lineE_eq : lineE = .seq (.ref 2) sepE := rfl

/-! ### one statement with its terminator -/

/-- a statement that is terminated (by `;` or a line end), followed by the blanks `Bn` that lead to
the next statement `s` (or to the end of input) -/
theorem item_closed {i : Disasm.Instr} {tm : Term} {Bn s : List Nat} {S : Nat} (hv : Valid i) (htm : tm.WF)
    (hcl : tm.isOpen = false) (hBn : IsBlanks Bn) (hst : SStart s)
    (hs : Suf text S (stmtText i ++ (tm.text ++ (Bn ++ s)))) :
    ∃ P2 B2 g, Ev (envOf text) (2 * text.length + 300) lineE .nonAtomic false S (some (P2, [pairG S g i])) ∧
      IsBlanks B2 ∧ Suf text P2 (B2 ++ s) ∧ S < P2 := by
  cases tm with
  | open_ t c => cases hcl
  | semi b a =>
    obtain ⟨hb, ha⟩ := htm
    have hs' : Suf text S (stmtText i ++ (b ++ commentText none ++ (59 :: (a ++ Bn ++ s)))) := by
      simpa [Term.text, commentText, List.append_assoc] using hs
    have hlen := hs'.len
    simp only [List.length_append, List.length_cons] at hlen
    have hg : Gap b none (59 :: (a ++ Bn ++ s)) := ⟨hb, (fun x h => by cases h), .semi _⟩
    obtain ⟨e, h1, h2⟩ := stmt_ok hv hs' hg
    have hs2 : Suf text (S + (stmtText i).length + b.length + (commentText none).length)
        (59 :: (a ++ Bn ++ s)) := by
      have := Suf.app (a := b ++ commentText none) (hs'.app)
      simpa [Nat.add_assoc] using this
    have hs3 : Suf text (S + (stmtText i).length + b.length + (commentText none).length + 1)
        ((a ++ Bn) ++ s) := by simpa using hs2.tail
    refine ⟨_, a ++ Bn, b.length + (commentText none).length, ?_, ha.append hBn, hs3, by omega⟩
    rw [lineE_eq]
    exact (Ev.seq (d := 2 * text.length + 280) h1 h2 (sep_semi hs2)
      (by simp only [commentText, List.length_nil]; omega)
      (by simp only [commentText, List.length_nil]; omega)).mono (by omega)
  | line t c crlf more =>
    obtain ⟨ht, hc, hmore⟩ := htm
    have hs' : Suf text S (stmtText i ++ (t ++ commentText c ++
        (newline crlf ++ (more.flatMap BlankLine.text ++ (Bn ++ s))))) := by
      simpa [Term.text, List.append_assoc] using hs
    have hlen := hs'.len
    simp only [List.length_append] at hlen
    have hg : Gap t c (newline crlf ++ (more.flatMap BlankLine.text ++ (Bn ++ s))) :=
      ⟨ht, fun x hx => ⟨hc x hx, lineEnd_newline _ _⟩, (lineEnd_newline _ _).stail⟩
    obtain ⟨e, h1, h2⟩ := stmt_ok hv hs' hg
    have hs2 : Suf text (S + (stmtText i).length + t.length + (commentText c).length)
        (newline crlf ++ (more.flatMap BlankLine.text ++ (Bn ++ s))) := by
      have := Suf.app (a := t ++ commentText c) (hs'.app)
      simpa [Nat.add_assoc] using this
    obtain ⟨P2, B2, h3, hB2, hs3, hlt⟩ := plus_ok hBn hst crlf more hmore hs2
    refine ⟨P2, B2, t.length + (commentText c).length, ?_, hB2, hs3, by omega⟩
    rw [lineE_eq]
    exact (Ev.seq (d := 2 * text.length + 280) h1 h2 (Ev.alt_l (d := 2 * text.length + 210) (b := .str [59]) h3)
      (by omega) (by omega)).mono (by omega)

/-- the unterminated last statement: `stmt ~ (NEWLINE+ | ";")` fails, `stmt` alone matches, and the
implicit whitespace after it reaches the end of input -/
theorem item_open {i : Disasm.Instr} {t : List Nat} {c : Option (List Nat)} {S : Nat} (hv : Valid i)
    (ht : IsBlanks t) (hc : ∀ x, c = some x → IsCommentBody x)
    (hs : Suf text S (stmtText i ++ (t ++ commentText c))) :
    Ev (envOf text) (2 * text.length + 300) lineE .nonAtomic false S none ∧
    ∃ e g, Ev (envOf text) (2 * text.length + 300) (.ref 2) .nonAtomic false S (some (e, [pairG S g i])) ∧
      Sk (envOf text) (2 * text.length + 300) .nonAtomic e text.length := by
  have hs' : Suf text S (stmtText i ++ (t ++ commentText c ++ [])) := by simpa using hs
  have hlen := hs'.len
  simp only [List.length_append, List.length_nil] at hlen
  have hg : Gap t c [] := ⟨ht, fun x hx => ⟨hc x hx, .eof⟩, .eof⟩
  obtain ⟨e, h1, h2⟩ := stmt_ok hv hs' hg
  have hs2 : Suf text (S + (stmtText i).length + t.length + (commentText c).length) [] := by
    have := Suf.app (a := t ++ commentText c) (hs'.app)
    simpa [Nat.add_assoc] using this
  have hN : S + (stmtText i).length + t.length + (commentText c).length = text.length := by
    have := hs2.len; simpa using this
  refine ⟨?_, e, t.length + (commentText c).length, h1.mono (by omega), ?_⟩
  · rw [lineE_eq]
    exact (Ev.seq_fail2 (d := 2 * text.length + 280) h1 h2 (sep_eof hs2) (by omega) (by omega)).mono (by omega)
  · rw [← hN]; exact h2.mono (by omega)

/-! ### the statements of a decorated text -/

def body (xs : List Item) : List Nat := xs.flatMap Item.text

def leadOf : List Item → List Nat
  | [] => []
  | x :: _ => x.lead

/-- the text of the statements without the blanks before the first one -/
def core : List Item → List Nat
  | [] => []
  | x :: xs => stmtText x.ins ++ (x.term.text ++ body xs)

theorem body_eq (xs : List Item) : body xs = leadOf xs ++ core xs := by
  cases xs with
  | nil => rfl
  | cons x xs => simp [body, leadOf, core, Item.text, List.append_assoc]

theorem core_cons (x : Item) (xs : List Item) :
    core (x :: xs) = stmtText x.ins ++ (x.term.text ++ (leadOf xs ++ core xs)) := by
  show stmtText x.ins ++ (x.term.text ++ body xs) = _
  rw [body_eq]

def ItemOK (x : Item) : Prop := IsBlanks x.lead ∧ Valid x.ins ∧ x.term.WF

theorem leadOf_blanks {xs : List Item} (h : ∀ x ∈ xs, ItemOK x) : IsBlanks (leadOf xs) := by
  cases xs with
  | nil => exact IsBlanks.nil
  | cons x xs => exact (h x (by simp)).1

theorem core_start {xs : List Item} (h : ∀ x ∈ xs, ItemOK x) : SStart (core xs) := by
  cases xs with
  | nil => exact .eof
  | cons x xs =>
    have hv := (h x (by simp)).2.1
    obtain ⟨c, m, hm, h1, h2⟩ := (rowFacts hv).head
    have : core (x :: xs) = c :: (m ++ (if (rowI x.ins).extra = 0 then [] else [32, 48, 120] ++ hexOf x.ins.imm) ++
        (x.term.text ++ body xs)) := by
      simp [core, stmtText_eq hv, hm]
    rw [this]
    exact .letter c _ ⟨(97, 122), by simp [letterCls], h1, h2⟩

/-- the pairs of the statements sit on the statements' texts -/
inductive Goods (text : List Nat) : List Pair → List Item → Prop
  | nil : Goods text [] []
  | cons {p : Pair} {x : Item} {ps : List Pair} {xs : List Item}
      (h : ∃ pre post g, text = pre ++ stmtText x.ins ++ post ∧ p = pairG pre.length g x.ins)
      (t : Goods text ps xs) : Goods text (p :: ps) (x :: xs)

theorem Goods.append {ps1 ps2 : List Pair} {xs1 xs2 : List Item} (h1 : Goods text ps1 xs1)
    (h2 : Goods text ps2 xs2) : Goods text (ps1 ++ ps2) (xs1 ++ xs2) := by
  induction h1 with
  | nil => exact h2
  | cons h _ ih => exact .cons h ih

theorem good_of_suf {S g : Nat} {i : Disasm.Instr} {rest : List Nat} (hs : Suf text S (stmtText i ++ rest)) :
    ∃ pre post g', text = pre ++ stmtText i ++ post ∧ pairG S g i = pairG pre.length g' i := by
  obtain ⟨pre, h1, h2⟩ := hs
  exact ⟨pre, rest, g, by rw [h1, List.append_assoc], by rw [h2]⟩

/-- the statement loop, from any position in the blanks before a statement: it runs over the
terminated statements `cs` and stops (restoring the position) before what is left, `os` -/
theorem main_rep (os : List Item) (hos : ∀ x ∈ os, ItemOK x)
    (hstop : ∀ Q, Suf text Q (core os) → Ev (envOf text) (2 * text.length + 300) lineE .nonAtomic false Q none) :
    ∀ (cs : List Item) (P : Nat) (B : List Nat) (acc : List (List Pair)) (f : Nat),
    (∀ x ∈ cs, ItemOK x ∧ x.term.isOpen = false) → IsBlanks B → Suf text P (B ++ core (cs ++ os)) →
    3 * text.length + 400 ≤ f + P →
    ∃ P' B' acc' ps, rep (envOf text) f lineE .nonAtomic false P acc = (P', acc') ∧ IsBlanks B' ∧
      Suf text P' (B' ++ core os) ∧ acc'.reverse.flatten = acc.reverse.flatten ++ ps ∧ Goods text ps cs
  | [], P, B, acc, f, _, hB, hs, hf => by
    have hs : Suf text P (B ++ commentText none ++ core os) := by simpa [commentText] using hs
    have hlen := hs.len
    simp only [List.length_append, commentText, List.length_nil] at hlen
    obtain ⟨f, rfl⟩ : ∃ f', f = f' + 1 := ⟨f - 1, by omega⟩
    have hsk := skip_gap B none P hB hs (fun b h => by cases h) (core_start hos).tail f
      (by simp only [commentText, List.length_nil]; omega)
    have hs2 : Suf text (P + B.length + (commentText none).length) (core os) := by
      have := Suf.app (a := B ++ commentText none) hs
      simpa [Nat.add_assoc] using this
    refine ⟨P, B, acc, [], ?_, hB, by simpa [commentText] using hs, by simp, .nil⟩
    rw [rep.eq_2, hsk, hstop _ hs2 f (by omega)]
  | x :: cs, P, B, acc, f, hcs, hB, hs, hf => by
    have hx := hcs x (by simp)
    have hall : ∀ y ∈ cs ++ os, ItemOK y := by
      intro y hy
      rcases List.mem_append.mp hy with h | h
      · exact (hcs y (by simp [h])).1
      · exact hos y h
    have hall' : ∀ y ∈ (x :: cs) ++ os, ItemOK y := by
      intro y hy
      rcases (by simpa using hy : y = x ∨ y ∈ cs ∨ y ∈ os) with h | h
      · rw [h]; exact hx.1
      · exact hall y (by simpa using h)
    have hs0 : Suf text P (B ++ commentText none ++ core (x :: cs ++ os)) := by simpa [commentText] using hs
    have hlen := hs0.len
    simp only [List.length_append, commentText, List.length_nil] at hlen
    obtain ⟨f, rfl⟩ : ∃ f', f = f' + 1 := ⟨f - 1, by omega⟩
    have hsk := skip_gap B none P hB hs0 (fun b h => by cases h) (core_start hall').tail f
      (by simp only [commentText, List.length_nil]; omega)
    simp only [commentText, List.length_nil, Nat.add_zero] at hsk
    have hs2 : Suf text (P + B.length) (stmtText x.ins ++ (x.term.text ++ (leadOf (cs ++ os) ++ core (cs ++ os)))) := by
      have := Suf.app (a := B) hs
      rwa [List.cons_append, core_cons] at this
    obtain ⟨P2, B2, g, h1, hB2, hs3, hlt⟩ := item_closed hx.1.2.1 hx.1.2.2 hx.2 (leadOf_blanks hall)
      (core_start hall) hs2
    obtain ⟨P', B', acc', ps, h2, hB', hs4, h3, h4⟩ :=
      main_rep os hos hstop cs P2 B2 ([pairG (P + B.length) g x.ins] :: acc) f
        (fun y hy => hcs y (by simp [hy])) hB2 hs3 (by omega)
    refine ⟨P', B', acc', pairG (P + B.length) g x.ins :: ps, ?_, hB', hs4, by simp [h3],
      .cons (good_of_suf hs2) h4⟩
    rw [rep.eq_2, hsk, h1 f (by omega)]
    have hne : ¬ (P2 = P) := by omega
    simp only [hne, if_false]
    exact h2

/-- `(stmt ~ (NEWLINE+ | ";"))*` from the start of the first statement -/
theorem main_star (os : List Item) (hos : ∀ x ∈ os, ItemOK x)
    (hstop : ∀ Q, Suf text Q (core os) → Ev (envOf text) (2 * text.length + 300) lineE .nonAtomic false Q none)
    (cs : List Item) (S0 : Nat) (hcs : ∀ x ∈ cs, ItemOK x ∧ x.term.isOpen = false)
    (hs : Suf text S0 (core (cs ++ os))) (f : Nat) (hf : 3 * text.length + 500 ≤ f) :
    ∃ P' B' ps, matchE (envOf text) f (.star lineE) .nonAtomic false S0 = some (P', ps) ∧ IsBlanks B' ∧
      Suf text P' (B' ++ core os) ∧ Goods text ps cs := by
  obtain ⟨f, rfl⟩ : ∃ f', f = f' + 1 := ⟨f - 1, by omega⟩
  cases cs with
  | nil =>
    refine ⟨S0, [], [], ?_, IsBlanks.nil, by simpa using hs, .nil⟩
    rw [matchE.eq_7, hstop S0 (by simpa using hs) f (by omega)]
  | cons x cs =>
    have hx := hcs x (by simp)
    have hall : ∀ y ∈ cs ++ os, ItemOK y := by
      intro y hy
      rcases List.mem_append.mp hy with h | h
      · exact (hcs y (by simp [h])).1
      · exact hos y h
    have hs2 : Suf text S0 (stmtText x.ins ++ (x.term.text ++ (leadOf (cs ++ os) ++ core (cs ++ os)))) := by
      rwa [List.cons_append, core_cons] at hs
    obtain ⟨P2, B2, g, h1, hB2, hs3, hlt⟩ := item_closed hx.1.2.1 hx.1.2.2 hx.2 (leadOf_blanks hall)
      (core_start hall) hs2
    obtain ⟨P', B', acc', ps, h2, hB', hs4, h3, h4⟩ :=
      main_rep os hos hstop cs P2 B2 [[pairG S0 g x.ins]] f
        (fun y hy => hcs y (by simp [hy])) hB2 hs3 (by omega)
    refine ⟨P', B', pairG S0 g x.ins :: ps, ?_, hB', hs4, .cons (good_of_suf hs2) h4⟩
    rw [matchE.eq_7, h1 f (by omega)]
    simp only
    rw [h2]
    simp [h3]

end Layout
end Asm
end EtkVerif
