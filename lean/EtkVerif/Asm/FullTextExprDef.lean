/-
Expression-macro definitions `%def name(params) NEWLINE expression NEWLINE %end` as
top-level statements: the rule `stmt` on the real pest interpreter and the walk of
`parse_asm` on the pair.
-/
import EtkVerif.Asm.FullTextDecl
namespace EtkVerif
namespace Asm
namespace FullText
open Pest Listing ExprText
open Layout (Suf Gap commentText newline)

variable {text : List Nat}

/-! ### the rules met on the way -/

def xdefBody10 : PE :=
  .seq (.seq (.seq (.seq (.str [37, 109, 97, 99, 114, 111]) (.ref 30)) (.star (.ref 1003)))
    (.star (.seq (.ref 11) (.plus (.ref 1003))))) (.str [37, 101, 110, 100])
def xdefBody25 : PE :=
  .seq (.seq (.seq (.seq (.seq (.str [37, 100, 101, 102]) (.ref 30)) (.ref 1003)) (.ref 41)) (.ref 1003))
    (.str [37, 101, 110, 100])
def xdefAlts : PE := .alt (.alt (.ref 10) (.ref 13)) (.ref 25)

theorem xdef_gr10 (text : List Nat) : (envOf text).g[10]? =
    some ⟨10, [105, 110, 115, 116, 114, 117, 99, 116, 105, 111, 110, 95, 109, 97, 99, 114, 111, 95, 100, 101, 102, 105, 110, 105, 116, 105, 111, 110],
      .normal, xdefBody10⟩ := rfl
theorem xdef_gr13 (text : List Nat) : (envOf text).g[13]? =
    some ⟨13, [105, 110, 115, 116, 114, 117, 99, 116, 105, 111, 110, 95, 109, 97, 99, 114, 111], .nonatomic,
      (.seq (.str [37]) (.ref 31))⟩ := rfl
theorem xdef_gr14 (text : List Nat) : (envOf text).g[14]? =
    some ⟨14, [108, 111, 99, 97, 108, 95, 109, 97, 99, 114, 111], .normal,
      (.seq (.neg (.ref 15)) xdefAlts)⟩ := rfl
theorem xdef_gr25 (text : List Nat) : (envOf text).g[25]? =
    some ⟨25, [101, 120, 112, 114, 101, 115, 115, 105, 111, 110, 95, 109, 97, 99, 114, 111, 95, 100, 101, 102, 105, 110, 105, 116, 105, 111, 110],
      .nonatomic, xdefBody25⟩ := rfl

/-- a failing look-ahead body makes `!a` succeed without consuming anything -/
theorem xdef_neg {env : Env} {d d1 : Nat} {a : PE} {at_ : Atom} {la : Bool} {p : Nat}
    (ha : Ev env d1 a at_ true p none) (h1 : d1 ≤ d := by omega) :
    Ev env (d + 1) (.neg a) at_ la p (some (p, [])) := by
  intro f hf
  obtain ⟨f, rfl⟩ : ∃ f', f = f' + 1 := ⟨f - 1, by omega⟩
  rw [matchE.eq_9, ha f (by omega)]

/-! ### first characters -/

theorem xdef_fn_facts {c : Nat} (h : isFn c = true) : NonBlank c ∧ c ≠ 40 := by
  simp only [isFn, isAl, Bool.or_eq_true, Bool.and_eq_true, decide_eq_true_eq, beq_iff_eq] at h
  refine ⟨⟨?_, ?_, ?_⟩, ?_⟩ <;> omega

theorem xdef_decl_head (d : Decl) (h : d.WF) : ∃ c t, d.render = c :: t ∧ isFn c = true := by
  obtain ⟨c, run, hn, hc, _⟩ := isFnName_split h.1
  refine ⟨c, run ++ (d.g1 ++ 40 :: (declInner d.params ++ [41])), ?_, hc⟩
  rw [decl_render_eq, hn]; rfl

theorem xdef_nl_head (crlf : Bool) (t : List Nat) :
    ∃ c t', newline crlf ++ t = c :: t' ∧ NonBlank c ∧ (c = 10 ∨ c = 13) := by
  cases crlf
  · exact ⟨10, t, rfl, by simp [NonBlank], Or.inl rfl⟩
  · exact ⟨13, 10 :: t, rfl, by simp [NonBlank], Or.inr rfl⟩

/-! ### the alternatives that fail on `%def` -/

/-- `builtin` fails on `%def…`, inside a look-ahead or not -/
theorem xdef_f15 {S : Nat} {Z : List Nat} (la : Bool) (hs0 : Suf text S (37 :: 100 :: 101 :: 102 :: Z)) :
    Ev (envOf text) 12 (.ref 15) .nonAtomic la S none := by
  have hs1 : Suf text (S + 1) (100 :: 101 :: 102 :: Z) := hs0.tail
  have h37 : Ev (envOf text) 1 (.str [37]) .compound la S (some (S + 1, [])) :=
    ev_str_ok (pat := [37]) (s := 100 :: 101 :: 102 :: Z) hs0
  have f16 : Ev (envOf text) 4 (.ref 16) .compound la (S + 1) none :=
    evr (gr16 text) (by omega) (Ev.seq_fail1 (ev_str_fail hs1 (by simp [List.isPrefixOf])) (d := 1))
  have f17 : Ev (envOf text) 4 (.ref 17) .compound la (S + 1) none :=
    evr (gr17 text) (by omega) (Ev.seq_fail1 (ev_str_fail hs1 (by simp [List.isPrefixOf])) (d := 1))
  have f18 : Ev (envOf text) 4 (.ref 18) .compound la (S + 1) none :=
    evr (gr18 text) (by omega) (Ev.seq_fail1 (ev_str_fail hs1 (by simp [List.isPrefixOf])) (d := 1))
  have f19 : Ev (envOf text) 4 (.ref 19) .compound la (S + 1) none :=
    evr (gr19 text) (by omega) (Ev.seq_fail1 (ev_str_fail hs1 (by simp [List.isPrefixOf])) (d := 1))
  exact (evr (gr15 text) (by omega)
    (Ev.seq_fail2 h37 (sk_comp _) (Ev.alt_r (Ev.alt_r (Ev.alt_r f16 f17 (d := 4)) f18 (d := 5)) f19 (d := 6))
      (d := 7)) (d := 8) (at_ := .nonAtomic)).mono (by omega)

/-- `instruction_macro_definition` fails on `%def…` -/
theorem xdef_f10 {S : Nat} {Z : List Nat} (hs0 : Suf text S (37 :: 100 :: 101 :: 102 :: Z)) :
    Ev (envOf text) 8 (.ref 10) .nonAtomic false S none := by
  have h : Ev (envOf text) 1 (.str [37, 109, 97, 99, 114, 111]) .nonAtomic false S none :=
    ev_str_fail hs0 (by simp [List.isPrefixOf])
  exact (evr (xdef_gr10 text) (by omega)
    (Ev.seq_fail1 (Ev.seq_fail1 (Ev.seq_fail1 (Ev.seq_fail1 h (d := 1) (b := .ref 30)) (d := 2)
      (b := .star (.ref 1003))) (d := 3) (b := .star (.seq (.ref 11) (.plus (.ref 1003))))) (d := 4)
      (b := .str [37, 101, 110, 100])) (d := 5) (at_ := .nonAtomic)).mono (by omega)

/-- `instruction_macro` fails on `%def` followed by at least one blank and a declaration: the
invocation name is `def`, and no `(` follows the blanks -/
theorem xdef_f13 {S c : Nat} {g0 t : List Nat} (hg0 : ExprText.IsBlanks g0) (hlen : 1 ≤ g0.length)
    (hc : isFn c = true) (hs0 : Suf text S (37 :: 100 :: ([101, 102] ++ (g0 ++ c :: t)))) :
    Ev (envOf text) (g0.length + 60) (.ref 13) .nonAtomic false S none := by
  have hs1 : Suf text (S + 1) (100 :: ([101, 102] ++ (g0 ++ c :: t))) := hs0.tail
  have h37 : Ev (envOf text) 1 (.str [37]) .nonAtomic false S (some (S + 1, [])) :=
    ev_str_ok (pat := [37]) (s := 100 :: ([101, 102] ++ (g0 ++ c :: t))) hs0
  have hsk1 : Sk (envOf text) 30 .nonAtomic (S + 1) (S + 1) := skip_none hs1 (by simp [NonBlank])
  have hstop : headIs isLb (g0 ++ c :: t) = false := by
    cases g0 with
    | nil => simp at hlen
    | cons b g => rcases hg0 b (by simp) with h | h <;> subst h <;> rfl
  have h32 : Ev (envOf text) 11 (.ref 32) .nonAtomic false (S + 1)
      (some (S + 1 + 1 + 2, [.mk 32 (S + 1) (S + 1 + 1 + 2) []])) :=
    decl_ev32_ok hs1 (by decide) (by intro x hx; simp at hx; rcases hx with h | h <;> subst h <;> decide) hstop
  have hs4 : Suf text (S + 1 + 1 + 2) (g0 ++ c :: t) := hs1.tail.app
  have hskg := skip_blanks g0 hg0 hs4 (xdef_fn_facts hc).1
  have h40 : Ev (envOf text) 1 (.str [40]) .nonAtomic false (S + 1 + 1 + 2 + g0.length) none :=
    ev_str_fail hs4.app (by
      have : (40 : Nat) ≠ c := fun h => (xdef_fn_facts hc).2 h.symm
      simp [List.isPrefixOf, this])
  have h1 := Ev.seq_fail2 h32 hskg h40 (d := g0.length + 40)
  have h31 := evr (gr31 text) (by omega)
    (Ev.seq_fail1 (Ev.seq_fail1 h1 (d := g0.length + 41)
      (b := .opt (.seq (.ref 41) (.star (.seq (.str [44]) (.ref 41))))))
      (d := g0.length + 43) (b := .str [41])) (d := g0.length + 44) (at_ := .nonAtomic)
  exact (evr (xdef_gr13 text) (by omega) (Ev.seq_fail2 h37 hsk1 h31 (d := g0.length + 46))
    (d := g0.length + 47) (at_ := .nonAtomic)).mono (by omega)

/-! ### the statement -/

theorem fact_exprDef (hS : ∀ s : XSeq, s.WF → SeqFact text s) (hW : ∀ s : XSeq, s.WF → SeqWalk text s)
    (g0 : List Nat) (d : Decl) (t1 : List Nat) (crlf1 : Bool) (l2 : List Nat) (s : XSeq) (t2 : List Nat) (crlf2 : Bool)
    (l3 : List Nat) (h : (Stmt.exprDef g0 d t1 crlf1 l2 s t2 crlf2 l3).WF) :
    StmtFact text (.exprDef g0 d t1 crlf1 l2 s t2 crlf2 l3) := by
  intro S B c sfx hs hg
  obtain ⟨hg0len, hg0, hd, ht1, hl2, hsq, ht2, hl3⟩ := h
  obtain ⟨hG, hC⟩ := ProgText.gap_gapG hg
  obtain ⟨X, hX⟩ : ∃ X, X = B ++ commentText c ++ sfx := ⟨_, rfl⟩
  rw [← hX] at hs
  have hsA : Suf text S ([37, 100, 101, 102] ++ (g0 ++ (d.render ++ (t1 ++ (newline crlf1 ++ (l2 ++ (s.render ++ (t2 ++ (newline crlf2 ++ (l3 ++ ([37, 101, 110, 100] ++ X))))))))))) := by
    have := hs
    simp only [Stmt.text, List.append_assoc] at this
    exact this
  have hs0 : Suf text S (37 :: 100 :: 101 :: 102 :: (g0 ++ (d.render ++ (t1 ++ (newline crlf1 ++ (l2 ++ (s.render ++ (t2 ++ (newline crlf2 ++ (l3 ++ ([37, 101, 110, 100] ++ X))))))))))) := hsA
  obtain ⟨c0, dt, hdr, hc0⟩ := xdef_decl_head d hd
  have hsP0 : Suf text (S + 4) (g0 ++ (d.render ++ (t1 ++ (newline crlf1 ++ (l2 ++ (s.render ++ (t2 ++ (newline crlf2 ++ (l3 ++ ([37, 101, 110, 100] ++ X)))))))))) := hsA.app
  have hsP1 : Suf text (S + 4 + g0.length) (d.render ++ (t1 ++ (newline crlf1 ++ (l2 ++ (s.render ++ (t2 ++ (newline crlf2 ++ (l3 ++ ([37, 101, 110, 100] ++ X))))))))) := hsP0.app
  have hsP2 : Suf text (S + 4 + g0.length + d.render.length) (t1 ++ (newline crlf1 ++ (l2 ++ (s.render ++ (t2 ++ (newline crlf2 ++ (l3 ++ ([37, 101, 110, 100] ++ X)))))))) := hsP1.app
  have hsP3 : Suf text (S + 4 + g0.length + d.render.length + t1.length) (newline crlf1 ++ (l2 ++ (s.render ++ (t2 ++ (newline crlf2 ++ (l3 ++ ([37, 101, 110, 100] ++ X))))))) := hsP2.app
  have hsP4 : Suf text (S + 4 + g0.length + d.render.length + t1.length + (newline crlf1).length) (l2 ++ (s.render ++ (t2 ++ (newline crlf2 ++ (l3 ++ ([37, 101, 110, 100] ++ X)))))) := hsP3.app
  have hsP5 : Suf text (S + 4 + g0.length + d.render.length + t1.length + (newline crlf1).length + l2.length) (s.render ++ (t2 ++ (newline crlf2 ++ (l3 ++ ([37, 101, 110, 100] ++ X))))) := hsP4.app
  have hsP6 : Suf text (S + 4 + g0.length + d.render.length + t1.length + (newline crlf1).length + l2.length + s.render.length + t2.length) (newline crlf2 ++ (l3 ++ ([37, 101, 110, 100] ++ X))) := hsP5.app.app
  have hsP7 : Suf text (S + 4 + g0.length + d.render.length + t1.length + (newline crlf1).length + l2.length + s.render.length + t2.length + (newline crlf2).length) (l3 ++ ([37, 101, 110, 100] ++ X)) := hsP6.app
  have hsP8 : Suf text (S + 4 + g0.length + d.render.length + t1.length + (newline crlf1).length + l2.length + s.render.length + t2.length + (newline crlf2).length + l3.length) ([37, 101, 110, 100] ++ X) := hsP7.app
  have hsE : Suf text (S + 4 + g0.length + d.render.length + t1.length + (newline crlf1).length + l2.length + s.render.length + t2.length + (newline crlf2).length + l3.length + 4) ((B ++ commentText c) ++ sfx) := by
    rw [← hX]; exact hsP8.app
  have hdl : 1 ≤ d.render.length := by rw [hdr]; simp
  have hlenE := hsE.len
  have hlen5 := hsP5.len
  simp only [List.length_append] at hlenE hlen5
  have hnlp1 := Layout.newline_pos crlf1
  have hnlp2 := Layout.newline_pos crlf2
  -- the alternatives that fail
  have f15 := xdef_f15 false hs0
  have f15la := xdef_f15 true hs0
  have f10 := xdef_f10 hs0
  have f13 : Ev (envOf text) (g0.length + 60) (.ref 13) .nonAtomic false S none :=
    xdef_f13 (t := dt ++ (t1 ++ (newline crlf1 ++ (l2 ++ (s.render ++ (t2 ++ (newline crlf2 ++ (l3 ++ ([37, 101, 110, 100] ++ X))))))))) hg0 hg0len hc0 (by rw [hdr] at hsA; exact hsA)
  have hw := top_win
  simp only [Bool.and_eq_true] at hw
  have hA0 := hs0.agree (s1 := [37]) (cs := [single 37]) (closed := false) ⟨single_mem 37, trivial⟩
    (fun h => by cases h)
  have f40 : Ev (envOf text) 30 (.ref 40) .nonAtomic false S none := by
    simpa using Ev.of_window hA0 (resFail_eq hw.1.1)
  -- `%def`, the declaration
  have hdef : Ev (envOf text) 1 (.str [37, 100, 101, 102]) .nonAtomic false S (some (S + 4, [])) :=
    ev_str_ok (pat := [37, 100, 101, 102]) (s := (g0 ++ (d.render ++ (t1 ++ (newline crlf1 ++ (l2 ++ (s.render ++ (t2 ++ (newline crlf2 ++ (l3 ++ ([37, 101, 110, 100] ++ X))))))))))) hsA
  have hskg0 : Sk (envOf text) (g0.length + 30) .nonAtomic (S + 4) (S + 4 + g0.length) :=
    skip_blanks g0 hg0 (by rw [hdr] at hsP0; exact hsP0 : Suf text (S + 4) (g0 ++ c0 :: (dt ++ (t1 ++ (newline crlf1 ++ (l2 ++ (s.render ++ (t2 ++ (newline crlf2 ++ (l3 ++ ([37, 101, 110, 100] ++ X)))))))))))
      (xdef_fn_facts hc0).1
  obtain ⟨h30, htn, htp⟩ := decl_fact d hd (S + 4 + g0.length) (t1 ++ (newline crlf1 ++ (l2 ++ (s.render ++ (t2 ++ (newline crlf2 ++ (l3 ++ ([37, 101, 110, 100] ++ X)))))))) hsP1
  -- the first line end
  obtain ⟨n1, nt1, hn1, hn1b, _⟩ := xdef_nl_head crlf1 (l2 ++ (s.render ++ (t2 ++ (newline crlf2 ++ (l3 ++ ([37, 101, 110, 100] ++ X))))))
  have hskt1 : Sk (envOf text) (t1.length + 30) .nonAtomic (S + 4 + g0.length + d.render.length) (S + 4 + g0.length + d.render.length + t1.length) :=
    skip_blanks t1 ht1 (by rw [← hn1]; exact hsP2) hn1b
  have hnl1 := Layout.nl_ok crlf1 hsP3
  -- the expression
  obtain ⟨c1, sr, hsr, hc1⟩ := xseq_start s hsq
  have hskl2 : Sk (envOf text) (l2.length + 30) .nonAtomic (S + 4 + g0.length + d.render.length + t1.length + (newline crlf1).length) (S + 4 + g0.length + d.render.length + t1.length + (newline crlf1).length + l2.length) :=
    skip_blanks l2 hl2 (by rw [hsr] at hsP4; exact hsP4 : Suf text (S + 4 + g0.length + d.render.length + t1.length + (newline crlf1).length) (l2 ++ c1 :: (sr ++ (t2 ++ (newline crlf2 ++ (l3 ++ ([37, 101, 110, 100] ++ X)))))))
      (xstartC_nonBlank hc1)
  obtain ⟨n2, nt2, hn2, hn2b, hn2c⟩ := xdef_nl_head crlf2 (l3 ++ ([37, 101, 110, 100] ++ X))
  have hGap : GapG t2 (newline crlf2 ++ (l3 ++ ([37, 101, 110, 100] ++ X))) := by rw [hn2]; exact gapG_blanks ht2 hn2b
  have hClose : XCloseC (newline crlf2 ++ (l3 ++ ([37, 101, 110, 100] ++ X))) := by
    rw [hn2]
    intro d' t' hd'
    injection hd' with h1 _
    subst h1
    rcases hn2c with h | h
    · exact Or.inr (Or.inr (Or.inl h))
    · exact Or.inr (Or.inr (Or.inr (Or.inl h)))
  obtain ⟨h41, hsk41⟩ := hS s hsq (S + 4 + g0.length + d.render.length + t1.length + (newline crlf1).length + l2.length) t2 (newline crlf2 ++ (l3 ++ ([37, 101, 110, 100] ++ X))) hGap hClose hsP5
  generalize hA : xseqPair (S + 4 + g0.length + d.render.length + t1.length + (newline crlf1).length + l2.length) s t2.length = A at h41
  generalize xseqEnd (S + 4 + g0.length + d.render.length + t1.length + (newline crlf1).length + l2.length) s t2.length = e at h41 hsk41
  -- the second line end, `%end`
  have hnl2 := Layout.nl_ok crlf2 hsP6
  have hskl3 : Sk (envOf text) (l3.length + 30) .nonAtomic (S + 4 + g0.length + d.render.length + t1.length + (newline crlf1).length + l2.length + s.render.length + t2.length + (newline crlf2).length) (S + 4 + g0.length + d.render.length + t1.length + (newline crlf1).length + l2.length + s.render.length + t2.length + (newline crlf2).length + l3.length) :=
    skip_blanks l3 hl3 (hsP7 : Suf text (S + 4 + g0.length + d.render.length + t1.length + (newline crlf1).length + l2.length + s.render.length + t2.length + (newline crlf2).length) (l3 ++ 37 :: ([101, 110, 100] ++ X))) (by simp [NonBlank])
  have hend : Ev (envOf text) 1 (.str [37, 101, 110, 100]) .nonAtomic false (S + 4 + g0.length + d.render.length + t1.length + (newline crlf1).length + l2.length + s.render.length + t2.length + (newline crlf2).length + l3.length) (some (S + 4 + g0.length + d.render.length + t1.length + (newline crlf1).length + l2.length + s.render.length + t2.length + (newline crlf2).length + l3.length + 4, [])) :=
    ev_str_ok (pat := [37, 101, 110, 100]) (s := X) hsP8
  have hb25 := Ev.seq (Ev.seq (Ev.seq (Ev.seq (Ev.seq hdef hskg0 h30 (d := 12 * text.length + 140)) hskt1 hnl1 (d := 12 * text.length + 140 + 1))
    hskl2 h41 (d := 12 * text.length + 140 + 2)) hsk41 hnl2 (d := 12 * text.length + 140 + 3)) hskl3 hend (d := 12 * text.length + 140 + 4)
  have h25 : Ev (envOf text) (12 * text.length + 140 + 7) (.ref 25) .nonAtomic false S
      (some (S + 4 + g0.length + d.render.length + t1.length + (newline crlf1).length + l2.length + s.render.length + t2.length + (newline crlf2).length + l3.length + 4, [.mk 25 S (S + 4 + g0.length + d.render.length + t1.length + (newline crlf1).length + l2.length + s.render.length + t2.length + (newline crlf2).length + l3.length + 4) [declPair (S + 4 + g0.length) d, A]])) :=
    evr (xdef_gr25 text) (by omega) hb25 (d := 12 * text.length + 140 + 5) (at_ := .nonAtomic)
  have hsk0 : Sk (envOf text) 30 .nonAtomic S S := skip_none hs0 (by simp [NonBlank])
  have h14 : Ev (envOf text) (12 * text.length + 140 + 11) (.ref 14) .nonAtomic false S
      (some (S + 4 + g0.length + d.render.length + t1.length + (newline crlf1).length + l2.length + s.render.length + t2.length + (newline crlf2).length + l3.length + 4, [.mk 14 S (S + 4 + g0.length + d.render.length + t1.length + (newline crlf1).length + l2.length + s.render.length + t2.length + (newline crlf2).length + l3.length + 4) [.mk 25 S (S + 4 + g0.length + d.render.length + t1.length + (newline crlf1).length + l2.length + s.render.length + t2.length + (newline crlf2).length + l3.length + 4) [declPair (S + 4 + g0.length) d, A]]])) :=
    evr (xdef_gr14 text) (by omega)
      (Ev.seq (xdef_neg f15la (d := 12)) hsk0
        (Ev.alt_r (Ev.alt_r f10 f13 (d := g0.length + 60)) h25 (d := 12 * text.length + 140 + 7)) (d := 12 * text.length + 140 + 8))
      (d := 12 * text.length + 140 + 9) (at_ := .nonAtomic)
  have hstmt : Ev (envOf text) (12 * text.length + 140 + 16) (.ref 2) .nonAtomic false S
      (some (S + 4 + g0.length + d.render.length + t1.length + (newline crlf1).length + l2.length + s.render.length + t2.length + (newline crlf2).length + l3.length + 4, [.mk 14 S (S + 4 + g0.length + d.render.length + t1.length + (newline crlf1).length + l2.length + s.render.length + t2.length + (newline crlf2).length + l3.length + 4) [.mk 25 S (S + 4 + g0.length + d.render.length + t1.length + (newline crlf1).length + l2.length + s.render.length + t2.length + (newline crlf2).length + l3.length + 4) [declPair (S + 4 + g0.length) d, A]]])) :=
    Layout.ev_stmt (Ev.alt_l (Ev.alt_l (Ev.alt_r (Ev.alt_r f40 f15 (d := 30)) h14 (d := 12 * text.length + 140 + 11))
      (d := 12 * text.length + 140 + 12) (b := .ref 4)) (d := 12 * text.length + 140 + 13) (b := .ref 3)) (d := 12 * text.length + 140 + 14)
  have hsk2 := skip_gapG hG hsE
  have etl : (Stmt.exprDef g0 d t1 crlf1 l2 s t2 crlf2 l3).text.length =
      4 + g0.length + d.render.length + t1.length + (newline crlf1).length + l2.length + s.render.length + t2.length +
        (newline crlf2).length + l3.length + 4 := by
    simp only [Stmt.text, List.length_append, List.length_cons, List.length_nil]
  refine ⟨_, _, hstmt.mono (by omega), ?_, ?_, ?_⟩
  · rw [etl]
    rw [List.length_append] at hsk2
    have e2 : S + (4 + g0.length + d.render.length + t1.length + (newline crlf1).length + l2.length + s.render.length +
        t2.length + (newline crlf2).length + l3.length + 4) + B.length + (commentText c).length =
        S + 4 + g0.length + d.render.length + t1.length + (newline crlf1).length + l2.length + s.render.length + t2.length + (newline crlf2).length + l3.length + 4 + (B.length + (commentText c).length) := by omega
    rw [e2]; exact hsk2.mono (by omega)
  · simp [rule_mk, Pest.EOI]
  · intro f hf
    obtain ⟨f, rfl⟩ : ∃ f', f = f' + 1 := ⟨f - 1, by omega⟩
    have hw2 := hW s hsq (S + 4 + g0.length + d.render.length + t1.length + (newline crlf1).length + l2.length) t2.length _ f hsP5 (by omega)
    rw [hA] at hw2
    simp only [rule_mk, Gen.R_builtin, Nat.reduceEqDiff, if_false]
    rw [parseAOp]
    simp only [declPair] at *
    simp [rule_mk, kids_mk, Gen.R_local_macro, Gen.R_instruction_macro_definition, Gen.R_instruction_macro,
      Gen.R_expression_macro_definition, htn, htp, hw2, Except.map, Stmt.node]

end FullText
end Asm
end EtkVerif
