/-
The leaf terms of an operand expression (numbers in four radixes, negative decimals,
labels) through the rule `term` of the grammar, on the real pest interpreter.
-/
import EtkVerif.Asm.ExprTextBase
import EtkVerif.Asm.ExprTextPairs
namespace EtkVerif
namespace Asm
namespace ExprText
open Pest Listing
open Layout (Suf)

variable {text : List Nat} {p : Nat} {s : List Nat}

/-! ### the rules met on the way -/

theorem gr12 (text : List Nat) : (envOf text).g[12]? =
    some ⟨12, [105, 110, 115, 116, 114, 117, 99, 116, 105, 111, 110, 95, 109, 97, 99, 114, 111, 95, 118, 97, 114, 105, 97, 98, 108, 101], .atomic,
      (.seq (.str [36]) (.ref 33))⟩ := rfl
theorem gr15 (text : List Nat) : (envOf text).g[15]? =
    some ⟨15, [98, 117, 105, 108, 116, 105, 110], .compound,
      (.seq (.str [37]) (.alt (.alt (.alt (.ref 16) (.ref 17)) (.ref 18)) (.ref 19)))⟩ := rfl
theorem gr16 (text : List Nat) : (envOf text).g[16]? =
    some ⟨16, [105, 109, 112, 111, 114, 116], .nonatomic,
      (.seq (.str [105, 109, 112, 111, 114, 116]) (.ref 20))⟩ := rfl
theorem gr17 (text : List Nat) : (envOf text).g[17]? =
    some ⟨17, [105, 110, 99, 108, 117, 100, 101], .nonatomic,
      (.seq (.str [105, 110, 99, 108, 117, 100, 101]) (.ref 20))⟩ := rfl
theorem gr18 (text : List Nat) : (envOf text).g[18]? =
    some ⟨18, [105, 110, 99, 108, 117, 100, 101, 95, 104, 101, 120], .nonatomic,
      (.seq (.str [105, 110, 99, 108, 117, 100, 101, 95, 104, 101, 120]) (.ref 20))⟩ := rfl
theorem gr19 (text : List Nat) : (envOf text).g[19]? =
    some ⟨19, [112, 117, 115, 104, 95, 109, 97, 99, 114, 111], .nonatomic,
      (.seq (.str [112, 117, 115, 104]) (.ref 20))⟩ := rfl
theorem gr20 (text : List Nat) : (envOf text).g[20]? =
    some ⟨20, [97, 114, 103, 117, 109, 101, 110, 116, 115], .silent,
      (.seq (.seq (.str [40]) (.opt (.ref 21))) (.str [41]))⟩ := rfl
theorem gr21 (text : List Nat) : (envOf text).g[21]? =
    some ⟨21, [97, 114, 103, 117, 109, 101, 110, 116, 115, 95, 108, 105, 115, 116], .silent,
      (.seq (.star (.seq (.ref 22) (.str [44]))) (.opt (.ref 22)))⟩ := rfl
theorem gr22 (text : List Nat) : (envOf text).g[22]? =
    some ⟨22, [97, 114, 103, 117, 109, 101, 110, 116], .silent,
      (.alt (.ref 23) (.ref 41))⟩ := rfl
theorem gr23 (text : List Nat) : (envOf text).g[23]? =
    some ⟨23, [115, 116, 114, 105, 110, 103], .atomic,
      (.seq (.seq (.str [34]) (.star (.ref 24))) (.str [34]))⟩ := rfl
theorem gr26 (text : List Nat) : (envOf text).g[26]? =
    some ⟨26, [101, 120, 112, 114, 101, 115, 115, 105, 111, 110, 95, 109, 97, 99, 114, 111], .normal,
      (.ref 31)⟩ := rfl
theorem gr27 (text : List Nat) : (envOf text).g[27]? =
    some ⟨27, [115, 101, 108, 101, 99, 116, 111, 114], .compound,
      (.seq (.seq (.str [115, 101, 108, 101, 99, 116, 111, 114, 40, 34]) (.ref 29)) (.str [34, 41]))⟩ := rfl
theorem gr28 (text : List Nat) : (envOf text).g[28]? =
    some ⟨28, [116, 111, 112, 105, 99], .compound,
      (.seq (.seq (.str [116, 111, 112, 105, 99, 40, 34]) (.ref 29)) (.str [34, 41]))⟩ := rfl
theorem gr31 (text : List Nat) : (envOf text).g[31]? =
    some ⟨31, [102, 117, 110, 99, 116, 105, 111, 110, 95, 105, 110, 118, 111, 99, 97, 116, 105, 111, 110], .silent,
      (.seq (.seq (.seq (.ref 32) (.str [40])) (.opt (.seq (.ref 41) (.star (.seq (.str [44]) (.ref 41)))))) (.str [41]))⟩ := rfl
theorem gr32 (text : List Nat) : (envOf text).g[32]? =
    some ⟨32, [102, 117, 110, 99, 116, 105, 111, 110, 95, 110, 97, 109, 101], .atomic,
      (.seq (.alt (.ref 1008) (.str [95])) (.star (.alt (.ref 1009) (.str [95]))))⟩ := rfl
theorem gr34 (text : List Nat) : (envOf text).g[34]? =
    some ⟨34, [110, 117, 109, 98, 101, 114], .silent,
      (.alt (.alt (.alt (.ref 35) (.ref 36)) (.ref 38)) (.ref 37))⟩ := rfl
theorem gr35 (text : List Nat) : (envOf text).g[35]? =
    some ⟨35, [98, 105, 110, 97, 114, 121], .atomic,
      (.seq (.str [48, 98]) (.plus (.ref 1005)))⟩ := rfl
theorem gr36 (text : List Nat) : (envOf text).g[36]? =
    some ⟨36, [111, 99, 116, 97, 108], .atomic,
      (.seq (.str [48, 111]) (.plus (.ref 1006)))⟩ := rfl
theorem gr37 (text : List Nat) : (envOf text).g[37]? =
    some ⟨37, [100, 101, 99, 105, 109, 97, 108], .atomic,
      (.plus (.ref 1004))⟩ := rfl
theorem gr38 (text : List Nat) : (envOf text).g[38]? =
    some ⟨38, [104, 101, 120], .atomic,
      (.seq (.seq (.str [48, 120]) (.ref 1007)) (.plus (.ref 1007)))⟩ := rfl
theorem gr39 (text : List Nat) : (envOf text).g[39]? =
    some ⟨39, [108, 97, 98, 101, 108], .atomic,
      (.seq (.ref 1008) (.star (.alt (.ref 1009) (.str [95]))))⟩ := rfl
theorem gr42 (text : List Nat) : (envOf text).g[42]? =
    some ⟨42, [116, 101, 114, 109], .silent,
      (.alt (.alt (.alt (.alt (.alt (.alt (.alt (.ref 12) (.ref 27)) (.ref 28)) (.ref 26)) (.ref 39)) (.ref 34)) (.ref 43)) (.seq (.seq (.str [40]) (.ref 41)) (.str [41])))⟩ := rfl
theorem gr43 (text : List Nat) : (envOf text).g[43]? =
    some ⟨43, [110, 101, 103, 97, 116, 105, 118, 101, 95, 100, 101, 99, 105, 109, 97, 108], .atomic,
      (.seq (.str [45]) (.plus (.ref 1004)))⟩ := rfl
theorem gr44 (text : List Nat) : (envOf text).g[44]? =
    some ⟨44, [111, 112, 101, 114, 97, 116, 105, 111, 110], .silent,
      (.alt (.alt (.alt (.ref 45) (.ref 46)) (.ref 47)) (.ref 48))⟩ := rfl
theorem gr45 (text : List Nat) : (envOf text).g[45]? =
    some ⟨45, [112, 108, 117, 115], .normal,
      (.str [43])⟩ := rfl
theorem gr46 (text : List Nat) : (envOf text).g[46]? =
    some ⟨46, [109, 105, 110, 117, 115], .normal,
      (.str [45])⟩ := rfl
theorem gr47 (text : List Nat) : (envOf text).g[47]? =
    some ⟨47, [116, 105, 109, 101, 115], .normal,
      (.str [42])⟩ := rfl
theorem gr48 (text : List Nat) : (envOf text).g[48]? =
    some ⟨48, [100, 105, 118, 105, 100, 101], .normal,
      (.str [47])⟩ := rfl

theorem evr {n : Nat} {rl : Rule} {d d1 : Nat} {at_ : Atom} {la : Bool} {r : Res}
    (hg : (envOf text).g[n]? = some rl) (hn : n < 49)
    (hb : Ev (envOf text) d1 rl.body (innerAt rl.ty at_) la p r) (h1 : d1 ≤ d := by omega) :
    Ev (envOf text) (d + 2) (.ref n) at_ la p (outRes rl.ty n p la at_ r) :=
  Ev.ref (by omega) hg (by simp only [envOf]; intro h; injection h with h; omega)
    (by simp only [envOf]; intro h; injection h with h; omega) hb h1

/-! ### kernel-checked windows: alternatives failing on the first character -/

def digitCls : Cls := [(48, 57)]
def termAlt4 : PE := .alt (.alt (.alt (.alt (.ref 12) (.ref 27)) (.ref 28)) (.ref 26)) (.ref 39)
def termAlt5 : PE := .alt termAlt4 (.ref 34)
def termAlt6 : PE := .alt termAlt5 (.ref 43)
def parenE : PE := .seq (.seq (.str [40]) (.ref 41)) (.str [41])
def termBody : PE := .alt termAlt6 parenE

theorem gr42' (text : List Nat) : (envOf text).g[42]? = some ⟨42, [116, 101, 114, 109], .silent, termBody⟩ := rfl

theorem win_ok :
    (resFail (matchK (ekOf [digitCls] false) 30 termAlt4 .nonAtomic false 0) &&
     resFail (matchK (ekOf [single 45] false) 30 termAlt5 .nonAtomic false 0) &&
     resFail (matchK (ekOf [single 40] false) 30 termAlt6 .nonAtomic false 0) &&
     resFail (matchK (ekOf [single 41] false) 30 (.ref 44) .nonAtomic false 0) &&
     resIs (matchK (ekOf [single 43] false) 30 (.ref 44) .nonAtomic false 0) 1 [.mk 45 0 1 []] &&
     resIs (matchK (ekOf [single 45] false) 30 (.ref 44) .nonAtomic false 0) 1 [.mk 46 0 1 []] &&
     resIs (matchK (ekOf [single 42] false) 30 (.ref 44) .nonAtomic false 0) 1 [.mk 47 0 1 []] &&
     resIs (matchK (ekOf [single 47] false) 30 (.ref 44) .nonAtomic false 0) 1 [.mk 48 0 1 []]) = true := by
  decide +kernel

theorem win1 {c : Nat} {cl : Cls} {e : PE} (hs : Suf text p (c :: s)) (hc : cl.mem c)
    (h : resFail (matchK (ekOf [cl] false) 30 e .nonAtomic false 0) = true) :
    Ev (envOf text) 30 e .nonAtomic false p none := by
  have hA := hs.agree (s1 := [c]) (s2 := s) (cs := [cl]) (closed := false) ⟨hc, trivial⟩ (fun h => by cases h)
  simpa using Ev.of_window hA (resFail_eq h)

theorem digit_mem {c : Nat} (h : isDec c = true) : digitCls.mem c := by
  simp only [isDec, Bool.and_eq_true, decide_eq_true_eq] at h
  exact ⟨(48, 57), by simp [digitCls], h.1, h.2⟩

theorem alt4_fail_digit {c : Nat} (hs : Suf text p (c :: s)) (hc : isDec c = true) :
    Ev (envOf text) 30 termAlt4 .nonAtomic false p none := by
  have h := win_ok
  simp only [Bool.and_eq_true] at h
  exact win1 hs (digit_mem hc) h.1.1.1.1.1.1.1

theorem alt5_fail_minus (hs : Suf text p (45 :: s)) : Ev (envOf text) 30 termAlt5 .nonAtomic false p none := by
  have h := win_ok
  simp only [Bool.and_eq_true] at h
  exact win1 hs (single_mem 45) h.1.1.1.1.1.1.2

theorem alt6_fail_paren (hs : Suf text p (40 :: s)) : Ev (envOf text) 30 termAlt6 .nonAtomic false p none := by
  have h := win_ok
  simp only [Bool.and_eq_true] at h
  exact win1 hs (single_mem 40) h.1.1.1.1.1.2

theorem op_fail_close (hs : Suf text p (41 :: s)) : Ev (envOf text) 30 (.ref 44) .nonAtomic false p none := by
  have h := win_ok
  simp only [Bool.and_eq_true] at h
  exact win1 hs (single_mem 41) h.1.1.1.1.2

theorem op_ok (op : BinOp) (hs : Suf text p (opChar op :: s)) :
    Ev (envOf text) 30 (.ref 44) .nonAtomic false p (some (p + 1, [.mk (opRule op) p (p + 1) []])) := by
  have h := win_ok
  simp only [Bool.and_eq_true] at h
  have hA := hs.agree (s1 := [opChar op]) (s2 := s) (cs := [single (opChar op)]) (closed := false)
    ⟨single_mem _, trivial⟩ (fun h => by cases h)
  cases op
  · simpa [shiftL, Pair.shift, opRule] using Ev.of_window hA (resIs_eq h.1.1.1.2)
  · simpa [shiftL, Pair.shift, opRule] using Ev.of_window hA (resIs_eq h.1.1.2)
  · simpa [shiftL, Pair.shift, opRule] using Ev.of_window hA (resIs_eq h.1.2)
  · simpa [shiftL, Pair.shift, opRule] using Ev.of_window hA (resIs_eq h.2)

/-! ### what follows a term -/

def StopD (d : Nat) : Prop := d = 41 ∨ d = 43 ∨ d = 45 ∨ d = 42 ∨ d = 47
/-- characters that end a digit or label run: blanks, `#`, line ends, `;`, operators, `)` -/
def StopC (c : Nat) : Prop := c = 32 ∨ c = 9 ∨ c = 35 ∨ c = 10 ∨ c = 13 ∨ c = 59 ∨ StopD c

/-- the text that follows starts (if it is not empty) with a stop character -/
def HeadStop (post : List Nat) : Prop := ∀ e post', post = e :: post' → StopC e

/-- `G` is a run of blanks, possibly followed by a comment that runs to the line end `rest`; without
a comment, `rest` is empty or starts with neither a blank nor `#` -/
def GapG (G rest : List Nat) : Prop :=
  ∃ B c, G = B ++ Layout.commentText c ∧ IsBlanks B ∧
    (∀ b, c = some b → Layout.IsCommentBody b ∧ Layout.LineEnd rest) ∧
    (c = none → ∀ d t, rest = d :: t → NonBlank d)

/-- after the gap that follows a term: an operator, `)`, a line end, `;` or the end of input -/
def EndC (rest : List Nat) : Prop := ∀ d t, rest = d :: t → StopD d ∨ d = 10 ∨ d = 13 ∨ d = 59

/-- after the gap that follows a sequence: `)`, a line end, `;` or the end of input -/
def CloseC (rest : List Nat) : Prop := ∀ d t, rest = d :: t → d = 41 ∨ d = 10 ∨ d = 13 ∨ d = 59

/-- what follows a term: a gap, then an operator or the end of the sequence -/
def After (post : List Nat) : Prop := ∃ G rest, post = G ++ rest ∧ GapG G rest ∧ EndC rest

theorem CloseC.endC {rest : List Nat} (h : CloseC rest) : EndC rest := by
  intro d t hd
  rcases h d t hd with h | h | h | h
  · exact Or.inl (Or.inl h)
  · exact Or.inr (Or.inl h)
  · exact Or.inr (Or.inr (Or.inl h))
  · exact Or.inr (Or.inr (Or.inr h))

theorem gapG_blanks {B : List Nat} {d : Nat} {t : List Nat} (hB : IsBlanks B) (hd : NonBlank d) :
    GapG B (d :: t) := by
  refine ⟨B, none, by simp [Layout.commentText], hB, (fun b h => by cases h), ?_⟩
  intro _ d' t' h
  injection h with h1 _
  rw [← h1]; exact hd

theorem skip_gapG {G rest : List Nat} {p : Nat} (hG : GapG G rest) (hs : Suf text p (G ++ rest)) :
    Sk (envOf text) (G.length + 100) .nonAtomic p (p + G.length) := by
  obtain ⟨B, c, rfl, hB, hcm, hnb⟩ := hG
  cases c with
  | some b =>
    obtain ⟨hb, he⟩ := hcm b rfl
    have := Layout.skip_gap B (some b) p hB hs (fun x hx => by cases hx; exact ⟨hb, he⟩) he.tail
    rw [List.length_append, ← Nat.add_assoc]
    exact this.mono (by omega)
  | none =>
    cases rest with
    | nil =>
      have := Layout.skip_gap B none p hB hs (fun x hx => by cases hx) .eof
      rw [List.length_append, ← Nat.add_assoc]
      exact this.mono (by omega)
    | cons d t =>
      have hs' : Suf text p (B ++ d :: t) := by simpa [Layout.commentText] using hs
      have := skip_blanks B hB hs' (hnb rfl d t rfl)
      simp only [Layout.commentText, List.append_nil]
      exact this.mono (by omega)

theorem After.headStop {post : List Nat} (h : After post) : HeadStop post := by
  obtain ⟨G, rest, rfl, ⟨B, c, rfl, hB, hcm, hnb⟩, hE⟩ := h
  intro e post' he
  cases B with
  | cons b B =>
    simp only [List.cons_append] at he
    injection he with he1 _
    subst he1
    rcases hB b (by simp) with h | h
    · exact Or.inl h
    · exact Or.inr (Or.inl h)
  | nil =>
    cases c with
    | some b =>
      simp only [Layout.commentText, List.nil_append, List.cons_append] at he
      injection he with he1 _
      subst he1
      exact Or.inr (Or.inr (Or.inl rfl))
    | none =>
      simp only [Layout.commentText, List.nil_append] at he
      rcases hE e post' he with h | h | h | h
      · exact Or.inr (Or.inr (Or.inr (Or.inr (Or.inr (Or.inr h)))))
      · exact Or.inr (Or.inr (Or.inr (Or.inl h)))
      · exact Or.inr (Or.inr (Or.inr (Or.inr (Or.inl h))))
      · exact Or.inr (Or.inr (Or.inr (Or.inr (Or.inr (Or.inl h)))))

theorem stopD_nonBlank {d : Nat} (h : StopD d) : NonBlank d := by
  rcases h with h | h | h | h | h <;> subst h <;> simp [NonBlank]

theorem stopC_facts {c : Nat} (h : StopC c) :
    isDec c = false ∧ isBin c = false ∧ isOct c = false ∧ isHex c = false ∧ isLb c = false ∧
      c ≠ 40 ∧ c ≠ 98 ∧ c ≠ 111 ∧ c ≠ 120 ∧ c ≠ 34 ∧ c ≠ 44 := by
  rcases h with h | h | h | h | h | h | h | h | h | h | h <;> subst h <;> decide

theorem headIs_stop {post : List Nat} (h : HeadStop post) :
    headIs isDec post = false ∧ headIs isBin post = false ∧ headIs isOct post = false ∧
      headIs isHex post = false ∧ headIs isLb post = false := by
  cases post with
  | nil => simp
  | cons e post' =>
    have := stopC_facts (h e post' rfl)
    simp only [headIs_cons]
    exact ⟨this.1, this.2.1, this.2.2.1, this.2.2.2.1, this.2.2.2.2.1⟩

theorem toDigit_isSome {radix c : Nat} (h : (toDigit radix c).isSome = true) :
    (48 ≤ c ∧ c ≤ 57 ∧ c - 48 < radix) ∨ (97 ≤ c ∧ c ≤ 122 ∧ c - 87 < radix) ∨
      (65 ≤ c ∧ c ≤ 90 ∧ c - 55 < radix) := by
  unfold toDigit at h
  by_cases h1 : 48 ≤ c ∧ c ≤ 57
  · simp only [h1, and_self, if_true] at h
    by_cases h2 : c - 48 < radix
    · exact Or.inl ⟨h1.1, h1.2, h2⟩
    · simp [h2] at h
  · simp only [h1, if_false] at h
    by_cases h3 : 97 ≤ c ∧ c ≤ 122
    · simp only [h3, and_self, if_true] at h
      by_cases h2 : c - 87 < radix
      · exact Or.inr (Or.inl ⟨h3.1, h3.2, h2⟩)
      · simp [h2] at h
    · simp only [h3, if_false] at h
      by_cases h4 : 65 ≤ c ∧ c ≤ 90
      · simp only [h4, and_self, if_true] at h
        by_cases h2 : c - 55 < radix
        · exact Or.inr (Or.inr ⟨h4.1, h4.2, h2⟩)
        · simp [h2] at h
      · simp [h4] at h

theorem toDigit_bin {c : Nat} (h : (toDigit 2 c).isSome = true) : isBin c = true := by
  have := toDigit_isSome h
  simp only [isBin, Bool.and_eq_true, decide_eq_true_eq]; omega

theorem toDigit_oct {c : Nat} (h : (toDigit 8 c).isSome = true) : isOct c = true := by
  have := toDigit_isSome h
  simp only [isOct, Bool.and_eq_true, decide_eq_true_eq]; omega

theorem toDigit_dec {c : Nat} (h : (toDigit 10 c).isSome = true) : isDec c = true := by
  have := toDigit_isSome h
  simp only [isDec, Bool.and_eq_true, decide_eq_true_eq]; omega

theorem toDigit_hex {c : Nat} (h : (toDigit 16 c).isSome = true) : isHex c = true := by
  have := toDigit_isSome h
  simp only [isHex, Bool.or_eq_true, Bool.and_eq_true, decide_eq_true_eq]; omega

/-! ### numbers -/

theorem sk_at (p : Nat) : Sk (envOf text) 1 Atom.atomic p p := Sk.id_of_ne (by simp) p
theorem sk_comp (p : Nat) : Sk (envOf text) 1 Atom.compound p p := Sk.id_of_ne (by simp) p


theorem ev35_ok {c : Nat} {run post : List Nat} (hs : Suf text p ([48, 98] ++ (c :: run ++ post)))
    (hr : ∀ x ∈ c :: run, isBin x = true) (hstop : headIs isBin post = false) :
    Ev (envOf text) (run.length + 9) (.ref 35) .nonAtomic false p
      (some (p + 2 + (run.length + 1), [.mk 35 p (p + 2 + (run.length + 1)) []])) := by
  have h1 : Ev (envOf text) 1 (.str [48, 98]) .atomic false p (some (p + 2, [])) := ev_str_ok hs
  have h2 := run_plus charPE_bin c run hr hs.app hstop
  exact evr (gr35 text) (by omega) (Ev.seq h1 (sk_at _) h2 (d := run.length + 6))

theorem ev35_fail (hs : Suf text p s) (hp : List.isPrefixOf [48, 98] s = false) :
    Ev (envOf text) 4 (.ref 35) .nonAtomic false p none :=
  evr (gr35 text) (by omega) (Ev.seq_fail1 (ev_str_fail hs hp) (d := 1))

theorem ev36_ok {c : Nat} {run post : List Nat} (hs : Suf text p ([48, 111] ++ (c :: run ++ post)))
    (hr : ∀ x ∈ c :: run, isOct x = true) (hstop : headIs isOct post = false) :
    Ev (envOf text) (run.length + 9) (.ref 36) .nonAtomic false p
      (some (p + 2 + (run.length + 1), [.mk 36 p (p + 2 + (run.length + 1)) []])) := by
  have h1 : Ev (envOf text) 1 (.str [48, 111]) .atomic false p (some (p + 2, [])) := ev_str_ok hs
  have h2 := run_plus charPE_oct c run hr hs.app hstop
  exact evr (gr36 text) (by omega) (Ev.seq h1 (sk_at _) h2 (d := run.length + 6))

theorem ev36_fail (hs : Suf text p s) (hp : List.isPrefixOf [48, 111] s = false) :
    Ev (envOf text) 4 (.ref 36) .nonAtomic false p none :=
  evr (gr36 text) (by omega) (Ev.seq_fail1 (ev_str_fail hs hp) (d := 1))

theorem ev38_ok {c1 c2 : Nat} {run post : List Nat} (hs : Suf text p ([48, 120] ++ (c1 :: (c2 :: run ++ post))))
    (hr : ∀ x ∈ c1 :: c2 :: run, isHex x = true) (hstop : headIs isHex post = false) :
    Ev (envOf text) (run.length + 10) (.ref 38) .nonAtomic false p
      (some (p + 2 + 1 + (run.length + 1), [.mk 38 p (p + 2 + 1 + (run.length + 1)) []])) := by
  have h1 : Ev (envOf text) 1 (.str [48, 120]) .atomic false p (some (p + 2, [])) := ev_str_ok hs
  have hs2 : Suf text (p + 2) (c1 :: (c2 :: run ++ post)) := hs.app
  have h2 := charPE_ev charPE_hex hs2 (hr c1 (by simp))
  have h3 := run_plus charPE_hex c2 run (fun x hx => hr x (by simp [hx])) hs2.tail hstop
  exact evr (gr38 text) (by omega)
    (Ev.seq (Ev.seq h1 (sk_at _) h2 (d := 2)) (sk_at _) h3 (d := run.length + 6))

theorem ev38_fail (hs : Suf text p s) (hp : List.isPrefixOf [48, 120] s = false) :
    Ev (envOf text) 5 (.ref 38) .nonAtomic false p none :=
  evr (gr38 text) (by omega) (Ev.seq_fail1 (Ev.seq_fail1 (ev_str_fail hs hp) (d := 1)) (d := 2))

theorem ev37_ok {c : Nat} {run post : List Nat} (hs : Suf text p (c :: run ++ post))
    (hr : ∀ x ∈ c :: run, isDec x = true) (hstop : headIs isDec post = false) :
    Ev (envOf text) (run.length + 7) (.ref 37) .nonAtomic false p
      (some (p + (run.length + 1), [.mk 37 p (p + (run.length + 1)) []])) :=
  evr (gr37 text) (by omega) (run_plus charPE_digit c run hr hs hstop)

/-- the second character of a decimal literal followed by a stop character is not a letter -/
theorem dec_prefix_fail {c : Nat} {run post : List Nat} (x : Nat) (hr : ∀ y ∈ c :: run, isDec y = true)
    (hpost : HeadStop post) (hx : isDec x = false) (hx2 : ¬ StopC x) :
    List.isPrefixOf [48, x] (c :: run ++ post) = false := by
  cases run with
  | nil =>
    cases post with
    | nil => simp [List.isPrefixOf]
    | cons e post' =>
      have he := hpost e post' rfl
      have : x ≠ e := fun h => hx2 (h ▸ he)
      simp [List.isPrefixOf, this]
  | cons c2 run =>
    have h2 : isDec c2 = true := hr c2 (by simp)
    have : x ≠ c2 := fun h => by rw [h, h2] at hx; cases hx
    simp [List.isPrefixOf, this]

theorem gr34' (text : List Nat) : (envOf text).g[34]? =
    some ⟨34, [110, 117, 109, 98, 101, 114], .silent, .alt (.alt (.alt (.ref 35) (.ref 36)) (.ref 38)) (.ref 37)⟩ := rfl

theorem termPair_num (p : Nat) (r : Radix) (ds : List Nat) :
    termPair p (.num r ds) = .mk r.rule p (p + (r.pre.length + ds.length)) [] := by
  simp only [termPair]

theorem num34 (r : Radix) (ds post : List Nat) (hwf : (TTerm.num r ds).WF)
    (hs : Suf text p (r.pre ++ ds ++ post)) (hpost : HeadStop post) :
    Ev (envOf text) (ds.length + 20) (.ref 34) .nonAtomic false p
      (some (p + (r.pre.length + ds.length), [termPair p (.num r ds)])) := by
  simp only [TTerm.WF] at hwf
  obtain ⟨hmin, hdig⟩ := hwf
  have hf := headIs_stop hpost
  rw [termPair_num]
  cases r with
  | bin =>
    cases ds with
    | nil => simp [Radix.minDigits] at hmin
    | cons c run =>
      have hs' : Suf text p ([48, 98] ++ (c :: run ++ post)) := by rw [← List.append_assoc]; exact hs
      have hr : ∀ x ∈ c :: run, isBin x = true := fun x hx => toDigit_bin (hdig x hx)
      have h := ev35_ok hs' hr hf.2.1
      have e1 : p + 2 + (run.length + 1) = p + ((Radix.pre .bin).length + (c :: run).length) := by
        simp [Radix.pre]; omega
      rw [e1] at h
      exact (evr (gr34' text) (by omega) (Ev.alt_l (Ev.alt_l (Ev.alt_l h (d := run.length + 9))
        (d := run.length + 10)) (d := run.length + 11)) (d := run.length + 12)).mono (by simp only [List.length_cons]; omega)
  | oct =>
    cases ds with
    | nil => simp [Radix.minDigits] at hmin
    | cons c run =>
      have hs' : Suf text p ([48, 111] ++ (c :: run ++ post)) := by rw [← List.append_assoc]; exact hs
      have hr : ∀ x ∈ c :: run, isOct x = true := fun x hx => toDigit_oct (hdig x hx)
      have h := ev36_ok hs' hr hf.2.2.1
      have e1 : p + 2 + (run.length + 1) = p + ((Radix.pre .oct).length + (c :: run).length) := by
        simp [Radix.pre]; omega
      rw [e1] at h
      have f35 := ev35_fail hs' (by simp [List.isPrefixOf] : List.isPrefixOf [48, 98] ([48, 111] ++ (c :: run ++ post)) = false)
      exact (evr (gr34' text) (by omega) (Ev.alt_l (Ev.alt_l (Ev.alt_r f35 h (d := run.length + 9))
        (d := run.length + 10)) (d := run.length + 11)) (d := run.length + 12)).mono (by simp only [List.length_cons]; omega)
  | hex =>
    cases ds with
    | nil => simp [Radix.minDigits] at hmin
    | cons c1 ds =>
      cases ds with
      | nil => simp [Radix.minDigits] at hmin
      | cons c2 run =>
        have hs' : Suf text p ([48, 120] ++ (c1 :: (c2 :: run ++ post))) := by simpa [Radix.pre] using hs
        have hr : ∀ x ∈ c1 :: c2 :: run, isHex x = true := fun x hx => toDigit_hex (hdig x hx)
        have h := ev38_ok hs' hr hf.2.2.2.1
        have e1 : p + 2 + 1 + (run.length + 1) = p + ((Radix.pre .hex).length + (c1 :: c2 :: run).length) := by
          simp [Radix.pre]; omega
        rw [e1] at h
        have f35 := ev35_fail hs' (by simp [List.isPrefixOf] :
          List.isPrefixOf [48, 98] ([48, 120] ++ (c1 :: (c2 :: run ++ post))) = false)
        have f36 := ev36_fail hs' (by simp [List.isPrefixOf] :
          List.isPrefixOf [48, 111] ([48, 120] ++ (c1 :: (c2 :: run ++ post))) = false)
        exact (evr (gr34' text) (by omega) (Ev.alt_l (Ev.alt_r (Ev.alt_r f35 f36 (d := 4)) h (d := run.length + 10))
          (d := run.length + 11)) (d := run.length + 12)).mono (by simp only [List.length_cons]; omega)
  | dec =>
    cases ds with
    | nil => simp [Radix.minDigits] at hmin
    | cons c run =>
      have hs' : Suf text p (c :: run ++ post) := hs
      have hr : ∀ x ∈ c :: run, isDec x = true := fun x hx => toDigit_dec (hdig x hx)
      have h := ev37_ok hs' hr hf.1
      have e1 : p + (run.length + 1) = p + ((Radix.pre .dec).length + (c :: run).length) := by
        simp [Radix.pre]
      rw [e1] at h
      have hp' : HeadStop post := hpost
      have nstop : ∀ x, x = 98 ∨ x = 111 ∨ x = 120 → isDec x = false ∧ ¬ StopC x := by
        intro x hx
        rcases hx with h | h | h <;> subst h <;> refine ⟨by decide, ?_⟩ <;> intro hc <;>
          rcases hc with h | h | h | h | h | h | h | h | h | h | h <;> cases h
      have f35 := ev35_fail hs' (dec_prefix_fail 98 hr hp' (nstop 98 (by simp)).1 (nstop 98 (by simp)).2)
      have f36 := ev36_fail hs' (dec_prefix_fail 111 hr hp' (nstop 111 (by simp)).1 (nstop 111 (by simp)).2)
      have f38 := ev38_fail hs' (dec_prefix_fail 120 hr hp' (nstop 120 (by simp)).1 (nstop 120 (by simp)).2)
      exact (evr (gr34' text) (by omega) (Ev.alt_r (Ev.alt_r (Ev.alt_r f35 f36 (d := 4)) f38 (d := 5)) h
        (d := run.length + 11)) (d := run.length + 12)).mono (by simp only [List.length_cons]; omega)

/-! ### negative decimals, labels, function names -/

theorem ev43_ok {c : Nat} {run post : List Nat} (hs : Suf text p ([45] ++ (c :: run ++ post)))
    (hr : ∀ x ∈ c :: run, isDec x = true) (hstop : headIs isDec post = false) :
    Ev (envOf text) (run.length + 9) (.ref 43) .nonAtomic false p
      (some (p + 1 + (run.length + 1), [.mk 43 p (p + 1 + (run.length + 1)) []])) := by
  have h1 : Ev (envOf text) 1 (.str [45]) .atomic false p (some (p + 1, [])) := ev_str_ok hs
  have h2 := run_plus charPE_digit c run hr hs.app hstop
  exact evr (gr43 text) (by omega) (Ev.seq h1 (sk_at _) h2 (d := run.length + 6))

theorem ev39_ok {c : Nat} {run post : List Nat} (hs : Suf text p (c :: (run ++ post))) (hc : isAl c = true)
    (hr : ∀ x ∈ run, isLb x = true) (hstop : headIs isLb post = false) :
    Ev (envOf text) (run.length + 9) (.ref 39) .nonAtomic false p
      (some (p + 1 + run.length, [.mk 39 p (p + 1 + run.length) []])) := by
  have h1 := charPE_ev charPE_alpha hs hc
  have h2 := run_star charPE_lb run hr hs.tail hstop
  exact evr (gr39 text) (by omega) (Ev.seq h1 (sk_at _) h2 (d := run.length + 6))

theorem isFn_of_isAl {c : Nat} (h : isAl c = true) : isFn c = true := by simp [isFn, h]

theorem ev32_ok {c : Nat} {run post : List Nat} (hs : Suf text p (c :: (run ++ post))) (hc : isAl c = true)
    (hr : ∀ x ∈ run, isLb x = true) (hstop : headIs isLb post = false) :
    Ev (envOf text) (run.length + 9) (.ref 32) .nonAtomic false p
      (some (p + 1 + run.length, [.mk 32 p (p + 1 + run.length) []])) := by
  have h1 := charPE_ev charPE_fn hs (isFn_of_isAl hc)
  have h2 := run_star charPE_lb run hr hs.tail hstop
  exact evr (gr32 text) (by omega) (Ev.seq h1 (sk_at _) h2 (d := run.length + 6))

theorem headIs_after {post : List Nat} (h : After post) :
    headIs isDec post = false ∧ headIs isLb post = false :=
  ⟨(headIs_stop h.headStop).1, (headIs_stop h.headStop).2.2.2.2⟩

/-- `expression_macro` on a label: the name is read as a function name, then `(` is missing -/
theorem ev26_fail {c : Nat} {run G rest : List Nat} (hs : Suf text p (c :: (run ++ (G ++ rest))))
    (hc : isAl c = true) (hr : ∀ x ∈ run, isLb x = true) (hG : GapG G rest) (hE : EndC rest) :
    Ev (envOf text) (run.length + G.length + 115) (.ref 26) .nonAtomic false p none := by
  have haf : After (G ++ rest) := ⟨G, rest, rfl, hG, hE⟩
  have h32 := ev32_ok hs hc hr (headIs_after haf).2
  have hs2 : Suf text (p + 1 + run.length) (G ++ rest) := hs.tail.app
  have hsk := skip_gapG hG hs2
  have hs3 : Suf text (p + 1 + run.length + G.length) rest := hs2.app
  have hstr : Ev (envOf text) 1 (.str [40]) .nonAtomic false (p + 1 + run.length + G.length) none :=
    ev_str_fail hs3 (by
      cases rest with
      | nil => simp [List.isPrefixOf]
      | cons d t =>
        have hd40 : d ≠ 40 := by
          rcases hE d t rfl with h | h | h | h
          · rcases h with h | h | h | h | h <;> subst h <;> decide
          · subst h; decide
          · subst h; decide
          · subst h; decide
        have : (40 : Nat) ≠ d := fun h => hd40 h.symm
        simp [List.isPrefixOf, this])
  have h1 := Ev.seq_fail2 h32 hsk hstr (d := run.length + G.length + 100)
  have h31 := evr (gr31 text) (by omega)
    (Ev.seq_fail1 (Ev.seq_fail1 h1 (d := run.length + G.length + 101)
      (b := .opt (.seq (.ref 41) (.star (.seq (.str [44]) (.ref 41))))))
      (d := run.length + G.length + 103) (b := .str [41])) (d := run.length + G.length + 104) (at_ := .nonAtomic)
  exact (evr (gr26 text) (by omega) h31 (d := run.length + G.length + 106)).mono (by omega)

theorem lb_prefix_fail (b : List Nat) : ∀ (a : List Nat), (∀ c ∈ a, isLb c = true) → ∀ (n post : List Nat),
    (∀ c ∈ n, isLb c = true) → HeadStop post →
    List.isPrefixOf (a ++ 40 :: b) (n ++ post) = false
  | [], _, [], [], _, _ => by simp
  | [], _, [], e :: post', _, hp => by
    have he := hp e post' rfl
    have : (40 : Nat) ≠ e := fun h => (stopC_facts he).2.2.2.2.2.1 h.symm
    simp [List.isPrefixOf, this]
  | [], _, n0 :: n, post, hn, _ => by
    have h0 : isLb n0 = true := hn n0 (by simp)
    have : (40 : Nat) ≠ n0 := fun h => by rw [← h] at h0; revert h0; decide
    simp [List.isPrefixOf, this]
  | a0 :: a, ha, [], [], _, _ => by simp
  | a0 :: a, ha, [], e :: post', _, hp => by
    have he := hp e post' rfl
    have h0 : isLb a0 = true := ha a0 (by simp)
    have : a0 ≠ e := fun h => by rw [h, (stopC_facts he).2.2.2.2.1] at h0; cases h0
    simp [List.isPrefixOf, this]
  | a0 :: a, ha, n0 :: n, post, hn, hp => by
    have ih := lb_prefix_fail b a (fun c hc => ha c (by simp [hc])) n post (fun c hc => hn c (by simp [hc])) hp
    simp only [List.cons_append, List.isPrefixOf, ih, Bool.and_false]

theorem ev27_fail (hs : Suf text p s)
    (hp : List.isPrefixOf [115, 101, 108, 101, 99, 116, 111, 114, 40, 34] s = false) :
    Ev (envOf text) 5 (.ref 27) .nonAtomic false p none :=
  evr (gr27 text) (by omega) (Ev.seq_fail1 (Ev.seq_fail1 (ev_str_fail hs hp) (d := 1)) (d := 2))

theorem ev28_fail (hs : Suf text p s) (hp : List.isPrefixOf [116, 111, 112, 105, 99, 40, 34] s = false) :
    Ev (envOf text) 5 (.ref 28) .nonAtomic false p none :=
  evr (gr28 text) (by omega) (Ev.seq_fail1 (Ev.seq_fail1 (ev_str_fail hs hp) (d := 1)) (d := 2))

theorem ev12_fail (hs : Suf text p s) (hp : List.isPrefixOf [36] s = false) :
    Ev (envOf text) 4 (.ref 12) .nonAtomic false p none :=
  evr (gr12 text) (by omega) (Ev.seq_fail1 (ev_str_fail hs hp) (d := 1))

/-! ### the leaf terms through `term` -/

theorem isLb_of_isAl {c : Nat} (h : isAl c = true) : isLb c = true := by
  simp only [isAl, isLb, isAn, Bool.or_eq_true, Bool.and_eq_true, decide_eq_true_eq, beq_iff_eq] at h ⊢
  omega

theorem isLabel_split {n : List Nat} (h : IsLabel n) :
    ∃ c run, n = c :: run ∧ isAl c = true ∧ ∀ x ∈ run, isLb x = true := by
  cases n with
  | nil => exact h.elim
  | cons c run =>
    obtain ⟨h1, h2⟩ := h
    refine ⟨c, run, rfl, ?_, ?_⟩
    · simpa [isAlpha, isAl] using h1
    · intro x hx
      have := h2 x hx
      simp only [isAlnum, isAlpha, isLb, isAn, Bool.or_eq_true, Bool.and_eq_true, decide_eq_true_eq,
        beq_iff_eq] at this ⊢
      omega

theorem term_label (n post : List Nat) (hwf : IsLabel n) (hs : Suf text p (n ++ post)) (hpost : After post) :
    Ev (envOf text) (n.length + post.length + 130) (.ref 42) .nonAtomic false p
      (some (p + n.length, [termPair p (.label n)])) := by
  obtain ⟨c, run, rfl, hc, hr⟩ := isLabel_split hwf
  obtain ⟨G, rest, rfl, hG, hE⟩ := hpost
  have haf : After (G ++ rest) := ⟨G, rest, rfl, hG, hE⟩
  have hs' : Suf text p (c :: (run ++ (G ++ rest))) := hs
  have hlb : ∀ x ∈ c :: run, isLb x = true := by
    intro x hx
    rcases List.mem_cons.mp hx with h | h
    · rw [h]; exact isLb_of_isAl hc
    · exact hr x h
  have e12 := ev12_fail hs' (by
    have : (36 : Nat) ≠ c := fun h => by rw [← h] at hc; revert hc; decide
    simp [List.isPrefixOf, this])
  have e27 := ev27_fail hs (lb_prefix_fail [34] [115, 101, 108, 101, 99, 116, 111, 114] (by decide)
    (c :: run) _ hlb haf.headStop)
  have e28 := ev28_fail hs (lb_prefix_fail [34] [116, 111, 112, 105, 99] (by decide) (c :: run) _ hlb haf.headStop)
  have e26 := ev26_fail hs' hc hr hG hE
  have e39 := ev39_ok hs' hc hr (headIs_after haf).2
  have h4 : Ev (envOf text) (run.length + G.length + 120) termAlt4 .nonAtomic false p _ :=
    Ev.alt_r (Ev.alt_r (Ev.alt_r (Ev.alt_r e12 e27 (d := 5)) e28 (d := 6)) e26
      (d := run.length + G.length + 115)) e39 (d := run.length + G.length + 119)
  have h5 : Ev (envOf text) (run.length + G.length + 121) termAlt5 .nonAtomic false p _ := Ev.alt_l h4
  have h6 : Ev (envOf text) (run.length + G.length + 122) termAlt6 .nonAtomic false p _ := Ev.alt_l h5
  have h7 : Ev (envOf text) (run.length + G.length + 123) termBody .nonAtomic false p _ := Ev.alt_l h6
  have h := evr (gr42' text) (by omega) h7 (d := run.length + G.length + 123) (at_ := .nonAtomic)
  have e1 : p + 1 + run.length = p + (c :: run).length := by simp only [List.length_cons]; omega
  rw [e1] at h
  simp only [termPair]
  exact h.mono (by simp only [List.length_cons, List.length_append]; omega)

theorem term_neg (ds post : List Nat) (hwf : (TTerm.neg ds).WF) (hs : Suf text p (45 :: ds ++ post))
    (hpost : After post) :
    Ev (envOf text) (ds.length + 40) (.ref 42) .nonAtomic false p
      (some (p + (1 + ds.length), [termPair p (.neg ds)])) := by
  simp only [TTerm.WF] at hwf
  obtain ⟨hmin, hdig⟩ := hwf
  cases ds with
  | nil => simp at hmin
  | cons c run =>
    have hs' : Suf text p ([45] ++ (c :: run ++ post)) := hs
    have hr : ∀ x ∈ c :: run, isDec x = true := fun x hx => toDigit_dec (hdig x hx)
    have e43 := ev43_ok hs' hr (headIs_after hpost).1
    have f5 := alt5_fail_minus (s := c :: run ++ post) hs
    have h6 : Ev (envOf text) (run.length + 31) termAlt6 .nonAtomic false p _ := Ev.alt_r f5 e43 (d := run.length + 30)
    have h7 : Ev (envOf text) (run.length + 32) termBody .nonAtomic false p _ := Ev.alt_l h6
    have h := evr (gr42' text) (by omega) h7 (d := run.length + 32) (at_ := .nonAtomic)
    have e1 : p + 1 + (run.length + 1) = p + (1 + (c :: run).length) := by simp only [List.length_cons]; omega
    rw [e1] at h
    simp only [termPair]
    exact h.mono (by simp only [List.length_cons]; omega)

theorem num_head (r : Radix) (ds : List Nat) (hwf : (TTerm.num r ds).WF) :
    ∃ c s', r.pre ++ ds = c :: s' ∧ isDec c = true := by
  simp only [TTerm.WF] at hwf
  cases r with
  | bin => exact ⟨48, 98 :: ds, rfl, by decide⟩
  | oct => exact ⟨48, 111 :: ds, rfl, by decide⟩
  | hex => exact ⟨48, 120 :: ds, rfl, by decide⟩
  | dec =>
    cases ds with
    | nil => simp [Radix.minDigits] at hwf
    | cons c run => exact ⟨c, run, rfl, toDigit_dec (hwf.2 c (by simp))⟩

theorem term_num (r : Radix) (ds post : List Nat) (hwf : (TTerm.num r ds).WF)
    (hs : Suf text p (r.pre ++ ds ++ post)) (hpost : After post) :
    Ev (envOf text) (ds.length + 40) (.ref 42) .nonAtomic false p
      (some (p + (r.pre.length + ds.length), [termPair p (.num r ds)])) := by
  obtain ⟨c, s', hcs, hc⟩ := num_head r ds hwf
  have hs1 : Suf text p (c :: (s' ++ post)) := by
    have := hs; rw [hcs] at this; exact this
  have f4 := alt4_fail_digit hs1 hc
  have e34 := num34 r ds post hwf hs hpost.headStop
  have h5 : Ev (envOf text) (ds.length + 31) termAlt5 .nonAtomic false p _ := Ev.alt_r f4 e34 (d := ds.length + 30)
  have h6 : Ev (envOf text) (ds.length + 32) termAlt6 .nonAtomic false p _ := Ev.alt_l h5
  have h7 : Ev (envOf text) (ds.length + 33) termBody .nonAtomic false p _ := Ev.alt_l h6
  exact (evr (gr42' text) (by omega) h7 (d := ds.length + 33) (at_ := .nonAtomic)).mono (by omega)

end ExprText
end Asm
end EtkVerif
