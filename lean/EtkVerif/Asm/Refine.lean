/-
T-asm: the assembler model refines the specification — it succeeds on exactly
the programs the specification accepts, with the same bytes.
-/
import EtkVerif.Asm.Spec
import EtkVerif.Asm.LayoutLemmas
import EtkVerif.Asm.RefineSteps
import EtkVerif.Asm.RefinePanic
namespace EtkVerif
namespace Asm

/-- T-asm.  For every program, random-suffix supply, and starting counter: the
implementation model (feeding items one at a time with provisional positions,
an undeclared-label set, feed-time and emission-time checks) returns bytes iff
the specification does, and they are the same bytes (and the same final counter). -/
theorem assemble_refines (rnd : Nat → Nat) (fuel : Nat) (k : Nat) (ops : RawOps) (r : List Nat × Nat) :
    assemble rnd fuel { fresh := k } ops = .ok r ↔ Spec.assembleScope rnd fuel k ops = .ok r :=
  (all_steps rnd fuel).2.2.2.2 k ops r

/-- forward direction: what the model assembles, the specification assembles to the same bytes -/
theorem assemble_refines_fwd (rnd : Nat → Nat) (fuel : Nat) (k : Nat) (ops : RawOps) (r : List Nat × Nat)
    (h : assemble rnd fuel { fresh := k } ops = .ok r) : Spec.assembleScope rnd fuel k ops = .ok r :=
  (assemble_refines rnd fuel k ops r).1 h

/-- backward direction: the model accepts every program the specification accepts -/
theorem assemble_refines_bwd (rnd : Nat → Nat) (fuel : Nat) (k : Nat) (ops : RawOps) (r : List Nat × Nat)
    (h : Spec.assembleScope rnd fuel k ops = .ok r) : assemble rnd fuel { fresh := k } ops = .ok r :=
  (assemble_refines rnd fuel k ops r).2 h

/-- The model never reports one of its internal `panic` outcomes other than fuel
exhaustion: every `unwrap` / `expect` / `assert` of `asm.rs` modelled as a panic is unreachable. -/
theorem assemble_no_panic (rnd : Nat → Nat) (fuel : Nat) (k : Nat) (ops : RawOps) (site : String)
    (h : assemble rnd fuel { fresh := k } ops = .error (.panic site)) : site = "fuel" :=
  (panicFree rnd fuel).2.2.2.2 _ ops _ h site rfl

end Asm
end EtkVerif
