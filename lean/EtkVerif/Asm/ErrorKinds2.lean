/-
C13, more error kinds: when the assembler model reports `UndeclaredExpressionMacro n`, `MacroArgumentCount n` or
`MacroRecursionLimit n`, the name is the one the fault is about, in the scope that reports it — the program itself or
one of its nested `%include` scopes (a scope sees only its own macro table):
* `UndeclaredExpressionMacro n`: that scope declares no EXPRESSION macro `n`;
* `MacroArgumentCount n`: that scope declares a macro `n` (it was applied to the wrong number of arguments);
  in the model only INSTRUCTION macros check their arity (`expandMacro` / `instantiate`): an expression macro applied
  to too few arguments is `UndeclaredVariableMacro` naming the first parameter left without argument (`evalArgs`;
  `fix:` 841db2a), surplus arguments are ignored, so the macro is in fact an instruction macro
  (`macroArgumentCount_provenance_instr`);
* `MacroRecursionLimit n`: that scope declares a macro `n` (its expansion nested 255 deep) — or `n` is the marker
  `evalFuelMark` (NUL followed by `fuel`: not a possible macro name) of the evaluator model's own fuel (`evalFuel` =
  100000 nested operand levels; DESIGN §11).
-/
import EtkVerif.Asm.ErrorKinds
namespace EtkVerif
namespace Asm

/-! ### evaluator level -/

/-- what an evaluator error says about the macro table it was evaluated under -/
def EvFault (ms : List (String × MacroDef)) : EvErr → Prop
  | .unknownMacro n => ∀ ps b, lookupMacro ms n ≠ some (.expr ps b)
  | .recursionLimit n => n = evalFuelMark ∨ ∃ ps b, lookupMacro ms n = some (.expr ps b)
  | _ => True

theorem evFault_fuel (ms : List (String × MacroDef)) : EvFault ms (.recursionLimit evalFuelMark) := Or.inl rfl

theorem eval_arith_fault {ms : List (String × MacroDef)} {f : Nat} {c : Ctx} {a b : Expr} {err : EvErr}
    {g : Int → Int → Except EvErr Int}
    (h : (match eval f c a with
      | .error e => Except.error e
      | .ok x => match eval f c b with
        | .error e => Except.error e
        | .ok y => g x y) = Except.error err)
    (ha : ∀ err, eval f c a = .error err → EvFault ms err) (hb : ∀ err, eval f c b = .error err → EvFault ms err)
    (hg : ∀ x y err, g x y = .error err → EvFault ms err) : EvFault ms err := by
  cases h1 : eval f c a with
  | error e =>
    rw [h1] at h
    simp only [Except.error.injEq] at h
    subst h
    exact ha _ h1
  | ok x =>
    rw [h1] at h
    simp only [] at h
    cases h2 : eval f c b with
    | error e =>
      rw [h2] at h
      simp only [Except.error.injEq] at h
      subst h
      exact hb _ h2
    | ok y =>
      rw [h2] at h
      exact hg x y err h

/-- `eval` / `evalArgs`: `unknownMacro n` means the table has no expression macro `n`; `recursionLimit n` means
`n` is an expression macro of the table, or the marker of the evaluator's own fuel -/
theorem eval_fault_aux : ∀ f,
    (∀ (c : Ctx) (e : Expr) (err : EvErr), eval f c e = .error err → EvFault c.macros err) ∧
    (∀ (c : Ctx) (params : List String) (args : Exprs) (err : EvErr),
      evalArgs f c params args = .error err → EvFault c.macros err) := by
  intro f
  induction f with
  | zero =>
    constructor
    · intro c e err h
      simp only [eval, Except.error.injEq] at h
      subst h
      exact evFault_fuel _
    · intro c params args err h
      simp only [evalArgs, Except.error.injEq] at h
      subst h
      exact evFault_fuel _
  | succ f ih =>
    constructor
    · intro c e err h
      cases e with
      | paren e => simp only [eval] at h; exact ih.1 c e err h
      | num n => simp [eval] at h
      | label x =>
        simp only [eval] at h
        split at h
        · simp at h
        · simp only [Except.error.injEq] at h; subst h; simp [EvFault]
      | var x =>
        simp only [eval] at h
        split at h
        · simp only [Except.error.injEq] at h; subst h; simp [EvFault]
        · split at h
          · simp at h
          · simp only [Except.error.injEq] at h; subst h; simp [EvFault]
      | plus a b =>
        simp only [eval] at h
        exact eval_arith_fault (g := fun x y => .ok (x + y)) h (ih.1 c a) (ih.1 c b) (by intro x y err h; simp at h)
      | minus a b =>
        simp only [eval] at h
        exact eval_arith_fault (g := fun x y => .ok (x - y)) h (ih.1 c a) (ih.1 c b) (by intro x y err h; simp at h)
      | times a b =>
        simp only [eval] at h
        exact eval_arith_fault (g := fun x y => .ok (x * y)) h (ih.1 c a) (ih.1 c b) (by intro x y err h; simp at h)
      | divide a b =>
        simp only [eval] at h
        refine eval_arith_fault (g := fun x y => if y = 0 then .error .divisionByZero else .ok (Int.tdiv x y))
          h (ih.1 c a) (ih.1 c b) ?_
        intro x y err h
        split at h
        · simp only [Except.error.injEq] at h; subst h; simp [EvFault]
        · simp at h
      | «macro» name args =>
        simp only [eval] at h
        cases hlk : lookupMacro c.macros name with
        | none =>
          rw [hlk] at h
          simp only [Except.error.injEq] at h
          subst h
          intro ps b hc
          rw [hlk] at hc
          cases hc
        | some md =>
          cases md with
          | instr ps body =>
            rw [hlk] at h
            simp only [Except.error.injEq] at h
            subst h
            intro ps' b hc
            rw [hlk] at hc
            cases hc
          | expr params body =>
            rw [hlk] at h
            simp only [] at h
            cases hea : evalArgs f c params args with
            | error e2 =>
              rw [hea] at h
              simp only [Except.error.injEq] at h
              subst h
              exact ih.2 c params args _ hea
            | ok vs =>
              rw [hea] at h
              simp only [] at h
              split at h
              · simp only [Except.error.injEq] at h
                subst h
                exact Or.inr ⟨params, body, hlk⟩
              · exact ih.1 { c with vars := some vs, depth := c.depth + 1 } body err h
    · intro c params args err h
      cases params with
      | nil => simp [evalArgs] at h
      | cons p ps =>
        cases args with
        | nil => simp only [evalArgs, Except.error.injEq] at h; subst h; simp [EvFault]
        | cons a as =>
          simp only [evalArgs] at h
          cases hea : eval f c a with
          | error e2 =>
            rw [hea] at h
            simp only [Except.error.injEq] at h
            subst h
            exact ih.1 c a _ hea
          | ok v =>
            rw [hea] at h
            simp only [] at h
            cases heb : evalArgs f c ps as with
            | error e2 =>
              rw [heb] at h
              simp only [Except.error.injEq] at h
              subst h
              exact ih.2 c ps as _ heb
            | ok rest => rw [heb] at h; simp at h

theorem eval_fault (f : Nat) (c : Ctx) (e : Expr) (err : EvErr) (h : eval f c e = .error err) :
    EvFault c.macros err := (eval_fault_aux f).1 c e err h

/-- the evaluator-level facts, spelled out -/
theorem eval_unknownMacro (f : Nat) (ls : List (String × Option Nat)) (ms : List (String × MacroDef))
    (vars : Option (List (String × Int))) (d : Nat) (e : Expr) (n : String)
    (h : eval f ⟨ls, ms, vars, d⟩ e = .error (.unknownMacro n)) :
    ∀ ps b, lookupMacro ms n ≠ some (.expr ps b) := eval_fault f ⟨ls, ms, vars, d⟩ e _ h

theorem eval_recursionLimit (f : Nat) (ls : List (String × Option Nat)) (ms : List (String × MacroDef))
    (vars : Option (List (String × Int))) (d : Nat) (e : Expr) (n : String)
    (h : eval f ⟨ls, ms, vars, d⟩ e = .error (.recursionLimit n)) :
    n = evalFuelMark ∨ ∃ ps b, lookupMacro ms n = some (.expr ps b) := eval_fault f ⟨ls, ms, vars, d⟩ e _ h

theorem labelsBind_fault {ms : List (String × MacroDef)} {A B : Except EvErr (List String)} {err : EvErr}
    (h : (match A with
      | .error e => .error e
      | .ok x => match B with
        | .error e => .error e
        | .ok y => .ok (x ++ y)) = (.error err : Except EvErr (List String)))
    (ha : ∀ err, A = .error err → EvFault ms err) (hb : ∀ err, B = .error err → EvFault ms err) : EvFault ms err := by
  cases A with
  | error e =>
    simp only [Except.error.injEq] at h
    subst h
    exact ha _ rfl
  | ok x =>
    cases B with
    | error e =>
      simp only [Except.error.injEq] at h
      subst h
      exact hb _ rfl
    | ok y => simp at h

/-- `labelsOf` / `labelsOfArgs` fail the same way -/
theorem labelsOf_fault_aux (ms : List (String × MacroDef)) : ∀ f,
    (∀ (depth : Nat) (e : Expr) (err : EvErr), labelsOf ms f depth e = .error err → EvFault ms err) ∧
    (∀ (depth : Nat) (args : Exprs) (err : EvErr), labelsOfArgs ms f depth args = .error err → EvFault ms err) := by
  intro f
  induction f with
  | zero =>
    constructor
    · intro depth e err h
      simp only [labelsOf, Except.error.injEq] at h
      subst h
      exact evFault_fuel _
    · intro depth args err h
      simp only [labelsOfArgs, Except.error.injEq] at h
      subst h
      exact evFault_fuel _
  | succ f ih =>
    constructor
    · intro depth e err h
      cases e with
      | paren e => simp only [labelsOf] at h; exact ih.1 depth e err h
      | num n => simp [labelsOf] at h
      | label x => simp [labelsOf] at h
      | var x => simp [labelsOf] at h
      | plus a b => simp only [labelsOf] at h; exact labelsBind_fault h (ih.1 depth a) (ih.1 depth b)
      | minus a b => simp only [labelsOf] at h; exact labelsBind_fault h (ih.1 depth a) (ih.1 depth b)
      | times a b => simp only [labelsOf] at h; exact labelsBind_fault h (ih.1 depth a) (ih.1 depth b)
      | divide a b => simp only [labelsOf] at h; exact labelsBind_fault h (ih.1 depth a) (ih.1 depth b)
      | «macro» name args =>
        simp only [labelsOf] at h
        cases hlk : lookupMacro ms name with
        | none =>
          rw [hlk] at h
          simp only [Except.error.injEq] at h
          subst h
          intro ps b hc
          rw [hlk] at hc
          cases hc
        | some md =>
          cases md with
          | instr ps body =>
            rw [hlk] at h
            simp only [Except.error.injEq] at h
            subst h
            intro ps' b hc
            rw [hlk] at hc
            cases hc
          | expr params body =>
            rw [hlk] at h
            simp only [] at h
            split at h
            · simp only [Except.error.injEq] at h
              subst h
              exact Or.inr ⟨params, body, hlk⟩
            · exact labelsBind_fault h (ih.1 (depth + 1) body) (ih.2 depth args)
    · intro depth args err h
      cases args with
      | nil => simp [labelsOfArgs] at h
      | cons a as =>
        simp only [labelsOfArgs] at h
        exact labelsBind_fault h (ih.1 depth a) (ih.2 depth as)

theorem labelsOf_fault (ms : List (String × MacroDef)) (f depth : Nat) (e : Expr) (err : EvErr)
    (h : labelsOf ms f depth e = .error err) : EvFault ms err := (labelsOf_fault_aux ms f).1 depth e err h

/-! ### every place an assembler error of the three kinds is produced -/

/-- what an assembler error of the three kinds says about the macro table of the scope that reports it
(nothing for the other kinds) -/
def AsmFault (ms : List (String × MacroDef)) : AsmErr → Prop
  | .undeclaredExpressionMacro n => ∀ ps b, lookupMacro ms n ≠ some (.expr ps b)
  | .macroArgumentCount n => ∃ ps b, lookupMacro ms n = some (.instr ps b)
  | .macroRecursionLimit n => n = evalFuelMark ∨ ∃ d, lookupMacro ms n = some d
  | _ => True

def FaultR {α : Type} (ms : List (String × MacroDef)) (r : Except AsmErr α) : Prop :=
  ∀ e, r = .error e → AsmFault ms e

theorem faultR_ok {α : Type} (ms : List (String × MacroDef)) (a : α) : FaultR ms (.ok a : Except AsmErr α) := by
  intro e h; cases h

theorem faultR_error {α : Type} (ms : List (String × MacroDef)) (x : AsmErr) :
    FaultR ms (.error x : Except AsmErr α) ↔ AsmFault ms x := by
  constructor
  · intro h; exact h x rfl
  · intro h e he; injection he with he; subst he; exact h

theorem FaultR.retype {α β : Type} {ms : List (String × MacroDef)} {e : AsmErr}
    (h : FaultR ms (.error e : Except AsmErr α)) : FaultR ms (.error e : Except AsmErr β) :=
  (faultR_error ms e).2 ((faultR_error ms e).1 h)

theorem mapErr_fault {ms : List (String × MacroDef)} {err : EvErr} (h : EvFault ms err) :
    AsmFault ms (mapErr err) := by
  cases err with
  | unknownLabel l => simp [mapErr, AsmFault]
  | unknownMacro n => exact h
  | undefinedVariable v => simp [mapErr, AsmFault]
  | divisionByZero => simp [mapErr, AsmFault]
  | recursionLimit n =>
    rcases h with h | ⟨ps, b, h⟩
    · exact Or.inl h
    · exact Or.inr ⟨_, h⟩

theorem mentionedOf_fault (ms : List (String × MacroDef)) (o : AOp) : FaultR ms (mentionedOf ms o) := by
  unfold mentionedOf
  cases o.expr? with
  | none => exact faultR_ok _ _
  | some e =>
    simp only []
    cases hl : labelsOf ms evalFuel 0 e with
    | ok L => exact faultR_ok _ _
    | error err =>
      have hf := labelsOf_fault ms evalFuel 0 e err hl
      cases err with
      | unknownLabel l => simp [faultR_error, AsmFault]
      | unknownMacro n => simp only [faultR_error]; exact hf
      | undefinedVariable v => simp [faultR_error, AsmFault]
      | divisionByZero => simp [faultR_error, AsmFault]
      | recursionLimit n => simp only [faultR_error]; exact mapErr_fault (err := .recursionLimit n) hf

theorem concretizeOp_fault (c : Ctx) (code : Nat) (imm : Option Expr) (err : EvErr)
    (h : concretizeOp c code imm = .ctx err) : EvFault c.macros err := by
  unfold concretizeOp at h
  cases imm with
  | none => simp at h
  | some e =>
    simp only [] at h
    cases hev : eval evalFuel c e with
    | error e2 =>
      rw [hev] at h
      simp only [Conc.ctx.injEq] at h
      subst h
      exact eval_fault _ _ _ _ hev
    | ok v =>
      rw [hev] at h
      simp only [] at h
      split at h
      · cases h
      · split at h <;> cases h

theorem concretizePush_fault (c : Ctx) (e : Expr) (err : EvErr)
    (h : concretizePush c e = .ctx err) : EvFault c.macros err := by
  unfold concretizePush at h
  cases hev : eval evalFuel c e with
  | error e2 =>
    rw [hev] at h
    simp only [Conc.ctx.injEq] at h
    subst h
    exact eval_fault _ _ _ _ hev
  | ok v =>
    rw [hev] at h
    simp only [] at h
    split at h
    · cases h
    · split at h <;> cases h

theorem pushInstr_fault (s : St) (o : AOp) (item : Item) (size : Option Nat) (conc : St → Conc)
    (hconc : ∀ (s1 : St) err, s1.macros = s.macros → conc s1 = .ctx err → EvFault s.macros err) :
    FaultR s.macros (pushInstr s o item size conc) := by
  rw [pushInstr_eq]
  cases hm : mentionedOf s.macros o with
  | error e =>
    simp only []
    have := mentionedOf_fault s.macros o
    rw [hm] at this
    exact this.retype
  | ok L =>
    simp only []
    cases hc : conc { s with undeclared := (L.filter (fun l => !isDefined s l)).foldl insertSet s.undeclared } with
    | ok bytes => exact faultR_ok _ _
    | tooLarge => simp only []; split <;> simp [faultR_ok, faultR_error, AsmFault]
    | negative => simp only []; split <;> simp [faultR_ok, faultR_error, AsmFault]
    | ctx err =>
      have hf := mapErr_fault (hconc { s with undeclared := (L.filter (fun l => !isDefined s l)).foldl insertSet s.undeclared } err rfl hc)
      cases err with
      | divisionByZero => simp only []; split <;> simp [faultR_ok, faultR_error, AsmFault]
      | unknownLabel l => exact faultR_ok _ _
      | unknownMacro n => simp only [faultR_error]; exact hf
      | undefinedVariable n => simp only [faultR_error]; exact hf
      | recursionLimit n => simp only [faultR_error]; exact hf

theorem instantiate_err (rnd : Nat → Nat) (name : String) (params : List String) (body : List AOp)
    (args : List Expr) (fresh : Nat) (e : AsmErr) (h : instantiate rnd name params body args fresh = .error e) :
    e = .macroArgumentCount name ∨ ∃ l, e = .duplicateLabel l := by
  unfold instantiate at h
  split at h
  · left; injection h with h; exact h.symm
  · cases hr : renameLocals rnd name body fresh [] with
    | error e2 =>
      rw [hr] at h
      simp only [Except.error.injEq] at h
      subst h
      exact Or.inr (renameLocals_err rnd name body fresh [] _ hr)
    | ok r => obtain ⟨a, b, c⟩ := r; rw [hr] at h; simp at h

theorem toExcept_fault (ms : List (String × MacroDef)) (k : Conc) (hk : ∀ err, k = .ctx err → EvFault ms err) :
    FaultR ms k.toExcept := by
  cases k with
  | ok bs => exact faultR_ok _ _
  | tooLarge => simp [Conc.toExcept, faultR_error, AsmFault]
  | negative => simp [Conc.toExcept, faultR_error, AsmFault]
  | ctx err => simp only [Conc.toExcept, faultR_error]; exact mapErr_fault (hk err rfl)

theorem emitItem_fault (c : Ctx) (item : Item) (ws : List Nat) : FaultR c.macros (emitItem c item ws) := by
  cases item with
  | label l => exact faultR_ok _ _
  | raw bs => exact faultR_ok _ _
  | op code imm => exact toExcept_fault _ _ (concretizeOp_fault c code imm)
  | push ex => exact toExcept_fault _ _ (concretizeOp_fault c _ (some ex))

theorem emit_fault (c : Ctx) (items : List Item) : ∀ ws, FaultR c.macros (emit c items ws) := by
  induction items with
  | nil => intro ws; exact faultR_ok _ _
  | cons x rest ih =>
    intro ws
    rw [emit_cons]
    have h1 := emitItem_fault c x ws
    cases hx : emitItem c x ws with
    | error e => rw [hx] at h1; exact h1.retype
    | ok bs =>
      simp only []
      have h2 := ih (ws.drop (pushCount [x]))
      cases hy : emit c rest (ws.drop (pushCount [x])) with
      | error e => rw [hy] at h2; exact h2.retype
      | ok more => exact faultR_ok _ _

theorem finish_fault (s : St) : FaultR s.macros (finish s) := by
  rw [finish_unfold]
  split
  · simp [faultR_error, AsmFault]
  · exact emit_fault ⟨_, s.macros, none, 0⟩ _ _

/-- within one scope, an error of the three kinds speaks about the scope's macro table -/
theorem ops_fault (rnd : Nat → Nat) : ∀ f,
    (∀ s o, FaultR s.macros (push rnd f s (.op o))) ∧
    (∀ s name args, FaultR s.macros (expandMacro rnd f s name args)) ∧
    (∀ s body, FaultR s.macros (feed rnd f s body)) := by
  intro f
  induction f with
  | zero =>
    refine ⟨?_, ?_, ?_⟩
    · intro s o; simp [push, faultR_error, AsmFault]
    · intro s name args; simp [expandMacro, faultR_error, AsmFault]
    · intro s body; simp [feed, faultR_error, AsmFault]
  | succ f ih =>
    obtain ⟨ihP, ihM, ihF⟩ := ih
    refine ⟨?_, ?_, ?_⟩
    · intro s o
      cases o with
      | label l =>
        simp only [push]
        split
        · simp [faultR_error, AsmFault]
        · exact faultR_ok _ _
      | instrDef n ps body => simp only [push]; exact faultR_ok _ _
      | exprDef n ps body => simp only [push]; exact faultR_ok _ _
      | «macro» name args => simp only [push]; exact ihM s name args
      | op code imm =>
        simp only [push]
        apply pushInstr_fault
        intro s1 err hs1 hc
        have := concretizeOp_fault s1.ctx code imm err hc
        simp only [St.ctx] at this
        rw [hs1] at this
        exact this
      | push ex =>
        simp only [push]
        apply pushInstr_fault
        intro s1 err hs1 hc
        have := concretizePush_fault s1.ctx ex err hc
        simp only [St.ctx] at this
        rw [hs1] at this
        exact this
    · intro s name args
      simp only [expandMacro]
      cases hlk : lookupMacro s.macros name with
      | none => simp [faultR_error, AsmFault]
      | some md =>
        cases md with
        | expr ps body => simp [faultR_error, AsmFault]
        | instr params body =>
          simp only []
          split
          · simp only [faultR_error]
            exact ⟨params, body, hlk⟩
          · split
            · simp only [faultR_error]
              exact Or.inr ⟨_, hlk⟩
            · cases hinst : instantiate rnd name params body args s.fresh with
              | error e =>
                simp only [faultR_error]
                rcases instantiate_err _ _ _ _ _ _ _ hinst with he | ⟨l, he⟩
                · subst he; exact ⟨params, body, hlk⟩
                · subst he; simp [AsmFault]
              | ok r =>
                obtain ⟨body2, k⟩ := r
                simp only []
                cases hfeed : feed rnd f { s with depth := s.depth + 1, fresh := k } body2 with
                | error e =>
                  simp only [faultR_error]
                  exact ihF { s with depth := s.depth + 1, fresh := k } body2 e hfeed
                | ok s' => exact faultR_ok _ _
    · intro s body
      cases body with
      | nil => simp only [feed]; exact faultR_ok _ _
      | cons o os =>
        simp only [feed]
        cases hpush : push rnd f s (.op o) with
        | error e =>
          simp only [faultR_error]
          exact ihP s o e hpush
        | ok s' =>
          simp only []
          have := ihF s' os
          rw [((pres rnd f).1 _ _ _ hpush).1] at this
          exact this

/-! ### the steps induction through nested scopes -/

/-- an error none of the three statements speaks about -/
def NoFault (e : AsmErr) : Prop := ∀ ms, AsmFault ms e

/-- the program itself or one of its nested scopes has a macro table the error speaks about -/
def FaultProv (ops : RawOps) (e : AsmErr) : Prop :=
  ∃ (sub : RawOps) (ms : List (String × MacroDef)),
    SubScope sub ops ∧ declareMacros sub.toList [] = .ok ms ∧ AsmFault ms e

theorem FaultProv.nested {inner ops : RawOps} {e : AsmErr}
    (hmem : RawOp.scope inner ∈ ops.toList) (h : FaultProv inner e) : FaultProv ops e := by
  obtain ⟨sub, ms, hsub, rest⟩ := h
  exact ⟨sub, ms, SubScope.nested sub inner ops hmem hsub, rest⟩

theorem faultProv_steps (rnd : Nat → Nat) : ∀ f,
    (∀ k ops e, assemble rnd f { fresh := k } ops = .error e → NoFault e ∨ FaultProv ops e) ∧
    (∀ s rop e, push rnd f s rop = .error e →
      AsmFault s.macros e ∨ ∃ inner, rop = .scope inner ∧ FaultProv inner e) ∧
    (∀ s ops e, feedAll rnd f s ops = .error e →
      AsmFault s.macros e ∨ ∃ inner, RawOp.scope inner ∈ ops.toList ∧ FaultProv inner e) := by
  intro f
  induction f with
  | zero =>
    refine ⟨?_, ?_, ?_⟩
    · intro k ops e h
      simp only [assemble, Except.error.injEq] at h
      subst h
      left; intro ms; simp [AsmFault]
    · intro s rop e h
      simp only [push, Except.error.injEq] at h
      subst h
      left; simp [AsmFault]
    · intro s ops e h
      simp only [feedAll, Except.error.injEq] at h
      subst h
      left; simp [AsmFault]
  | succ f ih =>
    obtain ⟨ihA, ihP, ihF⟩ := ih
    refine ⟨?_, ?_, ?_⟩
    · intro k ops e h
      simp only [assemble] at h
      cases hdm : declareMacros ops.toList [] with
      | error e2 =>
        rw [hdm] at h
        simp only [Except.error.injEq] at h
        subst h
        obtain ⟨m, hm⟩ := declareMacros_err _ _ _ hdm
        subst hm
        left; intro ms; simp [AsmFault]
      | ok ms =>
        rw [hdm] at h
        simp only [] at h
        cases hfa : feedAll rnd f { macros := ms, fresh := k } ops with
        | error e2 =>
          rw [hfa] at h
          simp only [Except.error.injEq] at h
          subst h
          rcases ihF _ _ _ hfa with hg | ⟨inner, hmem, hp⟩
          · exact Or.inr ⟨ops, ms, SubScope.refl ops, hdm, hg⟩
          · exact Or.inr (hp.nested hmem)
        | ok s =>
          rw [hfa] at h
          simp only [] at h
          have hms : s.macros = ms := by
            have := (all_steps rnd f).2.2.2.1 ms { macros := ms, fresh := k } [] ops (sim_init ms k)
            obtain ⟨items, _, hsim⟩ := this.1 s hfa
            exact hsim.macros
          cases hx : finish s with
          | error e2 =>
            rw [hx] at h
            simp only [Except.map, Except.error.injEq] at h
            subst h
            have := finish_fault s _ hx
            rw [hms] at this
            exact Or.inr ⟨ops, ms, SubScope.refl ops, hdm, this⟩
          | ok b => rw [hx] at h; simp [Except.map] at h
    · intro s rop e h
      cases rop with
      | op o => exact Or.inl ((ops_fault rnd (f + 1)).1 s o e h)
      | raw bs => simp [push] at h
      | scope inner =>
        simp only [push] at h
        cases hasm : assemble rnd f { fresh := s.fresh } inner with
        | error e2 =>
          rw [hasm] at h
          simp only [Except.error.injEq] at h
          subst h
          rcases ihA _ _ _ hasm with hn | hp
          · exact Or.inl (hn _)
          · exact Or.inr ⟨inner, rfl, hp⟩
        | ok r => obtain ⟨b, k⟩ := r; rw [hasm] at h; simp at h
    · intro s ops e h
      cases ops with
      | nil => simp [feedAll] at h
      | cons o rest =>
        simp only [feedAll] at h
        cases hpush : push rnd f s o with
        | error e2 =>
          rw [hpush] at h
          simp only [Except.error.injEq] at h
          subst h
          rcases ihP _ _ _ hpush with hg | ⟨inner, hi, hp⟩
          · exact Or.inl hg
          · subst hi
            exact Or.inr ⟨inner, by simp [RawOps.toList], hp⟩
        | ok s' =>
          rw [hpush] at h
          simp only [] at h
          rcases ihF _ _ _ h with hg | ⟨inner, hmem, hp⟩
          · left
            rw [((pres rnd f).1 _ _ _ hpush).1] at hg
            exact hg
          · exact Or.inr ⟨inner, by simp only [RawOps.toList]; exact List.mem_cons_of_mem _ hmem, hp⟩

/-! ### the three statements -/

theorem undeclaredExpressionMacro_provenance (rnd : Nat → Nat) (fuel k : Nat) (ops : RawOps) (n : String)
    (h : assemble rnd fuel { fresh := k } ops = .error (.undeclaredExpressionMacro n)) :
    ∃ (sub : RawOps) (ms : List (String × MacroDef)),
      SubScope sub ops ∧ declareMacros sub.toList [] = .ok ms ∧
      ∀ ps body, lookupMacro ms n ≠ some (.expr ps body) := by
  rcases (faultProv_steps rnd fuel).1 k ops _ h with hn | hp
  · exfalso
    have := hn [(n, .expr [] (.num 0))] [] (.num 0)
    simp [lookupMacro] at this
  · exact hp

/-- `MacroArgumentCount n`: the reporting scope declares an INSTRUCTION macro `n` (expression macros never
report their arity in the model) -/
theorem macroArgumentCount_provenance_instr (rnd : Nat → Nat) (fuel k : Nat) (ops : RawOps) (n : String)
    (h : assemble rnd fuel { fresh := k } ops = .error (.macroArgumentCount n)) :
    ∃ (sub : RawOps) (ms : List (String × MacroDef)) (ps : List String) (body : List AOp),
      SubScope sub ops ∧ declareMacros sub.toList [] = .ok ms ∧ lookupMacro ms n = some (.instr ps body) := by
  rcases (faultProv_steps rnd fuel).1 k ops _ h with hn | hp
  · exfalso
    obtain ⟨ps, b, hc⟩ := hn []
    simp [lookupMacro] at hc
  · obtain ⟨sub, ms, hsub, hdm, ps, b, hlk⟩ := hp
    exact ⟨sub, ms, ps, b, hsub, hdm, hlk⟩

theorem macroArgumentCount_provenance (rnd : Nat → Nat) (fuel k : Nat) (ops : RawOps) (n : String)
    (h : assemble rnd fuel { fresh := k } ops = .error (.macroArgumentCount n)) :
    ∃ (sub : RawOps) (ms : List (String × MacroDef)) (d : MacroDef),
      SubScope sub ops ∧ declareMacros sub.toList [] = .ok ms ∧ lookupMacro ms n = some d := by
  obtain ⟨sub, ms, ps, b, hsub, hdm, hlk⟩ := macroArgumentCount_provenance_instr rnd fuel k ops n h
  exact ⟨sub, ms, _, hsub, hdm, hlk⟩

theorem macroRecursionLimit_provenance (rnd : Nat → Nat) (fuel k : Nat) (ops : RawOps) (n : String)
    (h : assemble rnd fuel { fresh := k } ops = .error (.macroRecursionLimit n)) :
    n = evalFuelMark ∨
    ∃ (sub : RawOps) (ms : List (String × MacroDef)) (d : MacroDef),
      SubScope sub ops ∧ declareMacros sub.toList [] = .ok ms ∧ lookupMacro ms n = some d := by
  rcases (faultProv_steps rnd fuel).1 k ops _ h with hn | hp
  · rcases hn [] with hf | ⟨d, hc⟩
    · exact Or.inl hf
    · simp [lookupMacro] at hc
  · obtain ⟨sub, ms, hsub, hdm, hf | ⟨d, hlk⟩⟩ := hp
    · exact Or.inl hf
    · exact Or.inr ⟨sub, ms, d, hsub, hdm, hlk⟩

end Asm
end EtkVerif
