/-
Auxiliary lemmas for `LayoutLemmas`: `bytesBE`, label tables, passes over item
lists, label-independence of closed operand expressions.
-/
import EtkVerif.Asm.Assemble
namespace EtkVerif
namespace Asm

/-! ### `bytesBE` -/

theorem bytesBE_go_spec : ∀ (fuel n : Nat) (acc : List Nat), n < fuel →
    ∃ ds, bytesBE.go fuel n acc = ds ++ acc ∧ (n = 0 → ds = []) ∧
      (0 < n → 1 ≤ ds.length ∧ 256 ^ (ds.length - 1) ≤ n) ∧
      n < 256 ^ ds.length ∧ ds.foldl (fun acc b => acc * 256 + b) 0 = n ∧ ∀ b ∈ ds, b < 256 := by
  intro fuel
  induction fuel with
  | zero => intro n acc h; omega
  | succ fuel ih =>
    intro n acc h
    unfold bytesBE.go
    by_cases hn : n = 0
    · subst hn; exact ⟨[], by simp⟩
    · simp only [hn, if_false]
      have hlt : n / 256 < fuel := by omega
      obtain ⟨ds, h1, h2, h3, h4, h5, h6⟩ := ih (n / 256) (n % 256 :: acc) hlt
      refine ⟨ds ++ [n % 256], ?_, ?_, ?_, ?_, ?_, ?_⟩
      · rw [h1]; simp
      · intro h; exact h.elim
      · intro _
        refine ⟨by simp, ?_⟩
        simp only [List.length_append, List.length_cons, List.length_nil, Nat.add_sub_cancel]
        by_cases hq : n / 256 = 0
        · have := h2 hq; subst this; simp; omega
        · have ⟨ha, hb⟩ := h3 (by omega)
          have : ds.length = (ds.length - 1) + 1 := by omega
          rw [this, Nat.pow_succ]; omega
      · simp only [List.length_append, List.length_cons, List.length_nil, Nat.pow_succ]; omega
      · simp only [List.foldl_append, h5, List.foldl_cons, List.foldl_nil]; omega
      · intro b hb
        simp only [List.mem_append, List.mem_singleton] at hb
        rcases hb with hb | hb
        · exact h6 b hb
        · omega

theorem bytesBE_spec' (n : Nat) :
    1 ≤ (bytesBE n).length ∧ n < 256 ^ (bytesBE n).length ∧
    (∀ k, 1 ≤ k → n < 256 ^ k → (bytesBE n).length ≤ k) ∧
    (bytesBE n).foldl (fun acc b => acc * 256 + b) 0 = n ∧ (∀ b ∈ bytesBE n, b < 256) := by
  unfold bytesBE
  by_cases hn : n = 0
  · subst hn; simp; intro k hk _; exact hk
  · simp only [hn, if_false]
    obtain ⟨ds, h1, _, h3, h4, h5, h6⟩ := bytesBE_go_spec (n + 1) n [] (by omega)
    rw [h1, List.append_nil]
    have ⟨ha, hb⟩ := h3 (by omega)
    refine ⟨ha, h4, ?_, h5, h6⟩
    intro k hk hlt
    apply Classical.byContradiction
    intro hc
    have : 256 ^ k ≤ 256 ^ (ds.length - 1) := Nat.pow_le_pow_right (by omega) (by omega)
    omega

theorem bytesBE_length_pos (n : Nat) : 1 ≤ (bytesBE n).length := (bytesBE_spec' n).1

/-! ### label tables -/

theorem lookupLabel_nil (l : String) : lookupLabel [] l = none := rfl

theorem lookupLabel_cons (p : String × Option Nat) (ls : List (String × Option Nat)) (l : String) :
    lookupLabel (p :: ls) l = if p.1 = l then some p.2 else lookupLabel ls l := by
  unfold lookupLabel
  by_cases h : p.1 = l
  · simp [h]
  · simp [h]

theorem lookupLabel_none_of_not_any (ls : List (String × Option Nat)) (l : String)
    (h : ls.any (·.1 == l) = false) : lookupLabel ls l = none := by
  induction ls with
  | nil => rfl
  | cons p ls ih =>
    simp only [List.any_cons, Bool.or_eq_false_iff, beq_eq_false_iff_ne, ne_eq] at h
    rw [lookupLabel_cons, if_neg h.1]
    exact ih h.2

theorem lookupLabel_append_single (ls : List (String × Option Nat)) (l l' : String) (v : Option Nat) :
    lookupLabel (ls ++ [(l, v)]) l' =
      match lookupLabel ls l' with
      | some x => some x
      | none => if l = l' then some v else none := by
  induction ls with
  | nil => simp [lookupLabel_cons, lookupLabel_nil]
  | cons p ls ih =>
    rw [List.cons_append, lookupLabel_cons, lookupLabel_cons]
    by_cases h : p.1 = l'
    · simp [h]
    · simp only [h, if_false]; exact ih

theorem lookupLabel_map_set (ls : List (String × Option Nat)) (l l' : String) (v : Option Nat) :
    lookupLabel (ls.map (fun p => if p.1 == l then (l, v) else p)) l' =
      if l' = l then (if ls.any (·.1 == l) then some v else none) else lookupLabel ls l' := by
  induction ls with
  | nil => simp [lookupLabel_nil]
  | cons p ls ih =>
    rw [List.map_cons, lookupLabel_cons, lookupLabel_cons, ih, List.any_cons]
    by_cases hp : p.1 = l
    · by_cases hl : l' = l
      · subst hl; subst hp; simp
      · have : ¬ l = l' := fun h => hl h.symm
        subst hp
        simp [hl, this]
    · by_cases hl : l' = l
      · subst hl
        have hb : (p.1 == l') = false := by simpa using hp
        rw [hb, Bool.false_or]
        simp [hp]
      · simp [hp, hl]

theorem lookupLabel_setLabel (ls : List (String × Option Nat)) (l l' : String) (v : Option Nat) :
    lookupLabel (setLabel ls l v) l' = if l' = l then some v else lookupLabel ls l' := by
  unfold setLabel
  by_cases h : ls.any (·.1 == l) = true
  · rw [if_pos h, lookupLabel_map_set, if_pos h]
  · rw [if_neg h, lookupLabel_append_single]
    have h' : ls.any (·.1 == l) = false := by
      cases hh : ls.any (·.1 == l)
      · rfl
      · exact absurd hh h
    by_cases hl : l' = l
    · subst hl
      rw [lookupLabel_none_of_not_any ls l' h']
    · have : ¬ l = l' := fun h => hl h.symm
      simp only [hl, this, if_false]
      cases lookupLabel ls l' <;> rfl

/-! ### item lists -/

theorem pushCount_nil : pushCount [] = 0 := rfl
theorem pushCount_cons_push (e : Expr) (a : List Item) : pushCount (.push e :: a) = pushCount a + 1 := by
  simp [pushCount]
theorem pushCount_cons_label (l : String) (a : List Item) : pushCount (.label l :: a) = pushCount a := by
  simp [pushCount]
theorem pushCount_cons_op (code : Nat) (imm : Option Expr) (a : List Item) :
    pushCount (.op code imm :: a) = pushCount a := by
  simp [pushCount]
theorem pushCount_cons_raw (bs : List Nat) (a : List Item) : pushCount (.raw bs :: a) = pushCount a := by
  simp [pushCount]
theorem pushCount_append (a b : List Item) : pushCount (a ++ b) = pushCount a + pushCount b := by
  simp [pushCount]
theorem pushCount_cons (x : Item) (a : List Item) : pushCount (x :: a) = pushCount [x] + pushCount a :=
  pushCount_append [x] a

def Conc.toExcept : Conc → Except AsmErr (List Nat)
  | .ok bs => .ok bs
  | .tooLarge => .error .expressionTooLarge
  | .negative => .error .expressionNegative
  | .ctx e => .error (mapErr e)

theorem Conc.toExcept_ok {k : Conc} {bs : List Nat} (h : k.toExcept = .ok bs) : k = .ok bs := by
  cases k <;> simp [Conc.toExcept] at h
  subst h; rfl

/-- what `emit` writes for one item -/
def emitItem (c : Ctx) (item : Item) (ws : List Nat) : Except AsmErr (List Nat) :=
  match item with
  | .label _ => .ok []
  | .raw bytes => .ok bytes
  | .op code imm => (concretizeOp c code imm).toExcept
  | .push e => (concretizeOp c (0x5f + ws.headD 1) (some e)).toExcept

theorem emit_cons (c : Ctx) (item : Item) (rest : List Item) (ws : List Nat) :
    emit c (item :: rest) ws =
      match emitItem c item ws with
      | .error e => .error e
      | .ok bs => match emit c rest (ws.drop (pushCount [item])) with
        | .error e => .error e
        | .ok more => .ok (bs ++ more) := by
  cases item <;> rfl

theorem emit_append' (c : Ctx) (a b : List Item) (ws : List Nat) :
    emit c (a ++ b) ws =
      (match emit c a ws with
       | .error e => .error e
       | .ok x => match emit c b (ws.drop (pushCount a)) with
         | .error e => .error e
         | .ok y => .ok (x ++ y)) := by
  induction a generalizing ws with
  | nil =>
    simp only [List.nil_append, emit, pushCount_nil, List.drop_zero]
    cases emit c b ws <;> simp
  | cons x a ih =>
    rw [List.cons_append, emit_cons, emit_cons, ih, pushCount_cons x a, List.drop_drop]
    cases emitItem c x ws with
    | error e => rfl
    | ok bs =>
      simp only []
      cases emit c a (List.drop (pushCount [x]) ws) with
      | error e => rfl
      | ok as =>
        simp only []
        cases emit c b (List.drop (pushCount [x] + pushCount a) ws) with
        | error e => rfl
        | ok bs' => simp

/-- the shape of a successfully concretized instruction with an operand -/
theorem concretizeOp_some_ok {c : Ctx} {code : Nat} {e : Expr} {bs : List Nat}
    (h : concretizeOp c code (some e) = .ok bs) :
    ∃ v : Int, eval evalFuel c e = .ok v ∧ 0 ≤ v ∧ (bytesBE v.toNat).length ≤ immLen code ∧
      bs = code :: (List.replicate (immLen code - (bytesBE v.toNat).length) 0 ++ bytesBE v.toNat) := by
  unfold concretizeOp at h
  simp only [] at h
  cases hev : eval evalFuel c e with
  | error err => rw [hev] at h; simp at h
  | ok v =>
    rw [hev] at h
    simp only [] at h
    by_cases hneg : v < 0
    · simp [hneg] at h
    · simp only [hneg, if_false] at h
      by_cases hlen : (bytesBE v.toNat).length > immLen code
      · simp [hlen] at h
      · simp only [hlen, if_false] at h
        refine ⟨v, rfl, by omega, by omega, ?_⟩
        injection h with h
        exact h.symm

theorem concretizeOp_some_length {c : Ctx} {code : Nat} {e : Expr} {bs : List Nat}
    (h : concretizeOp c code (some e) = .ok bs) :
    bs.length = 1 + immLen code ∧ 1 ≤ immLen code := by
  obtain ⟨v, _, _, hlen, rfl⟩ := concretizeOp_some_ok h
  have := bytesBE_length_pos v.toNat
  simp only [List.length_cons, List.length_append, List.length_replicate]
  omega

theorem immLen_push_width {w : Nat} (h : 1 ≤ immLen (0x5f + w)) : immLen (0x5f + w) = w ∧ 1 ≤ w ∧ w ≤ 32 := by
  unfold immLen at h ⊢
  by_cases hc : 0x60 ≤ 0x5f + w ∧ 0x5f + w ≤ 0x7f
  · simp only [hc, and_self, if_true] at h ⊢; omega
  · simp only [hc, if_false] at h; omega

/-! ### positions pass -/

theorem positionsPass_append (a b : List Item) (ws : List Nat) (pos : Nat) (ls : List (String × Option Nat)) :
    positionsPass (a ++ b) ws pos ls =
      positionsPass b (ws.drop (pushCount a)) (positionsPass a ws pos ls).2 (positionsPass a ws pos ls).1 := by
  induction a generalizing ws pos ls with
  | nil => simp [positionsPass, pushCount_nil]
  | cons x a ih =>
    cases x with
    | label l => simp only [List.cons_append, positionsPass, pushCount_cons_label, ih]
    | op code imm => simp only [List.cons_append, positionsPass, pushCount_cons_op, ih]
    | raw bytes => simp only [List.cons_append, positionsPass, pushCount_cons_raw, ih]
    | push e =>
      simp only [List.cons_append, positionsPass, pushCount_cons_push, ih, List.drop_drop]
      rw [Nat.add_comm 1]

/-- a label that does not occur among the items keeps its table entry -/
theorem positionsPass_lookup_other (items : List Item) (ws : List Nat) (pos : Nat)
    (ls : List (String × Option Nat)) (l : String) (hl : Item.label l ∉ items) :
    lookupLabel (positionsPass items ws pos ls).1 l = lookupLabel ls l := by
  induction items generalizing ws pos ls with
  | nil => rfl
  | cons x rest ih =>
    have hrest : Item.label l ∉ rest := fun h => hl (List.mem_cons_of_mem _ h)
    cases x with
    | label l' =>
      have hne : l ≠ l' := by
        intro h; subst h; exact hl (List.mem_cons_self ..)
      simp only [positionsPass]
      rw [ih _ _ _ hrest]
      split
      · rw [lookupLabel_setLabel, if_neg hne]
      · rfl
    | op code imm => simp only [positionsPass]; exact ih _ _ _ hrest
    | raw bytes => simp only [positionsPass]; exact ih _ _ _ hrest
    | push e => simp only [positionsPass]; exact ih _ _ _ hrest

/-! ### widths pass and the layout loop -/

/-- the new width of one variable-sized push -/
def stepWidth (c : Ctx) (e : Expr) (w : Nat) : Nat :=
  match eval evalFuel c e with
  | .ok v => max w (neededWidth v)
  | .error _ => w

theorem widthsPass_push (c : Ctx) (e : Expr) (rest : List Item) (ws : List Nat) :
    widthsPass c (.push e :: rest) ws = stepWidth c e (ws.headD 1) :: widthsPass c rest (ws.drop 1) := rfl

theorem le_stepWidth (c : Ctx) (e : Expr) (w : Nat) : w ≤ stepWidth c e w := by
  unfold stepWidth
  split
  · exact Nat.le_max_left ..
  · exact Nat.le_refl _

theorem neededWidth_le (v : Int) : neededWidth v ≤ 32 := Nat.min_le_left ..

theorem stepWidth_le (c : Ctx) (e : Expr) (w : Nat) (h : w ≤ 32) : stepWidth c e w ≤ 32 := by
  unfold stepWidth
  split
  · exact Nat.max_le.2 ⟨h, neededWidth_le _⟩
  · exact h

theorem widthsPass_length (c : Ctx) (ready : List Item) (ws : List Nat) :
    (widthsPass c ready ws).length = pushCount ready := by
  induction ready generalizing ws with
  | nil => rfl
  | cons x rest ih =>
    cases x with
    | push e => rw [widthsPass_push, List.length_cons, ih, pushCount_cons_push]
    | label l => simp only [widthsPass, pushCount_cons_label, ih]
    | op code imm => simp only [widthsPass, pushCount_cons_op, ih]
    | raw bytes => simp only [widthsPass, pushCount_cons_raw, ih]

theorem widthsPass_append (c : Ctx) (a b : List Item) (ws : List Nat) :
    widthsPass c (a ++ b) ws = widthsPass c a ws ++ widthsPass c b (ws.drop (pushCount a)) := by
  induction a generalizing ws with
  | nil => simp [widthsPass, pushCount_nil]
  | cons x rest ih =>
    cases x with
    | push e =>
      rw [List.cons_append, widthsPass_push, widthsPass_push, ih, pushCount_cons_push, List.drop_drop,
        List.cons_append, Nat.add_comm 1]
    | label l => simp only [List.cons_append, widthsPass, pushCount_cons_label, ih]
    | op code imm => simp only [List.cons_append, widthsPass, pushCount_cons_op, ih]
    | raw bytes => simp only [List.cons_append, widthsPass, pushCount_cons_raw, ih]

theorem widthsPass_bounds (c : Ctx) (ready : List Item) (ws : List Nat)
    (h : ∀ w ∈ ws, 1 ≤ w ∧ w ≤ 32) : ∀ w ∈ widthsPass c ready ws, 1 ≤ w ∧ w ≤ 32 := by
  induction ready generalizing ws with
  | nil => intro w hw; simp [widthsPass] at hw
  | cons x rest ih =>
    cases x with
    | push e =>
      rw [widthsPass_push]
      have hd : 1 ≤ ws.headD 1 ∧ ws.headD 1 ≤ 32 := by
        cases ws with
        | nil => simp
        | cons w ws => exact h w (List.mem_cons_self ..)
      have hdrop : ∀ w ∈ ws.drop 1, 1 ≤ w ∧ w ≤ 32 := fun w hw => h w (List.mem_of_mem_drop hw)
      intro w hw
      rcases List.mem_cons.1 hw with hw | hw
      · subst hw
        exact ⟨Nat.le_trans hd.1 (le_stepWidth ..), stepWidth_le _ _ _ hd.2⟩
      · exact ih _ hdrop w hw
    | label l => simp only [widthsPass]; exact ih ws h
    | op code imm => simp only [widthsPass]; exact ih ws h
    | raw bytes => simp only [widthsPass]; exact ih ws h

theorem widthsPass_sum (c : Ctx) (ready : List Item) (ws : List Nat) (hl : ws.length = pushCount ready) :
    ws.sum ≤ (widthsPass c ready ws).sum ∧
      ((widthsPass c ready ws).sum = ws.sum → widthsPass c ready ws = ws) := by
  induction ready generalizing ws with
  | nil =>
    rw [pushCount_nil] at hl
    have : ws = [] := List.eq_nil_of_length_eq_zero hl
    subst this
    simp [widthsPass]
  | cons x rest ih =>
    cases x with
    | push e =>
      rw [pushCount_cons_push] at hl
      cases ws with
      | nil => simp at hl
      | cons w ws =>
        rw [widthsPass_push]
        simp only [List.headD_cons, List.drop_succ_cons, List.drop_zero, List.sum_cons]
        have hl' : ws.length = pushCount rest := by simpa using hl
        have ⟨h1, h2⟩ := ih ws hl'
        have h3 := le_stepWidth c e w
        refine ⟨by omega, ?_⟩
        intro heq
        have : stepWidth c e w = w := by omega
        rw [this, h2 (by omega)]
    | label l => simp only [widthsPass]; rw [pushCount_cons_label] at hl; exact ih ws hl
    | op code imm => simp only [widthsPass]; rw [pushCount_cons_op] at hl; exact ih ws hl
    | raw bytes => simp only [widthsPass]; rw [pushCount_cons_raw] at hl; exact ih ws hl

theorem sum_le_of_bounds (ws : List Nat) (h : ∀ w ∈ ws, 1 ≤ w ∧ w ≤ 32) : ws.sum ≤ 32 * ws.length := by
  induction ws with
  | nil => simp
  | cons w ws ih =>
    have h1 := (h w (List.mem_cons_self ..)).2
    have h2 := ih (fun w hw => h w (List.mem_cons_of_mem _ hw))
    simp only [List.sum_cons, List.length_cons]
    omega

theorem layoutLoop_succ (s : St) (fuel : Nat) (ws : List Nat) :
    layoutLoop s (fuel + 1) ws =
      if widthsPass { s.ctx with labels := (positionsPass s.ready ws 0 s.labels).1 } s.ready ws = ws
      then ((positionsPass s.ready ws 0 s.labels).1, ws)
      else layoutLoop s fuel
        (widthsPass { s.ctx with labels := (positionsPass s.ready ws 0 s.labels).1 } s.ready ws) := rfl

/-- anything every widths pass preserves holds of the final widths -/
theorem layoutLoop_invariant (s : St) (P : List Nat → Prop)
    (hstep : ∀ ls ws, P ws → P (widthsPass { s.ctx with labels := ls } s.ready ws)) :
    ∀ fuel ws, P ws → P (layoutLoop s fuel ws).2 := by
  intro fuel
  induction fuel with
  | zero => intro ws h; exact h
  | succ fuel ih =>
    intro ws h
    rw [layoutLoop_succ]
    split
    · exact h
    · exact ih _ (hstep _ _ h)

theorem layoutLoop_spec (s : St) :
    ∀ fuel ws, ws.length = pushCount s.ready → (∀ w ∈ ws, 1 ≤ w ∧ w ≤ 32) →
      32 * pushCount s.ready + 1 ≤ fuel + ws.sum →
      (layoutLoop s fuel ws).2.length = pushCount s.ready ∧
      (∀ w ∈ (layoutLoop s fuel ws).2, 1 ≤ w ∧ w ≤ 32) ∧
      (layoutLoop s fuel ws).1 = (positionsPass s.ready (layoutLoop s fuel ws).2 0 s.labels).1 ∧
      widthsPass { s.ctx with labels := (layoutLoop s fuel ws).1 } s.ready (layoutLoop s fuel ws).2
        = (layoutLoop s fuel ws).2 := by
  intro fuel
  induction fuel with
  | zero =>
    intro ws hl hb hm
    have := sum_le_of_bounds ws hb
    rw [hl] at this
    omega
  | succ fuel ih =>
    intro ws hl hb hm
    rw [layoutLoop_succ]
    split
    · next heq => exact ⟨hl, hb, rfl, heq⟩
    · next hne =>
      have ⟨h1, h2⟩ := widthsPass_sum { s.ctx with labels := (positionsPass s.ready ws 0 s.labels).1 } s.ready ws hl
      have hlt : ws.sum <
          (widthsPass { s.ctx with labels := (positionsPass s.ready ws 0 s.labels).1 } s.ready ws).sum := by
        apply Nat.lt_of_le_of_ne h1
        intro h
        exact hne (h2 h.symm)
      exact ih _ (widthsPass_length ..) (widthsPass_bounds _ _ _ hb) (by omega)

/-! ### closed operand expressions do not depend on the label table -/

theorem bind2_nil {A B : Except EvErr (List String)}
    (h : (match A with
      | .error e => .error e
      | .ok x => match B with
        | .error e => .error e
        | .ok y => .ok (x ++ y)) = (.ok [] : Except EvErr (List String))) :
    A = .ok [] ∧ B = .ok [] := by
  cases A with
  | error e => simp at h
  | ok x =>
    cases B with
    | error e => simp at h
    | ok y =>
      simp only [Except.ok.injEq, List.append_eq_nil_iff] at h
      rw [h.1, h.2]
      exact ⟨rfl, rfl⟩

theorem eval_labels_irrelevant_aux (ms : List (String × MacroDef)) (ls ls' : List (String × Option Nat)) :
    ∀ fuel',
      (∀ e depth, labelsOf ms fuel' depth e = .ok [] → ∀ f vars d,
        eval f ⟨ls, ms, vars, d⟩ e = eval f ⟨ls', ms, vars, d⟩ e) ∧
      (∀ args depth, labelsOfArgs ms fuel' depth args = .ok [] → ∀ f vars d params,
        evalArgs f ⟨ls, ms, vars, d⟩ params args = evalArgs f ⟨ls', ms, vars, d⟩ params args) := by
  intro fuel'
  induction fuel' with
  | zero =>
    constructor
    · intro e depth h; simp [labelsOf] at h
    · intro args depth h; simp [labelsOfArgs] at h
  | succ fuel' ih =>
    constructor
    · intro e depth h f vars d
      cases f with
      | zero => simp [eval]
      | succ f =>
        cases e with
        | paren e =>
          simp only [labelsOf] at h
          simp only [eval]
          exact ih.1 e depth h f vars d
        | num n => simp only [eval]
        | label l => simp [labelsOf] at h
        | var x => simp only [eval]
        | plus a b =>
          simp only [labelsOf] at h
          have ⟨ha, hb⟩ := bind2_nil h
          simp only [eval]
          rw [ih.1 a depth ha f vars d, ih.1 b depth hb f vars d]
        | minus a b =>
          simp only [labelsOf] at h
          have ⟨ha, hb⟩ := bind2_nil h
          simp only [eval]
          rw [ih.1 a depth ha f vars d, ih.1 b depth hb f vars d]
        | times a b =>
          simp only [labelsOf] at h
          have ⟨ha, hb⟩ := bind2_nil h
          simp only [eval]
          rw [ih.1 a depth ha f vars d, ih.1 b depth hb f vars d]
        | divide a b =>
          simp only [labelsOf] at h
          have ⟨ha, hb⟩ := bind2_nil h
          simp only [eval]
          rw [ih.1 a depth ha f vars d, ih.1 b depth hb f vars d]
        | «macro» name args =>
          simp only [labelsOf] at h
          simp only [eval]
          cases hlk : lookupMacro ms name with
          | none => simp [hlk] at h
          | some md =>
            cases md with
            | instr ps body => simp [hlk] at h
            | expr params body =>
              rw [hlk] at h
              simp only [] at h
              by_cases hdep : depth ≥ maxMacroDepth
              · simp [hdep] at h
              · rw [if_neg hdep] at h
                have ⟨hbody, hargs⟩ := bind2_nil h
                simp only []
                rw [ih.2 args depth hargs f vars d params]
                cases evalArgs f ⟨ls', ms, vars, d⟩ params args with
                | error err => rfl
                | ok vs =>
                  simp only []
                  rw [ih.1 body (depth + 1) hbody f (some vs) (d + 1)]
    · intro args depth h f vars d params
      cases f with
      | zero => simp [evalArgs]
      | succ f =>
        cases args with
        | nil => cases params <;> simp [evalArgs]
        | cons a as =>
          simp only [labelsOfArgs] at h
          have ⟨ha, has⟩ := bind2_nil h
          cases params with
          | nil => simp [evalArgs]
          | cons p ps =>
            simp only [evalArgs]
            rw [ih.1 a depth ha f vars d, ih.2 as depth has f vars d ps]

theorem eval_labels_irrelevant (ms : List (String × MacroDef)) (fuel' depth : Nat) (e : Expr)
    (h : labelsOf ms fuel' depth e = .ok []) (c : Ctx) (hc : c.macros = ms)
    (ls' : List (String × Option Nat)) (f : Nat) :
    eval f { c with labels := ls' } e = eval f c e := by
  cases c with
  | mk ls ms' vars d =>
    simp only at hc
    subst hc
    exact (eval_labels_irrelevant_aux ms' ls' ls fuel').1 e depth h f vars d

end Asm
end EtkVerif
