/-
Model of `etk_asm::asm::Assembler` (as repaired): `declare_macros`, `push` for
every `RawOp` arm, `expand_macro`, `backpatch_labels` (widths grow from one byte
until every variable-sized push holds its value under the label positions the
widths imply), `emit_bytecode` (emission at exactly those widths), nested scopes
through a fresh assembler.
-/
import EtkVerif.Asm.Eval
namespace EtkVerif
namespace Asm

/-- `asm::Error` (with the names the error carries). -/
inductive AsmErr
  | duplicateLabel (l : String)
  | duplicateMacro (n : String)
  | expressionTooLarge
  | expressionNegative
  | undeclaredLabels (ls : List String)
  | undeclaredInstructionMacro (n : String)
  | undeclaredExpressionMacro (n : String)
  | undeclaredVariableMacro (v : String)
  | divisionByZero
  | macroArgumentCount (n : String)
  | macroRecursionLimit (n : String)
  | panic (site : String)
  deriving Repr, DecidableEq

/-- What `ready` holds. -/
inductive Item
  | label (l : String)
  | op (code : Nat) (imm : Option Expr)     -- fixed-size instruction
  | push (e : Expr)                         -- variable-sized push
  | raw (bytes : List Nat)

structure St where
  ready : List Item := []
  len : Nat := 0                                    -- `concrete_len` (provisional)
  labels : List (String × Option Nat) := []         -- `declared_labels`, insertion order
  macros : List (String × MacroDef) := []           -- `declared_macros`
  undeclared : List String := []                    -- `undeclared_labels` (a set)
  depth : Nat := 0                                  -- `macro_depth`
  fresh : Nat := 0                                  -- how many random suffixes were drawn

def St.ctx (s : St) : Ctx := { labels := s.labels, macros := s.macros, vars := none, depth := 0 }

/-- immediate length of an opcode byte: N for pushN -/
def immLen (code : Nat) : Nat := if 0x60 ≤ code ∧ code ≤ 0x7f then code - 0x5f else 0

/-- `BigInt::to_bytes_be().1`: minimal big-endian bytes, `[0]` for zero -/
def bytesBE (n : Nat) : List Nat :=
  let rec go : Nat → Nat → List Nat → List Nat
    | 0, _, acc => acc
    | fuel + 1, n, acc => if n = 0 then acc else go fuel (n / 256) (n % 256 :: acc)
  if n = 0 then [0] else go (n + 1) n []

/-- `max(1, ceil(bits / 8))` -/
def byteLen (n : Nat) : Nat := (bytesBE n).length

inductive Conc
  | ok (bytes : List Nat)            -- the encoded instruction
  | tooLarge
  | negative
  | ctx (e : EvErr)                  -- `ContextIncomplete`

def evalFuel : Nat := 100000

/-- `Concretize for Op<Abstract>` followed by `Assemble::assemble`: opcode byte,
then the value left-padded to the immediate length; longer is `ExpressionTooLarge`. -/
def concretizeOp (c : Ctx) (code : Nat) (imm : Option Expr) : Conc :=
  match imm with
  | none => .ok [code]
  | some e =>
    match eval evalFuel c e with
    | .error err => .ctx err
    | .ok v =>
      if v < 0 then .negative
      else
        let bs := bytesBE v.toNat
        let n := immLen code
        if bs.length > n then .tooLarge
        else .ok (code :: (List.replicate (n - bs.length) 0 ++ bs))

/-- `AbstractOp::concretize` for `Push(imm)`: the smallest push that holds the value. -/
def concretizePush (c : Ctx) (e : Expr) : Conc :=
  match eval evalFuel c e with
  | .error err => .ctx err
  | .ok v =>
    if v < 0 then .negative
    else
      let bs := bytesBE v.toNat
      if bs.length > 32 then .tooLarge
      else .ok ((0x5f + bs.length) :: bs)

def AOp.expr? : AOp → Option Expr
  | .op _ imm => imm
  | .push e => some e
  | _ => none

/-- `depends_on_labels` -/
def dependsOnLabels (s : St) (o : AOp) : Bool :=
  match o.expr? with
  | none => false
  | some e => match labelsOf s.macros evalFuel 0 e with
    | .ok ls => !ls.isEmpty
    | .error _ => false

def isDefined (s : St) (l : String) : Bool :=
  match lookupLabel s.labels l with
  | some (some _) => true
  | _ => false

def setLabel (ls : List (String × Option Nat)) (l : String) (v : Option Nat) : List (String × Option Nat) :=
  if ls.any (·.1 == l) then ls.map (fun p => if p.1 == l then (l, v) else p) else ls ++ [(l, v)]

def insertSet (xs : List String) (x : String) : List String := if xs.contains x then xs else xs ++ [x]

/-- the per-expansion random label suffix: `format!("{}_{}_{}", macro, label, rng.gen::<u64>())` -/
def mangle (rnd : Nat → Nat) (k : Nat) (m l : String) : String := s!"{m}_{l}_{rnd k}"

def mapErr : EvErr → AsmErr
  | .unknownMacro n => .undeclaredExpressionMacro n
  | .undefinedVariable v => .undeclaredVariableMacro v
  | .divisionByZero => .divisionByZero
  | .recursionLimit n => .macroRecursionLimit n
  | .unknownLabel _ => .undeclaredLabels []

/-- a fixed-size or variable-sized instruction reaching `push` (the `RawOp::Op(ref op)` arm):
first every label the operand mentions is recorded as undeclared unless it is
already defined, then the operand is evaluated under the provisional layout -/
def pushInstr (s : St) (o : AOp) (item : Item) (size : Option Nat) (conc : St → Conc) : Except AsmErr St :=
  let mentioned : Except AsmErr (List String) := match o.expr? with
    | none => .ok []
    | some e => match labelsOf s.macros evalFuel 0 e with
      | .ok ls => .ok ls
      | .error (.unknownMacro n) => .error (.undeclaredExpressionMacro n)
      | .error (.recursionLimit n) => .error (.macroRecursionLimit n)
      | .error _ => .error (.panic "labels unreachable")
  match mentioned with
  | .error e => .error e
  | .ok ls =>
    let s : St := { s with undeclared := (ls.filter (fun l => !isDefined s l)).foldl insertSet s.undeclared }
    let deferred : St := { s with len := s.len + size.getD 2, ready := s.ready ++ [item] }
    match conc s with
    | .ok bytes => .ok { s with len := s.len + bytes.length, ready := s.ready ++ [item] }
    | .tooLarge => if dependsOnLabels s o then .ok deferred else .error .expressionTooLarge
    | .negative => if dependsOnLabels s o then .ok deferred else .error .expressionNegative
    | .ctx .divisionByZero => if dependsOnLabels s o then .ok deferred else .error .divisionByZero
    | .ctx (.unknownLabel _) => .ok deferred
    | .ctx err => .error (mapErr err)

/-! ### `backpatch_labels` and `emit_bytecode` -/

/-- One positions pass: label positions implied by the current widths (`ws`: widths
of the variable-sized pushes, in order), and the total length. -/
def positionsPass : List Item → List Nat → Nat → List (String × Option Nat) → List (String × Option Nat) × Nat
  | [], _, pos, ls => (ls, pos)
  | .label l :: rest, ws, pos, ls =>
    let ls' := match lookupLabel ls l with
      | some (some _) => setLabel ls l (some pos)
      | _ => ls
    positionsPass rest ws pos ls'
  | .push _ :: rest, ws, pos, ls => positionsPass rest (ws.drop 1) (pos + 1 + ws.headD 1) ls
  | .op code _ :: rest, ws, pos, ls => positionsPass rest ws (pos + 1 + immLen code) ls
  | .raw bytes :: rest, ws, pos, ls => positionsPass rest ws (pos + bytes.length) ls

/-- `((bits(val).max(1) + 7) / 8).min(32)`; `BigInt::bits` is the magnitude's bit length -/
def neededWidth (v : Int) : Nat := min 32 (byteLen v.natAbs)

/-- One widths pass: every variable-sized push whose value (under the current
label positions) needs more bytes than it has is widened. -/
def widthsPass (c : Ctx) : List Item → List Nat → List Nat
  | [], _ => []
  | .push e :: rest, ws =>
    let w := ws.headD 1
    let w' := match eval evalFuel c e with
      | .ok v => max w (neededWidth v)
      | .error _ => w
    w' :: widthsPass c rest (ws.drop 1)
  | _ :: rest, ws => widthsPass c rest ws

/-- The `loop` of `backpatch_labels`. -/
def layoutLoop (s : St) : Nat → List Nat → List (String × Option Nat) × List Nat
  | 0, ws => ((positionsPass s.ready ws 0 s.labels).1, ws)
  | fuel + 1, ws =>
    let (ls, _) := positionsPass s.ready ws 0 s.labels
    let ws' := widthsPass { s.ctx with labels := ls } s.ready ws
    if ws' = ws then (ls, ws) else layoutLoop s fuel ws'

def pushCount (ready : List Item) : Nat := (ready.filter (fun i => match i with | .push _ => true | _ => false)).length

/-- `emit_bytecode` with the allotted widths. -/
def emit (c : Ctx) : List Item → List Nat → Except AsmErr (List Nat)
  | [], _ => .ok []
  | item :: rest, ws =>
    let one : Except AsmErr (List Nat) × List Nat := match item with
      | .label _ => (.ok [], ws)
      | .raw bytes => (.ok bytes, ws)
      | .op code imm => ((match concretizeOp c code imm with
          | .ok bs => .ok bs
          | .tooLarge => .error .expressionTooLarge
          | .negative => .error .expressionNegative
          | .ctx e => .error (mapErr e)), ws)
      | .push e => ((match concretizeOp c (0x5f + ws.headD 1) (some e) with
          | .ok bs => .ok bs
          | .tooLarge => .error .expressionTooLarge
          | .negative => .error .expressionNegative
          | .ctx e => .error (mapErr e)), ws.drop 1)
    match one.1 with
    | .error e => .error e
    | .ok bs => match emit c rest one.2 with
      | .error e => .error e
      | .ok more => .ok (bs ++ more)

/-- `backpatch_and_emit` -/
def finish (s : St) : Except AsmErr (List Nat) :=
  if !s.undeclared.isEmpty then .error (.undeclaredLabels s.undeclared)
  else
    let n := pushCount s.ready
    let (ls, ws) := layoutLoop s (32 * n + 2) (List.replicate n 1)
    emit { s.ctx with labels := ls } s.ready ws

/-- `declare_macros`: the macro definitions among the scope's top-level items; a
name defined twice (instruction and expression macros share one namespace) is an error. -/
def declareMacros : List RawOp → List (String × MacroDef) → Except AsmErr (List (String × MacroDef))
  | [], ms => .ok ms
  | .op (.instrDef n ps body) :: rest, ms =>
    if ms.any (·.1 == n) then .error (.duplicateMacro n) else declareMacros rest (ms ++ [(n, .instr ps body.toList)])
  | .op (.exprDef n ps body) :: rest, ms =>
    if ms.any (·.1 == n) then .error (.duplicateMacro n) else declareMacros rest (ms ++ [(n, .expr ps body)])
  | _ :: rest, ms => declareMacros rest ms

/-- First pass of `expand_macro`: rename the labels the body defines, drawing one
random suffix per label. -/
def renameLocals (rnd : Nat → Nat) (name : String) :
    List AOp → Nat → List (String × String) → Except AsmErr (List AOp × Nat × List (String × String))
  | [], k, m => .ok ([], k, m)
  | .label l :: rest, k, m =>
    if m.any (·.1 == l) then .error (.duplicateLabel l)
    else
      let l' := mangle rnd k name l
      match renameLocals rnd name rest (k + 1) (m ++ [(l, l')]) with
      | .error e => .error e
      | .ok (os, k', m') => .ok (.label l' :: os, k', m')
  | o :: rest, k, m =>
    match renameLocals rnd name rest k m with
    | .error e => .error e
    | .ok (os, k', m') => .ok (o :: os, k', m')

/-- Second pass: in every expression of the body (operands, arguments of nested
invocations) rename uses of local labels, then substitute all parameters at once. -/
def substBody (renames : List (String × String)) (bindings : List (String × Expr)) (body : List AOp) : List AOp :=
  let fix (e : Expr) : Expr := fillVars bindings (renames.foldl (fun e (o, n) => replaceLabel o n e) e)
  body.map (fun o => match o with
    | .op code (some e) => AOp.op code (some (fix e))
    | .push e => .push (fix e)
    | .macro n as => .macro n (as.map fix)
    | o => o)

/-- The body an invocation `%name(args)` stands for: arity check, local labels
renamed to names unique to this expansion, parameters replaced by the argument
expressions.  Returns the instantiated body and the new fresh counter. -/
def instantiate (rnd : Nat → Nat) (name : String) (params : List String) (body : List AOp)
    (args : List Expr) (fresh : Nat) : Except AsmErr (List AOp × Nat) :=
  if params.length ≠ args.length then .error (.macroArgumentCount name)
  else match renameLocals rnd name body fresh [] with
    | .error e => .error e
    | .ok (body1, k, renames) => .ok (substBody renames (params.zip args) body1, k)

mutual
/-- `Assembler::push(rop)` -/
def push (rnd : Nat → Nat) : Nat → St → RawOp → Except AsmErr St
  | 0, _, _ => .error (.panic "fuel")
  | fuel + 1, s, rop =>
    match rop with
    | .op (.label l) =>
      -- `declare_label`, then the label arm
      if (lookupLabel s.labels l).isSome then .error (.duplicateLabel l)
      else .ok { s with undeclared := s.undeclared.filter (· != l),
                        ready := s.ready ++ [.label l],
                        labels := setLabel s.labels l (some s.len) }
    | .op (.instrDef _ _ _) => .ok s
    | .op (.exprDef _ _ _) => .ok s
    | .op (.macro name args) => expandMacro rnd fuel s name args
    | .op (.op code imm) => pushInstr s (.op code imm) (.op code imm) (some (1 + immLen code)) (fun s => concretizeOp s.ctx code imm)
    | .op (.push e) => pushInstr s (.push e) (.push e) none (fun s => concretizePush s.ctx e)
    | .raw bytes => .ok { s with len := s.len + bytes.length, ready := s.ready ++ [.raw bytes] }
    | .scope ops =>
      match assemble rnd fuel { fresh := s.fresh } ops with
      | .error e => .error e
      | .ok (bytes, k) => .ok { s with len := s.len + bytes.length, ready := s.ready ++ [.raw bytes], fresh := k }

/-- `expand_macro(name, parameters)` -/
def expandMacro (rnd : Nat → Nat) : Nat → St → String → List Expr → Except AsmErr St
  | 0, _, _, _ => .error (.panic "fuel")
  | fuel + 1, s, name, args =>
    match lookupMacro s.macros name with
    | some (.instr params body) =>
      if params.length ≠ args.length then .error (.macroArgumentCount name)
      else if s.depth ≥ maxMacroDepth then .error (.macroRecursionLimit name)
      else
        match instantiate rnd name params body args s.fresh with
        | .error e => .error e
        | .ok (body2, k) =>
          match feed rnd fuel { s with depth := s.depth + 1, fresh := k } body2 with
          | .error e => .error e
          | .ok s' => .ok { s' with depth := s'.depth - 1 }
    | _ => .error (.undeclaredInstructionMacro name)

/-- feed the instructions of an instantiated body -/
def feed (rnd : Nat → Nat) : Nat → St → List AOp → Except AsmErr St
  | 0, _, _ => .error (.panic "fuel")
  | _ + 1, s, [] => .ok s
  | fuel + 1, s, o :: os =>
    match push rnd fuel s (.op o) with
    | .error e => .error e
    | .ok s' => feed rnd fuel s' os

/-- `Assembler::assemble(ops)` on a fresh assembler; also returns the fresh-suffix counter. -/
def assemble (rnd : Nat → Nat) : Nat → St → RawOps → Except AsmErr (List Nat × Nat)
  | 0, _, _ => .error (.panic "fuel")
  | fuel + 1, s0, ops =>
    match declareMacros ops.toList s0.macros with
    | .error e => .error e
    | .ok ms =>
      match feedAll rnd fuel { s0 with macros := ms } ops with
      | .error e => .error e
      | .ok s => (finish s).map (fun bytes => (bytes, s.fresh))

/-- `for op in ops { self.push(op)? }` -/
def feedAll (rnd : Nat → Nat) : Nat → St → RawOps → Except AsmErr St
  | 0, _, _ => .error (.panic "fuel")
  | _ + 1, s, .nil => .ok s
  | fuel + 1, s, .cons o rest =>
    match push rnd fuel s o with
    | .error e => .error e
    | .ok s' => feedAll rnd fuel s' rest
end

end Asm
end EtkVerif
