/-
The step lemmas of the simulation, by induction on the fuel shared by the model
and the specification.
-/
import EtkVerif.Asm.RefineSim
namespace EtkVerif
namespace Asm

open Spec

def PushStep (rnd : Nat → Nat) (f : Nat) : Prop :=
  ∀ ms depth s items rop, Sim ms depth s items →
    (∀ s', push rnd f s rop = .ok s' →
      ∃ xs, flattenOp rnd f ms depth s.fresh rop = .ok (xs, s'.fresh) ∧ Sim ms depth s' (items ++ xs)) ∧
    (∀ e, push rnd f s rop = .error e →
      ∀ xs k', flattenOp rnd f ms depth s.fresh rop = .ok (xs, k') → Doomed ms (items ++ xs))

def MacroStep (rnd : Nat → Nat) (f : Nat) : Prop :=
  ∀ ms depth s items name args, Sim ms depth s items →
    (∀ s', expandMacro rnd f s name args = .ok s' →
      ∃ xs, flattenMacro rnd f ms depth s.fresh name args = .ok (xs, s'.fresh) ∧ Sim ms depth s' (items ++ xs)) ∧
    (∀ e, expandMacro rnd f s name args = .error e →
      ∀ xs k', flattenMacro rnd f ms depth s.fresh name args = .ok (xs, k') → Doomed ms (items ++ xs))

def FeedStep (rnd : Nat → Nat) (f : Nat) : Prop :=
  ∀ ms depth s items body, Sim ms depth s items →
    (∀ s', feed rnd f s body = .ok s' →
      ∃ xs, flattenBody rnd f ms depth s.fresh body = .ok (xs, s'.fresh) ∧ Sim ms depth s' (items ++ xs)) ∧
    (∀ e, feed rnd f s body = .error e →
      ∀ xs k', flattenBody rnd f ms depth s.fresh body = .ok (xs, k') → Doomed ms (items ++ xs))

def FeedAllStep (rnd : Nat → Nat) (f : Nat) : Prop :=
  ∀ ms s items ops, Sim ms 0 s items →
    (∀ s', feedAll rnd f s ops = .ok s' →
      ∃ xs, flattenAll rnd f ms s.fresh ops = .ok (xs, s'.fresh) ∧ Sim ms 0 s' (items ++ xs)) ∧
    (∀ e, feedAll rnd f s ops = .error e →
      ∀ xs k', flattenAll rnd f ms s.fresh ops = .ok (xs, k') → Doomed ms (items ++ xs))

def AsmStep (rnd : Nat → Nat) (f : Nat) : Prop :=
  ∀ k ops r, assemble rnd f { fresh := k } ops = .ok r ↔ assembleScope rnd f k ops = .ok r

/-! ### fuel zero -/

theorem pushStep_zero (rnd : Nat → Nat) : PushStep rnd 0 := by
  intro ms depth s items rop _
  constructor
  · intro s' h; simp [push] at h
  · intro e _ xs k' h; simp [flattenOp] at h

theorem macroStep_zero (rnd : Nat → Nat) : MacroStep rnd 0 := by
  intro ms depth s items name args _
  constructor
  · intro s' h; simp [expandMacro] at h
  · intro e _ xs k' h; simp [flattenMacro] at h

theorem feedStep_zero (rnd : Nat → Nat) : FeedStep rnd 0 := by
  intro ms depth s items body _
  constructor
  · intro s' h; simp [feed] at h
  · intro e _ xs k' h; simp [flattenBody] at h

theorem feedAllStep_zero (rnd : Nat → Nat) : FeedAllStep rnd 0 := by
  intro ms s items ops _
  constructor
  · intro s' h; simp [feedAll] at h
  · intro e _ xs k' h; simp [flattenAll] at h

theorem asmStep_zero (rnd : Nat → Nat) : AsmStep rnd 0 := by
  intro k ops r
  simp [assemble, assembleScope]

/-! ### successor steps -/

theorem Sim.nil_append {ms depth s items} (h : Sim ms depth s items) : Sim ms depth s (items ++ []) := by
  rw [List.append_nil]; exact h

theorem pushStep_succ (rnd : Nat → Nat) (f : Nat) (hM : MacroStep rnd f) (hA : AsmStep rnd f) :
    PushStep rnd (f + 1) := by
  intro ms depth s items rop hsim
  cases rop with
  | op o =>
    cases o with
    | label l =>
      simp only [push, flattenOp]
      rcases lookup_dich s.labels hsim.allSome l with ⟨hn, hlk⟩ | ⟨hy, p, hlk⟩
      · rw [hlk]
        simp only [Option.isSome_none, Bool.false_eq_true, if_false]
        constructor
        · intro s' h
          injection h with h
          subst h
          refine ⟨[.label l], rfl, ?_⟩
          have hlab : itemLabels (items ++ [Item.label l]) = itemLabels items ++ [l] := by
            rw [itemLabels_append, itemLabels_label]
          rw [hsim.names] at hn
          obtain ⟨used, hu, hund⟩ := hsim.undecl
          refine ⟨by simp only [hsim.ready], hsim.macros, hsim.depth, ?_, ?_, ?_, ?_⟩
          · simp only []
            rw [setLabel_absent _ _ _ (not_any_of_lookupLabel_none hlk), List.map_append, hsim.names, hlab]
            rfl
          · simp only []
            rw [setLabel_absent _ _ _ (not_any_of_lookupLabel_none hlk)]
            intro p hp
            rcases List.mem_append.1 hp with hp | hp
            · exact hsim.allSome p hp
            · simp only [List.mem_singleton] at hp; subst hp; rfl
          · rw [hlab, List.nodup_append]
            refine ⟨hsim.nodup, by simp, ?_⟩
            intro a ha b hb hab
            simp only [List.mem_singleton] at hb
            subst hb; subst hab
            exact hn ha
          · refine ⟨used ++ [], ?_, ?_⟩
            · rw [mentioned_append, hu]; rfl
            · intro l'
              simp only [List.mem_filter, bne_iff_ne, ne_eq, List.append_nil]
              rw [hund, hlab, List.mem_append, List.mem_singleton]
              constructor
              · rintro ⟨⟨a, b⟩, c⟩; exact ⟨a, fun h => h.elim b c⟩
              · rintro ⟨a, b⟩; exact ⟨⟨a, fun h => b (Or.inl h)⟩, fun h => b (Or.inr h)⟩
        · intro e h; simp at h
      · rw [hlk]
        simp only [Option.isSome_some, if_true]
        constructor
        · intro s' h; simp at h
        · intro e _ xs k' h
          simp only [Except.ok.injEq, Prod.mk.injEq] at h
          rw [← h.1]
          rw [hsim.names] at hy
          exact doomed_of_dup hy
    | instrDef n ps body =>
      simp only [push, flattenOp]
      constructor
      · intro s' h; injection h with h; subst h; exact ⟨[], rfl, hsim.nil_append⟩
      · intro e h; simp at h
    | exprDef n ps body =>
      simp only [push, flattenOp]
      constructor
      · intro s' h; injection h with h; subst h; exact ⟨[], rfl, hsim.nil_append⟩
      · intro e h; simp at h
    | «macro» name args =>
      simp only [push, flattenOp]
      exact hM ms depth s items name args hsim
    | op code imm =>
      simp only [push, flattenOp]
      have hstep := pushInstr_step hsim (.op code imm) (.op code imm) (some (1 + immLen code))
        (fun c => concretizeOp c code imm) rfl rfl (by
          intro ls hb ls' ws bs hem
          cases imm with
          | none => exact hb
          | some e =>
            exact concretizeOp_feedBad ms ls ls' code e hb bs (Conc.toExcept_ok hem))
      constructor
      · intro s' h
        obtain ⟨h1, h2⟩ := hstep.1 s' h
        exact ⟨[.op code imm], by rw [h1], h2⟩
      · intro e h xs k' hf
        simp only [Except.ok.injEq, Prod.mk.injEq] at hf
        rw [← hf.1]
        exact hstep.2 e h
    | push ex =>
      simp only [push, flattenOp]
      have hstep := pushInstr_step hsim (.push ex) (.push ex) none
        (fun c => concretizePush c ex) rfl rfl (by
          intro ls hb ls' ws bs hem
          exact concretizePush_feedBad ms ls ls' ex hb _ bs (Conc.toExcept_ok hem))
      constructor
      · intro s' h
        obtain ⟨h1, h2⟩ := hstep.1 s' h
        exact ⟨[.push ex], by rw [h1], h2⟩
      · intro e h xs k' hf
        simp only [Except.ok.injEq, Prod.mk.injEq] at hf
        rw [← hf.1]
        exact hstep.2 e h
  | raw bytes =>
    simp only [push, flattenOp]
    constructor
    · intro s' h
      injection h with h
      subst h
      refine ⟨[.raw bytes], rfl, ?_⟩
      apply Sim.addItem hsim (.raw bytes) [] rfl rfl
      · rfl
      · rfl
      · rfl
      · rfl
      · intro l; simp
    · intro e h; simp at h
  | scope ops =>
    simp only [push, flattenOp]
    have hA' := hA s.fresh ops
    cases hasm : assemble rnd f { fresh := s.fresh } ops with
    | error err =>
      simp only []
      constructor
      · intro s' h; simp at h
      · intro e _ xs k' hf
        cases hsc : assembleScope rnd f s.fresh ops with
        | error e2 => rw [hsc] at hf; simp at hf
        | ok r =>
          rw [(hA' r).2 hsc] at hasm
          simp at hasm
    | ok r =>
      obtain ⟨bytes, k⟩ := r
      rw [(hA' _).1 hasm]
      simp only []
      constructor
      · intro s' h
        injection h with h
        subst h
        refine ⟨[.raw bytes], rfl, ?_⟩
        apply Sim.addItem hsim (.raw bytes) [] rfl rfl
        · rfl
        · rfl
        · rfl
        · rfl
        · intro l; simp
      · intro e h; simp at h

theorem macroStep_succ (rnd : Nat → Nat) (f : Nat) (hF : FeedStep rnd f) : MacroStep rnd (f + 1) := by
  intro ms depth s items name args hsim
  simp only [expandMacro, flattenMacro, hsim.macros, hsim.depth]
  cases hlk : lookupMacro ms name with
  | none =>
    simp only []
    constructor
    · intro s' h; simp at h
    · intro e _ xs k' h; simp at h
  | some md =>
    cases md with
    | expr ps body =>
      simp only []
      constructor
      · intro s' h; simp at h
      · intro e _ xs k' h; simp at h
    | instr params body =>
      simp only []
      by_cases hlen : params.length ≠ args.length
      · rw [if_pos hlen, if_pos hlen]
        constructor
        · intro s' h; simp at h
        · intro e _ xs k' h; simp at h
      · rw [if_neg hlen, if_neg hlen]
        by_cases hdep : depth ≥ maxMacroDepth
        · rw [if_pos hdep, if_pos hdep]
          constructor
          · intro s' h; simp at h
          · intro e _ xs k' h; simp at h
        · rw [if_neg hdep, if_neg hdep]
          cases hinst : instantiate rnd name params body args s.fresh with
          | error err =>
            simp only []
            constructor
            · intro s' h; simp at h
            · intro e _ xs k' h; simp at h
          | ok r =>
            obtain ⟨body2, k⟩ := r
            simp only []
            have hsim2 : Sim ms (depth + 1)
                { ready := s.ready, len := s.len, labels := s.labels, macros := ms, undeclared := s.undeclared,
                  depth := depth + 1, fresh := k } items :=
              ⟨hsim.ready, rfl, rfl, hsim.names, hsim.allSome, hsim.nodup, hsim.undecl⟩
            have hstep := hF ms (depth + 1) _ items body2 hsim2
            constructor
            · intro s' h
              cases hfeed : feed rnd f
                  { ready := s.ready, len := s.len, labels := s.labels, macros := ms, undeclared := s.undeclared,
                    depth := depth + 1, fresh := k } body2 with
              | error err => rw [hfeed] at h; simp at h
              | ok s2 =>
                rw [hfeed] at h
                simp only [Except.ok.injEq] at h
                subst h
                obtain ⟨xs, hx, hs2⟩ := hstep.1 s2 hfeed
                refine ⟨xs, hx, ?_⟩
                exact ⟨hs2.ready, hs2.macros, by simp only [hs2.depth]; omega, hs2.names, hs2.allSome,
                  hs2.nodup, hs2.undecl⟩
            · intro e h xs k' hf
              cases hfeed : feed rnd f
                  { ready := s.ready, len := s.len, labels := s.labels, macros := ms, undeclared := s.undeclared,
                    depth := depth + 1, fresh := k } body2 with
              | error err => exact hstep.2 err hfeed xs k' hf
              | ok s2 => rw [hfeed] at h; simp at h

theorem feedStep_succ (rnd : Nat → Nat) (f : Nat) (hP : PushStep rnd f) (hF : FeedStep rnd f) :
    FeedStep rnd (f + 1) := by
  intro ms depth s items body hsim
  cases body with
  | nil =>
    simp only [feed, flattenBody]
    constructor
    · intro s' h; injection h with h; subst h; exact ⟨[], rfl, hsim.nil_append⟩
    · intro e h; simp at h
  | cons o os =>
    simp only [feed, flattenBody]
    have hp := hP ms depth s items (.op o) hsim
    cases hpush : push rnd f s (.op o) with
    | error err =>
      simp only []
      constructor
      · intro s' h; simp at h
      · intro e _ xs k' hf
        cases hfo : flattenOp rnd f ms depth s.fresh (.op o) with
        | error e2 => rw [hfo] at hf; simp at hf
        | ok r =>
          obtain ⟨xs1, k1⟩ := r
          rw [hfo] at hf
          simp only [] at hf
          cases hfb : flattenBody rnd f ms depth k1 os with
          | error e2 => rw [hfb] at hf; simp at hf
          | ok r2 =>
            obtain ⟨ys, k2⟩ := r2
            rw [hfb] at hf
            simp only [Except.ok.injEq, Prod.mk.injEq] at hf
            rw [← hf.1, ← List.append_assoc]
            exact (hp.2 err hpush xs1 k1 hfo).append ys
    | ok s1 =>
      obtain ⟨xs1, hx1, hs1⟩ := hp.1 s1 hpush
      have hf1 := hF ms depth s1 (items ++ xs1) os hs1
      rw [hx1]
      simp only []
      constructor
      · intro s' h
        obtain ⟨ys, hy, hs'⟩ := hf1.1 s' h
        rw [hy]
        refine ⟨xs1 ++ ys, rfl, ?_⟩
        rw [← List.append_assoc]
        exact hs'
      · intro e h xs k' hf
        cases hfb : flattenBody rnd f ms depth s1.fresh os with
        | error e2 => rw [hfb] at hf; simp at hf
        | ok r2 =>
          obtain ⟨ys, k2⟩ := r2
          rw [hfb] at hf
          simp only [Except.ok.injEq, Prod.mk.injEq] at hf
          rw [← hf.1, ← List.append_assoc]
          exact hf1.2 e h ys k2 hfb

theorem feedAllStep_succ (rnd : Nat → Nat) (f : Nat) (hP : PushStep rnd f) (hF : FeedAllStep rnd f) :
    FeedAllStep rnd (f + 1) := by
  intro ms s items ops hsim
  cases ops with
  | nil =>
    simp only [feedAll, flattenAll]
    constructor
    · intro s' h; injection h with h; subst h; exact ⟨[], rfl, hsim.nil_append⟩
    · intro e h; simp at h
  | cons o os =>
    simp only [feedAll, flattenAll]
    have hp := hP ms 0 s items o hsim
    cases hpush : push rnd f s o with
    | error err =>
      simp only []
      constructor
      · intro s' h; simp at h
      · intro e _ xs k' hf
        cases hfo : flattenOp rnd f ms 0 s.fresh o with
        | error e2 => rw [hfo] at hf; simp at hf
        | ok r =>
          obtain ⟨xs1, k1⟩ := r
          rw [hfo] at hf
          simp only [] at hf
          cases hfb : flattenAll rnd f ms k1 os with
          | error e2 => rw [hfb] at hf; simp at hf
          | ok r2 =>
            obtain ⟨ys, k2⟩ := r2
            rw [hfb] at hf
            simp only [Except.ok.injEq, Prod.mk.injEq] at hf
            rw [← hf.1, ← List.append_assoc]
            exact (hp.2 err hpush xs1 k1 hfo).append ys
    | ok s1 =>
      obtain ⟨xs1, hx1, hs1⟩ := hp.1 s1 hpush
      have hf1 := hF ms s1 (items ++ xs1) os hs1
      rw [hx1]
      simp only []
      constructor
      · intro s' h
        obtain ⟨ys, hy, hs'⟩ := hf1.1 s' h
        rw [hy]
        refine ⟨xs1 ++ ys, rfl, ?_⟩
        rw [← List.append_assoc]
        exact hs'
      · intro e h xs k' hf
        cases hfb : flattenAll rnd f ms s1.fresh os with
        | error e2 => rw [hfb] at hf; simp at hf
        | ok r2 =>
          obtain ⟨ys, k2⟩ := r2
          rw [hfb] at hf
          simp only [Except.ok.injEq, Prod.mk.injEq] at hf
          rw [← hf.1, ← List.append_assoc]
          exact hf1.2 e h ys k2 hfb

theorem sim_init (ms : List (String × MacroDef)) (k : Nat) :
    Sim ms 0 { macros := ms, fresh := k } [] :=
  ⟨rfl, rfl, rfl, rfl, fun _ h => by simp at h, List.nodup_nil, [], rfl, fun l => by simp [itemLabels]⟩

theorem asmStep_succ (rnd : Nat → Nat) (f : Nat) (hF : FeedAllStep rnd f) : AsmStep rnd (f + 1) := by
  intro k ops r
  simp only [assemble, assembleScope]
  cases hdm : declareMacros ops.toList [] with
  | error e => simp
  | ok ms =>
    simp only []
    have hstep := hF ms { macros := ms, fresh := k } [] ops (sim_init ms k)
    cases hfa : feedAll rnd f { macros := ms, fresh := k } ops with
    | error err =>
      simp only []
      constructor
      · intro h; simp at h
      · intro h
        cases hfl : flattenAll rnd f ms k ops with
        | error e2 => rw [hfl] at h; simp at h
        | ok r2 =>
          obtain ⟨items, k'⟩ := r2
          rw [hfl] at h
          simp only [] at h
          have hd := hstep.2 err hfa items k' hfl
          cases hai : assembleItems ms items with
          | error e3 => rw [hai] at h; simp [Except.map] at h
          | ok bytes =>
            have := hd [] bytes
            simp only [List.nil_append, List.append_nil] at this
            exact absurd hai this
    | ok s =>
      obtain ⟨items, hfl, hsim⟩ := hstep.1 s hfa
      simp only [List.nil_append] at hsim
      have hfl' : flattenAll rnd f ms k ops = .ok (items, s.fresh) := hfl
      rw [hfl']
      simp only []
      have hiff := hsim.finish_iff
      cases hfin : finish s with
      | error e1 =>
        cases hai : assembleItems ms items with
        | error e2 => simp [Except.map]
        | ok bytes => rw [(hiff bytes).2 hai] at hfin; simp at hfin
      | ok bytes =>
        rw [(hiff bytes).1 hfin]

/-- all five statements, by induction on the fuel -/
theorem all_steps (rnd : Nat → Nat) : ∀ f,
    PushStep rnd f ∧ MacroStep rnd f ∧ FeedStep rnd f ∧ FeedAllStep rnd f ∧ AsmStep rnd f := by
  intro f
  induction f with
  | zero => exact ⟨pushStep_zero rnd, macroStep_zero rnd, feedStep_zero rnd, feedAllStep_zero rnd, asmStep_zero rnd⟩
  | succ f ih =>
    obtain ⟨hP, hM, hF, hFA, hA⟩ := ih
    exact ⟨pushStep_succ rnd f hM hA, macroStep_succ rnd f hF, feedStep_succ rnd f hP hF,
      feedAllStep_succ rnd f hP hFA, asmStep_succ rnd f hFA⟩

end Asm
end EtkVerif
