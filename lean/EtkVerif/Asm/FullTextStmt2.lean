/-
Part 2 of the body statements through `stmt` and `instruction_macro_stmt`: plain
instructions, `%push(<expr>)`, `pushN <expr>`; then every body statement.
-/
import EtkVerif.Asm.FullTextStmt
namespace EtkVerif
namespace Asm
namespace FullText
open Pest Listing ExprText
open Layout (Suf Gap commentText STail LineEnd)

variable {text : List Nat}

/-! ### plain instructions -/

theorem ins_facts (i : Disasm.Instr) (hv : Valid i) :
    StmtFact text (.plain (.ins i)) ∧ BodyFact text (.ins i) := by
  have key : ∀ S B c s, Suf text S (Layout.stmtText i ++ (B ++ commentText c ++ s)) → Gap B c s →
      ∃ e, (Ev (envOf text) (text.length + 220) (.ref 2) .nonAtomic false S
          (some (e, [Layout.pairG S (B.length + (commentText c).length) i])) ∧
        Ev (envOf text) (text.length + 220) (.ref 11) .nonAtomic false S
          (some (e, [Layout.pairG S (B.length + (commentText c).length) i]))) ∧
        Sk (envOf text) (text.length + 220) .nonAtomic e
          (S + (Layout.stmtText i).length + B.length + (commentText c).length) ∧
        AopOK text (Layout.pairG S (B.length + (commentText c).length) i) (.ins i) := by
    intro S B c s hs hg
    have hlen0 := hs.len
    simp only [List.length_append] at hlen0
    obtain ⟨closed, hA⟩ := Layout.stmt_agree hv hs hg.sent
    have hrow := Layout.row_ok hv closed
    have hu : Ops.isUndefRow (rowI i) = false := hv.2.1
    have hL : (mnemOf i).length = (rowI i).mnem.length := rfl
    have hD : D = 100 := rfl
    obtain ⟨c0, m, hm, hc1, hc2⟩ := (rowFacts hv).head
    have hs0 : Suf text S (c0 :: (m ++ ((if (rowI i).extra = 0 then [] else [32, 48, 120] ++ hexOf i.imm) ++
        (B ++ commentText c ++ s)))) := by
      have := hs
      rw [Layout.stmtText_eq hv, hm] at this
      simpa using this
    have f19 : Ev (envOf text) 2 pct19 .nonAtomic false S none := pct19_fail_letter hs0 (by omega)
    have hs1 : Suf text (S + (Layout.stmtText i).length) (B ++ commentText c ++ s) := hs.app
    have hs2 : Suf text (S + (Layout.stmtText i).length + B.length + (commentText c).length) s := by
      have := Suf.app (a := B ++ commentText c) (b := s) hs1
      simpa [Nat.add_assoc] using this
    -- the walk
    have hwalk : AopOK text (Layout.pairG S (B.length + (commentText c).length) i) (.ins i) := by
      intro f hf
      obtain ⟨f, rfl⟩ : ∃ f', f = f' + 3 := ⟨f - 3, by omega⟩
      obtain ⟨pre, hpre, hpl⟩ := hs
      have hp := Layout.parseAOp_pairG pre (B ++ commentText c ++ s) i hv f (B.length + (commentText c).length)
      have htext : text = pre ++ Layout.stmtText i ++ (B ++ commentText c ++ s) := by
        rw [hpre]; simp only [List.append_assoc]
      rw [← htext, hpl] at hp
      have hr : (Layout.pairG S (B.length + (commentText c).length) i).rule ≠ Gen.R_push_macro := by
        unfold Layout.pairG
        cases i.imm.isEmpty <;> simp [Pair.rule, Gen.R_op, Gen.R_push, Gen.R_push_macro]
      rw [if_neg hr]
      cases hq : parseAOp text.toArray (f + 3) (Layout.pairG S (B.length + (commentText c).length) i) with
      | error e => rw [hq] at hp; simp [Except.map] at hp
      | ok a =>
        rw [hq] at hp
        simp only [Except.map, nodeOf] at hp
        injection hp with hp
        injection hp with hp
        rw [hp]; rfl
    by_cases he : (rowI i).extra = 0
    · -- a statement without immediate
      simp only [Layout.rowOKv, hu, Bool.false_or, he, if_true, Layout.opOK, Bool.and_eq_true] at hrow
      obtain ⟨⟨⟨⟨h1, h2⟩, h3⟩, h4⟩, h5⟩ := hrow
      have hemp := (imm_empty_iff hv).mpr he
      have hlen : (Layout.stmtText i).length = (mnemOf i).length := by
        rw [Layout.stmt_len hv, he]; simp [hL]
      have W39 : Ev (envOf text) D (.ref 39) .nonAtomic false S
          (some (S + (mnemOf i).length, [.mk 39 S (S + (mnemOf i).length) []])) := by
        simpa [shiftL, Pair.shift, hL] using Ev.of_window hA (resIs_eq h1)
      have W15 : Ev (envOf text) D (.ref 15) .nonAtomic false S none := by
        simpa using Ev.of_window hA (resFail_eq h2)
      have W14 : Ev (envOf text) D (.ref 14) .nonAtomic false S none := by
        simpa using Ev.of_window hA (resFail_eq h3)
      have W4 : Ev (envOf text) D (.ref 4) .nonAtomic false S none := by
        simpa using Ev.of_window hA (resFail_eq h4)
      have W3 : Ev (envOf text) D (.ref 3) .nonAtomic false S
          (some (S + (mnemOf i).length, [.mk 3 S (S + (mnemOf i).length) []])) := by
        simpa [shiftL, Pair.shift, hL] using Ev.of_window hA (resIs_eq h5)
      rw [hlen] at hs1 hs2
      have hsk := Layout.skip_gap B c _ hg.blanks hs1 hg.comment hg.stail.tail
      have h58 := (Layout.tail_facts hs2 hg.stail.tail).2.2.2.1
      have h40 := Layout.ev_labeldef_fail (d := B.length + (commentText c).length + 101)
        (Ev.seq_fail2 (d := B.length + (commentText c).length + 100) W39 hsk h58)
      have hpair : Layout.pairG S (B.length + (commentText c).length) i = .mk 3 S (S + (mnemOf i).length) [] := by
        simp [Layout.pairG, hemp, Gen.R_op]
      have hw := win3 (d := B.length + (commentText c).length + 103) h40 (W15.mono (by omega)) (f19.mono (by omega))
        (W14.mono (by omega)) (W4.mono (by omega)) (W3.mono (by omega))
      rw [hlen] at hlen0 ⊢
      refine ⟨S + (mnemOf i).length, ⟨?_, ?_⟩, hsk.mono (by omega), hwalk⟩
      · rw [hpair]; exact hw.1.mono (by omega)
      · rw [hpair]; exact hw.2.mono (by omega)
    · -- `pushN 0x<hex>`
      simp only [Layout.rowOKv, hu, Bool.false_or, he, if_false, Layout.pushOK, Bool.and_eq_true] at hrow
      obtain ⟨⟨⟨⟨h1, h2⟩, h3⟩, h4⟩, h5⟩ := hrow
      have hN : (rowI i).extra = i.imm.length := hv.2.2.1.symm
      have hlen : (Layout.stmtText i).length = (mnemOf i).length + 3 + 2 * i.imm.length := by
        rw [Layout.stmt_len hv, if_neg he, hL, hN]; omega
      have W40 : Ev (envOf text) D (.ref 40) .nonAtomic false S none := by
        simpa using Ev.of_window hA (resFail_eq h1)
      have W15 : Ev (envOf text) D (.ref 15) .nonAtomic false S none := by
        simpa using Ev.of_window hA (resFail_eq h2)
      have W14 : Ev (envOf text) D (.ref 14) .nonAtomic false S none := by
        simpa using Ev.of_window hA (resFail_eq h3)
      have Whead : Ev (envOf text) D Layout.pushHead .compound false S
          (some (S + ((mnemOf i).length + 1), [.mk 8 (S + 4) (S + (mnemOf i).length) []])) := by
        simpa [shiftL, Pair.shift, hL] using Ev.of_window hA (resIs_eq h4)
      have Wterm : Ev (envOf text) D (.ref 42) .nonAtomic false (S + ((mnemOf i).length + 1))
          (some (S + (Layout.stmtText i).length,
            [.mk 38 (S + ((mnemOf i).length + 1)) (S + (Layout.stmtText i).length) []])) := by
        have := Ev.of_window hA (resIs_eq h5)
        simp only [shiftR_some, shiftL, Pair.shift, ← hL, hN, ← hlen] at this
        exact this
      have hsk := Layout.skip_gap B c _ hg.blanks hs1 hg.comment hg.stail.tail
      have hstar := (Layout.tail_facts hs2 hg.stail.tail).2.2.2.2
      have hexpr : Ev (envOf text) (B.length + (commentText c).length + 103) (.ref 41) .compound false
          (S + ((mnemOf i).length + 1)) _ :=
        Layout.ev_expr (d := B.length + (commentText c).length + 101)
          (Ev.seq (d := B.length + (commentText c).length + 100) Wterm hsk hstar)
      have hpush : Ev (envOf text) (B.length + (commentText c).length + 106) (.ref 4) .nonAtomic false S _ :=
        Layout.ev_push (d := B.length + (commentText c).length + 104)
          (Ev.seq (d := B.length + (commentText c).length + 103) Whead (Sk.id_of_ne (by simp) _) hexpr)
      have hemp : i.imm.isEmpty = false := by
        cases h : i.imm.isEmpty with
        | false => rfl
        | true => exact absurd ((imm_empty_iff hv).mp h) he
      have hpair : Layout.pairG S (B.length + (commentText c).length) i =
          .mk 4 S (S + (Layout.stmtText i).length + B.length + (commentText c).length)
            ([.mk 8 (S + 4) (S + (mnemOf i).length) []] ++
              [.mk 41 (S + ((mnemOf i).length + 1)) (S + (Layout.stmtText i).length + B.length + (commentText c).length)
                ([.mk 38 (S + ((mnemOf i).length + 1)) (S + (Layout.stmtText i).length) []] ++ [])]) := by
        simp only [Layout.pairG, hemp, Bool.false_eq_true, if_false, hlen, Gen.R_push, Gen.R_word_size,
          Gen.R_expression, Gen.R_hex, List.append_nil, List.singleton_append, Nat.add_assoc]
      have hw := win4 (d := B.length + (commentText c).length + 106) (W40.mono (by omega)) (W15.mono (by omega))
        (f19.mono (by omega)) (W14.mono (by omega)) hpush
      refine ⟨_, ⟨?_, ?_⟩, ((Layout.tail_facts hs2 hg.stail.tail).1).mono (by omega), hwalk⟩
      · rw [hpair]; exact hw.1.mono (by omega)
      · rw [hpair]; exact hw.2.mono (by omega)
  have hrule := fun (S g : Nat) => Layout.pairG_rule S g i
  constructor
  · intro S B c s hs hg
    obtain ⟨e, hw, hsk, hA⟩ := key S B c s hs hg
    have hr3 : (Layout.pairG S (B.length + (commentText c).length) i).rule ≠ Gen.R_push_macro := by
      unfold Layout.pairG
      cases i.imm.isEmpty <;> simp [Pair.rule, Gen.R_op, Gen.R_push, Gen.R_push_macro]
    exact ⟨e, _, hw.1.mono (by omega), hsk.mono (by omega),
      nodeOK_of_aop (hrule _ _).1 (hrule _ _).2 hr3 hA⟩
  · intro S B c s hs hg
    obtain ⟨e, hw, hsk, hA⟩ := key S B c s hs hg
    exact ⟨e, _, hw.2.mono (by omega), hsk.mono (by omega), hA⟩

end FullText
end Asm
end EtkVerif
