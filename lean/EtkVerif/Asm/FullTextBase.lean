/-
The whole surface language, leaf level: what may follow a term now that argument
lists exist (`,`), the pair tree of an X-expression, and the leaf terms (numbers,
negative decimals, labels, `$variables`, `selector("…")` / `topic("…")`) through the
rule `term` on the real pest interpreter.
-/
import EtkVerif.Asm.FullText
import EtkVerif.Asm.ProgTextStmt
namespace EtkVerif
namespace Asm
namespace FullText
open Pest Listing ExprText
open Layout (Suf)

variable {text : List Nat} {p : Nat} {s : List Nat}

/-! ### what follows a term -/

def XStopD (d : Nat) : Prop := StopD d ∨ d = 44
def XStopC (c : Nat) : Prop := StopC c ∨ c = 44
def XHeadStop (post : List Nat) : Prop := ∀ e post', post = e :: post' → XStopC e
/-- after the gap that follows a term: an operator, `)`, `,`, a line end, `;` or the end of input -/
def XEndC (rest : List Nat) : Prop := ∀ d t, rest = d :: t → XStopD d ∨ d = 10 ∨ d = 13 ∨ d = 59
/-- after the gap that follows a sequence: `)`, `,`, a line end, `;` or the end of input -/
def XCloseC (rest : List Nat) : Prop := ∀ d t, rest = d :: t → d = 41 ∨ d = 44 ∨ d = 10 ∨ d = 13 ∨ d = 59
def XAfter (post : List Nat) : Prop := ∃ G rest, post = G ++ rest ∧ GapG G rest ∧ XEndC rest

theorem XCloseC.endC {rest : List Nat} (h : XCloseC rest) : XEndC rest := by
  intro d t hd
  rcases h d t hd with h | h | h | h | h
  · exact Or.inl (Or.inl (Or.inl h))
  · exact Or.inl (Or.inr h)
  · exact Or.inr (Or.inl h)
  · exact Or.inr (Or.inr (Or.inl h))
  · exact Or.inr (Or.inr (Or.inr h))

theorem closeC_x {rest : List Nat} (h : CloseC rest) : XCloseC rest := by
  intro d t hd
  rcases h d t hd with h | h | h | h
  · exact Or.inl h
  · exact Or.inr (Or.inr (Or.inl h))
  · exact Or.inr (Or.inr (Or.inr (Or.inl h)))
  · exact Or.inr (Or.inr (Or.inr (Or.inr h)))

theorem xstopD_nonBlank {d : Nat} (h : XStopD d) : NonBlank d := by
  rcases h with h | h
  · exact stopD_nonBlank h
  · subst h; simp [NonBlank]

theorem xstopC_facts {c : Nat} (h : XStopC c) :
    isDec c = false ∧ isBin c = false ∧ isOct c = false ∧ isHex c = false ∧ isLb c = false ∧
      c ≠ 40 ∧ c ≠ 98 ∧ c ≠ 111 ∧ c ≠ 120 ∧ c ≠ 34 ∧ c ≠ 36 := by
  rcases h with h | h
  · have := stopC_facts h
    refine ⟨this.1, this.2.1, this.2.2.1, this.2.2.2.1, this.2.2.2.2.1, this.2.2.2.2.2.1, this.2.2.2.2.2.2.1,
      this.2.2.2.2.2.2.2.1, this.2.2.2.2.2.2.2.2.1, this.2.2.2.2.2.2.2.2.2.1, ?_⟩
    rcases h with h | h | h | h | h | h | h | h | h | h | h <;> subst h <;> decide
  · subst h; decide

theorem XAfter.headStop {post : List Nat} (h : XAfter post) : XHeadStop post := by
  obtain ⟨G, rest, rfl, ⟨B, c, rfl, hB, hcm, hnb⟩, hE⟩ := h
  intro e post' he
  cases B with
  | cons b B =>
    simp only [List.cons_append] at he
    injection he with he1 _
    subst he1
    rcases hB b (by simp) with h | h
    · exact Or.inl (Or.inl h)
    · exact Or.inl (Or.inr (Or.inl h))
  | nil =>
    cases c with
    | some b =>
      simp only [Layout.commentText, List.nil_append, List.cons_append] at he
      injection he with he1 _
      subst he1
      exact Or.inl (Or.inr (Or.inr (Or.inl rfl)))
    | none =>
      simp only [Layout.commentText, List.nil_append] at he
      rcases hE e post' he with h | h | h | h
      · rcases h with h | h
        · exact Or.inl (Or.inr (Or.inr (Or.inr (Or.inr (Or.inr (Or.inr h))))))
        · exact Or.inr h
      · exact Or.inl (Or.inr (Or.inr (Or.inr (Or.inl h))))
      · exact Or.inl (Or.inr (Or.inr (Or.inr (Or.inr (Or.inl h)))))
      · exact Or.inl (Or.inr (Or.inr (Or.inr (Or.inr (Or.inr (Or.inl h))))))

theorem headIs_xstop {post : List Nat} (h : XHeadStop post) :
    headIs isDec post = false ∧ headIs isBin post = false ∧ headIs isOct post = false ∧
      headIs isHex post = false ∧ headIs isLb post = false := by
  cases post with
  | nil => simp
  | cons e post' =>
    have := xstopC_facts (h e post' rfl)
    simp only [headIs_cons]
    exact ⟨this.1, this.2.1, this.2.2.1, this.2.2.2.1, this.2.2.2.2.1⟩

theorem headIs_xafter {post : List Nat} (h : XAfter post) :
    headIs isDec post = false ∧ headIs isLb post = false :=
  ⟨(headIs_xstop h.headStop).1, (headIs_xstop h.headStop).2.2.2.2⟩

/-- alphanumerics are label-body characters -/
theorem isLb_of_isAn {c : Nat} (h : isAn c = true) : isLb c = true := by simp [isLb, h]

theorem headIs_an_of_lb {post : List Nat} (h : headIs isLb post = false) : headIs isAn post = false := by
  cases post with
  | nil => rfl
  | cons e t =>
    simp only [headIs_cons] at h ⊢
    cases hh : isAn e with
    | false => rfl
    | true => rw [isLb_of_isAn hh] at h; cases h

/-! ### the pair tree -/

def XRest.isNil : XRest → Bool | .nil => true | _ => false

mutual
def xtermPair (p : Nat) : XTerm → Pair
  | .num r ds => .mk r.rule p (p + (r.pre.length + ds.length)) []
  | .neg ds => .mk 43 p (p + (1 + ds.length)) []
  | .label n => .mk 39 p (p + n.length) []
  | .var n => .mk 12 p (p + (1 + n.length)) []
  | .call n g as =>
    .mk 26 p (p + n.length + g.length + 1 + as.render.length + 1)
      (.mk 32 p (p + n.length) [] :: xargsKids (p + n.length + g.length + 1) as)
  | .selector sig => .mk 27 p (p + 10 + sig.length + 2) [.mk 29 (p + 10) (p + 10 + sig.length) []]
  | .topic sig => .mk 28 p (p + 7 + sig.length + 2) [.mk 29 (p + 7) (p + 7 + sig.length) []]
  | .paren l s r => xseqPair (p + 1 + l.length) s r.length
/-- `tb`: the number of blanks (and comment characters) that follow the sequence -/
def xseqPair (p : Nat) : XSeq → Nat → Pair
  | .mk t rest, tb =>
    .mk 41 p (p + (t.render.length + rest.render.length) + (if rest.isNil then tb else 0))
      (xtermPair p t :: xrestKids (p + t.render.length) rest)
def xrestKids (p : Nat) : XRest → List Pair
  | .nil => []
  | .cons l op r t rest =>
    .mk (opRule op) (p + l.length) (p + l.length + 1) [] :: xtermPair (p + l.length + 1 + r.length) t ::
      xrestKids (p + l.length + 1 + r.length + t.render.length) rest
/-- the argument pairs of a call whose `(` ends at `p` -/
def xargsKids (p : Nat) : XArgs → List Pair
  | .none _ => []
  | .some l s r more =>
    xseqPair (p + l.length) s r.length :: xmoreKids (p + l.length + s.render.length + r.length) more
def xmoreKids (p : Nat) : XMore → List Pair
  | .nil => []
  | .cons l s r more =>
    xseqPair (p + 1 + l.length) s r.length :: xmoreKids (p + 1 + l.length + s.render.length + r.length) more
end

def xseqEnd (p : Nat) (s : XSeq) (tb : Nat) : Nat :=
  match s with
  | .mk t rest => p + (t.render.length + rest.render.length) + (if rest.isNil then tb else 0)

theorem xseqPair_mk (p : Nat) (t : XTerm) (rest : XRest) (tb : Nat) :
    xseqPair p (.mk t rest) tb =
      .mk 41 p (xseqEnd p (.mk t rest) tb) (xtermPair p t :: xrestKids (p + t.render.length) rest) := by
  simp only [xseqPair, xseqEnd]

theorem xseqPair_rule (p : Nat) (s : XSeq) (tb : Nat) : (xseqPair p s tb).rule = 41 := by
  cases s; simp only [xseqPair, Pair.rule]

theorem xseqEnd_bounds (p : Nat) (s : XSeq) (tb : Nat) :
    p + s.render.length ≤ xseqEnd p s tb ∧ xseqEnd p s tb ≤ p + s.render.length + tb := by
  cases s with
  | mk t rest =>
    simp only [xseqEnd, XSeq.render, List.length_append]
    split <;> omega

/-! ### first characters -/

/-- the first character of a term: a digit, a letter, `_`, `-`, `(` or `$` -/
def XStartC (c : Nat) : Prop := isDec c = true ∨ isFn c = true ∨ c = 45 ∨ c = 40 ∨ c = 36

theorem xstartC_nonBlank {c : Nat} (h : XStartC c) : NonBlank c := by
  rcases h with h | h | h | h | h
  · simp only [isDec, Bool.and_eq_true, decide_eq_true_eq] at h
    refine ⟨?_, ?_, ?_⟩ <;> omega
  · simp only [isFn, isAl, Bool.or_eq_true, Bool.and_eq_true, decide_eq_true_eq, beq_iff_eq] at h
    refine ⟨?_, ?_, ?_⟩ <;> omega
  · subst h; simp [NonBlank]
  · subst h; simp [NonBlank]
  · subst h; simp [NonBlank]

/-- a term does not start with `"`, `:`, `,`, `)`, a line end, `;` or `%` -/
theorem xstartC_ne {c : Nat} (h : XStartC c) :
    c ≠ 34 ∧ c ≠ 58 ∧ c ≠ 44 ∧ c ≠ 41 ∧ c ≠ 10 ∧ c ≠ 13 ∧ c ≠ 59 ∧ c ≠ 37 := by
  rcases h with h | h | h | h | h
  · simp only [isDec, Bool.and_eq_true, decide_eq_true_eq] at h
    refine ⟨?_, ?_, ?_, ?_, ?_, ?_, ?_, ?_⟩ <;> omega
  · simp only [isFn, isAl, Bool.or_eq_true, Bool.and_eq_true, decide_eq_true_eq, beq_iff_eq] at h
    refine ⟨?_, ?_, ?_, ?_, ?_, ?_, ?_, ?_⟩ <;> omega
  · subst h; decide
  · subst h; decide
  · subst h; decide

theorem isFnName_split {n : List Nat} (h : IsFnName n) :
    ∃ c run, n = c :: run ∧ isFn c = true ∧ ∀ x ∈ run, isLb x = true := by
  cases n with
  | nil => exact h.elim
  | cons c run =>
    obtain ⟨h1, h2⟩ := h
    refine ⟨c, run, rfl, ?_, ?_⟩
    · rcases h1 with h1 | h1
      · have : isAl c = true := by simpa [isAlpha, isAl] using h1
        simp [isFn, this]
      · simp [isFn, h1]
    · intro x hx
      have := h2 x hx
      simp only [isAlnum, isAlpha, isLb, isAn, Bool.or_eq_true, Bool.and_eq_true, decide_eq_true_eq,
        beq_iff_eq] at this ⊢
      omega

theorem isParam_split {n : List Nat} (h : IsParam n) :
    ∃ c run, n = c :: run ∧ isAl c = true ∧ ∀ x ∈ run, isAn x = true := by
  cases n with
  | nil => exact h.elim
  | cons c run =>
    obtain ⟨h1, h2⟩ := h
    refine ⟨c, run, rfl, by simpa [isAlpha, isAl] using h1, ?_⟩
    intro x hx
    have := h2 x hx
    simp only [isAlnum, isAlpha, isAn, Bool.or_eq_true, Bool.and_eq_true, decide_eq_true_eq] at this ⊢
    omega

theorem xnum_head (r : Radix) (ds : List Nat) (hwf : (XTerm.num r ds).WF) :
    ∃ c s', r.pre ++ ds = c :: s' ∧ isDec c = true := by
  simp only [XTerm.WF] at hwf
  exact num_head r ds (by simpa only [TTerm.WF] using hwf)

theorem xterm_start (t : XTerm) (h : t.WF) : ∃ c rest, t.render = c :: rest ∧ XStartC c := by
  cases t with
  | num r ds =>
    obtain ⟨c, s', h1, h2⟩ := xnum_head r ds h
    exact ⟨c, s', by simp only [XTerm.render]; exact h1, Or.inl h2⟩
  | neg ds => exact ⟨45, ds, by simp only [XTerm.render], Or.inr (Or.inr (Or.inl rfl))⟩
  | label n =>
    simp only [XTerm.WF] at h
    obtain ⟨c, run, h1, h2, _⟩ := isLabel_split h
    exact ⟨c, run, by simp only [XTerm.render]; exact h1, Or.inr (Or.inl (isFn_of_isAl h2))⟩
  | var n => exact ⟨36, n, by simp only [XTerm.render], Or.inr (Or.inr (Or.inr (Or.inr rfl)))⟩
  | call n g as =>
    simp only [XTerm.WF] at h
    obtain ⟨c, run, h1, h2, _⟩ := isFnName_split h.1
    exact ⟨c, run ++ g ++ [40] ++ as.render ++ [41], by simp only [XTerm.render, h1]; simp, Or.inr (Or.inl h2)⟩
  | selector sig =>
    exact ⟨115, [101, 108, 101, 99, 116, 111, 114, 40, 34] ++ sig ++ [34, 41], by simp only [XTerm.render]; rfl,
      Or.inr (Or.inl (by decide))⟩
  | topic sig =>
    exact ⟨116, [111, 112, 105, 99, 40, 34] ++ sig ++ [34, 41], by simp only [XTerm.render]; rfl,
      Or.inr (Or.inl (by decide))⟩
  | paren l s r =>
    exact ⟨40, l ++ s.render ++ r ++ [41], by simp only [XTerm.render]; simp, Or.inr (Or.inr (Or.inr (Or.inl rfl)))⟩

theorem xseq_start (s : XSeq) (h : s.WF) : ∃ c rest, s.render = c :: rest ∧ XStartC c := by
  cases s with
  | mk t rest =>
    simp only [XSeq.WF] at h
    obtain ⟨c, r', h1, h2⟩ := xterm_start t h.1
    exact ⟨c, r' ++ rest.render, by simp only [XSeq.render, h1]; rfl, h2⟩

theorem xterm_pos (t : XTerm) (h : t.WF) : 1 ≤ t.render.length := by
  obtain ⟨c, r, hr, _⟩ := xterm_start t h
  rw [hr]; simp

theorem xseq_pos (s : XSeq) (h : s.WF) : 1 ≤ s.render.length := by
  obtain ⟨c, r, hr, _⟩ := xseq_start s h
  rw [hr]; simp

/-! ### the interfaces between the parts of the development -/

open Layout (Gap commentText) in
/-- `expression` on the text of a sequence followed by a gap: one pair `xseqPair`; the implicit
whitespace after it reaches the end of the gap -/
def SeqFact (text : List Nat) (s : XSeq) : Prop :=
  ∀ p B post', GapG B post' → XCloseC post' → Suf text p (s.render ++ (B ++ post')) →
    Ev (envOf text) (12 * (text.length - p) + 204) (.ref 41) .nonAtomic false p
      (some (xseqEnd p s B.length, [xseqPair p s B.length])) ∧
    Sk (envOf text) (text.length - xseqEnd p s B.length + 100) .nonAtomic (xseqEnd p s B.length)
      (p + s.render.length + B.length)

/-- the walk of `parse_asm` on the pair of a sequence -/
def SeqWalk (text : List Nat) (s : XSeq) : Prop :=
  ∀ p tb post fuel, Suf text p (s.render ++ post) → 2 * s.render.length + 2 ≤ fuel →
    parseExpr text.toArray fuel (xseqPair p s tb) = .ok s.expr

/-- the walk on the argument pairs of a call or of a macro invocation -/
def ArgsWalk (text : List Nat) (as : XArgs) : Prop :=
  ∀ p post fuel, Suf text p (as.render ++ post) → 2 * as.render.length + 3 ≤ fuel →
    parseExprs text.toArray fuel (xargsKids p as) = .ok as.list

/-! declarations `name g1 ( params )` of macro definitions -/

abbrev Param := List Nat × List Nat × List Nat

def paramKidsMore (p : Nat) : List Param → List Pair
  | [] => []
  | (l, x, r) :: ps =>
    .mk 33 (p + 1 + l.length) (p + 1 + l.length + x.length) [] ::
      paramKidsMore (p + 1 + l.length + x.length + r.length) ps

/-- the parameter pairs of a declaration whose `(` ends at `p` -/
def paramKids (p : Nat) : List Param → List Pair
  | [] => []
  | (l, x, r) :: ps =>
    .mk 33 (p + l.length) (p + l.length + x.length) [] :: paramKidsMore (p + l.length + x.length + r.length) ps

def declPair (p : Nat) (d : Decl) : Pair :=
  .mk 30 p (p + d.render.length)
    (.mk 32 p (p + d.name.length) [] :: paramKids (p + d.name.length + d.g1.length + 1) d.params)

/-- `function_declaration` on the text of a declaration, and what the walk reads off its pair -/
def DeclFact (text : List Nat) (d : Decl) : Prop :=
  ∀ p post, Suf text p (d.render ++ post) →
    Ev (envOf text) (2 * d.render.length + 200) (.ref 30) .nonAtomic false p
      (some (p + d.render.length, [declPair p d])) ∧
    txt text.toArray (.mk 32 p (p + d.name.length) []) = d.name ∧
    (paramKids (p + d.name.length + d.g1.length + 1) d.params).map (fun q => strOf (txt text.toArray q)) =
      d.params.map (fun x => strOf x.2.1)

open Layout (Gap commentText) in
/-- what the walk of `parse_asm` makes of the pair of a top-level statement -/
def NodeOK (text : List Nat) (pr : Pair) (st : Stmt) : Prop :=
  pr.rule ≠ Pest.EOI ∧ ∀ f, 3 * text.length + 50 ≤ f →
    (if pr.rule = Gen.R_builtin then parseBuiltin text.toArray f pr else (parseAOp text.toArray f pr).map .op)
      = .ok st.node

open Layout (Gap commentText) in
/-- `stmt` at a top-level statement followed by a gap: one pair, the implicit whitespace after it
reaches the end of the gap, and the pair yields the statement's node -/
def StmtFact (text : List Nat) (st : Stmt) : Prop :=
  ∀ S B c s, Suf text S (st.text ++ (B ++ commentText c ++ s)) → Gap B c s →
    ∃ e pr, Ev (envOf text) (13 * text.length + 400) (.ref 2) .nonAtomic false S (some (e, [pr])) ∧
      Sk (envOf text) (13 * text.length + 400) .nonAtomic e
        (S + st.text.length + B.length + (commentText c).length) ∧
      NodeOK text pr st

/-- what `parseBody` makes of the pair of a statement of a macro body -/
def AopOK (text : List Nat) (pr : Pair) (b : BStmt) : Prop :=
  ∀ f, 2 * text.length + 10 ≤ f →
    (if pr.rule = Gen.R_push_macro then parsePushMacro text.toArray f pr else parseAOp text.toArray f pr)
      = .ok b.aop

open Layout (Gap commentText) in
/-- `instruction_macro_stmt` at a statement of a macro body followed by a gap -/
def BodyFact (text : List Nat) (b : BStmt) : Prop :=
  ∀ S B c s, Suf text S (b.text ++ (B ++ commentText c ++ s)) → Gap B c s →
    ∃ e pr, Ev (envOf text) (12 * text.length + 300) (.ref 11) .nonAtomic false S (some (e, [pr])) ∧
      Sk (envOf text) (12 * text.length + 300) .nonAtomic e
        (S + b.text.length + B.length + (commentText c).length) ∧
      AopOK text pr b

/-! ### the first character of a statement: a letter or `%` -/

theorem bstmt_start (b : BStmt) (h : b.WF) : ∃ c t, b.text = c :: t ∧ ProgText.StartS c := by
  cases b with
  | ins i =>
    obtain ⟨c, m, hm, h1, h2⟩ := (rowFacts h).head
    refine ⟨c, m ++ (if (rowI i).extra = 0 then [] else [32, 48, 120] ++ hexOf i.imm), ?_, Or.inl ?_⟩
    · simp [BStmt.text, Layout.stmtText_eq h, hm]
    · simp only [isAl, Bool.or_eq_true, Bool.and_eq_true, decide_eq_true_eq]; omega
  | pushE n ws sq => exact ⟨112, _, rfl, Or.inl (by decide)⟩
  | apush l sq r => exact ⟨37, _, rfl, Or.inr rfl⟩
  | label name gap =>
    obtain ⟨c, run, rfl, hc, _⟩ := isLabel_split h.1
    exact ⟨c, _, rfl, Or.inl hc⟩
  | invoke name gap args => exact ⟨37, _, rfl, Or.inr rfl⟩

theorem stmt_start (st : Stmt) (h : st.WF) : ∃ c t, st.text = c :: t ∧ ProgText.StartS c := by
  cases st with
  | plain b => exact bstmt_start b h
  | directive d g1 g2 path g3 => exact ⟨37, _, rfl, Or.inr rfl⟩
  | macroDef g0 d trail c crlf more body lead => exact ⟨37, _, rfl, Or.inr rfl⟩
  | exprDef g0 d t1 crlf1 l2 s t2 crlf2 l3 => exact ⟨37, _, rfl, Or.inr rfl⟩

end FullText
end Asm
end EtkVerif
