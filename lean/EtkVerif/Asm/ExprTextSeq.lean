/-
The rule `expression` of the grammar on the text of a sequence: by mutual structural
induction on terms / sequences / tails, the real pest interpreter returns exactly the
pair tree `seqPair`.
-/
import EtkVerif.Asm.ExprTextTerm
namespace EtkVerif
namespace Asm
namespace ExprText
open Pest Listing
open Layout (Suf)

variable {text : List Nat}

/-! ### first characters -/

def StartC (c : Nat) : Prop := isDec c = true ∨ isAl c = true ∨ c = 45 ∨ c = 40

theorem startC_nonBlank {c : Nat} (h : StartC c) : NonBlank c := by
  rcases h with h | h | h | h
  · simp only [isDec, Bool.and_eq_true, decide_eq_true_eq] at h
    refine ⟨?_, ?_, ?_⟩ <;> omega
  · simp only [isAl, Bool.or_eq_true, Bool.and_eq_true, decide_eq_true_eq] at h
    refine ⟨?_, ?_, ?_⟩ <;> omega
  · subst h; simp [NonBlank]
  · subst h; simp [NonBlank]

theorem startC_ne34 {c : Nat} (h : StartC c) : c ≠ 34 := by
  rcases h with h | h | h | h
  · simp only [isDec, Bool.and_eq_true, decide_eq_true_eq] at h; omega
  · simp only [isAl, Bool.or_eq_true, Bool.and_eq_true, decide_eq_true_eq] at h; omega
  · omega
  · omega

theorem term_start (t : TTerm) (h : t.WF) : ∃ c rest, t.render = c :: rest ∧ StartC c := by
  cases t with
  | num r ds =>
    obtain ⟨c, s', h1, h2⟩ := num_head r ds h
    exact ⟨c, s', by simp only [TTerm.render]; exact h1, Or.inl h2⟩
  | neg ds => exact ⟨45, ds, by simp only [TTerm.render], Or.inr (Or.inr (Or.inl rfl))⟩
  | label n =>
    simp only [TTerm.WF] at h
    obtain ⟨c, run, h1, h2, _⟩ := isLabel_split h
    exact ⟨c, run, by simp only [TTerm.render]; exact h1, Or.inr (Or.inl h2)⟩
  | paren l s r =>
    exact ⟨40, l ++ s.render ++ r ++ [41], by simp only [TTerm.render]; simp, Or.inr (Or.inr (Or.inr rfl))⟩

theorem seq_start (s : TSeq) (h : s.WF) : ∃ c rest, s.render = c :: rest ∧ StartC c := by
  cases s with
  | mk t rest =>
    simp only [TSeq.WF] at h
    obtain ⟨c, r', h1, h2⟩ := term_start t h.1
    exact ⟨c, r' ++ rest.render, by simp only [TSeq.render, h1]; rfl, h2⟩

theorem rest_after (rest : TRest) (h : rest.WF) (G rest0 : List Nat) (hG : GapG G rest0) (hC : CloseC rest0) :
    After (rest.render ++ (G ++ rest0)) := by
  cases rest with
  | nil => exact ⟨G, rest0, by simp only [TRest.render]; rfl, hG, hC.endC⟩
  | cons l op r t rest' =>
    simp only [TRest.WF] at h
    have hop : StopD (opChar op) := by cases op <;> simp [opChar, StopD]
    refine ⟨l, opChar op :: (r ++ t.render ++ rest'.render ++ (G ++ rest0)), ?_, gapG_blanks h.1 (stopD_nonBlank hop), ?_⟩
    · simp only [TRest.render]; simp
    · intro d t' hd
      injection hd with hd _
      rw [← hd]; exact Or.inl hop

theorem gapG_nil_of {B post' : List Nat} (hB : GapG B post') : GapG [] post' := by
  obtain ⟨B0, c0, _, _, hcm, hnb⟩ := hB
  have hb0 : IsBlanks [] := by intro _ h; cases h
  cases c0 with
  | none => exact ⟨[], none, rfl, hb0, (by intro b h; cases h), hnb⟩
  | some b =>
    refine ⟨[], none, rfl, hb0, (by intro b h; cases h), ?_⟩
    intro _ d t hd
    have hle := (hcm b rfl).2
    rw [hd] at hle
    cases hle <;> simp [NonBlank]

theorem closeC_paren (post : List Nat) : CloseC (41 :: post) := by
  intro d t hd
  injection hd with hd _
  exact Or.inl hd.symm

/-! ### combinators -/

theorem ev_star_some {env : Env} {a : PE} {at_ : Atom} {la : Bool} {p p1 p' d1 d2 d : Nat}
    {k1 ks : List Pair} (ha : Ev env d1 a at_ la p (some (p1, k1)))
    (hr : ∀ f, d2 ≤ f → ∃ acc, rep env f a at_ la p1 [k1] = (p', acc) ∧ acc.reverse.flatten = ks)
    (h1 : d1 ≤ d := by omega) (h2 : d2 ≤ d := by omega) :
    Ev env (d + 1) (.star a) at_ la p (some (p', ks)) := by
  intro f hf
  obtain ⟨f, rfl⟩ : ∃ f', f = f' + 1 := ⟨f - 1, by omega⟩
  obtain ⟨acc, e1, e2⟩ := hr f (by omega)
  rw [matchE.eq_7, ha f (by omega)]
  simp only
  rw [e1]
  simp only [e2]

def opterm : PE := .seq (.ref 44) (.ref 42)
def exprBody' : PE := .seq (.ref 42) (.star opterm)

theorem gr41' (text : List Nat) : (envOf text).g[41]? =
    some ⟨41, [101, 120, 112, 114, 101, 115, 115, 105, 111, 110], .nonatomic, exprBody'⟩ := rfl

/-- `operation ~ term` from an operator character on -/
theorem opterm_ok {q dT c : Nat} {r tr tr' post : List Nat} {ks : List Pair} (op : BinOp) (htr : tr = c :: tr')
    (hs : Suf text q (opChar op :: (r ++ (tr ++ post)))) (hr : IsBlanks r) (hc : NonBlank c)
    (hT : Ev (envOf text) dT (.ref 42) .nonAtomic false (q + 1 + r.length) (some (q + 1 + r.length + tr.length, ks)))
    {d : Nat} (h1 : dT ≤ d) (h2 : r.length + 30 ≤ d) :
    Ev (envOf text) (d + 1) opterm .nonAtomic false q
      (some (q + 1 + r.length + tr.length, [.mk (opRule op) q (q + 1) []] ++ ks)) := by
  subst htr
  exact Ev.seq (op_ok op hs) (skip_blanks r hr (hs.tail : Suf text (q + 1) (r ++ c :: (tr' ++ post))) hc) hT

/-- `operation` fails where a sequence ends -/
theorem op_fail {q : Nat} {s : List Nat} (hs : Suf text q s) (hC : CloseC s) :
    Ev (envOf text) 10 (.ref 44) .nonAtomic false q none := by
  have hne : ∀ x, x = 43 ∨ x = 45 ∨ x = 42 ∨ x = 47 → List.isPrefixOf [x] s = false := by
    intro x hx
    cases s with
    | nil => simp
    | cons d t =>
      have : x ≠ d := by
        rcases hC d t rfl with h | h | h | h <;> rcases hx with h' | h' | h' | h' <;> omega
      simp [List.isPrefixOf, this]
  have f45 : Ev (envOf text) 3 (.ref 45) .nonAtomic false q none :=
    evr (gr45 text) (by omega) (ev_str_fail hs (hne 43 (by simp))) (d := 1)
  have f46 : Ev (envOf text) 3 (.ref 46) .nonAtomic false q none :=
    evr (gr46 text) (by omega) (ev_str_fail hs (hne 45 (by simp))) (d := 1)
  have f47 : Ev (envOf text) 3 (.ref 47) .nonAtomic false q none :=
    evr (gr47 text) (by omega) (ev_str_fail hs (hne 42 (by simp))) (d := 1)
  have f48 : Ev (envOf text) 3 (.ref 48) .nonAtomic false q none :=
    evr (gr48 text) (by omega) (ev_str_fail hs (hne 47 (by simp))) (d := 1)
  exact (evr (gr44 text) (by omega) (Ev.alt_r (Ev.alt_r (Ev.alt_r f45 f46 (d := 3)) f47 (d := 4)) f48 (d := 5))
    (d := 6) (at_ := .nonAtomic)).mono (by omega)

/-- `operation ~ term` fails where a sequence ends -/
theorem opterm_fail {q : Nat} {s : List Nat} (hs : Suf text q s) (hC : CloseC s) :
    Ev (envOf text) 31 opterm .nonAtomic false q none :=
  Ev.seq_fail1 (op_fail hs hC)

/-- one `blanks operator blanks term` step, the term's own evaluation being given -/
theorem iter_ok (l : List Nat) (op : BinOp) (r : List Nat) (t : TTerm) (X : List Nat) (p : Nat)
    (hl : IsBlanks l) (hr : IsBlanks r) (hwt : t.WF)
    (hs : Suf text p (l ++ opChar op :: (r ++ (t.render ++ X))))
    (hT : ∀ q, Suf text q (t.render ++ X) → Ev (envOf text) (10 * (text.length - q) + 200) (.ref 42) .nonAtomic false q
      (some (q + t.render.length, [termPair q t]))) :
    Sk (envOf text) (l.length + 30) .nonAtomic p (p + l.length) ∧
    Ev (envOf text) (10 * (text.length - (p + l.length + 1)) + 201) opterm .nonAtomic false (p + l.length)
      (some (p + l.length + 1 + r.length + t.render.length,
        [.mk (opRule op) (p + l.length) (p + l.length + 1) [], termPair (p + l.length + 1 + r.length) t])) ∧
    Suf text (p + l.length + 1 + r.length + t.render.length) X ∧
    p + l.length + 1 + r.length + t.render.length + X.length = text.length ∧ 1 ≤ t.render.length := by
  obtain ⟨c, tr, htr, hc⟩ := term_start t hwt
  have hopnb : NonBlank (opChar op) := by cases op <;> simp [opChar, NonBlank]
  have hsk := skip_blanks l hl hs hopnb
  have hs1 : Suf text (p + l.length) (opChar op :: (r ++ (t.render ++ X))) := hs.app
  have hs3 : Suf text (p + l.length + 1 + r.length) (t.render ++ X) := hs1.tail.app
  have hs4 : Suf text (p + l.length + 1 + r.length + t.render.length) X := hs3.app
  have hlen3 := hs3.len
  have hlen4 := hs4.len
  rw [List.length_append] at hlen3
  have hI := opterm_ok op htr hs1 hr (startC_nonBlank hc) (hT _ hs3)
    (d := 10 * (text.length - (p + l.length + 1)) + 200) (by omega) (by omega)
  refine ⟨hsk, hI, hs4, hlen4, ?_⟩
  rw [htr]; simp

def seqEnd (p : Nat) (s : TSeq) (tb : Nat) : Nat :=
  match s with
  | .mk t rest => p + (t.render.length + rest.render.length) + (if rest.isNil then tb else 0)

theorem seqPair_mk (p : Nat) (t : TTerm) (rest : TRest) (tb : Nat) :
    seqPair p (.mk t rest) tb =
      .mk 41 p (seqEnd p (.mk t rest) tb) (termPair p t :: restKids (p + t.render.length) rest) := by
  simp only [seqPair, seqEnd]

mutual
theorem termT : ∀ (t : TTerm) (p : Nat) (post : List Nat), t.WF → After post → Suf text p (t.render ++ post) →
    Ev (envOf text) (10 * (text.length - p) + 200) (.ref 42) .nonAtomic false p
      (some (p + t.render.length, [termPair p t]))
  | .num r ds, p, post, hwf, hpost, hs => by
    have hs' : Suf text p (r.pre ++ ds ++ post) := by simpa only [TTerm.render] using hs
    have hlen := hs'.len
    simp only [List.length_append] at hlen
    have h := term_num r ds post hwf hs' hpost
    simp only [TTerm.render, List.length_append]
    exact h.mono (by omega)
  | .neg ds, p, post, hwf, hpost, hs => by
    have hs' : Suf text p (45 :: ds ++ post) := by simpa only [TTerm.render] using hs
    have hlen := hs'.len
    simp only [List.length_append, List.length_cons] at hlen
    have h := term_neg ds post hwf hs' hpost
    have e : p + (1 + ds.length) = p + (TTerm.neg ds).render.length := by
      simp only [TTerm.render, List.length_cons]; omega
    rw [e] at h
    exact h.mono (by omega)
  | .label n, p, post, hwf, hpost, hs => by
    simp only [TTerm.WF] at hwf
    have hs' : Suf text p (n ++ post) := by simpa only [TTerm.render] using hs
    have hlen := hs'.len
    simp only [List.length_append] at hlen
    have h := term_label n post hwf hs' hpost
    simp only [TTerm.render]
    exact h.mono (by omega)
  | .paren l s r, p, post, hwf, hpost, hs => by
    simp only [TTerm.WF] at hwf
    obtain ⟨hl, hws, hr⟩ := hwf
    have hs' : Suf text p (40 :: (l ++ (s.render ++ (r ++ 41 :: post)))) := by
      have := hs
      simp only [TTerm.render, List.append_assoc, List.cons_append, List.nil_append] at this
      exact this
    obtain ⟨c, sr, hsr, hc⟩ := seq_start s hws
    have f6 := alt6_fail_paren hs'
    have h40 : Ev (envOf text) 1 (.str [40]) .nonAtomic false p (some (p + 1, [])) :=
      ev_str_ok (pat := [40]) (s := l ++ (s.render ++ (r ++ 41 :: post))) hs'
    have hs1 : Suf text (p + 1) (l ++ (s.render ++ (r ++ 41 :: post))) := hs'.tail
    have hsk1 := skip_blanks l hl
      (by rw [hsr] at hs1; exact hs1 : Suf text (p + 1) (l ++ c :: (sr ++ (r ++ 41 :: post)))) (startC_nonBlank hc)
    have hs2 : Suf text (p + 1 + l.length) (s.render ++ (r ++ 41 :: post)) := hs1.app
    obtain ⟨hS, hsk2⟩ := seqS s (p + 1 + l.length) r (41 :: post) hws
      (gapG_blanks hr (by simp [NonBlank])) (closeC_paren post) hs2
    have hs4 : Suf text (p + 1 + l.length + s.render.length + r.length) (41 :: post) := hs2.app.app
    have h41 : Ev (envOf text) 1 (.str [41]) .nonAtomic false (p + 1 + l.length + s.render.length + r.length)
        (some (p + 1 + l.length + s.render.length + r.length + 1, [])) :=
      ev_str_ok (pat := [41]) (s := post) hs4
    have hlen2 := hs2.len
    have hlen4 := hs4.len
    have hparen : Ev (envOf text) (10 * (text.length - (p + 1)) + 206) parenE .nonAtomic false p
        (some (p + 1 + l.length + s.render.length + r.length + 1, [seqPair (p + 1 + l.length) s r.length])) :=
      Ev.seq (Ev.seq h40 hsk1 hS (d := 10 * (text.length - (p + 1)) + 204)) hsk2 h41
        (d := 10 * (text.length - (p + 1)) + 205)
    have h7 : Ev (envOf text) (10 * (text.length - (p + 1)) + 207) termBody .nonAtomic false p _ :=
      Ev.alt_r f6 hparen (d := 10 * (text.length - (p + 1)) + 206)
    have h := evr (gr42' text) (by omega) h7 (d := 10 * (text.length - (p + 1)) + 207) (at_ := .nonAtomic)
    have e : p + 1 + l.length + s.render.length + r.length + 1 = p + (TTerm.paren l s r).render.length := by
      simp only [TTerm.render, List.length_append, List.length_cons, List.length_nil]; omega
    rw [e] at h
    simp only [termPair]
    exact h.mono (by omega)
theorem seqS : ∀ (s : TSeq) (p : Nat) (B post' : List Nat), s.WF → GapG B post' → CloseC post' →
    Suf text p (s.render ++ (B ++ post')) →
    Ev (envOf text) (10 * (text.length - p) + 204) (.ref 41) .nonAtomic false p
      (some (seqEnd p s B.length, [seqPair p s B.length])) ∧
    Sk (envOf text) (B.length + 100) .nonAtomic (seqEnd p s B.length) (p + s.render.length + B.length)
  | .mk t rest, p, B, post', hwf, hB, hC, hs => by
    simp only [TSeq.WF] at hwf
    obtain ⟨hwt, hwr⟩ := hwf
    have hs' : Suf text p (t.render ++ (rest.render ++ (B ++ post'))) := by
      simpa only [TSeq.render, List.append_assoc] using hs
    have hT := termT t p _ hwt (rest_after rest hwr B post' hB hC) hs'
    have hs1 : Suf text (p + t.render.length) (rest.render ++ (B ++ post')) := hs'.app
    obtain ⟨q, e, hsk, hstar, he, hsk2⟩ := starS rest (p + t.render.length) B post' hwr hB hC hs1
    obtain ⟨c, tr, htr, _⟩ := term_start t hwt
    have hpos : 1 ≤ t.render.length := by rw [htr]; simp
    have hlen1 := hs1.len
    have hbody : Ev (envOf text) (10 * (text.length - p) + 201) exprBody' .nonAtomic false p
        (some (e, [termPair p t] ++ restKids (p + t.render.length) rest)) :=
      Ev.seq hT hsk hstar (d := 10 * (text.length - p) + 200)
    have h41 := evr (gr41' text) (by omega) hbody (d := 10 * (text.length - p) + 201) (at_ := .nonAtomic)
    have ee : e = seqEnd p (.mk t rest) B.length := by rw [he]; simp only [seqEnd]; omega
    refine ⟨?_, ?_⟩
    · rw [seqPair_mk, ← ee]; exact h41.mono (by omega)
    · rw [← ee]
      simp only [TSeq.render, List.length_append]
      rw [← Nat.add_assoc]; exact hsk2
theorem starS : ∀ (rest : TRest) (p : Nat) (B post' : List Nat), rest.WF → GapG B post' → CloseC post' →
    Suf text p (rest.render ++ (B ++ post')) →
    ∃ q e, Sk (envOf text) (10 * (text.length - p) + 100) .nonAtomic p q ∧
      Ev (envOf text) (10 * (text.length - p) + 210) (.star opterm) .nonAtomic false q (some (e, restKids p rest)) ∧
      e = p + rest.render.length + (if rest.isNil then B.length else 0) ∧
      Sk (envOf text) (B.length + 100) .nonAtomic e (p + rest.render.length + B.length)
  | .nil, p, B, post', _, hB, hC, hs => by
    have hs' : Suf text p (B ++ post') := by simpa only [TRest.render, List.nil_append] using hs
    have hs2 : Suf text (p + B.length) post' := hs'.app
    have hlen2 := hs2.len
    have hsk := skip_gapG hB hs'
    have hnil : GapG [] post' := gapG_nil_of hB
    refine ⟨p + B.length, p + B.length, hsk.mono (by omega), ?_, ?_, ?_⟩
    · simp only [restKids]
      exact (Ev.star0 (opterm_fail hs2 hC) (d := 31)).mono (by omega)
    · simp [TRest.render, TRest.isNil]
    · simp only [TRest.render, List.length_nil, Nat.add_zero]
      have := skip_gapG hnil (by simpa using hs2 : Suf text (p + B.length) ([] ++ post'))
      simp only [List.length_nil, Nat.add_zero] at this
      exact this.mono (by omega)
  | .cons l op r t rest', p, B, post', hwf, hB, hC, hs => by
    simp only [TRest.WF] at hwf
    obtain ⟨hl, hr, hwt, hwr⟩ := hwf
    have hs' : Suf text p (l ++ opChar op :: (r ++ (t.render ++ (rest'.render ++ (B ++ post'))))) := by
      have := hs
      simp only [TRest.render, List.append_assoc, List.cons_append, List.nil_append] at this
      exact this
    obtain ⟨hsk, hI, hs4, hlen4, hpos⟩ := iter_ok l op r t _ p hl hr hwt hs'
      (fun q hq => termT t q _ hwt (rest_after rest' hwr B post' hB hC) hq)
    have hrep : ∀ f, 10 * (text.length - (p + l.length + 1 + r.length + t.render.length)) + 200 ≤ f →
        ∃ acc, rep (envOf text) f opterm .nonAtomic false (p + l.length + 1 + r.length + t.render.length)
            [[.mk (opRule op) (p + l.length) (p + l.length + 1) [], termPair (p + l.length + 1 + r.length) t]] =
            (p + l.length + 1 + r.length + t.render.length + rest'.render.length, acc) ∧
          acc.reverse.flatten = restKids p (.cons l op r t rest') := by
      intro f hf
      obtain ⟨acc', h1, h2⟩ := repR rest' _ B post' [[.mk (opRule op) (p + l.length) (p + l.length + 1) [],
        termPair (p + l.length + 1 + r.length) t]] f hwr hB hC hs4 hf
      exact ⟨acc', h1, by rw [h2]; simp [restKids]⟩
    have hstar := ev_star_some hI hrep (d := 10 * (text.length - p) + 200) (by omega) (by omega)
    have hs5 : Suf text (p + l.length + 1 + r.length + t.render.length + rest'.render.length) (B ++ post') :=
      hs4.app
    have hsk2 := skip_gapG hB hs5
    have hlen := hs'.len
    simp only [List.length_append, List.length_cons] at hlen hlen4
    have erl : (TRest.cons l op r t rest').render.length =
        l.length + 1 + r.length + t.render.length + rest'.render.length := by
      simp only [TRest.render, List.length_append, List.length_cons, List.length_nil]
    refine ⟨p + l.length, _, hsk.mono (by omega), hstar.mono (by omega), ?_, ?_⟩
    · rw [erl]; simp only [TRest.isNil]; simp; omega
    · rw [erl]
      have e2 : p + (l.length + 1 + r.length + t.render.length + rest'.render.length) =
          p + l.length + 1 + r.length + t.render.length + rest'.render.length := by omega
      rw [e2]; exact hsk2
theorem repR : ∀ (rest : TRest) (p : Nat) (B post' : List Nat) (acc : List (List Pair)) (f : Nat), rest.WF →
    GapG B post' → CloseC post' → Suf text p (rest.render ++ (B ++ post')) → 10 * (text.length - p) + 200 ≤ f →
    ∃ acc', rep (envOf text) f opterm .nonAtomic false p acc = (p + rest.render.length, acc') ∧
      acc'.reverse.flatten = acc.reverse.flatten ++ restKids p rest
  | .nil, p, B, post', acc, f, _, hB, hC, hs, hf => by
    obtain ⟨f, rfl⟩ : ∃ f', f = f' + 1 := ⟨f - 1, by omega⟩
    have hs' : Suf text p (B ++ post') := by simpa only [TRest.render, List.nil_append] using hs
    have hs2 : Suf text (p + B.length) post' := hs'.app
    have hlen2 := hs2.len
    refine ⟨acc, ?_, by simp [restKids]⟩
    rw [rep.eq_2, skip_gapG hB hs' f (by omega), opterm_fail hs2 hC f (by omega)]
    simp [TRest.render]
  | .cons l op r t rest', p, B, post', acc, f, hwf, hB, hC, hs, hf => by
    obtain ⟨f, rfl⟩ : ∃ f', f = f' + 1 := ⟨f - 1, by omega⟩
    simp only [TRest.WF] at hwf
    obtain ⟨hl, hr, hwt, hwr⟩ := hwf
    have hs' : Suf text p (l ++ opChar op :: (r ++ (t.render ++ (rest'.render ++ (B ++ post'))))) := by
      have := hs
      simp only [TRest.render, List.append_assoc, List.cons_append, List.nil_append] at this
      exact this
    obtain ⟨hsk, hI, hs4, hlen4, hpos⟩ := iter_ok l op r t _ p hl hr hwt hs'
      (fun q hq => termT t q _ hwt (rest_after rest' hwr B post' hB hC) hq)
    obtain ⟨acc', h1, h2⟩ := repR rest' _ B post' ([.mk (opRule op) (p + l.length) (p + l.length + 1) [],
        termPair (p + l.length + 1 + r.length) t] :: acc) f hwr hB hC hs4 (by omega)
    have erl : (TRest.cons l op r t rest').render.length =
        l.length + 1 + r.length + t.render.length + rest'.render.length := by
      simp only [TRest.render, List.length_append, List.length_cons, List.length_nil]
    refine ⟨acc', ?_, ?_⟩
    · rw [rep.eq_2, hsk f (by omega), hI f (by omega)]
      have hne : ¬ (p + l.length + 1 + r.length + t.render.length = p) := by omega
      simp only [hne, if_false]
      rw [h1, erl]
      congr 1; omega
    · rw [h2]; simp [restKids]
end

end ExprText
end Asm
end EtkVerif
