/-
Termination of the assembler model: the fuel that drives the structural
recursions of `assemble` / `push` / `expandMacro` / `feed` / `feedAll` is never
the reason for an answer once it exceeds a bound computed from the program — macro
expansion ends because nesting is cut off at `maxMacroDepth` levels and every
body is finite.
-/
import EtkVerif.Asm.Refine
namespace EtkVerif
namespace Asm

/-! ### monotonicity in the fuel -/

/-- "not the fuel running out" -/
def NoFuel {α : Type} (r : Except AsmErr α) : Prop := r ≠ .error (.panic "fuel")

def FuelMono (rnd : Nat → Nat) (f : Nat) : Prop :=
  (∀ s rop, NoFuel (push rnd f s rop) → push rnd (f + 1) s rop = push rnd f s rop) ∧
  (∀ s name args, NoFuel (expandMacro rnd f s name args) →
      expandMacro rnd (f + 1) s name args = expandMacro rnd f s name args) ∧
  (∀ s body, NoFuel (feed rnd f s body) → feed rnd (f + 1) s body = feed rnd f s body) ∧
  (∀ s ops, NoFuel (feedAll rnd f s ops) → feedAll rnd (f + 1) s ops = feedAll rnd f s ops) ∧
  (∀ s ops, NoFuel (assemble rnd f s ops) → assemble rnd (f + 1) s ops = assemble rnd f s ops)

theorem fuelMono (rnd : Nat → Nat) : ∀ f, FuelMono rnd f := by
  intro f
  induction f with
  | zero =>
    refine ⟨?_, ?_, ?_, ?_, ?_⟩
    · intro s rop h; exact absurd (by simp [push]) h
    · intro s name args h; exact absurd (by simp [expandMacro]) h
    · intro s body h; exact absurd (by simp [feed]) h
    · intro s ops h; exact absurd (by simp [feedAll]) h
    · intro s ops h; exact absurd (by simp [assemble]) h
  | succ f ih =>
    obtain ⟨hP, hM, hF, hFA, hA⟩ := ih
    refine ⟨?_, ?_, ?_, ?_, ?_⟩
    · intro s rop h
      cases rop with
      | op o =>
        cases o with
        | label l => simp only [push]
        | instrDef n ps b => simp only [push]
        | exprDef n ps b => simp only [push]
        | «macro» name args =>
          simp only [push] at h ⊢
          exact hM _ _ _ h
        | op code imm => simp only [push]
        | push ex => simp only [push]
      | raw bs => simp only [push]
      | scope ops =>
        simp only [push] at h ⊢
        have hn : NoFuel (assemble rnd f { fresh := s.fresh } ops) := by
          intro hc; rw [hc] at h; exact h rfl
        rw [hA _ _ hn]
    · intro s name args h
      rw [expandMacro] at h
      rw [expandMacro, expandMacro]
      split
      · split
        · rfl
        · split
          · rfl
          · split
            · rfl
            · next params body _ _ body2 k hi =>
              simp only [*] at h
              have hn : NoFuel (feed rnd f { s with depth := s.depth + 1, fresh := k } body2) := by
                intro hc; rw [hc] at h; exact h rfl
              rw [hF _ _ hn]
      · rfl
    · intro s body h
      cases body with
      | nil => simp only [feed]
      | cons o os =>
        simp only [feed] at h ⊢
        have hn : NoFuel (push rnd f s (.op o)) := by
          intro hc; rw [hc] at h; exact h rfl
        rw [hP _ _ hn]
        cases hp : push rnd f s (.op o) with
        | error e => rfl
        | ok s1 =>
          rw [hp] at h
          exact hF _ _ h
    · intro s ops h
      cases ops with
      | nil => simp only [feedAll]
      | cons o os =>
        simp only [feedAll] at h ⊢
        have hn : NoFuel (push rnd f s o) := by
          intro hc; rw [hc] at h; exact h rfl
        rw [hP _ _ hn]
        cases hp : push rnd f s o with
        | error e => rfl
        | ok s1 =>
          rw [hp] at h
          exact hFA _ _ h
    · intro s ops h
      simp only [assemble] at h ⊢
      cases hd : declareMacros ops.toList s.macros with
      | error e => rfl
      | ok ms =>
        rw [hd] at h
        simp only [] at h ⊢
        have hn : NoFuel (feedAll rnd f { s with macros := ms } ops) := by
          intro hc; rw [hc] at h; exact h rfl
        rw [hFA _ _ hn]

/-- more fuel never changes an answer that was not the fuel running out -/
theorem assemble_fuel_mono (rnd : Nat → Nat) (f : Nat) (s : St) (ops : RawOps) (r : Except AsmErr (List Nat × Nat))
    (h : assemble rnd f s ops = r) (hr : r ≠ .error (.panic "fuel")) :
    assemble rnd (f + 1) s ops = r := by
  subst h
  exact (fuelMono rnd f).2.2.2.2 s ops hr


/-! ### sizes -/

mutual
def aopSize : AOp → Nat
  | .instrDef _ _ body => 1 + aopsSize body
  | _ => 1
def aopsSize : AOps → Nat
  | .nil => 1
  | .cons h t => 1 + aopSize h + aopsSize t
end

mutual
def rawOpSize : RawOp → Nat
  | .op a => 1 + aopSize a
  | .scope ops => 1 + opsSize ops
  | .raw _ => 1
/-- number of constructors of a raw program (statements, nested scopes, macro bodies) -/
def opsSize : RawOps → Nat
  | .nil => 1
  | .cons h t => 1 + rawOpSize h + opsSize t
end

theorem aops_length_le : ∀ body : AOps, body.toList.length + 1 ≤ aopsSize body
  | .nil => by simp [AOps.toList, aopsSize]
  | .cons h t => by
    have := aops_length_le t
    simp only [AOps.toList, aopsSize, List.length_cons]
    omega

mutual
/-- every instruction-macro body defined anywhere in the item (nested scopes included) has at most `B` statements -/
def opBodies (B : Nat) : RawOp → Prop
  | .op (.instrDef _ _ body) => body.toList.length ≤ B
  | .op _ => True
  | .scope ops => opsBodies B ops
  | .raw _ => True
def opsBodies (B : Nat) : RawOps → Prop
  | .nil => True
  | .cons h t => opBodies B h ∧ opsBodies B t
end

mutual
theorem opBodies_of_size : ∀ (o : RawOp) (B : Nat), rawOpSize o ≤ B → opBodies B o
  | .op a, B, h => by
    cases a with
    | instrDef n ps body =>
      have := aops_length_le body
      simp only [rawOpSize, aopSize] at h
      simp only [opBodies]
      omega
    | op _ _ | label _ | push _ | exprDef _ _ _ | «macro» _ _ => simp [opBodies]
  | .scope ops, B, h => by
    simp only [rawOpSize] at h
    simp only [opBodies]
    exact opsBodies_of_size ops B (by omega)
  | .raw _, B, h => by simp [opBodies]
theorem opsBodies_of_size : ∀ (ops : RawOps) (B : Nat), opsSize ops ≤ B → opsBodies B ops
  | .nil, B, h => by simp [opsBodies]
  | .cons o t, B, h => by
    simp only [opsSize] at h
    simp only [opsBodies]
    exact ⟨opBodies_of_size o B (by omega), opsBodies_of_size t B (by omega)⟩
end


/-! ### stored macro bodies are bounded -/

/-- every stored instruction-macro body has at most `B` statements -/
def MB (B : Nat) (ms : List (String × MacroDef)) : Prop :=
  ∀ p ∈ ms, ∀ ps body, p.2 = MacroDef.instr ps body → body.length ≤ B

theorem MB_nil (B : Nat) : MB B [] := by intro p hp; cases hp

theorem MB_snoc {B : Nat} {ms : List (String × MacroDef)} (h : MB B ms) (n : String) (d : MacroDef)
    (hd : ∀ ps body, d = MacroDef.instr ps body → body.length ≤ B) : MB B (ms ++ [(n, d)]) := by
  intro p hp ps body hb
  rcases List.mem_append.1 hp with hp | hp
  · exact h p hp ps body hb
  · simp only [List.mem_singleton] at hp
    subst hp
    exact hd ps body hb

theorem MB_lookup {B : Nat} {ms : List (String × MacroDef)} (h : MB B ms) {n : String} {ps : List String}
    {body : List AOp} (hl : lookupMacro ms n = some (.instr ps body)) : body.length ≤ B := by
  unfold lookupMacro at hl
  cases hf : ms.find? (·.1 == n) with
  | none => rw [hf] at hl; simp at hl
  | some p =>
    rw [hf] at hl
    simp only [Option.map_some, Option.some.injEq] at hl
    exact h p (List.mem_of_find?_eq_some hf) ps body hl

theorem opsBodies_toList {B : Nat} : ∀ (ops : RawOps), opsBodies B ops → ∀ o ∈ ops.toList, opBodies B o
  | .nil, _, o, ho => by simp [RawOps.toList] at ho
  | .cons h t, hb, o, ho => by
    simp only [opsBodies] at hb
    simp only [RawOps.toList, List.mem_cons] at ho
    rcases ho with ho | ho
    · subst ho; exact hb.1
    · exact opsBodies_toList t hb.2 o ho

theorem declareMacros_MB {B : Nat} (ops : List RawOp) (ms ms' : List (String × MacroDef))
    (hb : ∀ o ∈ ops, opBodies B o) (hm : MB B ms) (h : declareMacros ops ms = .ok ms') : MB B ms' := by
  induction ops generalizing ms with
  | nil => simp only [declareMacros, Except.ok.injEq] at h; subst h; exact hm
  | cons x rest ih =>
    have hrest : ∀ o ∈ rest, opBodies B o := fun o ho => hb o (List.mem_cons_of_mem _ ho)
    cases x with
    | raw bs => simp only [declareMacros] at h; exact ih _ hrest hm h
    | scope o => simp only [declareMacros] at h; exact ih _ hrest hm h
    | op o =>
      cases o with
      | instrDef n ps body =>
        simp only [declareMacros] at h
        split at h
        · cases h
        · refine ih _ hrest (MB_snoc hm _ _ ?_) h
          intro ps' body' hd
          have := hb _ (List.mem_cons_self ..)
          simp only [opBodies] at this
          injection hd with h1 h2
          subst h2
          exact this
      | exprDef n ps body =>
        simp only [declareMacros] at h
        split at h
        · cases h
        · refine ih _ hrest (MB_snoc hm _ _ ?_) h
          intro ps' body' hd
          cases hd
      | op code imm => simp only [declareMacros] at h; exact ih _ hrest hm h
      | label l => simp only [declareMacros] at h; exact ih _ hrest hm h
      | push ex => simp only [declareMacros] at h; exact ih _ hrest hm h
      | «macro» n a => simp only [declareMacros] at h; exact ih _ hrest hm h

/-! ### the instantiated body is as long as the stored one -/

theorem renameLocals_length (rnd : Nat → Nat) (name : String) (body : List AOp) (k : Nat)
    (m : List (String × String)) (r : List AOp × Nat × List (String × String))
    (h : renameLocals rnd name body k m = .ok r) : r.1.length = body.length := by
  induction body generalizing k m r with
  | nil => simp only [renameLocals, Except.ok.injEq] at h; subst h; rfl
  | cons o rest ih =>
    cases o with
    | label l =>
      simp only [renameLocals] at h
      split at h
      · cases h
      · cases hr : renameLocals rnd name rest (k + 1) (m ++ [(l, mangle rnd k name l)]) with
        | error e1 => rw [hr] at h; cases h
        | ok r1 =>
          rw [hr] at h
          simp only [Except.ok.injEq] at h
          subst h
          simp only [List.length_cons, ih _ _ _ hr]
    | op code imm | push ex | instrDef n ps b | exprDef n ps b | «macro» n a =>
      simp only [renameLocals] at h
      cases hr : renameLocals rnd name rest k m with
      | error e1 => rw [hr] at h; cases h
      | ok r1 =>
        rw [hr] at h
        simp only [Except.ok.injEq] at h
        subst h
        simp only [List.length_cons, ih _ _ _ hr]

theorem instantiate_length (rnd : Nat → Nat) (name : String) (params : List String) (body : List AOp)
    (args : List Expr) (k : Nat) (r : List AOp × Nat)
    (h : instantiate rnd name params body args k = .ok r) : r.1.length = body.length := by
  unfold instantiate at h
  split at h
  · cases h
  · cases hr : renameLocals rnd name body k [] with
    | error e1 => rw [hr] at h; cases h
    | ok r1 =>
      rw [hr] at h
      simp only [Except.ok.injEq] at h
      subst h
      simp only [substBody, List.length_map]
      exact renameLocals_length _ _ _ _ _ _ hr

/-! ### `push` keeps the macro table and the nesting depth -/

theorem pushInstr_pres (s : St) (o : AOp) (item : Item) (size : Option Nat) (conc : St → Conc) (s' : St)
    (h : pushInstr s o item size conc = .ok s') : s'.macros = s.macros ∧ s'.depth = s.depth := by
  rw [pushInstr_eq] at h
  cases hm : mentionedOf s.macros o with
  | error e1 => rw [hm] at h; cases h
  | ok ls =>
    rw [hm] at h
    simp only [] at h
    split at h
    · simp only [Except.ok.injEq] at h; subst h; exact ⟨rfl, rfl⟩
    · split at h
      · simp only [Except.ok.injEq] at h; subst h; exact ⟨rfl, rfl⟩
      · cases h
    · split at h
      · simp only [Except.ok.injEq] at h; subst h; exact ⟨rfl, rfl⟩
      · cases h
    · split at h
      · simp only [Except.ok.injEq] at h; subst h; exact ⟨rfl, rfl⟩
      · cases h
    · simp only [Except.ok.injEq] at h; subst h; exact ⟨rfl, rfl⟩
    · cases h

def Pres (rnd : Nat → Nat) (f : Nat) : Prop :=
  (∀ s rop s', push rnd f s rop = .ok s' → s'.macros = s.macros ∧ s'.depth = s.depth) ∧
  (∀ s name args s', expandMacro rnd f s name args = .ok s' → s'.macros = s.macros ∧ s'.depth = s.depth) ∧
  (∀ s body s', feed rnd f s body = .ok s' → s'.macros = s.macros ∧ s'.depth = s.depth)

theorem pres (rnd : Nat → Nat) : ∀ f, Pres rnd f := by
  intro f
  induction f with
  | zero =>
    refine ⟨?_, ?_, ?_⟩
    · intro s rop s' h; simp [push] at h
    · intro s name args s' h; simp [expandMacro] at h
    · intro s body s' h; simp [feed] at h
  | succ f ih =>
    obtain ⟨hP, hM, hF⟩ := ih
    refine ⟨?_, ?_, ?_⟩
    · intro s rop s' h
      cases rop with
      | op o =>
        cases o with
        | label l =>
          simp only [push] at h
          split at h
          · cases h
          · simp only [Except.ok.injEq] at h; subst h; exact ⟨rfl, rfl⟩
        | instrDef n ps b => simp only [push, Except.ok.injEq] at h; subst h; exact ⟨rfl, rfl⟩
        | exprDef n ps b => simp only [push, Except.ok.injEq] at h; subst h; exact ⟨rfl, rfl⟩
        | «macro» name args => simp only [push] at h; exact hM _ _ _ _ h
        | op code imm => simp only [push] at h; exact pushInstr_pres _ _ _ _ _ _ h
        | push ex => simp only [push] at h; exact pushInstr_pres _ _ _ _ _ _ h
      | raw bs => simp only [push, Except.ok.injEq] at h; subst h; exact ⟨rfl, rfl⟩
      | scope ops =>
        simp only [push] at h
        cases ha : assemble rnd f { fresh := s.fresh } ops with
        | error e1 => rw [ha] at h; cases h
        | ok r => rw [ha] at h; simp only [Except.ok.injEq] at h; subst h; exact ⟨rfl, rfl⟩
    · intro s name args s' h
      simp only [expandMacro] at h
      split at h
      · split at h
        · cases h
        · split at h
          · cases h
          · split at h
            · cases h
            · split at h
              · cases h
              · next s1 hfe =>
                simp only [Except.ok.injEq] at h
                subst h
                have := hF _ _ _ hfe
                simp only [] at this ⊢
                refine ⟨this.1, ?_⟩
                rw [this.2]
                omega
      · cases h
    · intro s body s' h
      cases body with
      | nil => simp only [feed, Except.ok.injEq] at h; subst h; exact ⟨rfl, rfl⟩
      | cons o os =>
        simp only [feed] at h
        cases hp : push rnd f s (.op o) with
        | error e1 => rw [hp] at h; cases h
        | ok s1 =>
          rw [hp] at h
          have h1 := hP _ _ _ hp
          have h2 := hF _ _ _ h
          exact ⟨h2.1.trans h1.1, h2.2.trans h1.2⟩


/-! ### enough fuel -/

/-- fuel that `push` of one statement needs when at most `d` further levels of macro nesting are allowed
and no stored body is longer than `B` -/
def needPush (B : Nat) : Nat → Nat
  | 0 => 2
  | d + 1 => needPush B d + B + 2

theorem needPush_ge (B d : Nat) : 2 ≤ needPush B d := by
  cases d with
  | zero => simp [needPush]
  | succ d => simp only [needPush]; omega

theorem needPush_eq (B d : Nat) : needPush B d = 2 + d * (B + 2) := by
  induction d with
  | zero => simp [needPush]
  | succ d ih => simp only [needPush, ih, Nat.succ_mul]; omega

theorem opsSize_pos (ops : RawOps) : 1 ≤ opsSize ops := by
  cases ops with
  | nil => simp [opsSize]
  | cons h t => simp only [opsSize]; omega

theorem bound_arith (S fuel : Nat) (h : (255 + 2) * (S + 2) ≤ fuel) : S + 1 + (2 + 255 * (S + 2)) ≤ fuel := by
  rw [Nat.add_mul] at h
  generalize 255 * (S + 2) = x at h ⊢
  omega

def Suff (rnd : Nat → Nat) (B : Nat) (f : Nat) : Prop :=
  (∀ s a d, MB B s.macros → maxMacroDepth ≤ s.depth + d → needPush B d ≤ f → NoFuel (push rnd f s (.op a))) ∧
  (∀ s name args d, MB B s.macros → maxMacroDepth ≤ s.depth + d → needPush B d ≤ f + 1 →
      NoFuel (expandMacro rnd f s name args)) ∧
  (∀ s body d, MB B s.macros → maxMacroDepth ≤ s.depth + d → body.length + needPush B d ≤ f →
      NoFuel (feed rnd f s body)) ∧
  (∀ s o, MB B s.macros → opBodies B o → rawOpSize o + 1 + needPush B maxMacroDepth ≤ f → NoFuel (push rnd f s o)) ∧
  (∀ s ops, MB B s.macros → opsBodies B ops → opsSize ops + needPush B maxMacroDepth ≤ f →
      NoFuel (feedAll rnd f s ops)) ∧
  (∀ s ops, MB B s.macros → opsBodies B ops → opsSize ops + 1 + needPush B maxMacroDepth ≤ f →
      NoFuel (assemble rnd f s ops))

theorem suff (rnd : Nat → Nat) (B : Nat) : ∀ f, Suff rnd B f := by
  intro f
  induction f with
  | zero =>
    refine ⟨?_, ?_, ?_, ?_, ?_, ?_⟩
    · intro s a d _ _ h; have := needPush_ge B d; omega
    · intro s name args d _ _ h; have := needPush_ge B d; omega
    · intro s body d _ _ h; have := needPush_ge B d; omega
    · intro s o _ _ h; have := needPush_ge B maxMacroDepth; omega
    · intro s ops _ _ h; have := needPush_ge B maxMacroDepth; omega
    · intro s ops _ _ h; have := needPush_ge B maxMacroDepth; omega
  | succ f ih =>
    obtain ⟨hP, hM, hF, hR, hFA, hA⟩ := ih
    have hPnew : ∀ s a d, MB B s.macros → maxMacroDepth ≤ s.depth + d → needPush B d ≤ f + 1 →
        NoFuel (push rnd (f + 1) s (.op a)) := by
      intro s a d hmb hd hn
      cases a with
      | label l =>
        simp only [push]
        split
        · intro h; cases h
        · intro h; cases h
      | instrDef n ps b => simp only [push]; intro h; cases h
      | exprDef n ps b => simp only [push]; intro h; cases h
      | «macro» name args => simp only [push]; exact hM _ _ _ d hmb hd hn
      | op code imm =>
        simp only [push]
        intro h
        exact pushInstr_notPanic _ _ _ _ _ _ h "fuel" rfl
      | push ex =>
        simp only [push]
        intro h
        exact pushInstr_notPanic _ _ _ _ _ _ h "fuel" rfl
    refine ⟨hPnew, ?_, ?_, ?_, ?_, ?_⟩
    · intro s name args d hmb hd hn
      simp only [expandMacro]
      split
      · next params body hl =>
        split
        · intro h; cases h
        · split
          · intro h; cases h
          · next hdep =>
            split
            · next e1 hi =>
              intro h
              injection h with h
              subst h
              exact instantiate_notPanic _ _ _ _ _ _ _ hi "fuel" rfl
            · next body2 k hi =>
              have hlen : body2.length = body.length := instantiate_length _ _ _ _ _ _ _ hi
              have hb : body.length ≤ B := MB_lookup hmb hl
              cases d with
              | zero => omega
              | succ d' =>
                simp only [needPush] at hn
                have hfeed : NoFuel (feed rnd f { s with depth := s.depth + 1, fresh := k } body2) :=
                  hF _ _ d' hmb (by simp only []; omega) (by omega)
                split
                · next e1 hfe => rw [hfe] at hfeed; exact hfeed
                · intro h; cases h
      · intro h; cases h
    · intro s body d hmb hd hn
      cases body with
      | nil => simp only [feed]; intro h; cases h
      | cons o os =>
        simp only [feed]
        simp only [List.length_cons] at hn
        have h1 : NoFuel (push rnd f s (.op o)) := hP _ _ d hmb hd (by omega)
        cases hp : push rnd f s (.op o) with
        | error e1 => rw [hp] at h1; exact h1
        | ok s1 =>
          have hpr := (pres rnd f).1 _ _ _ hp
          simp only []
          exact hF _ _ d (by rw [hpr.1]; exact hmb) (by rw [hpr.2]; exact hd) (by omega)
    · intro s o hmb hb hn
      cases o with
      | op a =>
        simp only [rawOpSize] at hn
        exact hPnew _ _ maxMacroDepth hmb (by omega) (by omega)
      | raw bs => simp only [push]; intro h; cases h
      | scope ops =>
        simp only [push]
        simp only [rawOpSize] at hn
        simp only [opBodies] at hb
        have h1 : NoFuel (assemble rnd f { fresh := s.fresh } ops) := hA _ _ (MB_nil B) hb (by omega)
        cases ha : assemble rnd f { fresh := s.fresh } ops with
        | error e1 =>
          rw [ha] at h1
          simp only []
          intro h
          injection h with h
          subst h
          exact h1 rfl
        | ok r => simp only []; intro h; cases h
    · intro s ops hmb hb hn
      cases ops with
      | nil => simp only [feedAll]; intro h; cases h
      | cons o os =>
        simp only [feedAll]
        simp only [opsSize] at hn
        simp only [opsBodies] at hb
        have hpos := opsSize_pos os
        have h1 : NoFuel (push rnd f s o) := hR _ _ hmb hb.1 (by omega)
        cases hp : push rnd f s o with
        | error e1 => rw [hp] at h1; exact h1
        | ok s1 =>
          have hpr := (pres rnd f).1 _ _ _ hp
          simp only []
          exact hFA _ _ (by rw [hpr.1]; exact hmb) hb.2 (by omega)
    · intro s ops hmb hb hn
      simp only [assemble]
      cases hd : declareMacros ops.toList s.macros with
      | error e1 =>
        simp only []
        intro h
        injection h with h
        subst h
        exact declareMacros_notPanic _ _ _ hd "fuel" rfl
      | ok ms =>
        simp only []
        have hms : MB B ms := declareMacros_MB _ _ _ (opsBodies_toList ops hb) hmb hd
        have h1 : NoFuel (feedAll rnd f { s with macros := ms } ops) := hFA _ _ hms hb (by omega)
        cases hfa : feedAll rnd f { s with macros := ms } ops with
        | error e1 =>
          rw [hfa] at h1
          simp only []
          intro h
          injection h with h
          subst h
          exact h1 rfl
        | ok s1 =>
          simp only []
          cases hfin : finish s1 with
          | error e1 =>
            simp only [Except.map]
            intro h
            injection h with h
            subst h
            exact finish_notPanic _ _ hfin "fuel" rfl
          | ok bytes => simp only [Except.map]; intro h; cases h

/-- with fuel above an explicit bound the model never reports `panic` at all -/
theorem assemble_fuel_sufficient (rnd : Nat → Nat) (k : Nat) (ops : RawOps) (fuel : Nat)
    (hf : (maxMacroDepth + 2) * (opsSize ops + 2) ≤ fuel) (site : String) :
    assemble rnd fuel { fresh := k } ops ≠ .error (.panic site) := by
  intro h
  have hs := assemble_no_panic rnd fuel k ops site h
  subst hs
  refine (suff rnd (opsSize ops) fuel).2.2.2.2.2 { fresh := k } ops (MB_nil _)
    (opsBodies_of_size ops _ (Nat.le_refl _)) ?_ h
  rw [needPush_eq]
  exact bound_arith _ _ hf

end Asm
end EtkVerif
