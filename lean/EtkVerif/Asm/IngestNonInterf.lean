/-
C18 as NON-INTERFERENCE: the outcome of `ingest_file` — bytes or error, and the whole trace — does not depend on the
content of any file outside the root of the top-level source.  Two file systems with the same directory structure
(`canon`, `isDir`) that hold the same text in every file INSIDE that root (and in the top-level file itself) give the
same result, whatever the files outside contain.  Unlike the trace theorems (`C18_all_runs_*`), this does not rely on
the model reporting its own reads: a read the model made without an event would still be a dependence.
-/
import EtkVerif.Asm.IngestTraced
namespace EtkVerif
namespace Asm

/-- same directory structure; same text wherever `ok` holds -/
structure AgreeOn (fs fs' : FS) (ok : List String → Prop) : Prop where
  canon : ∀ p, fs'.canon p = fs.canon p
  isDir : ∀ loc, fs'.isDir loc = fs.isDir loc
  text : ∀ loc, ok loc → fs'.readText loc = fs.readText loc

/-- the locations the top-level file may depend on: itself, and everything under its root -/
def InsideTop (fs : FS) (cwd path : PathC) (loc : List String) : Prop :=
  fs.canon (cwd.join path) = some loc ∨ ∃ r, Root.new fs cwd path = .ok r ∧ startsWith loc r.canonicalized = true

/-! ### the file system is only consulted through `canon`, `isDir`, and `readText` under the root -/

/-- `Root.new` only looks at `canon` and `isDir` -/
theorem Root.new_agreeOn {fs fs' : FS} {ok : List String → Prop} (h : AgreeOn fs fs' ok) (cwd file : PathC) :
    Root.new fs' cwd file = Root.new fs cwd file := by
  unfold Root.new
  cases file.parent with
  | none => rfl
  | some dir => simp only [h.canon, h.isDir]

/-- `Root.check` only looks at `canon` -/
theorem Root.check_agreeOn {fs fs' : FS} {ok : List String → Prop} (h : AgreeOn fs fs' ok) (r : Root) (p : PathC) :
    r.check fs' p = r.check fs p := by
  unfold Root.check
  rw [h.canon]

/-- the program's root is known and everything under it is `ok`, or there is no root and there never will be one
(`Root.new` of the first source fails, so every directive fails before reading anything) -/
def RootCovered (fs : FS) (cwd : PathC) (ok : List String → Prop) (prog : Program) : Prop :=
  match prog.root with
  | some r => ∀ loc, startsWith loc r.canonicalized = true → ok loc
  | none => ∃ hd tl e, prog.sources = hd :: tl ∧ Root.new fs cwd hd = .error e

theorem RootCovered.push {fs : FS} {cwd : PathC} {ok : List String → Prop} {prog : Program} {r : Root}
    (hg : RootCovered fs cwd ok prog) (hr : prog.root = some r) (srcs : List PathC) :
    RootCovered fs cwd ok { root := some r, sources := srcs } := by
  unfold RootCovered at hg ⊢
  rw [hr] at hg
  exact hg

/-- non-interference for the three mutually recursive traced functions -/
theorem main_noninterf (fs fs' : FS) (cwd : PathC) (ok : List String → Prop) (h : AgreeOn fs fs' ok) : ∀ fuel : Nat,
    (∀ prog, RootCovered fs cwd ok prog → ∀ src tr,
      Traced.preprocessT fs' cwd fuel prog src tr = Traced.preprocessT fs cwd fuel prog src tr) ∧
    (∀ prog, RootCovered fs cwd ok prog → ∀ nodes tr,
      Traced.nodesLoopT fs' cwd fuel prog nodes tr = Traced.nodesLoopT fs cwd fuel prog nodes tr) ∧
    (∀ prog, RootCovered fs cwd ok prog → ∀ path tr,
      Traced.resolveAndIngestT fs' cwd fuel prog path tr = Traced.resolveAndIngestT fs cwd fuel prog path tr) := by
  intro fuel
  induction fuel with
  | zero =>
    refine ⟨?_, ?_, ?_⟩ <;> intro prog hg x tr
    · simp only [Traced.preprocessT]
    · simp only [Traced.nodesLoopT]
    · simp only [Traced.resolveAndIngestT]
  | succ fuel ih =>
    obtain ⟨ihP, ihN, ihR⟩ := ih
    refine ⟨?_, ?_, ?_⟩
    · intro prog hg src tr
      simp only [Traced.preprocessT]
      cases parseAsm src with
      | error e => rfl
      | ok nodes => exact ihN prog hg nodes tr
    · intro prog hg nodes tr
      cases nodes with
      | nil => simp only [Traced.nodesLoopT]
      | cons n rest =>
        cases n with
        | op o => simp only [Traced.nodesLoopT, ihN prog hg]
        | import_ path => simp only [Traced.nodesLoopT, ihN prog hg, ihR prog hg]
        | «include» path => simp only [Traced.nodesLoopT, ihN prog hg, ihR prog hg]
        | includeHex path =>
          simp only [Traced.nodesLoopT, ihN prog hg, Root.new_agreeOn h, Root.check_agreeOn h]
          generalize cwd.join ((baseDir prog).join (PathC.ofString path)) = p
          unfold RootCovered at hg
          cases hr : prog.root with
          | none =>
            rw [hr] at hg
            obtain ⟨hd, tl, e, hs, hn⟩ := hg
            simp only [hs, List.headD_cons, hn]
          | some r =>
            rw [hr] at hg
            simp only
            cases hck : Root.check fs r p with
            | error e => cases e <;> rfl
            | ok loc =>
              have hok : ok loc := hg loc (((check_spec fs r p).1 loc).1 hck).2
              simp only [h.text loc hok]
    · intro prog hg path tr
      simp only [Traced.resolveAndIngestT, Root.new_agreeOn h, Root.check_agreeOn h]
      generalize hp : cwd.join ((baseDir prog).join (PathC.ofString path)) = p
      split
      · rfl
      · cases hr : prog.root with
        | none =>
          have hg' := hg
          unfold RootCovered at hg'
          rw [hr] at hg'
          obtain ⟨hd, tl, e, hs, hn⟩ := hg'
          simp only [hs, List.headD_cons, hn]
        | some r =>
          have hg' := hg
          unfold RootCovered at hg'
          rw [hr] at hg'
          simp only
          cases hck : Root.check fs r p with
          | error e => cases e <;> rfl
          | ok loc =>
            have hok : ok loc := hg' loc (((check_spec fs r p).1 loc).1 hck).2
            simp only [h.text loc hok]
            cases fs.readText loc with
            | none => rfl
            | some text => exact ihP _ (hg.push hr _) text _

/-- the traced variant (every run, failing ones included) -/
theorem ingestFileT_noninterference (fs fs' : FS) (cwd : PathC) (rnd : Nat → Nat) (fuel : Nat) (path : PathC)
    (h : AgreeOn fs fs' (InsideTop fs cwd path)) :
    Traced.ingestFileT fs' cwd rnd fuel path = Traced.ingestFileT fs cwd rnd fuel path := by
  unfold Traced.ingestFileT
  rw [h.canon, Root.new_agreeOn h]
  cases hc : fs.canon (cwd.join path) with
  | none => rfl
  | some loc =>
    simp only [h.isDir, h.text loc (Or.inl hc)]
    cases fs.readText loc with
    | none => rfl
    | some src =>
      have hg : RootCovered fs cwd (InsideTop fs cwd path)
          { root := (Root.new fs cwd path).toOption, sources := [path] } := by
        unfold RootCovered
        cases hn : Root.new fs cwd path with
        | error e => exact ⟨path, [], e, rfl, hn⟩
        | ok r => exact fun l hl => Or.inr ⟨r, hn, hl⟩
      simp only [(main_noninterf fs fs' cwd _ h fuel).1 _ hg]

theorem ingestFile_noninterference (fs fs' : FS) (cwd : PathC) (rnd : Nat → Nat) (fuel : Nat) (path : PathC)
    (h : AgreeOn fs fs' (InsideTop fs cwd path)) :
    ingestFile fs' cwd rnd fuel path = ingestFile fs cwd rnd fuel path := by
  rw [Traced.ingestFile_eq_toOrig, Traced.ingestFile_eq_toOrig, ingestFileT_noninterference fs fs' cwd rnd fuel path h]

/-! ### non-vacuity: a concrete pair of file systems that differ outside the root -/

/-- the kind of an entry, with the content of a file erased -/
def Entry.shape : Entry → Entry
  | .file _ => .file []
  | e => e

/-- two trees that differ only in the content of the file entry at `k` hold the same entry everywhere else -/
theorem Tree.get_swap_ne (pre post : Tree) (k : List String) (c1 c2 : List Nat) (q : List String) (hq : q ≠ k) :
    Tree.get (pre ++ (k, Entry.file c2) :: post) q = Tree.get (pre ++ (k, Entry.file c1) :: post) q := by
  unfold Tree.get
  split
  · rfl
  · congr 1
    induction pre with
    | nil =>
      have : (k == q) = false := by simpa using fun h => hq h.symm
      simp [this]
    | cons a pre ih =>
      simp only [List.cons_append, List.find?_cons]
      split
      · rfl
      · exact ih

/-- … and entries of the same kind everywhere -/
theorem Tree.get_swap_shape (pre post : Tree) (k : List String) (c1 c2 : List Nat) (q : List String) :
    (Tree.get (pre ++ (k, Entry.file c2) :: post) q).map Entry.shape =
      (Tree.get (pre ++ (k, Entry.file c1) :: post) q).map Entry.shape := by
  unfold Tree.get
  split
  · rfl
  · induction pre with
    | nil =>
      simp only [List.nil_append, List.find?_cons]
      split
      · rfl
      · rfl
    | cons a pre ih =>
      simp only [List.cons_append, List.find?_cons]
      split
      · rfl
      · exact ih

/-- `resolve` only looks at the kind of the entries -/
theorem resolve_shape (t t' : Tree) (hs : ∀ q, (t'.get q).map Entry.shape = (t.get q).map Entry.shape) :
    ∀ (fuel : Nat) (cur todo : List String), resolve t' fuel cur todo = resolve t fuel cur todo := by
  intro fuel
  induction fuel with
  | zero => intro cur todo; simp only [resolve]
  | succ fuel ih =>
    intro cur todo
    cases todo with
    | nil => simp only [resolve]
    | cons c rest =>
      simp only [resolve, ih]
      split
      · rfl
      · split
        · rfl
        · have h1 := hs (cur ++ [c])
          cases h : t.get (cur ++ [c]) with
          | none =>
            rw [h] at h1
            cases h' : t'.get (cur ++ [c]) with
            | none => rfl
            | some e' => rw [h'] at h1; simp at h1
          | some e =>
            rw [h] at h1
            cases h' : t'.get (cur ++ [c]) with
            | none => rw [h'] at h1; simp at h1
            | some e' =>
              rw [h'] at h1
              cases e <;> cases e' <;> simp [Entry.shape] at h1 <;> simp [h1]

/-- two trees that differ only in the content of one file entry, at a location where `ok` does not hold, agree on `ok` -/
theorem agreeOn_swap (pre post : Tree) (k : List String) (c1 c2 : List Nat) (ok : List String → Prop)
    (hk : ∀ loc, ok loc → loc ≠ k) :
    AgreeOn (Tree.toFS (pre ++ (k, Entry.file c1) :: post)) (Tree.toFS (pre ++ (k, Entry.file c2) :: post)) ok where
  canon := by
    intro p
    simp only [Tree.toFS]
    split
    · exact resolve_shape _ _ (Tree.get_swap_shape pre post k c1 c2) _ _ _
    · rfl
  isDir := by
    intro loc
    have h1 := Tree.get_swap_shape pre post k c1 c2 loc
    simp only [Tree.toFS]
    cases h : Tree.get (pre ++ (k, Entry.file c1) :: post) loc with
    | none =>
      rw [h] at h1
      cases h' : Tree.get (pre ++ (k, Entry.file c2) :: post) loc with
      | none => rfl
      | some e' => rw [h'] at h1; simp at h1
    | some e =>
      rw [h] at h1
      cases h' : Tree.get (pre ++ (k, Entry.file c2) :: post) loc with
      | none => rw [h'] at h1; simp at h1
      | some e' =>
        rw [h'] at h1
        cases e <;> cases e' <;> simp [Entry.shape] at h1 <;> rfl
  text := by
    intro loc hl
    simp only [Tree.toFS, Tree.get_swap_ne pre post k c1 c2 loc (hk loc hl)]

namespace NonInterfExample

/-- `/proj/main.etk` holds `%import("lib.etk")` NEWLINE, `/proj/lib.etk` holds `jumpdest` NEWLINE, and `/secret.etk`,
OUTSIDE `/proj`, holds `secret` -/
def tree (secret : List Nat) : Tree :=
  [(["proj"], .dir),
   (["proj", "main.etk"], .file [37,105,109,112,111,114,116,40,34,108,105,98,46,101,116,107,34,41,10]),
   (["proj", "lib.etk"], .file [106,117,109,112,100,101,115,116,10]),
   (["secret.etk"], .file secret)]
def cwd : PathC := ⟨true, []⟩
def top : PathC := ⟨true, ["proj", "main.etk"]⟩

theorem canon_top (s : List Nat) : (tree s).toFS.canon (cwd.join top) = some ["proj", "main.etk"] := by
  simp [Tree.toFS, tree, top, PathC.join, resolve, Tree.get]

theorem root_top (s : List Nat) : Root.new (tree s).toFS cwd top = .ok ⟨["proj"]⟩ := by
  simp [Root.new, Tree.toFS, tree, top, PathC.join, PathC.parent, resolve, Tree.get]

/-- the hypothesis of the non-interference theorems holds of the two file systems, whatever the two secrets are -/
theorem agree (s1 s2 : List Nat) :
    AgreeOn (tree s1).toFS (tree s2).toFS (InsideTop (tree s1).toFS cwd top) := by
  refine agreeOn_swap [(["proj"], .dir), (["proj", "main.etk"], .file _), (["proj", "lib.etk"], .file _)] []
    ["secret.etk"] s1 s2 _ ?_
  intro loc hl
  rcases hl with hl | ⟨r, hr, hl⟩
  · rw [canon_top] at hl
    cases hl
    decide
  · rw [root_top] at hr
    cases hr
    intro he
    subst he
    simp [startsWith] at hl

/-- … so the secret does not influence the run -/
theorem run_eq (s1 s2 : List Nat) (rnd : Nat → Nat) (fuel : Nat) :
    Traced.ingestFileT (tree s2).toFS cwd rnd fuel top = Traced.ingestFileT (tree s1).toFS cwd rnd fuel top :=
  ingestFileT_noninterference _ _ _ _ _ _ (agree s1 s2)

/-- the run is a real one (evaluated, not proved: `String.splitOn` does not reduce in the kernel): with either secret
it reads `/proj/lib.etk` and assembles `jumpdest` -/
def runIsReal (secret : List Nat) : Bool :=
  match Traced.ingestFileT (tree secret).toFS cwd (fun k => k) 100 top with
  | (.ok [0x5b], [.check ⟨true, ["proj", "lib.etk"]⟩ true, .read ["proj", "lib.etk"]]) => true
  | _ => false
#guard runIsReal [1] && runIsReal [115, 116, 111, 112]

end NonInterfExample


end Asm
end EtkVerif
