/-
From the text of a whole-language program to what the assembler is fed: for
programs without file directives `Ingest::preprocess` touches no file and yields
one raw op per statement — the op of the statement's node — so the assembler's
answer on the TEXT is its answer on those ops (to which T-asm / C13_iff, the
expansion theorems of C10 and the evaluation theorems of C11 apply).
-/
import EtkVerif.Asm.FullTextPest
import EtkVerif.Asm.Ingest
namespace EtkVerif
namespace Asm
namespace FullText
open Layout

/-- the abstract op a non-directive statement stands for -/
def Stmt.aop? : Stmt → Option AOp
  | .plain b => some b.aop
  | .directive _ _ _ _ _ => none
  | .macroDef _ d _ _ _ _ body _ =>
      some (.instrDef (strOf d.name) (d.params.map (fun x => strOf x.2.1)) (AOps.ofList (body.map (fun b => b.stmt.aop))))
  | .exprDef _ d _ _ _ s _ _ _ => some (.exprDef (strOf d.name) (d.params.map (fun x => strOf x.2.1)) s.expr)

theorem node_of_aop (st : Stmt) (o : AOp) (h : st.aop? = some o) : st.node = .op o := by
  cases st <;> simp [Stmt.aop?] at h <;> subst h <;> rfl

theorem nodesLoop_full (fs : FS) (cwd : PathC) (prog : Program) (tr : List Event) :
    ∀ (items : List Item) (ops : List AOp) (fuel : Nat), items.mapM (fun x => x.stmt.aop?) = some ops →
      items.length + 1 ≤ fuel →
      nodesLoop fs cwd fuel prog (items.map (fun x => x.stmt.node)) tr = .ok (ops.map RawOp.op, tr) := by
  intro items
  induction items with
  | nil =>
    intro ops fuel h hf
    simp at h; subst h
    cases fuel with
    | zero => omega
    | succ f => simp [nodesLoop]
  | cons i is ih =>
    intro ops fuel h hf
    cases fuel with
    | zero => omega
    | succ f =>
      simp only [List.mapM_cons, Option.bind_eq_bind, Option.pure_def] at h
      cases ho : i.stmt.aop? with
      | none => simp [ho] at h
      | some o =>
        simp only [ho, Option.bind_some] at h
        cases hr : is.mapM (fun x => x.stmt.aop?) with
        | none => simp [hr] at h
        | some os =>
          simp only [hr, Option.bind_some, Option.some.injEq] at h
          subst h
          have := ih os f hr (by simp at hf; omega)
          simp only [List.map_cons, nodesLoop, node_of_aop _ _ ho, this]
          rfl

/-- `Ingest::preprocess` on the text of a directive-free program -/
theorem preprocess_full (fs : FS) (cwd : PathC) (prog : Program) (tr : List Event)
    (head : List BlankLine) (items : List Item) (h : WF head items) (ops : List AOp)
    (hops : items.mapM (fun x => x.stmt.aop?) = some ops) (fuel : Nat) (hf : items.length + 2 ≤ fuel) :
    preprocess fs cwd fuel prog (render head items) tr = .ok (ops.map RawOp.op, tr) := by
  cases fuel with
  | zero => omega
  | succ f =>
    simp only [preprocess, parse_full head items h]
    exact nodesLoop_full fs cwd prog tr items ops f hops (by omega)

end FullText
end Asm
end EtkVerif
