/-
Kernel-checked table facts for `parse_listing` (ListingPest.lean): the window interpreter `matchK` (PestK.lean, sound by PestLogic.lean) is run by
the kernel on one window per table row (mnemonic, then ` 0x` and hex-digit classes for
pushN, then the newline, then either the end of input or a lower-case letter); the
statement loop of `inner` is then an induction over the instruction list.
-/
import EtkVerif.Asm.Listing
import EtkVerif.Asm.PestK
namespace EtkVerif
namespace Asm
namespace Listing
open Pest

/-! ### Boolean equality of pair trees -/

mutual
def pairBeq : Pair → Pair → Bool
  | .mk r s e k, .mk r' s' e' k' => r == r' && s == s' && e == e' && pairsBeq k k'
def pairsBeq : List Pair → List Pair → Bool
  | [], [] => true
  | a :: as, b :: bs => pairBeq a b && pairsBeq as bs
  | _, _ => false
end

mutual
theorem pairBeq_eq : ∀ a b, pairBeq a b = true → a = b
  | .mk r s e k, .mk r' s' e' k' => by
    intro h
    simp only [pairBeq, Bool.and_eq_true, beq_iff_eq] at h
    obtain ⟨⟨⟨h1, h2⟩, h3⟩, h4⟩ := h
    rw [h1, h2, h3, pairsBeq_eq k k' h4]
theorem pairsBeq_eq : ∀ a b, pairsBeq a b = true → a = b
  | [], [] => fun _ => rfl
  | a :: as, b :: bs => by
    intro h
    simp only [pairsBeq, Bool.and_eq_true] at h
    rw [pairBeq_eq a b h.1, pairsBeq_eq as bs h.2]
  | [], _ :: _ => by intro h; simp [pairsBeq] at h
  | _ :: _, [] => by intro h; simp [pairsBeq] at h
end

/-! ### windows of table rows and the kernel-checked table facts -/

def single (c : Nat) : Cls := [(c, c)]
def hexCls : Cls := [(48, 57), (97, 102)]
def letterCls : Cls := [(97, 122)]

def rowWin (r : OpRow) : List Cls :=
  r.mnem.map single ++
    (if r.extra = 0 then [] else [single 32, single 48, single 120] ++ List.replicate (2 * r.extra) hexCls) ++
    [single 10]

def ekOf (cs : List Cls) (closed : Bool) : EnvK := ⟨Gen.grammar, some 49, some 50, cs, closed⟩

/-- `stmt ~ (NEWLINE+ | ";")`, the body of the statement loop of `inner` -/
def lineE : PE := .seq (.ref 2) (.alt (.plus (.ref 1003)) (.str [59]))

def lineLen (r : OpRow) : Nat := r.mnem.length + (if r.extra = 0 then 0 else 3 + 2 * r.extra) + 1

def pairRel (r : OpRow) : Pair :=
  let m := r.mnem.length
  if r.extra = 0 then .mk 3 0 m [] else
    let e := m + 3 + 2 * r.extra
    .mk 4 0 e [.mk 8 4 m [], .mk 41 (m + 1) e [.mk 38 (m + 1) e []]]

def resIs (x : Option Res) (q : Nat) (ks : List Pair) : Bool :=
  match x with
  | some (some (q', ks')) => q' == q && pairsBeq ks' ks
  | _ => false

theorem resIs_eq {x : Option Res} {q : Nat} {ks : List Pair} (h : resIs x q ks = true) :
    x = some (some (q, ks)) := by
  unfold resIs at h
  split at h
  · simp only [Bool.and_eq_true, beq_iff_eq] at h
    rw [h.1, pairsBeq_eq _ _ h.2]
  · cases h

def resFail (x : Option Res) : Bool :=
  match x with
  | some none => true
  | _ => false

theorem resFail_eq {x : Option Res} (h : resFail x = true) : x = some none := by
  unfold resFail at h
  split at h
  · rfl
  · cases h

def resOK (x : Option Res) (r : OpRow) : Bool := resIs x (lineLen r) [pairRel r]

/-- fuel given to the window interpreter per line -/
def D : Nat := 100

/-- the line of row `r` followed by the end of input -/
def okC (r : OpRow) : Bool :=
  Ops.isUndefRow r || resOK (matchK (ekOf (rowWin r) true) D lineE .nonAtomic false 0) r

/-- the line of row `r` followed by a lower-case letter -/
def okO (r : OpRow) : Bool :=
  Ops.isUndefRow r || resOK (matchK (ekOf (rowWin r ++ [letterCls]) false) D lineE .nonAtomic false 0) r

/-- a mnemonic starts with a lower-case letter -/
def okH (r : OpRow) : Bool :=
  Ops.isUndefRow r || (match r.mnem with | c :: _ => 97 ≤ c && c ≤ 122 | [] => false)

/-! the table in three segments, so that each kernel evaluation stays short -/
def seg1 : List OpRow := Gen.cancun.take 96
def seg2 : List OpRow := (Gen.cancun.drop 96).take 32
def seg3 : List OpRow := Gen.cancun.drop 128

theorem segs : Gen.cancun = seg1 ++ seg2 ++ seg3 := by decide +kernel

theorem all_of_segs (p : OpRow → Bool) (h1 : seg1.all p = true) (h2 : seg2.all p = true)
    (h3 : seg3.all p = true) : Gen.cancun.all p = true := by
  rw [segs, List.all_append, List.all_append, h1, h2, h3]; rfl

theorem okC1 : seg1.all okC = true := by decide +kernel
theorem okC2 : seg2.all okC = true := by decide +kernel
theorem okC3 : seg3.all okC = true := by decide +kernel
theorem okO1 : seg1.all okO = true := by decide +kernel
theorem okO2 : seg2.all okO = true := by decide +kernel
theorem okO3 : seg3.all okO = true := by decide +kernel

theorem okC_all : Gen.cancun.all okC = true := all_of_segs _ okC1 okC2 okC3
theorem okO_all : Gen.cancun.all okO = true := all_of_segs _ okO1 okO2 okO3
theorem okH_all : Gen.cancun.all okH = true := by decide +kernel

/-- at the start of a line: no implicit whitespace, no leading newline -/
theorem start_ok :
    (skipK (ekOf [letterCls] false) 10 .nonAtomic 0 == some 0 &&
     resIs (matchK (ekOf [letterCls] false) 10 (.star (.ref 1003)) .nonAtomic false 0) 0 []) = true := by
  decide +kernel

/-- at the end of input -/
theorem eof_ok :
    (skipK (ekOf [] true) 10 .nonAtomic 0 == some 0 &&
     resIs (matchK (ekOf [] true) 10 (.star (.ref 1003)) .nonAtomic false 0) 0 [] &&
     resFail (matchK (ekOf [] true) D lineE .nonAtomic false 0) &&
     resIs (matchK (ekOf [] true) D (.opt (.ref 2)) .nonAtomic false 0) 0 [] &&
     resIs (callRuleK (ekOf [] true) 10 EOI .nonAtomic false 0) 0 [.mk EOI 0 0 []]) = true := by
  decide +kernel

end Listing
end Asm
end EtkVerif
