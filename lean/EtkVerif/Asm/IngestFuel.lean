/-
Termination of file ingestion (`Ingest.lean`): the fuel of `preprocess` / `nodesLoop` / `resolveAndIngest` is never
the reason for an answer once it exceeds an explicit bound.

The fuel of these functions is a DEPTH (both the directive of a node and the rest of the node list receive `fuel - 1`),
so the need of a call at nesting level `d = prog.sources.length`, in a file system whose files have at most `N`
statements, is exactly
* `resolveAndIngest`: `ingestFuelR N d = (256 - d) * (N + 2) + 1`  (one unit to refuse when `d > 255`),
* `nodesLoop` on `k` nodes: `k + ingestFuelR N d`,
* `preprocess`: `ingestFuel N d = (256 - d) * (N + 2) + (N + 2)`.
For `d ≤ 256` this is `(257 - d) * (N + 2)`, below the `(257 - d) * (N + 3)` of the informal argument
(`ingestFuel_le_sketch`); for `d ≥ 257` the informal bound is `0`, with which every function answers with the fuel
marker (`preprocess_sketch_bound_false`), hence the additive form.

Contents: `nodesBound`; `nodesLoop_cons` (the loop body as a function `nodeStep`); monotonicity (`ingestMono`,
`preprocess_fuel_mono`, …); the only panic outcome is the fuel marker (`ingestErrs`, `preprocess_error_kinds`);
sufficiency (`ingestSuff`, `preprocess_fuel_sufficient`, …); `ingestFile_fuel_sufficient`, `ingestFile_terminates`.
-/
import EtkVerif.Asm.Ingest
import EtkVerif.Asm.FuelLemmas
import EtkVerif.Asm.ParseTotal
namespace EtkVerif
namespace Asm

/-- every file of the file system has at most `N` statements -/
def nodesBound (fs : FS) (N : Nat) : Prop :=
  ∀ loc text nodes, fs.readText loc = some text → parseAsm text = .ok nodes → nodes.length ≤ N

/-- fuel that `resolveAndIngest` needs at nesting level `d` -/
def ingestFuelR (N d : Nat) : Nat := (256 - d) * (N + 2) + 1
/-- fuel that `preprocess` needs at nesting level `d` (for a text of at most `N` statements) -/
def ingestFuel (N d : Nat) : Nat := (256 - d) * (N + 2) + (N + 2)

theorem ingestFuel_eq (N d : Nat) : ingestFuel N d = N + 1 + ingestFuelR N d := by
  unfold ingestFuel ingestFuelR; omega

theorem ingestFuelR_pos (N d : Nat) : 1 ≤ ingestFuelR N d := by unfold ingestFuelR; omega

theorem ingestFuelR_big (N d : Nat) (h : d > 255) : ingestFuelR N d = 1 := by
  have : 256 - d = 0 := by omega
  simp [ingestFuelR, this]

theorem ingestFuelR_step (N d : Nat) (h : ¬ d > 255) : ingestFuelR N d = ingestFuel N (d + 1) + 1 := by
  have : 256 - d = (256 - (d + 1)) + 1 := by omega
  unfold ingestFuelR ingestFuel
  rw [this, Nat.succ_mul]

/-- up to the recursion limit the bound is `(257 - d) * (N + 2)` -/
theorem ingestFuel_closed (N d : Nat) (h : d ≤ 256) : ingestFuel N d = (257 - d) * (N + 2) := by
  have : 257 - d = (256 - d) + 1 := by omega
  unfold ingestFuel
  rw [this, Nat.succ_mul]

/-- the bound of the informal argument is enough up to the recursion limit (beyond it, it is `0`, which is not) -/
theorem ingestFuel_le_sketch (N d : Nat) (h : d ≤ 256) : ingestFuel N d ≤ (257 - d) * (N + 3) := by
  rw [ingestFuel_closed N d h]
  exact Nat.mul_le_mul_left _ (by omega)

theorem ingestFuel_one (N : Nat) : ingestFuel N 1 = 256 * (N + 2) := ingestFuel_closed N 1 (by omega)

/-! ### the loop body -/

/-- `include_hex` of one node (no fuel involved) -/
def hexStep (fs : FS) (cwd : PathC) (prog : Program) (path : String) (tr : List Event) :
    Except IngErr (List RawOp × List Event) :=
  let resolved := (baseDir prog).join (PathC.ofString path)
  let root : Except IngErr Root := match prog.root with
    | some r => .ok r
    | none => Root.new fs cwd (prog.sources.headD (PathC.ofString path))
  match root with
  | .error e => .error e
  | .ok r =>
    match r.check fs (cwd.join resolved) with
    | .error e => .error e
    | .ok loc =>
      let tr := tr ++ [.check (cwd.join resolved) true]
      match fs.readText loc with
      | none => .error (.io "reading hex include")
      | some text =>
        match hexDecode (trimCp text) with
        | none => .error .invalidHex
        | some bytes => .ok ([.raw bytes], tr ++ [.read loc])

/-- what `nodesLoop` does with one node -/
def nodeStep (fs : FS) (cwd : PathC) (fuel : Nat) (prog : Program) (n : Node) (tr : List Event) :
    Except IngErr (List RawOp × List Event) :=
  match n with
  | .op o => .ok ([.op o], tr)
  | .import_ path => resolveAndIngest fs cwd fuel prog path tr
  | .include path =>
    match resolveAndIngest fs cwd fuel prog path tr with
    | .error e => .error e
    | .ok (ops, tr') => .ok ([.scope (RawOps.ofList ops)], tr')
  | .includeHex path => hexStep fs cwd prog path tr

theorem nodesLoop_cons (fs : FS) (cwd : PathC) (fuel : Nat) (prog : Program) (n : Node) (rest : List Node)
    (tr : List Event) :
    nodesLoop fs cwd (fuel + 1) prog (n :: rest) tr =
      match nodeStep fs cwd fuel prog n tr with
      | .error e => .error e
      | .ok (ops, tr') =>
        match nodesLoop fs cwd fuel prog rest tr' with
        | .error e => .error e
        | .ok (more, tr'') => .ok (ops ++ more, tr'') := by
  cases n <;> simp only [nodesLoop, nodeStep] <;> rfl

/-- the part of `resolve_and_ingest` before the recursive call: root, check, read (no fuel involved) -/
def openStep (fs : FS) (cwd : PathC) (prog : Program) (path : String) (tr : List Event) :
    Except IngErr (Program × List Nat × List Event) :=
  let root : Except IngErr Root := match prog.root with
    | some r => .ok r
    | none => Root.new fs cwd (prog.sources.headD (PathC.ofString path))
  match root with
  | .error e => .error e
  | .ok r =>
    let candidate := (baseDir prog).join (PathC.ofString path)
    match r.check fs (cwd.join candidate) with
    | .error e => .error e
    | .ok loc =>
      let tr := tr ++ [.check (cwd.join candidate) true]
      match fs.readText loc with
      | none => .error (.io "reading file before parsing")
      | some text => .ok ({ root := some r, sources := prog.sources ++ [candidate] }, text, tr ++ [.read loc])

theorem resolveAndIngest_succ (fs : FS) (cwd : PathC) (fuel : Nat) (prog : Program) (path : String)
    (tr : List Event) :
    resolveAndIngest fs cwd (fuel + 1) prog path tr =
      if prog.sources.length > 255 then .error .recursionLimit
      else
        match openStep fs cwd prog path tr with
        | .error e => .error e
        | .ok (prog', text, tr') => preprocess fs cwd fuel prog' text tr' := by
  simp only [resolveAndIngest, openStep]
  split
  · rfl
  · generalize baseDir prog = b
    obtain ⟨root, sources⟩ := prog
    have key : ∀ r : Root,
        (match Root.check fs r (cwd.join (b.join (PathC.ofString path))) with
          | .error e => (.error e : Except IngErr (List RawOp × List Event))
          | .ok loc =>
            match fs.readText loc with
            | none => .error (.io "reading file before parsing")
            | some text =>
              preprocess fs cwd fuel { root := some r, sources := sources ++ [b.join (PathC.ofString path)] } text
                (tr ++ [Event.check (cwd.join (b.join (PathC.ofString path))) true] ++ [Event.read loc])) =
        match
          (match Root.check fs r (cwd.join (b.join (PathC.ofString path))) with
            | .error e => (.error e : Except IngErr (Program × List Nat × List Event))
            | .ok loc =>
              match fs.readText loc with
              | none => .error (.io "reading file before parsing")
              | some text =>
                .ok ({ root := some r, sources := sources ++ [b.join (PathC.ofString path)] }, text,
                  tr ++ [Event.check (cwd.join (b.join (PathC.ofString path))) true] ++ [Event.read loc])) with
        | .error e => .error e
        | .ok (prog', text, tr') => preprocess fs cwd fuel prog' text tr' := by
      intro r
      cases Root.check fs r (cwd.join (b.join (PathC.ofString path))) with
      | error e => rfl
      | ok loc =>
        simp only
        cases fs.readText loc <;> rfl
    cases root with
    | some r => exact key r
    | none =>
      simp only
      cases Root.new fs cwd (sources.headD (PathC.ofString path)) with
      | error e => rfl
      | ok r => exact key r

/-! ### error values of the fuel-free parts -/

/-- an error VALUE of ingestion: not a panic outcome of any phase (and not an assembler error) -/
def IngErr.benign (e : IngErr) : Prop :=
  (∀ s, e ≠ .panic s) ∧ (∀ s, e ≠ .parse (.panic s)) ∧ (∀ a, e ≠ .assemble a)

theorem IngErr.benign_io (m : String) : (IngErr.io m).benign := by simp [IngErr.benign]
theorem IngErr.benign_traversal : IngErr.directoryTraversal.benign := by simp [IngErr.benign]
theorem IngErr.benign_hex : IngErr.invalidHex.benign := by simp [IngErr.benign]
theorem IngErr.benign_limit : IngErr.recursionLimit.benign := by simp [IngErr.benign]
theorem IngErr.benign_parse (text : List Nat) (e : ParseErr) (h : parseAsm text = .error e) :
    (IngErr.parse e).benign := by
  refine ⟨by simp, ?_, by simp⟩
  intro s hs
  simp only [IngErr.parse.injEq] at hs
  subst hs
  exact parseAsm_no_panic text s h

theorem IngErr.benign_ne_fuel {e : IngErr} (h : e.benign) : e ≠ .panic "fuel" := h.1 _

theorem rootNew_benign (fs : FS) (cwd file : PathC) (e : IngErr) (h : Root.new fs cwd file = .error e) :
    e.benign := by
  unfold Root.new at h
  split at h
  · cases h; exact IngErr.benign_io _
  · simp only at h
    split at h
    · cases h; exact IngErr.benign_io _
    · split at h
      · cases h; exact IngErr.benign_io _
      · cases h

theorem rootCheck_benign (fs : FS) (r : Root) (p : PathC) (e : IngErr) (h : r.check fs p = .error e) :
    e.benign := by
  unfold Root.check at h
  split at h
  · cases h; exact IngErr.benign_io _
  · split at h
    · cases h
    · cases h; exact IngErr.benign_traversal

theorem progRoot_benign (fs : FS) (cwd : PathC) (root : Option Root) (file : PathC) (e : IngErr)
    (h : (match root with
      | some r => (.ok r : Except IngErr Root)
      | none => Root.new fs cwd file) = .error e) : e.benign := by
  cases root with
  | some r => cases h
  | none => exact rootNew_benign fs cwd file e h

theorem hexStep_benign (fs : FS) (cwd : PathC) (prog : Program) (path : String) (tr : List Event) (e : IngErr)
    (h : hexStep fs cwd prog path tr = .error e) : e.benign := by
  unfold hexStep at h
  simp only at h
  split at h
  · rename_i e' hroot
    cases h
    exact progRoot_benign _ _ _ _ _ hroot
  · split at h
    · rename_i e' hc
      cases h
      exact rootCheck_benign _ _ _ _ hc
    · split at h
      · cases h; exact IngErr.benign_io _
      · split at h
        · cases h; exact IngErr.benign_hex
        · cases h

theorem openStep_benign (fs : FS) (cwd : PathC) (prog : Program) (path : String) (tr : List Event) (e : IngErr)
    (h : openStep fs cwd prog path tr = .error e) : e.benign := by
  unfold openStep at h
  simp only at h
  split at h
  · rename_i e' hroot
    cases h
    exact progRoot_benign _ _ _ _ _ hroot
  · split at h
    · rename_i e' hc
      cases h
      exact rootCheck_benign _ _ _ _ hc
    · split at h
      · cases h; exact IngErr.benign_io _
      · cases h

/-- the file opened by a directive is a file of the file system, one level deeper -/
theorem openStep_ok (fs : FS) (cwd : PathC) (prog : Program) (path : String) (tr : List Event)
    (prog' : Program) (text : List Nat) (tr' : List Event)
    (h : openStep fs cwd prog path tr = .ok (prog', text, tr')) :
    prog'.sources.length = prog.sources.length + 1 ∧ ∃ loc, fs.readText loc = some text := by
  unfold openStep at h
  simp only at h
  split at h
  · cases h
  · split at h
    · cases h
    · split at h
      · cases h
      · rename_i loc _ _ text' ht
        simp only [Except.ok.injEq, Prod.mk.injEq] at h
        obtain ⟨h1, h2, _⟩ := h
        subst h1 h2
        exact ⟨by simp, loc, ht⟩

/-! ### monotonicity: more fuel never changes an answer that is not the fuel marker -/

def IngestMono (fs : FS) (cwd : PathC) (f : Nat) : Prop :=
  (∀ prog src tr, preprocess fs cwd f prog src tr ≠ .error (.panic "fuel") →
    preprocess fs cwd (f + 1) prog src tr = preprocess fs cwd f prog src tr) ∧
  (∀ prog nodes tr, nodesLoop fs cwd f prog nodes tr ≠ .error (.panic "fuel") →
    nodesLoop fs cwd (f + 1) prog nodes tr = nodesLoop fs cwd f prog nodes tr) ∧
  (∀ prog path tr, resolveAndIngest fs cwd f prog path tr ≠ .error (.panic "fuel") →
    resolveAndIngest fs cwd (f + 1) prog path tr = resolveAndIngest fs cwd f prog path tr)

theorem nodeStep_mono (fs : FS) (cwd : PathC) (f : Nat)
    (ihr : ∀ prog path tr, resolveAndIngest fs cwd f prog path tr ≠ .error (.panic "fuel") →
      resolveAndIngest fs cwd (f + 1) prog path tr = resolveAndIngest fs cwd f prog path tr)
    (prog : Program) (n : Node) (tr : List Event)
    (h : nodeStep fs cwd f prog n tr ≠ .error (.panic "fuel")) :
    nodeStep fs cwd (f + 1) prog n tr = nodeStep fs cwd f prog n tr := by
  cases n with
  | op o => rfl
  | import_ path => exact ihr _ _ _ h
  | «include» path =>
    simp only [nodeStep] at h ⊢
    have hr : resolveAndIngest fs cwd f prog path tr ≠ .error (.panic "fuel") := by
      intro hc; rw [hc] at h; exact h rfl
    rw [ihr _ _ _ hr]
  | includeHex path => rfl

theorem ingestMono (fs : FS) (cwd : PathC) : ∀ f, IngestMono fs cwd f := by
  intro f
  induction f with
  | zero =>
    refine ⟨?_, ?_, ?_⟩
    · intro prog src tr h; exact absurd (by simp [preprocess]) h
    · intro prog nodes tr h; exact absurd (by simp [nodesLoop]) h
    · intro prog path tr h; exact absurd (by simp [resolveAndIngest]) h
  | succ f ih =>
    obtain ⟨ihp, ihn, ihr⟩ := ih
    refine ⟨?_, ?_, ?_⟩
    · intro prog src tr h
      simp only [preprocess] at h ⊢
      revert h
      cases parseAsm src with
      | error e => intro _; rfl
      | ok nodes => intro h; exact ihn _ _ _ h
    · intro prog nodes tr h
      cases nodes with
      | nil => simp only [nodesLoop]
      | cons n rest =>
        simp only [nodesLoop_cons] at h ⊢
        have hs : nodeStep fs cwd f prog n tr ≠ .error (.panic "fuel") := by
          intro hc; rw [hc] at h; exact h rfl
        rw [nodeStep_mono fs cwd f ihr prog n tr hs]
        revert h
        cases nodeStep fs cwd f prog n tr with
        | error e => intro _; rfl
        | ok p =>
          obtain ⟨ops, tr'⟩ := p
          intro h
          simp only at h ⊢
          have hn : nodesLoop fs cwd f prog rest tr' ≠ .error (.panic "fuel") := by
            intro hc; rw [hc] at h; exact h rfl
          rw [ihn _ _ _ hn]
    · intro prog path tr h
      simp only [resolveAndIngest_succ] at h ⊢
      split
      · rfl
      · rename_i hd
        simp only [hd, if_false] at h
        revert h
        cases openStep fs cwd prog path tr with
        | error e => intro _; rfl
        | ok p =>
          obtain ⟨prog', text, tr'⟩ := p
          intro h
          exact ihp _ _ _ h

theorem ingestMono_le (fs : FS) (cwd : PathC) (f f' : Nat) (hle : f ≤ f') :
    (∀ prog src tr, preprocess fs cwd f prog src tr ≠ .error (.panic "fuel") →
      preprocess fs cwd f' prog src tr = preprocess fs cwd f prog src tr) ∧
    (∀ prog nodes tr, nodesLoop fs cwd f prog nodes tr ≠ .error (.panic "fuel") →
      nodesLoop fs cwd f' prog nodes tr = nodesLoop fs cwd f prog nodes tr) ∧
    (∀ prog path tr, resolveAndIngest fs cwd f prog path tr ≠ .error (.panic "fuel") →
      resolveAndIngest fs cwd f' prog path tr = resolveAndIngest fs cwd f prog path tr) := by
  induction hle with
  | refl => exact ⟨fun _ _ _ _ => rfl, fun _ _ _ _ => rfl, fun _ _ _ _ => rfl⟩
  | step _ ih =>
    rename_i m hm
    obtain ⟨ihp, ihn, ihr⟩ := ih
    obtain ⟨mp, mn, mr⟩ := ingestMono fs cwd m
    refine ⟨?_, ?_, ?_⟩
    · intro prog src tr h
      rw [mp _ _ _ (by rw [ihp _ _ _ h]; exact h), ihp _ _ _ h]
    · intro prog nodes tr h
      rw [mn _ _ _ (by rw [ihn _ _ _ h]; exact h), ihn _ _ _ h]
    · intro prog path tr h
      rw [mr _ _ _ (by rw [ihr _ _ _ h]; exact h), ihr _ _ _ h]

/-- more fuel never changes an answer of `preprocess` that is not the fuel marker -/
theorem preprocess_fuel_mono (fs : FS) (cwd : PathC) (f f' : Nat) (hle : f ≤ f') (prog : Program) (src : List Nat)
    (tr : List Event) (h : preprocess fs cwd f prog src tr ≠ .error (.panic "fuel")) :
    preprocess fs cwd f' prog src tr = preprocess fs cwd f prog src tr :=
  (ingestMono_le fs cwd f f' hle).1 prog src tr h

theorem nodesLoop_fuel_mono (fs : FS) (cwd : PathC) (f f' : Nat) (hle : f ≤ f') (prog : Program) (nodes : List Node)
    (tr : List Event) (h : nodesLoop fs cwd f prog nodes tr ≠ .error (.panic "fuel")) :
    nodesLoop fs cwd f' prog nodes tr = nodesLoop fs cwd f prog nodes tr :=
  (ingestMono_le fs cwd f f' hle).2.1 prog nodes tr h

theorem resolveAndIngest_fuel_mono (fs : FS) (cwd : PathC) (f f' : Nat) (hle : f ≤ f') (prog : Program)
    (path : String) (tr : List Event) (h : resolveAndIngest fs cwd f prog path tr ≠ .error (.panic "fuel")) :
    resolveAndIngest fs cwd f' prog path tr = resolveAndIngest fs cwd f prog path tr :=
  (ingestMono_le fs cwd f f' hle).2.2 prog path tr h

/-! ### the only panic outcome is the fuel marker -/

def IngestErrs (fs : FS) (cwd : PathC) (f : Nat) : Prop :=
  (∀ prog src tr e, preprocess fs cwd f prog src tr = .error e → e = .panic "fuel" ∨ e.benign) ∧
  (∀ prog nodes tr e, nodesLoop fs cwd f prog nodes tr = .error e → e = .panic "fuel" ∨ e.benign) ∧
  (∀ prog path tr e, resolveAndIngest fs cwd f prog path tr = .error e → e = .panic "fuel" ∨ e.benign)

theorem nodeStep_errs (fs : FS) (cwd : PathC) (f : Nat)
    (ihr : ∀ prog path tr e, resolveAndIngest fs cwd f prog path tr = .error e → e = .panic "fuel" ∨ e.benign)
    (prog : Program) (n : Node) (tr : List Event) (e : IngErr)
    (h : nodeStep fs cwd f prog n tr = .error e) : e = .panic "fuel" ∨ e.benign := by
  cases n with
  | op o => cases h
  | import_ path => exact ihr _ _ _ _ h
  | «include» path =>
    simp only [nodeStep] at h
    split at h
    · rename_i e' hr
      cases h
      exact ihr _ _ _ _ hr
    · cases h
  | includeHex path => exact Or.inr (hexStep_benign _ _ _ _ _ _ h)

theorem ingestErrs (fs : FS) (cwd : PathC) : ∀ f, IngestErrs fs cwd f := by
  intro f
  induction f with
  | zero =>
    refine ⟨?_, ?_, ?_⟩
    · intro prog src tr e h; simp only [preprocess] at h; cases h; exact Or.inl rfl
    · intro prog nodes tr e h; simp only [nodesLoop] at h; cases h; exact Or.inl rfl
    · intro prog path tr e h; simp only [resolveAndIngest] at h; cases h; exact Or.inl rfl
  | succ f ih =>
    obtain ⟨ihp, ihn, ihr⟩ := ih
    refine ⟨?_, ?_, ?_⟩
    · intro prog src tr e h
      simp only [preprocess] at h
      split at h
      · rename_i e' hp
        cases h
        exact Or.inr (IngErr.benign_parse src e' hp)
      · exact ihn _ _ _ _ h
    · intro prog nodes tr e h
      cases nodes with
      | nil => simp only [nodesLoop] at h; cases h
      | cons n rest =>
        simp only [nodesLoop_cons] at h
        split at h
        · rename_i e' hs
          cases h
          exact nodeStep_errs fs cwd f ihr _ _ _ _ hs
        · split at h
          · rename_i e' hn
            cases h
            exact ihn _ _ _ _ hn
          · cases h
    · intro prog path tr e h
      simp only [resolveAndIngest_succ] at h
      split at h
      · cases h; exact Or.inr IngErr.benign_limit
      · split at h
        · rename_i e' ho
          cases h
          exact Or.inr (openStep_benign _ _ _ _ _ _ ho)
        · exact ihp _ _ _ _ h

/-- an error of `preprocess` is the fuel marker or an error value (never another panic outcome) -/
theorem preprocess_error_kinds (fs : FS) (cwd : PathC) (f : Nat) (prog : Program) (src : List Nat) (tr : List Event)
    (e : IngErr) (h : preprocess fs cwd f prog src tr = .error e) : e = .panic "fuel" ∨ e.benign :=
  (ingestErrs fs cwd f).1 prog src tr e h

/-! ### sufficiency -/

def IngestSuff (fs : FS) (cwd : PathC) (N : Nat) (f : Nat) : Prop :=
  (∀ prog src tr, (∀ nodes, parseAsm src = .ok nodes → nodes.length ≤ N) →
    ingestFuel N prog.sources.length ≤ f → preprocess fs cwd f prog src tr ≠ .error (.panic "fuel")) ∧
  (∀ prog nodes tr, nodes.length + ingestFuelR N prog.sources.length ≤ f →
    nodesLoop fs cwd f prog nodes tr ≠ .error (.panic "fuel")) ∧
  (∀ prog path tr, ingestFuelR N prog.sources.length ≤ f →
    resolveAndIngest fs cwd f prog path tr ≠ .error (.panic "fuel"))

theorem nodeStep_suff (fs : FS) (cwd : PathC) (f : Nat) (prog : Program)
    (ihr : ∀ path tr, resolveAndIngest fs cwd f prog path tr ≠ .error (.panic "fuel"))
    (n : Node) (tr : List Event) : nodeStep fs cwd f prog n tr ≠ .error (.panic "fuel") := by
  cases n with
  | op o => intro h; cases h
  | import_ path => exact ihr _ _
  | «include» path =>
    simp only [nodeStep]
    intro h
    split at h
    · rename_i e' hr
      cases h
      exact ihr _ _ hr
    · cases h
  | includeHex path =>
    intro h
    exact IngErr.benign_ne_fuel (hexStep_benign _ _ _ _ _ _ h) rfl

theorem ingestSuff (fs : FS) (cwd : PathC) (N : Nat) (hN : nodesBound fs N) : ∀ f, IngestSuff fs cwd N f := by
  intro f
  induction f with
  | zero =>
    refine ⟨?_, ?_, ?_⟩
    · intro prog src tr _ hf
      have := ingestFuel_eq N prog.sources.length
      omega
    · intro prog nodes tr hf
      have := ingestFuelR_pos N prog.sources.length
      omega
    · intro prog path tr hf
      have := ingestFuelR_pos N prog.sources.length
      omega
  | succ f ih =>
    obtain ⟨ihp, ihn, ihr⟩ := ih
    refine ⟨?_, ?_, ?_⟩
    · intro prog src tr hsrc hf
      simp only [preprocess]
      have := ingestFuel_eq N prog.sources.length
      cases hp : parseAsm src with
      | error e => intro h; cases h
      | ok nodes =>
        have := hsrc nodes hp
        exact ihn _ _ _ (by omega)
    · intro prog nodes tr hf
      cases nodes with
      | nil => simp only [nodesLoop]; intro h; cases h
      | cons n rest =>
        simp only [nodesLoop_cons]
        simp only [List.length_cons] at hf
        intro h
        split at h
        · rename_i e' hs
          cases h
          exact nodeStep_suff fs cwd f prog (fun path tr => ihr prog path tr (by omega)) _ _ hs
        · split at h
          · rename_i e' hn
            cases h
            exact ihn _ _ _ (by omega) hn
          · cases h
    · intro prog path tr hf
      simp only [resolveAndIngest_succ]
      intro h
      split at h
      · cases h
      · rename_i hd
        split at h
        · rename_i e' ho
          cases h
          exact IngErr.benign_ne_fuel (openStep_benign _ _ _ _ _ _ ho) rfl
        · rename_i prog' text tr' ho
          obtain ⟨hlen, loc, hread⟩ := openStep_ok _ _ _ _ _ _ _ _ ho
          have := ingestFuelR_step N prog.sources.length hd
          refine ihp prog' text tr' (fun nodes hp => hN loc text nodes hread hp) ?_ h
          rw [hlen]; omega

/-- TERMINATION of `preprocess`: in a file system whose files have at most `N` statements, for a text of at most `N`
statements at nesting level `d = prog.sources.length`, fuel `(256 - d) * (N + 2) + (N + 2)` is enough -/
theorem preprocess_fuel_sufficient (fs : FS) (cwd : PathC) (N : Nat) (hN : nodesBound fs N) (fuel : Nat)
    (prog : Program) (src : List Nat) (tr : List Event)
    (hsrc : ∀ nodes, parseAsm src = .ok nodes → nodes.length ≤ N)
    (hf : ingestFuel N prog.sources.length ≤ fuel) :
    preprocess fs cwd fuel prog src tr ≠ .error (.panic "fuel") :=
  (ingestSuff fs cwd N hN fuel).1 prog src tr hsrc hf

theorem nodesLoop_fuel_sufficient (fs : FS) (cwd : PathC) (N : Nat) (hN : nodesBound fs N) (fuel : Nat)
    (prog : Program) (nodes : List Node) (tr : List Event)
    (hf : nodes.length + ingestFuelR N prog.sources.length ≤ fuel) :
    nodesLoop fs cwd fuel prog nodes tr ≠ .error (.panic "fuel") :=
  (ingestSuff fs cwd N hN fuel).2.1 prog nodes tr hf

theorem resolveAndIngest_fuel_sufficient (fs : FS) (cwd : PathC) (N : Nat) (hN : nodesBound fs N) (fuel : Nat)
    (prog : Program) (path : String) (tr : List Event)
    (hf : ingestFuelR N prog.sources.length ≤ fuel) :
    resolveAndIngest fs cwd fuel prog path tr ≠ .error (.panic "fuel") :=
  (ingestSuff fs cwd N hN fuel).2.2 prog path tr hf

/-- with that fuel, an error of `preprocess` is an error value: no panic outcome of any kind -/
theorem preprocess_fuel_sufficient_benign (fs : FS) (cwd : PathC) (N : Nat) (hN : nodesBound fs N) (fuel : Nat)
    (prog : Program) (src : List Nat) (tr : List Event)
    (hsrc : ∀ nodes, parseAsm src = .ok nodes → nodes.length ≤ N)
    (hf : ingestFuel N prog.sources.length ≤ fuel) (e : IngErr)
    (h : preprocess fs cwd fuel prog src tr = .error e) : e.benign := by
  rcases preprocess_error_kinds fs cwd fuel prog src tr e h with he | he
  · subst he
    exact absurd h (preprocess_fuel_sufficient fs cwd N hN fuel prog src tr hsrc hf)
  · exact he

/-- the informal bound `(257 - d) * (N + 3)` is enough as long as `d ≤ 256` … -/
theorem preprocess_fuel_sufficient_sketch (fs : FS) (cwd : PathC) (N : Nat) (hN : nodesBound fs N) (fuel : Nat)
    (prog : Program) (src : List Nat) (tr : List Event)
    (hsrc : ∀ nodes, parseAsm src = .ok nodes → nodes.length ≤ N)
    (hd : prog.sources.length ≤ 256)
    (hf : (257 - prog.sources.length) * (N + 3) ≤ fuel) :
    preprocess fs cwd fuel prog src tr ≠ .error (.panic "fuel") :=
  preprocess_fuel_sufficient fs cwd N hN fuel prog src tr hsrc
    (Nat.le_trans (ingestFuel_le_sketch N _ hd) hf)

/-- … and false beyond: there it is `0`, and with no fuel every function answers with the fuel marker -/
theorem preprocess_sketch_bound_false (fs : FS) (cwd : PathC) (N : Nat) (prog : Program) (src : List Nat)
    (tr : List Event) (hd : prog.sources.length ≥ 257) :
    preprocess fs cwd ((257 - prog.sources.length) * (N + 3)) prog src tr = .error (.panic "fuel") := by
  have : 257 - prog.sources.length = 0 := by omega
  simp [this, preprocess]

/-! ### `ingestFile` -/

/-- not a panic outcome of any of the three phases (ingestion, parser, assembler) -/
def IngErr.noPanic (e : IngErr) : Prop :=
  (∀ s, e ≠ .panic s) ∧ (∀ s, e ≠ .parse (.panic s)) ∧ (∀ s, e ≠ .assemble (.panic s))

theorem IngErr.benign_noPanic {e : IngErr} (h : e.benign) : e.noPanic := ⟨h.1, h.2.1, fun _ => h.2.2 _⟩

/-- the program with which `ingestFile` starts -/
def topProgram (fs : FS) (cwd : PathC) (path : PathC) : Program :=
  { root := (Root.new fs cwd path).toOption, sources := [path] }

/-- `ingestFile` with enough fuel reports no panic outcome: `256 * (N + 2)` for the preprocess phase
(`ingestFuel N 1`), the bound of `assemble_fuel_sufficient` for the raw ops it produces -/
theorem ingestFile_fuel_sufficient (fs : FS) (cwd : PathC) (rnd : Nat → Nat) (N : Nat) (hN : nodesBound fs N)
    (fuel : Nat) (path : PathC)
    (hf : 256 * (N + 2) ≤ fuel)
    (ha : ∀ loc src ops tr, fs.canon (cwd.join path) = some loc → fs.readText loc = some src →
      preprocess fs cwd fuel (topProgram fs cwd path) src [] = .ok (ops, tr) →
      (maxMacroDepth + 2) * (opsSize (RawOps.ofList ops) + 2) ≤ fuel)
    (e : IngErr) (h : ingestFile fs cwd rnd fuel path = .error e) : e.noPanic := by
  unfold ingestFile at h
  split at h
  · cases h; exact IngErr.benign_noPanic (IngErr.benign_io _)
  · rename_i loc hloc
    split at h
    · split at h <;> (cases h; exact IngErr.benign_noPanic (IngErr.benign_io _))
    · rename_i src hsrc
      simp only at h
      split at h
      · rename_i e' hp
        cases h
        refine IngErr.benign_noPanic
          (preprocess_fuel_sufficient_benign fs cwd N hN fuel _ src [] (fun nodes hn => hN loc src nodes hsrc hn) ?_ _ hp)
        show ingestFuel N 1 ≤ fuel
        rw [ingestFuel_one]; exact hf
      · rename_i ops tr hp
        have hb := ha loc src ops tr hloc hsrc hp
        split at h
        · rename_i a hasm
          cases h
          refine ⟨by simp, by simp, ?_⟩
          intro s hs
          simp only [IngErr.assemble.injEq] at hs
          subst hs
          exact assemble_fuel_sufficient rnd 0 (RawOps.ofList ops) fuel hb s hasm
        · cases h

/-- an explicit threshold for `ingestFile`: the preprocess bound, and the assembler bound of the raw ops that
preprocessing yields with that much fuel (by monotonicity they are the raw ops for every larger fuel) -/
def ingestFileFuel (fs : FS) (cwd : PathC) (N : Nat) (path : PathC) : Nat :=
  match fs.canon (cwd.join path) with
  | none => 0
  | some loc =>
    match fs.readText loc with
    | none => 0
    | some src =>
      match preprocess fs cwd (256 * (N + 2)) (topProgram fs cwd path) src [] with
      | .error _ => 256 * (N + 2)
      | .ok (ops, _) => max (256 * (N + 2)) ((maxMacroDepth + 2) * (opsSize (RawOps.ofList ops) + 2))

/-- TERMINATION of `ingestFile`: above the threshold, it returns bytes or an error value -/
theorem ingestFile_terminates (fs : FS) (cwd : PathC) (rnd : Nat → Nat) (N : Nat) (hN : nodesBound fs N)
    (fuel : Nat) (path : PathC) (hf : ingestFileFuel fs cwd N path ≤ fuel)
    (e : IngErr) (h : ingestFile fs cwd rnd fuel path = .error e) : e.noPanic := by
  cases hloc : fs.canon (cwd.join path) with
  | none =>
    unfold ingestFile at h
    simp only [hloc] at h
    cases h; exact IngErr.benign_noPanic (IngErr.benign_io _)
  | some loc =>
    cases hsrc : fs.readText loc with
    | none =>
      unfold ingestFile at h
      simp only [hloc, hsrc] at h
      split at h <;> (cases h; exact IngErr.benign_noPanic (IngErr.benign_io _))
    | some src =>
      have h0 : preprocess fs cwd (256 * (N + 2)) (topProgram fs cwd path) src [] ≠ .error (.panic "fuel") :=
        preprocess_fuel_sufficient fs cwd N hN _ _ src [] (fun nodes hn => hN loc src nodes hsrc hn)
          (by show ingestFuel N 1 ≤ _; rw [ingestFuel_one]; exact Nat.le_refl _)
      simp only [ingestFileFuel, hloc, hsrc] at hf
      have hle : 256 * (N + 2) ≤ fuel := by
        revert hf
        cases preprocess fs cwd (256 * (N + 2)) (topProgram fs cwd path) src [] with
        | error e' => exact id
        | ok p => intro hf; simp only at hf; omega
      have hm := preprocess_fuel_mono fs cwd _ fuel hle (topProgram fs cwd path) src [] h0
      refine ingestFile_fuel_sufficient fs cwd rnd N hN fuel path hle ?_ e h
      intro loc' src' ops tr hloc' hsrc' hp
      rw [hloc] at hloc'; cases hloc'
      rw [hsrc] at hsrc'; cases hsrc'
      rw [hm] at hp
      rw [hp] at hf
      simp only at hf
      omega

end Asm
end EtkVerif
