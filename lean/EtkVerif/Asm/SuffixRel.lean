/-
Expressions, items and label tables "up to a renaming of labels": `R` is a partial
bijection on label names; evaluation, label collection, label replacement and
variable filling respect it.
-/
import EtkVerif.Asm.Spec
import EtkVerif.Asm.LayoutAux
namespace EtkVerif
namespace Asm
namespace Suffix

/-- a partial bijection on names -/
structure PBij (R : String → String → Prop) : Prop where
  fn : ∀ {a b b'}, R a b → R a b' → b = b'
  inj : ∀ {a a' b}, R a b → R a' b → a = a'

theorem PBij.eq_iff {R : String → String → Prop} (hR : PBij R) {a a' b b' : String} (h1 : R a b) (h2 : R a' b') :
    a = a' ↔ b = b' := by
  constructor
  · intro h; subst h; exact hR.fn h1 h2
  · intro h; subst h; exact hR.inj h1 h2

theorem PBij.beq {R : String → String → Prop} (hR : PBij R) {a a' b b' : String} (h1 : R a b) (h2 : R a' b') :
    (a == a') = (b == b') := by
  have := hR.eq_iff h1 h2
  by_cases h : a = a'
  · have h' := this.1 h; subst h; subst h'; rw [beq_self_eq_true, beq_self_eq_true]
  · have h' : ¬ b = b' := fun hb => h (this.2 hb)
    rw [beq_eq_false_iff_ne.2 h, beq_eq_false_iff_ne.2 h']

mutual
inductive ExprRel (R : String → String → Prop) : Expr → Expr → Prop
  | paren {e e'} : ExprRel R e e' → ExprRel R (.paren e) (.paren e')
  | macro {n as as'} : ExprsRel R as as' → ExprRel R (.macro n as) (.macro n as')
  | num {n} : ExprRel R (.num n) (.num n)
  | label {l l'} : R l l' → ExprRel R (.label l) (.label l')
  | var {v} : ExprRel R (.var v) (.var v)
  | plus {a b a' b'} : ExprRel R a a' → ExprRel R b b' → ExprRel R (.plus a b) (.plus a' b')
  | minus {a b a' b'} : ExprRel R a a' → ExprRel R b b' → ExprRel R (.minus a b) (.minus a' b')
  | times {a b a' b'} : ExprRel R a a' → ExprRel R b b' → ExprRel R (.times a b) (.times a' b')
  | divide {a b a' b'} : ExprRel R a a' → ExprRel R b b' → ExprRel R (.divide a b) (.divide a' b')
inductive ExprsRel (R : String → String → Prop) : Exprs → Exprs → Prop
  | nil : ExprsRel R .nil .nil
  | cons {a a' as as'} : ExprRel R a a' → ExprsRel R as as' → ExprsRel R (.cons a as) (.cons a' as')
end

/-- pointwise related lists -/
inductive All₂ {α β : Type} (P : α → β → Prop) : List α → List β → Prop
  | nil : All₂ P [] []
  | cons {a b as bs} : P a b → All₂ P as bs → All₂ P (a :: as) (b :: bs)

/-- label tables with corresponding keys and equal values -/
abbrev TableRel (R : String → String → Prop) (ls ls' : List (String × Option Nat)) : Prop :=
  All₂ (fun p q => R p.1 q.1 ∧ p.2 = q.2) ls ls'

/-- every expression macro body only mentions names `R` fixes -/
def MsRefl (R : String → String → Prop) (ms : List (String × MacroDef)) : Prop :=
  ∀ n ps body, lookupMacro ms n = some (.expr ps body) → ExprRel R body body

/-- results agree up to the error value -/
def ER {α : Type} : Except EvErr α → Except EvErr α → Prop
  | .ok a, .ok b => a = b
  | .error _, .error _ => True
  | _, _ => False

theorem ER.refl {α : Type} (x : Except EvErr α) : ER x x := by cases x <;> simp [ER]

theorem lookupLabel_rel {R : String → String → Prop} (hR : PBij R) {ls ls' : List (String × Option Nat)}
    (ht : TableRel R ls ls') {l l' : String} (hl : R l l') : lookupLabel ls l = lookupLabel ls' l' := by
  induction ht with
  | nil => rfl
  | cons hpq _ ih =>
    rw [lookupLabel_cons, lookupLabel_cons, ih, hpq.2]
    simp only [hR.eq_iff hpq.1 hl]

theorem bin_ER {A A' B B' : Except EvErr Int} (g : Int → Int → Except EvErr Int) : ER A A' → ER B B' →
    ER (match A with
        | .error e => .error e
        | .ok x => match B with
          | .error e => .error e
          | .ok y => g x y)
       (match A' with
        | .error e => .error e
        | .ok x => match B' with
          | .error e => .error e
          | .ok y => g x y) := by
  intro ha hb
  cases A <;> cases A' <;> simp only [ER] at ha ⊢
  subst ha
  cases B <;> cases B' <;> simp only [ER] at hb ⊢
  subst hb
  exact ER.refl _

theorem bin_ER' {p : String} {A A' : Except EvErr Int} {B B' : Except EvErr (List (String × Int))} : ER A A' → ER B B' →
    ER (match A with
        | .error e => .error e
        | .ok v => match B with
          | .error e => .error e
          | .ok rest => .ok ((p, v) :: rest))
       (match A' with
        | .error e => .error e
        | .ok v => match B' with
          | .error e => .error e
          | .ok rest => .ok ((p, v) :: rest)) := by
  intro ha hb
  cases A <;> cases A' <;> simp only [ER] at ha ⊢
  subst ha
  cases B <;> cases B' <;> simp only [ER] at hb ⊢
  subst hb
  rfl

theorem eval_rel {R : String → String → Prop} (hR : PBij R) {ls ls' : List (String × Option Nat)}
    (ht : TableRel R ls ls') {ms : List (String × MacroDef)} (hms : MsRefl R ms) : ∀ f,
    (∀ e e' vars d, ExprRel R e e' → ER (eval f ⟨ls, ms, vars, d⟩ e) (eval f ⟨ls', ms, vars, d⟩ e')) ∧
    (∀ ps as as' vars d, ExprsRel R as as' →
      ER (evalArgs f ⟨ls, ms, vars, d⟩ ps as) (evalArgs f ⟨ls', ms, vars, d⟩ ps as')) := by
  intro f
  induction f with
  | zero =>
    constructor
    · intros; simp [eval, ER]
    · intros; simp [evalArgs, ER]
  | succ f ih =>
    obtain ⟨ihe, iha⟩ := ih
    constructor
    · intro e e' vars d h
      cases h with
      | paren h => simp only [eval]; exact ihe _ _ _ _ h
      | num => simp [eval, ER]
      | var => simp only [eval]; exact ER.refl _
      | label h =>
        simp only [eval]
        rw [lookupLabel_rel hR ht h]
        rcases lookupLabel ls' _ with _ | _ | _ <;> simp [ER]
      | plus ha hb => rw [eval, eval]; exact bin_ER _ (ihe _ _ _ _ ha) (ihe _ _ _ _ hb)
      | minus ha hb => rw [eval, eval]; exact bin_ER _ (ihe _ _ _ _ ha) (ihe _ _ _ _ hb)
      | times ha hb => rw [eval, eval]; exact bin_ER _ (ihe _ _ _ _ ha) (ihe _ _ _ _ hb)
      | divide ha hb => rw [eval, eval]; exact bin_ER _ (ihe _ _ _ _ ha) (ihe _ _ _ _ hb)
      | «macro» has =>
        rename_i n as as'
        rw [eval, eval]
        simp only
        cases hm : lookupMacro ms n with
        | none => simp [ER]
        | some md =>
          cases md with
          | instr ps body => simp [ER]
          | expr params body =>
            simp only
            have h1 := iha params _ _ vars d has
            cases hA : evalArgs f ⟨ls, ms, vars, d⟩ params as <;>
              cases hA' : evalArgs f ⟨ls', ms, vars, d⟩ params as' <;> rw [hA, hA'] at h1 <;> simp only [ER] at h1 ⊢
            subst h1
            by_cases hd : d ≥ maxMacroDepth
            · simp [hd]
            · simp only [hd, if_false]
              exact ihe _ _ _ _ (hms _ _ _ hm)
    · intro ps as as' vars d h
      cases ps with
      | nil => simp [evalArgs, ER]
      | cons p ps =>
        cases h with
        | nil => simp [evalArgs, ER]
        | cons ha has =>
          rw [evalArgs, evalArgs]
          exact bin_ER' (ihe _ _ _ _ ha) (iha _ _ _ _ _ has)

/-! ### pointwise related lists -/

theorem All₂.append {α β : Type} {P : α → β → Prop} {xs xs' : List α} {ys ys' : List β}
    (h1 : All₂ P xs ys) (h2 : All₂ P xs' ys') : All₂ P (xs ++ xs') (ys ++ ys') := by
  induction h1 with
  | nil => exact h2
  | cons h _ ih => exact .cons h ih

theorem All₂.reverse {α β : Type} {P : α → β → Prop} {xs : List α} {ys : List β}
    (h : All₂ P xs ys) : All₂ P xs.reverse ys.reverse := by
  induction h with
  | nil => exact .nil
  | cons h _ ih => simp only [List.reverse_cons]; exact ih.append (.cons h .nil)

theorem All₂.length_eq {α β : Type} {P : α → β → Prop} {xs : List α} {ys : List β}
    (h : All₂ P xs ys) : xs.length = ys.length := by
  induction h with
  | nil => rfl
  | cons _ _ ih => simp [ih]

theorem All₂.imp {α β : Type} {P Q : α → β → Prop} (hPQ : ∀ a b, P a b → Q a b) {xs : List α} {ys : List β}
    (h : All₂ P xs ys) : All₂ Q xs ys := by
  induction h with
  | nil => exact .nil
  | cons h _ ih => exact .cons (hPQ _ _ h) ih

theorem All₂.map {α β γ δ : Type} {P : α → β → Prop} {Q : γ → δ → Prop} (f : α → γ) (g : β → δ)
    (hPQ : ∀ a b, P a b → Q (f a) (g b)) {xs : List α} {ys : List β}
    (h : All₂ P xs ys) : All₂ Q (xs.map f) (ys.map g) := by
  induction h with
  | nil => exact .nil
  | cons h _ ih => exact .cons (hPQ _ _ h) ih

theorem All₂.refl {α : Type} {P : α → α → Prop} {xs : List α} (h : ∀ x ∈ xs, P x x) : All₂ P xs xs := by
  induction xs with
  | nil => exact .nil
  | cons x xs ih => exact .cons (h x (by simp)) (ih (fun y hy => h y (by simp [hy])))

theorem All₂.zip_left {β γ : Type} {P : β → γ → Prop} (ps : List String) {xs : List β} {ys : List γ}
    (h : All₂ P xs ys) : All₂ (fun p q => p.1 = q.1 ∧ P p.2 q.2) (ps.zip xs) (ps.zip ys) := by
  induction h generalizing ps with
  | nil => simp only [List.zip_nil_right]; exact .nil
  | cons h _ ih =>
    cases ps with
    | nil => exact .nil
    | cons p ps => exact .cons ⟨rfl, h⟩ (ih ps)

/-- membership transfers along a partial bijection -/
theorem All₂.contains {R : String → String → Prop} (hR : PBij R) {ls ls' : List String} (h : All₂ R ls ls')
    {l l' : String} (hl : R l l') : ls.contains l = ls'.contains l' := by
  induction h with
  | nil => rfl
  | cons h _ ih => simp only [List.contains_cons, ih, hR.beq hl h]

/-! ### labels of an expression -/

theorem bind2_ok {A B : Except EvErr (List String)} {ls : List String}
    (h : (match A with
      | .error e => .error e
      | .ok x => match B with
        | .error e => .error e
        | .ok y => .ok (x ++ y)) = (.ok ls : Except EvErr (List String))) :
    ∃ x y, A = .ok x ∧ B = .ok y ∧ ls = x ++ y := by
  cases A with
  | error e => simp at h
  | ok x =>
    cases B with
    | error e => simp at h
    | ok y =>
      simp only [Except.ok.injEq] at h
      exact ⟨x, y, rfl, rfl, h.symm⟩

theorem labelsOf_rel {R : String → String → Prop} {ms : List (String × MacroDef)} (hms : MsRefl R ms) : ∀ f,
    (∀ e e' d ls, ExprRel R e e' → labelsOf ms f d e = .ok ls →
      ∃ ls', labelsOf ms f d e' = .ok ls' ∧ All₂ R ls ls') ∧
    (∀ as as' d ls, ExprsRel R as as' → labelsOfArgs ms f d as = .ok ls →
      ∃ ls', labelsOfArgs ms f d as' = .ok ls' ∧ All₂ R ls ls') := by
  intro f
  induction f with
  | zero =>
    constructor
    · intro e e' d ls _ h; simp [labelsOf] at h
    · intro e e' d ls _ h; simp [labelsOfArgs] at h
  | succ f ih =>
    obtain ⟨ihe, iha⟩ := ih
    have bin : ∀ a a' b b' d ls, ExprRel R a a' → ExprRel R b b' →
        (match labelsOf ms f d a with
          | .error e => .error e
          | .ok x => match labelsOf ms f d b with
            | .error e => .error e
            | .ok y => .ok (x ++ y)) = (.ok ls : Except EvErr (List String)) →
        ∃ ls', (match labelsOf ms f d a' with
          | .error e => .error e
          | .ok x => match labelsOf ms f d b' with
            | .error e => .error e
            | .ok y => .ok (x ++ y)) = (.ok ls' : Except EvErr (List String)) ∧ All₂ R ls ls' := by
      intro a a' b b' d ls ha hb h
      obtain ⟨x, y, hx, hy, rfl⟩ := bind2_ok h
      obtain ⟨x', hx', hxx⟩ := ihe _ _ _ _ ha hx
      obtain ⟨y', hy', hyy⟩ := ihe _ _ _ _ hb hy
      exact ⟨x' ++ y', by rw [hx', hy'], hxx.append hyy⟩
    constructor
    · intro e e' d ls h hl
      cases h with
      | paren h => simp only [labelsOf] at hl ⊢; exact ihe _ _ _ _ h hl
      | num => simp only [labelsOf] at hl ⊢; exact ⟨_, hl, by cases hl; exact .nil⟩
      | var => simp only [labelsOf] at hl ⊢; exact ⟨_, hl, by cases hl; exact .nil⟩
      | label h =>
        simp only [labelsOf, Except.ok.injEq] at hl ⊢
        subst hl
        exact ⟨_, rfl, .cons h .nil⟩
      | plus ha hb => rw [labelsOf] at hl ⊢; exact bin _ _ _ _ _ _ ha hb hl
      | minus ha hb => rw [labelsOf] at hl ⊢; exact bin _ _ _ _ _ _ ha hb hl
      | times ha hb => rw [labelsOf] at hl ⊢; exact bin _ _ _ _ _ _ ha hb hl
      | divide ha hb => rw [labelsOf] at hl ⊢; exact bin _ _ _ _ _ _ ha hb hl
      | «macro» has =>
        rename_i n as as'
        rw [labelsOf] at hl ⊢
        cases hm : lookupMacro ms n with
        | none => simp [hm] at hl
        | some md =>
          cases md with
          | instr ps body => simp [hm] at hl
          | expr params body =>
            rw [hm] at hl
            simp only at hl ⊢
            by_cases hd : d ≥ maxMacroDepth
            · simp [hd] at hl
            · rw [if_neg hd] at hl ⊢
              obtain ⟨x, y, hx, hy, rfl⟩ := bind2_ok hl
              obtain ⟨x', hx', hxx⟩ := ihe _ _ _ _ (hms _ _ _ hm) hx
              obtain ⟨y', hy', hyy⟩ := iha _ _ _ _ has hy
              exact ⟨x' ++ y', by rw [hx', hy'], hxx.append hyy⟩
    · intro as as' d ls h hl
      cases h with
      | nil => simp only [labelsOfArgs] at hl ⊢; exact ⟨_, hl, by cases hl; exact .nil⟩
      | cons ha has =>
        rw [labelsOfArgs] at hl ⊢
        obtain ⟨x, y, hx, hy, rfl⟩ := bind2_ok hl
        obtain ⟨x', hx', hxx⟩ := ihe _ _ _ _ ha hx
        obtain ⟨y', hy', hyy⟩ := iha _ _ _ _ has hy
        exact ⟨x' ++ y', by rw [hx', hy'], hxx.append hyy⟩

/-! ### label replacement and variable filling -/

mutual
theorem replaceLabel_rel {R : String → String → Prop} (hR : PBij R) {o o' n n' : String} (ho : R o o') (hn : R n n') :
    ∀ {e e'}, ExprRel R e e' → ExprRel R (replaceLabel o n e) (replaceLabel o' n' e')
  | _, _, .paren h => by simp only [replaceLabel]; exact .paren (replaceLabel_rel hR ho hn h)
  | _, _, .macro h => by simp only [replaceLabel]; exact .macro (replaceLabelArgs_rel hR ho hn h)
  | _, _, .num => by simp only [replaceLabel]; exact .num
  | _, _, .var => by simp only [replaceLabel]; exact .var
  | _, _, .label h => by
    simp only [replaceLabel, hR.eq_iff h ho]
    split
    · exact .label hn
    · exact .label h
  | _, _, .plus ha hb => by simp only [replaceLabel]; exact .plus (replaceLabel_rel hR ho hn ha) (replaceLabel_rel hR ho hn hb)
  | _, _, .minus ha hb => by simp only [replaceLabel]; exact .minus (replaceLabel_rel hR ho hn ha) (replaceLabel_rel hR ho hn hb)
  | _, _, .times ha hb => by simp only [replaceLabel]; exact .times (replaceLabel_rel hR ho hn ha) (replaceLabel_rel hR ho hn hb)
  | _, _, .divide ha hb => by simp only [replaceLabel]; exact .divide (replaceLabel_rel hR ho hn ha) (replaceLabel_rel hR ho hn hb)
theorem replaceLabelArgs_rel {R : String → String → Prop} (hR : PBij R) {o o' n n' : String} (ho : R o o') (hn : R n n') :
    ∀ {as as'}, ExprsRel R as as' → ExprsRel R (replaceLabelArgs o n as) (replaceLabelArgs o' n' as')
  | _, _, .nil => by simp only [replaceLabelArgs]; exact .nil
  | _, _, .cons ha has => by
    simp only [replaceLabelArgs]; exact .cons (replaceLabel_rel hR ho hn ha) (replaceLabelArgs_rel hR ho hn has)
end

/-- bindings with the same parameter names and related argument expressions -/
abbrev BindRel (R : String → String → Prop) (bs bs' : List (String × Expr)) : Prop :=
  All₂ (fun p q => p.1 = q.1 ∧ ExprRel R p.2 q.2) bs bs'

theorem find_bind_rel {R : String → String → Prop} {bs bs' : List (String × Expr)} (h : BindRel R bs bs') (v : String) :
    match (bs.find? (·.1 == v)).map (·.2), (bs'.find? (·.1 == v)).map (·.2) with
    | some e, some e' => ExprRel R e e'
    | none, none => True
    | _, _ => False := by
  induction h with
  | nil => simp
  | @cons p q ps qs hpq _ ih =>
    simp only [List.find?_cons, ← hpq.1]
    by_cases hv : p.1 == v
    · simp only [hv, Option.map_some]; exact hpq.2
    · simp only [hv]; exact ih

theorem lookupBinding_rel {R : String → String → Prop} {bs bs' : List (String × Expr)} (h : BindRel R bs bs') (v : String) :
    match lookupBinding bs v, lookupBinding bs' v with
    | some e, some e' => ExprRel R e e'
    | none, none => True
    | _, _ => False := find_bind_rel h.reverse v

mutual
theorem fillVars_rel {R : String → String → Prop} {bs bs' : List (String × Expr)} (hb : BindRel R bs bs') :
    ∀ {e e'}, ExprRel R e e' → ExprRel R (fillVars bs e) (fillVars bs' e')
  | _, _, .paren h => by simp only [fillVars]; exact .paren (fillVars_rel hb h)
  | _, _, .macro h => by simp only [fillVars]; exact .macro (fillVarsArgs_rel hb h)
  | _, _, .num => by simp only [fillVars]; exact .num
  | _, _, .var (v := v) => by
    simp only [fillVars]
    have := lookupBinding_rel hb v
    cases h1 : lookupBinding bs v <;> cases h2 : lookupBinding bs' v <;> rw [h1, h2] at this <;> simp only at this ⊢
    · exact .var
    · exact this
  | _, _, .label h => by simp only [fillVars]; exact .label h
  | _, _, .plus ha hb' => by simp only [fillVars]; exact .plus (fillVars_rel hb ha) (fillVars_rel hb hb')
  | _, _, .minus ha hb' => by simp only [fillVars]; exact .minus (fillVars_rel hb ha) (fillVars_rel hb hb')
  | _, _, .times ha hb' => by simp only [fillVars]; exact .times (fillVars_rel hb ha) (fillVars_rel hb hb')
  | _, _, .divide ha hb' => by simp only [fillVars]; exact .divide (fillVars_rel hb ha) (fillVars_rel hb hb')
theorem fillVarsArgs_rel {R : String → String → Prop} {bs bs' : List (String × Expr)} (hb : BindRel R bs bs') :
    ∀ {as as'}, ExprsRel R as as' → ExprsRel R (fillVarsArgs bs as) (fillVarsArgs bs' as')
  | _, _, .nil => by simp only [fillVarsArgs]; exact .nil
  | _, _, .cons ha has => by
    simp only [fillVarsArgs]; exact .cons (fillVars_rel hb ha) (fillVarsArgs_rel hb has)
end

end Suffix
end Asm
end EtkVerif
