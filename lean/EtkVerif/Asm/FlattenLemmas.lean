/-
Lemmas on the flattening functions of `Spec` (`flattenOp`, `flattenMacro`,
`flattenBody`, `flattenAll`, `assembleScope`): fuel monotonicity of successful
runs, depth monotonicity, `flattenBody` at depth 0 versus `flattenAll`,
`flattenAll` over concatenations, plain items.
-/
import EtkVerif.Asm.Spec
namespace EtkVerif
namespace Asm
namespace Spec

theorem flatten_mono (rnd : Nat → Nat) : ∀ f,
    (∀ f' ms d k rop r, f ≤ f' → flattenOp rnd f ms d k rop = .ok r → flattenOp rnd f' ms d k rop = .ok r) ∧
    (∀ f' ms d k name args r, f ≤ f' → flattenMacro rnd f ms d k name args = .ok r →
      flattenMacro rnd f' ms d k name args = .ok r) ∧
    (∀ f' ms d k os r, f ≤ f' → flattenBody rnd f ms d k os = .ok r → flattenBody rnd f' ms d k os = .ok r) ∧
    (∀ f' ms k ops r, f ≤ f' → flattenAll rnd f ms k ops = .ok r → flattenAll rnd f' ms k ops = .ok r) ∧
    (∀ f' k ops r, f ≤ f' → assembleScope rnd f k ops = .ok r → assembleScope rnd f' k ops = .ok r) := by
  intro f
  induction f with
  | zero =>
    refine ⟨?_, ?_, ?_, ?_, ?_⟩
    · intro f' ms d k rop r _ h; simp [flattenOp] at h
    · intro f' ms d k name args r _ h; simp [flattenMacro] at h
    · intro f' ms d k os r _ h; simp [flattenBody] at h
    · intro f' ms k ops r _ h; simp [flattenAll] at h
    · intro f' k ops r _ h; simp [assembleScope] at h
  | succ f ih =>
    obtain ⟨ihO, ihM, ihB, ihA, ihS⟩ := ih
    refine ⟨?_, ?_, ?_, ?_, ?_⟩
    · intro f' ms d k rop r hle h
      obtain ⟨f'', rfl⟩ : ∃ f'', f' = f'' + 1 := ⟨f' - 1, by omega⟩
      have hle' : f ≤ f'' := by omega
      cases rop with
      | op o =>
        cases o with
        | «macro» name args =>
          simp only [flattenOp] at h ⊢
          exact ihM _ _ _ _ _ _ _ hle' h
        | _ => simp only [flattenOp] at h ⊢; exact h
      | raw bytes => simp only [flattenOp] at h ⊢; exact h
      | scope ops =>
        simp only [flattenOp] at h ⊢
        cases hs : assembleScope rnd f k ops with
        | error e => rw [hs] at h; simp at h
        | ok p => rw [ihS _ _ _ _ hle' hs]; rw [hs] at h; exact h
    · intro f' ms d k name args r hle h
      obtain ⟨f'', rfl⟩ : ∃ f'', f' = f'' + 1 := ⟨f' - 1, by omega⟩
      have hle' : f ≤ f'' := by omega
      simp only [flattenMacro] at h ⊢
      cases hl : lookupMacro ms name with
      | none => rw [hl] at h; simp at h
      | some md =>
        cases md with
        | expr ps b => rw [hl] at h; simp at h
        | instr params body =>
          rw [hl] at h
          simp only [] at h ⊢
          by_cases h1 : params.length ≠ args.length
          · rw [if_pos h1] at h; simp at h
          · rw [if_neg h1] at h ⊢
            by_cases h2 : d ≥ maxMacroDepth
            · rw [if_pos h2] at h; simp at h
            · rw [if_neg h2] at h ⊢
              cases hi : instantiate rnd name params body args k with
              | error e => rw [hi] at h; simp at h
              | ok p =>
                rw [hi] at h
                simp only [] at h ⊢
                exact ihB _ _ _ _ _ _ hle' h
    · intro f' ms d k os r hle h
      obtain ⟨f'', rfl⟩ : ∃ f'', f' = f'' + 1 := ⟨f' - 1, by omega⟩
      have hle' : f ≤ f'' := by omega
      cases os with
      | nil => simp only [flattenBody] at h ⊢; exact h
      | cons o os =>
        simp only [flattenBody] at h ⊢
        cases h1 : flattenOp rnd f ms d k (.op o) with
        | error e => rw [h1] at h; simp at h
        | ok p =>
          rw [h1] at h
          rw [ihO _ _ _ _ _ _ hle' h1]
          simp only [] at h ⊢
          cases h2 : flattenBody rnd f ms d p.2 os with
          | error e => rw [h2] at h; simp at h
          | ok q =>
            rw [h2] at h
            rw [ihB _ _ _ _ _ _ hle' h2]
            exact h
    · intro f' ms k ops r hle h
      obtain ⟨f'', rfl⟩ : ∃ f'', f' = f'' + 1 := ⟨f' - 1, by omega⟩
      have hle' : f ≤ f'' := by omega
      cases ops with
      | nil => simp only [flattenAll] at h ⊢; exact h
      | cons o os =>
        simp only [flattenAll] at h ⊢
        cases h1 : flattenOp rnd f ms 0 k o with
        | error e => rw [h1] at h; simp at h
        | ok p =>
          rw [h1] at h
          rw [ihO _ _ _ _ _ _ hle' h1]
          simp only [] at h ⊢
          cases h2 : flattenAll rnd f ms p.2 os with
          | error e => rw [h2] at h; simp at h
          | ok q =>
            rw [h2] at h
            rw [ihA _ _ _ _ _ hle' h2]
            exact h
    · intro f' k ops r hle h
      obtain ⟨f'', rfl⟩ : ∃ f'', f' = f'' + 1 := ⟨f' - 1, by omega⟩
      have hle' : f ≤ f'' := by omega
      simp only [assembleScope] at h ⊢
      cases h1 : declareMacros ops.toList [] with
      | error e => rw [h1] at h; simp at h
      | ok ms =>
        rw [h1] at h
        simp only [] at h ⊢
        cases h2 : flattenAll rnd f ms k ops with
        | error e => rw [h2] at h; simp at h
        | ok q =>
          rw [h2] at h
          rw [ihA _ _ _ _ _ hle' h2]
          exact h


/-- depth only matters for failing: success at a depth is success (same result) at any smaller depth -/
theorem flatten_depth (rnd : Nat → Nat) : ∀ f,
    (∀ ms d d' k rop r, d' ≤ d → flattenOp rnd f ms d k rop = .ok r → flattenOp rnd f ms d' k rop = .ok r) ∧
    (∀ ms d d' k name args r, d' ≤ d → flattenMacro rnd f ms d k name args = .ok r →
      flattenMacro rnd f ms d' k name args = .ok r) ∧
    (∀ ms d d' k os r, d' ≤ d → flattenBody rnd f ms d k os = .ok r → flattenBody rnd f ms d' k os = .ok r) := by
  intro f
  induction f with
  | zero =>
    refine ⟨?_, ?_, ?_⟩
    · intro ms d d' k rop r _ h; simp [flattenOp] at h
    · intro ms d d' k name args r _ h; simp [flattenMacro] at h
    · intro ms d d' k os r _ h; simp [flattenBody] at h
  | succ f ih =>
    obtain ⟨ihO, ihM, ihB⟩ := ih
    refine ⟨?_, ?_, ?_⟩
    · intro ms d d' k rop r hle h
      cases rop with
      | op o =>
        cases o with
        | «macro» name args =>
          simp only [flattenOp] at h ⊢
          exact ihM _ _ _ _ _ _ _ hle h
        | _ => simp only [flattenOp] at h ⊢; exact h
      | raw bytes => simp only [flattenOp] at h ⊢; exact h
      | scope ops => simp only [flattenOp] at h ⊢; exact h
    · intro ms d d' k name args r hle h
      simp only [flattenMacro] at h ⊢
      cases hl : lookupMacro ms name with
      | none => rw [hl] at h; simp at h
      | some md =>
        cases md with
        | expr ps b => rw [hl] at h; simp at h
        | instr params body =>
          rw [hl] at h
          simp only [] at h ⊢
          by_cases h1 : params.length ≠ args.length
          · rw [if_pos h1] at h; simp at h
          · rw [if_neg h1] at h ⊢
            by_cases h2 : d ≥ maxMacroDepth
            · rw [if_pos h2] at h; simp at h
            · have h2' : ¬ d' ≥ maxMacroDepth := by omega
              rw [if_neg h2] at h
              rw [if_neg h2']
              cases hi : instantiate rnd name params body args k with
              | error e => rw [hi] at h; simp at h
              | ok p =>
                rw [hi] at h
                simp only [] at h ⊢
                exact ihB _ _ _ _ _ _ (by omega) h
    · intro ms d d' k os r hle h
      cases os with
      | nil => simp only [flattenBody] at h ⊢; exact h
      | cons o os =>
        simp only [flattenBody] at h ⊢
        cases h1 : flattenOp rnd f ms d k (.op o) with
        | error e => rw [h1] at h; simp at h
        | ok p =>
          rw [h1] at h
          rw [ihO _ _ _ _ _ _ hle h1]
          simp only [] at h ⊢
          cases h2 : flattenBody rnd f ms d p.2 os with
          | error e => rw [h2] at h; simp at h
          | ok q =>
            rw [h2] at h
            rw [ihB _ _ _ _ _ _ hle h2]
            exact h

/-- at depth 0, flattening a body is flattening the corresponding scope items -/
theorem flattenBody_zero_eq (rnd : Nat → Nat) (ms : List (String × MacroDef)) :
    ∀ f k os, flattenBody rnd f ms 0 k os = flattenAll rnd f ms k (RawOps.ofList (os.map RawOp.op)) := by
  intro f
  induction f with
  | zero => intro k os; simp [flattenBody, flattenAll]
  | succ f ih =>
    intro k os
    cases os with
    | nil => simp only [flattenBody, List.map, RawOps.ofList, flattenAll]
    | cons o os =>
      simp only [flattenBody, List.map, RawOps.ofList, flattenAll]
      cases flattenOp rnd f ms 0 k (.op o) with
      | error e => rfl
      | ok p => simp only []; rw [ih]

theorem flattenAll_mono (rnd : Nat → Nat) {f f' : Nat} {ms k ops r} (hle : f ≤ f')
    (h : flattenAll rnd f ms k ops = .ok r) : flattenAll rnd f' ms k ops = .ok r :=
  (flatten_mono rnd f).2.2.2.1 f' ms k ops r hle h

theorem flattenOp_mono (rnd : Nat → Nat) {f f' : Nat} {ms d k rop r} (hle : f ≤ f')
    (h : flattenOp rnd f ms d k rop = .ok r) : flattenOp rnd f' ms d k rop = .ok r :=
  (flatten_mono rnd f).1 f' ms d k rop r hle h

theorem flattenAll_cons_ok (rnd : Nat → Nat) {f : Nat} {ms k o os r}
    (h : flattenAll rnd f ms k (.cons o os) = .ok r) :
    ∃ f0 xs k' ys, f = f0 + 1 ∧ flattenOp rnd f0 ms 0 k o = .ok (xs, k') ∧
      flattenAll rnd f0 ms k' os = .ok (ys, r.2) ∧ r.1 = xs ++ ys := by
  cases f with
  | zero => simp [flattenAll] at h
  | succ f =>
    simp only [flattenAll] at h
    cases h1 : flattenOp rnd f ms 0 k o with
    | error e => rw [h1] at h; simp at h
    | ok p =>
      rw [h1] at h
      simp only [] at h
      cases h2 : flattenAll rnd f ms p.2 os with
      | error e => rw [h2] at h; simp at h
      | ok q =>
        rw [h2] at h
        simp only [Except.ok.injEq] at h
        subst h
        exact ⟨f, p.1, p.2, q.1, rfl, h1, h2, rfl⟩

theorem flattenAll_cons_intro (rnd : Nat → Nat) {f1 f2 : Nat} {ms k o os xs k' ys k''}
    (h1 : flattenOp rnd f1 ms 0 k o = .ok (xs, k')) (h2 : flattenAll rnd f2 ms k' os = .ok (ys, k'')) :
    flattenAll rnd (max f1 f2 + 1) ms k (.cons o os) = .ok (xs ++ ys, k'') := by
  simp only [flattenAll]
  rw [flattenOp_mono rnd (Nat.le_max_left f1 f2) h1]
  simp only []
  rw [flattenAll_mono rnd (Nat.le_max_right f1 f2) h2]

theorem flattenAll_append_split (rnd : Nat → Nat) (ms : List (String × MacroDef)) (b : List RawOp) :
    ∀ (a : List RawOp) f k r, flattenAll rnd f ms k (RawOps.ofList (a ++ b)) = .ok r →
      ∃ xs k1 ys, flattenAll rnd f ms k (RawOps.ofList a) = .ok (xs, k1) ∧
        flattenAll rnd f ms k1 (RawOps.ofList b) = .ok (ys, r.2) ∧ r.1 = xs ++ ys := by
  intro a
  induction a with
  | nil =>
    intro f k r h
    cases f with
    | zero => simp [flattenAll] at h
    | succ f =>
      refine ⟨[], k, r.1, ?_, h, rfl⟩
      simp only [RawOps.ofList, flattenAll]
  | cons o a ih =>
    intro f k r h
    simp only [List.cons_append, RawOps.ofList] at h
    obtain ⟨f0, xs, k', ys, rfl, h1, h2, h3⟩ := flattenAll_cons_ok rnd h
    obtain ⟨xs', k1, ys', h4, h5, h6⟩ := ih f0 k' _ h2
    refine ⟨xs ++ xs', k1, ys', ?_, flattenAll_mono rnd (Nat.le_succ _) h5, ?_⟩
    · simp only [RawOps.ofList, flattenAll]
      rw [h1]
      simp only []
      rw [h4]
    · rw [h3]; simp only [] at h6; rw [h6, List.append_assoc]

theorem flattenAll_append_join (rnd : Nat → Nat) (ms : List (String × MacroDef)) (b : List RawOp) :
    ∀ (a : List RawOp) f1 f2 k xs k1 ys k2, flattenAll rnd f1 ms k (RawOps.ofList a) = .ok (xs, k1) →
      flattenAll rnd f2 ms k1 (RawOps.ofList b) = .ok (ys, k2) →
      ∃ f, flattenAll rnd f ms k (RawOps.ofList (a ++ b)) = .ok (xs ++ ys, k2) := by
  intro a
  induction a with
  | nil =>
    intro f1 f2 k xs k1 ys k2 h1 h2
    cases f1 with
    | zero => simp [flattenAll] at h1
    | succ f1 =>
      simp only [RawOps.ofList, flattenAll, Except.ok.injEq, Prod.mk.injEq] at h1
      obtain ⟨rfl, rfl⟩ := h1
      exact ⟨f2, h2⟩
  | cons o a ih =>
    intro f1 f2 k xs k1 ys k2 h1 h2
    simp only [RawOps.ofList] at h1
    obtain ⟨f0, x1, k', x2, rfl, h3, h4, h5⟩ := flattenAll_cons_ok rnd h1
    simp only [] at h4 h5
    obtain ⟨f, hf⟩ := ih f0 f2 k' x2 k1 ys k2 h4 h2
    refine ⟨max f0 f + 1, ?_⟩
    simp only [List.cons_append, RawOps.ofList]
    rw [flattenAll_cons_intro rnd h3 hf, h5, List.append_assoc]

/-- a plain item (no invocation) flattens without touching the counter -/
theorem flattenOp_plain (rnd : Nat → Nat) {f : Nat} {ms : List (String × MacroDef)} {k : Nat} {o : AOp} {xs k'}
    (hplain : match o with | .macro _ _ => False | _ => True)
    (h : flattenOp rnd f ms 0 k (.op o) = .ok (xs, k')) :
    k' = k ∧ ∀ k₂, flattenOp rnd f ms 0 k₂ (.op o) = .ok (xs, k₂) := by
  cases f with
  | zero => simp [flattenOp] at h
  | succ f =>
    cases o with
    | «macro» name args => exact hplain.elim
    | _ =>
      simp only [flattenOp, Except.ok.injEq, Prod.mk.injEq] at h
      obtain ⟨rfl, rfl⟩ := h
      exact ⟨rfl, fun k₂ => by simp only [flattenOp]⟩

theorem flattenAll_plain (rnd : Nat → Nat) (ms : List (String × MacroDef)) :
    ∀ (pre : List AOp) (_ : ∀ o ∈ pre, match o with | .macro _ _ => False | _ => True) f k xs k1,
      flattenAll rnd f ms k (RawOps.ofList (pre.map RawOp.op)) = .ok (xs, k1) →
      k1 = k ∧ ∀ k₂, flattenAll rnd f ms k₂ (RawOps.ofList (pre.map RawOp.op)) = .ok (xs, k₂) := by
  intro pre
  induction pre with
  | nil =>
    intro _ f k xs k1 h
    cases f with
    | zero => simp [flattenAll] at h
    | succ f =>
      simp only [List.map, RawOps.ofList, flattenAll, Except.ok.injEq, Prod.mk.injEq] at h
      obtain ⟨rfl, rfl⟩ := h
      exact ⟨rfl, fun k₂ => by simp only [List.map, RawOps.ofList, flattenAll]⟩
  | cons o pre ih =>
    intro hplain f k xs k1 h
    simp only [List.map, RawOps.ofList] at h
    obtain ⟨f0, x1, k', x2, rfl, h1, h2, h3⟩ := flattenAll_cons_ok rnd h
    simp only [] at h2 h3
    obtain ⟨rfl, hk⟩ := flattenOp_plain rnd (hplain o (List.mem_cons_self ..)) h1
    obtain ⟨rfl, hk'⟩ := ih (fun o ho => hplain o (List.mem_cons_of_mem _ ho)) f0 _ x2 k1 h2
    refine ⟨rfl, fun k₂ => ?_⟩
    simp only [List.map, RawOps.ofList, flattenAll]
    rw [hk k₂]
    simp only []
    rw [hk' k₂, h3]

end Spec
end Asm
end EtkVerif
