/-
A LINEAR BOUND ON THE NUMBER OF STATEMENTS: `parseAsm text = .ok nodes → nodes.length ≤ text.length`.

Route.  A generic fact about the pest interpreter (`Pest.matchE` / `callRule`, any grammar): a successful match from
`p` to `p'` that yields the top-level pairs `ks` satisfies `p + cntTop ks ≤ p' ≤ max p |input|`, where `cntTop` counts
the pairs whose rule is not `EOI` -- PROVIDED every non-silent rule of the grammar (the only rules that emit a token)
cannot match the empty string.  That proviso is a kernel-evaluable check: `consumesE` / `consumesN` is a syntactic,
sound approximation of "this expression consumes at least one character whenever it succeeds", and `goodGrammar` runs
it on every non-silent rule (`goodGrammar_asm : goodGrammar Gen.grammar = true := by decide`).  The soundness of the
check is proved in the same induction on the interpreter's fuel (`PInv`), since every recursive call of the
interpreter, including the one from a rule reference into the rule's body, lowers the fuel.

`parseAsm.go` maps every non-EOI top-level pair to at most one node, hence `parseAsm_nodes_le`; `nodesBound_of_lengths`
and `ingestFile_terminates_lengths` instantiate the one unproved premise of `ingestFile_terminates`.
-/
import EtkVerif.Asm.IngestFuel
import EtkVerif.Asm.PestLogic

namespace EtkVerif
namespace Pest

/-! ### counting top-level pairs -/

/-- number of pairs of the list whose rule is not `EOI` -/
def cntTop : List Pair → Nat
  | [] => 0
  | p :: ps => (if p.rule = EOI then 0 else 1) + cntTop ps

theorem cntTop_append (a b : List Pair) : cntTop (a ++ b) = cntTop a + cntTop b := by
  induction a with
  | nil => simp [cntTop]
  | cons x xs ih => simp [cntTop, ih, Nat.add_assoc]

def cntChunks : List (List Pair) → Nat
  | [] => 0
  | c :: cs => cntTop c + cntChunks cs

theorem cntTop_flatten_reverse (acc : List (List Pair)) : cntTop acc.reverse.flatten = cntChunks acc := by
  induction acc with
  | nil => rfl
  | cons c cs ih => simp [cntChunks, cntTop_append, ih, Nat.add_comm]

/-! ### a syntactic "consumes at least one character" check -/

/-- `e` consumes input whenever it succeeds, given such a check `refc` for rule references -/
def consumesE (refc : Nat → Bool) : PE → Bool
  | .str s => !s.isEmpty
  | .range _ _ => true
  | .ref n => refc n
  | .seq a b => consumesE refc a || consumesE refc b
  | .alt a b => consumesE refc a && consumesE refc b
  | .opt _ => false
  | .star _ => false
  | .plus a => consumesE refc a
  | .neg _ => false
  | .pos _ => false

/-- rule `n` consumes input whenever it succeeds (reference depth at most the first argument) -/
def consumesN (g : List Rule) : Nat → Nat → Bool
  | 0, _ => false
  | k + 1, n =>
    if n = ANY then true
    else if n = SOI then false
    else if n = EOI then false
    else if n = NEWLINE then true
    else if n = ASCII_DIGIT then true
    else if n = ASCII_BIN_DIGIT then true
    else if n = ASCII_OCT_DIGIT then true
    else if n = ASCII_HEX_DIGIT then true
    else if n = ASCII_ALPHA then true
    else if n = ASCII_ALPHANUMERIC then true
    else
      match g[n]? with
      | none => false
      | some r => consumesE (consumesN g k) r.body

def isSilent : RT → Bool
  | .silent => true
  | _ => false

/-- reference depth used by `goodGrammar` -/
def consumeDepth : Nat := 8

/-- every rule that can emit a token consumes input -/
def goodGrammar (g : List Rule) : Bool :=
  g.all fun r => isSilent r.ty || consumesE (consumesN g consumeDepth) r.body

theorem goodGrammar_mem {g : List Rule} (h : goodGrammar g = true) {r : Rule} (hr : r ∈ g) (hs : r.ty ≠ .silent) :
    consumesE (consumesN g consumeDepth) r.body = true := by
  have := List.all_eq_true.mp h r hr
  simp only [Bool.or_eq_true] at this
  rcases this with h1 | h1
  · exfalso
    revert h1 hs
    cases r.ty <;> simp [isSilent]
  · exact h1

/-! ### elementary facts -/

theorem getElem?_lt_size {inp : Array Nat} {p c : Nat} (h : inp[p]? = some c) : p < inp.size := by
  by_cases hp : p < inp.size
  · exact hp
  · rw [Array.getElem?_eq_none (by omega)] at h
    cases h

theorem charIn_lt {inp : Array Nat} {p lo hi : Nat} (h : charIn inp p lo hi = true) : p < inp.size := by
  unfold charIn at h
  cases hc : inp[p]? with
  | none => rw [hc] at h; cases h
  | some c => exact getElem?_lt_size hc

theorem clsF_some {b : Bool} {p p' : Nat} {ks : List Pair} (h : clsF b p = some (p', ks)) :
    b = true ∧ p' = p + 1 ∧ ks = [] := by
  cases b with
  | false => simp [clsF] at h
  | true =>
    simp only [clsF, if_true, Option.some.injEq, Prod.mk.injEq] at h
    exact ⟨rfl, h.1.symm, h.2.symm⟩

theorem tokF_some {n p : Nat} {la emit : Bool} {r : Res} {p' : Nat} {ks : List Pair}
    (h : tokF n p la emit r = some (p', ks)) :
    ∃ ks0, r = some (p', ks0) ∧ (ks = ks0 ∨ ks = [Pair.mk n p p' ks0]) := by
  cases r with
  | none => simp [tokF] at h
  | some pk =>
    obtain ⟨q, k0⟩ := pk
    simp only [tokF] at h
    split at h
    · simp only [Option.some.injEq, Prod.mk.injEq] at h
      obtain ⟨h1, h2⟩ := h
      subst h1
      exact ⟨k0, rfl, Or.inr h2.symm⟩
    · simp only [Option.some.injEq, Prod.mk.injEq] at h
      obtain ⟨h1, h2⟩ := h
      subst h1
      exact ⟨k0, rfl, Or.inl h2.symm⟩

theorem cntTop_single_le (n s e : Nat) (k : List Pair) : cntTop [Pair.mk n s e k] ≤ 1 := by
  simp only [cntTop, Pair.rule]
  by_cases h : n = EOI <;> simp [h]

/-! ### the invariant of the interpreter -/

/-- the invariant at fuel `f`: positions never go back and never pass the end of the input, the number of non-EOI
top-level pairs is at most the number of characters consumed, and the `consumes` check is sound -/
structure PInv (env : Env) (g : List Rule) (f : Nat) : Prop where
  m : ∀ e at_ la p p' ks, matchE env f e at_ la p = some (p', ks) →
        p + cntTop ks ≤ p' ∧ p' ≤ max p env.inp.size ∧ ∀ k, consumesE (consumesN g k) e = true → p < p'
  rp : ∀ a at_ la p acc p' acc', rep env f a at_ la p acc = (p', acc') →
        p ≤ p' ∧ p + cntChunks acc' ≤ p' + cntChunks acc ∧ p' ≤ max p env.inp.size
  sk : ∀ at_ p, p ≤ skip env f at_ p ∧ skip env f at_ p ≤ max p env.inp.size
  sc : ∀ c p, p ≤ skipC env f c p ∧ skipC env f c p ≤ max p env.inp.size
  mn : ∀ n p, p ≤ many env f n p ∧ many env f n p ≤ max p env.inp.size
  cr : ∀ n at_ la p p' ks, callRule env f n at_ la p = some (p', ks) →
        p + cntTop ks ≤ p' ∧ p' ≤ max p env.inp.size ∧ ∀ k, consumesN g k n = true → p < p'

theorem pinv_zero (env : Env) (g : List Rule) : PInv env g 0 := by
  constructor
  · intro e at_ la p p' ks h; simp [matchE] at h
  · intro a at_ la p acc p' acc' h
    simp only [rep, Prod.mk.injEq] at h
    obtain ⟨h1, h2⟩ := h
    subst h1; subst h2
    omega
  · intro at_ p; simp only [skip]; omega
  · intro c p; simp only [skipC]; omega
  · intro n p; simp only [many]; omega
  · intro n at_ la p p' ks h; simp [callRule] at h

section step
variable {env : Env} {g : List Rule} {f : Nat}

theorem pinv_matchE (ih : PInv env g f) :
    ∀ e at_ la p p' ks, matchE env (f + 1) e at_ la p = some (p', ks) →
      p + cntTop ks ≤ p' ∧ p' ≤ max p env.inp.size ∧ ∀ k, consumesE (consumesN g k) e = true → p < p' := by
  intro e at_ la p p' ks h
  cases e with
  | str s =>
    rw [matchE.eq_2] at h
    split at h
    · rename_i hpre
      simp only [Option.some.injEq, Prod.mk.injEq] at h
      obtain ⟨h1, h2⟩ := h
      subst h1; subst h2
      have hb := isPrefixAt_bound env.inp s p hpre
      refine ⟨by simp [cntTop], ?_, ?_⟩
      · cases s with
        | nil => simp only [List.length_nil]; omega
        | cons c cs => have := hb (by simp); omega
      · intro k hk
        simp only [consumesE] at hk
        cases s with
        | nil => simp at hk
        | cons c cs => simp only [List.length_cons]; omega
    · cases h
  | range lo hi =>
    rw [matchE.eq_3] at h
    split at h
    · rename_i hc
      simp only [Option.some.injEq, Prod.mk.injEq] at h
      obtain ⟨h1, h2⟩ := h
      subst h1; subst h2
      have := charIn_lt hc
      refine ⟨by simp [cntTop], by omega, fun _ _ => by omega⟩
    · cases h
  | ref n =>
    rw [matchE.eq_11] at h
    obtain ⟨h1, h2, h3⟩ := ih.cr _ _ _ _ _ _ h
    exact ⟨h1, h2, fun k hk => h3 k (by simpa [consumesE] using hk)⟩
  | seq a b =>
    rw [matchE.eq_4] at h
    cases h1 : matchE env f a at_ la p with
    | none => rw [h1] at h; cases h
    | some pk =>
      obtain ⟨p1, k1⟩ := pk
      rw [h1] at h
      simp only at h
      cases h3 : matchE env f b at_ la (skip env f at_ p1) with
      | none => rw [h3] at h; cases h
      | some pk3 =>
        obtain ⟨p3, k3⟩ := pk3
        rw [h3] at h
        simp only [Option.some.injEq, Prod.mk.injEq] at h
        obtain ⟨e1, e2⟩ := h
        subst e1; subst e2
        obtain ⟨a1, a2, a3⟩ := ih.m _ _ _ _ _ _ h1
        obtain ⟨b1, b2, b3⟩ := ih.m _ _ _ _ _ _ h3
        obtain ⟨s1, s2⟩ := ih.sk at_ p1
        refine ⟨by rw [cntTop_append]; omega, by omega, ?_⟩
        intro k hk
        simp only [consumesE, Bool.or_eq_true] at hk
        rcases hk with hk | hk
        · have := a3 k hk; omega
        · have := b3 k hk; omega
  | alt a b =>
    rw [matchE.eq_5] at h
    cases h1 : matchE env f a at_ la p with
    | none =>
      rw [h1] at h
      simp only at h
      obtain ⟨b1, b2, b3⟩ := ih.m _ _ _ _ _ _ h
      refine ⟨b1, b2, ?_⟩
      intro k hk
      simp only [consumesE, Bool.and_eq_true] at hk
      exact b3 k hk.2
    | some pk =>
      rw [h1] at h
      simp only [Option.some.injEq] at h
      subst h
      obtain ⟨a1, a2, a3⟩ := ih.m _ _ _ _ _ _ h1
      refine ⟨a1, a2, ?_⟩
      intro k hk
      simp only [consumesE, Bool.and_eq_true] at hk
      exact a3 k hk.1
  | opt a =>
    rw [matchE.eq_6] at h
    cases h1 : matchE env f a at_ la p with
    | none =>
      rw [h1] at h
      simp only [Option.some.injEq, Prod.mk.injEq] at h
      obtain ⟨e1, e2⟩ := h
      subst e1; subst e2
      refine ⟨by simp [cntTop], by omega, ?_⟩
      intro k hk; simp [consumesE] at hk
    | some pk =>
      rw [h1] at h
      simp only [Option.some.injEq] at h
      subst h
      obtain ⟨a1, a2, _⟩ := ih.m _ _ _ _ _ _ h1
      refine ⟨a1, a2, ?_⟩
      intro k hk; simp [consumesE] at hk
  | star a =>
    rw [matchE.eq_7] at h
    cases h1 : matchE env f a at_ la p with
    | none =>
      rw [h1] at h
      simp only [Option.some.injEq, Prod.mk.injEq] at h
      obtain ⟨e1, e2⟩ := h
      subst e1; subst e2
      refine ⟨by simp [cntTop], by omega, ?_⟩
      intro k hk; simp [consumesE] at hk
    | some pk =>
      obtain ⟨p1, k1⟩ := pk
      rw [h1] at h
      simp only at h
      cases hr : rep env f a at_ la p1 [k1] with
      | mk q acc =>
        rw [hr] at h
        simp only [Option.some.injEq, Prod.mk.injEq] at h
        obtain ⟨e1, e2⟩ := h
        subst e1; subst e2
        obtain ⟨a1, a2, _⟩ := ih.m _ _ _ _ _ _ h1
        obtain ⟨r1, r2, r3⟩ := ih.rp _ _ _ _ _ _ _ hr
        simp only [cntChunks] at r2
        refine ⟨by rw [cntTop_flatten_reverse]; omega, by omega, ?_⟩
        intro k hk; simp [consumesE] at hk
  | plus a =>
    rw [matchE.eq_8] at h
    cases h1 : matchE env f a at_ la p with
    | none => rw [h1] at h; cases h
    | some pk =>
      obtain ⟨p1, k1⟩ := pk
      rw [h1] at h
      simp only at h
      obtain ⟨a1, a2, a3⟩ := ih.m _ _ _ _ _ _ h1
      obtain ⟨s1, s2⟩ := ih.sk at_ p1
      cases h3 : matchE env f a at_ la (skip env f at_ p1) with
      | none =>
        rw [h3] at h
        simp only [Option.some.injEq, Prod.mk.injEq] at h
        obtain ⟨e1, e2⟩ := h
        subst e1; subst e2
        refine ⟨by omega, by omega, ?_⟩
        intro k hk
        simp only [consumesE] at hk
        have := a3 k hk; omega
      | some pk3 =>
        obtain ⟨p3, k3⟩ := pk3
        rw [h3] at h
        simp only at h
        obtain ⟨b1, b2, _⟩ := ih.m _ _ _ _ _ _ h3
        cases hr : rep env f a at_ la p3 [k3, k1] with
        | mk q acc =>
          rw [hr] at h
          simp only [Option.some.injEq, Prod.mk.injEq] at h
          obtain ⟨e1, e2⟩ := h
          subst e1; subst e2
          obtain ⟨r1, r2, r3⟩ := ih.rp _ _ _ _ _ _ _ hr
          simp only [cntChunks] at r2
          refine ⟨by rw [cntTop_flatten_reverse]; omega, by omega, ?_⟩
          intro k hk
          simp only [consumesE] at hk
          have := a3 k hk; omega
  | neg a =>
    rw [matchE.eq_9] at h
    cases h1 : matchE env f a at_ true p with
    | some pk => rw [h1] at h; cases h
    | none =>
      rw [h1] at h
      simp only [Option.some.injEq, Prod.mk.injEq] at h
      obtain ⟨e1, e2⟩ := h
      subst e1; subst e2
      refine ⟨by simp [cntTop], by omega, ?_⟩
      intro k hk; simp [consumesE] at hk
  | pos a =>
    rw [matchE.eq_10] at h
    cases h1 : matchE env f a at_ true p with
    | none => rw [h1] at h; cases h
    | some pk =>
      rw [h1] at h
      simp only [Option.some.injEq, Prod.mk.injEq] at h
      obtain ⟨e1, e2⟩ := h
      subst e1; subst e2
      refine ⟨by simp [cntTop], by omega, ?_⟩
      intro k hk; simp [consumesE] at hk

theorem pinv_rep (ih : PInv env g f) :
    ∀ a at_ la p acc p' acc', rep env (f + 1) a at_ la p acc = (p', acc') →
      p ≤ p' ∧ p + cntChunks acc' ≤ p' + cntChunks acc ∧ p' ≤ max p env.inp.size := by
  intro a at_ la p acc p' acc' h
  rw [rep.eq_2] at h
  obtain ⟨s1, s2⟩ := ih.sk at_ p
  cases h2 : matchE env f a at_ la (skip env f at_ p) with
  | none =>
    rw [h2] at h
    simp only [Prod.mk.injEq] at h
    obtain ⟨e1, e2⟩ := h
    subst e1; subst e2
    omega
  | some pk =>
    obtain ⟨p2, k2⟩ := pk
    rw [h2] at h
    simp only at h
    obtain ⟨b1, b2, _⟩ := ih.m _ _ _ _ _ _ h2
    split at h
    · simp only [Prod.mk.injEq] at h
      obtain ⟨e1, e2⟩ := h
      subst e1; subst e2
      omega
    · obtain ⟨r1, r2, r3⟩ := ih.rp _ _ _ _ _ _ _ h
      simp only [cntChunks] at r2
      omega

theorem pinv_many (ih : PInv env g f) :
    ∀ n p, p ≤ many env (f + 1) n p ∧ many env (f + 1) n p ≤ max p env.inp.size := by
  intro n p
  rw [many.eq_2]
  cases h1 : callRule env f n .nonAtomic false p with
  | none => simp only; omega
  | some pk =>
    obtain ⟨p1, k1⟩ := pk
    simp only
    obtain ⟨a1, a2, _⟩ := ih.cr _ _ _ _ _ _ h1
    split
    · omega
    · have := ih.mn n p1; omega

theorem pinv_skipC (ih : PInv env g f) :
    ∀ c p, p ≤ skipC env (f + 1) c p ∧ skipC env (f + 1) c p ≤ max p env.inp.size := by
  intro c p
  rw [skipC.eq_2]
  cases h1 : callRule env f c .nonAtomic false p with
  | none => simp only; omega
  | some pk =>
    obtain ⟨p1, k1⟩ := pk
    simp only
    obtain ⟨a1, a2, _⟩ := ih.cr _ _ _ _ _ _ h1
    cases hws : env.ws with
    | none =>
      simp only
      by_cases hp : p1 = p
      · rw [if_pos hp]; omega
      · rw [if_neg hp]; have := ih.sc c p1; omega
    | some w =>
      simp only
      have := ih.mn w p1
      by_cases hp : many env f w p1 = p
      · rw [if_pos hp]; omega
      · rw [if_neg hp]; have := ih.sc c (many env f w p1); omega

theorem pinv_skip (ih : PInv env g f) :
    ∀ at_ p, p ≤ skip env (f + 1) at_ p ∧ skip env (f + 1) at_ p ≤ max p env.inp.size := by
  intro at_ p
  rw [skip.eq_2]
  by_cases ha : (at_ != Atom.nonAtomic) = true
  · rw [if_pos ha]; omega
  · rw [if_neg ha]
    cases hws : env.ws with
    | none =>
      simp only
      cases hc : env.comment with
      | none => simp only; omega
      | some c => simp only; have := ih.sc c p; omega
    | some w =>
      simp only
      have := ih.mn w p
      cases hc : env.comment with
      | none => simp only; omega
      | some c => simp only; have := ih.sc c (many env f w p); omega

theorem pinv_callRule (hg : env.g = g.toArray) (hgood : goodGrammar g = true) (ih : PInv env g f) :
    ∀ n at_ la p p' ks, callRule env (f + 1) n at_ la p = some (p', ks) →
      p + cntTop ks ≤ p' ∧ p' ≤ max p env.inp.size ∧ ∀ k, consumesN g k n = true → p < p' := by
  intro n at_ la p p' ks h
  rw [callRule_succ] at h
  unfold callSpec at h
  -- the character classes
  have hcls : ∀ b : Bool, (b = true → p < env.inp.size) → clsF b p = some (p', ks) →
      p + cntTop ks ≤ p' ∧ p' ≤ max p env.inp.size ∧ ∀ k, consumesN g k n = true → p < p' := by
    intro b hb hc
    obtain ⟨c1, c2, c3⟩ := clsF_some hc
    subst c2; subst c3
    have := hb c1
    exact ⟨by simp [cntTop], by omega, fun _ _ => by omega⟩
  by_cases e1 : n = ANY
  · simp only [if_pos e1] at h
    split at h
    · simp only [Option.some.injEq, Prod.mk.injEq] at h
      obtain ⟨c2, c3⟩ := h
      subst c2; subst c3
      exact ⟨by simp [cntTop], by omega, fun _ _ => by omega⟩
    · cases h
  simp only [if_neg e1] at h
  by_cases e2 : n = SOI
  · simp only [if_pos e2] at h
    split at h
    · simp only [Option.some.injEq, Prod.mk.injEq] at h
      obtain ⟨c2, c3⟩ := h
      subst c2; subst c3
      refine ⟨by simp [cntTop], by omega, ?_⟩
      intro k hk
      cases k with
      | zero => simp [consumesN] at hk
      | succ k => simp [consumesN, if_neg e1, if_pos e2] at hk
    · cases h
  simp only [if_neg e2] at h
  by_cases e3 : n = EOI
  · simp only [if_pos e3] at h
    obtain ⟨ks0, hr, hks⟩ := tokF_some h
    split at hr
    · simp only [Option.some.injEq, Prod.mk.injEq] at hr
      obtain ⟨c2, c3⟩ := hr
      subst c2; subst c3
      refine ⟨?_, by omega, ?_⟩
      · rcases hks with hks | hks
        · subst hks; simp [cntTop]
        · subst hks; simp [cntTop, Pair.rule, e3]
      · intro k hk
        cases k with
        | zero => simp [consumesN] at hk
        | succ k => simp [consumesN, if_neg e1, if_pos e3] at hk
    · cases hr
  simp only [if_neg e3] at h
  by_cases e4 : n = NEWLINE
  · simp only [if_pos e4] at h
    split at h
    · rename_i hp
      have := isPrefixAt_bound _ _ _ hp (by simp)
      simp only [Option.some.injEq, Prod.mk.injEq] at h
      obtain ⟨c2, c3⟩ := h
      subst c2; subst c3
      simp only [List.length_cons, List.length_nil] at this
      exact ⟨by simp [cntTop], by omega, fun _ _ => by omega⟩
    · split at h
      · rename_i hp
        have := isPrefixAt_bound _ _ _ hp (by simp)
        simp only [Option.some.injEq, Prod.mk.injEq] at h
        obtain ⟨c2, c3⟩ := h
        subst c2; subst c3
        simp only [List.length_cons, List.length_nil] at this
        exact ⟨by simp [cntTop], by omega, fun _ _ => by omega⟩
      · split at h
        · rename_i hp
          have := isPrefixAt_bound _ _ _ hp (by simp)
          simp only [Option.some.injEq, Prod.mk.injEq] at h
          obtain ⟨c2, c3⟩ := h
          subst c2; subst c3
          simp only [List.length_cons, List.length_nil] at this
          exact ⟨by simp [cntTop], by omega, fun _ _ => by omega⟩
        · cases h
  simp only [if_neg e4] at h
  by_cases e5 : n = ASCII_DIGIT
  · simp only [if_pos e5] at h
    exact hcls _ charIn_lt h
  simp only [if_neg e5] at h
  by_cases e6 : n = ASCII_BIN_DIGIT
  · simp only [if_pos e6] at h
    exact hcls _ charIn_lt h
  simp only [if_neg e6] at h
  by_cases e7 : n = ASCII_OCT_DIGIT
  · simp only [if_pos e7] at h
    exact hcls _ charIn_lt h
  simp only [if_neg e7] at h
  by_cases e8 : n = ASCII_HEX_DIGIT
  · simp only [if_pos e8, clsF_orElse] at h
    refine hcls _ ?_ h
    intro hb
    simp only [Bool.or_eq_true] at hb
    rcases hb with (hb | hb) | hb <;> exact charIn_lt hb
  simp only [if_neg e8] at h
  by_cases e9 : n = ASCII_ALPHA
  · simp only [if_pos e9, clsF_orElse] at h
    refine hcls _ ?_ h
    intro hb
    simp only [Bool.or_eq_true] at hb
    rcases hb with hb | hb <;> exact charIn_lt hb
  simp only [if_neg e9] at h
  by_cases e10 : n = ASCII_ALPHANUMERIC
  · simp only [if_pos e10, clsF_orElse] at h
    refine hcls _ ?_ h
    intro hb
    simp only [Bool.or_eq_true] at hb
    rcases hb with (hb | hb) | hb <;> exact charIn_lt hb
  simp only [if_neg e10] at h
  -- a rule of the grammar
  cases hr : env.g[n]? with
  | none => rw [hr] at h; cases h
  | some r =>
    rw [hr] at h
    simp only at h
    have hr' : g[n]? = some r := by
      rw [hg] at hr
      simpa using hr
    have hmem : r ∈ g := List.mem_of_getElem? hr'
    have hcons : ∀ k, consumesN g k n = true → ∀ a, matchE env f r.body a la p = some (p', ks) → p < p' := by
      intro k hk a hm
      cases k with
      | zero => simp [consumesN] at hk
      | succ k =>
        simp only [consumesN, if_neg e1, if_neg e2, if_neg e3, if_neg e4, if_neg e5, if_neg e6, if_neg e7, if_neg e8,
          if_neg e9, if_neg e10, hr'] at hk
        exact (ih.m _ _ _ _ _ _ hm).2.2 k hk
    -- the two ways a rule returns
    have fin_sil : ∀ a, matchE env f r.body a la p = some (p', ks) →
        p + cntTop ks ≤ p' ∧ p' ≤ max p env.inp.size ∧ ∀ k, consumesN g k n = true → p < p' := by
      intro a hm
      obtain ⟨a1, a2, _⟩ := ih.m _ _ _ _ _ _ hm
      exact ⟨a1, a2, fun k hk => hcons k hk a hm⟩
    have fin_tok : ∀ a emit, r.ty ≠ .silent → tokF n p la emit (matchE env f r.body a la p) = some (p', ks) →
        p + cntTop ks ≤ p' ∧ p' ≤ max p env.inp.size ∧ ∀ k, consumesN g k n = true → p < p' := by
      intro a emit hty ht
      obtain ⟨ks0, hm, hks⟩ := tokF_some ht
      obtain ⟨a1, a2, a3⟩ := ih.m _ _ _ _ _ _ hm
      have hlt : p < p' := a3 _ (goodGrammar_mem hgood hmem hty)
      refine ⟨?_, a2, fun _ _ => hlt⟩
      rcases hks with hks | hks
      · subst hks; exact a1
      · subst hks
        have := cntTop_single_le n p p' ks0
        omega
    split at h
    · cases hty : r.ty <;> rw [hty] at h <;> simp only at h
      · exact fin_tok _ _ (by rw [hty]; simp) h
      · exact fin_sil _ h
      · exact fin_tok _ _ (by rw [hty]; simp) h
      · exact fin_tok _ _ (by rw [hty]; simp) h
      · exact fin_tok _ _ (by rw [hty]; simp) h
    · cases hty : r.ty <;> rw [hty] at h <;> simp only at h
      · exact fin_tok _ _ (by rw [hty]; simp) h
      · exact fin_sil _ h
      · exact fin_tok _ _ (by rw [hty]; simp) h
      · exact fin_tok _ _ (by rw [hty]; simp) h
      · exact fin_tok _ _ (by rw [hty]; simp) h

end step

theorem pinv {env : Env} {g : List Rule} (hg : env.g = g.toArray) (hgood : goodGrammar g = true) :
    ∀ f, PInv env g f
  | 0 => pinv_zero env g
  | f + 1 =>
    have ih := pinv hg hgood f
    ⟨pinv_matchE ih, pinv_rep ih, pinv_skip ih, pinv_skipC ih, pinv_many ih, pinv_callRule hg hgood ih⟩

/-- GENERIC: for a grammar whose token-emitting rules all consume input, a successful parse yields at most
`text.length` top-level pairs other than `EOI`. -/
theorem parse_cntTop_le {g : List Rule} (hgood : goodGrammar g = true) (start : Nat) (text : List Nat)
    (ks : List Pair) (h : parse g start text = some ks) : cntTop ks ≤ text.length := by
  unfold parse at h
  simp only at h
  split at h
  · rename_i p' ks' hc
    simp only [Option.some.injEq] at h
    subst h
    have := (pinv (env := ⟨g.toArray, text.toArray, findRule g [87, 72, 73, 84, 69, 83, 80, 65, 67, 69],
      findRule g [67, 79, 77, 77, 69, 78, 84]⟩) (g := g) rfl hgood _).cr _ _ _ _ _ _ hc
    obtain ⟨a1, a2, _⟩ := this
    simp only [List.size_toArray] at a2
    omega
  · cases h

/-- the grammar-specific fact, by evaluation: no token-emitting rule of asm.pest matches the empty string -/
theorem goodGrammar_asm : goodGrammar Gen.grammar = true := by decide

end Pest

namespace Asm
open Pest

theorem parseAsm_go_length (inp : Array Nat) (fuel : Nat) : ∀ (ps : List Pair) (nodes : List Node),
    parseAsm.go inp fuel ps = .ok nodes → nodes.length ≤ cntTop ps
  | [], nodes, h => by
    rw [parseAsm.go] at h
    cases h
    simp [cntTop]
  | p :: ps, nodes, h => by
    rw [parseAsm.go] at h
    split at h
    · rename_i he
      have := parseAsm_go_length inp fuel ps nodes h
      simp only [cntTop, he, if_true]
      omega
    · rename_i he
      generalize (if p.rule = Gen.R_builtin then parseBuiltin inp fuel p
        else (parseAOp inp fuel p).map .op) = one at h
      cases one with
      | error e => simp at h
      | ok n =>
        simp only at h
        cases hgo : parseAsm.go inp fuel ps with
        | error e => rw [hgo] at h; simp at h
        | ok ns =>
          rw [hgo] at h
          simp only [Except.ok.injEq] at h
          subst h
          have := parseAsm_go_length inp fuel ps ns hgo
          simp only [cntTop, he, if_false, List.length_cons]
          omega

/-- THE LINEAR BOUND: a text of `n` characters has at most `n` statements. -/
theorem parseAsm_nodes_le' (text : List Nat) (nodes : List Node) (h : parseAsm text = .ok nodes) :
    nodes.length ≤ text.length := by
  unfold parseAsm at h
  cases hp : Pest.parse Gen.grammar Gen.R_program text with
  | none => rw [hp] at h; cases h
  | some pairs =>
    rw [hp] at h
    simp only at h
    have h1 := parseAsm_go_length _ _ _ _ h
    have h2 := parse_cntTop_le goodGrammar_asm _ _ _ hp
    omega

theorem parseAsm_nodes_le (text : List Nat) (nodes : List Node) (h : parseAsm text = .ok nodes) :
    nodes.length ≤ text.length + 1 :=
  Nat.le_succ_of_le (parseAsm_nodes_le' text nodes h)

/-- file lengths bound the statement counts (tight form) -/
theorem nodesBound_of_lengths' (fs : FS) (n : Nat)
    (h : ∀ loc text, fs.readText loc = some text → text.length ≤ n) : nodesBound fs n := by
  intro loc text nodes hr hp
  exact Nat.le_trans (parseAsm_nodes_le' text nodes hp) (h loc text hr)

theorem nodesBound_of_lengths (fs : FS) (n : Nat)
    (h : ∀ loc text, fs.readText loc = some text → text.length ≤ n) : nodesBound fs (n + 1) := by
  intro loc text nodes hr hp
  exact Nat.le_succ_of_le (nodesBound_of_lengths' fs n h loc text nodes hr hp)

/-- TERMINATION of `ingestFile` from a bound on the lengths of the files alone -/
theorem ingestFile_terminates_lengths (fs : FS) (cwd : PathC) (rnd : Nat → Nat) (n : Nat)
    (hn : ∀ loc text, fs.readText loc = some text → text.length ≤ n)
    (fuel : Nat) (path : PathC) (hf : ingestFileFuel fs cwd (n + 1) path ≤ fuel)
    (e : IngErr) (h : ingestFile fs cwd rnd fuel path = .error e) : e.noPanic :=
  ingestFile_terminates fs cwd rnd (n + 1) (nodesBound_of_lengths fs n hn) fuel path hf e h

/-- the same with the tight bound `N = n` -/
theorem ingestFile_terminates_lengths' (fs : FS) (cwd : PathC) (rnd : Nat → Nat) (n : Nat)
    (hn : ∀ loc text, fs.readText loc = some text → text.length ≤ n)
    (fuel : Nat) (path : PathC) (hf : ingestFileFuel fs cwd n path ≤ fuel)
    (e : IngErr) (h : ingestFile fs cwd rnd fuel path = .error e) : e.noPanic :=
  ingestFile_terminates fs cwd rnd n (nodesBound_of_lengths' fs n hn) fuel path hf e h

end Asm
end EtkVerif

