/-
Model of `etk_asm::ingest` (`Root`, `Program`, `Ingest::{ingest_file, ingest,
preprocess, resolve_and_ingest}`) over an abstract file system, and a concrete
Unix-like file system (directories, files, symbolic links) used to predict
outcomes in the correspondence run.
-/
import EtkVerif.Asm.Parse
import EtkVerif.Asm.Assemble
namespace EtkVerif
namespace Asm

/-- A path as Rust's `Path::components` sees it. -/
structure PathC where
  abs : Bool
  comps : List String
  deriving Repr, DecidableEq, Inhabited

namespace PathC
def ofString (s : String) : PathC :=
  let parts := s.splitOn "/"
  let abs := s.startsWith "/"
  -- `components()` drops empty components and `.` (a leading `.` of a relative path is kept by Rust
  -- but is irrelevant to every operation used here)
  ⟨abs, parts.filter (fun c => c != "" && c != ".")⟩
/-- `Path::join` -/
def join (a b : PathC) : PathC := if b.abs then b else ⟨a.abs, a.comps ++ b.comps⟩
/-- `Path::parent`: `none` for the root and for the empty path -/
def parent (a : PathC) : Option PathC :=
  if a.comps.isEmpty then none else some ⟨a.abs, a.comps.dropLast⟩
def render (a : PathC) : String := (if a.abs then "/" else "") ++ "/".intercalate a.comps
end PathC

/-- What the model needs from the operating system. -/
structure FS where
  /-- `std::fs::canonicalize`: the fully resolved absolute location, `none` if it does not exist -/
  canon : PathC → Option (List String)
  /-- `read_to_string` of the file at a canonical location (`none`: not a regular UTF-8 file) -/
  readText : List String → Option (List Nat)
  /-- is the canonical location a directory -/
  isDir : List String → Bool

inductive IngErr
  | directoryTraversal
  | io (message : String)
  | parse (e : ParseErr)
  | assemble (e : AsmErr)
  | invalidHex
  | recursionLimit
  | panic (site : String)
  deriving Repr, DecidableEq

/-- One observable step of an ingestion, for the C18 trace invariant. -/
inductive Event
  | check (p : PathC) (ok : Bool)      -- `Root::check(p)` and its verdict
  | read (loc : List String)           -- a file was read at this canonical location
  deriving Repr, DecidableEq

structure Root where
  canonicalized : List String
  deriving Repr

/-- `Root::new(file)`: the directory of `file` must exist, be a directory, and resolve. -/
def Root.new (fs : FS) (cwd : PathC) (file : PathC) : Except IngErr Root :=
  match file.parent with
  | none => .error (.io "no parent")
  | some dir =>
    let dir := cwd.join dir
    match fs.canon dir with
    | none => .error (.io "getting metadata")
    | some loc =>
      if !fs.isDir loc then .error (.io "root is not directory") else .ok ⟨loc⟩

/-- `Path::starts_with`, component-wise -/
def startsWith (a root : List String) : Bool := root.isPrefixOf a

/-- `Root::check(path)` -/
def Root.check (fs : FS) (r : Root) (p : PathC) : Except IngErr (List String) :=
  match fs.canon p with
  | none => .error (.io "canonicalizing include/import")
  | some loc => if startsWith loc r.canonicalized then .ok loc else .error .directoryTraversal

structure Program where
  root : Option Root
  sources : List PathC

def hexVal? (c : Nat) : Option Nat :=
  if 48 ≤ c ∧ c ≤ 57 then some (c - 48)
  else if 97 ≤ c ∧ c ≤ 102 then some (c - 87)
  else if 65 ≤ c ∧ c ≤ 70 then some (c - 55)
  else none

/-- `hex::decode` -/
def hexDecode : List Nat → Option (List Nat)
  | [] => some []
  | [_] => none
  | a :: b :: rest =>
    match hexVal? a, hexVal? b, hexDecode rest with
    | some x, some y, some r => some ((x * 16 + y) :: r)
    | _, _, _ => none

/-- `str::trim`: Unicode white space at both ends (code points) -/
def isWsCp (c : Nat) : Bool :=
  (9 ≤ c && c ≤ 13) || c == 32 || c == 0x85 || c == 0xa0 || c == 0x1680 || (0x2000 ≤ c && c ≤ 0x200a) ||
  c == 0x2028 || c == 0x2029 || c == 0x202f || c == 0x205f || c == 0x3000
def trimCp (l : List Nat) : List Nat := ((l.dropWhile isWsCp).reverse.dropWhile isWsCp).reverse

/-- directory against which a directive of the current source resolves: `last.parent()` or `./` -/
def baseDir (p : Program) : PathC :=
  match p.sources.getLast? with
  | some last => (last.parent).getD ⟨false, []⟩
  | none => ⟨false, []⟩

mutual
/-- `Ingest::preprocess(program, src)`; returns the raw ops and the event trace -/
def preprocess (fs : FS) (cwd : PathC) : Nat → Program → List Nat → List Event → Except IngErr (List RawOp × List Event)
  | 0, _, _, _ => .error (.panic "fuel")
  | fuel + 1, prog, src, tr =>
    match parseAsm src with
    | .error e => .error (.parse e)
    | .ok nodes => nodesLoop fs cwd fuel prog nodes tr
def nodesLoop (fs : FS) (cwd : PathC) : Nat → Program → List Node → List Event → Except IngErr (List RawOp × List Event)
  | 0, _, _, _ => .error (.panic "fuel")
  | _ + 1, _, [], tr => .ok ([], tr)
  | fuel + 1, prog, n :: rest, tr =>
    let one : Except IngErr (List RawOp × List Event) := match n with
      | .op o => .ok ([.op o], tr)
      | .import_ path =>
        resolveAndIngest fs cwd fuel prog path tr
      | .include path =>
        match resolveAndIngest fs cwd fuel prog path tr with
        | .error e => .error e
        | .ok (ops, tr') => .ok ([.scope (RawOps.ofList ops)], tr')
      | .includeHex path =>
        -- `Program::resolve_path`
        let resolved := (baseDir prog).join (PathC.ofString path)
        let root : Except IngErr Root := match prog.root with
          | some r => .ok r
          | none => Root.new fs cwd (prog.sources.headD (PathC.ofString path))
        match root with
        | .error e => .error e
        | .ok r =>
          match r.check fs (cwd.join resolved) with
          | .error e => .error e
          | .ok loc =>
            let tr := tr ++ [.check (cwd.join resolved) true]
            match fs.readText loc with
            | none => .error (.io "reading hex include")
            | some text =>
              match hexDecode (trimCp text) with
              | none => .error .invalidHex
              | some bytes => .ok ([.raw bytes], tr ++ [.read loc])
    match one with
    | .error e => .error e
    | .ok (ops, tr') =>
      match nodesLoop fs cwd fuel prog rest tr' with
      | .error e => .error e
      | .ok (more, tr'') => .ok (ops ++ more, tr'')
/-- `resolve_and_ingest(program, path)` -/
def resolveAndIngest (fs : FS) (cwd : PathC) : Nat → Program → String → List Event → Except IngErr (List RawOp × List Event)
  | 0, _, _, _ => .error (.panic "fuel")
  | fuel + 1, prog, path, tr =>
    -- `Program::push_path`
    if prog.sources.length > 255 then .error .recursionLimit
    else
      let root : Except IngErr Root := match prog.root with
        | some r => .ok r
        | none => Root.new fs cwd (prog.sources.headD (PathC.ofString path))
      match root with
      | .error e => .error e
      | .ok r =>
        let candidate := (baseDir prog).join (PathC.ofString path)
        match r.check fs (cwd.join candidate) with
        | .error e => .error e
        | .ok loc =>
          let tr := tr ++ [.check (cwd.join candidate) true]
          match fs.readText loc with
          | none => .error (.io "reading file before parsing")
          | some text =>
            preprocess fs cwd fuel { root := some r, sources := prog.sources ++ [candidate] } text (tr ++ [.read loc])
end

/-- `Ingest::ingest_file(path)`: returns the bytes written to the output (only on success) and the trace -/
def ingestFile (fs : FS) (cwd : PathC) (rnd : Nat → Nat) (fuel : Nat) (path : PathC) : Except IngErr (List Nat × List Event) :=
  match fs.canon (cwd.join path) with
  | none => .error (.io "opening source")
  | some loc =>
    match fs.readText loc with
    | none => .error (if fs.isDir loc then .io "reading source" else .io "reading source")
    | some src =>
      let prog : Program := { root := (Root.new fs cwd path).toOption, sources := [path] }
      match preprocess fs cwd fuel prog src [] with
      | .error e => .error e
      | .ok (ops, tr) =>
        match assemble rnd fuel {} (RawOps.ofList ops) with
        | .error e => .error (.assemble e)
        | .ok (bytes, _) => .ok (bytes, tr)

/-! ### a concrete file system -/

inductive Entry
  | file (content : List Nat)     -- bytes
  | dir
  | link (target : String)
  deriving Repr

/-- entries by absolute component list -/
abbrev Tree := List (List String × Entry)

def Tree.get (t : Tree) (p : List String) : Option Entry :=
  if p.isEmpty then some .dir else (t.find? (·.1 == p)).map (·.2)

/-- resolve `todo` (components still to walk) from the resolved location `cur` -/
def resolve (t : Tree) : Nat → List String → List String → Option (List String)
  | 0, _, _ => none
  | _ + 1, cur, [] => some cur
  | fuel + 1, cur, c :: rest =>
    if c == ".." then resolve t fuel cur.dropLast rest
    else if c == "." || c == "" then resolve t fuel cur rest
    else
      match t.get (cur ++ [c]) with
      | none => none
      | some (.link target) =>
        let tp := PathC.ofString target
        if tp.abs then resolve t fuel [] (tp.comps ++ rest) else resolve t fuel cur (tp.comps ++ rest)
      | some .dir => resolve t fuel (cur ++ [c]) rest
      | some (.file _) => if rest.isEmpty then some (cur ++ [c]) else none

def decodeUtf8? (bytes : List Nat) : Option (List Nat) :=
  match String.fromUTF8? (ByteArray.mk (bytes.map (·.toUInt8)).toArray) with
  | some s => some (s.toList.map Char.toNat)
  | none => none

def Tree.toFS (t : Tree) : FS where
  canon := fun p => if p.abs then resolve t 200 [] p.comps else none
  readText := fun loc => match t.get loc with
    | some (.file bytes) => decodeUtf8? bytes
    | _ => none
  isDir := fun loc => match t.get loc with
    | some .dir => true
    | _ => false

end Asm
end EtkVerif
