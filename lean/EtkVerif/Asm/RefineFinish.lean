/-
Auxiliary lemmas for `Refine`: the final phase.  `finish` does not depend on the
positions stored in the label table (only on its names, in order); inversion of
`Spec.assembleItems`; item lists no extension of which the specification accepts.
-/
import EtkVerif.Asm.RefineAux
namespace EtkVerif
namespace Asm

open Spec

/-! ### `firstDuplicate`, `itemLabels`, `mentioned` -/

theorem firstDuplicate_none_iff (L : List String) : firstDuplicate L = none ↔ L.Nodup := by
  induction L with
  | nil => simp [firstDuplicate]
  | cons l rest ih =>
    simp only [firstDuplicate, List.nodup_cons]
    by_cases h : rest.contains l = true
    · rw [if_pos h]
      have := List.contains_iff_mem.1 h
      simp [this]
    · rw [if_neg h, ih]
      have : l ∉ rest := fun hm => h (List.contains_iff_mem.2 hm)
      simp [this]

theorem itemLabels_append (a b : List Item) : itemLabels (a ++ b) = itemLabels a ++ itemLabels b := by
  unfold itemLabels
  rw [List.filterMap_append]

theorem itemLabels_label (l : String) : itemLabels [Item.label l] = [l] := rfl
theorem itemLabels_op (code : Nat) (imm : Option Expr) : itemLabels [Item.op code imm] = [] := rfl
theorem itemLabels_push (e : Expr) : itemLabels [Item.push e] = [] := rfl
theorem itemLabels_raw (bs : List Nat) : itemLabels [Item.raw bs] = [] := rfl

theorem mem_itemLabels (l : String) (items : List Item) : l ∈ itemLabels items ↔ Item.label l ∈ items := by
  unfold itemLabels
  rw [List.mem_filterMap]
  constructor
  · rintro ⟨x, hx, h⟩
    cases x <;> simp at h
    subst h; exact hx
  · intro h; exact ⟨_, h, rfl⟩

theorem mentioned_append (ms : List (String × MacroDef)) (a b : List Item) :
    mentioned ms (a ++ b) =
      match mentioned ms a with
      | .error e => .error e
      | .ok x => match mentioned ms b with
        | .error e => .error e
        | .ok y => .ok (x ++ y) := by
  induction a with
  | nil =>
    simp only [List.nil_append, mentioned]
    cases mentioned ms b <;> simp
  | cons i rest ih =>
    simp only [List.cons_append, mentioned]
    cases itemExpr? i with
    | none => simp only []; exact ih
    | some e =>
      simp only []
      cases labelsOf ms evalFuel 0 e with
      | error err => cases err <;> rfl
      | ok ls =>
        simp only []
        rw [ih]
        cases mentioned ms rest with
        | error e => rfl
        | ok x =>
          simp only []
          cases mentioned ms b with
          | error e => rfl
          | ok y => simp [Except.map]

/-! ### label tables that differ only in positions -/

/-- same names in the same order, every entry defined, equal values at the names in `D` -/
def TabRel (D : String → Prop) : List (String × Option Nat) → List (String × Option Nat) → Prop
  | [], [] => True
  | p :: r1, q :: r2 => p.1 = q.1 ∧ p.2.isSome = true ∧ q.2.isSome = true ∧ (D p.1 → p.2 = q.2) ∧ TabRel D r1 r2
  | _, _ => False

theorem TabRel.mono {D D' : String → Prop} (h : ∀ x, D' x → D x) :
    ∀ {a b : List (String × Option Nat)}, TabRel D a b → TabRel D' a b
  | [], [], _ => trivial
  | _ :: _, _ :: _, ⟨h1, h2, h3, h4, h5⟩ => ⟨h1, h2, h3, fun hd => h4 (h _ hd), TabRel.mono h h5⟩
  | [], _ :: _, hr => hr.elim
  | _ :: _, [], hr => hr.elim

theorem TabRel.any_eq {D : String → Prop} (l : String) :
    ∀ {a b : List (String × Option Nat)}, TabRel D a b → a.any (·.1 == l) = b.any (·.1 == l)
  | [], [], _ => rfl
  | p :: _, q :: _, ⟨h1, _, _, _, h5⟩ => by
    simp only [List.any_cons, h1, TabRel.any_eq l h5]
  | [], _ :: _, hr => hr.elim
  | _ :: _, [], hr => hr.elim

theorem TabRel.lookup {D : String → Prop} (l : String) :
    ∀ {a b : List (String × Option Nat)}, TabRel D a b →
      (a.any (·.1 == l) = false ∧ lookupLabel a l = none ∧ lookupLabel b l = none) ∨
      (a.any (·.1 == l) = true ∧ ∃ p q, lookupLabel a l = some (some p) ∧ lookupLabel b l = some (some q))
  | [], [], _ => Or.inl ⟨rfl, rfl, rfl⟩
  | p :: r1, q :: r2, ⟨h1, h2, h3, _, h5⟩ => by
    rw [lookupLabel_cons, lookupLabel_cons, List.any_cons]
    by_cases hp : p.1 = l
    · have hq : q.1 = l := h1 ▸ hp
      rw [if_pos hp, if_pos hq]
      right
      obtain ⟨x, hx⟩ := Option.isSome_iff_exists.1 h2
      obtain ⟨y, hy⟩ := Option.isSome_iff_exists.1 h3
      exact ⟨by simp [hp], x, y, by rw [hx], by rw [hy]⟩
    · have hq : ¬ q.1 = l := h1 ▸ hp
      rw [if_neg hp, if_neg hq]
      have : (p.1 == l) = false := by simpa using hp
      rw [this, Bool.false_or]
      exact TabRel.lookup l h5
  | [], _ :: _, hr => hr.elim
  | _ :: _, [], hr => hr.elim

theorem TabRel.absent {D : String → Prop} (l : String) :
    ∀ {a b : List (String × Option Nat)}, TabRel D a b → a.any (·.1 == l) = false →
      TabRel (fun x => x = l ∨ D x) a b
  | [], [], _, _ => trivial
  | p :: _, _ :: _, ⟨h1, h2, h3, h4, h5⟩, hn => by
    simp only [List.any_cons, Bool.or_eq_false_iff, beq_eq_false_iff_ne, ne_eq] at hn
    exact ⟨h1, h2, h3, fun hd => hd.elim (fun h => absurd h hn.1) h4, TabRel.absent l h5 hn.2⟩
  | [], _ :: _, hr, _ => hr.elim
  | _ :: _, [], hr, _ => hr.elim

theorem TabRel.mapSet {D : String → Prop} (l : String) (v : Nat) :
    ∀ {a b : List (String × Option Nat)}, TabRel D a b →
      TabRel (fun x => x = l ∨ D x)
        (a.map (fun p => if p.1 == l then (l, some v) else p))
        (b.map (fun p => if p.1 == l then (l, some v) else p))
  | [], [], _ => trivial
  | p :: r1, q :: r2, ⟨h1, h2, h3, h4, h5⟩ => by
    simp only [List.map_cons]
    refine ⟨?_, ?_, ?_, ?_, TabRel.mapSet l v h5⟩
    · rw [← h1]; split <;> simp_all
    · split <;> simp_all
    · split <;> simp_all
    · rw [← h1]
      by_cases hp : p.1 = l
      · simp [hp]
      · have : (p.1 == l) = false := by simpa using hp
        simp only [this, Bool.false_eq_true, if_false]
        intro hd
        exact hd.elim (fun h => absurd h hp) h4
  | [], _ :: _, hr => hr.elim
  | _ :: _, [], hr => hr.elim

theorem setLabel_present (ls : List (String × Option Nat)) (l : String) (v : Option Nat)
    (h : ls.any (·.1 == l) = true) :
    setLabel ls l v = ls.map (fun p => if p.1 == l then (l, v) else p) := by
  unfold setLabel; rw [if_pos h]

theorem setLabel_absent (ls : List (String × Option Nat)) (l : String) (v : Option Nat)
    (h : ls.any (·.1 == l) = false) :
    setLabel ls l v = ls ++ [(l, v)] := by
  unfold setLabel; rw [h]; rfl

theorem any_of_lookupLabel_some {ls : List (String × Option Nat)} {l : String} {x : Option Nat}
    (h : lookupLabel ls l = some x) : ls.any (·.1 == l) = true := by
  cases ha : ls.any (·.1 == l) with
  | true => rfl
  | false => rw [lookupLabel_none_of_not_any ls l ha] at h; simp at h

theorem not_any_of_lookupLabel_none {ls : List (String × Option Nat)} {l : String}
    (h : lookupLabel ls l = none) : ls.any (·.1 == l) = false := by
  induction ls with
  | nil => rfl
  | cons p ls ih =>
    rw [lookupLabel_cons] at h
    by_cases hp : p.1 = l
    · rw [if_pos hp] at h; simp at h
    · rw [if_neg hp] at h
      simp only [List.any_cons, ih h, Bool.or_false, beq_eq_false_iff_ne, ne_eq]
      exact hp

theorem map_fst_mapSet (ls : List (String × Option Nat)) (l : String) (v : Option Nat) :
    (ls.map (fun p => if p.1 == l then (l, v) else p)).map Prod.fst = ls.map Prod.fst := by
  induction ls with
  | nil => rfl
  | cons p ls ih =>
    simp only [List.map_cons, ih, List.cons.injEq, and_true]
    by_cases hp : p.1 = l
    · simp [hp]
    · have : (p.1 == l) = false := by simpa using hp
      simp [this]

theorem positionsPass_names (items : List Item) (ws : List Nat) (pos : Nat) (ls : List (String × Option Nat)) :
    (positionsPass items ws pos ls).1.map Prod.fst = ls.map Prod.fst := by
  induction items generalizing ws pos ls with
  | nil => rfl
  | cons x rest ih =>
    cases x with
    | label l =>
      simp only [positionsPass]
      rw [ih]
      split
      · next p hp => rw [setLabel_present _ _ _ (any_of_lookupLabel_some hp), map_fst_mapSet]
      · rfl
    | op code imm => simp only [positionsPass]; exact ih ..
    | raw bytes => simp only [positionsPass]; exact ih ..
    | push e => simp only [positionsPass]; exact ih ..

theorem positionsPass_rel (items : List Item) :
    ∀ (D : String → Prop) (ws : List Nat) (pos : Nat) (a b : List (String × Option Nat)), TabRel D a b →
      TabRel (fun x => D x ∨ x ∈ itemLabels items) (positionsPass items ws pos a).1 (positionsPass items ws pos b).1 := by
  induction items with
  | nil => intro D ws pos a b h; exact TabRel.mono (fun x hx => hx.elim id (by simp [itemLabels])) h
  | cons x rest ih =>
    intro D ws pos a b h
    have hcons : itemLabels (x :: rest) = itemLabels [x] ++ itemLabels rest := itemLabels_append [x] rest
    cases x with
    | label l =>
      simp only [positionsPass]
      have hmono : ∀ y, (D y ∨ y ∈ itemLabels (Item.label l :: rest)) → ((y = l ∨ D y) ∨ y ∈ itemLabels rest) := by
        intro y hy
        rw [hcons, itemLabels_label, List.mem_append, List.mem_singleton] at hy
        rcases hy with hy | hy | hy
        · exact Or.inl (Or.inr hy)
        · exact Or.inl (Or.inl hy)
        · exact Or.inr hy
      rcases TabRel.lookup l h with ⟨hn, ha, hb⟩ | ⟨hy, p, q, ha, hb⟩
      · rw [ha, hb]
        exact TabRel.mono hmono (ih _ ws pos a b (TabRel.absent l h hn))
      · rw [ha, hb]
        simp only []
        rw [setLabel_present _ _ _ hy, setLabel_present _ _ _ (TabRel.any_eq l h ▸ hy)]
        exact TabRel.mono hmono (ih _ ws pos _ _ (TabRel.mapSet l pos h))
    | op code imm =>
      simp only [positionsPass]
      refine TabRel.mono ?_ (ih D ws _ a b h)
      intro y hy; rw [hcons, itemLabels_op, List.nil_append] at hy; exact hy
    | raw bytes =>
      simp only [positionsPass]
      refine TabRel.mono ?_ (ih D ws _ a b h)
      intro y hy; rw [hcons, itemLabels_raw, List.nil_append] at hy; exact hy
    | push e =>
      simp only [positionsPass]
      refine TabRel.mono ?_ (ih D _ _ a b h)
      intro y hy; rw [hcons, itemLabels_push, List.nil_append] at hy; exact hy

theorem TabRel.eq_of_all {D : String → Prop} :
    ∀ {a b : List (String × Option Nat)}, TabRel D a b → (∀ p ∈ a, D p.1) → a = b
  | [], [], _, _ => rfl
  | p :: r1, q :: r2, ⟨h1, _, _, h4, h5⟩, hall => by
    have hp := h4 (hall p (List.mem_cons_self ..))
    have : p = q := Prod.ext h1 hp
    rw [this, TabRel.eq_of_all h5 (fun x hx => hall x (List.mem_cons_of_mem _ hx))]
  | [], _ :: _, hr, _ => hr.elim
  | _ :: _, [], hr, _ => hr.elim

theorem TabRel.init : ∀ (a : List (String × Option Nat)), (∀ p ∈ a, p.2.isSome = true) →
    TabRel (fun _ => False) a ((a.map Prod.fst).map (fun l => (l, some 0)))
  | [], _ => trivial
  | p :: r, h =>
    ⟨rfl, h p (List.mem_cons_self ..), rfl, fun hf => hf.elim,
      TabRel.init r (fun x hx => h x (List.mem_cons_of_mem _ hx))⟩

/-- the positions pass forgets the positions the table held before -/
theorem positionsPass_congr (items : List Item) (ws : List Nat) (a : List (String × Option Nat))
    (hn : a.map Prod.fst = itemLabels items) (hs : ∀ p ∈ a, p.2.isSome = true) :
    (positionsPass items ws 0 a).1 =
      (positionsPass items ws 0 ((itemLabels items).map (fun l => (l, some 0)))).1 := by
  have h0 := TabRel.init a hs
  rw [hn] at h0
  have h1 := positionsPass_rel items _ ws 0 _ _ h0
  apply TabRel.eq_of_all h1
  intro p hp
  right
  have : p.1 ∈ (positionsPass items ws 0 a).1.map Prod.fst := List.mem_map.2 ⟨p, hp, rfl⟩
  rw [positionsPass_names, hn] at this
  exact this

theorem layoutLoop_congr (ready : List Item) (macros : List (String × MacroDef))
    (s1 s2 : St) (hr1 : s1.ready = ready) (hr2 : s2.ready = ready)
    (hm1 : s1.macros = macros) (hm2 : s2.macros = macros)
    (hpp : ∀ ws, (positionsPass ready ws 0 s1.labels).1 = (positionsPass ready ws 0 s2.labels).1) :
    ∀ fuel ws, layoutLoop s1 fuel ws = layoutLoop s2 fuel ws := by
  intro fuel
  induction fuel with
  | zero => intro ws; simp only [layoutLoop, hr1, hr2, hpp]
  | succ fuel ih =>
    intro ws
    rw [layoutLoop_succ, layoutLoop_succ]
    simp only [St.ctx, hr1, hr2, hm1, hm2, hpp, ih]

theorem finish_congr (s1 s2 : St) (hr : s1.ready = s2.ready) (hm : s1.macros = s2.macros)
    (hu : s1.undeclared = s2.undeclared)
    (hpp : ∀ ws, (positionsPass s2.ready ws 0 s1.labels).1 = (positionsPass s2.ready ws 0 s2.labels).1) :
    finish s1 = finish s2 := by
  unfold finish
  rw [hu]
  split
  · rfl
  · simp only [hr]
    rw [layoutLoop_congr s2.ready s2.macros s1 s2 hr rfl hm rfl hpp]
    simp only [St.ctx, hm]

/-! ### inversion of `finish` and `assembleItems` -/

theorem finish_ok_inv {s : St} {bytes : List Nat} (h : finish s = .ok bytes) :
    s.undeclared = [] ∧ ∃ ls ws, emit ⟨ls, s.macros, none, 0⟩ s.ready ws = .ok bytes := by
  unfold finish at h
  split at h
  · simp at h
  · next hu =>
    refine ⟨?_, _, _, h⟩
    cases hx : s.undeclared with
    | nil => rfl
    | cons a b => rw [hx] at hu; simp at hu

theorem finish_undeclared {s : St} (h : s.undeclared ≠ []) (bytes : List Nat) : finish s ≠ .ok bytes := by
  intro hf
  exact h (finish_ok_inv hf).1

theorem assembleItems_ok_inv {ms : List (String × MacroDef)} {items : List Item} {bytes : List Nat}
    (h : assembleItems ms items = .ok bytes) :
    (itemLabels items).Nodup ∧ ∃ used, mentioned ms items = .ok used ∧ (∀ l ∈ used, l ∈ itemLabels items) ∧
      finish { ready := items, labels := (itemLabels items).map (fun l => (l, some 0)), macros := ms } = .ok bytes := by
  unfold assembleItems at h
  cases hd : firstDuplicate (itemLabels items) with
  | some l => rw [hd] at h; simp at h
  | none =>
    rw [hd] at h
    simp only [] at h
    refine ⟨(firstDuplicate_none_iff _).1 hd, ?_⟩
    cases hm : mentioned ms items with
    | error e => rw [hm] at h; simp at h
    | ok used =>
      rw [hm] at h
      simp only [] at h
      split at h
      · simp at h
      · next hmiss =>
        refine ⟨used, rfl, ?_, h⟩
        intro l hl
        apply Classical.byContradiction
        intro hnot
        apply hmiss
        have : l ∈ used.filter (fun l => !(itemLabels items).contains l) := by
          rw [List.mem_filter]
          refine ⟨hl, ?_⟩
          simp [hnot]
        cases hf : used.filter (fun l => !(itemLabels items).contains l) with
        | nil => rw [hf] at this; simp at this
        | cons a b => rfl

theorem assembleItems_of {ms : List (String × MacroDef)} {items : List Item}
    (hnd : (itemLabels items).Nodup) {used : List String} (hm : mentioned ms items = .ok used)
    (hall : ∀ l ∈ used, l ∈ itemLabels items) :
    assembleItems ms items =
      finish { ready := items, labels := (itemLabels items).map (fun l => (l, some 0)), macros := ms } := by
  unfold assembleItems
  rw [(firstDuplicate_none_iff _).2 hnd]
  simp only [hm]
  have : used.filter (fun l => !(itemLabels items).contains l) = [] := by
    rw [List.filter_eq_nil_iff]
    intro l hl
    simp [hall l hl]
  rw [this]
  rfl

/-! ### doomed prefixes -/

/-- the specification accepts no extension of `pre` -/
def Doomed (ms : List (String × MacroDef)) (pre : List Item) : Prop :=
  ∀ post bytes, assembleItems ms (pre ++ post) ≠ .ok bytes

theorem Doomed.append {ms : List (String × MacroDef)} {pre : List Item} (h : Doomed ms pre) (x : List Item) :
    Doomed ms (pre ++ x) := by
  intro post bytes
  rw [List.append_assoc]
  exact h _ _

theorem doomed_of_dup {ms : List (String × MacroDef)} {pre : List Item} {l : String}
    (h : l ∈ itemLabels pre) : Doomed ms (pre ++ [Item.label l]) := by
  intro post bytes hok
  have hnd := (assembleItems_ok_inv hok).1
  rw [itemLabels_append, itemLabels_append, itemLabels_label, List.append_assoc, List.nodup_append] at hnd
  exact hnd.2.2 l h l (by simp) rfl

theorem doomed_of_mentioned {ms : List (String × MacroDef)} {pre : List Item} {e : AsmErr}
    (h : mentioned ms pre = .error e) : Doomed ms pre := by
  intro post bytes hok
  obtain ⟨_, used, hm, _⟩ := assembleItems_ok_inv hok
  rw [mentioned_append, h] at hm
  simp at hm

theorem doomed_of_emitItem {ms : List (String × MacroDef)} {pre : List Item} {item : Item}
    (h : ∀ ls ws bs, emitItem ⟨ls, ms, none, 0⟩ item ws ≠ .ok bs) : Doomed ms (pre ++ [item]) := by
  intro post bytes hok
  obtain ⟨_, used, _, _, hf⟩ := assembleItems_ok_inv hok
  obtain ⟨_, ls, ws, hem⟩ := finish_ok_inv hf
  simp only [List.append_assoc, List.singleton_append] at hem
  obtain ⟨_, bs, _, _, hx, _⟩ := emit_split hem
  exact h _ _ _ hx

end Asm
end EtkVerif
