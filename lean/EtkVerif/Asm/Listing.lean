/-
The disassembly listing (what `etk-dasm` prints per instruction: `mnemonic` or
`mnemonic 0x<immediate hex>`, one per line) as a function of the decoded
instructions, the pair tree the pest interpreter is expected to produce for it,
and the nodes `parse_asm` is expected to build from that tree.  The driver
command `lst` renders its text with `listing`, so the correspondence run ties
these definitions to the real `Disassembler` / `Display` / `Ingest`.
-/
import EtkVerif.Asm.Parse
import EtkVerif.Disasm.Model
import EtkVerif.Ops.Lemmas
namespace EtkVerif
namespace Asm
namespace Listing
open Pest

def hexDigit (n : Nat) : Nat := if n < 10 then 48 + n else 87 + n

/-- lower-case hex of a byte list, two digits per byte -/
def hexOf : List Nat → List Nat
  | [] => []
  | b :: bs => hexDigit (b / 16) :: hexDigit (b % 16) :: hexOf bs

def mnemOf (i : Disasm.Instr) : List Nat := (Ops.rowOf Gen.cancun i.op).mnem

/-- one line: `mnemonic`, then ` 0x<hex>` when there is an immediate, then a newline -/
def line (i : Disasm.Instr) : List Nat :=
  mnemOf i ++ (if i.imm.isEmpty then [] else [32, 48, 120] ++ hexOf i.imm) ++ [10]

def listing (is : List Disasm.Instr) : List Nat := is.flatMap line

/-- an instruction the disassembler can yield for defined Cancun opcodes: the
byte has a defined row, the immediate has the row's length, bytes are bytes -/
def Valid (i : Disasm.Instr) : Prop :=
  i.op < 256 ∧ Ops.isUndefRow (Ops.rowOf Gen.cancun i.op) = false ∧
  i.imm.length = (Ops.rowOf Gen.cancun i.op).extra ∧ ∀ b ∈ i.imm, b < 256

/-- the token pair of the statement that starts at position `p` -/
def pairOf (p : Nat) (i : Disasm.Instr) : Pair :=
  let m := (mnemOf i).length
  if i.imm.isEmpty then .mk Gen.R_op p (p + m) []
  else
    let e := p + m + 3 + 2 * i.imm.length
    .mk Gen.R_push p e
      [.mk Gen.R_word_size (p + 4) (p + m) [],
       .mk Gen.R_expression (p + m + 1) e [.mk Gen.R_hex (p + m + 1) e []]]

/-- the pairs of a whole listing that starts at position `p`, then `EOI` -/
def pairsFrom : Nat → List Disasm.Instr → List Pair
  | p, [] => [.mk Pest.EOI p p []]
  | p, i :: is => pairOf p i :: pairsFrom (p + (line i).length) is

def beNat (bs : List Nat) : Nat := bs.foldl (fun acc b => acc * 256 + b) 0

/-- the node `parse_asm` builds for one instruction -/
def nodeOf (i : Disasm.Instr) : Node :=
  .op (.op i.op (if i.imm.isEmpty then none else some (.num (Int.ofNat (beNat i.imm)))))

end Listing
end Asm
end EtkVerif
