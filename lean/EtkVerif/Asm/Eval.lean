/-
Model of `etk-asm/src/ops/expression.rs`: `eval_with_context`, `labels`,
`replace_label`, `fill_variables` (simultaneous substitution).
-/
import EtkVerif.Asm.Ast
namespace EtkVerif
namespace Asm

/-- `MacroDefinition` as stored in `declared_macros`. -/
inductive MacroDef
  | instr (params : List String) (body : List AOp)
  | expr (params : List String) (body : Expr)

/-- `expression::Error`. -/
inductive EvErr
  | unknownLabel (l : String)
  | unknownMacro (n : String)
  | undefinedVariable (n : String)
  | divisionByZero
  | recursionLimit (n : String)
  deriving Repr, DecidableEq

/-- `Context`: labels (declared: `some none`, defined: `some (some pos)`), macros,
variable bindings (`none` outside any expression macro), macro nesting depth. -/
structure Ctx where
  labels : List (String × Option Nat)
  macros : List (String × MacroDef)
  vars : Option (List (String × Int))
  depth : Nat

def lookupLabel (ls : List (String × Option Nat)) (l : String) : Option (Option Nat) :=
  (ls.find? (·.1 == l)).map (·.2)

def lookupMacro (ms : List (String × MacroDef)) (n : String) : Option MacroDef :=
  (ms.find? (·.1 == n)).map (·.2)

/-- `HashMap` built by successive inserts: the last binding of a name wins. -/
def lookupVar (vs : List (String × Int)) (v : String) : Option Int :=
  (vs.reverse.find? (·.1 == v)).map (·.2)

def maxMacroDepth : Nat := 255

/-- The name the evaluator model puts in `recursionLimit` when it runs out of its OWN fuel (not the assembler's macro
depth limit): a NUL character followed by `fuel`. It is not a name the assembler's grammar can produce (macro names are
made of letters, digits and `_`), so it cannot collide with a user macro — a user macro may well be called `fuel`. -/
def evalFuelMark : String := "\x00fuel"

mutual
/-- `Expression::eval_with_context`, with fuel for the jump into macro bodies. -/
def eval : Nat → Ctx → Expr → Except EvErr Int
  | 0, _, _ => .error (.recursionLimit evalFuelMark)
  | fuel + 1, ctx, e =>
    match e with
    | .paren e => eval fuel ctx e
    | .num n => .ok n
    | .label l =>
      match lookupLabel ctx.labels l with
      | some (some pos) => .ok (Int.ofNat pos)
      | _ => .error (.unknownLabel l)
    | .var v =>
      match ctx.vars with
      | none => .error (.undefinedVariable v)
      | some vs => match lookupVar vs v with
        | some x => .ok x
        | none => .error (.undefinedVariable v)
    | .plus a b => match eval fuel ctx a with
      | .error e => .error e
      | .ok x => match eval fuel ctx b with
        | .error e => .error e
        | .ok y => .ok (x + y)
    | .minus a b => match eval fuel ctx a with
      | .error e => .error e
      | .ok x => match eval fuel ctx b with
        | .error e => .error e
        | .ok y => .ok (x - y)
    | .times a b => match eval fuel ctx a with
      | .error e => .error e
      | .ok x => match eval fuel ctx b with
        | .error e => .error e
        | .ok y => .ok (x * y)
    | .divide a b => match eval fuel ctx a with
      | .error e => .error e
      | .ok x => match eval fuel ctx b with
        | .error e => .error e
        | .ok y => if y = 0 then .error .divisionByZero else .ok (Int.tdiv x y)
    | .macro name args =>
      match lookupMacro ctx.macros name with
      | some (.expr params body) =>
        -- arguments are evaluated at the call site, in order, as far as there are parameters
        match evalArgs fuel ctx params args with
        | .error e => .error e
        | .ok vars =>
          if ctx.depth ≥ maxMacroDepth then .error (.recursionLimit name)
          else eval fuel { ctx with vars := some vars, depth := ctx.depth + 1 } body
      | _ => .error (.unknownMacro name)
/-- `zip(parameters, arguments)`, arguments evaluated in order; surplus arguments are ignored, a parameter left without
argument is an error naming it (`fix:` 841db2a, D28: before, the bindings were those of the shorter list) -/
def evalArgs : Nat → Ctx → List String → Exprs → Except EvErr (List (String × Int))
  | 0, _, _, _ => .error (.recursionLimit evalFuelMark)
  | _ + 1, _, [], _ => .ok []
  | _ + 1, _, p :: _, .nil => .error (.undefinedVariable p)
  | fuel + 1, ctx, p :: ps, .cons a as =>
    match eval fuel ctx a with
    | .error e => .error e
    | .ok v => match evalArgs fuel ctx ps as with
      | .error e => .error e
      | .ok rest => .ok ((p, v) :: rest)
end

mutual
/-- `Expression::labels`: every label mentioned, following expression macros into
their bodies (and their arguments). -/
def labelsOf (ms : List (String × MacroDef)) : Nat → Nat → Expr → Except EvErr (List String)
  | 0, _, _ => .error (.recursionLimit evalFuelMark)
  | fuel + 1, depth, e =>
    match e with
    | .paren e => labelsOf ms fuel depth e
    | .label l => .ok [l]
    | .num _ => .ok []
    | .var _ => .ok []
    | .plus a b | .minus a b | .times a b | .divide a b =>
      match labelsOf ms fuel depth a with
      | .error e => .error e
      | .ok x => match labelsOf ms fuel depth b with
        | .error e => .error e
        | .ok y => .ok (x ++ y)
    | .macro name args =>
      match lookupMacro ms name with
      | some (.expr _ body) =>
        if depth ≥ maxMacroDepth then .error (.recursionLimit name)
        else match labelsOf ms fuel (depth + 1) body with
          | .error e => .error e
          | .ok x => match labelsOfArgs ms fuel depth args with
            | .error e => .error e
            | .ok y => .ok (x ++ y)
      | _ => .error (.unknownMacro name)
def labelsOfArgs (ms : List (String × MacroDef)) : Nat → Nat → Exprs → Except EvErr (List String)
  | 0, _, _ => .error (.recursionLimit evalFuelMark)
  | _ + 1, _, .nil => .ok []
  | fuel + 1, depth, .cons a as =>
    match labelsOf ms fuel depth a with
    | .error e => .error e
    | .ok x => match labelsOfArgs ms fuel depth as with
      | .error e => .error e
      | .ok y => .ok (x ++ y)
end

mutual
/-- `Expression::replace_label(old, new)` -/
def replaceLabel (old new : String) : Expr → Expr
  | .paren e => .paren (replaceLabel old new e)
  | .label l => if l = old then .label new else .label l
  | .num n => .num n
  | .var v => .var v
  | .plus a b => .plus (replaceLabel old new a) (replaceLabel old new b)
  | .minus a b => .minus (replaceLabel old new a) (replaceLabel old new b)
  | .times a b => .times (replaceLabel old new a) (replaceLabel old new b)
  | .divide a b => .divide (replaceLabel old new a) (replaceLabel old new b)
  | .macro n args => .macro n (replaceLabelArgs old new args)
def replaceLabelArgs (old new : String) : Exprs → Exprs
  | .nil => .nil
  | .cons a as => .cons (replaceLabel old new a) (replaceLabelArgs old new as)
end

/-- `HashMap<String, Expression>` from `zip(params, args)`: last binding wins. -/
def lookupBinding (bs : List (String × Expr)) (v : String) : Option Expr :=
  (bs.reverse.find? (·.1 == v)).map (·.2)

mutual
/-- `Expression::fill_variables`: simultaneous substitution. -/
def fillVars (bs : List (String × Expr)) : Expr → Expr
  | .paren e => .paren (fillVars bs e)
  | .var v => match lookupBinding bs v with
    | some e => e
    | none => .var v
  | .label l => .label l
  | .num n => .num n
  | .plus a b => .plus (fillVars bs a) (fillVars bs b)
  | .minus a b => .minus (fillVars bs a) (fillVars bs b)
  | .times a b => .times (fillVars bs a) (fillVars bs b)
  | .divide a b => .divide (fillVars bs a) (fillVars bs b)
  | .macro n args => .macro n (fillVarsArgs bs args)
def fillVarsArgs (bs : List (String × Expr)) : Exprs → Exprs
  | .nil => .nil
  | .cons a as => .cons (fillVars bs a) (fillVarsArgs bs as)
end

end Asm
end EtkVerif
