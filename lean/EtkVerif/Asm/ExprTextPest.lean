/-
The text of an operand expression, through the full pest interpreter over the
regenerated grammar and the walk of `parse_asm`, yields the expression the
precedence climber builds from its terms.
-/
import EtkVerif.Asm.ExprText
import EtkVerif.Asm.ExprTextWalk
import EtkVerif.Asm.LayoutStmt
namespace EtkVerif
namespace Asm
namespace ExprText
open Pest Listing
open Layout (Suf)

variable {text : List Nat}

/-! ### kernel-checked windows for the top level -/

theorem top_win :
    (resFail (matchK (ekOf [single 37] false) 30 (.ref 40) .nonAtomic false 0) &&
     resIs (matchK (ekOf [single 37] false) 30 (.star (.ref 1003)) .nonAtomic false 0) 0 [] &&
     resIs (matchK (ekOf [single 10] true) 30 Layout.sepE .nonAtomic false 0) 1 []) = true := by
  decide +kernel

theorem ev23_fail {p c : Nat} {s : List Nat} (hs : Suf text p (c :: s)) (hc : c ≠ 34) :
    Ev (envOf text) 5 (.ref 23) .nonAtomic false p none := by
  have : List.isPrefixOf [34] (c :: s) = false := by
    have : (34 : Nat) ≠ c := fun h => hc h.symm
    simp [List.isPrefixOf, this]
  exact evr (gr23 text) (by omega) (Ev.seq_fail1 (Ev.seq_fail1 (ev_str_fail hs this) (d := 1)) (d := 2))

def argsList : PE := .seq (.star (.seq (.ref 22) (.str [44]))) (.opt (.ref 22))
def argsBody : PE := .seq (.seq (.str [40]) (.opt (.ref 21))) (.str [41])

theorem gr21' (text : List Nat) : (envOf text).g[21]? =
    some ⟨21, [97, 114, 103, 117, 109, 101, 110, 116, 115, 95, 108, 105, 115, 116], .silent, argsList⟩ := rfl
theorem gr20' (text : List Nat) : (envOf text).g[20]? =
    some ⟨20, [97, 114, 103, 117, 109, 101, 110, 116, 115], .silent, argsBody⟩ := rfl

/-- the normalised text of `pushText` -/
def pushText' (l : List Nat) (s : TSeq) (r : List Nat) : List Nat :=
  37 :: 112 :: 117 :: 115 :: 104 :: 40 :: (l ++ (s.render ++ (r ++ [41, 10])))

theorem pushText_eq (l : List Nat) (s : TSeq) (r : List Nat) : pushText l s r = pushText' l s r := by
  simp [pushText, pushText']

theorem rule_mk (r s e : Nat) (k : List Pair) : (Pair.mk r s e k).rule = r := rfl
theorem kids_mk (r s e : Nat) (k : List Pair) : (Pair.mk r s e k).kids = k := rfl

theorem seqPair_rule (p : Nat) (s : TSeq) (tb : Nat) : (seqPair p s tb).rule = 41 := by
  cases s; simp only [seqPair, Pair.rule]

theorem pest_push (l r : List Nat) (s : TSeq) (hl : IsBlanks l) (hr : IsBlanks r) (hwf : s.WF) :
    Pest.parse Gen.grammar Gen.R_program (pushText' l s r) =
      some [.mk 15 0 (6 + l.length + s.render.length + r.length + 1)
              [.mk 19 1 (6 + l.length + s.render.length + r.length + 1) [seqPair (6 + l.length) s r.length]],
            .mk EOI (pushText' l s r).length (pushText' l s r).length []] := by
  generalize htext : pushText' l s r = text
  have hs0 : Suf text 0 (37 :: 112 :: 117 :: 115 :: 104 :: 40 :: (l ++ (s.render ++ (r ++ [41, 10])))) := by
    rw [← htext]; exact Suf.zero _
  have hs1 : Suf text 1 (112 :: 117 :: 115 :: 104 :: 40 :: (l ++ (s.render ++ (r ++ [41, 10])))) := by
    rw [← htext]; exact ⟨[37], rfl, rfl⟩
  have hs5 : Suf text 5 (40 :: (l ++ (s.render ++ (r ++ [41, 10])))) := by
    rw [← htext]; exact ⟨[37, 112, 117, 115, 104], rfl, rfl⟩
  have hs6 : Suf text 6 (l ++ (s.render ++ (r ++ [41, 10]))) := by
    rw [← htext]; exact ⟨[37, 112, 117, 115, 104, 40], rfl, rfl⟩
  have hsP : Suf text (6 + l.length) (s.render ++ (r ++ [41, 10])) := hs6.app
  have hsR : Suf text (6 + l.length + s.render.length) (r ++ [41, 10]) := hsP.app
  have hsQ : Suf text (6 + l.length + s.render.length + r.length) (41 :: [10]) := hsR.app
  have hsQ1 : Suf text (6 + l.length + s.render.length + r.length + 1) [10] := hsQ.tail
  have hsN : Suf text (6 + l.length + s.render.length + r.length + 1 + 1) [] := hsQ1.tail
  have hN : 6 + l.length + s.render.length + r.length + 1 + 1 = text.length := by simpa using hsN.len
  obtain ⟨c, sr, hsr, hc⟩ := seq_start s hwf
  have hsP' : Suf text (6 + l.length) (c :: (sr ++ (r ++ [41, 10]))) := by rw [hsr] at hsP; exact hsP
  -- the expression
  obtain ⟨hS, hskS⟩ := seqS s (6 + l.length) r (41 :: [10]) hwf (gapG_blanks hr (by simp [NonBlank])) (closeC_paren [10]) hsP
  generalize seqEnd (6 + l.length) s r.length = e at hS hskS
  generalize hQ : 6 + l.length + s.render.length + r.length = Q at *
  generalize hA : seqPair (6 + l.length) s r.length = A at *
  have hS' : Ev (envOf text) (10 * text.length + 204) (.ref 41) .nonAtomic false (6 + l.length) (some (e, [A])) :=
    hS.mono (by omega)
  -- argument
  have harg : Ev (envOf text) (10 * text.length + 207) (.ref 22) .nonAtomic false (6 + l.length) (some (e, [A])) :=
    evr (gr22 text) (by omega) (Ev.alt_r (ev23_fail hsP' (startC_ne34 hc)) hS' (d := 10 * text.length + 204))
      (d := 10 * text.length + 205)
  -- arguments_list
  have h44 : Ev (envOf text) 1 (.str [44]) .nonAtomic false Q none :=
    ev_str_fail hsQ (by simp [List.isPrefixOf])
  have hskS' : Sk (envOf text) (text.length + 100) .nonAtomic e Q := hskS.mono (by omega)
  have hstar : Ev (envOf text) (10 * text.length + 209) (.star (.seq (.ref 22) (.str [44]))) .nonAtomic false
      (6 + l.length) (some (6 + l.length, [])) :=
    Ev.star0 (Ev.seq_fail2 harg hskS' h44 (d := 10 * text.length + 207)) (d := 10 * text.length + 208)
  have hskP : Sk (envOf text) 30 .nonAtomic (6 + l.length) (6 + l.length) := skip_none hsP' (startC_nonBlank hc)
  have hlist : Ev (envOf text) (10 * text.length + 212) (.ref 21) .nonAtomic false (6 + l.length) (some (e, [A])) :=
    evr (gr21' text) (by omega)
      (Ev.seq hstar hskP (Ev.opt_some harg (d := 10 * text.length + 207)) (d := 10 * text.length + 209))
      (d := 10 * text.length + 210)
  -- arguments
  have h40 : Ev (envOf text) 1 (.str [40]) .nonAtomic false 5 (some (5 + 1, [])) :=
    ev_str_ok (pat := [40]) (s := l ++ (s.render ++ (r ++ [41, 10]))) hs5
  have hskl : Sk (envOf text) (l.length + 30) .nonAtomic (5 + 1) (6 + l.length) :=
    skip_blanks l hl (by rw [hsr] at hs6; exact hs6 : Suf text 6 (l ++ c :: (sr ++ (r ++ [41, 10]))))
      (startC_nonBlank hc)
  have h41 : Ev (envOf text) 1 (.str [41]) .nonAtomic false Q (some (Q + 1, [])) :=
    ev_str_ok (pat := [41]) (s := [10]) hsQ
  have hargs : Ev (envOf text) (10 * text.length + 217) (.ref 20) .nonAtomic false 5 (some (Q + 1, [A])) :=
    evr (gr20' text) (by omega)
      (Ev.seq (Ev.seq h40 hskl (Ev.opt_some hlist (d := 10 * text.length + 212)) (d := 10 * text.length + 213))
        hskS' h41 (d := 10 * text.length + 214)) (d := 10 * text.length + 215)
  -- push_macro
  have hpush : Ev (envOf text) 1 (.str [112, 117, 115, 104]) .nonAtomic false 1 (some (1 + 4, [])) :=
    ev_str_ok (pat := [112, 117, 115, 104]) (s := 40 :: (l ++ (s.render ++ (r ++ [41, 10])))) hs1
  have hsk5 : Sk (envOf text) 30 .nonAtomic (1 + 4) 5 := skip_none hs5 (by simp [NonBlank])
  have h19 : Ev (envOf text) (10 * text.length + 220) (.ref 19) .compound false 1
      (some (Q + 1, [.mk 19 1 (Q + 1) [A]])) :=
    evr (gr19 text) (by omega) (Ev.seq hpush hsk5 hargs (d := 10 * text.length + 217)) (d := 10 * text.length + 218)
  -- builtin
  have h37 : Ev (envOf text) 1 (.str [37]) .compound false 0 (some (0 + 1, [])) :=
    ev_str_ok (pat := [37]) (s := 112 :: 117 :: 115 :: 104 :: 40 :: (l ++ (s.render ++ (r ++ [41, 10])))) hs0
  have f16 : Ev (envOf text) 4 (.ref 16) .compound false 1 none :=
    evr (gr16 text) (by omega) (Ev.seq_fail1 (ev_str_fail hs1 (by simp [List.isPrefixOf])) (d := 1))
  have f17 : Ev (envOf text) 4 (.ref 17) .compound false 1 none :=
    evr (gr17 text) (by omega) (Ev.seq_fail1 (ev_str_fail hs1 (by simp [List.isPrefixOf])) (d := 1))
  have f18 : Ev (envOf text) 4 (.ref 18) .compound false 1 none :=
    evr (gr18 text) (by omega) (Ev.seq_fail1 (ev_str_fail hs1 (by simp [List.isPrefixOf])) (d := 1))
  have h15 : Ev (envOf text) (10 * text.length + 225) (.ref 15) .nonAtomic false 0
      (some (Q + 1, [.mk 15 0 (Q + 1) [.mk 19 1 (Q + 1) [A]]])) :=
    (evr (gr15 text) (by omega)
      (Ev.seq h37 (sk_comp _) (Ev.alt_r (Ev.alt_r (Ev.alt_r f16 f17 (d := 4)) f18 (d := 5)) h19
        (d := 10 * text.length + 220)) (d := 10 * text.length + 221)) (d := 10 * text.length + 222) (at_ := .nonAtomic)).mono (by omega)
  -- stmt
  have hw := top_win
  simp only [Bool.and_eq_true] at hw
  have hA0 := hs0.agree (s1 := [37]) (cs := [single 37]) (closed := false) ⟨single_mem 37, trivial⟩
    (fun h => by cases h)
  have f40 : Ev (envOf text) 30 (.ref 40) .nonAtomic false 0 none := by
    simpa using Ev.of_window hA0 (resFail_eq hw.1.1)
  have hnl0 : Ev (envOf text) 30 (.star (.ref 1003)) .nonAtomic false 0 (some (0, [])) := by
    simpa using Ev.of_window hA0 (resIs_eq hw.1.2)
  have hstmt : Ev (envOf text) (10 * text.length + 231) (.ref 2) .nonAtomic false 0
      (some (Q + 1, [.mk 15 0 (Q + 1) [.mk 19 1 (Q + 1) [A]]])) :=
    Layout.ev_stmt (Ev.alt_l (Ev.alt_l (Ev.alt_l (Ev.alt_r f40 h15 (d := 10 * text.length + 225))
      (d := 10 * text.length + 226)) (d := 10 * text.length + 227)) (d := 10 * text.length + 228))
      (d := 10 * text.length + 229)
  -- the line
  have hskQ1 : Sk (envOf text) 30 .nonAtomic (Q + 1) (Q + 1) := skip_none hsQ1 (by simp [NonBlank])
  have hsep : Ev (envOf text) 30 Layout.sepE .nonAtomic false (Q + 1) (some (Q + 1 + 1, [])) := by
    have hA := hsQ1.agree (s1 := [10]) (s2 := []) (cs := [single 10]) (closed := true) ⟨single_mem 10, trivial⟩
      (fun _ => rfl)
    simpa using Ev.of_window hA (resIs_eq hw.2)
  have hline : Ev (envOf text) (10 * text.length + 232) lineE .nonAtomic false 0
      (some (text.length, [.mk 15 0 (Q + 1) [.mk 19 1 (Q + 1) [A]]])) := by
    have := Ev.seq hstmt hskQ1 hsep (d := 10 * text.length + 231)
    rw [hN] at this
    exact this.mono (by omega)
  -- the statement loop
  have he := eof_facts text
  have hloop : Ev (envOf text) (10 * text.length + 240) (.star lineE) .nonAtomic false 0
      (some (text.length, [.mk 15 0 (Q + 1) [.mk 19 1 (Q + 1) [A]]])) := by
    refine ev_star_some hline (d2 := D + 1) (d := 10 * text.length + 239) ?_ (by omega) (by unfold D; omega)
    intro f hf
    obtain ⟨f, rfl⟩ : ∃ f', f = f' + 1 := ⟨f - 1, by omega⟩
    refine ⟨[[.mk 15 0 (Q + 1) [.mk 19 1 (Q + 1) [A]]]], ?_, rfl⟩
    rw [rep.eq_2, he.1 f (by unfold D at hf; omega), he.2.2.1 f (by omega)]
  -- inner, program, parse
  have hsk0 : Sk (envOf text) 30 .nonAtomic 0 0 := skip_none hs0 (by simp [NonBlank])
  obtain ⟨g, hg, hgN⟩ : ∃ g, 16 * text.toArray.size + 1000 = g + 7 ∧ 10 * text.length + 500 ≤ g :=
    ⟨16 * text.toArray.size + 993, by omega, by simp only [List.size_toArray]; omega⟩
  have hinner : matchE (envOf text) (g + 2) innerBody .nonAtomic false 0 =
      some (text.length, [.mk 15 0 (Q + 1) [.mk 19 1 (Q + 1) [A]]]) := by
    unfold innerBody
    rw [matchE.eq_4, matchE.eq_4, hnl0 g (by omega)]
    simp only
    rw [hsk0 g (by omega), hloop g (by omega)]
    simp only
    rw [he.1 (g + 1) (by omega), he.2.2.2.1 (g + 1) (by unfold D; omega)]
    simp
  have hsoi : ∀ k, callSpec (envOf text) 1000 .nonAtomic false 0 k = some (0, []) := by
    intro k; simp [callSpec, ANY, SOI]
  have hprog : callRule (envOf text) (g + 7) Gen.R_program .nonAtomic false 0 =
      some (text.length, [.mk 15 0 (Q + 1) [.mk 19 1 (Q + 1) [A]], .mk Pest.EOI text.length text.length []]) := by
    show callRule _ _ 0 _ _ _ = _
    rw [call_program]
    unfold programBody
    rw [matchE.eq_4, matchE.eq_4, matchE.eq_11, callRule_succ, hsoi]
    simp only
    rw [hsk0 (g + 4) (by omega), matchE.eq_11, call_inner, hinner]
    simp only
    rw [he.1 (g + 5) (by omega), matchE.eq_11]
    have := he.2.2.2.2 (g + 4) (by omega)
    unfold EOI at this
    rw [this]
    simp [EOI]
  have h1 : findRule Gen.grammar [87, 72, 73, 84, 69, 83, 80, 65, 67, 69] = some 49 := by decide +kernel
  have h2 : findRule Gen.grammar [67, 79, 77, 77, 69, 78, 84] = some 50 := by decide +kernel
  unfold Pest.parse
  simp only [h1, h2]
  rw [hg]
  have hprog' := hprog
  unfold envOf at hprog'
  rw [hprog']

theorem parse_pushText (l r : List Nat) (s : TSeq) (hl : IsBlanks l) (hr : IsBlanks r) (hs : s.WF) :
    parseAsm (pushText l s r) = .ok [.op (.push s.expr)] := by
  rw [pushText_eq]
  have hsuf : Suf (pushText' l s r) (6 + l.length) (s.render ++ (r ++ [41, 10])) :=
    Suf.app (a := l) ⟨[37, 112, 117, 115, 104, 40], rfl, rfl⟩
  have hlen := hsuf.len
  simp only [List.length_append] at hlen
  have hw : ∀ k, parseExpr (pushText' l s r).toArray (4 * (pushText' l s r).length + 100 + k)
      (seqPair (6 + l.length) s r.length) = .ok s.expr :=
    fun k => walkS s (6 + l.length) r.length _ (4 * (pushText' l s r).length + 100 + k) hs hsuf (by omega)
  unfold parseAsm
  rw [pest_push l r s hl hr hs]
  simp [parseAsm.go, rule_mk, Pest.EOI, Gen.R_builtin, parseBuiltin, kids_mk, Gen.R_import, Gen.R_include,
    Gen.R_include_hex, Gen.R_push_macro, parsePushMacro, seqPair_rule, Gen.R_expression, hw, Except.map]

end ExprText
end Asm
end EtkVerif
