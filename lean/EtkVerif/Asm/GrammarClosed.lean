/-
`spec` (GrammarShape.lean) is closed under every rule of the regenerated grammar.
-/
import EtkVerif.Asm.GrammarShape
namespace EtkVerif
namespace Asm
open Pest

/-! ### list predicates -/
section
variable {inp : Array Nat}

theorem AllTop.nil : AllTop inp [] := by intro t h; cases h
theorem AllTop.append {x y : List Pair} (hx : AllTop inp x) (hy : AllTop inp y) : AllTop inp (x ++ y) := by
  intro t h
  rcases List.mem_append.1 h with h | h
  · exact hx t h
  · exact hy t h
theorem GoodStmts.nil : GoodStmts inp [] := ⟨(by intro t h; cases h), (by intro t h; cases h)⟩
theorem GoodStmts.append {x y : List Pair} (hx : GoodStmts inp x) (hy : GoodStmts inp y) : GoodStmts inp (x ++ y) := by
  refine ⟨?_, ?_⟩ <;> intro t h <;> rcases List.mem_append.1 h with h | h
  · exact hx.1 t h
  · exact hy.1 t h
  · exact hx.2 t h
  · exact hy.2 t h
theorem ArgsOK.nil : ArgsOK inp [] := by intro t h; cases h
theorem ArgsOK.append {x y : List Pair} (hx : ArgsOK inp x) (hy : ArgsOK inp y) : ArgsOK inp (x ++ y) := by
  intro t h
  rcases List.mem_append.1 h with h | h
  · exact hx t h
  · exact hy t h
theorem AllE.nil : AllE inp [] := by intro t h; cases h
theorem AllE.append {x y : List Pair} (hx : AllE inp x) (hy : AllE inp y) : AllE inp (x ++ y) := by
  intro t h
  rcases List.mem_append.1 h with h | h
  · exact hx t h
  · exact hy t h
theorem AllE.one {t : Pair} (h : GoodE inp t) : AllE inp [t] := by
  intro a ha
  simp only [List.mem_singleton] at ha
  exact ha ▸ h

theorem GoodTail.append {x y : List Pair} (hx : GoodTail inp x) (hy : GoodTail inp y) : GoodTail inp (x ++ y) := by
  generalize hn : x.length = n
  induction n using Nat.strongRecOn generalizing x with
  | _ n ih =>
    cases hx with
    | nil => exact hy
    | @cons o t rest ho ht hrest =>
      exact GoodTail.cons ho ht (ih rest.length (by simp at hn; omega) hrest rfl)

theorem One.allTop_A {n p p' : Nat} {ks : List Pair} (h : One n p p' ks (GoodA inp)) (hn : n ≠ 15) :
    AllTop inp ks := by
  obtain ⟨k, rfl, hg⟩ := h
  intro t ht
  simp only [List.mem_singleton] at ht
  subst ht
  exact ⟨fun hr => absurd hr hn, fun _ _ => hg⟩

theorem One.allTop_B {p p' : Nat} {ks : List Pair} (h : One 15 p p' ks (GoodBuiltin inp)) : AllTop inp ks := by
  obtain ⟨k, rfl, hg⟩ := h
  intro t ht
  simp only [List.mem_singleton] at ht
  subst ht
  exact ⟨fun _ => hg, fun hr => absurd rfl hr⟩

theorem One.stmts_A {n p p' : Nat} {ks : List Pair} (h : One n p p' ks (GoodA inp)) (hn : n ≠ 19) :
    GoodStmts inp ks := by
  obtain ⟨k, rfl, hg⟩ := h
  refine ⟨?_, ?_⟩ <;> intro t ht <;> simp only [List.mem_singleton] at ht <;> subst ht
  · intro hr; exact absurd hr hn
  · intro _; exact hg

theorem One.stmts_PM {p p' : Nat} {ks : List Pair} (h : One 19 p p' ks (GoodPM inp)) : GoodStmts inp ks := by
  obtain ⟨k, rfl, hg⟩ := h
  refine ⟨?_, ?_⟩ <;> intro t ht <;> simp only [List.mem_singleton] at ht <;> subst ht
  · intro _; exact hg
  · intro hr; exact absurd rfl hr

theorem One.term {n p p' : Nat} {ks : List Pair} (h : One n p p' ks (GoodE inp)) : ∃ t, ks = [t] ∧ GoodE inp t := by
  obtain ⟨k, rfl, hg⟩ := h
  exact ⟨_, rfl, hg⟩

end

/-! ### digits -/

theorem toDigit_dec {radix c : Nat} (h1 : 48 ≤ c) (h2 : c ≤ 57) (hr : c - 48 < radix) : (toDigit radix c).isSome = true := by
  unfold toDigit
  simp [h1, h2, hr]

theorem toDigit_hex {c : Nat} (h : (48 ≤ c ∧ c ≤ 57) ∨ (97 ≤ c ∧ c ≤ 102) ∨ (65 ≤ c ∧ c ≤ 70)) :
    (toDigit 16 c).isSome = true := by
  unfold toDigit
  rcases h with ⟨h1, h2⟩ | ⟨h1, h2⟩ | ⟨h1, h2⟩
  · have : c - 48 < 16 := by omega
    simp [h1, h2, this]
  · have h3 : ¬ (48 ≤ c ∧ c ≤ 57) := by omega
    have h4 : c ≤ 122 := by omega
    have : c - 87 < 16 := by omega
    simp [h1, h3, h4, this]
  · have h3 : ¬ (48 ≤ c ∧ c ≤ 57) := by omega
    have h4 : ¬ (97 ≤ c ∧ c ≤ 122) := by omega
    have h5 : c ≤ 90 := by omega
    have : c - 55 < 16 := by omega
    simp [h1, h3, h4, h5, this]

/-! ### what a reference to a grammar rule gives -/
section
variable {inp : Array Nat} {p p' : Nat} {ks : List Pair}

local notation "S" => Sem inp (spec inp)
local notation "N" => Atom.nonAtomic
local notation "C" => Atom.compound
local notation "A" => Atom.atomic

theorem r1 (h : S N (.ref 1) p p' ks) : AllTop inp ks := h rfl
theorem r2 (h : S N (.ref 2) p p' ks) : AllTop inp ks := h rfl
theorem r3 (h : S N (.ref 3) p p' ks) : One 3 p p' ks (GoodA inp) := h rfl
theorem r4 (h : S N (.ref 4) p p' ks) : One 4 p p' ks (GoodA inp) := h rfl
theorem r5 (h : S A (.ref 5) p p' ks) : LangAt inp lang5 p p' := h rfl
theorem r6 (h : S A (.ref 6) p p' ks) : LangAt inp lang6 p p' := h rfl
theorem r7 (h : S A (.ref 7) p p' ks) : LangAt inp lang7 p p' := h rfl
theorem r8 (h : S C (.ref 8) p p' ks) : One 8 p p' ks (fun _ => LangAt inp lang8 p p') := h rfl
theorem r9 (h : S A (.ref 9) p p' ks) : LangAt inp lang9 p p' := h rfl
theorem r10 (h : S N (.ref 10) p p' ks) : One 10 p p' ks (fun t =>
    ∃ decl stmts name params, t.kids = decl :: stmts ∧ decl.kids = name :: params ∧ GoodStmts inp stmts) := h rfl
theorem r11 (h : S N (.ref 11) p p' ks) : GoodStmts inp ks := h rfl
theorem r12 (h : S N (.ref 12) p p' ks) : One 12 p p' ks (GoodE inp) := h rfl
theorem r13 (h : S N (.ref 13) p p' ks) : One 13 p p' ks (fun t => ∃ name args, t.kids = name :: args ∧ AllE inp args) :=
  h rfl
theorem r14 (h : S N (.ref 14) p p' ks) : One 14 p p' ks (GoodA inp) := h rfl
theorem r15 (h : S N (.ref 15) p p' ks) : One 15 p p' ks (GoodBuiltin inp) := h rfl
theorem r16 (h : S C (.ref 16) p p' ks) : One 16 p p' ks (fun _ => True) := h rfl
theorem r17 (h : S C (.ref 17) p p' ks) : One 17 p p' ks (fun _ => True) := h rfl
theorem r18 (h : S C (.ref 18) p p' ks) : One 18 p p' ks (fun _ => True) := h rfl
theorem r19C (h : S C (.ref 19) p p' ks) : One 19 p p' ks (GoodPM inp) := h (by decide)
theorem r19N (h : S N (.ref 19) p p' ks) : One 19 p p' ks (GoodPM inp) := h (by decide)
theorem r20 (h : S N (.ref 20) p p' ks) : ArgsOK inp ks := h rfl
theorem r21 (h : S N (.ref 21) p p' ks) : ArgsOK inp ks := h rfl
theorem r22 (h : S N (.ref 22) p p' ks) : ArgsOK inp ks := h rfl
theorem r23 (h : S N (.ref 23) p p' ks) : One 23 p p' ks (fun _ => True) := h rfl
theorem r25 (h : S N (.ref 25) p p' ks) : One 25 p p' ks (fun t =>
    ∃ decl body rest name params, t.kids = decl :: body :: rest ∧ decl.kids = name :: params ∧ GoodE inp body) := h rfl
theorem r26 (h : S N (.ref 26) p p' ks) : One 26 p p' ks (GoodE inp) := h rfl
theorem r27 (h : S N (.ref 27) p p' ks) : One 27 p p' ks (GoodE inp) := h rfl
theorem r28 (h : S N (.ref 28) p p' ks) : One 28 p p' ks (GoodE inp) := h rfl
theorem r29 (h : S C (.ref 29) p p' ks) : ∃ t, ks = [t] := h rfl
theorem r30 (h : S N (.ref 30) p p' ks) : One 30 p p' ks (fun t => ∃ name params, t.kids = name :: params) := h rfl
theorem r31 (h : S N (.ref 31) p p' ks) : ∃ name args, ks = name :: args ∧ AllE inp args := h rfl
theorem r32 (h : S N (.ref 32) p p' ks) : ∃ t, ks = [t] := h rfl
theorem r33 (h : S A (.ref 33) p p' ks) : p < p' := h rfl
theorem r34 (h : S N (.ref 34) p p' ks) : ∃ t, ks = [t] ∧ GoodE inp t := h rfl
theorem r35 (h : S N (.ref 35) p p' ks) : One 35 p p' ks (GoodE inp) := h rfl
theorem r36 (h : S N (.ref 36) p p' ks) : One 36 p p' ks (GoodE inp) := h rfl
theorem r37 (h : S N (.ref 37) p p' ks) : One 37 p p' ks (GoodE inp) := h rfl
theorem r38 (h : S N (.ref 38) p p' ks) : One 38 p p' ks (GoodE inp) := h rfl
theorem r39 (h : S N (.ref 39) p p' ks) : One 39 p p' ks (GoodE inp) := h rfl
theorem r40 (h : S N (.ref 40) p p' ks) : One 40 p p' ks (GoodA inp) := h rfl
theorem r41N (h : S N (.ref 41) p p' ks) : One 41 p p' ks (GoodE inp) := h (by decide)
theorem r41C (h : S C (.ref 41) p p' ks) : One 41 p p' ks (GoodE inp) := h (by decide)
theorem r42 (h : S N (.ref 42) p p' ks) : ∃ t, ks = [t] ∧ GoodE inp t := h rfl
theorem r43 (h : S N (.ref 43) p p' ks) : One 43 p p' ks (GoodE inp) := h rfl
theorem r44 (h : S N (.ref 44) p p' ks) : ∃ o, ks = [o] ∧ (opOfRule o.rule).isSome = true := h rfl
theorem r45 (h : S N (.ref 45) p p' ks) : One 45 p p' ks (fun _ => True) := h rfl
theorem r46 (h : S N (.ref 46) p p' ks) : One 46 p p' ks (fun _ => True) := h rfl
theorem r47 (h : S N (.ref 47) p p' ks) : One 47 p p' ks (fun _ => True) := h rfl
theorem r48 (h : S N (.ref 48) p p' ks) : One 48 p p' ks (fun _ => True) := h rfl
theorem r49 {at_ : Atom} (h : S at_ (.ref 49) p p' ks) : ks = [] := h

end

/-! ### closure, rule by rule (expressions) -/
section
variable {inp : Array Nat} {p p' : Nat} {ks : List Pair}

local notation "S" => Sem inp (spec inp)
local notation "N" => Atom.nonAtomic
local notation "C" => Atom.compound
local notation "A" => Atom.atomic

theorem one_triv (n : Nat) : One n p p' [Pair.mk n p p' ks] (fun _ => True) := ⟨ks, rfl, trivial⟩

theorem c44 (h : S N (.alt (.alt (.alt (.ref 45) (.ref 46)) (.ref 47)) (.ref 48)) p p' ks) :
    ∃ o, ks = [o] ∧ (opOfRule o.rule).isSome = true := by
  rcases h with ((h | h) | h) | h
  · obtain ⟨k, rfl, _⟩ := r45 h; exact ⟨_, rfl, rfl⟩
  · obtain ⟨k, rfl, _⟩ := r46 h; exact ⟨_, rfl, rfl⟩
  · obtain ⟨k, rfl, _⟩ := r47 h; exact ⟨_, rfl, rfl⟩
  · obtain ⟨k, rfl, _⟩ := r48 h; exact ⟨_, rfl, rfl⟩

theorem c34 (h : S N (.alt (.alt (.alt (.ref 35) (.ref 36)) (.ref 38)) (.ref 37)) p p' ks) :
    ∃ t, ks = [t] ∧ GoodE inp t := by
  rcases h with ((h | h) | h) | h
  · exact (r35 h).term
  · exact (r36 h).term
  · exact (r38 h).term
  · exact (r37 h).term

theorem c42 (h : S N (.alt (.alt (.alt (.alt (.alt (.alt (.alt (.ref 12) (.ref 27)) (.ref 28)) (.ref 26)) (.ref 39)) (.ref 34)) (.ref 43)) (.seq (.seq (.str [40]) (.ref 41)) (.str [41]))) p p' ks) :
    ∃ t, ks = [t] ∧ GoodE inp t := by
  rcases h with ((((((h | h) | h) | h) | h) | h) | h) | h
  · exact (r12 h).term
  · exact (r27 h).term
  · exact (r28 h).term
  · exact (r26 h).term
  · exact (r39 h).term
  · exact r34 h
  · exact (r43 h).term
  · obtain ⟨_, _, k12, k3, h12, _, h3, rfl⟩ := sem_seq.1 h
    obtain ⟨_, _, k1, k2, h1, _, h2, rfl⟩ := sem_seq.1 h12
    rw [s_str h1, s_str h3]
    obtain ⟨t, rfl, ht⟩ := (r41N h2).term
    exact ⟨t, rfl, ht⟩

theorem c41 (h : S N (.seq (.ref 42) (.star (.seq (.ref 44) (.ref 42)))) p p' ks) :
    One 41 p p' [Pair.mk 41 p p' ks] (GoodE inp) := by
  obtain ⟨_, _, k1, k2, h1, _, h2, rfl⟩ := sem_seq.1 h
  obtain ⟨t, rfl, ht⟩ := r42 h1
  have htail : GoodTail inp k2 := by
    refine sem_star_all (Q := GoodTail inp) GoodTail.nil (fun x y => GoodTail.append) ?_ h2
    intro q q' k hk
    obtain ⟨_, _, ka, kb, ha, _, hb, rfl⟩ := sem_seq.1 hk
    obtain ⟨o, rfl, ho⟩ := r44 ha
    obtain ⟨t', rfl, ht'⟩ := r42 hb
    exact GoodTail.cons ho ht' GoodTail.nil
  exact ⟨_, rfl, GoodE.expr rfl rfl ht htail⟩

theorem c39 : One 39 p p' [Pair.mk 39 p p' ks] (GoodE inp) := ⟨ks, rfl, GoodE.label rfl⟩

theorem c33 (h : S A (.seq (.ref 1008) (.star (.ref 1009))) p p' ks) : p < p' := by
  obtain ⟨p1, p2, k1, k2, h1, hsk, h2, _⟩ := sem_seq.1 h
  have := b_alpha h1
  have := hsk (by decide)
  have := sem_star_le (by decide) (fun q q' k hk => by have := b_alnum hk; omega) h2
  omega

theorem c12 (h : S A (.seq (.str [36]) (.ref 33)) p p' ks) : One 12 p p' [Pair.mk 12 p p' ks] (GoodE inp) := by
  obtain ⟨p1, p2, k1, k2, h1, hsk, h2, _⟩ := sem_seq.1 h
  obtain ⟨hpre, rfl, _⟩ := sem_str.1 h1
  have := hsk (by decide)
  subst this
  have hlt := r33 h2
  have h0 := (isPrefixAt_iff inp [36] p).1 hpre 0 (by simp)
  simp only [Nat.add_zero, List.getElem?_cons_zero] at h0
  have hsz : p < inp.size := by
    by_cases hlt' : p < inp.size
    · exact hlt'
    · rw [Array.getElem?_eq_none (by omega)] at h0; cases h0
  have hget := seg_getElem? inp p p' 0
  rw [if_pos (by simp at hlt; omega)] at hget
  simp only [Nat.add_zero, h0] at hget
  refine ⟨ks, rfl, ?_⟩
  cases hseg : seg inp p p' with
  | nil => rw [hseg] at hget; cases hget
  | cons c rest =>
    rw [hseg] at hget
    simp only [List.getElem?_cons_zero, Option.some.injEq] at hget
    subst hget
    exact GoodE.var (rest := rest) rfl (by rw [txt_mk, hseg])

theorem c35 (h : S A (.seq (.str [48, 98]) (.plus (.ref 1005))) p p' ks) :
    One 35 p p' [Pair.mk 35 p p' ks] (GoodE inp) := by
  obtain ⟨p1, p2, k1, k2, h1, hsk, h2, _⟩ := sem_seq.1 h
  obtain ⟨_, rfl, _⟩ := sem_str.1 h1
  have := hsk (by decide)
  subst this
  have := sem_plus_allIn (P := fun c => (toDigit 2 c).isSome = true) (by decide) (fun q q' k hk => by
    obtain ⟨e, c, hc, h1, h2⟩ := b_bin hk
    exact ⟨e, c, hc, toDigit_dec h1 (by omega) (by omega)⟩) h2
  refine ⟨ks, rfl, GoodE.binary rfl ?_⟩
  rw [txt_mk, seg_drop]
  exact parseRadix_seg this.2 this.1

theorem c36 (h : S A (.seq (.str [48, 111]) (.plus (.ref 1006))) p p' ks) :
    One 36 p p' [Pair.mk 36 p p' ks] (GoodE inp) := by
  obtain ⟨p1, p2, k1, k2, h1, hsk, h2, _⟩ := sem_seq.1 h
  obtain ⟨_, rfl, _⟩ := sem_str.1 h1
  have := hsk (by decide)
  subst this
  have := sem_plus_allIn (P := fun c => (toDigit 8 c).isSome = true) (by decide) (fun q q' k hk => by
    obtain ⟨e, c, hc, h1, h2⟩ := b_oct hk
    exact ⟨e, c, hc, toDigit_dec h1 (by omega) (by omega)⟩) h2
  refine ⟨ks, rfl, GoodE.octal rfl ?_⟩
  rw [txt_mk, seg_drop]
  exact parseRadix_seg this.2 this.1

theorem c37 (h : S A (.plus (.ref 1004)) p p' ks) :
    One 37 p p' [Pair.mk 37 p p' ks] (GoodE inp) := by
  have := sem_plus_allIn (P := fun c => (toDigit 10 c).isSome = true) (by decide) (fun q q' k hk => by
    obtain ⟨e, c, hc, h1, h2⟩ := b_digit hk
    exact ⟨e, c, hc, toDigit_dec h1 (by omega) (by omega)⟩) h
  refine ⟨ks, rfl, GoodE.decimal rfl ?_⟩
  rw [txt_mk]
  exact parseRadix_seg this.2 this.1

theorem c43 (h : S A (.seq (.str [45]) (.plus (.ref 1004))) p p' ks) :
    One 43 p p' [Pair.mk 43 p p' ks] (GoodE inp) := by
  obtain ⟨p1, p2, k1, k2, h1, hsk, h2, _⟩ := sem_seq.1 h
  obtain ⟨_, rfl, _⟩ := sem_str.1 h1
  have := hsk (by decide)
  subst this
  have := sem_plus_allIn (P := fun c => (toDigit 10 c).isSome = true) (by decide) (fun q q' k hk => by
    obtain ⟨e, c, hc, h1, h2⟩ := b_digit hk
    exact ⟨e, c, hc, toDigit_dec h1 (by omega) (by omega)⟩) h2
  refine ⟨ks, rfl, GoodE.negDecimal rfl ?_⟩
  rw [txt_mk, seg_drop]
  exact parseRadix_seg this.2 this.1

theorem c38 (h : S A (.seq (.seq (.str [48, 120]) (.ref 1007)) (.plus (.ref 1007))) p p' ks) :
    One 38 p p' [Pair.mk 38 p p' ks] (GoodE inp) := by
  obtain ⟨p1, p2, k1, k2, h1, hsk, h2, _⟩ := sem_seq.1 h
  obtain ⟨p3, p4, k3, k4, h3, hsk', h4, _⟩ := sem_seq.1 h1
  obtain ⟨_, rfl, _⟩ := sem_str.1 h3
  have := hsk (by decide)
  subst this
  have := hsk' (by decide)
  subst this
  obtain ⟨rfl, c, hc, hcr⟩ := b_hex h4
  have := sem_plus_allIn (P := fun c => (toDigit 16 c).isSome = true) (by decide) (fun q q' k hk => by
    obtain ⟨e, c, hc, h1⟩ := b_hex hk
    exact ⟨e, c, hc, toDigit_hex h1⟩) h2
  refine ⟨ks, rfl, GoodE.hex rfl ?_⟩
  rw [txt_mk, seg_drop]
  exact parseRadix_seg (AllIn.cons hc (toDigit_hex hcr) this.2) (by have := this.1; simp at this ⊢; omega)

theorem c31 (h : S N (.seq (.seq (.seq (.ref 32) (.str [40])) (.opt (.seq (.ref 41) (.star (.seq (.str [44]) (.ref 41)))))) (.str [41])) p p' ks) :
    ∃ name args, ks = name :: args ∧ AllE inp args := by
  obtain ⟨_, _, k123, k5, h123, _, h5, rfl⟩ := sem_seq.1 h
  obtain ⟨_, _, k12, k3, h12, _, h3, rfl⟩ := sem_seq.1 h123
  obtain ⟨_, _, k1, k2, h1, _, h2, rfl⟩ := sem_seq.1 h12
  obtain ⟨t, rfl⟩ := r32 h1
  rw [s_str h2, s_str h5]
  have e3 : AllE inp k3 := by
    rcases sem_opt.1 h3 with h3 | ⟨_, rfl⟩
    · obtain ⟨_, _, ka, kb, ha, _, hb, rfl⟩ := sem_seq.1 h3
      have ea : AllE inp ka := by
        obtain ⟨t, rfl, ht⟩ := (r41N ha).term; exact AllE.one ht
      have eb : AllE inp kb := sem_star_all (Q := AllE inp) AllE.nil (fun x y => AllE.append)
        (fun q q' k hk => by
          obtain ⟨_, _, ka, kb, ha, _, hb, rfl⟩ := sem_seq.1 hk
          rw [s_str ha]
          obtain ⟨t, rfl, ht⟩ := (r41N hb).term; exact AllE.one ht) hb
      exact ea.append eb
    · exact AllE.nil
  exact ⟨t, k3, by simp, e3⟩

theorem c30 (h : S N (.seq (.seq (.seq (.seq (.ref 32) (.str [40])) (.star (.ref 33))) (.star (.seq (.str [44]) (.ref 33)))) (.str [41])) p p' ks) :
    One 30 p p' [Pair.mk 30 p p' ks] (fun t => ∃ name params, t.kids = name :: params) := by
  obtain ⟨_, _, k1234, k5, h1234, _, h5, rfl⟩ := sem_seq.1 h
  obtain ⟨_, _, k123, k4, h123, _, h4, rfl⟩ := sem_seq.1 h1234
  obtain ⟨_, _, k12, k3, h12, _, h3, rfl⟩ := sem_seq.1 h123
  obtain ⟨_, _, k1, k2, h1, _, h2, rfl⟩ := sem_seq.1 h12
  obtain ⟨t, rfl⟩ := r32 h1
  rw [s_str h2, s_str h5]
  exact ⟨_, rfl, t, k3 ++ k4, by simp [Pair.kids]⟩

theorem c26 (h : S N (.ref 31) p p' ks) : One 26 p p' [Pair.mk 26 p p' ks] (GoodE inp) := by
  obtain ⟨name, args, rfl, ha⟩ := r31 h
  exact ⟨_, rfl, GoodE.exprMacro rfl rfl ha⟩

theorem c27 (h : S C (.seq (.seq (.str [115, 101, 108, 101, 99, 116, 111, 114, 40, 34]) (.ref 29)) (.str [34, 41])) p p' ks) :
    One 27 p p' [Pair.mk 27 p p' ks] (GoodE inp) := by
  obtain ⟨_, _, k12, k3, h12, _, h3, rfl⟩ := sem_seq.1 h
  obtain ⟨_, _, k1, k2, h1, _, h2, rfl⟩ := sem_seq.1 h12
  obtain ⟨t, rfl⟩ := r29 h2
  rw [s_str h1, s_str h3]
  exact ⟨_, rfl, GoodE.selector (k := t) (ks := []) rfl rfl⟩

theorem c28 (h : S C (.seq (.seq (.str [116, 111, 112, 105, 99, 40, 34]) (.ref 29)) (.str [34, 41])) p p' ks) :
    One 28 p p' [Pair.mk 28 p p' ks] (GoodE inp) := by
  obtain ⟨_, _, k12, k3, h12, _, h3, rfl⟩ := sem_seq.1 h
  obtain ⟨_, _, k1, k2, h1, _, h2, rfl⟩ := sem_seq.1 h12
  obtain ⟨t, rfl⟩ := r29 h2
  rw [s_str h1, s_str h3]
  exact ⟨_, rfl, GoodE.topic (k := t) (ks := []) rfl rfl⟩

end

/-! ### closure, rule by rule (statements) -/
section
variable {inp : Array Nat} {p p' : Nat} {ks : List Pair}

local notation "S" => Sem inp (spec inp)
local notation "N" => Atom.nonAtomic
local notation "C" => Atom.compound
local notation "A" => Atom.atomic

theorem nl_star (h : S N (.star (.ref 1003)) p p' ks) : ks = [] :=
  sem_star_all (Q := fun k => k = []) rfl (fun x y hx hy => by rw [hx, hy]; rfl) (fun _ _ _ hk => b_newline hk) h

theorem nl_plus (h : S N (.plus (.ref 1003)) p p' ks) : ks = [] :=
  sem_plus_all (Q := fun k => k = []) rfl (fun x y hx hy => by rw [hx, hy]; rfl) (fun _ _ _ hk => b_newline hk) h

theorem c0 (h : S N (.seq (.seq (.ref 1000) (.ref 1)) (.ref 1001)) p p' ks) : AllTop inp ks := by
  obtain ⟨_, _, k12, k3, h12, _, h3, rfl⟩ := sem_seq.1 h
  obtain ⟨_, _, k1, k2, h1, _, h2, rfl⟩ := sem_seq.1 h12
  rw [b_soi h1, b_eoi h3]
  refine (AllTop.nil.append (r1 h2)).append ?_
  intro t ht
  simp only [List.mem_singleton] at ht
  subst ht
  exact ⟨fun hr => (by cases hr), fun _ hr => absurd rfl hr⟩

theorem c1 (h : S N (.seq (.seq (.star (.ref 1003)) (.star (.seq (.ref 2) (.alt (.plus (.ref 1003)) (.str [59]))))) (.opt (.ref 2))) p p' ks) :
    AllTop inp ks := by
  obtain ⟨_, _, k12, k3, h12, _, h3, rfl⟩ := sem_seq.1 h
  obtain ⟨_, _, k1, k2, h1, _, h2, rfl⟩ := sem_seq.1 h12
  rw [nl_star h1]
  have e2 : AllTop inp k2 := sem_star_all (Q := AllTop inp) AllTop.nil (fun x y => AllTop.append)
    (fun q q' k hk => by
      obtain ⟨_, _, ka, kb, ha, _, hb, rfl⟩ := sem_seq.1 hk
      have : kb = [] := by
        rcases hb with hb | hb
        · exact nl_plus hb
        · exact s_str hb
      rw [this]
      exact (r2 ha).append AllTop.nil) h2
  have e3 : AllTop inp k3 := by
    rcases h3 with h3 | ⟨_, rfl⟩
    · exact r2 h3
    · exact AllTop.nil
  exact (AllTop.nil.append e2).append e3

theorem c2 (h : S N (.alt (.alt (.alt (.alt (.ref 40) (.ref 15)) (.ref 14)) (.ref 4)) (.ref 3)) p p' ks) : AllTop inp ks := by
  rcases h with (((h | h) | h) | h) | h
  · exact (r40 h).allTop_A (by decide)
  · exact (r15 h).allTop_B
  · exact (r14 h).allTop_A (by decide)
  · exact (r4 h).allTop_A (by decide)
  · exact (r3 h).allTop_A (by decide)

theorem c11 (h : S N (.alt (.alt (.alt (.alt (.ref 40) (.seq (.str [37]) (.ref 19))) (.ref 14)) (.ref 4)) (.ref 3)) p p' ks) :
    GoodStmts inp ks := by
  rcases h with (((h | h) | h) | h) | h
  · exact (r40 h).stmts_A (by decide)
  · obtain ⟨_, _, k1, k2, h1, _, h2, rfl⟩ := sem_seq.1 h
    rw [s_str h1]
    exact (r19N h2).stmts_PM
  · exact (r14 h).stmts_A (by decide)
  · exact (r4 h).stmts_A (by decide)
  · exact (r3 h).stmts_A (by decide)

theorem langAt_txt {L : List (List Nat)} {n : Nat} (h : LangAt inp L p p') :
    txt inp (Pair.mk n p p' ks) ∈ L := by
  obtain ⟨m, hm, hl⟩ := h
  rw [txt_mk, seg_of_lit hl]
  exact hm

theorem c3 (h : S A (ruleOf 3).body p p' ks) : One 3 p p' [Pair.mk 3 p p' ks] (GoodA inp) := by
  have hl : LangAt inp lang3 p p' := by
    refine sem_lang inp (spec inp) _ _ simple_3 ?_ p p' ks h
    intro n hn q q' k hk
    rw [refs_3] at hn
    simp only [List.mem_cons, List.not_mem_nil, or_false] at hn
    rcases hn with rfl | rfl | rfl
    · exact r5 hk
    · exact r6 hk
    · exact r7 hk
  refine ⟨ks, rfl, GoodA.op rfl ?_⟩
  exact List.all_eq_true.1 lang3_ok _ (langAt_txt hl)

theorem c9 (h : S A (ruleOf 9).body p p' ks) : LangAt inp lang9 p p' :=
  sem_lang inp (spec inp) _ _ (by decide) (by intro n hn; revert hn; rw [show refsOf (ruleOf 9).body = [] by decide]; intro hn; cases hn) p p' ks h

theorem c7 (h : S A (ruleOf 7).body p p' ks) : LangAt inp lang7 p p' :=
  sem_lang inp (spec inp) _ _ (by decide) (by intro n hn; revert hn; rw [show refsOf (ruleOf 7).body = [] by decide]; intro hn; cases hn) p p' ks h

theorem c8 (h : S A (ruleOf 8).body p p' ks) : One 8 p p' [Pair.mk 8 p p' ks] (fun _ => LangAt inp lang8 p p') :=
  ⟨ks, rfl, sem_lang inp (spec inp) _ _ (by decide) (by intro n hn; revert hn; rw [show refsOf (ruleOf 8).body = [] by decide]; intro hn; cases hn) p p' ks h⟩

theorem c5 (h : S A (ruleOf 5).body p p' ks) : LangAt inp lang5 p p' := by
  refine sem_lang inp (spec inp) _ _ (by decide) ?_ p p' ks h
  intro n hn q q' k hk
  rw [show refsOf (ruleOf 5).body = [9] by decide] at hn
  simp only [List.mem_singleton] at hn
  subst hn
  exact r9 hk

theorem c6 (h : S A (ruleOf 6).body p p' ks) : LangAt inp lang6 p p' := by
  refine sem_lang inp (spec inp) _ _ (by decide) ?_ p p' ks h
  intro n hn q q' k hk
  rw [show refsOf (ruleOf 6).body = [9] by decide] at hn
  simp only [List.mem_singleton] at hn
  subst hn
  exact r9 hk

theorem sizeOK_spec {m : List Nat} (h : sizeOK m = true) :
    ∃ n : Int, parseRadix m 10 = .ok n ∧ 1 ≤ n.toNat ∧ n.toNat ≤ 32 := by
  unfold sizeOK at h
  split at h
  · rename_i n hn
    simp only [Bool.and_eq_true, decide_eq_true_eq] at h
    exact ⟨n, hn, h.1, h.2⟩
  · cases h

theorem c4 (h : S C (.seq (.seq (.seq (.str [112, 117, 115, 104]) (.ref 8)) (.ref 49)) (.ref 41)) p p' ks) :
    One 4 p p' [Pair.mk 4 p p' ks] (GoodA inp) := by
  obtain ⟨_, _, k123, k4, h123, _, h4, rfl⟩ := sem_seq.1 h
  obtain ⟨_, _, k12, k3, h12, _, h3, rfl⟩ := sem_seq.1 h123
  obtain ⟨_, _, k1, k2, h1, _, h2, rfl⟩ := sem_seq.1 h12
  rw [s_str h1, r49 h3]
  obtain ⟨ksz, rfl, hsz⟩ := r8 h2
  obtain ⟨operand, rfl, hop⟩ := (r41C h4).term
  refine ⟨_, rfl, GoodA.push rfl rfl ?_ hop⟩
  exact sizeOK_spec (List.all_eq_true.1 lang8_ok _ (langAt_txt hsz))

theorem c40 (h : S N (.seq (.ref 39) (.str [58])) p p' ks) : One 40 p p' [Pair.mk 40 p p' ks] (GoodA inp) := by
  obtain ⟨_, _, k1, k2, h1, _, h2, rfl⟩ := sem_seq.1 h
  obtain ⟨t, rfl, _⟩ := (r39 h1).term
  rw [s_str h2]
  exact ⟨_, rfl, GoodA.labelDef (l := t) (rest := []) rfl rfl⟩

theorem c10 (h : S N (.seq (.seq (.seq (.seq (.str [37, 109, 97, 99, 114, 111]) (.ref 30)) (.star (.ref 1003))) (.star (.seq (.ref 11) (.plus (.ref 1003))))) (.str [37, 101, 110, 100])) p p' ks) :
    One 10 p p' [Pair.mk 10 p p' ks] (fun t =>
      ∃ decl stmts name params, t.kids = decl :: stmts ∧ decl.kids = name :: params ∧ GoodStmts inp stmts) := by
  obtain ⟨_, _, k1234, k5, h1234, _, h5, rfl⟩ := sem_seq.1 h
  obtain ⟨_, _, k123, k4, h123, _, h4, rfl⟩ := sem_seq.1 h1234
  obtain ⟨_, _, k12, k3, h12, _, h3, rfl⟩ := sem_seq.1 h123
  obtain ⟨_, _, k1, k2, h1, _, h2, rfl⟩ := sem_seq.1 h12
  rw [s_str h1, s_str h5, nl_star h3]
  obtain ⟨kd, rfl, name, params, hd⟩ := r30 h2
  have e4 : GoodStmts inp k4 := sem_star_all (Q := GoodStmts inp) GoodStmts.nil (fun x y => GoodStmts.append)
    (fun q q' k hk => by
      obtain ⟨_, _, ka, kb, ha, _, hb, rfl⟩ := sem_seq.1 hk
      rw [nl_plus hb]
      exact (r11 ha).append GoodStmts.nil) h4
  exact ⟨_, rfl, _, k4, name, params, by simp [Pair.kids], hd, e4⟩

theorem c13 (h : S N (.seq (.str [37]) (.ref 31)) p p' ks) :
    One 13 p p' [Pair.mk 13 p p' ks] (fun t => ∃ name args, t.kids = name :: args ∧ AllE inp args) := by
  obtain ⟨_, _, k1, k2, h1, _, h2, rfl⟩ := sem_seq.1 h
  rw [s_str h1]
  obtain ⟨name, args, rfl, ha⟩ := r31 h2
  exact ⟨_, rfl, name, args, rfl, ha⟩

theorem c25 (h : S N (.seq (.seq (.seq (.seq (.seq (.str [37, 100, 101, 102]) (.ref 30)) (.ref 1003)) (.ref 41)) (.ref 1003)) (.str [37, 101, 110, 100])) p p' ks) :
    One 25 p p' [Pair.mk 25 p p' ks] (fun t =>
      ∃ decl body rest name params, t.kids = decl :: body :: rest ∧ decl.kids = name :: params ∧ GoodE inp body) := by
  obtain ⟨_, _, k12345, k6, h12345, _, h6, rfl⟩ := sem_seq.1 h
  obtain ⟨_, _, k1234, k5, h1234, _, h5, rfl⟩ := sem_seq.1 h12345
  obtain ⟨_, _, k123, k4, h123, _, h4, rfl⟩ := sem_seq.1 h1234
  obtain ⟨_, _, k12, k3, h12, _, h3, rfl⟩ := sem_seq.1 h123
  obtain ⟨_, _, k1, k2, h1, _, h2, rfl⟩ := sem_seq.1 h12
  rw [s_str h1, s_str h6, b_newline h3, b_newline h5]
  obtain ⟨kd, rfl, name, params, hd⟩ := r30 h2
  obtain ⟨body, rfl, hb⟩ := (r41N h4).term
  exact ⟨_, rfl, _, body, [], name, params, rfl, hd, hb⟩

theorem c14 (h : S N (.seq (.neg (.ref 15)) (.alt (.alt (.ref 10) (.ref 13)) (.ref 25))) p p' ks) :
    One 14 p p' [Pair.mk 14 p p' ks] (GoodA inp) := by
  obtain ⟨_, _, k1, k2, h1, _, h2, rfl⟩ := sem_seq.1 h
  rw [(sem_neg.1 h1).2]
  rcases h2 with (h2 | h2) | h2
  · obtain ⟨k, rfl, decl, stmts, name, params, hk, hd, hs⟩ := r10 h2
    exact ⟨_, rfl, GoodA.instrDef (ks := []) rfl rfl rfl hk hd hs.1 hs.2⟩
  · obtain ⟨k, rfl, name, args, hk, ha⟩ := r13 h2
    exact ⟨_, rfl, GoodA.instrMacro (ks := []) rfl rfl rfl hk ha⟩
  · obtain ⟨k, rfl, decl, body, rest, name, params, hk, hd, hb⟩ := r25 h2
    exact ⟨_, rfl, GoodA.exprDef (ks := []) rfl rfl rfl hk hd hb⟩

theorem c15 (h : S C (.seq (.str [37]) (.alt (.alt (.alt (.ref 16) (.ref 17)) (.ref 18)) (.ref 19))) p p' ks) :
    One 15 p p' [Pair.mk 15 p p' ks] (GoodBuiltin inp) := by
  obtain ⟨_, _, k1, k2, h1, _, h2, rfl⟩ := sem_seq.1 h
  rw [s_str h1]
  rcases h2 with ((h2 | h2) | h2) | h2
  · obtain ⟨k, rfl, _⟩ := r16 h2
    exact ⟨_, rfl, _, rfl, Or.inl rfl⟩
  · obtain ⟨k, rfl, _⟩ := r17 h2
    exact ⟨_, rfl, _, rfl, Or.inr (Or.inl rfl)⟩
  · obtain ⟨k, rfl, _⟩ := r18 h2
    exact ⟨_, rfl, _, rfl, Or.inr (Or.inr (Or.inl rfl))⟩
  · obtain ⟨k, rfl, hk⟩ := r19C h2
    exact ⟨_, rfl, _, rfl, Or.inr (Or.inr (Or.inr ⟨rfl, hk⟩))⟩

theorem c19 (h : S N (.seq (.str [112, 117, 115, 104]) (.ref 20)) p p' ks) :
    One 19 p p' [Pair.mk 19 p p' ks] (GoodPM inp) := by
  obtain ⟨_, _, k1, k2, h1, _, h2, rfl⟩ := sem_seq.1 h
  rw [s_str h1]
  refine ⟨_, rfl, ?_⟩
  intro a ha hr
  exact r20 h2 a (by simp only [Pair.kids, List.nil_append] at ha; rw [ha]; simp) hr

theorem c20 (h : S N (.seq (.seq (.str [40]) (.opt (.ref 21))) (.str [41])) p p' ks) : ArgsOK inp ks := by
  obtain ⟨_, _, k12, k3, h12, _, h3, rfl⟩ := sem_seq.1 h
  obtain ⟨_, _, k1, k2, h1, _, h2, rfl⟩ := sem_seq.1 h12
  rw [s_str h1, s_str h3]
  have : ArgsOK inp k2 := by
    rcases h2 with h2 | ⟨_, rfl⟩
    · exact r21 h2
    · exact ArgsOK.nil
  exact (ArgsOK.nil.append this).append ArgsOK.nil

theorem c21 (h : S N (.seq (.star (.seq (.ref 22) (.str [44]))) (.opt (.ref 22))) p p' ks) : ArgsOK inp ks := by
  obtain ⟨_, _, k1, k2, h1, _, h2, rfl⟩ := sem_seq.1 h
  have e1 : ArgsOK inp k1 := sem_star_all (Q := ArgsOK inp) ArgsOK.nil (fun x y => ArgsOK.append)
    (fun q q' k hk => by
      obtain ⟨_, _, ka, kb, ha, _, hb, rfl⟩ := sem_seq.1 hk
      rw [s_str hb]
      exact (r22 ha).append ArgsOK.nil) h1
  have e2 : ArgsOK inp k2 := by
    rcases h2 with h2 | ⟨_, rfl⟩
    · exact r22 h2
    · exact ArgsOK.nil
  exact e1.append e2

theorem c22 (h : S N (.alt (.ref 23) (.ref 41)) p p' ks) : ArgsOK inp ks := by
  rcases h with h | h
  · obtain ⟨k, rfl, _⟩ := r23 h
    intro a ha hr
    simp only [List.mem_singleton] at ha
    subst ha
    cases hr
  · obtain ⟨t, rfl, ht⟩ := (r41N h).term
    intro a ha _
    simp only [List.mem_singleton] at ha
    subst ha
    exact ht

theorem c49 {at_ : Atom} (h : S at_ (.alt (.str [32]) (.str [9])) p p' ks) : ks = [] := by
  rcases h with h | h <;> exact s_str h

end

/-! ### assembling -/

def RuleClosed (text : List Nat) (n : Nat) : Prop :=
  ∀ at_ p p' ks,
    Sem text.toArray (spec text.toArray) (bodyAt (genv text) n (ruleOf n).ty at_) (ruleOf n).body p p' ks →
    spec text.toArray n at_ p p' (if emits (genv text) n (ruleOf n).ty at_ then [Pair.mk n p p' ks] else ks)

theorem rc0 (text : List Nat) : RuleClosed text 0 := by
  intro at_ p p' ks h
  cases at_
  · exact fun he => nomatch he
  · exact fun he => nomatch he
  · exact fun _ => c0 h
theorem rc1 (text : List Nat) : RuleClosed text 1 := by
  intro at_ p p' ks h
  cases at_
  · exact fun he => nomatch he
  · exact fun he => nomatch he
  · exact fun _ => c1 h
theorem rc2 (text : List Nat) : RuleClosed text 2 := by
  intro at_ p p' ks h
  cases at_
  · exact fun he => nomatch he
  · exact fun he => nomatch he
  · exact fun _ => c2 h
theorem rc3 (text : List Nat) : RuleClosed text 3 := by
  intro at_ p p' ks h
  cases at_
  · exact fun he => nomatch he
  · exact fun he => nomatch he
  · exact fun _ => c3 h
theorem rc4 (text : List Nat) : RuleClosed text 4 := by
  intro at_ p p' ks h
  cases at_
  · exact fun he => nomatch he
  · exact fun he => nomatch he
  · exact fun _ => c4 h
theorem rc5 (text : List Nat) : RuleClosed text 5 := by
  intro at_ p p' ks h
  cases at_
  · exact fun _ => c5 h
  · exact fun he => nomatch he
  · exact fun he => nomatch he
theorem rc6 (text : List Nat) : RuleClosed text 6 := by
  intro at_ p p' ks h
  cases at_
  · exact fun _ => c6 h
  · exact fun he => nomatch he
  · exact fun he => nomatch he
theorem rc7 (text : List Nat) : RuleClosed text 7 := by
  intro at_ p p' ks h
  cases at_
  · exact fun _ => c7 h
  · exact fun he => nomatch he
  · exact fun he => nomatch he
theorem rc8 (text : List Nat) : RuleClosed text 8 := by
  intro at_ p p' ks h
  cases at_
  · exact fun he => nomatch he
  · exact fun _ => c8 h
  · exact fun he => nomatch he
theorem rc9 (text : List Nat) : RuleClosed text 9 := by
  intro at_ p p' ks h
  cases at_
  · exact fun _ => c9 h
  · exact fun he => nomatch he
  · exact fun he => nomatch he
theorem rc10 (text : List Nat) : RuleClosed text 10 := by
  intro at_ p p' ks h
  cases at_
  · exact fun he => nomatch he
  · exact fun he => nomatch he
  · exact fun _ => c10 h
theorem rc11 (text : List Nat) : RuleClosed text 11 := by
  intro at_ p p' ks h
  cases at_
  · exact fun he => nomatch he
  · exact fun he => nomatch he
  · exact fun _ => c11 h
theorem rc12 (text : List Nat) : RuleClosed text 12 := by
  intro at_ p p' ks h
  cases at_
  · exact fun he => nomatch he
  · exact fun he => nomatch he
  · exact fun _ => c12 h
theorem rc13 (text : List Nat) : RuleClosed text 13 := by
  intro at_ p p' ks h
  cases at_
  · exact fun he => nomatch he
  · exact fun he => nomatch he
  · exact fun _ => c13 h
theorem rc14 (text : List Nat) : RuleClosed text 14 := by
  intro at_ p p' ks h
  cases at_
  · exact fun he => nomatch he
  · exact fun he => nomatch he
  · exact fun _ => c14 h
theorem rc15 (text : List Nat) : RuleClosed text 15 := by
  intro at_ p p' ks h
  cases at_
  · exact fun he => nomatch he
  · exact fun he => nomatch he
  · exact fun _ => c15 h
theorem rc16 (text : List Nat) : RuleClosed text 16 := by
  intro at_ p p' ks h
  cases at_
  · exact fun he => nomatch he
  · exact fun _ => one_triv 16
  · exact fun he => nomatch he
theorem rc17 (text : List Nat) : RuleClosed text 17 := by
  intro at_ p p' ks h
  cases at_
  · exact fun he => nomatch he
  · exact fun _ => one_triv 17
  · exact fun he => nomatch he
theorem rc18 (text : List Nat) : RuleClosed text 18 := by
  intro at_ p p' ks h
  cases at_
  · exact fun he => nomatch he
  · exact fun _ => one_triv 18
  · exact fun he => nomatch he
theorem rc19 (text : List Nat) : RuleClosed text 19 := by
  intro at_ p p' ks h
  cases at_
  · exact fun hne => absurd rfl hne
  · exact fun _ => c19 h
  · exact fun _ => c19 h
theorem rc20 (text : List Nat) : RuleClosed text 20 := by
  intro at_ p p' ks h
  cases at_
  · exact fun he => nomatch he
  · exact fun he => nomatch he
  · exact fun _ => c20 h
theorem rc21 (text : List Nat) : RuleClosed text 21 := by
  intro at_ p p' ks h
  cases at_
  · exact fun he => nomatch he
  · exact fun he => nomatch he
  · exact fun _ => c21 h
theorem rc22 (text : List Nat) : RuleClosed text 22 := by
  intro at_ p p' ks h
  cases at_
  · exact fun he => nomatch he
  · exact fun he => nomatch he
  · exact fun _ => c22 h
theorem rc23 (text : List Nat) : RuleClosed text 23 := by
  intro at_ p p' ks h
  cases at_
  · exact fun he => nomatch he
  · exact fun he => nomatch he
  · exact fun _ => one_triv 23
theorem rc24 (text : List Nat) : RuleClosed text 24 := by
  intro at_ p p' ks h
  exact True.intro
theorem rc25 (text : List Nat) : RuleClosed text 25 := by
  intro at_ p p' ks h
  cases at_
  · exact fun he => nomatch he
  · exact fun he => nomatch he
  · exact fun _ => c25 h
theorem rc26 (text : List Nat) : RuleClosed text 26 := by
  intro at_ p p' ks h
  cases at_
  · exact fun he => nomatch he
  · exact fun he => nomatch he
  · exact fun _ => c26 h
theorem rc27 (text : List Nat) : RuleClosed text 27 := by
  intro at_ p p' ks h
  cases at_
  · exact fun he => nomatch he
  · exact fun he => nomatch he
  · exact fun _ => c27 h
theorem rc28 (text : List Nat) : RuleClosed text 28 := by
  intro at_ p p' ks h
  cases at_
  · exact fun he => nomatch he
  · exact fun he => nomatch he
  · exact fun _ => c28 h
theorem rc29 (text : List Nat) : RuleClosed text 29 := by
  intro at_ p p' ks h
  cases at_
  · exact fun he => nomatch he
  · exact fun _ => ⟨_, rfl⟩
  · exact fun he => nomatch he
theorem rc30 (text : List Nat) : RuleClosed text 30 := by
  intro at_ p p' ks h
  cases at_
  · exact fun he => nomatch he
  · exact fun he => nomatch he
  · exact fun _ => c30 h
theorem rc31 (text : List Nat) : RuleClosed text 31 := by
  intro at_ p p' ks h
  cases at_
  · exact fun he => nomatch he
  · exact fun he => nomatch he
  · exact fun _ => c31 h
theorem rc32 (text : List Nat) : RuleClosed text 32 := by
  intro at_ p p' ks h
  cases at_
  · exact fun he => nomatch he
  · exact fun he => nomatch he
  · exact fun _ => ⟨_, rfl⟩
theorem rc33 (text : List Nat) : RuleClosed text 33 := by
  intro at_ p p' ks h
  cases at_
  · exact fun _ => c33 h
  · exact fun he => nomatch he
  · exact fun he => nomatch he
theorem rc34 (text : List Nat) : RuleClosed text 34 := by
  intro at_ p p' ks h
  cases at_
  · exact fun he => nomatch he
  · exact fun he => nomatch he
  · exact fun _ => c34 h
theorem rc35 (text : List Nat) : RuleClosed text 35 := by
  intro at_ p p' ks h
  cases at_
  · exact fun he => nomatch he
  · exact fun he => nomatch he
  · exact fun _ => c35 h
theorem rc36 (text : List Nat) : RuleClosed text 36 := by
  intro at_ p p' ks h
  cases at_
  · exact fun he => nomatch he
  · exact fun he => nomatch he
  · exact fun _ => c36 h
theorem rc37 (text : List Nat) : RuleClosed text 37 := by
  intro at_ p p' ks h
  cases at_
  · exact fun he => nomatch he
  · exact fun he => nomatch he
  · exact fun _ => c37 h
theorem rc38 (text : List Nat) : RuleClosed text 38 := by
  intro at_ p p' ks h
  cases at_
  · exact fun he => nomatch he
  · exact fun he => nomatch he
  · exact fun _ => c38 h
theorem rc39 (text : List Nat) : RuleClosed text 39 := by
  intro at_ p p' ks h
  cases at_
  · exact fun he => nomatch he
  · exact fun he => nomatch he
  · exact fun _ => c39
theorem rc40 (text : List Nat) : RuleClosed text 40 := by
  intro at_ p p' ks h
  cases at_
  · exact fun he => nomatch he
  · exact fun he => nomatch he
  · exact fun _ => c40 h
theorem rc41 (text : List Nat) : RuleClosed text 41 := by
  intro at_ p p' ks h
  cases at_
  · exact fun hne => absurd rfl hne
  · exact fun _ => c41 h
  · exact fun _ => c41 h
theorem rc42 (text : List Nat) : RuleClosed text 42 := by
  intro at_ p p' ks h
  cases at_
  · exact fun he => nomatch he
  · exact fun he => nomatch he
  · exact fun _ => c42 h
theorem rc43 (text : List Nat) : RuleClosed text 43 := by
  intro at_ p p' ks h
  cases at_
  · exact fun he => nomatch he
  · exact fun he => nomatch he
  · exact fun _ => c43 h
theorem rc44 (text : List Nat) : RuleClosed text 44 := by
  intro at_ p p' ks h
  cases at_
  · exact fun he => nomatch he
  · exact fun he => nomatch he
  · exact fun _ => c44 h
theorem rc45 (text : List Nat) : RuleClosed text 45 := by
  intro at_ p p' ks h
  cases at_
  · exact fun he => nomatch he
  · exact fun he => nomatch he
  · exact fun _ => one_triv 45
theorem rc46 (text : List Nat) : RuleClosed text 46 := by
  intro at_ p p' ks h
  cases at_
  · exact fun he => nomatch he
  · exact fun he => nomatch he
  · exact fun _ => one_triv 46
theorem rc47 (text : List Nat) : RuleClosed text 47 := by
  intro at_ p p' ks h
  cases at_
  · exact fun he => nomatch he
  · exact fun he => nomatch he
  · exact fun _ => one_triv 47
theorem rc48 (text : List Nat) : RuleClosed text 48 := by
  intro at_ p p' ks h
  cases at_
  · exact fun he => nomatch he
  · exact fun he => nomatch he
  · exact fun _ => one_triv 48
theorem rc49 (text : List Nat) : RuleClosed text 49 := by
  intro at_ p p' ks h
  exact c49 h
theorem rc50 (text : List Nat) : RuleClosed text 50 := by
  intro at_ p p' ks h
  exact True.intro

theorem rc_all (text : List Nat) (n : Nat) (hn : n < 51) : RuleClosed text n := by
  have : n = 0 ∨ n = 1 ∨ n = 2 ∨ n = 3 ∨ n = 4 ∨ n = 5 ∨ n = 6 ∨ n = 7 ∨ n = 8 ∨ n = 9 ∨ n = 10 ∨ n = 11 ∨ n = 12 ∨
      n = 13 ∨ n = 14 ∨ n = 15 ∨ n = 16 ∨ n = 17 ∨ n = 18 ∨ n = 19 ∨ n = 20 ∨ n = 21 ∨ n = 22 ∨ n = 23 ∨ n = 24 ∨
      n = 25 ∨ n = 26 ∨ n = 27 ∨ n = 28 ∨ n = 29 ∨ n = 30 ∨ n = 31 ∨ n = 32 ∨ n = 33 ∨ n = 34 ∨ n = 35 ∨ n = 36 ∨
      n = 37 ∨ n = 38 ∨ n = 39 ∨ n = 40 ∨ n = 41 ∨ n = 42 ∨ n = 43 ∨ n = 44 ∨ n = 45 ∨ n = 46 ∨ n = 47 ∨ n = 48 ∨
      n = 49 ∨ n = 50 := by omega
  rcases this with rfl | rfl | rfl | rfl | rfl | rfl | rfl | rfl | rfl | rfl | rfl | rfl | rfl | rfl | rfl | rfl | rfl |
    rfl | rfl | rfl | rfl | rfl | rfl | rfl | rfl | rfl | rfl | rfl | rfl | rfl | rfl | rfl | rfl | rfl | rfl | rfl | rfl |
    rfl | rfl | rfl | rfl | rfl | rfl | rfl | rfl | rfl | rfl | rfl | rfl | rfl | rfl
  · exact rc0 text
  · exact rc1 text
  · exact rc2 text
  · exact rc3 text
  · exact rc4 text
  · exact rc5 text
  · exact rc6 text
  · exact rc7 text
  · exact rc8 text
  · exact rc9 text
  · exact rc10 text
  · exact rc11 text
  · exact rc12 text
  · exact rc13 text
  · exact rc14 text
  · exact rc15 text
  · exact rc16 text
  · exact rc17 text
  · exact rc18 text
  · exact rc19 text
  · exact rc20 text
  · exact rc21 text
  · exact rc22 text
  · exact rc23 text
  · exact rc24 text
  · exact rc25 text
  · exact rc26 text
  · exact rc27 text
  · exact rc28 text
  · exact rc29 text
  · exact rc30 text
  · exact rc31 text
  · exact rc32 text
  · exact rc33 text
  · exact rc34 text
  · exact rc35 text
  · exact rc36 text
  · exact rc37 text
  · exact rc38 text
  · exact rc39 text
  · exact rc40 text
  · exact rc41 text
  · exact rc42 text
  · exact rc43 text
  · exact rc44 text
  · exact rc45 text
  · exact rc46 text
  · exact rc47 text
  · exact rc48 text
  · exact rc49 text
  · exact rc50 text

theorem spec_closed (text : List Nat) : Closed (genv text) (spec text.toArray) where
  builtin := by
    intro n at_ p p' ks hb h
    rw [spec_builtin _ hb]
    exact h
  rule := by
    intro n r hb hg at_ p p' ks h
    obtain ⟨hn, rfl⟩ := genv_rule text n r hg
    exact rc_all text n hn at_ p p' ks h

/-- every top-level pair the interpreter produces for the grammar is one `parseAsm.go` handles -/
theorem parse_allTop (text : List Nat) (pairs : List Pair) (h : Pest.parse Gen.grammar Gen.R_program text = some pairs) :
    AllTop text.toArray pairs := by
  rw [parse_eq] at h
  split at h
  · rename_i q ks hc
    cases h
    have := (shape_sound (genv text) (spec text.toArray) (spec_closed text) _).2.2 _ _ _ _ _ hc
    exact this rfl
  · cases h


end Asm
end EtkVerif
