/-
Traced variants of the ingestion model (`preprocessT`, `nodesLoopT`,
`resolveAndIngestT`, `ingestFileT`): the same steps as `preprocess`, `nodesLoop`,
`resolveAndIngest`, `ingestFile`, but the event trace is returned in EVERY case,
also when the run fails, so that the containment invariant of C18 can be stated
for runs that fail after having read something.

Differences to the originals (all of them only visible in failing runs, whose
trace the originals drop):
* a check answered with `directoryTraversal` is recorded as `.check p false`;
* the `.read loc` event is recorded as soon as the read is ATTEMPTED (right after
  the successful check), so it is present also when `readText` fails (directory,
  not UTF-8) and when a hex include was read but does not decode.  This only
  adds read events to failing runs, i.e. it makes the containment statement
  stronger.
-/
import EtkVerif.Asm.IngestLemmas
namespace EtkVerif
namespace Asm
namespace Traced

/-- result of a traced run: outcome, and the trace up to the point where the run stopped -/
abbrev Res (α : Type) := Except IngErr α × List Event

mutual
/-- `preprocess`, returning the trace in every case -/
def preprocessT (fs : FS) (cwd : PathC) : Nat → Program → List Nat → List Event → Res (List RawOp)
  | 0, _, _, tr => (.error (.panic "fuel"), tr)
  | fuel + 1, prog, src, tr =>
    match parseAsm src with
    | .error e => (.error (.parse e), tr)
    | .ok nodes => nodesLoopT fs cwd fuel prog nodes tr
/-- `nodesLoop`, returning the trace in every case -/
def nodesLoopT (fs : FS) (cwd : PathC) : Nat → Program → List Node → List Event → Res (List RawOp)
  | 0, _, _, tr => (.error (.panic "fuel"), tr)
  | _ + 1, _, [], tr => (.ok [], tr)
  | fuel + 1, prog, n :: rest, tr =>
    let one : Res (List RawOp) := match n with
      | .op o => (.ok [.op o], tr)
      | .import_ path =>
        resolveAndIngestT fs cwd fuel prog path tr
      | .include path =>
        match resolveAndIngestT fs cwd fuel prog path tr with
        | (.error e, tr') => (.error e, tr')
        | (.ok ops, tr') => (.ok [.scope (RawOps.ofList ops)], tr')
      | .includeHex path =>
        let resolved := (baseDir prog).join (PathC.ofString path)
        let root : Except IngErr Root := match prog.root with
          | some r => .ok r
          | none => Root.new fs cwd (prog.sources.headD (PathC.ofString path))
        match root with
        | .error e => (.error e, tr)
        | .ok r =>
          match r.check fs (cwd.join resolved) with
          | .error .directoryTraversal => (.error .directoryTraversal, tr ++ [.check (cwd.join resolved) false])
          | .error e => (.error e, tr)
          | .ok loc =>
            let tr := tr ++ [.check (cwd.join resolved) true] ++ [.read loc]
            match fs.readText loc with
            | none => (.error (.io "reading hex include"), tr)
            | some text =>
              match hexDecode (trimCp text) with
              | none => (.error .invalidHex, tr)
              | some bytes => (.ok [.raw bytes], tr)
    match one with
    | (.error e, tr') => (.error e, tr')
    | (.ok ops, tr') =>
      match nodesLoopT fs cwd fuel prog rest tr' with
      | (.error e, tr'') => (.error e, tr'')
      | (.ok more, tr'') => (.ok (ops ++ more), tr'')
/-- `resolveAndIngest`, returning the trace in every case -/
def resolveAndIngestT (fs : FS) (cwd : PathC) : Nat → Program → String → List Event → Res (List RawOp)
  | 0, _, _, tr => (.error (.panic "fuel"), tr)
  | fuel + 1, prog, path, tr =>
    if prog.sources.length > 255 then (.error .recursionLimit, tr)
    else
      let root : Except IngErr Root := match prog.root with
        | some r => .ok r
        | none => Root.new fs cwd (prog.sources.headD (PathC.ofString path))
      match root with
      | .error e => (.error e, tr)
      | .ok r =>
        let candidate := (baseDir prog).join (PathC.ofString path)
        match r.check fs (cwd.join candidate) with
        | .error .directoryTraversal => (.error .directoryTraversal, tr ++ [.check (cwd.join candidate) false])
        | .error e => (.error e, tr)
        | .ok loc =>
          let tr := tr ++ [.check (cwd.join candidate) true] ++ [.read loc]
          match fs.readText loc with
          | none => (.error (.io "reading file before parsing"), tr)
          | some text =>
            preprocessT fs cwd fuel { root := some r, sources := prog.sources ++ [candidate] } text tr
end

/-- `ingestFile`, returning the trace in every case -/
def ingestFileT (fs : FS) (cwd : PathC) (rnd : Nat → Nat) (fuel : Nat) (path : PathC) : Res (List Nat) :=
  match fs.canon (cwd.join path) with
  | none => (.error (.io "opening source"), [])
  | some loc =>
    match fs.readText loc with
    | none => (.error (if fs.isDir loc then .io "reading source" else .io "reading source"), [])
    | some src =>
      let prog : Program := { root := (Root.new fs cwd path).toOption, sources := [path] }
      match preprocessT fs cwd fuel prog src [] with
      | (.error e, tr) => (.error e, tr)
      | (.ok ops, tr) =>
        match assemble rnd fuel {} (RawOps.ofList ops) with
        | .error e => (.error (.assemble e), tr)
        | .ok (bytes, _) => (.ok bytes, tr)

/-! ### the trace invariant for partial traces -/

/-- well-formed trace extension of an arbitrary (possibly failing) run: blocks
`check p true, read loc` with `canon p = loc` and `ok loc`, and failed checks
`check p false` (after which nothing is read) -/
inductive TrP (fs : FS) (ok : List String → Prop) : List Event → Prop
  | nil : TrP fs ok []
  | block (p : PathC) (loc : List String) (rest : List Event) :
      fs.canon p = some loc → ok loc → TrP fs ok rest → TrP fs ok (.check p true :: .read loc :: rest)
  | failed (p : PathC) (rest : List Event) : TrP fs ok rest → TrP fs ok (.check p false :: rest)

theorem TrP.ofTr {fs : FS} {ok : List String → Prop} {a : List Event} (ha : Tr fs ok a) : TrP fs ok a := by
  induction ha with
  | nil => exact TrP.nil
  | cons p loc rest hc ho _ ih => exact TrP.block p loc _ hc ho ih

theorem TrP.append {fs : FS} {ok : List String → Prop} {a b : List Event}
    (ha : TrP fs ok a) (hb : TrP fs ok b) : TrP fs ok (a ++ b) := by
  induction ha with
  | nil => simpa using hb
  | block p loc rest hc ho _ ih => exact TrP.block p loc _ hc ho ih
  | failed p rest _ ih => exact TrP.failed p _ ih

theorem TrP.mono {fs : FS} {ok ok' : List String → Prop} {a : List Event}
    (hm : ∀ l, ok l → ok' l) (ha : TrP fs ok a) : TrP fs ok' a := by
  induction ha with
  | nil => exact TrP.nil
  | block p loc rest hc ho _ ih => exact TrP.block p loc _ hc (hm _ ho) ih
  | failed p rest _ ih => exact TrP.failed p _ ih

theorem TrP.reads {fs : FS} {ok : List String → Prop} {a : List Event}
    (ha : TrP fs ok a) : ∀ loc ∈ readsOf a, ok loc := by
  induction ha with
  | nil => intro loc h; simp [readsOf] at h
  | block p l rest hc ho _ ih =>
    intro loc h
    simp only [readsOf, List.filterMap_cons, List.mem_cons] at h
    rcases h with rfl | h
    · exact ho
    · exact ih loc h
  | failed p rest _ ih =>
    intro loc h
    simp only [readsOf, List.filterMap_cons] at h
    exact ih loc h

theorem TrP.idx {fs : FS} {ok : List String → Prop} {a : List Event}
    (ha : TrP fs ok a) : ∀ (i : Nat) (loc : List String), a[i + 1]? = some (Event.read loc) →
      ∃ p, a[i]? = some (Event.check p true) ∧ fs.canon p = some loc := by
  induction ha with
  | nil => intro i loc h; simp at h
  | block p l rest hc ho hr ih =>
    intro i loc h
    match i with
    | 0 =>
      simp at h
      subst h
      exact ⟨p, by simp, hc⟩
    | 1 =>
      simp at h
      cases hr with
      | nil => simp at h
      | block => simp at h
      | failed => simp at h
    | i + 2 =>
      simp at h
      simpa using ih i loc h
  | failed p rest hr ih =>
    intro i loc h
    match i with
    | 0 =>
      simp at h
      cases hr with
      | nil => simp at h
      | block => simp at h
      | failed => simp at h
    | i + 1 =>
      simp at h
      simpa using ih i loc h

/-- the trace `tr'` extends `tr` by a well-formed partial trace whose reads are all inside the root -/
def InvP (fs : FS) (cwd : PathC) (prog : Program) (tr tr' : List Event) : Prop :=
  ∃ extra, tr' = tr ++ extra ∧ TrP fs (Ok fs cwd prog) extra

theorem InvP.refl (fs : FS) (cwd : PathC) (prog : Program) (tr : List Event) : InvP fs cwd prog tr tr :=
  ⟨[], by simp, TrP.nil⟩

theorem InvP.trans {fs : FS} {cwd : PathC} {prog : Program} {a b c : List Event}
    (h1 : InvP fs cwd prog a b) (h2 : InvP fs cwd prog b c) : InvP fs cwd prog a c := by
  obtain ⟨e1, rfl, t1⟩ := h1
  obtain ⟨e2, rfl, t2⟩ := h2
  exact ⟨e1 ++ e2, by simp, t1.append t2⟩

theorem InvP.failed (fs : FS) (cwd : PathC) (prog : Program) (tr : List Event) (p : PathC) :
    InvP fs cwd prog tr (tr ++ [.check p false]) :=
  ⟨[.check p false], rfl, TrP.failed p [] TrP.nil⟩

theorem InvP.block (fs : FS) (cwd : PathC) (prog : Program) (d : PathC) (r : Root) (p : PathC)
    (loc : List String) (tr : List Event)
    (hroot : (match prog.root with
            | some r => Except.ok r
            | none => Root.new fs cwd (prog.sources.headD d)) = .ok r)
    (hck : r.check fs p = .ok loc) :
    InvP fs cwd prog tr (tr ++ [.check p true] ++ [.read loc]) := by
  obtain ⟨h1, h2, _⟩ := root_check_ok fs cwd prog d r p loc hroot hck
  exact ⟨[.check p true, .read loc], by simp, TrP.block p loc [] h1 h2 TrP.nil⟩


/-- the trace invariant for ALL runs of the three mutually recursive traced functions -/
theorem main_invT (fs : FS) (cwd : PathC) : ∀ fuel : Nat,
    (∀ prog src tr, InvP fs cwd prog tr (preprocessT fs cwd fuel prog src tr).2) ∧
    (∀ prog nodes tr, InvP fs cwd prog tr (nodesLoopT fs cwd fuel prog nodes tr).2) ∧
    (∀ prog path tr, InvP fs cwd prog tr (resolveAndIngestT fs cwd fuel prog path tr).2) := by
  intro fuel
  induction fuel with
  | zero =>
    refine ⟨?_, ?_, ?_⟩ <;> intro prog x tr
    · simp only [preprocessT]; exact InvP.refl ..
    · simp only [nodesLoopT]; exact InvP.refl ..
    · simp only [resolveAndIngestT]; exact InvP.refl ..
  | succ fuel ih =>
    obtain ⟨ihP, ihN, ihR⟩ := ih
    -- the remaining nodes, after a first node that left the trace `tr1`
    have tail : ∀ (prog : Program) (rest : List Node) (tr tr1 : List Event) (f : List RawOp → List RawOp),
        InvP fs cwd prog tr tr1 →
        InvP fs cwd prog tr
          (match nodesLoopT fs cwd fuel prog rest tr1 with
            | (Except.error e, tr'') => ((Except.error e : Except IngErr (List RawOp)), tr'')
            | (Except.ok more, tr'') => (Except.ok (f more), tr'')).snd := by
      intro prog rest tr tr1 f h1
      have h2 := ihN prog rest tr1
      split <;> rename_i heq <;> rw [heq] at h2 <;> exact h1.trans h2
    have stepR : ∀ (prog : Program) (path : String) (tr : List Event) (root : Except IngErr Root),
        root = (match prog.root with
            | some r => Except.ok r
            | none => Root.new fs cwd (prog.sources.headD (PathC.ofString path))) →
        InvP fs cwd prog tr
          (match root with
            | Except.error e => ((Except.error e : Except IngErr (List RawOp)), tr)
            | Except.ok r =>
              match Root.check fs r (cwd.join ((baseDir prog).join (PathC.ofString path))) with
              | Except.error IngErr.directoryTraversal =>
                (Except.error IngErr.directoryTraversal,
                  tr ++ [Event.check (cwd.join ((baseDir prog).join (PathC.ofString path))) false])
              | Except.error e => (Except.error e, tr)
              | Except.ok loc =>
                match fs.readText loc with
                | none =>
                  (Except.error (IngErr.io "reading file before parsing"),
                    tr ++ [Event.check (cwd.join ((baseDir prog).join (PathC.ofString path))) true] ++ [Event.read loc])
                | some text =>
                  preprocessT fs cwd fuel
                    { root := some r, sources := prog.sources ++ [(baseDir prog).join (PathC.ofString path)] } text
                    (tr ++ [Event.check (cwd.join ((baseDir prog).join (PathC.ofString path))) true] ++ [Event.read loc])).snd := by
      intro prog path tr root hroot
      cases root with
      | error e => exact InvP.refl ..
      | ok r =>
        simp only
        cases hck : Root.check fs r (cwd.join ((baseDir prog).join (PathC.ofString path))) with
        | error e =>
          cases e <;> first | exact InvP.refl .. | exact InvP.failed ..
        | ok loc =>
          simp only
          have hb := InvP.block fs cwd prog _ r _ loc tr hroot.symm hck
          cases hrd : fs.readText loc with
          | none => exact hb
          | some text =>
            refine hb.trans ?_
            obtain ⟨_, _, hmono⟩ := root_check_ok fs cwd prog _ r _ loc hroot.symm hck
            obtain ⟨extra, he, ht⟩ := ihP { root := some r, sources := prog.sources ++ [(baseDir prog).join (PathC.ofString path)] } text
              (tr ++ [Event.check (cwd.join ((baseDir prog).join (PathC.ofString path))) true] ++ [Event.read loc])
            exact ⟨extra, he, ht.mono (hmono _)⟩
    have stepH : ∀ (prog : Program) (path : String) (rest : List Node) (tr : List Event) (root : Except IngErr Root),
        root = (match prog.root with
            | some r => Except.ok r
            | none => Root.new fs cwd (prog.sources.headD (PathC.ofString path))) →
        InvP fs cwd prog tr
          (match
            (match root with
            | Except.error e => ((Except.error e : Except IngErr (List RawOp)), tr)
            | Except.ok r =>
              match Root.check fs r (cwd.join ((baseDir prog).join (PathC.ofString path))) with
              | Except.error IngErr.directoryTraversal =>
                (Except.error IngErr.directoryTraversal,
                  tr ++ [Event.check (cwd.join ((baseDir prog).join (PathC.ofString path))) false])
              | Except.error e => (Except.error e, tr)
              | Except.ok loc =>
                match fs.readText loc with
                | none =>
                  (Except.error (IngErr.io "reading hex include"),
                    tr ++ [Event.check (cwd.join ((baseDir prog).join (PathC.ofString path))) true] ++ [Event.read loc])
                | some text =>
                  match hexDecode (trimCp text) with
                  | none =>
                    (Except.error IngErr.invalidHex,
                      tr ++ [Event.check (cwd.join ((baseDir prog).join (PathC.ofString path))) true] ++ [Event.read loc])
                  | some bytes =>
                    (Except.ok [RawOp.raw bytes],
                      tr ++ [Event.check (cwd.join ((baseDir prog).join (PathC.ofString path))) true] ++
                        [Event.read loc])) with
          | (Except.error e, tr') => ((Except.error e : Except IngErr (List RawOp)), tr')
          | (Except.ok ops, tr') =>
            match nodesLoopT fs cwd fuel prog rest tr' with
            | (Except.error e, tr') => (Except.error e, tr')
            | (Except.ok more, tr'') => (Except.ok (ops ++ more), tr'')).snd := by
      intro prog path rest tr root hroot
      cases root with
      | error e => exact InvP.refl ..
      | ok r =>
        simp only
        cases hck : Root.check fs r (cwd.join ((baseDir prog).join (PathC.ofString path))) with
        | error e =>
          cases e <;> first | exact InvP.refl .. | exact InvP.failed ..
        | ok loc =>
          simp only
          have hb := InvP.block fs cwd prog _ r _ loc tr hroot.symm hck
          cases hrd : fs.readText loc with
          | none => exact hb
          | some text =>
            simp only
            cases hhx : hexDecode (trimCp text) with
            | none => exact hb
            | some bytes => exact tail prog rest tr _ _ hb
    refine ⟨?_, ?_, ?_⟩
    · intro prog src tr
      simp only [preprocessT]
      split
      · exact InvP.refl ..
      · exact ihN ..
    · intro prog nodes tr
      cases nodes with
      | nil => simp only [nodesLoopT]; exact InvP.refl ..
      | cons n rest =>
        cases n with
        | op o =>
          simp only [nodesLoopT]
          exact tail prog rest tr tr _ (InvP.refl ..)
        | import_ path =>
          simp only [nodesLoopT]
          have h1 := ihR prog path tr
          split
          · rename_i heq; rw [heq] at h1; exact h1
          · rename_i heq; rw [heq] at h1; exact tail prog rest tr _ _ h1
        | «include» path =>
          simp only [nodesLoopT]
          have h1 := ihR prog path tr
          cases hri : resolveAndIngestT fs cwd fuel prog path tr with
          | mk res tr1 =>
            rw [hri] at h1
            cases res with
            | error e => exact h1
            | ok ops => exact tail prog rest tr _ _ h1
        | includeHex path =>
          simp only [nodesLoopT]
          exact stepH prog path rest tr _ rfl
    · intro prog path tr
      simp only [resolveAndIngestT]
      split
      · exact InvP.refl ..
      · exact stepR prog path tr _ rfl

/-- forget the trace of a failing run: the result as the original model reports it -/
def toOrig {α : Type} : Res α → Except IngErr (α × List Event)
  | (.ok a, tr) => .ok (a, tr)
  | (.error e, _) => .error e

@[simp] theorem toOrig_ok {α : Type} (a : α) (tr : List Event) : toOrig (.ok a, tr) = .ok (a, tr) := rfl
@[simp] theorem toOrig_error {α : Type} (e : IngErr) (tr : List Event) :
    toOrig ((.error e : Except IngErr α), tr) = .error e := rfl

set_option hygiene false in
/-- the common end of the `%include_hex` case of `main_agree`, once the root `r` is known -/
local macro "hex_tac" : tactic => `(tactic|
  (cases Root.check fs r p with
   | error e => cases e <;> rfl
   | ok loc =>
     simp only
     cases fs.readText loc with
     | none => rfl
     | some text =>
       simp only
       cases hexDecode (trimCp text) with
       | none => rfl
       | some bytes =>
         simp only
         cases nodesLoopT fs cwd fuel prog rest
           (tr ++ [Event.check p true] ++ [Event.read loc]) with
         | mk res t => cases res <;> rfl))

set_option hygiene false in
/-- the common end of the `resolveAndIngest` case of `main_agree`, once the root `r` is known -/
local macro "res_tac" : tactic => `(tactic|
  (cases Root.check fs r p with
   | error e => cases e <;> rfl
   | ok loc =>
     simp only
     cases fs.readText loc with
     | none => rfl
     | some text => rfl))

/-- the original model is the traced one with the trace of failing runs forgotten -/
theorem main_agree (fs : FS) (cwd : PathC) : ∀ fuel : Nat,
    (∀ prog src tr, preprocess fs cwd fuel prog src tr = toOrig (preprocessT fs cwd fuel prog src tr)) ∧
    (∀ prog nodes tr, nodesLoop fs cwd fuel prog nodes tr = toOrig (nodesLoopT fs cwd fuel prog nodes tr)) ∧
    (∀ prog path tr, resolveAndIngest fs cwd fuel prog path tr = toOrig (resolveAndIngestT fs cwd fuel prog path tr)) := by
  intro fuel
  induction fuel with
  | zero =>
    refine ⟨?_, ?_, ?_⟩ <;> intro prog x tr
    · simp only [preprocess, preprocessT, toOrig_error]
    · simp only [nodesLoop, nodesLoopT, toOrig_error]
    · simp only [resolveAndIngest, resolveAndIngestT, toOrig_error]
  | succ fuel ih =>
    obtain ⟨ihP, ihN, ihR⟩ := ih
    refine ⟨?_, ?_, ?_⟩
    · intro prog src tr
      simp only [preprocess, preprocessT]
      cases parseAsm src with
      | error e => rfl
      | ok nodes => exact ihN ..
    · intro prog nodes tr
      cases nodes with
      | nil => simp only [nodesLoop, nodesLoopT, toOrig_ok]
      | cons n rest =>
        cases n with
        | op o =>
          simp only [nodesLoop, nodesLoopT, ihN]
          cases nodesLoopT fs cwd fuel prog rest tr with
          | mk res t => cases res <;> rfl
        | import_ path =>
          simp only [nodesLoop, nodesLoopT, ihN, ihR]
          cases resolveAndIngestT fs cwd fuel prog path tr with
          | mk res t =>
            cases res with
            | error e => rfl
            | ok ops =>
              simp only [toOrig_ok]
              cases nodesLoopT fs cwd fuel prog rest t with
              | mk res t => cases res <;> rfl
        | «include» path =>
          simp only [nodesLoop, nodesLoopT, ihN, ihR]
          cases resolveAndIngestT fs cwd fuel prog path tr with
          | mk res t =>
            cases res with
            | error e => rfl
            | ok ops =>
              simp only [toOrig_ok]
              cases nodesLoopT fs cwd fuel prog rest t with
              | mk res t => cases res <;> rfl
        | includeHex path =>
          simp only [nodesLoop, nodesLoopT, ihN]
          generalize cwd.join ((baseDir prog).join (PathC.ofString path)) = p
          cases prog.root with
          | none =>
            simp only
            cases Root.new fs cwd (prog.sources.headD (PathC.ofString path)) with
            | error e => rfl
            | ok r => simp only; hex_tac
          | some r => simp only; hex_tac
    · intro prog path tr
      simp only [resolveAndIngest, resolveAndIngestT, ihP]
      generalize cwd.join ((baseDir prog).join (PathC.ofString path)) = p
      split
      · rfl
      · cases prog.root with
        | none =>
          simp only
          cases Root.new fs cwd (prog.sources.headD (PathC.ofString path)) with
          | error e => rfl
          | ok r => simp only; res_tac
        | some r => simp only; res_tac

/-! ### consequences -/

theorem toOrig_eq_ok {α : Type} {t : Res α} {a : α} {tr' : List Event} (h : toOrig t = .ok (a, tr')) :
    t = (.ok a, tr') := by
  obtain ⟨res, tr⟩ := t
  cases res with
  | error e => simp at h
  | ok b => simp only [toOrig_ok, Except.ok.injEq, Prod.mk.injEq] at h; obtain ⟨rfl, rfl⟩ := h; rfl

theorem toOrig_eq_error {α : Type} {t : Res α} {e : IngErr} (h : toOrig t = .error e) :
    t = (.error e, t.2) := by
  obtain ⟨res, tr⟩ := t
  cases res with
  | error e' => simp only [toOrig_error, Except.error.injEq] at h; subst h; rfl
  | ok b => simp at h

theorem toOrig_map_fst {α : Type} (t : Res α) : (toOrig t).map Prod.fst = t.1 := by
  obtain ⟨res, tr⟩ := t
  cases res <;> rfl

/-- agreement, successful runs: same operations, same trace -/
theorem preprocessT_of_ok (fs : FS) (cwd : PathC) (fuel : Nat) (prog : Program) (src : List Nat)
    (tr : List Event) (ops : List RawOp) (tr' : List Event)
    (h : preprocess fs cwd fuel prog src tr = .ok (ops, tr')) :
    preprocessT fs cwd fuel prog src tr = (.ok ops, tr') :=
  toOrig_eq_ok (((main_agree fs cwd fuel).1 prog src tr).symm.trans h)

/-- agreement, failing runs: same error, and a trace extending the input trace -/
theorem preprocessT_of_error (fs : FS) (cwd : PathC) (fuel : Nat) (prog : Program) (src : List Nat)
    (tr : List Event) (e : IngErr)
    (h : preprocess fs cwd fuel prog src tr = .error e) :
    ∃ extra, preprocessT fs cwd fuel prog src tr = (.error e, tr ++ extra) := by
  have h1 := toOrig_eq_error (((main_agree fs cwd fuel).1 prog src tr).symm.trans h)
  obtain ⟨extra, he, _⟩ := (main_invT fs cwd fuel).1 prog src tr
  exact ⟨extra, by rw [h1, he]⟩

/-- agreement, all runs: the outcome of the traced run is the original outcome without its trace -/
theorem preprocessT_fst (fs : FS) (cwd : PathC) (fuel : Nat) (prog : Program) (src : List Nat)
    (tr : List Event) :
    (preprocess fs cwd fuel prog src tr).map Prod.fst = (preprocessT fs cwd fuel prog src tr).1 := by
  rw [(main_agree fs cwd fuel).1 prog src tr]; exact toOrig_map_fst _

/-- C18 for all runs: whatever the outcome, everything `preprocessT` reads lies inside the root. -/
theorem preprocessT_contained (fs : FS) (cwd : PathC) (fuel : Nat) (prog : Program) (src : List Nat)
    (tr : List Event) :
    ∃ extra, (preprocessT fs cwd fuel prog src tr).2 = tr ++ extra ∧
      ∀ loc ∈ readsOf extra, ∃ r : Root,
        (prog.root = some r ∨ (prog.root = none ∧ ∃ p, Root.new fs cwd p = .ok r)) ∧
        startsWith loc r.canonicalized = true := by
  obtain ⟨extra, he, ht⟩ := (main_invT fs cwd fuel).1 prog src tr
  refine ⟨extra, he, fun loc hl => ?_⟩
  obtain ⟨r, hr, hs⟩ := ht.reads loc hl
  refine ⟨r, ?_, hs⟩
  rcases hr with hr | ⟨hr, d, hd⟩
  · exact Or.inl hr
  · exact Or.inr ⟨hr, _, hd⟩

/-- … and every read, of any run, is immediately preceded by the successful check of a path
resolving to that very location. -/
theorem preprocessT_checked (fs : FS) (cwd : PathC) (fuel : Nat) (prog : Program) (src : List Nat)
    (tr : List Event) :
    ∃ extra, (preprocessT fs cwd fuel prog src tr).2 = tr ++ extra ∧
      ∀ (i : Nat) (loc : List String), extra[i + 1]? = some (Event.read loc) →
        ∃ p, extra[i]? = some (Event.check p true) ∧ fs.canon p = some loc := by
  obtain ⟨extra, he, ht⟩ := (main_invT fs cwd fuel).1 prog src tr
  exact ⟨extra, he, ht.idx⟩

/-- `ingestFile` is `ingestFileT` with the trace of failing runs forgotten -/
theorem ingestFile_eq_toOrig (fs : FS) (cwd : PathC) (rnd : Nat → Nat) (fuel : Nat) (path : PathC) :
    ingestFile fs cwd rnd fuel path = toOrig (ingestFileT fs cwd rnd fuel path) := by
  unfold ingestFile ingestFileT
  cases fs.canon (cwd.join path) with
  | none => rfl
  | some loc =>
    simp only
    cases fs.readText loc with
    | none => rfl
    | some src =>
      simp only [(main_agree fs cwd fuel).1]
      cases preprocessT fs cwd fuel { root := (Root.new fs cwd path).toOption, sources := [path] } src [] with
      | mk res tr =>
        cases res with
        | error e => rfl
        | ok ops =>
          simp only [toOrig_ok]
          cases assemble rnd fuel {} (RawOps.ofList ops) with
          | error e => rfl
          | ok v => rfl

theorem ingestFileT_of_ok (fs : FS) (cwd : PathC) (rnd : Nat → Nat) (fuel : Nat) (path : PathC)
    (bytes : List Nat) (tr : List Event) (h : ingestFile fs cwd rnd fuel path = .ok (bytes, tr)) :
    ingestFileT fs cwd rnd fuel path = (.ok bytes, tr) :=
  toOrig_eq_ok ((ingestFile_eq_toOrig fs cwd rnd fuel path).symm.trans h)

theorem ingestFileT_of_error (fs : FS) (cwd : PathC) (rnd : Nat → Nat) (fuel : Nat) (path : PathC)
    (e : IngErr) (h : ingestFile fs cwd rnd fuel path = .error e) :
    ∃ tr, ingestFileT fs cwd rnd fuel path = (.error e, tr) :=
  ⟨_, toOrig_eq_error ((ingestFile_eq_toOrig fs cwd rnd fuel path).symm.trans h)⟩

theorem ingestFileT_fst (fs : FS) (cwd : PathC) (rnd : Nat → Nat) (fuel : Nat) (path : PathC) :
    (ingestFile fs cwd rnd fuel path).map Prod.fst = (ingestFileT fs cwd rnd fuel path).1 := by
  rw [ingestFile_eq_toOrig]; exact toOrig_map_fst _

/-- the trace of any run of `ingestFileT` is a well-formed partial trace whose reads are inside
the root of the top-level file -/
theorem ingestFileT_trace (fs : FS) (cwd : PathC) (rnd : Nat → Nat) (fuel : Nat) (path : PathC) :
    TrP fs (fun loc => ∃ r, Root.new fs cwd path = .ok r ∧ startsWith loc r.canonicalized = true)
      (ingestFileT fs cwd rnd fuel path).2 := by
  unfold ingestFileT
  cases fs.canon (cwd.join path) with
  | none => exact TrP.nil
  | some loc0 =>
    simp only
    cases fs.readText loc0 with
    | none => exact TrP.nil
    | some src =>
      simp only
      obtain ⟨extra, he, ht⟩ := (main_invT fs cwd fuel).1
        { root := (Root.new fs cwd path).toOption, sources := [path] } src []
      simp only [List.nil_append] at he
      have ht' : TrP fs (fun loc => ∃ r, Root.new fs cwd path = .ok r ∧ startsWith loc r.canonicalized = true)
          extra := by
        refine ht.mono ?_
        intro loc ⟨r, hr, hs⟩
        refine ⟨r, ?_, hs⟩
        rcases hr with hr | ⟨_, d, hd⟩
        · cases hn : Root.new fs cwd path with
          | error e => simp [hn, Except.toOption] at hr
          | ok r0 => simp [hn, Except.toOption] at hr; rw [hr]
        · simpa using hd
      cases hp : preprocessT fs cwd fuel { root := (Root.new fs cwd path).toOption, sources := [path] } src [] with
      | mk res tr =>
        rw [hp] at he
        simp only at he
        subst he
        cases res with
        | error e => exact ht'
        | ok ops =>
          simp only
          cases assemble rnd fuel {} (RawOps.ofList ops) with
          | error e => exact ht'
          | ok v => exact ht'

/-- C18 for all runs of `ingest_file`: whatever the outcome, everything read besides the
top-level source itself lies inside the directory of the top-level source. -/
theorem ingestFileT_contained (fs : FS) (cwd : PathC) (rnd : Nat → Nat) (fuel : Nat) (path : PathC) :
    ∀ loc ∈ readsOf (ingestFileT fs cwd rnd fuel path).2,
      ∃ r, Root.new fs cwd path = .ok r ∧ startsWith loc r.canonicalized = true :=
  (ingestFileT_trace fs cwd rnd fuel path).reads

theorem ingestFileT_checked (fs : FS) (cwd : PathC) (rnd : Nat → Nat) (fuel : Nat) (path : PathC) :
    ∀ (i : Nat) (loc : List String), (ingestFileT fs cwd rnd fuel path).2[i + 1]? = some (Event.read loc) →
      ∃ p, (ingestFileT fs cwd rnd fuel path).2[i]? = some (Event.check p true) ∧ fs.canon p = some loc :=
  (ingestFileT_trace fs cwd rnd fuel path).idx

end Traced
end Asm
end EtkVerif
