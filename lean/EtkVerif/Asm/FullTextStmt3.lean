/-
Part 3 of the body statements: `%push(<expr>)` and `pushN <expr>`; then every body
statement through both statement rules.
-/
import EtkVerif.Asm.FullTextStmt2
namespace EtkVerif
namespace Asm
namespace FullText
open Pest Listing ExprText
open Layout (Suf Gap commentText STail LineEnd)

variable {text : List Nat}

/-! ### `%push(expression)` -/

theorem apush_facts (l : List Nat) (sq : XSeq) (r : List Nat) (hl : ExprText.IsBlanks l) (hwf : sq.WF)
    (hr : ExprText.IsBlanks r) :
    StmtFact text (.plain (.apush l sq r)) ∧ BodyFact text (.apush l sq r) := by
  have key : ∀ S B c s, Suf text S ((BStmt.apush l sq r).text ++ (B ++ commentText c ++ s)) → Gap B c s →
      ∃ Q A, Ev (envOf text) (12 * text.length + 231) (.ref 2) .nonAtomic false S
          (some (Q + 1, [.mk 15 S (Q + 1) [.mk 19 (S + 1) (Q + 1) [A]]])) ∧
        Ev (envOf text) (12 * text.length + 231) (.ref 11) .nonAtomic false S
          (some (Q + 1, [.mk 19 (S + 1) (Q + 1) [A]])) ∧
        Sk (envOf text) (text.length + 100) .nonAtomic (Q + 1)
          (S + (BStmt.apush l sq r).text.length + B.length + (commentText c).length) ∧
        A.rule = 41 ∧ ∀ f, 2 * text.length + 2 ≤ f → parseExpr text.toArray f A = .ok sq.expr := by
    intro S B c s hs hg
    obtain ⟨hG, hC⟩ := ProgText.gap_gapG hg
    obtain ⟨X, hX⟩ : ∃ X, X = B ++ commentText c ++ s := ⟨_, rfl⟩
    rw [← hX] at hs
    have hs0 : Suf text S (37 :: 112 :: 117 :: 115 :: 104 :: 40 :: (l ++ (sq.render ++ (r ++ 41 :: X)))) := by
      have := hs
      simp only [BStmt.text, List.append_assoc, List.cons_append, List.nil_append] at this
      exact this
    have hs1 : Suf text (S + 1) (112 :: 117 :: 115 :: 104 :: 40 :: (l ++ (sq.render ++ (r ++ 41 :: X)))) := hs0.tail
    have hs5 : Suf text (S + 1 + 4) (40 :: (l ++ (sq.render ++ (r ++ 41 :: X)))) :=
      Suf.app (a := [112, 117, 115, 104]) hs1
    have hs6 : Suf text (S + 1 + 4 + 1) (l ++ (sq.render ++ (r ++ 41 :: X))) := hs5.tail
    have hsP : Suf text (S + 1 + 4 + 1 + l.length) (sq.render ++ (r ++ 41 :: X)) := hs6.app
    have hsQ : Suf text (S + 1 + 4 + 1 + l.length + sq.render.length + r.length) (41 :: X) := hsP.app.app
    have hsE : Suf text (S + 1 + 4 + 1 + l.length + sq.render.length + r.length + 1) ((B ++ commentText c) ++ s) := by
      rw [← hX]; exact hsQ.tail
    have hlen := hsE.len
    simp only [List.length_append] at hlen
    obtain ⟨c1, sr, hsr, hc1⟩ := xseq_start sq hwf
    have hsP' : Suf text (S + 1 + 4 + 1 + l.length) (c1 :: (sr ++ (r ++ 41 :: X))) := by rw [hsr] at hsP; exact hsP
    -- the expression
    obtain ⟨hS, hskS⟩ := seq_fact sq hwf (S + 1 + 4 + 1 + l.length) r (41 :: X) (gapG_blanks hr (by simp [NonBlank]))
      (xcloseC_paren X) hsP
    have hb := xseqEnd_bounds (S + 1 + 4 + 1 + l.length) sq r.length
    generalize xseqEnd (S + 1 + 4 + 1 + l.length) sq r.length = e at hS hskS hb
    generalize hP : S + 1 + 4 + 1 + l.length = P at *
    generalize hQ : P + sq.render.length + r.length = Q at *
    generalize hA : xseqPair P sq r.length = A at *
    have hS' : Ev (envOf text) (12 * text.length + 204) (.ref 41) .nonAtomic false P (some (e, [A])) :=
      hS.mono (by omega)
    have harg : Ev (envOf text) (12 * text.length + 207) (.ref 22) .nonAtomic false P (some (e, [A])) :=
      evr (gr22 text) (by omega) (Ev.alt_r (ev23_fail hsP' (xstartC_ne hc1).1) hS' (d := 12 * text.length + 204))
        (d := 12 * text.length + 205)
    have h44 : Ev (envOf text) 1 (.str [44]) .nonAtomic false Q none :=
      ev_str_fail hsQ (by simp [List.isPrefixOf])
    have hskS' : Sk (envOf text) (text.length + 100) .nonAtomic e Q := hskS.mono (by omega)
    have hstar : Ev (envOf text) (12 * text.length + 209) (.star (.seq (.ref 22) (.str [44]))) .nonAtomic false
        P (some (P, [])) :=
      Ev.star0 (Ev.seq_fail2 harg hskS' h44 (d := 12 * text.length + 207)) (d := 12 * text.length + 208)
    have hskP : Sk (envOf text) 30 .nonAtomic P P := skip_none hsP' (xstartC_nonBlank hc1)
    have hlist : Ev (envOf text) (12 * text.length + 212) (.ref 21) .nonAtomic false P (some (e, [A])) :=
      evr (gr21' text) (by omega)
        (Ev.seq hstar hskP (Ev.opt_some harg (d := 12 * text.length + 207)) (d := 12 * text.length + 209))
        (d := 12 * text.length + 210)
    have h40 : Ev (envOf text) 1 (.str [40]) .nonAtomic false (S + 1 + 4) (some (S + 1 + 4 + 1, [])) :=
      ev_str_ok (pat := [40]) (s := l ++ (sq.render ++ (r ++ 41 :: X))) hs5
    have hskl : Sk (envOf text) (l.length + 30) .nonAtomic (S + 1 + 4 + 1) P := by
      rw [← hP]
      exact skip_blanks l hl
        (by rw [hsr] at hs6; exact hs6 : Suf text (S + 1 + 4 + 1) (l ++ c1 :: (sr ++ (r ++ 41 :: X))))
        (xstartC_nonBlank hc1)
    have h41 : Ev (envOf text) 1 (.str [41]) .nonAtomic false Q (some (Q + 1, [])) :=
      ev_str_ok (pat := [41]) (s := X) hsQ
    have hargs : Ev (envOf text) (12 * text.length + 217) (.ref 20) .nonAtomic false (S + 1 + 4) (some (Q + 1, [A])) :=
      evr (gr20' text) (by omega)
        (Ev.seq (Ev.seq h40 hskl (Ev.opt_some hlist (d := 12 * text.length + 212)) (d := 12 * text.length + 213))
          hskS' h41 (d := 12 * text.length + 214)) (d := 12 * text.length + 215)
    have hpush : Ev (envOf text) 1 (.str [112, 117, 115, 104]) .nonAtomic false (S + 1) (some (S + 1 + 4, [])) :=
      ev_str_ok (pat := [112, 117, 115, 104]) (s := 40 :: (l ++ (sq.render ++ (r ++ 41 :: X)))) hs1
    have hsk5 : Sk (envOf text) 30 .nonAtomic (S + 1 + 4) (S + 1 + 4) := skip_none hs5 (by simp [NonBlank])
    have h19 : ∀ at_, Ev (envOf text) (12 * text.length + 220) (.ref 19) at_ false (S + 1)
        (some (Q + 1, [.mk 19 (S + 1) (Q + 1) [A]])) := fun at_ =>
      evr (gr19 text) (by omega) (Ev.seq hpush hsk5 hargs (d := 12 * text.length + 217)) (d := 12 * text.length + 218)
    have h37 : ∀ at_, Ev (envOf text) 1 (.str [37]) at_ false S (some (S + 1, [])) := fun at_ =>
      ev_str_ok (pat := [37]) (s := 112 :: 117 :: 115 :: 104 :: 40 :: (l ++ (sq.render ++ (r ++ 41 :: X)))) hs0
    have f16 : Ev (envOf text) 4 (.ref 16) .compound false (S + 1) none :=
      evr (gr16 text) (by omega) (Ev.seq_fail1 (ev_str_fail hs1 (by simp [List.isPrefixOf])) (d := 1))
    have f17 : Ev (envOf text) 4 (.ref 17) .compound false (S + 1) none :=
      evr (gr17 text) (by omega) (Ev.seq_fail1 (ev_str_fail hs1 (by simp [List.isPrefixOf])) (d := 1))
    have f18 : Ev (envOf text) 4 (.ref 18) .compound false (S + 1) none :=
      evr (gr18 text) (by omega) (Ev.seq_fail1 (ev_str_fail hs1 (by simp [List.isPrefixOf])) (d := 1))
    have h15 : Ev (envOf text) (12 * text.length + 225) (.ref 15) .nonAtomic false S
        (some (Q + 1, [.mk 15 S (Q + 1) [.mk 19 (S + 1) (Q + 1) [A]]])) :=
      (evr (gr15 text) (by omega)
        (Ev.seq (h37 .compound) (sk_comp _) (Ev.alt_r (Ev.alt_r (Ev.alt_r f16 f17 (d := 4)) f18 (d := 5)) (h19 .compound)
          (d := 12 * text.length + 220)) (d := 12 * text.length + 221)) (d := 12 * text.length + 222)
          (at_ := .nonAtomic)).mono (by omega)
    have hw := top_win
    simp only [Bool.and_eq_true] at hw
    have hA0 := hs0.agree (s1 := [37]) (cs := [single 37]) (closed := false) ⟨single_mem 37, trivial⟩
      (fun h => by cases h)
    have f40 : Ev (envOf text) 30 (.ref 40) .nonAtomic false S none := by
      simpa using Ev.of_window hA0 (resFail_eq hw.1.1)
    have hstmt : Ev (envOf text) (12 * text.length + 231) (.ref 2) .nonAtomic false S
        (some (Q + 1, [.mk 15 S (Q + 1) [.mk 19 (S + 1) (Q + 1) [A]]])) :=
      Layout.ev_stmt (Ev.alt_l (Ev.alt_l (Ev.alt_l (Ev.alt_r f40 h15 (d := 12 * text.length + 225))
        (d := 12 * text.length + 226)) (d := 12 * text.length + 227)) (d := 12 * text.length + 228))
        (d := 12 * text.length + 229)
    -- inside a macro body: `"%" ~ push_macro`
    have hsk1 : Sk (envOf text) 30 .nonAtomic (S + 1) (S + 1) := skip_none hs1 (by simp [NonBlank])
    have hp19 : Ev (envOf text) (12 * text.length + 221) pct19 .nonAtomic false S
        (some (Q + 1, [.mk 19 (S + 1) (Q + 1) [A]])) :=
      Ev.seq (h37 .nonAtomic) hsk1 (h19 .nonAtomic) (d := 12 * text.length + 220)
    have hims : Ev (envOf text) (12 * text.length + 231) (.ref 11) .nonAtomic false S
        (some (Q + 1, [.mk 19 (S + 1) (Q + 1) [A]])) :=
      (evr (sgr11 text) (by omega) (Ev.alt_l (Ev.alt_l (Ev.alt_l (Ev.alt_r f40 hp19 (d := 12 * text.length + 221))
        (d := 12 * text.length + 222) (b := .ref 14)) (d := 12 * text.length + 223) (b := .ref 4))
        (d := 12 * text.length + 224) (b := .ref 3)) (d := 12 * text.length + 225)).mono (by omega)
    have hsk2 := skip_gapG hG hsE
    have etl : (BStmt.apush l sq r).text.length = 6 + l.length + sq.render.length + r.length + 1 := by
      simp only [BStmt.text, List.length_append, List.length_cons, List.length_nil]
    refine ⟨Q, A, hstmt, hims, ?_, by rw [← hA]; exact xseqPair_rule _ _ _, ?_⟩
    · rw [etl, List.length_append] at *
      have e2 : S + (6 + l.length + sq.render.length + r.length + 1) + B.length + (commentText c).length =
          Q + 1 + (B.length + (commentText c).length) := by omega
      rw [e2]; exact hsk2.mono (by omega)
    · intro f hf
      have hsP2 : Suf text P (sq.render ++ (r ++ 41 :: X)) := hsP
      have hlenP := hsP2.len
      simp only [List.length_append] at hlenP
      have hw := seq_walk sq hwf P r.length _ f hsP2 (by omega)
      rw [hA] at hw
      exact hw
  constructor
  · intro S B c s hs hg
    obtain ⟨Q, A, h2, _, hsk, hrA, hwalk⟩ := key S B c s hs hg
    refine ⟨_, _, h2.mono (by omega), hsk.mono (by omega), by simp [rule_mk, Pest.EOI], ?_⟩
    intro f hf
    have hw := hwalk f (by omega)
    simp [rule_mk, Gen.R_builtin, parseBuiltin, kids_mk, Gen.R_import, Gen.R_include, Gen.R_include_hex,
      Gen.R_push_macro, parsePushMacro, hrA, Gen.R_expression, hw, Except.map, Stmt.node, BStmt.aop]
  · intro S B c s hs hg
    obtain ⟨Q, A, _, h11, hsk, hrA, hwalk⟩ := key S B c s hs hg
    refine ⟨_, _, h11.mono (by omega), hsk.mono (by omega), ?_⟩
    intro f hf
    have hw := hwalk f (by omega)
    simp [rule_mk, kids_mk, Gen.R_push_macro, parsePushMacro, hrA, Gen.R_expression, hw, Except.map, BStmt.aop]

/-! ### `push<n> expression` -/

theorem pushE_facts (n ws : Nat) (sq : XSeq) (hwf : (BStmt.pushE n ws sq).WF) :
    StmtFact text (.plain (.pushE n ws sq)) ∧ BodyFact text (.pushE n ws sq) := by
  obtain ⟨hn1, hn32, hws, hsq, hfit⟩ := hwf
  have key : ∀ S B c s, Suf text S ((BStmt.pushE n ws sq).text ++ (B ++ commentText c ++ s)) → Gap B c s →
      ∃ e pr, (Ev (envOf text) (12 * text.length + 220) (.ref 2) .nonAtomic false S (some (e, [pr])) ∧
        Ev (envOf text) (12 * text.length + 220) (.ref 11) .nonAtomic false S (some (e, [pr]))) ∧
        Sk (envOf text) (text.length + 100) .nonAtomic e
          (S + (BStmt.pushE n ws sq).text.length + B.length + (commentText c).length) ∧
        AopOK text pr (.pushE n ws sq) ∧ pr.rule = 4 := by
    intro S B c s hs hg
    obtain ⟨hG, hC⟩ := ProgText.gap_gapG hg
    -- the table row of `n`
    have hchk : ProgText.pushChk n = true :=
      List.all_eq_true.mp ProgText.pushChk_all n (List.mem_range.mpr (by omega))
    have hn0 : (n == 0) = false := by simp; omega
    simp only [ProgText.pushChk, hn0, Bool.false_or, Bool.and_eq_true] at hchk
    obtain ⟨⟨⟨hw32, hw9⟩, hdig⟩, hrad⟩ := hchk
    have hwin : ProgText.pushChk1 n ws = true := by
      rcases hws with h | h
      · rw [h]; exact hw32
      · rw [h]; exact hw9
    simp only [ProgText.pushChk1, Bool.and_eq_true] at hwin
    obtain ⟨⟨hwH, hw15⟩, hw14⟩ := hwin
    have hdig' : ∀ x ∈ ProgText.decimal n, isDec x = true := by simpa using hdig
    have hrad' : parseRadix (ProgText.decimal n) 10 = .ok (Int.ofNat n) := by
      cases h : parseRadix (ProgText.decimal n) 10 with
      | error e => rw [h] at hrad; cases hrad
      | ok v => rw [h] at hrad; simp only [beq_iff_eq] at hrad; rw [hrad]
    generalize hdec : ProgText.decimal n = dec at *
    obtain ⟨X, hX⟩ : ∃ X, X = B ++ commentText c ++ s := ⟨_, rfl⟩
    rw [← hX] at hs
    have hsA : Suf text S (([112, 117, 115, 104] ++ dec ++ [ws]) ++ (sq.render ++ X)) := by
      have := hs
      simp only [BStmt.text, hdec, List.append_assoc] at this ⊢
      exact this
    have hs0 : Suf text S (112 :: ((117 :: 115 :: 104 :: dec) ++ (ws :: (sq.render ++ X)))) := by
      have := hsA
      simp only [List.append_assoc, List.cons_append, List.nil_append] at this
      exact this
    have eL : ([112, 117, 115, 104] ++ dec ++ [ws]).length = 4 + dec.length + 1 := by
      simp only [List.length_append, List.length_cons, List.length_nil]
    have hsP : Suf text (S + (4 + dec.length + 1)) (sq.render ++ X) := by
      have := hsA.app; rwa [eL] at this
    have hsP2 : Suf text (S + (4 + dec.length + 1)) (sq.render ++ ((B ++ commentText c) ++ s)) := by
      rw [← hX]; exact hsP
    have hlenP := hsP2.len
    simp only [List.length_append] at hlenP
    obtain ⟨c1, sr, hsr, hc1⟩ := xseq_start sq hsq
    -- the window `push<n><ws>`
    have hA : Agree (envOf text) (ekOf (ProgText.pushWin n ws) false) S := by
      have hm : Match (ProgText.pushWin n ws) ([112, 117, 115, 104] ++ dec ++ [ws]) := by
        rw [ProgText.pushWin, hdec]; exact Match.singles _
      exact hsA.agree hm (fun h => by cases h)
    have Whead : Ev (envOf text) D Layout.pushHead .compound false S
        (some (S + (4 + dec.length + 1), [.mk 8 (S + 4) (S + (4 + dec.length)) []])) := by
      simpa [shiftL, Pair.shift] using Ev.of_window hA (resIs_eq hwH)
    have W15 : Ev (envOf text) D (.ref 15) .nonAtomic false S none := by
      simpa using Ev.of_window hA (resFail_eq hw15)
    have W14 : Ev (envOf text) D (.ref 14) .nonAtomic false S none := by
      simpa using Ev.of_window hA (resFail_eq hw14)
    -- `label_definition` fails: after the word and the blank comes the operand, not `:`
    have hrun : ∀ x ∈ 117 :: 115 :: 104 :: dec, isLb x = true := by
      intro x hx
      simp only [List.mem_cons] at hx
      rcases hx with h | h | h | h
      · subst h; decide
      · subst h; decide
      · subst h; decide
      · exact ProgText.isLb_of_isDec (hdig' x h)
    have hwsLb : headIs isLb (ws :: (sq.render ++ X)) = false := by
      rcases hws with h | h <;> subst h <;> rfl
    have h39 := ev39_ok hs0 (by decide) hrun hwsLb
    have hs1 : Suf text (S + 1 + (117 :: 115 :: 104 :: dec).length) (ws :: (sq.render ++ X)) := hs0.tail.app
    have hwsB : ExprText.IsBlanks [ws] := by
      intro x hx; simp only [List.mem_singleton] at hx; rw [hx]; exact hws
    have hskw := skip_blanks [ws] hwsB
      (by rw [hsr] at hs1; exact hs1 : Suf text _ ([ws] ++ c1 :: (sr ++ X))) (xstartC_nonBlank hc1)
    have hs2 : Suf text (S + 1 + (117 :: 115 :: 104 :: dec).length + [ws].length) (c1 :: (sr ++ X)) := by
      have := hs1.tail; rw [hsr] at this; exact this
    have hc58 : c1 ≠ 58 := (xstartC_ne hc1).2.1
    have h58 : Ev (envOf text) 1 (.str [58]) .nonAtomic false _ none :=
      ev_str_fail hs2 (by have : (58 : Nat) ≠ c1 := fun h => hc58 h.symm
                          simp [List.isPrefixOf, this])
    have e117 : (117 :: 115 :: 104 :: dec).length = dec.length + 3 := by simp
    have ews : [ws].length = 1 := rfl
    have f40 := Layout.ev_labeldef_fail (Ev.seq_fail2 h39 hskw h58 (d := dec.length + 40)) (d := dec.length + 41)
      (at_ := .nonAtomic)
    have f19 : Ev (envOf text) 2 pct19 .nonAtomic false S none := pct19_fail_letter hs0 (by decide)
    -- the operand
    obtain ⟨hS, hskS⟩ := seq_fact sq hsq (S + (4 + dec.length + 1)) (B ++ commentText c) s hG (closeC_x hC) hsP2
    have hb := xseqEnd_bounds (S + (4 + dec.length + 1)) sq (B ++ commentText c).length
    generalize xseqEnd (S + (4 + dec.length + 1)) sq (B ++ commentText c).length = e at hS hskS hb
    generalize hAp : xseqPair (S + (4 + dec.length + 1)) sq (B ++ commentText c).length = A at *
    have hexpr : Ev (envOf text) (12 * text.length + 204) (.ref 41) .compound false (S + (4 + dec.length + 1))
        (some (e, [A])) := ProgText.ref41_atom .compound (hS.mono (by omega))
    have hD : D = 100 := rfl
    have hpush : Ev (envOf text) (12 * text.length + 207) (.ref 4) .nonAtomic false S
        (some (e, [.mk 4 S e ([.mk 8 (S + 4) (S + (4 + dec.length)) []] ++ [A])])) :=
      Layout.ev_push (Ev.seq Whead (sk_comp _) hexpr (d := 12 * text.length + 204)) (d := 12 * text.length + 205)
    have hlen0 := hs0.len
    simp only [List.length_append, List.length_cons] at hlen0
    have hw := win4 (d := 12 * text.length + 207) (f40.mono (by omega)) (W15.mono (by omega)) (f19.mono (by omega))
      (W14.mono (by omega)) hpush
    have etl : (BStmt.pushE n ws sq).text.length = 4 + dec.length + 1 + sq.render.length := by
      simp only [BStmt.text, hdec, List.length_append, List.length_cons, List.length_nil]
    refine ⟨_, _, ⟨hw.1.mono (by omega), hw.2.mono (by omega)⟩, ?_, ?_, rfl⟩
    · rw [etl]
      rw [List.length_append] at hskS
      have e2 : S + (4 + dec.length + 1 + sq.render.length) + B.length + (commentText c).length =
          S + (4 + dec.length + 1) + sq.render.length + (B.length + (commentText c).length) := by omega
      rw [e2]; exact hskS.mono (by omega)
    · intro f hf
      obtain ⟨f, rfl⟩ : ∃ f', f = f' + 1 := ⟨f - 1, by omega⟩
      have hw := seq_walk sq hsq (S + (4 + dec.length + 1)) (B ++ commentText c).length _ f hsP2 (by omega)
      rw [hAp] at hw
      have hsz : Suf text (S + 4) (dec ++ (ws :: (sq.render ++ X))) := by
        have := Suf.app (a := [112, 117, 115, 104]) (b := dec ++ (ws :: (sq.render ++ X)))
          (by simpa only [List.append_assoc, List.cons_append, List.nil_append] using hsA)
        exact this
      have ht : txt text.toArray (.mk 8 (S + 4) (S + (4 + dec.length)) []) = dec := by
        have := txt_suf hsz 8 []
        rwa [Nat.add_assoc] at this
      have htn : (Int.ofNat n).toNat = n := rfl
      have hsize : ¬ (n < 1 ∨ n > 32) := by omega
      simp only [rule_mk, Gen.R_push_macro, Nat.reduceEqDiff, if_false]
      rw [parseAOp]
      simp only [rule_mk, Gen.R_local_macro, Gen.R_label_definition, Gen.R_push, Nat.reduceEqDiff, if_false, if_true]
      simp only [parsePush, kids_mk, List.singleton_append, ht, hrad', htn, hsize, if_false, hw]
      cases hev : evalClosed f sq.expr with
      | none => simp [BStmt.aop]
      | some v =>
        have hlt := hfit f v hev
        have hnge : ¬ (v ≥ (2 : Int) ^ (8 * n)) := by omega
        simp [hnge, BStmt.aop]
  constructor
  · intro S B c s hs hg
    obtain ⟨e, pr, hw, hsk, hA, hr⟩ := key S B c s hs hg
    exact ⟨e, pr, hw.1.mono (by omega), hsk.mono (by omega),
      nodeOK_of_aop (by rw [hr]; decide) (by rw [hr]; decide) (by rw [hr]; decide) hA⟩
  · intro S B c s hs hg
    obtain ⟨e, pr, hw, hsk, hA, hr⟩ := key S B c s hs hg
    exact ⟨e, pr, hw.2.mono (by omega), hsk.mono (by omega), hA⟩

/-! ### every body statement -/

theorem bstmt_facts (b : BStmt) (h : b.WF) : StmtFact text (.plain b) ∧ BodyFact text b := by
  cases b with
  | ins i => exact ins_facts i h
  | pushE n ws sq => exact pushE_facts n ws sq h
  | apush l sq r => exact apush_facts l sq r h.1 h.2.1 h.2.2
  | label name gap => exact label_facts name gap h.1 h.2
  | invoke name gap args => exact invoke_facts name gap args h

theorem body_fact (b : BStmt) (h : b.WF) : BodyFact text b := (bstmt_facts b h).2

end FullText
end Asm
end EtkVerif
