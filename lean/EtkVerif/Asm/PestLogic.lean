/-
Soundness of the window interpreter `matchK` (PestK.lean) with respect to the pest
interpreter `matchE` (Pest.lean): whenever the window interpreter gives a definite
answer with fuel `n`, the real interpreter gives the same answer (shifted by the
window's offset) with every fuel `≥ n`, on every input that agrees with the window.
-/
import EtkVerif.Asm.PestK
namespace EtkVerif
namespace Pest

/-! ### shifting token pairs -/

mutual
def Pair.shift (o : Nat) : Pair → Pair
  | .mk r s e k => .mk r (o + s) (o + e) (shiftL o k)
def shiftL (o : Nat) : List Pair → List Pair
  | [] => []
  | a :: as => Pair.shift o a :: shiftL o as
end

theorem shiftL_eq_map (o : Nat) : ∀ l, shiftL o l = l.map (Pair.shift o)
  | [] => rfl
  | a :: as => by simp [shiftL, shiftL_eq_map o as]

theorem shiftL_append (o : Nat) (a b : List Pair) : shiftL o (a ++ b) = shiftL o a ++ shiftL o b := by
  simp [shiftL_eq_map]

theorem shiftL_flatten_reverse (o : Nat) (acc : List (List Pair)) :
    shiftL o acc.reverse.flatten = (acc.map (shiftL o)).reverse.flatten := by
  rw [shiftL_eq_map, List.map_flatten, List.map_reverse]
  congr 2
  apply List.map_congr_left
  intro a _
  rw [shiftL_eq_map]

def shiftR (o : Nat) : Res → Res
  | none => none
  | some (q, ks) => some (o + q, shiftL o ks)

@[simp] theorem shiftR_none (o : Nat) : shiftR o none = none := rfl
@[simp] theorem shiftR_some (o q : Nat) (ks : List Pair) : shiftR o (some (q, ks)) = some (o + q, shiftL o ks) := rfl
@[simp] theorem shiftL_nil (o : Nat) : shiftL o [] = [] := rfl

theorem tokF_shift (o n p : Nat) (la emit : Bool) (r : Res) :
    tokF n (o + p) la emit (shiftR o r) = shiftR o (tokF n p la emit r) := by
  cases r with
  | none => rfl
  | some x =>
    obtain ⟨q, ks⟩ := x
    simp only [tokF, shiftR_some]
    split <;> simp [shiftL, Pair.shift]

theorem clsF_shift (o p : Nat) (b : Bool) : clsF b (o + p) = shiftR o (clsF b p) := by
  cases b <;> simp [clsF, Nat.add_assoc]

/-! ### agreement of an input with a window -/

structure Agree (env : Env) (ek : EnvK) (o : Nat) : Prop where
  g : env.g = ek.g.toArray
  ws : env.ws = ek.ws
  comment : env.comment = ek.comment
  cs : ∀ q cl, ek.cs[q]? = some cl → ∃ c, env.inp[o + q]? = some c ∧ cl.mem c
  closed : ek.closed = true → env.inp.size = o + ek.cs.length

def charInAny (inp : Array Nat) (p : Nat) (rs : List (Nat × Nat)) : Bool :=
  match inp[p]? with
  | some c => inRanges rs c
  | none => false

theorem charIn_eq (inp : Array Nat) (p lo hi : Nat) : charIn inp p lo hi = charInAny inp p [(lo, hi)] := by
  unfold charIn charInAny
  cases inp[p]? <;> simp [inRanges]

theorem within_mem {cl : Cls} {rs : List (Nat × Nat)} {c : Nat} (h : cl.within rs = true) (hc : cl.mem c) :
    inRanges rs c = true := by
  obtain ⟨r, hr, h1, h2⟩ := hc
  have := List.all_eq_true.mp h r hr
  obtain ⟨s, hs, hs2⟩ := List.any_eq_true.mp this
  simp only [Bool.and_eq_true, decide_eq_true_eq] at hs2
  exact List.any_eq_true.mpr ⟨s, hs, by simp only [Bool.and_eq_true, decide_eq_true_eq]; omega⟩

theorem disjoint_mem {cl : Cls} {rs : List (Nat × Nat)} {c : Nat} (h : cl.disjoint rs = true) (hc : cl.mem c) :
    inRanges rs c = false := by
  obtain ⟨r, hr, h1, h2⟩ := hc
  have := List.all_eq_true.mp h r hr
  cases hh : inRanges rs c with
  | false => rfl
  | true =>
    obtain ⟨s, hs, hs2⟩ := List.any_eq_true.mp hh
    have := List.all_eq_true.mp this s hs
    simp only [Bool.and_eq_true, Bool.or_eq_true, decide_eq_true_eq] at hs2 this
    omega

variable {env : Env} {ek : EnvK} {o : Nat}

theorem Agree.none (hA : Agree env ek o) {p : Nat} (h : ek.cs[p]? = none) (hc : ek.closed = true) :
    env.inp[o + p]? = none := by
  have := hA.closed hc
  have h2 : ek.cs.length ≤ p := List.getElem?_eq_none_iff.mp h
  apply Array.getElem?_eq_none
  omega

theorem charInK_sound (hA : Agree env ek o) {p : Nat} {rs : List (Nat × Nat)} {b : Bool}
    (h : charInK ek p rs = some b) : charInAny env.inp (o + p) rs = b := by
  unfold charInK at h
  unfold charInAny
  cases hq : ek.cs[p]? with
  | none =>
    rw [hq] at h
    by_cases hc : ek.closed = true
    · simp only [hc, if_true, Option.some.injEq] at h
      rw [hA.none hq hc]; exact h
    · simp [hc] at h
  | some cl =>
    rw [hq] at h
    obtain ⟨c, hc, hm⟩ := hA.cs p cl hq
    rw [hc]
    by_cases hw : cl.within rs = true
    · simp only [hw, if_true, Option.some.injEq] at h
      rw [← h]; exact within_mem hw hm
    · by_cases hd : cl.disjoint rs = true
      · simp only [hw, hd, if_true, Bool.false_eq_true, if_false, Option.some.injEq] at h
        rw [← h]; exact disjoint_mem hd hm
      · simp [hw, hd] at h

theorem prefixK_sound (hA : Agree env ek o) : ∀ (s : List Nat) (p : Nat) (b : Bool),
    prefixK ek p s = some b → isPrefixAt env.inp (o + p) s = b
  | [], p, b, h => by simp only [prefixK, Option.some.injEq] at h; simpa [isPrefixAt] using h
  | c :: cs, p, b, h => by
    simp only [prefixK] at h
    cases hc : charInK ek p [(c, c)] with
    | none => simp [hc] at h
    | some b1 =>
      have h1 := charInK_sound hA hc
      have h2 : (env.inp[o + p]? == some c) = b1 := by
        rw [← h1]; unfold charInAny
        cases env.inp[o + p]? with
        | none => simp
        | some d =>
          simp only [inRanges, List.any_cons, List.any_nil, Bool.or_false]
          by_cases hd : d = c
          · subst hd; simp
          · have h3 : (some d == some c) = false := by simp [hd]
            rw [h3]
            by_cases h4 : c ≤ d
            · have : ¬ d ≤ c := by omega
              simp [this]
            · simp [h4]
      rw [hc] at h
      cases b1 with
      | false =>
        simp only [Option.some.injEq] at h
        simp [isPrefixAt, h2, ← h]
      | true =>
        simp only at h
        have := prefixK_sound hA cs (p + 1) b h
        simp only [isPrefixAt, h2, Bool.true_and]
        rw [← Nat.add_assoc] at this
        exact this

theorem ltSizeK_sound (hA : Agree env ek o) {p : Nat} {b : Bool} (h : ltSizeK ek p = some b) :
    decide (o + p < env.inp.size) = b := by
  unfold ltSizeK at h
  cases hq : ek.cs[p]? with
  | some cl =>
    rw [hq] at h
    obtain ⟨c, hc, _⟩ := hA.cs p cl hq
    have : o + p < env.inp.size := by
      rcases Nat.lt_or_ge (o + p) env.inp.size with h | h
      · exact h
      · rw [Array.getElem?_eq_none h] at hc; cases hc
    simp only [Option.some.injEq] at h
    simp [this, ← h]
  | none =>
    rw [hq] at h
    by_cases hc : ek.closed = true
    · simp only [hc, if_true, Option.some.injEq] at h
      have := hA.closed hc
      have h2 : ek.cs.length ≤ p := List.getElem?_eq_none_iff.mp hq
      have : ¬ (o + p < env.inp.size) := by omega
      simp [this, ← h]
    · simp [hc] at h

theorem atEndK_sound (hA : Agree env ek o) {p : Nat} {b : Bool} (h : atEndK ek p = some b) :
    decide (o + p = env.inp.size) = b := by
  unfold atEndK at h
  by_cases hp : p < ek.cs.length
  · simp only [hp, if_true, Option.some.injEq] at h
    obtain ⟨c, hc, _⟩ := hA.cs p ek.cs[p] (List.getElem?_eq_getElem hp)
    have : o + p < env.inp.size := by
      rcases Nat.lt_or_ge (o + p) env.inp.size with h | h
      · exact h
      · rw [Array.getElem?_eq_none h] at hc; cases hc
    have : ¬ (o + p = env.inp.size) := by omega
    simp [this, ← h]
  · by_cases hc : ek.closed = true
    · simp only [hp, hc, if_false, if_true, Option.some.injEq] at h
      have := hA.closed hc
      rw [← h, this]
      by_cases hh : p = ek.cs.length
      · simp [hh]
      · simp [hh]
    · simp [hp, hc] at h

/-! ### one step of `callRule`, with the recursive call abstracted -/

def callSpec (env : Env) (n : Nat) (at_ : Atom) (la : Bool) (p : Nat) (k : PE → Atom → Res) : Res :=
  if n = ANY then (if p < env.inp.size then some (p + 1, []) else none)
  else if n = SOI then (if p = 0 then some (p, []) else none)
  else if n = EOI then tokF n p la (at_ != .atomic) (if p = env.inp.size then some (p, []) else none)
  else if n = NEWLINE then
    (if isPrefixAt env.inp p [10] then some (p + 1, [])
     else if isPrefixAt env.inp p [13, 10] then some (p + 2, [])
     else if isPrefixAt env.inp p [13] then some (p + 1, []) else none)
  else if n = ASCII_DIGIT then clsF (charIn env.inp p 48 57) p
  else if n = ASCII_BIN_DIGIT then clsF (charIn env.inp p 48 49) p
  else if n = ASCII_OCT_DIGIT then clsF (charIn env.inp p 48 55) p
  else if n = ASCII_HEX_DIGIT then
    ((clsF (charIn env.inp p 48 57) p <|> clsF (charIn env.inp p 97 102) p) <|> clsF (charIn env.inp p 65 70) p)
  else if n = ASCII_ALPHA then (clsF (charIn env.inp p 97 122) p <|> clsF (charIn env.inp p 65 90) p)
  else if n = ASCII_ALPHANUMERIC then
    ((clsF (charIn env.inp p 48 57) p <|> clsF (charIn env.inp p 97 122) p) <|> clsF (charIn env.inp p 65 90) p)
  else
    match env.g[n]? with
    | none => none
    | some r =>
      if some n = env.ws || some n = env.comment then
        match r.ty with
        | .silent => k r.body .atomic
        | _ => tokF n p la (at_ != .atomic) (k r.body .atomic)
      else
      match r.ty with
      | .silent => k r.body at_
      | .normal => tokF n p la (at_ != .atomic) (k r.body at_)
      | .atomic => tokF n p la (at_ != .atomic) (k r.body .atomic)
      | .compound => tokF n p la true (k r.body .compound)
      | .nonAtomic => tokF n p la true (k r.body .nonAtomic)

theorem callRule_succ (env : Env) (f n : Nat) (at_ : Atom) (la : Bool) (p : Nat) :
    callRule env (f + 1) n at_ la p = callSpec env n at_ la p (fun e a => matchE env f e a la p) := by
  rw [callRule.eq_2]; rfl

theorem clsF_orElse (a b : Bool) (p : Nat) : (clsF a p <|> clsF b p) = clsF (a || b) p := by
  cases a <;> cases b <;> simp [clsF]

theorem charInAny_cons (inp : Array Nat) (p : Nat) (r : Nat × Nat) (rs : List (Nat × Nat)) :
    charInAny inp p (r :: rs) = (charIn inp p r.1 r.2 || charInAny inp p rs) := by
  unfold charInAny charIn
  cases inp[p]? <;> simp [inRanges]

theorem charInAny_nil (inp : Array Nat) (p : Nat) : charInAny inp p [] = false := by
  unfold charInAny
  cases inp[p]? <;> simp [inRanges]

theorem map_clsF_sound (hA : Agree env ek o) {p : Nat} {rs : List (Nat × Nat)} {r : Res}
    (h : (charInK ek p rs).map (fun b => clsF b p) = some r) :
    clsF (charInAny env.inp (o + p) rs) (o + p) = shiftR o r := by
  cases hc : charInK ek p rs with
  | none => simp [hc] at h
  | some b =>
    rw [hc] at h
    simp only [Option.map_some, Option.some.injEq] at h
    rw [charInK_sound hA hc, ← h, clsF_shift]

theorem callSpec_sound (hA : Agree env ek o) {n : Nat} {at_ : Atom} {la : Bool} {p : Nat}
    {k : PE → Atom → Res} {kK : PE → Atom → Option Res}
    (hk : ∀ e a r, kK e a = some r → k e a = shiftR o r) {r : Res}
    (h : callSpecK ek n at_ la p kK = some r) : callSpec env n at_ la (o + p) k = shiftR o r := by
  unfold callSpecK at h
  unfold callSpec
  by_cases hb : isBuiltin n = true
  · have hn : n = 1000 ∨ n = 1001 ∨ n = 1002 ∨ n = 1003 ∨ n = 1004 ∨ n = 1005 ∨ n = 1006 ∨ n = 1007 ∨
        n = 1008 ∨ n = 1009 := by
      simp only [isBuiltin, Bool.and_eq_true, decide_eq_true_eq] at hb; omega
    rcases hn with rfl | rfl | rfl | rfl | rfl | rfl | rfl | rfl | rfl | rfl
    · simp [isBuiltin, ANY, EOI, NEWLINE, ASCII_DIGIT, ASCII_BIN_DIGIT, ASCII_OCT_DIGIT, ASCII_HEX_DIGIT,
        ASCII_ALPHA, ASCII_ALPHANUMERIC] at h
    · simp only [isBuiltin, ANY, SOI, EOI, NEWLINE, ASCII_DIGIT, ASCII_BIN_DIGIT, ASCII_OCT_DIGIT, ASCII_HEX_DIGIT,
        ASCII_ALPHA, ASCII_ALPHANUMERIC] at h ⊢
      simp only [Nat.reduceLeDiff, decide_true, Bool.and_self, if_true, Nat.reduceEqDiff, if_false] at h ⊢
      cases ha : atEndK ek p with
      | none => simp [ha] at h
      | some b =>
        rw [ha] at h
        simp only [Option.map_some, Option.some.injEq] at h
        have := atEndK_sound hA ha
        rw [← h, ← tokF_shift]
        congr 1
        cases b with
        | true => simp only [decide_eq_true_eq] at this; simp [this]
        | false => simp only [decide_eq_false_iff_not] at this; simp [this]
    · simp only [isBuiltin, ANY, SOI, EOI, NEWLINE, ASCII_DIGIT, ASCII_BIN_DIGIT, ASCII_OCT_DIGIT, ASCII_HEX_DIGIT,
        ASCII_ALPHA, ASCII_ALPHANUMERIC] at h ⊢
      simp only [Nat.reduceLeDiff, decide_true, Bool.and_self, if_true, Nat.reduceEqDiff, if_false] at h ⊢
      cases ha : ltSizeK ek p with
      | none => simp [ha] at h
      | some b =>
        rw [ha] at h
        simp only [Option.map_some, Option.some.injEq] at h
        have := ltSizeK_sound hA ha
        rw [← h, ← clsF_shift]
        cases b with
        | true => simp only [decide_eq_true_eq] at this; simp [this, clsF]
        | false => simp only [decide_eq_false_iff_not] at this; simp [this, clsF]
    · simp only [isBuiltin, ANY, SOI, EOI, NEWLINE, ASCII_DIGIT, ASCII_BIN_DIGIT, ASCII_OCT_DIGIT, ASCII_HEX_DIGIT,
        ASCII_ALPHA, ASCII_ALPHANUMERIC] at h ⊢
      simp only [Nat.reduceLeDiff, decide_true, Bool.and_self, if_true, Nat.reduceEqDiff, if_false] at h ⊢
      cases h1 : prefixK ek p [10] with
      | none => simp [h1] at h
      | some b1 =>
        rw [prefixK_sound hA _ _ _ h1]
        rw [h1] at h
        cases b1 with
        | true =>
          simp only [Option.some.injEq] at h
          simp [← h, Nat.add_assoc]
        | false =>
          simp only at h
          cases h2 : prefixK ek p [13, 10] with
          | none => simp [h2] at h
          | some b2 =>
            rw [prefixK_sound hA _ _ _ h2]
            rw [h2] at h
            cases b2 with
            | true =>
              simp only [Option.some.injEq] at h
              simp [← h, Nat.add_assoc]
            | false =>
              simp only at h
              cases h3 : prefixK ek p [13] with
              | none => simp [h3] at h
              | some b3 =>
                rw [prefixK_sound hA _ _ _ h3]
                rw [h3] at h
                cases b3 with
                | true =>
                  simp only [Option.some.injEq] at h
                  simp [← h, Nat.add_assoc]
                | false =>
                  simp only [Option.some.injEq] at h
                  simp [← h]
    all_goals
      simp only [isBuiltin, ANY, SOI, EOI, NEWLINE, ASCII_DIGIT, ASCII_BIN_DIGIT, ASCII_OCT_DIGIT, ASCII_HEX_DIGIT,
        ASCII_ALPHA, ASCII_ALPHANUMERIC] at h ⊢
      simp only [Nat.reduceLeDiff, decide_true, Bool.and_self, if_true, Nat.reduceEqDiff, if_false] at h ⊢
      rw [← map_clsF_sound hA h]
      simp only [clsF_orElse, charInAny_cons, charInAny_nil, Bool.or_false, Bool.or_assoc]
  · have hb' : isBuiltin n = false := by simpa using hb
    have hn : n < 1000 ∨ 1009 < n := by
      simp only [isBuiltin, Bool.and_eq_false_iff, decide_eq_false_iff_not] at hb'; omega
    have e1 : n ≠ ANY := by unfold ANY; omega
    have e2 : n ≠ SOI := by unfold SOI; omega
    have e3 : n ≠ EOI := by unfold EOI; omega
    have e4 : n ≠ NEWLINE := by unfold NEWLINE; omega
    have e5 : n ≠ ASCII_DIGIT := by unfold ASCII_DIGIT; omega
    have e6 : n ≠ ASCII_BIN_DIGIT := by unfold ASCII_BIN_DIGIT; omega
    have e7 : n ≠ ASCII_OCT_DIGIT := by unfold ASCII_OCT_DIGIT; omega
    have e8 : n ≠ ASCII_HEX_DIGIT := by unfold ASCII_HEX_DIGIT; omega
    have e9 : n ≠ ASCII_ALPHA := by unfold ASCII_ALPHA; omega
    have e10 : n ≠ ASCII_ALPHANUMERIC := by unfold ASCII_ALPHANUMERIC; omega
    simp only [hb', Bool.false_eq_true, if_false] at h
    simp only [if_neg e1, if_neg e2, if_neg e3, if_neg e4, if_neg e5, if_neg e6, if_neg e7, if_neg e8, if_neg e9,
      if_neg e10]
    rw [hA.g, List.getElem?_toArray, hA.ws, hA.comment]
    cases hr : ek.g[n]? with
    | none =>
      rw [hr] at h
      simp only [Option.some.injEq] at h
      simp [← h]
    | some rl =>
      rw [hr] at h
      simp only at h ⊢
      by_cases hw : (decide (some n = ek.ws) || decide (some n = ek.comment)) = true
      · simp only [hw, if_true] at h ⊢
        cases hkk : kK rl.body .atomic with
        | none => simp [hkk] at h
        | some res =>
          rw [hkk] at h
          simp only at h
          have := hk _ _ _ hkk
          cases hty : rl.ty <;> simp only [hty, Option.some.injEq] at h ⊢ <;> rw [this, ← h] <;>
            try rw [tokF_shift]
      · simp only [hw, Bool.false_eq_true, if_false] at h ⊢
        cases hty : rl.ty <;> simp only [hty] at h ⊢
        · cases hkk : kK rl.body at_ with
          | none => simp [hkk] at h
          | some res =>
            rw [hkk] at h
            simp only [Option.map_some, Option.some.injEq] at h
            rw [hk _ _ _ hkk, ← h, tokF_shift]
        · exact hk _ _ _ h
        · cases hkk : kK rl.body .atomic with
          | none => simp [hkk] at h
          | some res =>
            rw [hkk] at h
            simp only [Option.map_some, Option.some.injEq] at h
            rw [hk _ _ _ hkk, ← h, tokF_shift]
        · cases hkk : kK rl.body .compound with
          | none => simp [hkk] at h
          | some res =>
            rw [hkk] at h
            simp only [Option.map_some, Option.some.injEq] at h
            rw [hk _ _ _ hkk, ← h, tokF_shift]
        · cases hkk : kK rl.body .nonAtomic with
          | none => simp [hkk] at h
          | some res =>
            rw [hkk] at h
            simp only [Option.map_some, Option.some.injEq] at h
            rw [hk _ _ _ hkk, ← h, tokF_shift]

/-! ### the simulation -/

structure Sound (env : Env) (ek : EnvK) (o n : Nat) : Prop where
  m : ∀ e at_ la p r, matchK ek n e at_ la p = some r →
        ∀ f, n ≤ f → matchE env f e at_ la (o + p) = shiftR o r
  rp : ∀ a at_ la p acc p' acc', repK ek n a at_ la p acc = some (p', acc') →
        ∀ f, n ≤ f → rep env f a at_ la (o + p) (acc.map (shiftL o)) = (o + p', acc'.map (shiftL o))
  sk : ∀ at_ p p', skipK ek n at_ p = some p' → ∀ f, n ≤ f → skip env f at_ (o + p) = o + p'
  sc : ∀ c p p', skipCK ek n c p = some p' → ∀ f, n ≤ f → skipC env f c (o + p) = o + p'
  mn : ∀ k p p', manyK ek n k p = some p' → ∀ f, n ≤ f → many env f k (o + p) = o + p'
  cr : ∀ k at_ la p r, callRuleK ek n k at_ la p = some r →
        ∀ f, n ≤ f → callRule env f k at_ la (o + p) = shiftR o r

theorem sound_zero (env : Env) (ek : EnvK) (o : Nat) : Sound env ek o 0 := by
  constructor <;> intros <;> simp_all [matchK, repK, skipK, skipCK, manyK, callRuleK]

theorem matchE_step (hA : Agree env ek o) {n : Nat} (ih : Sound env ek o n) :
    ∀ e at_ la p r, matchK ek (n + 1) e at_ la p = some r →
      ∀ f, n + 1 ≤ f → matchE env f e at_ la (o + p) = shiftR o r := by
  intro e at_ la p r h f hf
  obtain ⟨f, rfl⟩ : ∃ f', f = f' + 1 := ⟨f - 1, by omega⟩
  have hf' : n ≤ f := by omega
  cases e with
  | str s =>
    simp only [matchK] at h
    rw [matchE.eq_2]
    cases hp : prefixK ek p s with
    | none => simp [hp] at h
    | some b =>
      rw [hp] at h
      simp only [Option.some.injEq] at h
      rw [prefixK_sound hA _ _ _ hp, ← h]
      cases b <;> simp [Nat.add_assoc]
  | range lo hi =>
    simp only [matchK] at h
    rw [matchE.eq_3]
    cases hp : charInK ek p [(lo, hi)] with
    | none => simp [hp] at h
    | some b =>
      rw [hp] at h
      simp only [Option.some.injEq] at h
      rw [charIn_eq, charInK_sound hA hp, ← h, ← clsF_shift]
      rfl
  | ref k =>
    simp only [matchK] at h
    rw [matchE.eq_11]
    exact ih.cr _ _ _ _ _ h f hf'
  | seq a b =>
    simp only [matchK] at h
    rw [matchE.eq_4]
    cases h1 : matchK ek n a at_ la p with
    | none => simp [h1] at h
    | some r1 =>
      rw [ih.m _ _ _ _ _ h1 f hf']
      rw [h1] at h
      cases r1 with
      | none => simp only [Option.some.injEq] at h; simp [← h]
      | some pk =>
        obtain ⟨p1, k1⟩ := pk
        simp only at h
        simp only [shiftR_some]
        cases h2 : skipK ek n at_ p1 with
        | none => simp [h2] at h
        | some p2 =>
          rw [ih.sk _ _ _ h2 f hf']
          rw [h2] at h
          simp only at h
          cases h3 : matchK ek n b at_ la p2 with
          | none => simp [h3] at h
          | some r3 =>
            rw [ih.m _ _ _ _ _ h3 f hf']
            rw [h3] at h
            cases r3 with
            | none => simp only [Option.some.injEq] at h; simp [← h]
            | some pk3 =>
              obtain ⟨p3, k3⟩ := pk3
              simp only [Option.some.injEq] at h
              simp [← h, shiftL_append]
  | alt a b =>
    simp only [matchK] at h
    rw [matchE.eq_5]
    cases h1 : matchK ek n a at_ la p with
    | none => simp [h1] at h
    | some r1 =>
      rw [ih.m _ _ _ _ _ h1 f hf']
      rw [h1] at h
      cases r1 with
      | none =>
        simp only at h
        simp only [shiftR_none]
        exact ih.m _ _ _ _ _ h f hf'
      | some pk =>
        simp only [Option.some.injEq] at h
        obtain ⟨p1, k1⟩ := pk
        simp [← h]
  | opt a =>
    simp only [matchK] at h
    rw [matchE.eq_6]
    cases h1 : matchK ek n a at_ la p with
    | none => simp [h1] at h
    | some r1 =>
      rw [ih.m _ _ _ _ _ h1 f hf']
      rw [h1] at h
      cases r1 with
      | none =>
        simp only [Option.some.injEq] at h
        simp [← h]
      | some pk =>
        simp only [Option.some.injEq] at h
        obtain ⟨p1, k1⟩ := pk
        simp [← h]
  | star a =>
    simp only [matchK] at h
    rw [matchE.eq_7]
    cases h1 : matchK ek n a at_ la p with
    | none => simp [h1] at h
    | some r1 =>
      rw [ih.m _ _ _ _ _ h1 f hf']
      rw [h1] at h
      cases r1 with
      | none =>
        simp only [Option.some.injEq] at h
        simp [← h]
      | some pk =>
        obtain ⟨p1, k1⟩ := pk
        simp only at h
        simp only [shiftR_some]
        cases h2 : repK ek n a at_ la p1 [k1] with
        | none => simp [h2] at h
        | some pa =>
          obtain ⟨p', acc'⟩ := pa
          have := ih.rp _ _ _ _ _ _ _ h2 f hf'
          simp only [List.map_cons, List.map_nil] at this
          rw [this]
          rw [h2] at h
          simp only [Option.some.injEq] at h
          simp [← h, shiftL_flatten_reverse]
  | plus a =>
    simp only [matchK] at h
    rw [matchE.eq_8]
    cases h1 : matchK ek n a at_ la p with
    | none => simp [h1] at h
    | some r1 =>
      rw [ih.m _ _ _ _ _ h1 f hf']
      rw [h1] at h
      cases r1 with
      | none =>
        simp only [Option.some.injEq] at h
        simp [← h]
      | some pk =>
        obtain ⟨p1, k1⟩ := pk
        simp only at h
        simp only [shiftR_some]
        cases h2 : skipK ek n at_ p1 with
        | none => simp [h2] at h
        | some p2 =>
          rw [ih.sk _ _ _ h2 f hf']
          rw [h2] at h
          simp only at h
          cases h3 : matchK ek n a at_ la p2 with
          | none => simp [h3] at h
          | some r3 =>
            rw [ih.m _ _ _ _ _ h3 f hf']
            rw [h3] at h
            cases r3 with
            | none => simp only [Option.some.injEq] at h; simp [← h]
            | some pk3 =>
              obtain ⟨p3, k3⟩ := pk3
              simp only at h
              simp only [shiftR_some]
              cases h4 : repK ek n a at_ la p3 [k3, k1] with
              | none => simp [h4] at h
              | some pa =>
                obtain ⟨p', acc'⟩ := pa
                have := ih.rp _ _ _ _ _ _ _ h4 f hf'
                simp only [List.map_cons, List.map_nil] at this
                rw [this]
                rw [h4] at h
                simp only [Option.some.injEq] at h
                simp [← h, shiftL_flatten_reverse]
  | neg a =>
    simp only [matchK] at h
    rw [matchE.eq_9]
    cases h1 : matchK ek n a at_ true p with
    | none => simp [h1] at h
    | some r1 =>
      rw [ih.m _ _ _ _ _ h1 f hf']
      rw [h1] at h
      cases r1 with
      | none =>
        simp only [Option.some.injEq] at h
        simp [← h]
      | some pk =>
        simp only [Option.some.injEq] at h
        obtain ⟨p1, k1⟩ := pk
        simp [← h]
  | pos a =>
    simp only [matchK] at h
    rw [matchE.eq_10]
    cases h1 : matchK ek n a at_ true p with
    | none => simp [h1] at h
    | some r1 =>
      rw [ih.m _ _ _ _ _ h1 f hf']
      rw [h1] at h
      cases r1 with
      | none =>
        simp only [Option.some.injEq] at h
        simp [← h]
      | some pk =>
        simp only [Option.some.injEq] at h
        obtain ⟨p1, k1⟩ := pk
        simp [← h]

theorem rep_step (_hA : Agree env ek o) {n : Nat} (ih : Sound env ek o n) :
    ∀ a at_ la p acc p' acc', repK ek (n + 1) a at_ la p acc = some (p', acc') →
      ∀ f, n + 1 ≤ f → rep env f a at_ la (o + p) (acc.map (shiftL o)) = (o + p', acc'.map (shiftL o)) := by
  intro a at_ la p acc p' acc' h f hf
  obtain ⟨f, rfl⟩ : ∃ f', f = f' + 1 := ⟨f - 1, by omega⟩
  have hf' : n ≤ f := by omega
  simp only [repK] at h
  rw [rep.eq_2]
  cases h1 : skipK ek n at_ p with
  | none => simp [h1] at h
  | some p1 =>
    rw [ih.sk _ _ _ h1 f hf']
    rw [h1] at h
    simp only at h
    cases h2 : matchK ek n a at_ la p1 with
    | none => simp [h2] at h
    | some r2 =>
      rw [ih.m _ _ _ _ _ h2 f hf']
      rw [h2] at h
      cases r2 with
      | none =>
        simp only [Option.some.injEq, Prod.mk.injEq] at h
        simp [← h.1, ← h.2]
      | some pk =>
        obtain ⟨p2, k2⟩ := pk
        simp only at h
        simp only [shiftR_some, Nat.add_left_cancel_iff]
        by_cases hp : p2 = p
        · simp only [hp, if_true, Option.some.injEq, Prod.mk.injEq] at h
          simp [hp, ← h.1, ← h.2]
        · simp only [hp, if_false] at h
          simp only [hp, if_false]
          exact ih.rp _ _ _ _ _ _ _ h f hf'

theorem skip_step (hA : Agree env ek o) {n : Nat} (ih : Sound env ek o n) :
    ∀ at_ p p', skipK ek (n + 1) at_ p = some p' → ∀ f, n + 1 ≤ f → skip env f at_ (o + p) = o + p' := by
  intro at_ p p' h f hf
  obtain ⟨f, rfl⟩ : ∃ f', f = f' + 1 := ⟨f - 1, by omega⟩
  have hf' : n ≤ f := by omega
  simp only [skipK] at h
  rw [skip.eq_2]
  by_cases ha : (at_ != Atom.nonAtomic) = true
  · simp only [ha, if_true, Option.some.injEq] at h
    simp [ha, h]
  · simp only [ha, Bool.false_eq_true, if_false] at h ⊢
    rw [hA.ws, hA.comment]
    have key : ∀ p1, (match ek.comment with | some c => skipCK ek n c p1 | none => some p1) = some p' →
        (match ek.comment with | some c => skipC env f c (o + p1) | none => o + p1) = o + p' := by
      intro p1 h
      cases hc : ek.comment with
      | none => rw [hc] at h; simp only [Option.some.injEq] at h; simp [h]
      | some c => rw [hc] at h; simp only at h ⊢; exact ih.sc _ _ _ h f hf'
    cases hw : ek.ws with
    | none =>
      rw [hw] at h
      simp only at h ⊢
      exact key _ h
    | some w =>
      rw [hw] at h
      simp only at h ⊢
      cases h1 : manyK ek n w p with
      | none => simp [h1] at h
      | some p1 =>
        rw [ih.mn _ _ _ h1 f hf']
        rw [h1] at h
        exact key _ h

theorem skipC_step (hA : Agree env ek o) {n : Nat} (ih : Sound env ek o n) :
    ∀ c p p', skipCK ek (n + 1) c p = some p' → ∀ f, n + 1 ≤ f → skipC env f c (o + p) = o + p' := by
  intro c p p' h f hf
  obtain ⟨f, rfl⟩ : ∃ f', f = f' + 1 := ⟨f - 1, by omega⟩
  have hf' : n ≤ f := by omega
  simp only [skipCK] at h
  rw [skipC.eq_2]
  cases h1 : callRuleK ek n c .nonAtomic false p with
  | none => simp [h1] at h
  | some r1 =>
    rw [ih.cr _ _ _ _ _ h1 f hf']
    rw [h1] at h
    cases r1 with
    | none => simp only [Option.some.injEq] at h; simp [h]
    | some pk =>
      obtain ⟨p1, k1⟩ := pk
      simp only at h
      simp only [shiftR_some]
      rw [hA.ws]
      have key : ∀ p2, (if p2 = p then some p else skipCK ek n c p2) = some p' →
          (if o + p2 = o + p then o + p else skipC env f c (o + p2)) = o + p' := by
        intro p2 h
        simp only [Nat.add_left_cancel_iff]
        by_cases hp : p2 = p
        · simp only [hp, if_true, Option.some.injEq] at h
          simp [hp, h]
        · simp only [hp, if_false] at h ⊢
          exact ih.sc _ _ _ h f hf'
      cases hw : ek.ws with
      | none =>
        rw [hw] at h
        simp only at h ⊢
        exact key _ h
      | some w =>
        rw [hw] at h
        simp only at h ⊢
        cases h2 : manyK ek n w p1 with
        | none => simp [h2] at h
        | some p2 =>
          rw [ih.mn _ _ _ h2 f hf']
          rw [h2] at h
          exact key _ h

theorem many_step (_hA : Agree env ek o) {n : Nat} (ih : Sound env ek o n) :
    ∀ k p p', manyK ek (n + 1) k p = some p' → ∀ f, n + 1 ≤ f → many env f k (o + p) = o + p' := by
  intro c p p' h f hf
  obtain ⟨f, rfl⟩ : ∃ f', f = f' + 1 := ⟨f - 1, by omega⟩
  have hf' : n ≤ f := by omega
  simp only [manyK] at h
  rw [many.eq_2]
  cases h1 : callRuleK ek n c .nonAtomic false p with
  | none => simp [h1] at h
  | some r1 =>
    rw [ih.cr _ _ _ _ _ h1 f hf']
    rw [h1] at h
    cases r1 with
    | none => simp only [Option.some.injEq] at h; simp [h]
    | some pk =>
      obtain ⟨p1, k1⟩ := pk
      simp only at h
      simp only [shiftR_some, Nat.add_left_cancel_iff]
      by_cases hp : p1 = p
      · simp only [hp, if_true, Option.some.injEq] at h
        simp [hp, h]
      · simp only [hp, if_false] at h ⊢
        exact ih.mn _ _ _ h f hf'

theorem callRule_step (hA : Agree env ek o) {n : Nat} (ih : Sound env ek o n) :
    ∀ k at_ la p r, callRuleK ek (n + 1) k at_ la p = some r →
      ∀ f, n + 1 ≤ f → callRule env f k at_ la (o + p) = shiftR o r := by
  intro k at_ la p r h f hf
  obtain ⟨f, rfl⟩ : ∃ f', f = f' + 1 := ⟨f - 1, by omega⟩
  have hf' : n ≤ f := by omega
  simp only [callRuleK] at h
  rw [callRule_succ]
  exact callSpec_sound hA (fun e a r hr => ih.m _ _ _ _ _ hr f hf') h

theorem sound (hA : Agree env ek o) : ∀ n, Sound env ek o n
  | 0 => sound_zero env ek o
  | n + 1 =>
    have ih := sound hA n
    ⟨matchE_step hA ih, rep_step hA ih, skip_step hA ih, skipC_step hA ih, many_step hA ih, callRule_step hA ih⟩

end Pest
end EtkVerif
