/-
The walk of `parse_asm` over the pair tree of an operand expression: `parseExpr`
on `seqPair` returns the expression the precedence climber builds from the terms.
-/
import EtkVerif.Asm.ExprTextSeq
import EtkVerif.Asm.ListingNodes
namespace EtkVerif
namespace Asm
namespace ExprText
open Pest Listing
open Layout (Suf)

variable {text : List Nat}

theorem txt_suf {p : Nat} {y z : List Nat} (h : Suf text p (y ++ z)) (r : Nat) (k : List Pair) :
    txt text.toArray (.mk r p (p + y.length) k) = y := by
  obtain ⟨pre, h1, h2⟩ := h
  exact txt_decomp text pre y z r p _ k (by rw [h1, List.append_assoc]) h2.symm rfl

theorem parseRadix_go_digits (radix : Nat) : ∀ (ds : List Nat) (acc : Nat),
    (∀ c ∈ ds, (toDigit radix c).isSome = true) →
    parseRadix.go radix ds acc = .ok (ds.foldl (fun a c => a * radix + (toDigit radix c).getD 0) acc)
  | [], _, _ => rfl
  | c :: ds, acc, h => by
    have hc := h c (by simp)
    obtain ⟨v, hv⟩ := Option.isSome_iff_exists.mp hc
    rw [parseRadix.go, hv]
    simp only [List.foldl_cons, hv, Option.getD_some]
    exact parseRadix_go_digits radix ds _ (fun x hx => h x (by simp [hx]))

theorem parseRadix_digits (radix : Nat) (ds : List Nat) (hne : 1 ≤ ds.length)
    (h : ∀ c ∈ ds, (toDigit radix c).isSome = true) :
    parseRadix ds radix = .ok (Int.ofNat (digitsVal radix ds)) := by
  unfold parseRadix
  have : ds.isEmpty = false := by cases ds <;> simp_all
  simp only [this, parseRadix_go_digits radix ds 0 h]
  simp [Except.map, digitsVal]

theorem opOfRule_opRule (op : BinOp) : opOfRule (opRule op) = some op := by
  cases op <;> rfl

theorem walk_num (r : Radix) (ds post : List Nat) (p fuel : Nat) (hwf : (TTerm.num r ds).WF)
    (hs : Suf text p (r.pre ++ ds ++ post)) (hf : 1 ≤ fuel) :
    parseExpr text.toArray fuel (termPair p (.num r ds)) = .ok (TTerm.num r ds).expr := by
  obtain ⟨fuel, rfl⟩ : ∃ f', fuel = f' + 1 := ⟨fuel - 1, by omega⟩
  simp only [TTerm.WF] at hwf
  obtain ⟨hmin, hdig⟩ := hwf
  have hmin' : 1 ≤ ds.length := by cases r <;> simp [Radix.minDigits] at hmin <;> omega
  have ht : txt text.toArray (.mk r.rule p (p + (r.pre.length + ds.length)) []) = r.pre ++ ds := by
    have := txt_suf (y := r.pre ++ ds) hs r.rule []
    rwa [List.length_append] at this
  rw [termPair_num, parseExpr]
  simp only [ht, Pair.rule, TTerm.expr]
  cases r with
  | bin =>
    have := parseRadix_digits 2 ds hmin' hdig
    simp [Radix.rule, Radix.pre, Gen.R_expression, Gen.R_binary, Radix.base, this, Except.map]
  | oct =>
    have := parseRadix_digits 8 ds hmin' hdig
    simp [Radix.rule, Radix.pre, Gen.R_expression, Gen.R_binary, Gen.R_octal, Radix.base, this, Except.map]
  | hex =>
    have := parseRadix_digits 16 ds hmin' hdig
    simp [Radix.rule, Radix.pre, Gen.R_expression, Gen.R_binary, Gen.R_octal, Gen.R_hex, Radix.base, this,
      Except.map]
  | dec =>
    have := parseRadix_digits 10 ds hmin' hdig
    simp [Radix.rule, Radix.pre, Gen.R_expression, Gen.R_binary, Gen.R_octal, Gen.R_hex, Gen.R_decimal,
      Radix.base, this, Except.map]

theorem walk_neg (ds post : List Nat) (p fuel : Nat) (hwf : (TTerm.neg ds).WF)
    (hs : Suf text p (45 :: ds ++ post)) (hf : 1 ≤ fuel) :
    parseExpr text.toArray fuel (termPair p (.neg ds)) = .ok (TTerm.neg ds).expr := by
  obtain ⟨fuel, rfl⟩ : ∃ f', fuel = f' + 1 := ⟨fuel - 1, by omega⟩
  simp only [TTerm.WF] at hwf
  obtain ⟨hmin, hdig⟩ := hwf
  have ht : txt text.toArray (.mk 43 p (p + (1 + ds.length)) []) = 45 :: ds := by
    have := txt_suf (y := 45 :: ds) hs 43 []
    rwa [List.length_cons, Nat.add_comm ds.length 1] at this
  have := parseRadix_digits 10 ds hmin hdig
  simp only [termPair]
  rw [parseExpr]
  simp only [ht, Pair.rule, TTerm.expr]
  simp [Gen.R_expression, Gen.R_binary, Gen.R_octal, Gen.R_hex, Gen.R_decimal, Gen.R_negative_decimal, this,
    Except.map]

theorem walk_label (n post : List Nat) (p fuel : Nat) (hs : Suf text p (n ++ post)) (hf : 1 ≤ fuel) :
    parseExpr text.toArray fuel (termPair p (.label n)) = .ok (TTerm.label n).expr := by
  obtain ⟨fuel, rfl⟩ : ∃ f', fuel = f' + 1 := ⟨fuel - 1, by omega⟩
  have ht : txt text.toArray (.mk 39 p (p + n.length) []) = n := txt_suf hs 39 []
  simp only [termPair]
  rw [parseExpr]
  simp only [ht, Pair.rule, TTerm.expr]
  simp [Gen.R_expression, Gen.R_binary, Gen.R_octal, Gen.R_hex, Gen.R_decimal, Gen.R_negative_decimal,
    Gen.R_label]

mutual
theorem walkT : ∀ (t : TTerm) (p : Nat) (post : List Nat) (fuel : Nat), t.WF → Suf text p (t.render ++ post) →
    2 * t.render.length ≤ fuel → parseExpr text.toArray fuel (termPair p t) = .ok t.expr
  | .num r ds, p, post, fuel, hwf, hs, hf => by
    obtain ⟨c, tr, htr, _⟩ := term_start _ hwf
    have hpos : 1 ≤ (TTerm.num r ds).render.length := by rw [htr]; simp
    exact walk_num r ds post p fuel hwf (by simpa only [TTerm.render] using hs) (by omega)
  | .neg ds, p, post, fuel, hwf, hs, hf => by
    have hpos : 1 ≤ (TTerm.neg ds).render.length := by simp [TTerm.render]
    exact walk_neg ds post p fuel hwf (by simpa only [TTerm.render] using hs) (by omega)
  | .label n, p, post, fuel, hwf, hs, hf => by
    obtain ⟨c, tr, htr, _⟩ := term_start _ hwf
    have hpos : 1 ≤ (TTerm.label n).render.length := by rw [htr]; simp
    exact walk_label n post p fuel (by simpa only [TTerm.render] using hs) (by omega)
  | .paren l s r, p, post, fuel, hwf, hs, hf => by
    simp only [TTerm.WF] at hwf
    have hs' : Suf text p (40 :: (l ++ (s.render ++ (r ++ 41 :: post)))) := by
      have := hs
      simp only [TTerm.render, List.append_assoc, List.cons_append, List.nil_append] at this
      exact this
    have hlen : (TTerm.paren l s r).render.length = 1 + l.length + s.render.length + r.length + 1 := by
      simp only [TTerm.render, List.length_append, List.length_cons, List.length_nil]
    simp only [termPair, TTerm.expr]
    exact walkS s (p + 1 + l.length) r.length _ fuel hwf.2.1 hs'.tail.app (by omega)
theorem walkS : ∀ (s : TSeq) (p tb : Nat) (post : List Nat) (fuel : Nat), s.WF → Suf text p (s.render ++ post) →
    2 * s.render.length + 2 ≤ fuel → parseExpr text.toArray fuel (seqPair p s tb) = .ok s.expr
  | .mk t rest, p, tb, post, fuel, hwf, hs, hf => by
    obtain ⟨fuel, rfl⟩ : ∃ f', fuel = f' + 1 := ⟨fuel - 1, by omega⟩
    simp only [TSeq.WF] at hwf
    have hs' : Suf text p (t.render ++ (rest.render ++ post)) := by
      simpa only [TSeq.render, List.append_assoc] using hs
    have hlen : (TSeq.mk t rest).render.length = t.render.length + rest.render.length := by
      simp only [TSeq.render, List.length_append]
    have h1 := walkT t p _ fuel hwf.1 hs' (by omega)
    have h2 := walkR rest (p + t.render.length) post fuel hwf.2 hs'.app (by omega)
    rw [seqPair_mk, parseExpr]
    simp only [Pair.rule, Pair.kids, h1, h2, TSeq.expr]
    simp [Gen.R_expression]
theorem walkR : ∀ (rest : TRest) (p : Nat) (post : List Nat) (fuel : Nat), rest.WF →
    Suf text p (rest.render ++ post) → 2 * rest.render.length + 1 ≤ fuel →
    parseTail text.toArray fuel (restKids p rest) = .ok rest.list
  | .nil, p, post, fuel, _, _, hf => by
    obtain ⟨fuel, rfl⟩ : ∃ f', fuel = f' + 1 := ⟨fuel - 1, by omega⟩
    simp only [restKids, TRest.list]
    rw [parseTail]
  | .cons l op r t rest', p, post, fuel, hwf, hs, hf => by
    obtain ⟨fuel, rfl⟩ : ∃ f', fuel = f' + 1 := ⟨fuel - 1, by omega⟩
    simp only [TRest.WF] at hwf
    have hs' : Suf text p (l ++ opChar op :: (r ++ (t.render ++ (rest'.render ++ post)))) := by
      have := hs
      simp only [TRest.render, List.append_assoc, List.cons_append, List.nil_append] at this
      exact this
    have hlen : (TRest.cons l op r t rest').render.length =
        l.length + 1 + r.length + t.render.length + rest'.render.length := by
      simp only [TRest.render, List.length_append, List.length_cons, List.length_nil]
    have hs3 : Suf text (p + l.length + 1 + r.length) (t.render ++ (rest'.render ++ post)) := hs'.app.tail.app
    have h1 := walkT t _ _ fuel hwf.2.2.1 hs3 (by omega)
    have h2 := walkR rest' _ post fuel hwf.2.2.2 hs3.app (by omega)
    simp only [restKids, TRest.list]
    rw [parseTail]
    simp only [Pair.rule, opOfRule_opRule, h1, h2]
end

end ExprText
end Asm
end EtkVerif
