/-
Lemmas about the hex adapters (T-hex).
-/
import EtkVerif.Hex.Model
namespace EtkVerif
namespace Hex

/-- The text after the optional `0x` prefix. -/
def body (text : List Nat) : List Nat := if text.take 2 = [48, 120] then text.drop 2 else text

/-- Reading to the end through `HexRead`, for every text, every fragmentation of
the underlying reader and every sequence of caller buffer sizes: the bytes
denoted by the text, or an error iff the text is malformed; bytes delivered
before an error are the correct decoding of a prefix of the digits. -/
theorem readAll_correct (text sched bufs : List Nat) (fuel : Nat) (hf : text.length + 2 ≤ fuel) :
    match denote text with
    | some bs => readAll fuel {} ⟨text, sched⟩ bufs [] = .ok bs
    | none => ∃ pre k, readAll fuel {} ⟨text, sched⟩ bufs [] = .err pre ∧
                decodePairs ((body text).take (2 * k)) = some pre := by
  sorry

/-- One `HexWrite::write`: an even acceptance reports exactly the bytes whose
digits the sink received; an odd acceptance is an error. -/
theorem write_spec (buf : List Nat) (accept : Nat) :
    let wrote := min accept (2 * buf.length)
    (wrote % 2 = 0 → write buf accept = (.ok (wrote / 2), encode (buf.take (wrote / 2)))) ∧
    (wrote % 2 = 1 → (write buf accept).1 = .err) := by
  sorry

/-- The caller loop over a sink whose acceptances are all even: the sink holds
exactly the lowercase hex of the bytes reported as written (which are a prefix
of the data). -/
theorem writeLoop_even (fuel : Nat) (data accepts sizes : List Nat)
    (hev : ∀ a ∈ accepts, a % 2 = 0) :
    let r := writeLoop fuel data accepts sizes [] 0
    r.1 = true ∧ r.2.1 = encode (data.take r.2.2) ∧ r.2.2 ≤ data.length := by
  sorry

/-- … and with positive acceptances and enough fuel everything gets written. -/
theorem writeLoop_complete (data accepts sizes : List Nat)
    (hev : ∀ a ∈ accepts, a % 2 = 0 ∧ 2 ≤ a) :
    (writeLoop (data.length + 1) data accepts sizes [] 0) = (true, encode data, data.length) := by
  sorry

/-- Encoding followed by decoding is the identity. -/
theorem denote_encode (bs : List Nat) (hb : ∀ b ∈ bs, b < 256) : denote (encode bs) = some bs := by
  sorry

end Hex
end EtkVerif
