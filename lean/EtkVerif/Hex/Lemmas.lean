/-
Lemmas about the hex adapters (T-hex).
-/
import EtkVerif.Hex.Model
namespace EtkVerif
namespace Hex

/-! ### HexRead -/

/-- The text after the optional `0x` prefix. -/
def body (text : List Nat) : List Nat := if text.take 2 = [48, 120] then text.drop 2 else text

theorem Rd.read_spec (r : Rd) (cap : Nat) (hcap : 1 ≤ cap) :
    ∃ n s', r.read cap = (r.data.take n, ⟨r.data.drop n, s'⟩) ∧ n ≤ r.data.length ∧
      (r.data ≠ [] → 1 ≤ n) := by
  unfold Rd.read
  refine ⟨_, _, rfl, ?_, ?_⟩
  · exact Nat.le_trans (Nat.min_le_left ..) (Nat.min_le_right ..)
  · intro h
    have : 1 ≤ r.data.length := by
      cases hd : r.data with
      | nil => exact absurd hd h
      | cons => simp
    cases r.sched <;> simp only <;> omega

theorem body_append (x y : List Nat) (h : 2 ≤ x.length) : body (x ++ y) = body x ++ y := by
  unfold body
  have : (x ++ y).take 2 = x.take 2 := by
    rw [List.take_append_of_le_length h]
  rw [this]
  split
  · rw [List.drop_append_of_le_length h]
  · rfl

theorem body_short (x : List Nat) (h : x.length < 2) : body x = x := by
  unfold body
  rw [if_neg]
  intro h2
  have := congrArg List.length h2
  simp at this; omega

/-- The prefix-handling step inside the loop. -/
def pstep (content : List Nat) (total : Nat) (firstRead : Bool) : List Nat × Nat × Bool :=
  if firstRead && decide (content.length ≥ 2) then
    if content.take 2 = [48, 120] then
      (content.drop 2, if total > 2 then total - 2 else total, false)
    else (content, total, false)
  else (content, total, firstRead)

theorem readLoop_succ (fuel : Nat) (c : List Nat) (T : Nat) (f : Bool) (rd : Rd) :
    readLoop (fuel + 1) c T f rd =
      let chunk := (rd.read (T - c.length)).1
      let rd' := (rd.read (T - c.length)).2
      let p := pstep (c ++ chunk) T f
      if chunk.isEmpty || decide (p.1.length > 1) then some ⟨p.1, p.2.1, p.2.2, rd', chunk.isEmpty⟩
      else readLoop fuel p.1 p.2.1 p.2.2 rd' := by
  rfl

def tgt (f : Bool) (w : List Nat) : List Nat := if f then body w else w

theorem pstep_spec (X : List Nat) (T : Nat) (f : Bool) (hT : 2 ≤ T) (hT3 : f = true → T ≠ 3) :
    (∀ Y, tgt (pstep X T f).2.2 ((pstep X T f).1 ++ Y) = tgt f (X ++ Y)) ∧
    (2 ≤ (pstep X T f).1.length → (pstep X T f).2.2 = false) ∧
    2 ≤ (pstep X T f).2.1 ∧ ((pstep X T f).2.2 = true → (pstep X T f).2.1 ≠ 3) ∧
    (X.length ≤ 1 → pstep X T f = (X, T, f)) := by
  cases f with
  | false => simp [pstep, tgt, hT]
  | true =>
    have hT3' := hT3 rfl
    by_cases hX : 2 ≤ X.length
    · by_cases hp : X.take 2 = [48, 120]
      · have hb : body X = X.drop 2 := by simp [body, hp]
        simp only [pstep, Bool.true_and, ge_iff_le, hX, decide_true, if_true, hp, tgt]
        refine ⟨?_, ?_, ?_, ?_, ?_⟩
        · intro Y; rw [body_append _ _ hX, hb]; simp
        · simp
        · split <;> omega
        · simp
        · intro h; omega
      · have hb : body X = X := by simp [body, hp]
        simp only [pstep, Bool.true_and, ge_iff_le, hX, decide_true, if_true, hp, tgt]
        refine ⟨?_, ?_, ?_, ?_, ?_⟩
        · intro Y; rw [body_append _ _ hX, hb]; simp
        · simp
        · exact hT
        · simp
        · intro h; omega
    · have : pstep X T true = (X, T, true) := by simp [pstep, hX]
      rw [this]
      simp [hT, hT3']
      omega

theorem readLoop_spec (fuel : Nat) : ∀ (c : List Nat) (T : Nat) (f : Bool) (rd : Rd),
    c.length ≤ 1 → 2 ≤ T → (f = true → T ≠ 3) → rd.data.length + 1 ≤ fuel →
    ∃ l, readLoop fuel c T f rd = some l ∧
      l.content ++ l.rd.data = tgt f (c ++ rd.data) ∧
      (l.eof = true → l.rd.data = [] ∧ l.content.length ≤ 1) ∧
      (l.eof = false → 2 ≤ l.content.length ∧ l.firstRead = false) := by
  induction fuel with
  | zero => intro _ _ _ _ _ _ _ h; omega
  | succ fuel ih =>
    intro c T f rd hc hT hT3 hfuel
    obtain ⟨n, s', hrd, hn, hn1⟩ := Rd.read_spec rd (T - c.length) (by omega)
    rw [readLoop_succ, hrd]
    simp only
    by_cases hn0 : n = 0
    · subst hn0
      have hD : rd.data = [] := by
        cases h : rd.data with
        | nil => rfl
        | cons => have := hn1 (by simp [h]); omega
      have hp := (pstep_spec c T f hT hT3).2.2.2.2 hc
      simp only [List.take_zero, List.append_nil, List.isEmpty_nil, Bool.true_or, if_true, hp]
      refine ⟨_, rfl, ?_, ?_, ?_⟩
      · simp only [List.drop_zero, hD, List.append_nil]
        cases f with
        | false => rfl
        | true => simp only [tgt, if_true]; rw [body_short _ (by omega)]
      · intro _; exact ⟨by simp [hD], hc⟩
      · intro h; simp at h
    · have hne : (rd.data.take n).isEmpty = false := by
        cases h : rd.data.take n with
        | nil =>
          have := congrArg List.length h
          simp only [List.length_take, List.length_nil] at this; omega
        | cons => rfl
      obtain ⟨hp1, hp2, hp3, hp4, _⟩ := pstep_spec (c ++ rd.data.take n) T f hT hT3
      have hp1' := hp1 (rd.data.drop n)
      rw [List.append_assoc, List.take_append_drop] at hp1'
      generalize pstep (c ++ rd.data.take n) T f = p at *
      rw [hne]
      by_cases hlen : p.1.length > 1
      · simp only [Bool.false_or, hlen, decide_true, if_true]
        refine ⟨_, rfl, ?_, ?_, ?_⟩
        · simp only; rw [← hp1', hp2 hlen]; rfl
        · intro h; simp at h
        · intro _; exact ⟨hlen, hp2 hlen⟩
      · simp only [Bool.false_or, hlen, decide_false]
        obtain ⟨l, hl, h1, h2, h3⟩ := ih p.1 p.2.1 p.2.2 ⟨rd.data.drop n, s'⟩ (by omega) hp3 hp4
          (by simp only [List.length_drop]; omega)
        refine ⟨l, hl, ?_, h2, h3⟩
        rw [h1]; exact hp1'

theorem decodePairs_length : ∀ (a bs : List Nat), decodePairs a = some bs → a.length = 2 * bs.length
  | [], bs, h => by simp [decodePairs] at h; subst h; rfl
  | [_], bs, h => by simp [decodePairs] at h
  | a :: b :: rest, bs, h => by
    simp only [decodePairs] at h
    split at h
    · rename_i x y r hx hy hr
      injection h with h; subst h
      have := decodePairs_length rest r hr
      simp; omega
    · cases h

theorem decodePairs_append : ∀ (a b : List Nat), a.length % 2 = 0 →
    decodePairs (a ++ b) = (decodePairs a).bind fun x => (decodePairs b).map (x ++ ·)
  | [], b, _ => by simp [decodePairs]
  | [_], b, h => by simp at h
  | x :: y :: rest, b, h => by
    have ih := decodePairs_append rest b (by simp at h; omega)
    simp only [List.cons_append, decodePairs, ih]
    cases hexVal x <;> cases hexVal y <;> cases decodePairs rest <;> cases decodePairs b <;> simp

/-- `denote` after the prefix has been removed. -/
def denB (b : List Nat) : Option (List Nat) :=
  let b' := if b.length % 2 == 1 && isWs (b.getLast?.getD 0) then b.dropLast else b
  if b'.length % 2 == 1 then none else decodePairs b'

theorem denote_eq (t : List Nat) : denote t = denB (body t) := rfl

theorem denB_append (a r : List Nat) (ha : a.length % 2 = 0) :
    denB (a ++ r) = (decodePairs a).bind fun x => (denB r).map (x ++ ·) := by
  cases hr : r with
  | nil =>
    have : (a.length % 2 == 1) = false := by simp [ha]
    simp only [denB, List.append_nil, this, Bool.false_and]
    simp [decodePairs, ha]
  | cons r0 rs =>
    rw [← hr]
    have hne : r ≠ [] := by simp [hr]
    have h1 : ((a ++ r).length % 2 == 1) = (r.length % 2 == 1) := by
      simp only [List.length_append]; congr 1; omega
    have h2 : (a ++ r).getLast? = r.getLast? := by
      rw [List.getLast?_append]; cases h : r.getLast? with
      | none => simp [List.getLast?_eq_none_iff] at h; exact absurd h hne
      | some => simp
    have h3 : (a ++ r).dropLast = a ++ r.dropLast := List.dropLast_append_of_ne_nil hne
    simp only [denB, h1, h2, h3]
    split
    · have h4 : ((a ++ r.dropLast).length % 2 == 1) = (r.dropLast.length % 2 == 1) := by
        simp only [List.length_append]; congr 1; omega
      rw [h4]
      split
      · cases decodePairs a <;> simp
      · rw [decodePairs_append _ _ ha]
    · rw [h1]
      split
      · cases decodePairs a <;> simp
      · rw [decodePairs_append _ _ ha]

def tot (st : St) (bufLen : Nat) : Nat :=
  match st.remainder with | some _ => 1 + 2 * bufLen | none => 2 * bufLen

/-- The part of `read` after the inner loop. -/
def finish (st : St) (l : Loop) : Res × St × Rd :=
  let st1 : St := { st with firstRead := l.firstRead }
  if l.eof && l.content.length == 1 then
    if isWs (l.content.headD 0) then (.ok [], st1, l.rd)
    else (.oddLength, st1, l.rd)
  else
    let (avail, st2) : List Nat × St :=
      if l.content.length % 2 == 0 then (l.content, { st1 with remainder := none })
      else (l.content.dropLast, { st1 with remainder := l.content.getLast? })
    if avail.isEmpty then (.ok [], st2, l.rd)
    else match decodePairs avail with
      | some bs => (.ok bs, st2, l.rd)
      | none => (.invalid, st2, l.rd)

theorem read_eq (fuel : Nat) (st : St) (rd : Rd) (bufLen : Nat) (h : bufLen ≠ 0) :
    read fuel st rd bufLen =
      match readLoop fuel st.remainder.toList (tot st bufLen) st.firstRead rd with
      | none => (.outOfFuel, st, rd)
      | some l => finish st l := by
  unfold read
  rw [if_neg h]
  obtain ⟨f, r⟩ := st
  cases r <;> rfl

theorem finish_eof (st : St) (l : Loop) (heof : l.eof = true) (hlen : l.content.length ≤ 1) :
    (l.content = [] ∧ ∃ st', finish st l = (.ok [], st', l.rd)) ∨
    (∃ c, l.content = [c] ∧ isWs c = true ∧ ∃ st', finish st l = (.ok [], st', l.rd)) ∨
    (∃ c, l.content = [c] ∧ isWs c = false ∧ ∃ st', finish st l = (.oddLength, st', l.rd)) := by
  obtain ⟨content, total, fr, rd, eof⟩ := l
  simp only at heof hlen
  subst heof
  match content, hlen with
  | [], _ => left; exact ⟨rfl, _, rfl⟩
  | [c], _ =>
    right
    cases hw : isWs c with
    | true => left; exact ⟨c, rfl, hw, { st with firstRead := fr }, by simp [finish, hw]⟩
    | false => right; exact ⟨c, rfl, hw, { st with firstRead := fr }, by simp [finish, hw]⟩
  | _ :: _ :: _, h => simp at h

theorem finish_run (st : St) (l : Loop) (heof : l.eof = false) (hlen : 2 ≤ l.content.length)
    (hf : l.firstRead = false) :
    ∃ avail st', finish st l =
        ((match decodePairs avail with | some bs => Res.ok bs | none => Res.invalid), st', l.rd) ∧
      avail.length % 2 = 0 ∧ 2 ≤ avail.length ∧ avail ++ st'.remainder.toList = l.content ∧
      st'.firstRead = false := by
  obtain ⟨content, total, fr, rd, eof⟩ := l
  simp only at heof hlen hf
  subst heof hf
  by_cases hev : content.length % 2 = 0
  · refine ⟨content, { firstRead := false, remainder := none }, ?_, hev, hlen, by simp, rfl⟩
    have hne : content.isEmpty = false := by
      cases content with
      | nil => simp at hlen
      | cons => rfl
    simp only [finish, Bool.false_and, hev, beq_self_eq_true, if_true, hne]
    cases decodePairs content <;> simp
  · have hne0 : content ≠ [] := by intro h; subst h; simp at hlen
    obtain ⟨x, hx, hdl⟩ : ∃ x, content.getLast? = some x ∧ content.dropLast ++ [x] = content :=
      ⟨_, List.getLast?_eq_some_getLast hne0, List.dropLast_concat_getLast hne0⟩
    have hlen' : content.dropLast.length = content.length - 1 := by simp
    refine ⟨content.dropLast, { firstRead := false, remainder := some x }, ?_, by omega, by omega, by simpa using hdl, rfl⟩
    have hne : content.dropLast.isEmpty = false := by
      cases h : content.dropLast with
      | nil => rw [h] at hlen'; simp at hlen'; omega
      | cons => rfl
    have hev' : (content.length % 2 == 0) = false := by simp [hev]
    simp only [finish, Bool.false_and, hev', Bool.false_eq_true, if_false, hne, hx]
    cases decodePairs content.dropLast <;> simp

theorem body_length_le (x : List Nat) : (body x).length ≤ x.length := by
  unfold body; split <;> simp

theorem tgt_length_le (f : Bool) (x : List Nat) : (tgt f x).length ≤ x.length := by
  cases f
  · exact Nat.le_refl _
  · exact body_length_le x

/-- What one `read` call does, in terms of the remaining logical text. -/
theorem read_spec (fuel : Nat) (st : St) (rd : Rd) (sz : Nat) (hsz : 1 ≤ sz)
    (hinv : st.remainder.isSome = true → st.firstRead = false) (hfuel : rd.data.length + 1 ≤ fuel) :
    (tgt st.firstRead (st.remainder.toList ++ rd.data) = [] ∧
      ∃ st' rd', read fuel st rd sz = (.ok [], st', rd')) ∨
    (∃ c, tgt st.firstRead (st.remainder.toList ++ rd.data) = [c] ∧ isWs c = true ∧
      ∃ st' rd', read fuel st rd sz = (.ok [], st', rd')) ∨
    (∃ c, tgt st.firstRead (st.remainder.toList ++ rd.data) = [c] ∧ isWs c = false ∧
      ∃ st' rd', read fuel st rd sz = (.oddLength, st', rd')) ∨
    (∃ avail st' rd', read fuel st rd sz =
        ((match decodePairs avail with | some bs => Res.ok bs | none => Res.invalid), st', rd') ∧
      avail.length % 2 = 0 ∧ 2 ≤ avail.length ∧
      tgt st.firstRead (st.remainder.toList ++ rd.data) = avail ++ (st'.remainder.toList ++ rd'.data) ∧
      st'.firstRead = false) := by
  have hc : st.remainder.toList.length ≤ 1 := by cases st.remainder <;> simp
  have hT : 2 ≤ tot st sz := by unfold tot; split <;> omega
  have hT3 : st.firstRead = true → tot st sz ≠ 3 := by
    intro h
    cases hr : st.remainder with
    | none => simp only [tot, hr]; omega
    | some r => have := hinv (by simp [hr]); rw [h] at this; cases this
  obtain ⟨l, hl, h1, h2, h3⟩ := readLoop_spec fuel st.remainder.toList (tot st sz) st.firstRead rd hc hT hT3 hfuel
  rw [read_eq _ _ _ _ (by omega), hl]
  simp only
  cases heof : l.eof with
  | true =>
    obtain ⟨hd, hlen⟩ := h2 heof
    rw [hd, List.append_nil] at h1
    rw [← h1]
    rcases finish_eof st l heof hlen with ⟨hc, st', hf⟩ | ⟨c, hc, hw, st', hf⟩ | ⟨c, hc, hw, st', hf⟩
    · left; exact ⟨hc, st', _, hf⟩
    · right; left; exact ⟨c, hc, hw, st', _, hf⟩
    · right; right; left; exact ⟨c, hc, hw, st', _, hf⟩
  | false =>
    obtain ⟨hlen, hfr⟩ := h3 heof
    obtain ⟨avail, st', hf, ha1, ha2, ha3, ha4⟩ := finish_run st l heof hlen hfr
    right; right; right
    refine ⟨avail, st', l.rd, hf, ha1, ha2, ?_, ha4⟩
    rw [← h1, ← ha3, List.append_assoc]

theorem readAll_ok_nil (fuel : Nat) (st : St) (rd : Rd) (bufs acc : List Nat) (st' : St) (rd' : Rd)
    (h : read (rd.data.length + 3) st rd (max (bufs.headD 64) 1) = (.ok [], st', rd')) :
    readAll (fuel + 1) st rd bufs acc = .ok acc := by
  simp only [readAll, h]

theorem readAll_ok_cons (fuel : Nat) (st : St) (rd : Rd) (bufs acc : List Nat) (st' : St) (rd' : Rd)
    (b : Nat) (bs : List Nat)
    (h : read (rd.data.length + 3) st rd (max (bufs.headD 64) 1) = (.ok (b :: bs), st', rd')) :
    readAll (fuel + 1) st rd bufs acc = readAll fuel st' rd' (bufs.drop 1) (acc ++ b :: bs) := by
  simp only [readAll, h]

theorem readAll_odd (fuel : Nat) (st : St) (rd : Rd) (bufs acc : List Nat) (st' : St) (rd' : Rd)
    (h : read (rd.data.length + 3) st rd (max (bufs.headD 64) 1) = (.oddLength, st', rd')) :
    readAll (fuel + 1) st rd bufs acc = .err acc := by
  simp only [readAll, h]

theorem readAll_invalid (fuel : Nat) (st : St) (rd : Rd) (bufs acc : List Nat) (st' : St) (rd' : Rd)
    (h : read (rd.data.length + 3) st rd (max (bufs.headD 64) 1) = (.invalid, st', rd')) :
    readAll (fuel + 1) st rd bufs acc = .err acc := by
  simp only [readAll, h]

theorem readAll_gen (fuel : Nat) : ∀ (st : St) (rd : Rd) (bufs acc : List Nat),
    (st.remainder.isSome = true → st.firstRead = false) →
    (st.remainder.toList ++ rd.data).length + 1 ≤ fuel →
    match denB (tgt st.firstRead (st.remainder.toList ++ rd.data)) with
    | some bs => readAll fuel st rd bufs acc = .ok (acc ++ bs)
    | none => ∃ pre k, readAll fuel st rd bufs acc = .err (acc ++ pre) ∧
        decodePairs ((tgt st.firstRead (st.remainder.toList ++ rd.data)).take (2 * k)) = some pre := by
  induction fuel with
  | zero => intros; omega
  | succ fuel ih =>
    intro st rd bufs acc hinv hfuel
    have hsz : 1 ≤ max (bufs.headD 64) 1 := Nat.le_max_right _ _
    rcases read_spec (rd.data.length + 3) st rd _ hsz hinv (by omega) with
      ⟨hR, st', rd', hr⟩ | ⟨c, hR, hw, st', rd', hr⟩ | ⟨c, hR, hw, st', rd', hr⟩ |
      ⟨avail, st', rd', hr, ha1, ha2, hR, hf'⟩
    · rw [hR]
      have : denB [] = some [] := by simp [denB, decodePairs]
      rw [this]; simp only [List.append_nil]
      exact readAll_ok_nil _ _ _ _ _ _ _ hr
    · rw [hR]
      have : denB [c] = some [] := by simp [denB, hw, decodePairs]
      rw [this]; simp only [List.append_nil]
      exact readAll_ok_nil _ _ _ _ _ _ _ hr
    · rw [hR]
      have : denB [c] = none := by simp [denB, hw]
      rw [this]
      exact ⟨[], 0, by rw [readAll_odd _ _ _ _ _ _ _ hr]; simp, by simp [decodePairs]⟩
    · rw [hR, denB_append _ _ ha1]
      cases hd : decodePairs avail with
      | none =>
        rw [hd] at hr
        exact ⟨[], 0, by rw [readAll_invalid _ _ _ _ _ _ _ hr]; simp, by simp [decodePairs]⟩
      | some a =>
        rw [hd] at hr; simp only at hr
        have hal := decodePairs_length _ _ hd
        obtain ⟨b, bs, rfl⟩ : ∃ b bs, a = b :: bs := by
          cases a with
          | nil => simp only [List.length_nil] at hal; omega
          | cons b bs => exact ⟨b, bs, rfl⟩
        have hstep := readAll_ok_cons fuel st rd bufs acc st' rd' b bs hr
        have hlen : (st'.remainder.toList ++ rd'.data).length + 1 ≤ fuel := by
          have := tgt_length_le st.firstRead (st.remainder.toList ++ rd.data)
          rw [hR] at this
          simp only [List.length_append] at this hfuel ⊢; omega
        have ih' := ih st' rd' (bufs.drop 1) (acc ++ b :: bs) (fun _ => hf') hlen
        rw [hf'] at ih'
        simp only [tgt, Bool.false_eq_true, if_false] at ih'
        simp only [Option.bind_some]
        cases hden : denB (st'.remainder.toList ++ rd'.data) with
        | some r =>
          rw [hden] at ih'
          simp only [Option.map_some]
          rw [hstep, ih']; simp
        | none =>
          rw [hden] at ih'
          obtain ⟨pre, k, he, hk⟩ := ih'
          simp only [Option.map_none]
          refine ⟨b :: bs ++ pre, (b :: bs).length + k, ?_, ?_⟩
          · rw [hstep, he]; simp
          · have : 2 * ((b :: bs).length + k) = avail.length + 2 * k := by omega
            rw [this, List.take_length_add_append, decodePairs_append _ _ ha1, hd, hk]
            simp

/-- Reading to the end through `HexRead`, for every text, every fragmentation of
the underlying reader and every sequence of caller buffer sizes: the bytes
denoted by the text, or an error iff the text is malformed; bytes delivered
before an error are the correct decoding of a prefix of the digits. -/
theorem readAll_correct (text sched bufs : List Nat) (fuel : Nat) (hf : text.length + 2 ≤ fuel) :
    match denote text with
    | some bs => readAll fuel {} ⟨text, sched⟩ bufs [] = .ok bs
    | none => ∃ pre k, readAll fuel {} ⟨text, sched⟩ bufs [] = .err pre ∧
                decodePairs ((body text).take (2 * k)) = some pre := by
  have h := readAll_gen fuel {} ⟨text, sched⟩ bufs [] (by simp) (by simp; omega)
  simp only [tgt, Option.toList, List.nil_append, if_true, List.nil_append] at h
  rw [denote_eq]
  exact h

/-! ### HexWrite and the codec -/

theorem encode_length (b : List Nat) : (encode b).length = 2 * b.length := by
  induction b with
  | nil => rfl
  | cons x xs ih => simp [encode, ih]; omega

theorem encode_append (a b : List Nat) : encode (a ++ b) = encode a ++ encode b := by
  induction a with
  | nil => rfl
  | cons x xs ih => simp [encode, ih]

theorem encode_take (b : List Nat) (k : Nat) : (encode b).take (2 * k) = encode (b.take k) := by
  induction b generalizing k with
  | nil => simp [encode]
  | cons x xs ih =>
    cases k with
    | zero => simp [encode]
    | succ k =>
      have : 2 * (k+1) = (2*k) + 1 + 1 := by omega
      rw [this]; simp [encode, ih]

/-- One `HexWrite::write`: an even acceptance reports exactly the bytes whose
digits the sink received; an odd acceptance is an error. -/
theorem write_spec (buf : List Nat) (accept : Nat) :
    let wrote := min accept (2 * buf.length)
    (wrote % 2 = 0 → write buf accept = (.ok (wrote / 2), encode (buf.take (wrote / 2)))) ∧
    (wrote % 2 = 1 → (write buf accept).1 = .err) := by
  intro wrote
  constructor
  · intro h
    have h2 : min accept (2 * buf.length) = 2 * (wrote / 2) := by omega
    simp only [write, encode_length]
    rw [h2, encode_take]
    have : 2 * (wrote / 2) % 2 = 0 := by omega
    simp [this]
  · intro h
    have h2 : min accept (2 * buf.length) % 2 = 1 := h
    simp [write, encode_length, h2]

def szOf (sizes data : List Nat) : Nat := match sizes with | [] => data.length | s :: _ => max s 1
def accOf (accepts : List Nat) (k : Nat) : Nat := match accepts with | [] => 2 * k | a :: _ => a

theorem writeLoop_succ (fuel : Nat) (data accepts sizes sink : List Nat) (total : Nat) :
    writeLoop (fuel + 1) data accepts sizes sink total =
      if data.isEmpty then (true, sink, total)
      else match write (data.take (szOf sizes data)) (accOf accepts (data.take (szOf sizes data)).length) with
        | (.err, got) => (false, sink ++ got, total)
        | (.ok n, got) => writeLoop fuel (data.drop n) (accepts.drop 1) (sizes.drop 1) (sink ++ got) (total + n) := by
  cases sizes <;> cases accepts <;> rfl

theorem writeLoop_gen (fuel : Nat) : ∀ (data accepts sizes sink : List Nat) (total : Nat),
    (∀ a ∈ accepts, a % 2 = 0) →
    (writeLoop fuel data accepts sizes sink total).1 = true ∧
    ∃ n, n ≤ data.length ∧ (writeLoop fuel data accepts sizes sink total).2.2 = total + n ∧
      (writeLoop fuel data accepts sizes sink total).2.1 = sink ++ encode (data.take n) := by
  induction fuel with
  | zero => intro data accepts sizes sink total _; exact ⟨rfl, 0, by simp [writeLoop, encode]⟩
  | succ fuel ih =>
    intro data accepts sizes sink total hev
    rw [writeLoop_succ]
    by_cases hd : data.isEmpty
    · simp only [hd, if_true]; exact ⟨trivial, 0, by simp [encode]⟩
    · rw [if_neg hd]
      generalize szOf sizes data = sz
      generalize hacc : accOf accepts (List.take sz data).length = acc
      have hacc2 : acc % 2 = 0 := by
        subst hacc; cases accepts with
        | nil => simp [accOf]
        | cons a as => exact hev a (by simp)
      have hw := write_spec (data.take sz) acc
      simp only at hw
      have hwe : min acc (2 * (List.take sz data).length) % 2 = 0 := by omega
      have hw1 := hw.1 hwe
      rw [hw1]
      simp only
      generalize hn : min acc (2 * (List.take sz data).length) / 2 = n at *
      have hnle : n ≤ (data.take sz).length := by omega
      have hnsz : n ≤ sz := by simp at hnle; omega
      have hnd : n ≤ data.length := by simp at hnle; omega
      have hev' : ∀ a ∈ accepts.drop 1, a % 2 = 0 := fun a ha => hev a (List.mem_of_mem_drop ha)
      obtain ⟨h1, m, hm, h2, h3⟩ := ih (data.drop n) (accepts.drop 1) (sizes.drop 1) (sink ++ encode ((data.take sz).take n)) (total + n) hev'
      refine ⟨h1, n + m, ?_, ?_, ?_⟩
      · simp at hm; omega
      · rw [h2]; omega
      · rw [h3, List.take_take, Nat.min_eq_left hnsz, List.take_add, encode_append, List.append_assoc]

/-- The caller loop over a sink whose acceptances are all even: the sink holds
exactly the lowercase hex of the bytes reported as written (which are a prefix
of the data). -/
theorem writeLoop_even (fuel : Nat) (data accepts sizes : List Nat)
    (hev : ∀ a ∈ accepts, a % 2 = 0) :
    let r := writeLoop fuel data accepts sizes [] 0
    r.1 = true ∧ r.2.1 = encode (data.take r.2.2) ∧ r.2.2 ≤ data.length := by
  intro r
  obtain ⟨h1, n, hn, h2, h3⟩ := writeLoop_gen fuel data accepts sizes [] 0 hev
  have h2' : r.2.2 = n := by simpa using h2
  refine ⟨h1, ?_, ?_⟩
  · rw [h2']; simpa using h3
  · rw [h2']; exact hn

theorem writeLoop_all (fuel : Nat) : ∀ (data accepts sizes sink : List Nat) (total : Nat),
    (∀ a ∈ accepts, a % 2 = 0 ∧ 2 ≤ a) → data.length + 1 ≤ fuel →
    writeLoop fuel data accepts sizes sink total = (true, sink ++ encode data, total + data.length) := by
  induction fuel with
  | zero => intro data accepts sizes sink total _ hf; omega
  | succ fuel ih =>
    intro data accepts sizes sink total hev hf
    rw [writeLoop_succ]
    by_cases hd : data.isEmpty
    · rw [if_pos hd]
      have : data = [] := by simpa using hd
      subst this; simp [encode]
    · rw [if_neg hd]
      have hdl : 1 ≤ data.length := by
        cases data with
        | nil => simp at hd
        | cons => simp
      have hsz : 1 ≤ szOf sizes data := by
        cases sizes with
        | nil => exact hdl
        | cons s ss => simp only [szOf]; omega
      generalize szOf sizes data = sz at *
      have hpl : 1 ≤ (data.take sz).length := by simp; omega
      generalize hacc : accOf accepts (List.take sz data).length = acc
      have hacc2 : acc % 2 = 0 ∧ 2 ≤ acc := by
        subst hacc; cases accepts with
        | nil => simp only [accOf]; omega
        | cons a as => exact hev a (by simp)
      have hw := write_spec (data.take sz) acc
      simp only at hw
      have hwe : min acc (2 * (List.take sz data).length) % 2 = 0 := by omega
      have hw1 := hw.1 hwe
      rw [hw1]
      simp only
      generalize hn : min acc (2 * (List.take sz data).length) / 2 = n at *
      have hnle : n ≤ (data.take sz).length := by omega
      have hn1 : 1 ≤ n := by omega
      have hnsz : n ≤ sz := by simp at hnle; omega
      have hnd : n ≤ data.length := by simp at hnle; omega
      have hev' : ∀ a ∈ accepts.drop 1, a % 2 = 0 ∧ 2 ≤ a := fun a ha => hev a (List.mem_of_mem_drop ha)
      rw [ih (data.drop n) (accepts.drop 1) (sizes.drop 1) _ _ hev' (by simp; omega)]
      rw [List.take_take, Nat.min_eq_left hnsz, List.append_assoc, ← encode_append, List.take_append_drop]
      simp; omega

/-- … and with positive acceptances and enough fuel everything gets written. -/
theorem writeLoop_complete (data accepts sizes : List Nat)
    (hev : ∀ a ∈ accepts, a % 2 = 0 ∧ 2 ≤ a) :
    (writeLoop (data.length + 1) data accepts sizes [] 0) = (true, encode data, data.length) := by
  rw [writeLoop_all _ data accepts sizes [] 0 hev (Nat.le_refl _)]; simp

theorem hexVal_hexDigit (n : Nat) (h : n < 16) : hexVal (hexDigit n) = some n := by
  unfold hexDigit hexVal
  by_cases h1 : n < 10
  · rw [if_pos h1, if_pos (by omega)]; congr 1; omega
  · rw [if_neg h1, if_neg (by omega), if_pos (by omega)]; congr 1; omega

theorem decodePairs_encode (bs : List Nat) (hb : ∀ b ∈ bs, b < 256) : decodePairs (encode bs) = some bs := by
  induction bs with
  | nil => rfl
  | cons b bs ih =>
    have hb1 : b < 256 := hb b (by simp)
    have ih' := ih (fun x hx => hb x (by simp [hx]))
    simp only [encode, decodePairs]
    rw [hexVal_hexDigit _ (by omega), hexVal_hexDigit _ (by omega), ih']
    simp only; congr 2; omega

theorem encode_no_prefix (bs : List Nat) (hb : ∀ b ∈ bs, b < 256) : (encode bs).take 2 ≠ [48, 120] := by
  cases bs with
  | nil => simp [encode]
  | cons b bs =>
    have hb1 : b < 256 := hb b (by simp)
    simp only [encode, List.take_succ_cons, List.take_zero]
    intro h
    have h2 : hexDigit (b % 16) = 120 := by
      injection h with _ h; injection h
    unfold hexDigit at h2
    split at h2 <;> omega

/-- Encoding followed by decoding is the identity. -/
theorem denote_encode (bs : List Nat) (hb : ∀ b ∈ bs, b < 256) : denote (encode bs) = some bs := by
  unfold denote
  simp only [if_neg (encode_no_prefix bs hb)]
  have hl : (encode bs).length % 2 = 0 := by rw [encode_length]; omega
  simp [hl, decodePairs_encode bs hb]

end Hex
end EtkVerif
