/-
Model of `etk_cli::io::{HexRead, HexWrite}` (etk-cli/src/io.rs).
Text and bytes are lists of `Nat` (< 256).  The underlying reader is the
remaining text plus a schedule of chunk sizes; the sink is a schedule of
accepted lengths.
-/
namespace EtkVerif
namespace Hex

/-! ### hex codec (the `hex` crate) -/

def hexVal (c : Nat) : Option Nat :=
  if 48 ≤ c ∧ c ≤ 57 then some (c - 48)
  else if 97 ≤ c ∧ c ≤ 102 then some (c - 87)
  else if 65 ≤ c ∧ c ≤ 70 then some (c - 55)
  else none

/-- `hex::decode_to_slice` on an even-length text: `none` on any non-hex character. -/
def decodePairs : List Nat → Option (List Nat)
  | [] => some []
  | [_] => none
  | a :: b :: rest =>
    match hexVal a, hexVal b, decodePairs rest with
    | some x, some y, some r => some ((x * 16 + y) :: r)
    | _, _, _ => none

def hexDigit (n : Nat) : Nat := if n < 10 then 48 + n else 87 + n

/-- `hex::encode`: lowercase. -/
def encode : List Nat → List Nat
  | [] => []
  | b :: rest => hexDigit (b / 16) :: hexDigit (b % 16) :: encode rest

/-- Rust's `char::is_whitespace` on `char::from(u8)` (Latin-1 range). -/
def isWs (c : Nat) : Bool := (9 ≤ c && c ≤ 13) || c == 32 || c == 0x85 || c == 0xa0

/-! ### the underlying reader -/

/-- Remaining text and the schedule of chunk sizes the reader will deliver
(exhausted schedule: deliver as much as fits). -/
structure Rd where
  data : List Nat
  sched : List Nat
  deriving Repr, DecidableEq

/-- One `read(&mut buf[..cap])` of the underlying reader: between 1 and `cap`
bytes while text remains (`cap ≥ 1` at every call site), 0 only at end of text. -/
def Rd.read (r : Rd) (cap : Nat) : List Nat × Rd :=
  let want := match r.sched with
    | [] => r.data.length
    | c :: _ => max c 1
  let n := min (min want r.data.length) cap
  (r.data.take n, { data := r.data.drop n, sched := r.sched.drop 1 })

/-! ### HexRead -/

structure St where
  firstRead : Bool := true
  remainder : Option Nat := none
  deriving Repr, DecidableEq

inductive Res
  | ok (bytes : List Nat)        -- `Ok(n)` with the bytes placed in the caller's buffer
  | oddLength                    -- `Err(InvalidData, OddLength)`
  | invalid                      -- `Err(InvalidData, <decode error>)`
  | outOfFuel
  deriving Repr, DecidableEq

/-- State of the inner `loop`: `content` = `hexbuffer[..available]`, `total` =
`hexbuffer.len()`. -/
structure Loop where
  content : List Nat
  total : Nat
  firstRead : Bool
  rd : Rd
  eof : Bool
  deriving Repr

/-- The inner `loop { … }` of `HexRead::read`, with fuel. -/
def readLoop : Nat → List Nat → Nat → Bool → Rd → Option Loop
  | 0, _, _, _, _ => none
  | fuel + 1, content, total, firstRead, rd =>
    let (chunk, rd') := rd.read (total - content.length)
    let eof := chunk.isEmpty
    let content := content ++ chunk
    let (content, total, firstRead) :=
      if firstRead && decide (content.length ≥ 2) then
        if content.take 2 = [48, 120] then
          (content.drop 2, if total > 2 then total - 2 else total, false)
        else (content, total, false)
      else (content, total, firstRead)
    if eof || decide (content.length > 1) then some ⟨content, total, firstRead, rd', eof⟩
    else readLoop fuel content total firstRead rd'

/-- One call `HexRead::read(&mut buffer)` with `buffer.len() = bufLen`. -/
def read (fuel : Nat) (st : St) (rd : Rd) (bufLen : Nat) : Res × St × Rd :=
  if bufLen = 0 then (.ok [], st, rd)
  else
    let (content0, total) := match st.remainder with
      | some r => ([r], 1 + 2 * bufLen)
      | none => ([], 2 * bufLen)
    match readLoop fuel content0 total st.firstRead rd with
    | none => (.outOfFuel, st, rd)
    | some l =>
      let st1 : St := { st with firstRead := l.firstRead }
      if l.eof && l.content.length == 1 then
        if isWs (l.content.headD 0) then (.ok [], st1, l.rd)
        else (.oddLength, st1, l.rd)
      else
        let (avail, st2) : List Nat × St :=
          if l.content.length % 2 == 0 then (l.content, { st1 with remainder := none })
          else (l.content.dropLast, { st1 with remainder := l.content.getLast? })
        if avail.isEmpty then (.ok [], st2, l.rd)
        else match decodePairs avail with
          | some bs => (.ok bs, st2, l.rd)
          | none => (.invalid, st2, l.rd)

inductive All
  | ok (bytes : List Nat)
  | err (before : List Nat)
  | outOfFuel
  deriving Repr, DecidableEq

/-- The caller reads until `Ok(0)` or an error, with buffer sizes `bufs`
(each ≥ 1; exhausted list: 64), collecting the bytes. -/
def readAll : Nat → St → Rd → List Nat → List Nat → All
  | 0, _, _, _, _ => .outOfFuel
  | fuel + 1, st, rd, bufs, acc =>
    let sz := max (bufs.headD 64) 1
    match read (rd.data.length + 3) st rd sz with
    | (.ok [], _, _) => .ok acc
    | (.ok bs, st', rd') => readAll fuel st' rd' (bufs.drop 1) (acc ++ bs)
    | (.outOfFuel, _, _) => .outOfFuel
    | (_, _, _) => .err acc

/-! ### specification: what a hex text denotes -/

/-- Optional `0x` prefix, digit pairs, optional single trailing whitespace
character; `none` for malformed text (odd digit count, non-hex characters). -/
def denote (text : List Nat) : Option (List Nat) :=
  let body := if text.take 2 = [48, 120] then text.drop 2 else text
  let body := if body.length % 2 == 1 && isWs (body.getLast?.getD 0) then body.dropLast else body
  if body.length % 2 == 1 then none else decodePairs body

/-! ### HexWrite -/

inductive WRes
  | ok (n : Nat)
  | err
  deriving Repr, DecidableEq

/-- `HexWrite::write(buf)` against a sink that accepts `accept` characters of
what it is offered: returns the result and the characters the sink received. -/
def write (buf : List Nat) (accept : Nat) : WRes × List Nat :=
  let encoded := encode buf
  let wrote := min accept encoded.length
  (if wrote % 2 ≠ 0 then .err else .ok (wrote / 2), encoded.take wrote)

/-- A caller that keeps writing the not-yet-reported rest (at most `sizes.head`
bytes per call; exhausted: everything), against sink acceptances `accepts`
(exhausted: everything).  Returns status, sink text, total reported. -/
def writeLoop : Nat → List Nat → List Nat → List Nat → List Nat → Nat → (Bool × List Nat × Nat)
  | 0, _, _, _, sink, total => (true, sink, total)
  | fuel + 1, data, accepts, sizes, sink, total =>
    if data.isEmpty then (true, sink, total)
    else
      let sz := match sizes with | [] => data.length | s :: _ => max s 1
      let piece := data.take sz
      let acc := match accepts with | [] => 2 * piece.length | a :: _ => a
      match write piece acc with
      | (.err, got) => (false, sink ++ got, total)
      | (.ok n, got) => writeLoop fuel (data.drop n) (accepts.drop 1) (sizes.drop 1) (sink ++ got) (total + n)

end Hex
end EtkVerif
