/-
C14 — The assembler never crashes, whatever the input.

Every `unwrap` / `expect` / `assert!` / `panic!` / `unreachable!` of the modelled
files is an explicit `panic` outcome of the models, so "never panics" is an
ordinary statement:
* `C14_assemble`: `Assembler::assemble` (macro expansion incl. recursive and
  mis-applied macros, evaluation incl. division by zero and negative values,
  layout, emission incl. out-of-range forward references) never yields a panic
  outcome other than the model's own fuel marker, for every item list;
* `C14_terminates`, `C14_fuel_monotone`: the fuel is never the reason once it
  exceeds `(maxMacroDepth + 2) · (opsSize ops + 2)`: with that much, `assemble`
  reports NO panic outcome at all — macro expansion (also recursive and mutually
  recursive macros, nested scopes) always ends, because nesting is cut off at 255
  levels and bodies are finite; and more fuel never changes an answer;
* `C14_literals`: literal conversion panics on no digit string the grammar can
  produce (it fails exactly on empty or non-digit strings);
* `C14_eval_total` / bounded recursion: evaluation is a total function that gives
  up with `MacroRecursionLimit` after 255 nested macro levels
  (`maxMacroDepth`), instruction macro expansion likewise (`expandMacro`),
  file inclusion after 255 nested sources (`resolveAndIngest`);
* `C14_ingest_result`: ingestion returns bytes or an error value.
Partial by nature: (a) the parse layer's `unwrap`s rely on the shape of the pair
tree the pest grammar produces — exercised on valid, near-valid and random texts
against the real parser (0 panics, 0 outcome disagreements), not proved; (b) the
machine stack: recursion proportional to the nesting depth of an expression
(finding D16: a 20 000-term sum) is outside any model without a stack.
-/
import EtkVerif.Asm.Refine
import EtkVerif.Asm.ExprLemmas
import EtkVerif.Asm.Ingest
import EtkVerif.Asm.FuelLemmas
namespace EtkVerif.C14
open Asm

theorem C14_assemble (rnd : Nat → Nat) (fuel k : Nat) (ops : RawOps) (site : String)
    (h : assemble rnd fuel { fresh := k } ops = .error (.panic site)) : site = "fuel" :=
  assemble_no_panic rnd fuel k ops site h

/-- termination: above an explicit bound computed from the program the fuel marker cannot appear either, so the model
of the assembler returns bytes or an error value and nothing else -/
theorem C14_terminates (rnd : Nat → Nat) (k : Nat) (ops : RawOps) (fuel : Nat)
    (hf : (maxMacroDepth + 2) * (opsSize ops + 2) ≤ fuel) (site : String) :
    assemble rnd fuel { fresh := k } ops ≠ .error (.panic site) :=
  assemble_fuel_sufficient rnd k ops fuel hf site

/-- an answer that is not the fuel marker is the answer for every larger fuel -/
theorem C14_fuel_monotone (rnd : Nat → Nat) (f : Nat) (s : St) (ops : RawOps) (r : Except AsmErr (List Nat × Nat))
    (h : assemble rnd f s ops = r) (hr : r ≠ .error (.panic "fuel")) : assemble rnd (f + 1) s ops = r :=
  assemble_fuel_mono rnd f s ops r h hr

-- non-vacuity: the bound is a number one can compute (here 257 · 14), and a self-recursive macro evaluated with that
-- fuel is cut off with an error value (`#eval`: `macroRecursionLimit "m"`), not with the fuel marker
example : (maxMacroDepth + 2) * (opsSize (RawOps.ofList [.op (.instrDef "m" [] (AOps.ofList [.op 0x58 none, .macro "m" []])),
    .op (.macro "m" [])]) + 2) = 3598 := by decide

theorem C14_literals (radix : Nat) (s : List Nat) :
    (∃ v, parseRadix s radix = .ok v) ↔ (s ≠ [] ∧ ∀ c ∈ s, (toDigit radix c).isSome) :=
  parseRadix_ok_iff radix s

/-- evaluation never goes deeper than 255 macro levels: at the limit it returns an error value -/
theorem C14_depth_limit (fuel : Nat) (ctx : Ctx) (name : String) (params : List String) (body : Expr) (args : Exprs)
    (vals : List (String × Int))
    (hm : lookupMacro ctx.macros name = some (.expr params body))
    (hargs : evalArgs fuel ctx params args = .ok vals)
    (hdepth : ctx.depth ≥ maxMacroDepth) :
    eval (fuel + 1) ctx (.macro name args) = .error (.recursionLimit name) := by
  simp [eval, hm, hargs, hdepth]

/-- division by zero is an error value -/
theorem C14_division_by_zero (fuel : Nat) (ctx : Ctx) (a b : Expr) (x : Int)
    (ha : eval fuel ctx a = .ok x) (hb : eval fuel ctx b = .ok 0) :
    eval (fuel + 1) ctx (.divide a b) = .error .divisionByZero := by
  simp [eval, ha, hb]

/-- include / import nesting is cut off at 255 sources with an error value -/
theorem C14_include_limit (fs : FS) (cwd : PathC) (fuel : Nat) (prog : Program) (path : String) (tr : List Event)
    (h : prog.sources.length > 255) :
    resolveAndIngest fs cwd (fuel + 1) prog path tr = .error .recursionLimit := by
  simp [resolveAndIngest, h]

/-- the ingestion model returns bytes or an error value (it is a total function into `Except`) -/
theorem C14_ingest_result (fs : FS) (cwd : PathC) (rnd : Nat → Nat) (fuel : Nat) (path : PathC) :
    (∃ r, ingestFile fs cwd rnd fuel path = .ok r) ∨ (∃ e, ingestFile fs cwd rnd fuel path = .error e) := by
  cases h : ingestFile fs cwd rnd fuel path with
  | ok r => exact Or.inl ⟨r, rfl⟩
  | error e => exact Or.inr ⟨e, rfl⟩

end EtkVerif.C14
