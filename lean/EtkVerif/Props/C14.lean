/-
C14 — The assembler never crashes, whatever the input.

Every `unwrap` / `expect` / `assert!` / `panic!` / `unreachable!` of the modelled
files is an explicit `panic` outcome of the models, so "never panics" is an
ordinary statement:
* `C14_assemble`: `Assembler::assemble` (macro expansion incl. recursive and
  mis-applied macros, evaluation incl. division by zero and negative values,
  layout, emission incl. out-of-range forward references) never yields a panic
  outcome other than the model's own fuel marker, for every item list;
* `C14_terminates`, `C14_fuel_monotone`: the fuel is never the reason once it
  exceeds `(maxMacroDepth + 2) · (opsSize ops + 2)`: with that much, `assemble`
  reports NO panic outcome at all — macro expansion (also recursive and mutually
  recursive macros, nested scopes) always ends, because nesting is cut off at 255
  levels and bodies are finite; and more fuel never changes an answer;
* `C14_literals`: literal conversion panics on no digit string the grammar can
  produce (it fails exactly on empty or non-digit strings);
* `C14_depth_limit`, `C14_include_limit`, `C14_division_by_zero` (bounded recursion): evaluation is a total function that gives
  up with `MacroRecursionLimit` after 255 nested macro levels
  (`maxMacroDepth`), instruction macro expansion likewise (`expandMacro`),
  file inclusion after 255 nested sources (`resolveAndIngest`);
* `C14_ingest_result`: ingestion returns bytes or an error value.
* `C14_parse`: for EVERY source text the parser model (pest interpreter over the
  regenerated grammar, then the pair-tree walk of `parse_asm` with its 23
  `unwrap` / `unreachable!` / `assert!` sites) reaches none of those sites and
  never runs out of its own fuel (which is computed from the pair tree): the
  interpreter is sound for a token-shape / matched-text semantics of grammar
  expressions (`PestShape.shape_sound`), the regenerated grammar's rules satisfy the
  shape specification the walk relies on (`GrammarClosed.spec_closed`, rule by
  rule), and on such trees the walk returns a value or an error (`ParseGood`);
* `C14_preprocess_parse`: hence the whole text-to-bytes path of the model (`preprocess` and
  `assemble`) reports no panic other than a fuel marker.
* `C14_ingest_terminates`: ingestion of a file graph TERMINATES. In a file system whose files have at most `N`
  statements (`nodesBound`), `preprocess` at nesting level `d` (number of open sources) with fuel at least
  `(256 - d) · (N + 2) + (N + 2)` (that is `(257 - d) · (N + 2)` up to the limit, `256 · (N + 2)` for the top file)
  reports no panic outcome at all, fuel marker included — nesting is cut off at 256 sources and every file has
  finitely many statements, also on include cycles; and `ingestFile` above the explicit threshold `ingestFileFuel`
  (that bound, and the `C14_terminates` bound of the raw ops obtained) returns bytes or an error value. More fuel
  never changes an answer (`Asm.preprocess_fuel_mono`).
Partial by nature: (a) the pest interpreter and the walk are MODELS of pest
2.1.3 / `parse/*.rs`, tied to the real parser by the correspondence run on valid,
near-valid and random texts (0 panics, 0 outcome disagreements); (b) the
machine stack: recursion proportional to the nesting depth of an expression
(finding D16: a 20 000-term sum) is outside any model without a stack.
-/
import EtkVerif.Asm.Refine
import EtkVerif.Asm.ExprLemmas
import EtkVerif.Asm.Ingest
import EtkVerif.Asm.FuelLemmas
import EtkVerif.Asm.ParseTotal
import EtkVerif.Asm.IngestFuel
import EtkVerif.Asm.ParseCount
namespace EtkVerif.C14
open Asm

theorem C14_assemble (rnd : Nat → Nat) (fuel k : Nat) (ops : RawOps) (site : String)
    (h : assemble rnd fuel { fresh := k } ops = .error (.panic site)) : site = "fuel" :=
  assemble_no_panic rnd fuel k ops site h

/-- termination: above an explicit bound computed from the program the fuel marker cannot appear either, so the model
of the assembler returns bytes or an error value and nothing else -/
theorem C14_terminates (rnd : Nat → Nat) (k : Nat) (ops : RawOps) (fuel : Nat)
    (hf : (maxMacroDepth + 2) * (opsSize ops + 2) ≤ fuel) (site : String) :
    assemble rnd fuel { fresh := k } ops ≠ .error (.panic site) :=
  assemble_fuel_sufficient rnd k ops fuel hf site

/-- an answer that is not the fuel marker is the answer for every larger fuel -/
theorem C14_fuel_monotone (rnd : Nat → Nat) (f : Nat) (s : St) (ops : RawOps) (r : Except AsmErr (List Nat × Nat))
    (h : assemble rnd f s ops = r) (hr : r ≠ .error (.panic "fuel")) : assemble rnd (f + 1) s ops = r :=
  assemble_fuel_mono rnd f s ops r h hr

-- non-vacuity: the bound is a number one can compute (here 257 · 14), and a self-recursive macro evaluated with that
-- fuel is cut off with an error value (`#eval`: `macroRecursionLimit "m"`), not with the fuel marker
example : (maxMacroDepth + 2) * (opsSize (RawOps.ofList [.op (.instrDef "m" [] (AOps.ofList [.op 0x58 none, .macro "m" []])),
    .op (.macro "m" [])]) + 2) = 3598 := by decide

theorem C14_literals (radix : Nat) (s : List Nat) :
    (∃ v, parseRadix s radix = .ok v) ↔ (s ≠ [] ∧ ∀ c ∈ s, (toDigit radix c).isSome) :=
  parseRadix_ok_iff radix s

/-- evaluation never goes deeper than 255 macro levels: at the limit it returns an error value -/
theorem C14_depth_limit (fuel : Nat) (ctx : Ctx) (name : String) (params : List String) (body : Expr) (args : Exprs)
    (vals : List (String × Int))
    (hm : lookupMacro ctx.macros name = some (.expr params body))
    (hargs : evalArgs fuel ctx params args = .ok vals)
    (hdepth : ctx.depth ≥ maxMacroDepth) :
    eval (fuel + 1) ctx (.macro name args) = .error (.recursionLimit name) := by
  simp [eval, hm, hargs, hdepth]

/-- division by zero is an error value -/
theorem C14_division_by_zero (fuel : Nat) (ctx : Ctx) (a b : Expr) (x : Int)
    (ha : eval fuel ctx a = .ok x) (hb : eval fuel ctx b = .ok 0) :
    eval (fuel + 1) ctx (.divide a b) = .error .divisionByZero := by
  simp [eval, ha, hb]

/-- include / import nesting is cut off at 255 sources with an error value -/
theorem C14_include_limit (fs : FS) (cwd : PathC) (fuel : Nat) (prog : Program) (path : String) (tr : List Event)
    (h : prog.sources.length > 255) :
    resolveAndIngest fs cwd (fuel + 1) prog path tr = .error .recursionLimit := by
  simp [resolveAndIngest, h]

/-- the ingestion model returns bytes or an error value (it is a total function into `Except`) -/
theorem C14_ingest_result (fs : FS) (cwd : PathC) (rnd : Nat → Nat) (fuel : Nat) (path : PathC) :
    (∃ r, ingestFile fs cwd rnd fuel path = .ok r) ∨ (∃ e, ingestFile fs cwd rnd fuel path = .error e) := by
  cases h : ingestFile fs cwd rnd fuel path with
  | ok r => exact Or.inl ⟨r, rfl⟩
  | error e => exact Or.inr ⟨e, rfl⟩

/-- the parser: no `unwrap` / `unreachable!` / `assert!` site of `parse/*.rs` is reachable, whatever the text; the
walk's fuel (text length plus the size of the pair tree it walks) always suffices, so there is no panic outcome at all -/
theorem C14_parse (text : List Nat) (site : String) : parseAsm text ≠ .error (.panic site) :=
  parseAsm_no_panic text site

theorem rootNew_not_parse (fs : FS) (cwd file : PathC) (e : ParseErr) : Root.new fs cwd file ≠ .error (.parse e) := by
  unfold Root.new
  repeat (first | split | simp)

theorem rootCheck_not_parse (fs : FS) (r : Root) (p : PathC) (e : ParseErr) : r.check fs p ≠ .error (.parse e) := by
  unfold Root.check
  repeat (first | split | simp)

/-- `Ingest::preprocess` of any text in any file-system context, through any nesting of imports and includes: a parser
panic outcome can only be the fuel marker of the model -/
theorem C14_preprocess_parse (fs : FS) (cwd : PathC) (site : String) : ∀ (fuel : Nat),
    (∀ prog text tr, preprocess fs cwd fuel prog text tr = .error (.parse (.panic site)) → site = "fuel") ∧
    (∀ prog nodes tr, nodesLoop fs cwd fuel prog nodes tr = .error (.parse (.panic site)) → site = "fuel") ∧
    (∀ prog path tr, resolveAndIngest fs cwd fuel prog path tr = .error (.parse (.panic site)) → site = "fuel") := by
  intro fuel
  induction fuel with
  | zero => simp [preprocess, nodesLoop, resolveAndIngest]
  | succ f ih =>
    obtain ⟨ihp, ihn, ihr⟩ := ih
    refine ⟨?_, ?_, ?_⟩
    · intro prog text tr h
      simp only [preprocess] at h
      split at h
      · rename_i e hp
        simp only [Except.error.injEq, IngErr.parse.injEq] at h
        subst h
        exact parseAsm_panic_only_fuel text site hp
      · exact ihn _ _ _ h
    · intro prog nodes tr h
      -- the tail of the loop, common to the four kinds of node
      have tail : ∀ (ops : List RawOp) (tr' : List Event) (rest : List Node),
          (match nodesLoop fs cwd f prog rest tr' with
            | .error e => (.error e : Except IngErr (List RawOp × List Event))
            | .ok (more, tr'') => .ok (ops ++ more, tr'')) = .error (.parse (.panic site)) → site = "fuel" := by
        intro ops tr' rest h
        split at h
        · rename_i e hn
          simp only [Except.error.injEq] at h
          subst h
          exact ihn _ _ _ hn
        · simp at h
      cases nodes with
      | nil => simp [nodesLoop] at h
      | cons n rest =>
        cases n
        · -- op
          simp only [nodesLoop] at h
          exact tail _ _ _ h
        · -- import
          simp only [nodesLoop] at h
          split at h
          · rename_i e hr
            simp only [Except.error.injEq] at h
            subst h
            exact ihr _ _ _ hr
          · exact tail _ _ _ h
        · -- include
          simp only [nodesLoop] at h
          split at h
          · rename_i e hone
            simp only [Except.error.injEq] at h
            subst h
            split at hone
            · rename_i e' hr
              simp only [Except.error.injEq] at hone
              subst hone
              exact ihr _ _ _ hr
            · simp at hone
          · exact tail _ _ _ h
        · -- include_hex: no source text is parsed
          simp only [nodesLoop] at h
          split at h
          · rename_i e hone
            simp only [Except.error.injEq] at h
            subst h
            split at hone
            · rename_i e hroot
              simp only [Except.error.injEq] at hone
              subst hone
              split at hroot
              · simp at hroot
              · exact absurd hroot (rootNew_not_parse _ _ _ _)
            · split at hone
              · rename_i e hc
                simp only [Except.error.injEq] at hone
                subst hone
                exact absurd hc (rootCheck_not_parse _ _ _ _)
              · split at hone
                · simp at hone
                · split at hone <;> simp at hone
          · exact tail _ _ _ h
    · intro prog path tr h
      simp only [resolveAndIngest] at h
      split at h
      · simp at h
      · split at h
        · rename_i e hroot
          simp only [Except.error.injEq] at h
          subst h
          split at hroot
          · simp at hroot
          · exact absurd hroot (rootNew_not_parse _ _ _ _)
        · split at h
          · rename_i e hc
            simp only [Except.error.injEq] at h
            subst h
            exact absurd hc (rootCheck_not_parse _ _ _ _)
          · split at h
            · simp at h
            · exact ihp _ _ _ h

/-- file ingestion terminates: with fuel above an explicit bound in the longest file (`N` statements) and the nesting
level, `preprocess` reports no panic outcome, the fuel marker included; `ingestFile` above the threshold
`ingestFileFuel` (preprocess bound `256 * (N + 2)`, then the assembler bound of `C14_terminates` for the raw ops
obtained) returns bytes or an error value -/
theorem C14_ingest_terminates (fs : FS) (cwd : PathC) (N : Nat) (hN : nodesBound fs N) :
    (∀ (fuel : Nat) (prog : Program) (src : List Nat) (tr : List Event),
      (∀ nodes, parseAsm src = .ok nodes → nodes.length ≤ N) →
      (256 - prog.sources.length) * (N + 2) + (N + 2) ≤ fuel →
      ∀ site, preprocess fs cwd fuel prog src tr ≠ .error (.panic site) ∧
        preprocess fs cwd fuel prog src tr ≠ .error (.parse (.panic site))) ∧
    (∀ (rnd : Nat → Nat) (fuel : Nat) (path : PathC) (e : IngErr),
      ingestFileFuel fs cwd N path ≤ fuel → ingestFile fs cwd rnd fuel path = .error e →
      ∀ site, e ≠ .panic site ∧ e ≠ .parse (.panic site) ∧ e ≠ .assemble (.panic site)) := by
  refine ⟨?_, ?_⟩
  · intro fuel prog src tr hsrc hf site
    have hb := preprocess_fuel_sufficient_benign fs cwd N hN fuel prog src tr hsrc hf
    exact ⟨fun h => (hb _ h).1 site rfl, fun h => (hb _ h).2.1 site rfl⟩
  · intro rnd fuel path e hf h site
    have hb := ingestFile_terminates fs cwd rnd N hN fuel path hf e h
    exact ⟨hb.1 site, hb.2.1 site, hb.2.2 site⟩

/-- a text has at most as many statements as characters: every token-emitting rule of the regenerated grammar consumes
at least one character (a kernel-evaluated syntactic check of the grammar, `goodGrammar_asm`, sound for the interpreter
by induction on its fuel) -/
theorem C14_statements_le_text (text : List Nat) (nodes : List Node) (h : parseAsm text = .ok nodes) :
    nodes.length ≤ text.length :=
  parseAsm_nodes_le' text nodes h

/-- `C14_ingest_terminates` with its premise discharged: in a file system whose files have at most `n` characters,
`ingest_file` run with fuel above the computable threshold `ingestFileFuel fs cwd n path` returns bytes or an error
value — never a panic outcome of any layer, the fuel markers included (the driver's `asmfs` / `asmfsr` run above that
threshold: `fsFuelFor`) -/
theorem C14_ingest_terminates_lengths (fs : FS) (cwd : PathC) (rnd : Nat → Nat) (n : Nat)
    (hn : ∀ loc text, fs.readText loc = some text → text.length ≤ n)
    (fuel : Nat) (path : PathC) (hf : ingestFileFuel fs cwd n path ≤ fuel)
    (e : IngErr) (h : ingestFile fs cwd rnd fuel path = .error e) :
    ∀ site, e ≠ .panic site ∧ e ≠ .parse (.panic site) ∧ e ≠ .assemble (.panic site) := by
  intro site
  have hb := ingestFile_terminates_lengths' fs cwd rnd n hn fuel path hf e h
  exact ⟨hb.1 site, hb.2.1 site, hb.2.2 site⟩

end EtkVerif.C14
