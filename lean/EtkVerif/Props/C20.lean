/- C20 placeholder: theorems are added as they are proved. -/
import EtkVerif.Cfg.Model
namespace EtkVerif.C20
theorem C20_placeholder : True := trivial
end EtkVerif.C20
