/-
C20 — The control-flow graph is structurally well formed.

`Graph` has, by construction, one node per block plus the two special nodes,
and only blocks are sources of edges (the special nodes have no successors).
* `C20_shape`: every edge leaves an existing block and leads to a
  jumpdest-headed block, to the block at the source's fall-through offset, or to
  a special node (bad-jump only from jumps); no edge is listed twice.
* `C20_refine_subgraph`: refinement keeps the nodes and removes edges only.
* `C20_successors`: after refinement by a sound solver every block keeps at
  least one successor, and a block that ends by falling through or halting has
  exactly its one mandatory successor.
* `C20_total`: building and refining never panic.
-/
import EtkVerif.Cfg.Lemmas
namespace EtkVerif.C20
open Annot Smt Cfg

theorem C20_shape (anns : List Annotated) (g : Graph) (hg : cfgNew anns = .ok g) :
    g.blocks = anns ∧ g.edges.Nodup ∧
    ∀ e ∈ g.edges, ∃ a, anns[e.1]? = some a ∧
      (match e.2 with
       | .block j => ∃ c, anns[j]? = some c ∧
           (c.jumpTarget = true ∨ fallThroughOf a.exit = some c.offset)
       | .terminate => True
       | .badJump => (match a.exit with | .unconditional _ => True | .branch _ _ _ => True | _ => False)) :=
  cfg_shape anns g hg

theorem C20_refine_subgraph (sat : List BTerm → Bool) (g g' : Graph) (hr : refine sat g = .ok g') :
    g'.blocks = g.blocks ∧ g'.edges.Sublist g.edges :=
  refine_subgraph sat g g' hr

theorem C20_successors (t : OpTable) (bs : List Blocks.Block) (anns : List Annotated) (hS : Setup t bs anns)
    (g g' : Graph) (hg : cfgNew anns = .ok g)
    (sat : List BTerm → Bool) (hsat : SoundSat sat) (hr : refine sat g = .ok g')
    (i : Nat) (a : Annotated) (ha : anns[i]? = some a) :
    (∃ n, (i, n) ∈ g'.edges) ∧
    (match a.exit with
     | .terminate => ∀ n, (i, n) ∈ g'.edges ↔ n = .terminate
     | .fallThrough f => ∀ n, (i, n) ∈ g'.edges ↔
         n = (match blockAt anns f with | some j => Node.block j | none => Node.terminate)
     | _ => True) :=
  refine_successors t bs anns hS g g' hg sat hsat hr i a ha

theorem C20_total (t : OpTable) (bs : List Blocks.Block) (anns : List Annotated) (hS : Setup t bs anns)
    (sat : List BTerm → Bool) :
    ∃ g g', cfgNew anns = .ok g ∧ refine sat g = .ok g' := by
  obtain ⟨g, hg⟩ := cfgNew_total t bs anns hS
  obtain ⟨g', hr⟩ := refine_total t bs anns hS g hg sat
  exact ⟨g, g', hg, hr⟩

end EtkVerif.C20
