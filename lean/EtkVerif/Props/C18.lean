/-
C18 — Includes and imports cannot read outside the project root.

Over an abstract file system (`FS`: any `canonicalize`, any contents), for every
source text, every directive path (relative, absolute, with `..`, through
symbolic links) at any nesting depth:
* `Root::check` succeeds exactly for paths whose fully resolved location has the
  canonical root as a component-wise prefix, reports a directory traversal
  exactly when the target exists outside the root, and an I/O error when the path
  does not resolve (`C18_check`);
* every file read (other than the top-level source) lies inside the root and is
  immediately preceded by the successful check of a path resolving to it
  (`C18_contained`, `C18_checked`, `C18_ingest_file`);
* an error yields no output: the model's result type carries bytes only on success.
Partial by nature: that `std::fs::canonicalize` computes the fully resolved
location, and that the file read is the file checked (no concurrent
modification), are assumptions about the operating system (`FS`).
-/
import EtkVerif.Asm.IngestLemmas
namespace EtkVerif.C18
open Asm

theorem C18_check (fs : FS) (r : Root) (p : PathC) :
    (∀ loc, r.check fs p = .ok loc ↔ (fs.canon p = some loc ∧ startsWith loc r.canonicalized = true)) ∧
    (r.check fs p = .error .directoryTraversal ↔ ∃ loc, fs.canon p = some loc ∧ startsWith loc r.canonicalized = false) ∧
    (r.check fs p = .error (.io "canonicalizing include/import") ↔ fs.canon p = none) :=
  check_spec fs r p

theorem C18_contained (fs : FS) (cwd : PathC) (fuel : Nat) (prog : Program) (src : List Nat)
    (tr : List Event) (ops : List RawOp) (tr' : List Event)
    (h : preprocess fs cwd fuel prog src tr = .ok (ops, tr')) :
    ∃ extra, tr' = tr ++ extra ∧
      ∀ loc ∈ readsOf extra, ∃ r : Root,
        (prog.root = some r ∨ (prog.root = none ∧ ∃ p, Root.new fs cwd p = .ok r)) ∧
        startsWith loc r.canonicalized = true :=
  preprocess_contained fs cwd fuel prog src tr ops tr' h

theorem C18_checked (fs : FS) (cwd : PathC) (fuel : Nat) (prog : Program) (src : List Nat)
    (tr : List Event) (ops : List RawOp) (tr' : List Event)
    (h : preprocess fs cwd fuel prog src tr = .ok (ops, tr')) :
    ∃ extra, tr' = tr ++ extra ∧
      ∀ (i : Nat) (loc : List String), extra[i + 1]? = some (Event.read loc) →
        ∃ p, extra[i]? = some (Event.check p true) ∧ fs.canon p = some loc :=
  preprocess_checked fs cwd fuel prog src tr ops tr' h

theorem C18_ingest_file (fs : FS) (cwd : PathC) (rnd : Nat → Nat) (fuel : Nat) (path : PathC)
    (bytes : List Nat) (tr : List Event) (h : ingestFile fs cwd rnd fuel path = .ok (bytes, tr)) :
    ∀ loc ∈ readsOf tr, ∃ r, Root.new fs cwd path = .ok r ∧ startsWith loc r.canonicalized = true :=
  ingestFile_contained fs cwd rnd fuel path bytes tr h

end EtkVerif.C18
