/-
C18 — Includes and imports cannot read outside the project root.

Over an abstract file system (`FS`: any `canonicalize`, any contents), for every
source text, every directive path (relative, absolute, with `..`, through
symbolic links) at any nesting depth:
* `Root::check` succeeds exactly for paths whose fully resolved location has the
  canonical root as a component-wise prefix, reports a directory traversal
  exactly when the target exists outside the root, and an I/O error when the path
  does not resolve (`C18_check`);
* every file read (other than the top-level source) lies inside the root and is
  immediately preceded by the successful check of a path resolving to it
  (`C18_contained`, `C18_checked`, `C18_ingest_file`);
* an error yields no output: the model's result type carries bytes only on success.
Runs that FAIL after having read something are covered too: the traced variants
(`Traced.preprocessT`, `Traced.ingestFileT`, Asm/IngestTraced.lean) perform the same
steps but return the trace in every case (a refused check is recorded as
`.check p false`, a read as soon as it is attempted); they agree with the model
above (`C18_traced_agrees`, `C18_traced_agrees_preprocess`) and the containment
invariant holds for every run, whatever its outcome (`C18_all_runs_contained`,
`C18_all_runs_checked`, `C18_all_runs_ingest_file`).
Partial by nature: that `std::fs::canonicalize` computes the fully resolved
location, and that the file read is the file checked (no concurrent
modification), are assumptions about the operating system (`FS`).
-/
import EtkVerif.Asm.IngestLemmas
import EtkVerif.Asm.IngestTraced
import EtkVerif.Asm.IngestNonInterf
namespace EtkVerif.C18
open Asm

theorem C18_check (fs : FS) (r : Root) (p : PathC) :
    (∀ loc, r.check fs p = .ok loc ↔ (fs.canon p = some loc ∧ startsWith loc r.canonicalized = true)) ∧
    (r.check fs p = .error .directoryTraversal ↔ ∃ loc, fs.canon p = some loc ∧ startsWith loc r.canonicalized = false) ∧
    (r.check fs p = .error (.io "canonicalizing include/import") ↔ fs.canon p = none) :=
  check_spec fs r p

theorem C18_contained (fs : FS) (cwd : PathC) (fuel : Nat) (prog : Program) (src : List Nat)
    (tr : List Event) (ops : List RawOp) (tr' : List Event)
    (h : preprocess fs cwd fuel prog src tr = .ok (ops, tr')) :
    ∃ extra, tr' = tr ++ extra ∧
      ∀ loc ∈ readsOf extra, ∃ r : Root,
        (prog.root = some r ∨ (prog.root = none ∧ ∃ p, Root.new fs cwd p = .ok r)) ∧
        startsWith loc r.canonicalized = true :=
  preprocess_contained fs cwd fuel prog src tr ops tr' h

theorem C18_checked (fs : FS) (cwd : PathC) (fuel : Nat) (prog : Program) (src : List Nat)
    (tr : List Event) (ops : List RawOp) (tr' : List Event)
    (h : preprocess fs cwd fuel prog src tr = .ok (ops, tr')) :
    ∃ extra, tr' = tr ++ extra ∧
      ∀ (i : Nat) (loc : List String), extra[i + 1]? = some (Event.read loc) →
        ∃ p, extra[i]? = some (Event.check p true) ∧ fs.canon p = some loc :=
  preprocess_checked fs cwd fuel prog src tr ops tr' h

theorem C18_ingest_file (fs : FS) (cwd : PathC) (rnd : Nat → Nat) (fuel : Nat) (path : PathC)
    (bytes : List Nat) (tr : List Event) (h : ingestFile fs cwd rnd fuel path = .ok (bytes, tr)) :
    ∀ loc ∈ readsOf tr, ∃ r, Root.new fs cwd path = .ok r ∧ startsWith loc r.canonicalized = true :=
  ingestFile_contained fs cwd rnd fuel path bytes tr h

/-! ### all runs, including those that fail after having read something -/
open Traced

/-- Whatever the outcome of the run, the trace of `preprocessT` extends the input
trace by events whose reads all lie inside the root. -/
theorem C18_all_runs_contained (fs : FS) (cwd : PathC) (fuel : Nat) (prog : Program) (src : List Nat)
    (tr : List Event) :
    ∃ extra, (preprocessT fs cwd fuel prog src tr).2 = tr ++ extra ∧
      ∀ loc ∈ readsOf extra, ∃ r : Root,
        (prog.root = some r ∨ (prog.root = none ∧ ∃ p, Root.new fs cwd p = .ok r)) ∧
        startsWith loc r.canonicalized = true :=
  preprocessT_contained fs cwd fuel prog src tr

/-- … and every read of every run is immediately preceded by the successful check
of a path resolving to that very location. -/
theorem C18_all_runs_checked (fs : FS) (cwd : PathC) (fuel : Nat) (prog : Program) (src : List Nat)
    (tr : List Event) :
    ∃ extra, (preprocessT fs cwd fuel prog src tr).2 = tr ++ extra ∧
      ∀ (i : Nat) (loc : List String), extra[i + 1]? = some (Event.read loc) →
        ∃ p, extra[i]? = some (Event.check p true) ∧ fs.canon p = some loc :=
  preprocessT_checked fs cwd fuel prog src tr

/-- Every read of every run of `ingest_file`, successful or not, lies inside the
root of the top-level file. -/
theorem C18_all_runs_ingest_file (fs : FS) (cwd : PathC) (rnd : Nat → Nat) (fuel : Nat) (path : PathC) :
    ∀ loc ∈ readsOf (ingestFileT fs cwd rnd fuel path).2,
      ∃ r, Root.new fs cwd path = .ok r ∧ startsWith loc r.canonicalized = true :=
  ingestFileT_contained fs cwd rnd fuel path

/-- The traced `ingest_file` agrees with the model: same bytes and trace on success,
same error on failure, and in every case the same outcome once the trace is dropped. -/
theorem C18_traced_agrees (fs : FS) (cwd : PathC) (rnd : Nat → Nat) (fuel : Nat) (path : PathC) :
    (∀ bytes tr, ingestFile fs cwd rnd fuel path = .ok (bytes, tr) →
      ingestFileT fs cwd rnd fuel path = (.ok bytes, tr)) ∧
    (∀ e, ingestFile fs cwd rnd fuel path = .error e →
      ∃ tr, ingestFileT fs cwd rnd fuel path = (.error e, tr)) ∧
    (ingestFile fs cwd rnd fuel path).map Prod.fst = (ingestFileT fs cwd rnd fuel path).1 :=
  ⟨fun bytes tr h => ingestFileT_of_ok fs cwd rnd fuel path bytes tr h,
   fun e h => ingestFileT_of_error fs cwd rnd fuel path e h,
   ingestFileT_fst fs cwd rnd fuel path⟩

/-- The same for `preprocess`, where a failing run's trace extends the input trace. -/
theorem C18_traced_agrees_preprocess (fs : FS) (cwd : PathC) (fuel : Nat) (prog : Program) (src : List Nat)
    (tr : List Event) :
    (∀ ops tr', preprocess fs cwd fuel prog src tr = .ok (ops, tr') →
      preprocessT fs cwd fuel prog src tr = (.ok ops, tr')) ∧
    (∀ e, preprocess fs cwd fuel prog src tr = .error e →
      ∃ extra, preprocessT fs cwd fuel prog src tr = (.error e, tr ++ extra)) ∧
    (preprocess fs cwd fuel prog src tr).map Prod.fst = (preprocessT fs cwd fuel prog src tr).1 :=
  ⟨fun ops tr' h => preprocessT_of_ok fs cwd fuel prog src tr ops tr' h,
   fun e h => preprocessT_of_error fs cwd fuel prog src tr e h,
   preprocessT_fst fs cwd fuel prog src tr⟩

/-- C18 as NON-INTERFERENCE: two file systems with the same directory structure (`canon`, `isDir`) that hold the same
text in the top-level file and in every file under the top-level file's root give the SAME result of `ingest_file` —
bytes or error — and the same trace, whatever the files OUTSIDE the root contain.  So no content from outside the root
can reach the output; unlike the trace theorems this does not rely on the model reporting its own reads (a read made
without an event would still be a dependence, and the theorem would be false). -/
theorem C18_noninterference (fs fs' : FS) (cwd : PathC) (rnd : Nat → Nat) (fuel : Nat) (path : PathC)
    (h : AgreeOn fs fs' (InsideTop fs cwd path)) :
    ingestFile fs' cwd rnd fuel path = ingestFile fs cwd rnd fuel path ∧
    Traced.ingestFileT fs' cwd rnd fuel path = Traced.ingestFileT fs cwd rnd fuel path :=
  ⟨ingestFile_noninterference fs fs' cwd rnd fuel path h, ingestFileT_noninterference fs fs' cwd rnd fuel path h⟩

/-- non-vacuity: `/proj/main.etk` importing `lib.etk`, and `/secret.etk` outside `/proj` with ARBITRARY different
contents `s1`, `s2`: the two trees agree on everything inside the top-level root -/
example (s1 s2 : List Nat) := NonInterfExample.agree s1 s2

end EtkVerif.C18
