/-
C15 — The analysis pipeline is total on arbitrary bytecode.

Stage by stage, no `panic` outcome of the models is reachable:
* disassembling: `C04_lossless` (never panics; `Props/C04.lean`);
* separating: `C16_no_panic` (`finish` after `take`; `Props/C16.lean`);
* annotating (`C15_annotate`): the regenerated Cancun table's pops / pushes /
  exit / jump flags agree with what `annotate_one` does for all 256 opcodes
  (`tableLedgerOK_cancun`, kernel evaluation — this is where a wrong table row
  such as the former mstore8 / logN / selfdestruct rows shows up), hence the
  annotator accepts every block in which only the last instruction ends a
  block, which is what the separator produces (C16), provided the `u16`
  variable counter cannot overflow (`popBudget ≤ 65535`: finding D20 otherwise);
  exactly (`C15_annotate_exact`, `C15_annotate_refused`): accepted iff the number
  of input variables the block needs, `inputsNeeded`, is at most 65535 — e.g.
  3856 × `swap16` has `popBudget` 65552 but needs 17 variables and is accepted;
* building, refining (`C15_cfg`): `cfgNew` and `refine` never panic on accepted
  blocks with pairwise distinct offsets, for every solver; every `Sym` has a
  translation (`C05_translation`).
Partial by nature: time and memory (expression size can double per `dup`:
finding D21) and machine stack depth are outside the model.
-/
import EtkVerif.Annot.Total
import EtkVerif.Annot.TotalExact
import EtkVerif.Cfg.Lemmas
import EtkVerif.Cfg.Pipeline
import EtkVerif.Cfg.PipelineExact
namespace EtkVerif.C15
open Ops Annot Smt Cfg

theorem C15_table : tableLedgerOK Gen.cancun = true := tableLedgerOK_cancun

theorem C15_annotate (b : Blocks.Block) (hne : b.ops ≠ [])
    (hops : ∀ i ∈ b.ops, i.op < 256)
    (hshape : ∀ i ∈ b.ops.dropLast, Blocks.endsBlock Gen.cancun i = false)
    (hvars : popBudget Gen.cancun b.ops ≤ 65535) :
    ∃ a, annotate Gen.cancun b = .ok a :=
  annotate_total Gen.cancun tableLedgerOK_cancun b hne hops hshape hvars

theorem C15_cfg (t : OpTable) (bs : List Blocks.Block) (anns : List Annotated) (hS : Setup t bs anns)
    (sat : List BTerm → Bool) :
    ∃ g g', cfgNew anns = .ok g ∧ refine sat g = .ok g' := by
  obtain ⟨g, hg⟩ := cfgNew_total t bs anns hS
  obtain ⟨g', hr⟩ := refine_total t bs anns hS g hg sat
  exact ⟨g, g', hg, hr⟩

/-- C15 end to end, on raw code bytes: for every byte string (bytes < 256) of at most
65536 bytes whose blocks stay within the annotator's variable budget, disassembling,
separating, annotating every block, building and refining the graph complete
without any panic outcome — for every solver. -/
theorem C15_pipeline (code : List Nat) (hb : ∀ b ∈ code, b < 256) (hlen : code.length ≤ 65536)
    (hbudget : ∀ b ∈ Pipeline.blocks code, popBudget Gen.cancun b.ops ≤ 65535) (sat : List BTerm → Bool) :
    ∃ anns g g', Pipeline.annotateAll Gen.cancun (Pipeline.blocks code) = .ok anns ∧
      cfgNew anns = .ok g ∧ refine sat g = .ok g' :=
  Pipeline.pipeline_total code hb hlen hbudget sat

/-- `C15_annotate` with the exact hypothesis: what bounds the `u16` variable counter
is not the sum of the declared pops (`popBudget`) but the number of input variables
the block needs (`inputsNeeded`, abstract stack-height bookkeeping over the table).
The accepted annotation has exactly that many inputs; beyond 65535 the block is
refused with the counter overflow (`C15_annotate_refused`, finding D20), so the
hypothesis is necessary as well as sufficient (`Annot.annotate_ok_iff`). -/
theorem C15_annotate_exact (b : Blocks.Block) (hne : b.ops ≠ [])
    (hops : ∀ i ∈ b.ops, i.op < 256)
    (hshape : ∀ i ∈ b.ops.dropLast, Blocks.endsBlock Gen.cancun i = false)
    (hvars : inputsNeeded Gen.cancun b.ops ≤ 65535) :
    ∃ a, annotate Gen.cancun b = .ok a ∧ a.inputs = inputsNeeded Gen.cancun b.ops :=
  annotate_total_exact_inputs Gen.cancun tableLedgerOK_cancun b hne hops hshape hvars

theorem C15_annotate_refused (b : Blocks.Block)
    (hops : ∀ i ∈ b.ops, i.op < 256)
    (hshape : ∀ i ∈ b.ops.dropLast, Blocks.endsBlock Gen.cancun i = false)
    (hvars : 65535 < inputsNeeded Gen.cancun b.ops) :
    annotate Gen.cancun b = .error .varOverflow :=
  annotate_refused_exact Gen.cancun tableLedgerOK_cancun b hops hshape hvars

/-- The old hypothesis implies the new one. -/
theorem C15_inputs_le_budget (ops : List Disasm.Instr) :
    inputsNeeded Gen.cancun ops ≤ popBudget Gen.cancun ops :=
  inputsNeeded_le_popBudget Gen.cancun ops

/-- 3856 × `swap16`: `popBudget` is 65552 (so `C15_annotate` does not apply), but the
block needs only 17 input variables and is accepted. -/
example :
    65535 < popBudget Gen.cancun (List.replicate 3856 ⟨0x9f, []⟩) ∧
    ∃ a, annotate Gen.cancun ⟨0, List.replicate 3856 ⟨0x9f, []⟩⟩ = .ok a ∧ a.inputs = 17 := by
  have hn : inputsNeeded Gen.cancun (List.replicate 3856 ⟨0x9f, []⟩) = 17 := by decide +kernel
  refine ⟨by decide +kernel, ?_⟩
  obtain ⟨a, ha, hi⟩ := C15_annotate_exact ⟨0, List.replicate 3856 ⟨0x9f, []⟩⟩
    (by show List.replicate 3856 _ ≠ []; rw [ne_eq, List.replicate_eq_nil_iff]; decide)
    (totx_replicate_hops _ _ (by decide)) (totx_replicate_hshape _ _ _ (by decide +kernel))
    (by show inputsNeeded Gen.cancun (List.replicate 3856 ⟨0x9f, []⟩) ≤ 65535; rw [hn]; decide)
  exact ⟨a, ha, by rw [hi]; exact hn⟩

/-- `C15_pipeline` with the exact hypothesis: every block needs at most 65535 input
variables (`inputsNeeded`) instead of `popBudget ≤ 65535` (which implies it:
`C15_inputs_le_budget`). -/
theorem C15_pipeline_exact (code : List Nat) (hb : ∀ b ∈ code, b < 256) (hlen : code.length ≤ 65536)
    (hinputs : ∀ b ∈ Pipeline.blocks code, inputsNeeded Gen.cancun b.ops ≤ 65535) (sat : List BTerm → Bool) :
    ∃ anns g g', Pipeline.annotateAll Gen.cancun (Pipeline.blocks code) = .ok anns ∧
      cfgNew anns = .ok g ∧ refine sat g = .ok g' :=
  Pipeline.pipeline_total_exact code hb hlen hinputs sat

/-- The converse (finding D20): if some block of the code needs more than 65535 input
variables, the pipeline's annotate stage reports the `u16` counter overflow — so the
hypothesis of `C15_pipeline_exact` is necessary (`C15_pipeline_annotate_iff`). -/
theorem C15_pipeline_refused (code : List Nat) (hb : ∀ b ∈ code, b < 256)
    (hover : ∃ b ∈ Pipeline.blocks code, 65535 < inputsNeeded Gen.cancun b.ops) :
    Pipeline.annotateAll Gen.cancun (Pipeline.blocks code) = .error .varOverflow :=
  Pipeline.pipeline_refused_exact code hb hover

theorem C15_pipeline_annotate_iff (code : List Nat) (hb : ∀ b ∈ code, b < 256) :
    (∃ anns, Pipeline.annotateAll Gen.cancun (Pipeline.blocks code) = .ok anns) ↔
    ∀ b ∈ Pipeline.blocks code, inputsNeeded Gen.cancun b.ops ≤ 65535 :=
  Pipeline.pipeline_annotate_iff code hb

end EtkVerif.C15
