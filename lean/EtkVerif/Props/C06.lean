/-
C06 — Block annotations agree with instruction-by-instruction execution.

For every basic block the annotator accepts, every environment `E`, every
oracle `ω` for state-dependent reads ("the values those instructions actually
received and returned": the node created by instruction `k` evaluates to `ω k`,
which is what the concrete machine pushes at instruction `k`) and every entry
stack at least as deep as the declared inputs:
* execution does not underflow, and its final stack and control transfer
  (kind, jump target, branch condition, fall-through offset) equal the
  evaluation of the annotated outputs and exit with `var i` bound to the i-th
  entry slot from the top (`C06_sound`);
* the declared inputs are the deepest entry slot touched: on any shallower
  stack execution underflows (`C06_inputs`);
* offset, size and the jump-target flag describe the block (`C06_extent`);
* every expression is well formed, so `Expr::walk` over its flat encoding
  visits exactly the tree (`C06_wf`, `C06_walk`).
Hypotheses: the table's sizes are the encoded lengths (from C17 for the
regenerated table) and the block ends at or before 65536 (`pc as u16`).
-/
import EtkVerif.Annot.Lemmas
import EtkVerif.Annot.Total
import EtkVerif.Sym.Flat
import EtkVerif.Evm.Cancun
namespace EtkVerif.C06
open Ops Annot Evm

theorem C06_sound (t : OpTable) (b : Blocks.Block) (a : Annotated)
    (h : annotate t b = .ok a) (hs : SizesOK t b.ops) (hpc : b.offset + b.byteLen ≤ 65536)
    (E : Env) (ω : Nat → Word) (entry : List Word) (hd : a.inputs ≤ entry.length) :
    ∃ o, execBlock E ω b.ops b.offset 0 entry = some o ∧ ExitAgrees E ω entry a o :=
  annotate_sound t b a h hs hpc E ω entry hd

theorem C06_inputs (t : OpTable) (b : Blocks.Block) (a : Annotated)
    (h : annotate t b = .ok a) (E : Env) (ω : Nat → Word) (entry : List Word)
    (hd : entry.length < a.inputs) :
    execBlock E ω b.ops b.offset 0 entry = none :=
  annotate_inputs_needed t b a h E ω entry hd

theorem C06_extent (t : OpTable) (b : Blocks.Block) (a : Annotated) (h : annotate t b = .ok a) :
    a.offset = b.offset ∧ a.size = b.size t ∧
    a.jumpTarget = (b.ops.head?.map (fun i => (rowOf t i.op).jt)).getD false :=
  annotate_extent t b a h

theorem C06_wf (t : OpTable) (b : Blocks.Block) (a : Annotated) (h : annotate t b = .ok a) :
    (∀ e ∈ a.outputs, e.wf = true) ∧
    (match a.exit with
     | .unconditional e => e.wf = true
     | .branch c d _ => c.wf = true ∧ d.wf = true
     | _ => True) :=
  annotate_wf t b a h

/-- `Expr::walk` over the flat prefix list of a well-formed tree visits exactly that
tree (enter / between / exit events in tree order) and consumes exactly its symbols. -/
theorem C06_walk (t : Tree) (h : t.wf = true) (rest : List Sym) :
    Flat.innerWalk (t.flatten ++ rest) (t.size + 1) = some (Flat.events t, rest) :=
  Flat.innerWalk_flatten t h rest

-- non-vacuity: `push1 1; push1 2; add; swap1; jump` at offset 0 on entry stack [7]
example : ∃ a, annotate Gen.cancun ⟨0, [⟨0x60, [1]⟩, ⟨0x60, [2]⟩, ⟨0x01, []⟩, ⟨0x90, []⟩, ⟨0x56, []⟩]⟩ = .ok a ∧
    a.inputs = 1 := by
  refine ⟨_, rfl, ?_⟩; decide

/-! ### Scope: etk's Cancun table vs. real Cancun

`execBlock` follows the opcode set of etk's own Cancun table, which lacks the real
Cancun opcodes 0x49 BLOBHASH, 0x4a BLOBBASEFEE, 0x5c TLOAD, 0x5d TSTORE
(`Evm.missingOps`); etk and `execBlock` treat them as invalid = halting.  Against the
REAL Cancun semantics `execBlockC` (`Evm/Cancun.lean`) the theorems above hold for
blocks that contain none of the four opcodes, and fail otherwise. -/

theorem C06_sound_cancun (t : OpTable) (b : Blocks.Block) (a : Annotated)
    (h : annotate t b = .ok a) (hs : SizesOK t b.ops) (hpc : b.offset + b.byteLen ≤ 65536)
    (hm : ∀ i ∈ b.ops, i.op ∉ Evm.missingOps)
    (E : Env) (ω : Nat → Word) (entry : List Word) (hd : a.inputs ≤ entry.length) :
    ∃ o, execBlockC E ω b.ops b.offset 0 entry = some o ∧ ExitAgrees E ω entry a o := by
  rw [execBlockC_eq E ω b.ops b.offset 0 entry hm]
  exact C06_sound t b a h hs hpc E ω entry hd

theorem C06_inputs_cancun (t : OpTable) (b : Blocks.Block) (a : Annotated)
    (h : annotate t b = .ok a) (hm : ∀ i ∈ b.ops, i.op ∉ Evm.missingOps)
    (E : Env) (ω : Nat → Word) (entry : List Word)
    (hd : entry.length < a.inputs) :
    execBlockC E ω b.ops b.offset 0 entry = none := by
  rw [execBlockC_eq E ω b.ops b.offset 0 entry hm]
  exact C06_inputs t b a h E ω entry hd

/-- Without `hm`, `C06_sound_cancun` is false.  The block `push1 0x00; tload` (bytes
60 00 5c) at offset 0 satisfies every other hypothesis of `C06_sound` (for the regenerated
table `Gen.cancun`); the annotator declares 0 inputs and exit `terminate` (etk's table has
no 0x5c, so the block "ends in an invalid instruction"), and `execBlock` halts accordingly;
but the real Cancun machine, for every environment and oracle, runs both instructions and
falls through to offset 3 with one word (the value TLOAD read) on the stack — which
`ExitAgrees` does not relate to the annotation. -/
theorem C06_cancun_counterexample (E : Env) (ω : Nat → Word) :
    let b : Blocks.Block := ⟨0, [⟨0x60, [0x00]⟩, ⟨0x5c, []⟩]⟩
    ∃ a o, annotate Gen.cancun b = .ok a ∧ SizesOK Gen.cancun b.ops ∧ b.offset + b.byteLen ≤ 65536 ∧
      a.inputs = 0 ∧ a.exit = .terminate ∧
      execBlock E ω b.ops b.offset 0 [] = some .halt ∧
      execBlockC E ω b.ops b.offset 0 [] = some o ∧ o = .fall 3 [ω 1] ∧
      ¬ ExitAgrees E ω [] a o := by
  intro b
  refine ⟨_, .fall 3 [ω 1], rfl, ?_, by decide, rfl, rfl, rfl, rfl, rfl, ?_⟩
  · intro i hi
    simp only [b, List.mem_cons, List.not_mem_nil, or_false] at hi
    rcases hi with rfl | rfl <;> decide
  · intro h
    cases h.1

end EtkVerif.C06
