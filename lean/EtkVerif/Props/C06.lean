/-
C06 — Block annotations agree with instruction-by-instruction execution.

For every basic block the annotator accepts, every environment `E`, every
oracle `ω` for state-dependent reads ("the values those instructions actually
received and returned": the node created by instruction `k` evaluates to `ω k`,
which is what the concrete machine pushes at instruction `k`) and every entry
stack at least as deep as the declared inputs:
* execution does not underflow, and its final stack and control transfer
  (kind, jump target, branch condition, fall-through offset) equal the
  evaluation of the annotated outputs and exit with `var i` bound to the i-th
  entry slot from the top (`C06_sound`);
* the declared inputs are the deepest entry slot touched: on any shallower
  stack execution underflows (`C06_inputs`);
* offset, size and the jump-target flag describe the block (`C06_extent`);
* every expression is well formed, so `Expr::walk` over its flat encoding
  visits exactly the tree (`C06_wf`, `C06_walk`).
Hypotheses: the table's sizes are the encoded lengths (from C17 for the
regenerated table) and the block ends at or before 65536 (`pc as u16`).
-/
import EtkVerif.Annot.Lemmas
import EtkVerif.Annot.Total
import EtkVerif.Sym.Flat
namespace EtkVerif.C06
open Ops Annot Evm

theorem C06_sound (t : OpTable) (b : Blocks.Block) (a : Annotated)
    (h : annotate t b = .ok a) (hs : SizesOK t b.ops) (hpc : b.offset + b.byteLen ≤ 65536)
    (E : Env) (ω : Nat → Word) (entry : List Word) (hd : a.inputs ≤ entry.length) :
    ∃ o, execBlock E ω b.ops b.offset 0 entry = some o ∧ ExitAgrees E ω entry a o :=
  annotate_sound t b a h hs hpc E ω entry hd

theorem C06_inputs (t : OpTable) (b : Blocks.Block) (a : Annotated)
    (h : annotate t b = .ok a) (E : Env) (ω : Nat → Word) (entry : List Word)
    (hd : entry.length < a.inputs) :
    execBlock E ω b.ops b.offset 0 entry = none :=
  annotate_inputs_needed t b a h E ω entry hd

theorem C06_extent (t : OpTable) (b : Blocks.Block) (a : Annotated) (h : annotate t b = .ok a) :
    a.offset = b.offset ∧ a.size = b.size t ∧
    a.jumpTarget = (b.ops.head?.map (fun i => (rowOf t i.op).jt)).getD false :=
  annotate_extent t b a h

theorem C06_wf (t : OpTable) (b : Blocks.Block) (a : Annotated) (h : annotate t b = .ok a) :
    (∀ e ∈ a.outputs, e.wf = true) ∧
    (match a.exit with
     | .unconditional e => e.wf = true
     | .branch c d _ => c.wf = true ∧ d.wf = true
     | _ => True) :=
  annotate_wf t b a h

/-- `Expr::walk` over the flat prefix list of a well-formed tree visits exactly that
tree (enter / between / exit events in tree order) and consumes exactly its symbols. -/
theorem C06_walk (t : Tree) (h : t.wf = true) (rest : List Sym) :
    Flat.innerWalk (t.flatten ++ rest) (t.size + 1) = some (Flat.events t, rest) :=
  Flat.innerWalk_flatten t h rest

-- non-vacuity: `push1 1; push1 2; add; swap1; jump` at offset 0 on entry stack [7]
example : ∃ a, annotate Gen.cancun ⟨0, [⟨0x60, [1]⟩, ⟨0x60, [2]⟩, ⟨0x01, []⟩, ⟨0x90, []⟩, ⟨0x56, []⟩]⟩ = .ok a ∧
    a.inputs = 1 := by
  refine ⟨_, rfl, ?_⟩; decide

end EtkVerif.C06
