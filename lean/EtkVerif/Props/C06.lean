/- C06 placeholder: theorems are added below as they are proved. -/
import EtkVerif.Annot.Model
namespace EtkVerif.C06
theorem C06_placeholder : True := trivial
end EtkVerif.C06
