/-
C02 — Output is exactly the encoded instruction stream of the source.

* `C02_concat`: the output of a successful emission is the concatenation, in item
  order, of each item's encoding; labels (and, upstream, macro definitions, which
  `Spec.flattenOp` maps to no item) contribute nothing; nothing is reordered,
  dropped or duplicated.
* `C02_pushN`: a `pushN e` contributes its opcode byte followed by exactly N
  big-endian bytes holding the operand's value, left-padded with zeros; the
  value is in range (never wrapped or truncated).
* `C02_bytesBE`: the big-endian digits denote the value and are minimal.
* `C02_suffix_independent`: "assembling the same sources again yields the same
  bytes" — the random suffixes drawn for macro-local labels do not influence the
  output: two runs with ANY two suffix sources that are fresh for the program
  (generated names of different draws differ and none is a label name of the
  source text) return the same bytes.  Proof: a partial bijection on label names
  (identity on the source's names, `mangle rnd j m l ↔ mangle rnd' j m l`) is
  carried through expansion (`flatten_rel`), evaluation (`eval_rel`), layout and
  emission (`assembleItems_rel`).
* `C02_layout`, `C02_layout_bytes`: the LAYOUT clause ("comments, blank lines and
  `;` separators contribute no bytes", "all legal layouts of whitespace / comments
  / separators"), for programs over the full mnemonic set and every push width
  with hex operands: whatever the decoration — blanks before and after each
  statement, `#` comments with ANY body (also `;`, `%`, `:`, quotes, statements),
  blank and comment-only lines (also before the first statement), LF or CRLF,
  `;` separators, an unterminated last statement — the text parses (full pest
  interpreter over the regenerated grammar + walk) to the same nodes as the bare
  listing and assembles to exactly the concatenation of the instructions' bytes.
  Unbounded runs of blanks and comment bodies are handled by induction on the
  real interpreter (`LayoutSkip`), statement cores by the window interpreter
  evaluated in the kernel per table row and per following character (`LayoutTable`).
* `C02_text`: from TEXT to BYTES for every macro-free program (`Asm/ProgText.lean`:
  plain instructions, `pushN <expression>`, `%push(<expression>)`, label
  definitions, each with any legal layout; operand expressions are arbitrary
  term/operator sequences with literals in four radixes, negative literals,
  labels, nested parentheses and blanks): `Ingest::preprocess` of the text touches
  no file and yields one raw op per statement, and the assembler returns bytes
  exactly when the item-level specification `Spec.assembleItems` does on the
  statements' items — the same bytes.  So `C02_concat` / `C02_pushN` (and the
  item-level theorems of C01, C07, C09) are statements about source text for this
  family.
Not proved at text level: programs with macros and directives (the
correspondence run renders every generated program in random legal layouts).
-/
import EtkVerif.Asm.Corollaries
import EtkVerif.Asm.SuffixIndep
import EtkVerif.Asm.LayoutPest
import EtkVerif.Asm.ListingAsm
import EtkVerif.Asm.ProgTextAsm
namespace EtkVerif.C02
open Asm

theorem C02_concat (c : Ctx) (items : List Item) (ws : List Nat) (out : List Nat)
    (h : emit c items ws = .ok out) :
    ∃ parts : List (List Nat), parts.length = items.length ∧ out = parts.flatten ∧
      ∀ i (hi : i < items.length), encodeItem c ((widthsFor items ws).getD i 1) items[i] = .ok (parts.getD i []) :=
  emit_is_concat c items ws out h

theorem C02_pushN (c : Ctx) (pre post : List Item) (code : Nat) (e : Expr) (ws : List Nat) (out : List Nat)
    (h : emit c (pre ++ Item.op code (some e) :: post) ws = .ok out) :
    ∃ (outPre outPost : List Nat) (v : Int),
      emit c pre ws = .ok outPre ∧ eval evalFuel c e = .ok v ∧ 0 ≤ v ∧ v.toNat < 256 ^ immLen code ∧
      out = outPre ++ (code :: (List.replicate (immLen code - (bytesBE v.toNat).length) 0 ++ bytesBE v.toNat)) ++ outPost :=
  emit_op_exact c pre post code e ws out h

theorem C02_bytesBE (n : Nat) :
    1 ≤ (bytesBE n).length ∧ n < 256 ^ (bytesBE n).length ∧
    (∀ k, 1 ≤ k → n < 256 ^ k → (bytesBE n).length ≤ k) ∧
    (bytesBE n).foldl (fun acc b => acc * 256 + b) 0 = n ∧ (∀ b ∈ bytesBE n, b < 256) :=
  bytesBE_spec n

/-- repeated runs: the bytes do not depend on the source of the random label suffixes, as long as it is fresh -/
theorem C02_suffix_independent (rnd rnd' : Nat → Nat) (fuel k : Nat) (ops : RawOps) (bytes : List Nat) (k' : Nat)
    (h : assemble rnd fuel { fresh := k } ops = .ok (bytes, k')) (hf : Fresh rnd ops) (hf' : Fresh rnd' ops) :
    assemble rnd' fuel { fresh := k } ops = .ok (bytes, k') :=
  suffix_independent rnd rnd' fuel k ops bytes k' h hf hf'

/-- the freshness hypothesis is met by ordinary sources: any injective one, for a program whose label names have no underscore -/
theorem C02_fresh_satisfiable (rnd : Nat → Nat) (hinj : ∀ a b, rnd a = rnd b → a = b) (ops : RawOps)
    (hnames : ∀ n ∈ rawsNames ops, '_' ∉ n.toList) : Fresh rnd ops :=
  fresh_of_injective rnd hinj ops hnames

open Asm.Layout Asm.Listing in
/-- layout insensitivity: the decoration never changes what is parsed -/
theorem C02_layout (head : List BlankLine) (items : List Layout.Item) (h : Layout.WF head items) :
    parseAsm (render head items) = .ok (items.map (fun x => nodeOf x.ins)) :=
  parse_render head items h

open Asm.Layout Asm.Listing in
/-- … and never contributes a byte: the decorated text assembles to the concatenation of the instructions' encodings -/
theorem C02_layout_bytes (rnd : Nat → Nat) (fuel : Nat) (head : List BlankLine) (items : List Layout.Item)
    (h : Layout.WF head items) (hf : items.length + 2 ≤ fuel) :
    parseAsm (render head items) = .ok ((items.map (·.ins)).map nodeOf) ∧
    assemble rnd fuel {} (RawOps.ofList ((items.map (·.ins)).map rawOf)) = .ok ((items.map (·.ins)).flatMap Disasm.Instr.bytes, 0) := by
  refine ⟨by rw [parse_render head items h, List.map_map]; rfl, ?_⟩
  exact assemble_listing rnd fuel _ (by
    intro i hi
    obtain ⟨x, hx, rfl⟩ := List.mem_map.1 hi
    exact (h.2.1 x hx).2.1) (by simpa using hf)

open Asm.Layout in
-- non-vacuity: a decorated program (leading comment line containing `; pc`, `push1 0x00 ;\t stop`, a comment made of
-- a separator and a statement, CRLF, a blank line, an unterminated `push0` with a `;` comment) is well formed
example : Layout.WF [⟨[32, 32], some [32, 59, 32, 112, 99], false⟩]
    [⟨[32], ⟨0x60, [0]⟩, .semi [32] [9]⟩,
     ⟨[], ⟨0x00, []⟩, .line [32] (some [59, 32, 103, 97, 115]) true [⟨[], none, false⟩]⟩,
     ⟨[], ⟨0x5f, []⟩, .open_ [] (some [59])⟩] := by decide

open Asm.Layout Asm.ProgText in
/-- text → raw ops → bytes for macro-free programs: the assembler's answer on the TEXT is the item-level
specification's answer on the statements' items -/
theorem C02_text (fs : FS) (cwd : PathC) (prog : Program) (tr : List Event) (rnd : Nat → Nat) (k : Nat)
    (head : List BlankLine) (items : List ProgText.Item) (h : ProgText.WF head items)
    (fuel : Nat) (hf : items.length + 3 ≤ fuel) (bytes : List Nat) (k' : Nat) :
    preprocess fs cwd fuel prog (ProgText.render head items) tr = .ok (items.map (fun x => RawOp.op x.stmt.aop), tr) ∧
    (assemble rnd fuel { fresh := k } (RawOps.ofList (items.map (fun x => RawOp.op x.stmt.aop))) = .ok (bytes, k') ↔
      (Spec.assembleItems [] (items.map (fun x => x.stmt.item)) = .ok bytes ∧ k' = k)) :=
  ⟨preprocess_prog fs cwd prog tr head items h fuel (by omega), assemble_prog rnd fuel k items hf bytes k'⟩

open Asm.Layout Asm.ExprText Asm.ProgText in
-- non-vacuity of `C02_text` / `C01_text`: a label, a `push2` over it (with a comment made of a separator and a statement),
-- a `%push` and an unterminated instruction form a well-formed program text
-- `a:` / `push2 a + 0x0100 # c;pc` / `%push( a*2 );jumpdest`
example : ProgText.WF []
    [⟨[], .label [97] [], .line [] none false []⟩,
     ⟨[], .pushE 2 32 (.mk (.label [97]) (.cons [32] .plus [32] (.num .hex [48, 49, 48, 48]) .nil)), .line [32] (some [32, 99, 59, 112, 99]) false []⟩,
     ⟨[], .apush [32] (.mk (.label [97]) (.cons [] .times [] (.num .dec [50]) .nil)) [32], .semi [] []⟩,
     ⟨[], .ins ⟨0x5b, []⟩, .open_ [] none⟩] := by
  refine ⟨(by intro b hb; cases hb), ?_, ?_⟩
  · intro x hx
    simp only [List.mem_cons, List.mem_nil_iff, or_false] at hx
    rcases hx with rfl | rfl | rfl | rfl
    · simp [ProgText.Stmt.WF, Layout.IsBlanks, ExprText.IsBlanks, Layout.Term.WF, ExprText.IsLabel, isAlpha]
    · refine ⟨by simp [Layout.IsBlanks], ⟨by decide, by decide, Or.inl rfl, ?_, ?_⟩, ?_⟩
      · simp [TSeq.WF, TRest.WF, TTerm.WF, ExprText.IsLabel, ExprText.IsBlanks, isAlpha, toDigit, Radix.minDigits, Radix.base]
      · -- the operand mentions a label: it is not closed, so the parser's constant range check does not apply
        intro fuel v h
        cases fuel with
        | zero => simp [evalClosed] at h
        | succ f =>
          simp only [TSeq.expr, TRest.list, TTerm.expr] at h
          cases f with
          | zero => simp [climb, climbRec, climbInner, BinOp.mk, BinOp.prec, evalClosed] at h
          | succ g => simp [climb, climbRec, climbInner, BinOp.mk, BinOp.prec, evalClosed] at h
      · simp [Layout.Term.WF, Layout.IsBlanks, IsCommentBody]
    · simp [ProgText.Stmt.WF, Layout.IsBlanks, ExprText.IsBlanks, Layout.Term.WF, TSeq.WF, TRest.WF, TTerm.WF, ExprText.IsLabel, isAlpha,
        toDigit, Radix.minDigits, Radix.base]
    · refine ⟨by simp [Layout.IsBlanks], ?_, by simp [Layout.Term.WF, Layout.IsBlanks]⟩
      show Listing.Valid ⟨0x5b, []⟩
      decide
  · simp [ProgText.OpenOnlyLast, Layout.Term.isOpen]

end EtkVerif.C02
