/-
C02 — Output is exactly the encoded instruction stream of the source.

* `C02_concat`: the output of a successful emission is the concatenation, in item
  order, of each item's encoding; labels (and, upstream, macro definitions, which
  `Spec.flattenOp` maps to no item) contribute nothing; nothing is reordered,
  dropped or duplicated.
* `C02_pushN`: a `pushN e` contributes its opcode byte followed by exactly N
  big-endian bytes holding the operand's value, left-padded with zeros; the
  value is in range (never wrapped or truncated).
* `C02_bytesBE`: the big-endian digits denote the value and are minimal.
Partial: independence of the output from the random label suffixes and the
layout clause about blank lines / comments / `;` (a statement about the pest
interpreter over the generated grammar) are checked by the correspondence run
(every case is assembled twice; every program is rendered in random legal
layouts) and are not theorems.
-/
import EtkVerif.Asm.Corollaries
namespace EtkVerif.C02
open Asm

theorem C02_concat (c : Ctx) (items : List Item) (ws : List Nat) (out : List Nat)
    (h : emit c items ws = .ok out) :
    ∃ parts : List (List Nat), parts.length = items.length ∧ out = parts.flatten ∧
      ∀ i (hi : i < items.length), encodeItem c ((widthsFor items ws).getD i 1) items[i] = .ok (parts.getD i []) :=
  emit_is_concat c items ws out h

theorem C02_pushN (c : Ctx) (pre post : List Item) (code : Nat) (e : Expr) (ws : List Nat) (out : List Nat)
    (h : emit c (pre ++ Item.op code (some e) :: post) ws = .ok out) :
    ∃ (outPre outPost : List Nat) (v : Int),
      emit c pre ws = .ok outPre ∧ eval evalFuel c e = .ok v ∧ 0 ≤ v ∧ v.toNat < 256 ^ immLen code ∧
      out = outPre ++ (code :: (List.replicate (immLen code - (bytesBE v.toNat).length) 0 ++ bytesBE v.toNat)) ++ outPost :=
  emit_op_exact c pre post code e ws out h

theorem C02_bytesBE (n : Nat) :
    1 ≤ (bytesBE n).length ∧ n < 256 ^ (bytesBE n).length ∧
    (∀ k, 1 ≤ k → n < 256 ^ k → (bytesBE n).length ≤ k) ∧
    (bytesBE n).foldl (fun acc b => acc * 256 + b) 0 = n ∧ (∀ b ∈ bytesBE n, b < 256) :=
  bytesBE_spec n

end EtkVerif.C02
