/-
C04 — Disassembly is lossless and independent of how input is chunked.

For every history of `write` and `poll` events (any partition of the input
into writes, any interleaving of polls), with `W` the concatenation of all
bytes written so far and `E` the instructions emitted so far:

* `bytes(E) ++ buffer = W` — nothing dropped, duplicated or reordered;
* every emitted instruction carries the offset `|bytes of the ones before it|`;
* `decodeAll W = E ++ sweep(buffer)` — the right-hand side `decodeAll W`
  mentions no chunk boundary, so neither does what has been and will be emitted;
* once a poll returns `None`, `E` is exactly the linear sweep of `W` and
  `finish` errs iff the incomplete tail is non-empty, reporting its offset and bytes.

`C04_written` ties `W` to the history's own write events; `C04_no_retraction` says that
what has been emitted stays a prefix of the sweep of whatever the stream grows into.
-/
import EtkVerif.Disasm.Lemmas
namespace EtkVerif.C04
open Ops Disasm

theorem C04_lossless (t : OpTable) (hs : SizeOK t) (h : List Ev) (hb : BytesOK h) :
    let r := run t h
    r.panicked = false ∧
    bytesOf r.emitted ++ r.dis.buffer = r.written ∧
    r.dis.offset = (bytesOf r.emitted).length ∧
    OffsetsFrom 0 r.emitted ∧
    (decodeAll t r.written).1 = r.emitted ++ (sweep t r.dis.buffer.length r.dis.offset r.dis.buffer).1 ∧
    (decodeAll t r.written).2 = (sweep t r.dis.buffer.length r.dis.offset r.dis.buffer).2 :=
  Disasm.run_invariant t hs h hb

/-- Polled to exhaustion: the emitted instructions are exactly the linear sweep of
everything written, the buffer is exactly the incomplete tail, and `finish`
reports it (offset and content) iff it is non-empty. -/
theorem C04_exhausted (t : OpTable) (hs : SizeOK t) (h : List Ev) (hb : BytesOK h)
    (hex : (next t (run t h).dis).1 = Next.none) :
    let r := run t h
    r.emitted = (decodeAll t r.written).1 ∧
    (r.dis.offset, r.dis.buffer) = (decodeAll t r.written).2 ∧
    finish r.dis = (if (decodeAll t r.written).2.2 = [] then Finish.ok
                    else Finish.truncated (decodeAll t r.written).2.1 (decodeAll t r.written).2.2) :=
  Disasm.run_exhausted t hs h hb hex

/-- Chunking independence, stated directly: two histories that write the same
bytes in total and are both polled to exhaustion emit the same instructions and
finish identically. -/
theorem C04_chunking_independent (t : OpTable) (hs : SizeOK t) (h₁ h₂ : List Ev)
    (hb₁ : BytesOK h₁) (hb₂ : BytesOK h₂)
    (hw : (run t h₁).written = (run t h₂).written)
    (hex₁ : (next t (run t h₁).dis).1 = Next.none) (hex₂ : (next t (run t h₂).dis).1 = Next.none) :
    (run t h₁).emitted = (run t h₂).emitted ∧ finish (run t h₁).dis = finish (run t h₂).dis := by
  have a := C04_exhausted t hs h₁ hb₁ hex₁
  have b := C04_exhausted t hs h₂ hb₂ hex₂
  simp only at a b
  refine ⟨by rw [a.1, b.1, hw], by rw [a.2.2, b.2.2, hw]⟩

/-- No retraction: an instruction, once emitted, is final. Whatever the history `h`
so far and however it continues (`h'`: more writes in any chunking, more polls),
the instructions emitted after `h` are a prefix of the linear sweep of everything
written by the end — so a consumer that acted on them never has to revise, and the
bytes written after `h` extend those written during `h`. -/
theorem C04_no_retraction (t : OpTable) (hs : SizeOK t) (h h' : List Ev) (hb : BytesOK (h ++ h')) :
    (run t h).emitted <+: (decodeAll t (run t (h ++ h')).written).1 ∧
    (run t h).written <+: (run t (h ++ h')).written := by
  have e := Disasm.foldl_extends t h' (run t h)
  have hr : h'.foldl (step t) (run t h) = run t (h ++ h') := by
    unfold run; rw [List.foldl_append]
  rw [hr] at e
  have l := (C04_lossless t hs (h ++ h') hb).2.2.2.2.1
  refine ⟨?_, e.2⟩
  rw [l]
  exact e.1.trans (List.prefix_append _ _)

/-- `written`, the field the other statements speak about, is nothing but the
concatenation of the payloads of the history's write events, in order — so
`C04_lossless` and `C04_exhausted` are statements about the caller's bytes. -/
theorem C04_written (t : OpTable) (h : List Ev) : (run t h).written = writesOf h := by
  have := Disasm.foldl_written t h {}
  simpa [run] using this

/-- `C04_exhausted` in terms of the caller's own events: polled to exhaustion, the
instructions emitted are the linear sweep of the concatenated write payloads — a
right-hand side in which neither a chunk boundary nor a poll occurs. -/
theorem C04_exhausted_history (t : OpTable) (hs : SizeOK t) (h : List Ev) (hb : BytesOK h)
    (hex : (next t (run t h).dis).1 = Next.none) :
    (run t h).emitted = (decodeAll t (writesOf h)).1 := by
  have a := (C04_exhausted t hs h hb hex).1
  rw [C04_written] at a
  exact a

/-- The hypothesis `SizeOK` holds for the regenerated Cancun table (the fork the
disassembler uses). -/
theorem sizeOK_cancun : SizeOK Gen.cancun := Disasm.sizeOK_of_tableOK Ops.cancun_tableOK

-- non-vacuity: a concrete history (push1 split across two writes, polled in between)
example : (run Gen.cancun [.write [0x60], .poll, .write [0x01, 0x5b, 0x61, 0x02], .poll, .poll, .poll]).emitted
    = [(0, ⟨0x60, [0x01]⟩), (2, ⟨0x5b, []⟩)] := by decide
example : finish (run Gen.cancun [.write [0x60], .poll, .write [0x01, 0x5b, 0x61, 0x02], .poll, .poll, .poll]).dis
    = .truncated 3 [0x61, 0x02] := by decide

end EtkVerif.C04
