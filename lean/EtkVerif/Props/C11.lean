/-
C11 — Expression macros denote their body with arguments substituted.

`f(a₁ … aₙ)` evaluates to the body of `f(p₁ … pₘ)` (m ≤ n) in a frame that binds
exactly `pᵢ ↦ value of aᵢ at the call site`, for ALL m parameters (`C11_call`,
`C11_bindings`, `C11_bindings_all`; surplus arguments are ignored), and
evaluating in that frame is evaluating the body with every `$pᵢ` replaced by
that value in an empty frame (`C11_substitution`) — so macros that call other
macros, forward their parameters or reuse parameter names cannot interfere, at
any nesting depth.  With fewer arguments than parameters (n < m) the invocation
is an error: when the arguments given evaluate, `undefinedVariable pₙ₊₁`, the
first parameter left without argument, whether or not the body reads it
(`C11_missing_argument`, `C11_missing_argument_args`; `fix:` 841db2a, D28).  Definitions are looked up in the scope's macro table, which
is filled before any instruction is fed (`declare` in `Asm.assemble`), so a
definition may follow its use.
-/
import EtkVerif.Asm.ExprLemmas
import EtkVerif.Asm.FullTextPest
namespace EtkVerif.C11
open Asm

theorem C11_call (fuel : Nat) (ctx : Ctx) (name : String) (params : List String) (body : Expr)
    (args : Exprs) (vals : List (String × Int))
    (hm : lookupMacro ctx.macros name = some (.expr params body))
    (hargs : evalArgs fuel ctx params args = .ok vals)
    (hdepth : ctx.depth < maxMacroDepth) :
    eval (fuel + 1) ctx (.macro name args) =
      eval fuel { ctx with vars := some vals, depth := ctx.depth + 1 } body :=
  eval_macro_call fuel ctx name params body args vals hm hargs hdepth

theorem C11_bindings (fuel : Nat) (ctx : Ctx) (params : List String) (args : Exprs) (vals : List (String × Int))
    (h : evalArgs fuel ctx params args = .ok vals) :
    vals.map (·.1) = params.take (min params.length args.toList.length) ∧
    ∀ i (hi : i < vals.length), ∃ a, args.toList[i]? = some a ∧ eval (fuel - 1) ctx a = .ok (vals[i]).2 :=
  evalArgs_spec fuel ctx params args vals h

/-- a successful invocation binds every parameter, so it has at least as many arguments as parameters -/
theorem C11_bindings_all (fuel : Nat) (ctx : Ctx) (params : List String) (args : Exprs) (vals : List (String × Int))
    (h : evalArgs fuel ctx params args = .ok vals) :
    vals.map (·.1) = params ∧ params.length ≤ args.toList.length :=
  evalArgs_ok_params fuel ctx params args vals h

/-- fewer arguments than parameters, argument level: when the arguments given evaluate (as arguments of the first
`args.length` parameters), binding fails with the first parameter left without argument -/
theorem C11_missing_argument_args (fuel : Nat) (ctx : Ctx) (params : List String) (args : Exprs)
    (vals : List (String × Int)) (hlt : args.toList.length < params.length)
    (h : evalArgs fuel ctx (params.take args.toList.length) args = .ok vals) :
    evalArgs fuel ctx params args = .error (.undefinedVariable (params[args.toList.length]'hlt)) :=
  evalArgs_missing fuel ctx params args vals hlt h

/-- fewer arguments than parameters: when every argument given evaluates at the call site, the invocation is the error
naming the first parameter left without argument — whatever the body -/
theorem C11_missing_argument (f : Nat) (ctx : Ctx) (name : String) (params : List String) (body : Expr) (args : Exprs)
    (hm : lookupMacro ctx.macros name = some (.expr params body))
    (hlt : args.toList.length < params.length)
    (hall : ∀ a ∈ args.toList, ∃ v, eval f ctx a = .ok v) :
    eval (f + args.toList.length + 2) ctx (.macro name args)
      = .error (.undefinedVariable (params[args.toList.length]'hlt)) := by
  rw [show f + args.toList.length + 2 = (f + args.toList.length + 1) + 1 by omega, eval]
  simp only [hm, evalArgs_missing_all f ctx args params hlt hall]

theorem C11_substitution (fuel : Nat) (ctx : Ctx) (vs : List (String × Int)) (e : Expr) :
    eval fuel { ctx with vars := some vs } e = eval fuel { ctx with vars := some [] } (substVals vs e) :=
  eval_subst_vals fuel ctx vs e

theorem C11_fuel (f : Nat) (ctx : Ctx) (e : Expr) (r : Except EvErr Int)
    (h : eval f ctx e = r) (hr : r ≠ .error (.recursionLimit evalFuelMark)) : eval (f + 1) ctx e = r :=
  eval_fuel_mono f ctx e r h hr

open Asm.Layout Asm.FullText in
/-- the TEXT of an expression-macro definition `%def name(params)` / body / `%end` (blanks and line ends as the grammar
allows; the body any operand expression with `$variables`, calls, literals, labels, parentheses) parses to the
definition node with exactly the declared name, the parameter list in order and the body's expression -/
theorem C11_text (lead g0 t1 l2 t2 l3 : List Nat) (d : Decl) (crlf1 crlf2 : Bool) (s : XSeq) (term : Layout.Term)
    (hlead : Layout.IsBlanks lead) (hg0 : 1 ≤ g0.length ∧ ExprText.IsBlanks g0) (hd : d.WF)
    (ht1 : Layout.IsBlanks t1) (hl2 : Layout.IsBlanks l2) (hs : s.WF) (ht2 : Layout.IsBlanks t2) (hl3 : Layout.IsBlanks l3)
    (hterm : term.WF) :
    parseAsm (FullText.render [] [⟨lead, .exprDef g0 d t1 crlf1 l2 s t2 crlf2 l3, term⟩]) =
      .ok [.op (.exprDef (Asm.strOf d.name) (d.params.map (fun x => Asm.strOf x.2.1)) s.expr)] := by
  have h : FullText.WF [] [⟨lead, .exprDef g0 d t1 crlf1 l2 s t2 crlf2 l3, term⟩] := by
    refine ⟨(by intro b hb; cases hb), ?_, trivial⟩
    intro x hx
    simp only [List.mem_singleton] at hx
    subst hx
    exact ⟨hlead, ⟨hg0.1, hg0.2, hd, ht1, hl2, hs, ht2, hl3⟩, hterm⟩
  simpa [FullText.Stmt.node] using parse_full [] _ h

end EtkVerif.C11
