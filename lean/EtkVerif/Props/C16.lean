/-
C16 — Basic blocks partition the instruction stream at control-flow boundaries.

For every schedule of `push`, `push_all`, `take` and `finish` (instructions fed
one at a time or in batches, completed blocks collected at any points): the
blocks handed out, completed and in progress, in that order,
* are non-empty and concatenate to exactly the instructions fed (`C16_partition`);
* have a jumpdest only as first and a jump / jumpi / halting instruction only as
  last instruction (`C16_partition`, `Block.Shaped`);
* have offsets chained by size when the input offsets are chained (`C16_offsets`);
* are maximal when no `finish` cut one short (`C16_maximal`);
and `finish` called directly after `take` never panics (`C16_no_panic`).
`C16_fed` ties the `fed` field to the schedule's own events, `C16_schedule_independent`
states the independence from the schedule directly, and `C16_bytes_partition` composes
the separator with the streaming disassembler at the level of bytes.
"Halting" is the specification's notion: `C16_flags_cancun` ties the table flags
used by the separator to `Spec.ofFork`.
-/
import EtkVerif.Blocks.Lemmas
import EtkVerif.Disasm.Lemmas
import EtkVerif.Ops.TableCancun
namespace EtkVerif.C16
open Ops Blocks

/-- Needs `JtNotEnd t`: no opcode is flagged both jump target and block-ending
(`C16_partition_needs_hypothesis` shows the statement is false for a table that
violates this; `C16_jtNotEnd_cancun` discharges it for the regenerated table). -/
theorem C16_partition (t : OpTable) (hjt : JtNotEnd t) (h : List Ev) :
    let r := run t h
    r.allBlocks.flatMap (·.ops) = r.fed.map (·.2) ∧ (∀ b ∈ r.allBlocks, b.Shaped t) :=
  run_partition_of_jtNotEnd t hjt h

/-- The concatenation clause alone holds for every table. -/
theorem C16_concat (t : OpTable) (h : List Ev) :
    (run t h).allBlocks.flatMap (·.ops) = (run t h).fed.map (·.2) :=
  run_flat t h

theorem C16_jtNotEnd_cancun : JtNotEnd Gen.cancun := jtNotEnd_of_all _ (by decide +kernel)

/-- C16 for the separator as it runs (Cancun table): no hypothesis left. -/
theorem C16_partition_cancun (h : List Ev) :
    let r := run Gen.cancun h
    r.allBlocks.flatMap (·.ops) = r.fed.map (·.2) ∧ (∀ b ∈ r.allBlocks, b.Shaped Gen.cancun) :=
  run_partition_of_jtNotEnd Gen.cancun C16_jtNotEnd_cancun h

theorem C16_partition_needs_hypothesis :
    ¬ ∀ (t : OpTable) (h : List Ev),
      (let r := run t h
       r.allBlocks.flatMap (·.ops) = r.fed.map (·.2) ∧ (∀ b ∈ r.allBlocks, b.Shaped t)) :=
  run_partition_counterexample

theorem C16_offsets (t : OpTable) (h : List Ev) (off : Nat) (hc : Chained off (run t h).fed) :
    BlocksChained off (run t h).allBlocks :=
  run_offsets t h off hc

theorem C16_maximal (t : OpTable) (h : List Ev)
    (hnf : ∀ e ∈ h, (match e with | Ev.finish => true | _ => false) = false) :
    Maximal t (run t h).allBlocks :=
  run_maximal t h hnf

theorem C16_no_panic (t : OpTable) (h : List Ev) (hf : FinishAfterTake h) :
    (run t h).panicked = false :=
  run_no_panic t h hf

/-- The two stages composed, at the level of BYTES: when the separator has been fed
exactly what the streaming disassembler emitted (any write chunking and poll
interleaving on the disassembler side, any push / push_all / take / finish schedule on
the separator side), the bytes of the blocks, in order, followed by the
disassembler's undecoded tail, are exactly the bytes written — the blocks partition
the input bytes, not merely the instruction list. -/
theorem C16_bytes_partition (t : OpTable) (hs : Disasm.SizeOK t)
    (hd : List Disasm.Ev) (hbytes : Disasm.BytesOK hd) (hb : List Ev)
    (hfed : (run t hb).fed = (Disasm.run t hd).emitted) :
    (run t hb).allBlocks.flatMap (fun b => b.ops.flatMap Disasm.Instr.bytes) ++ (Disasm.run t hd).dis.buffer
      = (Disasm.run t hd).written := by
  have hc := C16_concat t hb
  have hl := (Disasm.run_invariant t hs hd hbytes).2.1
  have e : (run t hb).allBlocks.flatMap (fun b => b.ops.flatMap Disasm.Instr.bytes)
      = Disasm.bytesOf (Disasm.run t hd).emitted := by
    rw [← List.flatMap_assoc, hc, hfed]
    simp [Disasm.bytesOf, List.flatMap_map]
  rw [e]; exact hl

/-- `fed`, the field the other statements speak about, is nothing but the
instructions of the schedule's push / push_all events, in order. -/
theorem C16_fed (t : OpTable) (h : List Ev) : (run t h).fed = pushedOf h := by
  have := Blocks.foldl_fed t h {}
  simpa [run] using this

/-- Schedule independence, stated directly: two schedules without `finish` that feed
the same instructions — in whatever grouping into `push` / `push_all`, with `take`
called wherever — hand out and hold exactly the same blocks in the same order. -/
theorem C16_schedule_independent (t : OpTable) (h₁ h₂ : List Ev)
    (hn₁ : ∀ e ∈ h₁, e ≠ Ev.finish) (hn₂ : ∀ e ∈ h₂, e ≠ Ev.finish)
    (hp : pushedOf h₁ = pushedOf h₂) :
    (run t h₁).allBlocks = (run t h₂).allBlocks := by
  have a := run_blocksOf t h₁ hn₁
  have b := run_blocksOf t h₂ hn₂
  rw [C16_fed] at a b
  rw [hp] at a
  have e := a.trans b.symm
  rw [Run.allBlocks_eq, Run.allBlocks_eq]
  have e1 := congrArg Prod.fst e
  have e2 := congrArg Prod.snd e
  simp only at e1 e2
  rw [e1, e2]

/-- The flags the separator reads from the regenerated Cancun table are the
specification's: jump-target ⇔ jumpdest; block-ending ⇔ jump, jumpi or halting
(stop, return, revert, invalid, selfdestruct, every byte etk does not define). -/
theorem C16_flags_cancun : ∀ b < 256, ∀ imm,
    isJumpTarget Gen.cancun ⟨b, imm⟩ = (b == 0x5b) ∧
    endsBlock Gen.cancun ⟨b, imm⟩ =
      (match Spec.ofFork .cancun b with
       | some s => if isUndefRow (rowOf Gen.cancun b) then true else (s.jump || s.halt)
       | none => true) := by
  intro b hb imm
  have key : ∀ b < 256,
      ((rowOf Gen.cancun b).jt = (b == 0x5b) ∧
       ((rowOf Gen.cancun b).jump || (rowOf Gen.cancun b).exit) =
        (match Spec.ofFork .cancun b with
         | some s => if isUndefRow (rowOf Gen.cancun b) then true else (s.jump || s.halt)
         | none => true)) := by decide +kernel
  exact key b hb

-- non-vacuity: jumpdest splits, stop ends, selfdestruct ends (D17 regression witness)
example : ((run Gen.cancun [.pushAll [(0, ⟨0x5b, []⟩), (1, ⟨0x60, [1]⟩), (3, ⟨0x5b, []⟩), (4, ⟨0xff, []⟩), (5, ⟨0x58, []⟩)], .take]).out.map (·.offset))
    = [0, 3] := by decide

-- non-vacuity of `C16_bytes_partition`: a push1 split across two writes on the disassembler side, what it emitted fed
-- to the separator one instruction at a time with a `take` in between; the hypothesis holds and the tail is `[0x61, 0x02]`
example : (run Gen.cancun [.push (0, ⟨0x60, [0x01]⟩), .take, .push (2, ⟨0x5b, []⟩)]).fed
    = (Disasm.run Gen.cancun [.write [0x60], .poll, .write [0x01, 0x5b, 0x61, 0x02], .poll, .poll, .poll]).emitted := by decide

-- non-vacuity of `C16_schedule_independent`: one batch against three single pushes with a `take` in between
example : pushedOf [.pushAll [(0, ⟨0x5b, []⟩), (1, ⟨0x00, []⟩), (2, ⟨0x58, []⟩)]]
    = pushedOf [.push (0, ⟨0x5b, []⟩), .push (1, ⟨0x00, []⟩), .take, .push (2, ⟨0x58, []⟩)] := by decide

end EtkVerif.C16
