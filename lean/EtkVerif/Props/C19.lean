/-
C19 — Hex input and output adapters are exact for every chunking.

`HexRead`: for every text, every fragmentation of the underlying reader
(`sched`: any list of chunk sizes — 1-byte reads, splits inside the prefix or
inside a digit pair) and every sequence of caller buffer sizes, reading to the
end yields exactly `denote text`, or an error iff the text is malformed; what
was delivered before an error is the correct decoding of a prefix.
`HexWrite`: even acceptances ⇒ sink text = lowercase hex of the bytes reported
written; odd acceptance ⇒ error; `decode ∘ encode = id`.
-/
import EtkVerif.Hex.Lemmas
namespace EtkVerif.C19
open Hex

theorem C19_read (text sched bufs : List Nat) (fuel : Nat) (hf : text.length + 2 ≤ fuel) :
    match denote text with
    | some bs => readAll fuel {} ⟨text, sched⟩ bufs [] = .ok bs
    | none => ∃ pre k, readAll fuel {} ⟨text, sched⟩ bufs [] = .err pre ∧
                decodePairs ((body text).take (2 * k)) = some pre :=
  readAll_correct text sched bufs fuel hf

/-- Fragmentation independence, stated directly. -/
theorem C19_read_fragmentation_independent (text s₁ s₂ b₁ b₂ : List Nat) (bs : List Nat)
    (h : readAll (text.length + 2) {} ⟨text, s₁⟩ b₁ [] = .ok bs) :
    readAll (text.length + 2) {} ⟨text, s₂⟩ b₂ [] = .ok bs := by
  have h₁ := C19_read text s₁ b₁ (text.length + 2) (Nat.le_refl _)
  have h₂ := C19_read text s₂ b₂ (text.length + 2) (Nat.le_refl _)
  cases hd : denote text with
  | some v =>
    rw [hd] at h₁ h₂; simp only at h₁ h₂
    rw [h₁] at h; cases h; exact h₂
  | none =>
    rw [hd] at h₁; simp only at h₁
    obtain ⟨pre, k, he, _⟩ := h₁
    rw [he] at h; cases h

theorem C19_write (buf : List Nat) (accept : Nat) :
    let wrote := min accept (2 * buf.length)
    (wrote % 2 = 0 → write buf accept = (.ok (wrote / 2), encode (buf.take (wrote / 2)))) ∧
    (wrote % 2 = 1 → (write buf accept).1 = .err) :=
  write_spec buf accept

theorem C19_write_loop (fuel : Nat) (data accepts sizes : List Nat) (hev : ∀ a ∈ accepts, a % 2 = 0) :
    let r := writeLoop fuel data accepts sizes [] 0
    r.1 = true ∧ r.2.1 = encode (data.take r.2.2) ∧ r.2.2 ≤ data.length :=
  writeLoop_even fuel data accepts sizes hev

theorem C19_write_all (data accepts sizes : List Nat) (hev : ∀ a ∈ accepts, a % 2 = 0 ∧ 2 ≤ a) :
    writeLoop (data.length + 1) data accepts sizes [] 0 = (true, encode data, data.length) :=
  writeLoop_complete data accepts sizes hev

theorem C19_roundtrip (bs : List Nat) (hb : ∀ b ∈ bs, b < 256) : denote (encode bs) = some bs :=
  denote_encode bs hb

/-- The two adapters composed: whatever `HexWrite` leaves in the sink after the
caller's write loop (any even acceptances ≥ 2, any write sizes) is read back by
`HexRead` as exactly the bytes written — for every fragmentation of the
reader and every sequence of caller buffers. -/
theorem C19_write_then_read (data accepts sizes sched bufs : List Nat) (hb : ∀ b ∈ data, b < 256)
    (hev : ∀ a ∈ accepts, a % 2 = 0 ∧ 2 ≤ a) :
    let sink := (writeLoop (data.length + 1) data accepts sizes [] 0).2.1
    readAll (sink.length + 2) {} ⟨sink, sched⟩ bufs [] = .ok data := by
  intro sink
  have hw : sink = encode data := by
    show (writeLoop (data.length + 1) data accepts sizes [] 0).2.1 = _
    rw [C19_write_all data accepts sizes hev]
  have hr := C19_read sink sched bufs (sink.length + 2) (Nat.le_refl _)
  rw [hw, C19_roundtrip data hb] at hr
  rw [hw]; exact hr


-- non-vacuity: "0x01ff\n" read one character at a time into 1-byte buffers
example : readAll 9 {} ⟨[48, 120, 48, 49, 102, 102, 10], [1, 1, 1, 1, 1, 1, 1]⟩ [1, 1, 1] [] = .ok [1, 255] := by decide
example : denote [48, 120, 48, 49, 102, 102, 10] = some [1, 255] := by decide
example : denote [48, 49, 50] = none := by decide
example : ∃ pre, readAll 5 {} ⟨[48, 49, 50], [2, 1]⟩ [1] [] = .err pre := ⟨[1], by decide⟩

-- the composed statement on a concrete run: two bytes, sink accepts 2 characters at a time, reader splits every character
example : (writeLoop 3 [1, 255] [2, 2, 2] [1, 1, 1] [] 0).2.1 = [48, 49, 102, 102] := by decide

end EtkVerif.C19
