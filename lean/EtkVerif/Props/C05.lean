/-
C05 — Refined control-flow graph over-approximates every real execution.

Semantics: `Evm/Sem.lean` (pc and stack; every state-dependent read answered by
an arbitrary oracle `ω`; environment `E` arbitrary) — executions that underflow
the stack are outside the relation.  For every block, every `E`, every `ω` and
every entry stack deep enough, the way control leaves the block
(`Cfg.successor`: the block starting at the jump destination if it begins with a
jumpdest, bad-jump otherwise; the textual successor or terminate on fall-through
/ untaken branch; terminate on halt) is
* an edge of the graph as first built (`C05_initial`, T-cfg0), and
* still an edge after refinement by any solver that answers *unsat* only for
  unsatisfiable queries (`C05_refined`, T-cfg1) — i.e. refinement removes only
  edges no execution can take.
The proof goes through T-ann (C06) and T-tr: for every `Sym` and all 2^256
operand values the solver term denotes the EVM operation (`C05_translation`).
Whole executions follow by induction on the number of block transitions
(`C05_path`).
-/
import EtkVerif.Cfg.Lemmas
import EtkVerif.Annot.Total
import EtkVerif.Cfg.Pipeline
namespace EtkVerif.C05
open Annot Smt Cfg Evm

theorem C05_translation (E : Env) (ω : Nat → Word) (ρ : Nat → Word) (e : Tree) (hwf : e.wf = true) (n : Nat) :
    ∃ x n', toTerm e n = .ok (x, n') ∧ n ≤ n' ∧ x.width = 256 ∧
      ∃ vals : Nat → Nat, ∀ I : Interp, Agrees I E ρ →
        (∀ k, n ≤ k → k < n' → I.fresh k = vals k) →
        x.eval I = (Tree.eval E ω ρ e).toNat :=
  toTerm_sound E ω ρ e hwf n

theorem C05_initial (t : OpTable) (bs : List Blocks.Block) (anns : List Annotated) (hS : Setup t bs anns)
    (g : Graph) (hg : cfgNew anns = .ok g)
    (i : Nat) (b : Blocks.Block) (a : Annotated) (hb : bs[i]? = some b) (ha : anns[i]? = some a)
    (E : Env) (ω : Nat → Word) (entry : List Word) (hd : a.inputs ≤ entry.length)
    (o : Outcome) (ho : execBlock E ω b.ops b.offset 0 entry = some o) :
    (i, successor anns o) ∈ g.edges :=
  cfgNew_complete t bs anns hS g hg i b a hb ha E ω entry hd o ho

theorem C05_refined (t : OpTable) (bs : List Blocks.Block) (anns : List Annotated) (hS : Setup t bs anns)
    (g g' : Graph) (hg : cfgNew anns = .ok g)
    (sat : List BTerm → Bool) (hsat : SoundSat sat) (hr : refine sat g = .ok g')
    (i : Nat) (b : Blocks.Block) (a : Annotated) (hb : bs[i]? = some b) (ha : anns[i]? = some a)
    (E : Env) (ω : Nat → Word) (entry : List Word) (hd : a.inputs ≤ entry.length)
    (o : Outcome) (ho : execBlock E ω b.ops b.offset 0 entry = some o) :
    (i, successor anns o) ∈ g'.edges :=
  refine_complete t bs anns hS g g' hg sat hsat hr i b a hb ha E ω entry hd o ho

/-- A whole execution as a sequence of block visits: at each visited block the
machine entered with some stack, under some oracle for that block's
state-dependent reads, and left with outcome `o`; consecutive visits are linked
by `successor`. -/
inductive Path (t : OpTable) (bs : List Blocks.Block) (anns : List Annotated) (E : Env) :
    Nat → List (Nat × Node) → Prop
  | stop (i : Nat) : Path t bs anns E i []
  | step (i : Nat) (b : Blocks.Block) (a : Annotated) (ω : Nat → Word) (entry : List Word) (o : Outcome)
      (hb : bs[i]? = some b) (ha : anns[i]? = some a) (hd : a.inputs ≤ entry.length)
      (ho : execBlock E ω b.ops b.offset 0 entry = some o) (j : Nat) (rest : List (Nat × Node))
      (hn : successor anns o = .block j) (hrest : Path t bs anns E j rest) :
      Path t bs anns E i ((i, .block j) :: rest)
  | last (i : Nat) (b : Blocks.Block) (a : Annotated) (ω : Nat → Word) (entry : List Word) (o : Outcome)
      (hb : bs[i]? = some b) (ha : anns[i]? = some a) (hd : a.inputs ≤ entry.length)
      (ho : execBlock E ω b.ops b.offset 0 entry = some o) (n : Node) (hn : successor anns o = n) :
      Path t bs anns E i [(i, n)]

/-- Every transfer of every execution path is an edge of the refined graph. -/
theorem C05_path (t : OpTable) (bs : List Blocks.Block) (anns : List Annotated) (hS : Setup t bs anns)
    (g g' : Graph) (hg : cfgNew anns = .ok g)
    (sat : List BTerm → Bool) (hsat : SoundSat sat) (hr : refine sat g = .ok g')
    (E : Env) (i : Nat) (p : List (Nat × Node)) (hp : Path t bs anns E i p) :
    ∀ e ∈ p, e ∈ g'.edges := by
  induction hp with
  | stop i => intro e he; cases he
  | step i b a ω entry o hb ha hd ho j rest hn _ ih =>
    intro e he
    cases he with
    | head => rw [← hn]; exact C05_refined t bs anns hS g g' hg sat hsat hr i b a hb ha E ω entry hd o ho
    | tail _ h => exact ih e h
  | last i b a ω entry o hb ha hd ho n hn =>
    intro e he
    cases he with
    | head => rw [← hn]; exact C05_refined t bs anns hS g g' hg sat hsat hr i b a hb ha E ω entry hd o ho
    | tail _ h => cases h

/-- The hypothesis `Setup` of the theorems above is what the pipeline's first stages
establish on raw code bytes (`Pipeline.blocks` = disassemble, separate): so C05
holds for every byte string of at most 65536 bytes whose blocks stay within the
annotator's variable budget. -/
theorem C05_pipeline_setup (code : List Nat) (hb : ∀ b ∈ code, b < 256) (hlen : code.length ≤ 65536)
    (hbudget : ∀ b ∈ Pipeline.blocks code, popBudget Gen.cancun b.ops ≤ 65535) :
    ∃ anns, Pipeline.annotateAll Gen.cancun (Pipeline.blocks code) = .ok anns ∧
      Setup Gen.cancun (Pipeline.blocks code) anns :=
  Pipeline.pipeline_setup code hb hlen hbudget

/-- `successor` treats a jump destination as valid exactly when a block that begins
with a jumpdest starts there; for the pipeline's blocks that is exactly "the linear
sweep of the code has a `jumpdest` instruction at that offset" — the EVM's notion
(relative to the sweep). -/
theorem C05_jumpdests (code : List Nat) (hb : ∀ b ∈ code, b < 256) :
    (Pipeline.blocks code).flatMap (·.ops) = ((Disasm.decodeAll Gen.cancun code).1).map (·.2) ∧
    ∀ d : Nat, (∃ b ∈ Pipeline.blocks code, b.offset = d ∧ ∃ i, b.ops.head? = some i ∧ i.op = 0x5b) ↔
               (∃ imm, (d, (⟨0x5b, imm⟩ : Disasm.Instr)) ∈ (Disasm.decodeAll Gen.cancun code).1) :=
  Pipeline.pipeline_jumpdests code hb

end EtkVerif.C05
