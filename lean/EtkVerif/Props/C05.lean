/-
C05 — Refined control-flow graph over-approximates every real execution.

Semantics: `Evm/Sem.lean` (pc and stack; every state-dependent read answered by
an arbitrary oracle `ω`; environment `E` arbitrary) — executions that underflow
the stack are outside the relation.  For every block, every `E`, every `ω` and
every entry stack deep enough, the way control leaves the block
(`Cfg.successor`: the block starting at the jump destination if it begins with a
jumpdest, bad-jump otherwise; the textual successor or terminate on fall-through
/ untaken branch; terminate on halt) is
* an edge of the graph as first built (`C05_initial`, T-cfg0), and
* still an edge after refinement by any solver that answers *unsat* only for
  unsatisfiable queries (`C05_refined`, T-cfg1) — i.e. refinement removes only
  edges no execution can take.
The proof goes through T-ann (C06) and T-tr: for every `Sym` and all 2^256
operand values the solver term denotes the EVM operation (`C05_translation`).
Whole executions follow by induction on the number of block transitions
(`C05_path`).
-/
import EtkVerif.Cfg.Lemmas
import EtkVerif.Annot.Total
import EtkVerif.Cfg.Pipeline
import EtkVerif.Evm.Cancun
import EtkVerif.Cfg.PipelineExact
namespace EtkVerif.C05
open Annot Smt Cfg Evm

theorem C05_translation (E : Env) (ω : Nat → Word) (ρ : Nat → Word) (e : Tree) (hwf : e.wf = true) (n : Nat) :
    ∃ x n', toTerm e n = .ok (x, n') ∧ n ≤ n' ∧ x.width = 256 ∧
      ∃ vals : Nat → Nat, ∀ I : Interp, Agrees I E ρ →
        (∀ k, n ≤ k → k < n' → I.fresh k = vals k) →
        x.eval I = (Tree.eval E ω ρ e).toNat :=
  toTerm_sound E ω ρ e hwf n

theorem C05_initial (t : OpTable) (bs : List Blocks.Block) (anns : List Annotated) (hS : Setup t bs anns)
    (g : Graph) (hg : cfgNew anns = .ok g)
    (i : Nat) (b : Blocks.Block) (a : Annotated) (hb : bs[i]? = some b) (ha : anns[i]? = some a)
    (E : Env) (ω : Nat → Word) (entry : List Word) (hd : a.inputs ≤ entry.length)
    (o : Outcome) (ho : execBlock E ω b.ops b.offset 0 entry = some o) :
    (i, successor anns o) ∈ g.edges :=
  cfgNew_complete t bs anns hS g hg i b a hb ha E ω entry hd o ho

theorem C05_refined (t : OpTable) (bs : List Blocks.Block) (anns : List Annotated) (hS : Setup t bs anns)
    (g g' : Graph) (hg : cfgNew anns = .ok g)
    (sat : List BTerm → Bool) (hsat : SoundSat sat) (hr : refine sat g = .ok g')
    (i : Nat) (b : Blocks.Block) (a : Annotated) (hb : bs[i]? = some b) (ha : anns[i]? = some a)
    (E : Env) (ω : Nat → Word) (entry : List Word) (hd : a.inputs ≤ entry.length)
    (o : Outcome) (ho : execBlock E ω b.ops b.offset 0 entry = some o) :
    (i, successor anns o) ∈ g'.edges :=
  refine_complete t bs anns hS g g' hg sat hsat hr i b a hb ha E ω entry hd o ho

/-- A whole execution as a sequence of block visits: at each visited block the
machine entered with some stack, under some oracle for that block's
state-dependent reads, and left with outcome `o`; consecutive visits are linked
by `successor`. -/
inductive Path (t : OpTable) (bs : List Blocks.Block) (anns : List Annotated) (E : Env) :
    Nat → List (Nat × Node) → Prop
  | stop (i : Nat) : Path t bs anns E i []
  | step (i : Nat) (b : Blocks.Block) (a : Annotated) (ω : Nat → Word) (entry : List Word) (o : Outcome)
      (hb : bs[i]? = some b) (ha : anns[i]? = some a) (hd : a.inputs ≤ entry.length)
      (ho : execBlock E ω b.ops b.offset 0 entry = some o) (j : Nat) (rest : List (Nat × Node))
      (hn : successor anns o = .block j) (hrest : Path t bs anns E j rest) :
      Path t bs anns E i ((i, .block j) :: rest)
  | last (i : Nat) (b : Blocks.Block) (a : Annotated) (ω : Nat → Word) (entry : List Word) (o : Outcome)
      (hb : bs[i]? = some b) (ha : anns[i]? = some a) (hd : a.inputs ≤ entry.length)
      (ho : execBlock E ω b.ops b.offset 0 entry = some o) (n : Node) (hn : successor anns o = n) :
      Path t bs anns E i [(i, n)]

/-- Every transfer of every execution path is an edge of the refined graph. -/
theorem C05_path (t : OpTable) (bs : List Blocks.Block) (anns : List Annotated) (hS : Setup t bs anns)
    (g g' : Graph) (hg : cfgNew anns = .ok g)
    (sat : List BTerm → Bool) (hsat : SoundSat sat) (hr : refine sat g = .ok g')
    (E : Env) (i : Nat) (p : List (Nat × Node)) (hp : Path t bs anns E i p) :
    ∀ e ∈ p, e ∈ g'.edges := by
  induction hp with
  | stop i => intro e he; cases he
  | step i b a ω entry o hb ha hd ho j rest hn _ ih =>
    intro e he
    cases he with
    | head => rw [← hn]; exact C05_refined t bs anns hS g g' hg sat hsat hr i b a hb ha E ω entry hd o ho
    | tail _ h => exact ih e h
  | last i b a ω entry o hb ha hd ho n hn =>
    intro e he
    cases he with
    | head => rw [← hn]; exact C05_refined t bs anns hS g g' hg sat hsat hr i b a hb ha E ω entry hd o ho
    | tail _ h => cases h

/-- The hypothesis `Setup` of the theorems above is what the pipeline's first stages
establish on raw code bytes (`Pipeline.blocks` = disassemble, separate): so C05
holds for every byte string of at most 65536 bytes whose blocks stay within the
annotator's variable budget. -/
theorem C05_pipeline_setup (code : List Nat) (hb : ∀ b ∈ code, b < 256) (hlen : code.length ≤ 65536)
    (hbudget : ∀ b ∈ Pipeline.blocks code, popBudget Gen.cancun b.ops ≤ 65535) :
    ∃ anns, Pipeline.annotateAll Gen.cancun (Pipeline.blocks code) = .ok anns ∧
      Setup Gen.cancun (Pipeline.blocks code) anns :=
  Pipeline.pipeline_setup code hb hlen hbudget

/-- `successor` treats a jump destination as valid exactly when a block that begins
with a jumpdest starts there; for the pipeline's blocks that is exactly "the linear
sweep of the code has a `jumpdest` instruction at that offset" — the EVM's notion
(relative to the sweep). -/
theorem C05_jumpdests (code : List Nat) (hb : ∀ b ∈ code, b < 256) :
    (Pipeline.blocks code).flatMap (·.ops) = ((Disasm.decodeAll Gen.cancun code).1).map (·.2) ∧
    ∀ d : Nat, (∃ b ∈ Pipeline.blocks code, b.offset = d ∧ ∃ i, b.ops.head? = some i ∧ i.op = 0x5b) ↔
               (∃ imm, (d, (⟨0x5b, imm⟩ : Disasm.Instr)) ∈ (Disasm.decodeAll Gen.cancun code).1) :=
  Pipeline.pipeline_jumpdests code hb

/-! ### Scope: etk's Cancun table vs. real Cancun

`execBlock` follows the opcode set of etk's own Cancun table, which lacks the real
Cancun opcodes 0x49 BLOBHASH, 0x4a BLOBBASEFEE, 0x5c TLOAD, 0x5d TSTORE
(`Evm.missingOps`); etk and `execBlock` treat them as invalid = halting.  Against the
REAL Cancun semantics `execBlockC` (`Evm/Cancun.lean`) the theorems above hold for
blocks that contain none of the four opcodes, and fail otherwise. -/

theorem C05_initial_cancun (t : OpTable) (bs : List Blocks.Block) (anns : List Annotated) (hS : Setup t bs anns)
    (g : Graph) (hg : cfgNew anns = .ok g)
    (i : Nat) (b : Blocks.Block) (a : Annotated) (hb : bs[i]? = some b) (ha : anns[i]? = some a)
    (hm : ∀ x ∈ b.ops, x.op ∉ Evm.missingOps)
    (E : Env) (ω : Nat → Word) (entry : List Word) (hd : a.inputs ≤ entry.length)
    (o : Outcome) (ho : execBlockC E ω b.ops b.offset 0 entry = some o) :
    (i, successor anns o) ∈ g.edges := by
  rw [execBlockC_eq E ω b.ops b.offset 0 entry hm] at ho
  exact C05_initial t bs anns hS g hg i b a hb ha E ω entry hd o ho

theorem C05_refined_cancun (t : OpTable) (bs : List Blocks.Block) (anns : List Annotated) (hS : Setup t bs anns)
    (g g' : Graph) (hg : cfgNew anns = .ok g)
    (sat : List BTerm → Bool) (hsat : SoundSat sat) (hr : refine sat g = .ok g')
    (i : Nat) (b : Blocks.Block) (a : Annotated) (hb : bs[i]? = some b) (ha : anns[i]? = some a)
    (hm : ∀ x ∈ b.ops, x.op ∉ Evm.missingOps)
    (E : Env) (ω : Nat → Word) (entry : List Word) (hd : a.inputs ≤ entry.length)
    (o : Outcome) (ho : execBlockC E ω b.ops b.offset 0 entry = some o) :
    (i, successor anns o) ∈ g'.edges := by
  rw [execBlockC_eq E ω b.ops b.offset 0 entry hm] at ho
  exact C05_refined t bs anns hS g g' hg sat hsat hr i b a hb ha E ω entry hd o ho

/-- execution paths of the REAL Cancun machine through blocks free of the four opcodes etk's table lacks -/
inductive PathCancun (t : OpTable) (bs : List Blocks.Block) (anns : List Annotated) (E : Env) : Nat → List (Nat × Node) → Prop
  | stop (i : Nat) : PathCancun t bs anns E i []
  | step (i : Nat) (b : Blocks.Block) (a : Annotated) (ω : Nat → Word) (entry : List Word) (o : Outcome)
      (hb : bs[i]? = some b) (ha : anns[i]? = some a) (hd : a.inputs ≤ entry.length)
      (hm : ∀ x ∈ b.ops, x.op ∉ Evm.missingOps)
      (ho : execBlockC E ω b.ops b.offset 0 entry = some o) (j : Nat) (rest : List (Nat × Node))
      (hn : successor anns o = .block j) (hrest : PathCancun t bs anns E j rest) :
      PathCancun t bs anns E i ((i, .block j) :: rest)
  | last (i : Nat) (b : Blocks.Block) (a : Annotated) (ω : Nat → Word) (entry : List Word) (o : Outcome)
      (hb : bs[i]? = some b) (ha : anns[i]? = some a) (hd : a.inputs ≤ entry.length)
      (hm : ∀ x ∈ b.ops, x.op ∉ Evm.missingOps)
      (ho : execBlockC E ω b.ops b.offset 0 entry = some o) (n : Node) (hn : successor anns o = n) :
      PathCancun t bs anns E i [(i, n)]

/-- whole paths under real Cancun: every transfer of every execution path that stays in blocks free of BLOBHASH,
BLOBBASEFEE, TLOAD, TSTORE is an edge of the refined graph (in particular: every path of a program that contains none
of the four opcodes) -/
theorem C05_path_cancun (t : OpTable) (bs : List Blocks.Block) (anns : List Annotated) (hS : Setup t bs anns)
    (g g' : Graph) (hg : cfgNew anns = .ok g)
    (sat : List BTerm → Bool) (hsat : SoundSat sat) (hr : refine sat g = .ok g')
    (E : Env) (i : Nat) (p : List (Nat × Node)) (hp : PathCancun t bs anns E i p) :
    ∀ e ∈ p, e ∈ g'.edges := by
  induction hp with
  | stop i => intro e he; cases he
  | step i b a ω entry o hb ha hd hm ho j rest hn _ ih =>
    intro e he
    cases he with
    | head => rw [← hn]; exact C05_refined_cancun t bs anns hS g g' hg sat hsat hr i b a hb ha hm E ω entry hd o ho
    | tail _ h => exact ih e h
  | last i b a ω entry o hb ha hd hm ho n hn =>
    intro e he
    cases he with
    | head => rw [← hn]; exact C05_refined_cancun t bs anns hS g g' hg sat hsat hr i b a hb ha hm E ω entry hd o ho
    | tail _ h => cases h

/-- Without `hm`, `C05_initial_cancun` / `C05_refined_cancun` are false.  The valid Cancun
program `push1 0; tload; push1 6; jump; jumpdest; stop` (bytes 60 00 5c 60 06 56 5b 00):
the model of etk's pipeline splits it into three blocks (offsets 0, 3, 6), block 0 being
`push1 0; tload` because etk takes 0x5c for an invalid instruction; every hypothesis of
`C05_initial` holds (`Setup`, `cfgNew` succeeds, block 0 declares 0 inputs); the graph's
only edge out of block 0 is `terminate`.  The real Cancun machine, for every environment
and oracle, runs block 0 from the empty stack and falls through to offset 3, i.e. into
block 1 — a control transfer that is not an edge of the graph, nor of any refinement of it. -/
theorem C05_cancun_counterexample (E : Env) (ω : Nat → Word) :
    let code : List Nat := [0x60, 0x00, 0x5c, 0x60, 0x06, 0x56, 0x5b, 0x00]
    let bs := Pipeline.blocks code
    ∃ (anns : List Annotated) (g : Graph) (b0 : Blocks.Block) (a0 : Annotated) (o : Outcome),
      Pipeline.annotateAll Gen.cancun bs = .ok anns ∧ Setup Gen.cancun bs anns ∧ cfgNew anns = .ok g ∧
      bs[0]? = some b0 ∧ anns[0]? = some a0 ∧ a0.inputs ≤ ([] : List Word).length ∧
      b0 = ⟨0, [⟨0x60, [0x00]⟩, ⟨0x5c, []⟩]⟩ ∧
      g.edges = [(0, .terminate), (1, .badJump), (1, .block 2), (2, .terminate)] ∧
      execBlock E ω b0.ops b0.offset 0 [] = some .halt ∧
      execBlockC E ω b0.ops b0.offset 0 [] = some o ∧ o = .fall 3 [ω 1] ∧
      successor anns o = .block 1 ∧
      (0, successor anns o) ∉ g.edges ∧
      ∀ (sat : List BTerm → Bool) (g' : Graph), refine sat g = .ok g' → (0, successor anns o) ∉ g'.edges := by
  intro code bs
  have hb : ∀ b ∈ code, b < 256 := by decide
  have hlen : code.length ≤ 65536 := by decide
  have hbudget : ∀ b ∈ Pipeline.blocks code, popBudget Gen.cancun b.ops ≤ 65535 := by decide +kernel
  obtain ⟨anns, h1, hS⟩ := C05_pipeline_setup code hb hlen hbudget
  have h2 : Pipeline.annotateAll Gen.cancun (Pipeline.blocks code) = .ok _ := rfl
  rw [h2] at h1
  injection h1 with h1
  subst h1
  have key : ∀ {α β : Prop}, α → (α → β) → α ∧ β := fun a f => ⟨a, f a⟩
  refine ⟨_, _, _, _, .fall 3 [ω 1], h2, hS, rfl, rfl, rfl, by decide, rfl, rfl, rfl, rfl, rfl, rfl, key ?_ ?_⟩
  · change (0, Node.block 1) ∉ _
    decide
  · intro hne sat g' hr hin
    exact hne ((refine_subgraph sat _ g' hr).2.subset hin)

/-- `C05_pipeline_setup` with the exact hypothesis: every block needs at most 65535
input variables (`Annot.inputsNeeded`) instead of `popBudget ≤ 65535`.  The
hypothesis is necessary: otherwise the annotate stage reports the `u16` counter
overflow (`Pipeline.pipeline_refused_exact`, finding D20). -/
theorem C05_pipeline_setup_exact (code : List Nat) (hb : ∀ b ∈ code, b < 256) (hlen : code.length ≤ 65536)
    (hinputs : ∀ b ∈ Pipeline.blocks code, inputsNeeded Gen.cancun b.ops ≤ 65535) :
    ∃ anns, Pipeline.annotateAll Gen.cancun (Pipeline.blocks code) = .ok anns ∧
      Setup Gen.cancun (Pipeline.blocks code) anns :=
  Pipeline.pipeline_setup_exact code hb hlen hinputs

end EtkVerif.C05
