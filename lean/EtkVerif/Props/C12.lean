/-
C12 — Included files are isolated and spliced verbatim; imports are textual.

* `C12_directives`: what each directive contributes to the item stream —
  `%import("f")`: the items of f, spliced in place (so f's labels and macros share
  the importer's scope: "pasting f's text"); `%include("f")`: ONE nested scope
  holding f's items; `%include_hex("f")`: raw bytes (the decoded, trimmed content
  of f).  Paths resolve against the directory of the file containing the
  directive (`baseDir` of the source stack, extended by `resolveAndIngest`).
* `C12_scope_standalone`: a nested scope contributes exactly the bytes it
  assembles to as a stand-alone program — `Spec.assembleScope` builds its macro
  table from its own definitions only and lays its items out from offset zero;
  nothing of the including file is passed in, nothing but the bytes comes out.
* labels defined after a directive account for the full length of the inserted
  bytes: raw items take part in the prefix sums of `Props/C01.lean`
  (`positionsPass` adds `bytes.length`).
* `C12_import_is_paste` / `C12_include_is_scope`: the TEXT-level statements for the whole-language family (files
  whose statements are complete — for a file that ends inside an unterminated `%macro` pasting and importing differ,
  and the import is a parse error).
-/
import EtkVerif.Asm.IngestLemmas
import EtkVerif.Asm.HexInclude
import EtkVerif.Asm.FullTextPest
import EtkVerif.Asm.FullTextPaste
namespace EtkVerif.C12
open Asm

theorem C12_directives (fs : FS) (cwd : PathC) (fuel : Nat) (prog : Program) (n : Node) (rest : List Node)
    (tr : List Event) (ops : List RawOp) (tr' : List Event)
    (h : nodesLoop fs cwd (fuel + 1) prog (n :: rest) tr = .ok (ops, tr')) :
    ∃ first more tr1, ops = first ++ more ∧ nodesLoop fs cwd fuel prog rest tr1 = .ok (more, tr') ∧
      (match n with
       | .op o => first = [.op o] ∧ tr1 = tr
       | .import_ path => resolveAndIngest fs cwd fuel prog path tr = .ok (first, tr1)
       | .include path => ∃ inner, resolveAndIngest fs cwd fuel prog path tr = .ok (inner, tr1) ∧
           first = [.scope (RawOps.ofList inner)]
       | .includeHex _ => ∃ bytes, first = [.raw bytes]) :=
  nodesLoop_directive fs cwd fuel prog n rest tr ops tr' h

theorem C12_scope_standalone (rnd : Nat → Nat) (fuel : Nat) (ms : List (String × MacroDef)) (depth k : Nat)
    (ops : RawOps) (bytes : List Nat) (k' : Nat)
    (h : Spec.assembleScope rnd fuel k ops = .ok (bytes, k')) :
    Spec.flattenOp rnd (fuel + 1) ms depth k (.scope ops) = .ok ([.raw bytes], k') :=
  scope_is_standalone rnd fuel ms depth k ops bytes k' h

/-- raw bytes (an include's result, a hex blob) advance every later position by their full length -/
theorem C12_raw_length (bytes : List Nat) (rest : List Item) (ws : List Nat) (pos : Nat) (ls : List (String × Option Nat)) :
    positionsPass (Item.raw bytes :: rest) ws pos ls = positionsPass rest ws (pos + bytes.length) ls := by
  simp [positionsPass]

/-- `%include_hex("f")` contributes exactly the bytes written in f: when f holds the hexadecimal text of `bs` (two
digits per byte), surrounded by any white space (`str::trim`), the directive yields the raw op `bs` — no byte dropped,
added or re-ordered, leading zero bytes included -/
theorem C12_include_hex_exact (fs : FS) (cwd : PathC) (fuel : Nat) (prog : Program) (r : Root) (path : String)
    (tr : List Event) (loc : List String) (pre post bs : List Nat)
    (hroot : prog.root = some r)
    (hcheck : r.check fs (cwd.join ((baseDir prog).join (PathC.ofString path))) = .ok loc)
    (hread : fs.readText loc = some (pre ++ Listing.hexOf bs ++ post))
    (hb : ∀ b ∈ bs, b < 256) (hpre : ∀ c ∈ pre, isWsCp c = true) (hpost : ∀ c ∈ post, isWsCp c = true) :
    nodesLoop fs cwd (fuel + 2) prog [.includeHex path] tr =
      .ok ([.raw bs], tr ++ [.check (cwd.join ((baseDir prog).join (PathC.ofString path))) true] ++ [.read loc]) := by
  have hx := hexDecode_trim_hexOf pre post bs hb hpre hpost
  simp only [nodesLoop, hroot, hcheck, hread, hx]
  simp

open Asm.Layout Asm.FullText in
/-- the TEXT of a directive — `%import` / `%include` / `%include_hex`, blanks anywhere the grammar allows, a quoted path
with `\\` and `\"` escapes, any following layout — parses to the directive node carrying exactly the unescaped path -/
theorem C12_text (d : Directive) (lead g1 g2 g3 : List Nat) (path : List PChar) (term : Layout.Term)
    (hlead : Layout.IsBlanks lead) (hg1 : ExprText.IsBlanks g1) (hg2 : ExprText.IsBlanks g2) (hg3 : ExprText.IsBlanks g3)
    (hpath : ∀ c ∈ path, c.WF) (hterm : term.WF) :
    parseAsm (FullText.render [] [⟨lead, .directive d g1 g2 path g3, term⟩]) =
      .ok [(FullText.Stmt.directive d g1 g2 path g3).node] := by
  have h : FullText.WF [] [⟨lead, .directive d g1 g2 path g3, term⟩] := by
    refine ⟨(by intro b hb; cases hb), ?_, trivial⟩
    intro x hx
    simp only [List.mem_singleton] at hx
    subst hx
    exact ⟨hlead, ⟨hg1, hg2, hpath, hg3⟩, hterm⟩
  simpa using parse_full [] _ h

/-- "paths resolve relative to the file containing the directive": an `%import` / `%include` that succeeds
* used the root `r` — the program's root when it has one, otherwise the root created from the FIRST source (the
  top-level file; the path itself when the program has no source yet);
* checked, against that root, the path `cwd / dir(last source) / path` — the directory of the file being expanded, not
  of the top-level file nor the working directory — which resolved to the location `loc`;
* read `loc`: the text preprocessed IS the content of the checked location;
* preprocessed that text with `dir(last source) / path` pushed as the last source, so the file it names is the one whose
  directory resolves its own directives.
In the model `baseDir prog` is the parent of `prog.sources.getLast?` (the empty relative path when there is no source or
the last source has no parent): `baseDir prog = match prog.sources.getLast? with | some last => last.parent.getD ⟨false, []⟩
| none => ⟨false, []⟩` holds by `rfl`. -/
theorem C12_relative_paths (fs : FS) (cwd : PathC) (fuel : Nat) (prog : Program) (path : String)
    (tr : List Event) (ops : List RawOp) (tr' : List Event)
    (h : resolveAndIngest fs cwd (fuel + 1) prog path tr = .ok (ops, tr')) :
    ∃ r loc text,
      (match prog.root with
        | some r' => Except.ok r'
        | none => Root.new fs cwd (prog.sources.headD (PathC.ofString path))) = .ok r ∧
      r.check fs (cwd.join ((baseDir prog).join (PathC.ofString path))) = .ok loc ∧
      fs.readText loc = some text ∧
      preprocess fs cwd fuel { root := some r, sources := prog.sources ++ [(baseDir prog).join (PathC.ofString path)] } text
        (tr ++ [.check (cwd.join ((baseDir prog).join (PathC.ofString path))) true] ++ [.read loc]) = .ok (ops, tr') :=
  resolveAndIngest_step_read fs cwd fuel prog path tr ops tr' h

/-- the explanation of `baseDir` quoted in `C12_relative_paths` -/
example (prog : Program) : baseDir prog = (match prog.sources.getLast? with
    | some last => (last.parent).getD ⟨false, []⟩
    | none => ⟨false, []⟩) := rfl

open Asm.Layout Asm.FullText in
/-- "`%import("f")` is equivalent to pasting f's text at that point" — for TEXT of the whole-language family: a source
with statements `A`, then `%import("f")` (any layout, escaped path), then `B`, where f (resolved against the directory
of the importing file, inside the root) holds the text of the program `F` — A, B, F free of file directives — is
preprocessed to exactly the raw ops of the pasted text in ANY layout: any member `P` of the family whose statements are
those of A, F, B in this order (`hst`; blanks, comments, line ends and blank lines chosen freely — in particular F's
last statement may get the line end it lacks in the file).  Importing adds the containment check and the read of f to
the trace, the pasted text touches no file.  Equal raw ops, hence equal bytes or equal failure of the assembler.
One level: nested directives inside f are covered at the level of ops by `C12_directives`. -/
theorem C12_import_is_paste (fs : FS) (cwd : PathC) (prog : Program) (tr : List Event)
    (head headF headP : List BlankLine) (A B F P : List FullText.Item) (lead g1 g2 g3 : List Nat) (path : List PChar)
    (term : Layout.Term)
    (hW : FullText.WF head (A ++ [⟨lead, .directive .import_ g1 g2 path g3, term⟩] ++ B)) (hF : FullText.WF headF F)
    (hst : P.map (·.stmt) = (A ++ F ++ B).map (·.stmt)) (hP : FullText.WF headP P)
    (opsA opsB opsF : List AOp)
    (hA : A.mapM (fun x => x.stmt.aop?) = some opsA) (hB : B.mapM (fun x => x.stmt.aop?) = some opsB)
    (hFo : F.mapM (fun x => x.stmt.aop?) = some opsF)
    (hdepth : ¬ prog.sources.length > 255) (r : Root) (loc : List String)
    (hroot : rootOf fs cwd prog (strOf (path.map PChar.value)) = .ok r)
    (hcheck : r.check fs (cwd.join ((baseDir prog).join (PathC.ofString (strOf (path.map PChar.value))))) = .ok loc)
    (hread : fs.readText loc = some (FullText.render headF F))
    (fuel : Nat) (hf : A.length + B.length + F.length + 5 ≤ fuel) :
    ∃ ops,
      preprocess fs cwd fuel prog (FullText.render head (A ++ [⟨lead, .directive .import_ g1 g2 path g3, term⟩] ++ B)) tr =
        .ok (ops, tr ++ [.check (cwd.join ((baseDir prog).join (PathC.ofString (strOf (path.map PChar.value))))) true]
                     ++ [.read loc]) ∧
      preprocess fs cwd fuel prog (FullText.render headP P) tr = .ok (ops, tr) ∧
      ops = (opsA ++ opsF ++ opsB).map RawOp.op :=
  ⟨_, preprocess_import_paste fs cwd prog tr head headF A B F lead g1 g2 g3 path term hW hF opsA opsB opsF hA hB hFo
        hdepth r loc hroot hcheck hread fuel hf,
      preprocess_pasted_any fs cwd prog tr headP A B F P hst hP opsA opsB opsF hA hB hFo fuel (by omega), rfl⟩

open Asm.FullText Asm.FullText.PasteExample in
/-- every hypothesis of `C12_import_is_paste` is satisfiable: `/a.etk` = `stop⏎%import("b.etk")⏎pc`, `/b.etk` =
`jumpdest⏎` in a concrete file tree, pasted text `stop⏎jumpdest⏎pc` -/
example : ∃ ops,
    preprocess fs cwd 8 prog (FullText.render [] (A ++ [⟨[], .directive .import_ [] [] path [], nl⟩] ++ B)) [] =
      .ok (ops, [] ++ [.check (cwd.join ((baseDir prog).join (PathC.ofString (strOf (path.map PChar.value))))) true]
                   ++ [.read ["b.etk"]]) ∧
    preprocess fs cwd 8 prog (FullText.render [] (A ++ F ++ B)) [] = .ok (ops, []) ∧
    ops = (([AOp.op 0x00 none] : List AOp) ++ [AOp.op 0x5b none] ++ [AOp.op 0x58 none]).map RawOp.op :=
  C12_import_is_paste fs cwd prog [] [] [] [] A B F (A ++ F ++ B) [] [] [] [] path nl wf_a wf_b rfl wf_pasted
    [AOp.op 0x00 none] [AOp.op 0x58 none] [AOp.op 0x5b none] rfl rfl rfl (by decide) ⟨[]⟩ ["b.etk"] ex_root ex_check ex_read 8 (by decide)

open Asm.Layout Asm.FullText in
/-- … whereas `%include("f")` hands the statements of f over as ONE nested scope (to which `C12_scope_standalone`
applies: assembled on its own, from offset zero, with its own macro table) -/
theorem C12_include_is_scope (fs : FS) (cwd : PathC) (prog : Program) (tr : List Event)
    (head headF : List BlankLine) (A B F : List FullText.Item) (lead g1 g2 g3 : List Nat) (path : List PChar) (term : Layout.Term)
    (hW : FullText.WF head (A ++ [⟨lead, .directive .include g1 g2 path g3, term⟩] ++ B)) (hF : FullText.WF headF F)
    (opsA opsB opsF : List AOp)
    (hA : A.mapM (fun x => x.stmt.aop?) = some opsA) (hB : B.mapM (fun x => x.stmt.aop?) = some opsB)
    (hFo : F.mapM (fun x => x.stmt.aop?) = some opsF)
    (hdepth : ¬ prog.sources.length > 255) (r : Root) (loc : List String)
    (hroot : rootOf fs cwd prog (strOf (path.map PChar.value)) = .ok r)
    (hcheck : r.check fs (cwd.join ((baseDir prog).join (PathC.ofString (strOf (path.map PChar.value))))) = .ok loc)
    (hread : fs.readText loc = some (FullText.render headF F))
    (fuel : Nat) (hf : A.length + B.length + F.length + 5 ≤ fuel) :
    preprocess fs cwd fuel prog (FullText.render head (A ++ [⟨lead, .directive .include g1 g2 path g3, term⟩] ++ B)) tr =
      .ok (opsA.map RawOp.op ++ [RawOp.scope (RawOps.ofList (opsF.map RawOp.op))] ++ opsB.map RawOp.op,
           tr ++ [.check (cwd.join ((baseDir prog).join (PathC.ofString (strOf (path.map PChar.value))))) true] ++ [.read loc]) :=
  preprocess_include_scope fs cwd prog tr head headF A B F lead g1 g2 g3 path term hW hF opsA opsB opsF hA hB hFo
    hdepth r loc hroot hcheck hread fuel hf

end EtkVerif.C12
