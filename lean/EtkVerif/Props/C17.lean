/-
C17 — Opcode tables are internally consistent and match the EVM stack discipline.

The tables are `Gen.london/shanghai/cancun`, regenerated on every run from the
compiled crate.  The finite part (3 forks × 256 bytes) is decided by kernel
evaluation of a Boolean checker (`decide +kernel`) and lifted to the `Prop`
statement by `Ops.tableOK_row`; `from_slice` and `push_for` are ordinary
theorems for all slices / all `u128`.  `FromStr` is the one conversion with an
infinite domain: the strings it accepts are read from the code `build.rs`
generated for this build (`Gen.fromStr_*`, a `match` on string literals whose
wildcard arm returns the error) and `C17_from_str` shows that they are exactly the
256 mnemonics of the table, in table order — so every other string is rejected,
and `Ops.parse` (look the mnemonic up in the table) is that function.
-/
import EtkVerif.Ops.TableLondon
import EtkVerif.Ops.TableShanghai
import EtkVerif.Ops.TableCancun
namespace EtkVerif.C17
open Ops Spec

/-- The property, for one fork's table. -/
structure ForkConsistent (f : Fork) (t : OpTable) : Prop where
  /-- byte → opcode → byte is the identity for all 256 byte values -/
  byte_roundtrip : ∀ b < 256, (rowOf t b).code = b ∧ (rowOf t b).toU8 = b
  /-- opcode → mnemonic → opcode is the identity (as observed through `Display`/`FromStr`),
      both `Display` and `mnemonic()` agree, and mnemonics are pairwise distinct -/
  mnemonic_roundtrip : ∀ b < 256, (rowOf t b).parsed = b ∧ (rowOf t b).mnem2 = (rowOf t b).mnem ∧
      parse t (rowOf t b).mnem = some b
  /-- size is 1 + immediate length; immediate length is N for pushN and 0 otherwise -/
  size : ∀ b < 256, (rowOf t b).size = 1 + (rowOf t b).extra ∧ (rowOf t b).extra = immLen b
  /-- building from bytes succeeds exactly for slices of the instruction's size -/
  from_slice : ∀ b < 256, ∀ rest : List Nat,
      (∃ s c, fromSlice t (b :: rest) = .ok s c) ↔ (b :: rest).length = 1 + immLen b
  /-- pops / pushes / jump / jumpdest / halting flags equal the specification of fork `f` for every
      defined opcode; an opcode is defined only if the fork has it; every other byte is a halting
      instruction without stack effect -/
  metadata : ∀ b < 256, metaOK f (rowOf t b) = true

theorem consistent_of_tableOK {f t} (h : tableOK f t = true) : ForkConsistent f t := by
  have row : ∀ b < 256, rowOK f t b = true := fun b hb => tableOK_row h hb
  have un : ∀ b < 256,
      ((rowOf t b).code = b ∧ (rowOf t b).toU8 = b ∧ (rowOf t b).parsed = b ∧
       (rowOf t b).size = 1 + (rowOf t b).extra ∧ (rowOf t b).extra = immLen b ∧
       (rowOf t b).mnem2 = (rowOf t b).mnem ∧ parse t (rowOf t b).mnem = some b ∧
       metaOK f (rowOf t b) = true) := by
    intro b hb
    have := row b hb
    simpa [rowOK, Bool.and_eq_true, and_assoc] using this
  refine ⟨?_, ?_, ?_, ?_, ?_⟩
  · intro b hb; obtain ⟨h1, h2, -⟩ := un b hb; exact ⟨h1, h2⟩
  · intro b hb; obtain ⟨-, -, h3, -, -, h6, h7, -⟩ := un b hb; exact ⟨h3, h6, h7⟩
  · intro b hb; obtain ⟨-, -, -, h4, h5, -⟩ := un b hb; exact ⟨h4, h5⟩
  · intro b hb rest
    obtain ⟨-, -, -, -, h5, -⟩ := un b hb
    rw [fromSlice_ok_iff, h5]; simp; omega
  · intro b hb; exact (un b hb).2.2.2.2.2.2.2


/-- C17, finite part, for the three supported forks. -/
theorem C17_tables :
    ForkConsistent .london Gen.london ∧ ForkConsistent .shanghai Gen.shanghai ∧
    ForkConsistent .cancun Gen.cancun :=
  ⟨consistent_of_tableOK london_tableOK, consistent_of_tableOK shanghai_tableOK,
   consistent_of_tableOK cancun_tableOK⟩

/-- C17, `push_for`: for every `u128` the smallest push has `max 1 ⌈bits/8⌉` immediate
bytes, i.e. the least `k ≥ 1` with `n < 256^k`. -/
theorem C17_push_for (n : Nat) (hn : n < 2 ^ 128) :
    pushFor n = some (0x5f + pushForLen n) ∧ 1 ≤ pushForLen n ∧ pushForLen n ≤ 16 ∧
    n < 256 ^ pushForLen n ∧ ∀ j, 1 ≤ j → n < 256 ^ j → pushForLen n ≤ j :=
  pushFor_minimal n hn

-- non-vacuity: concrete instances
example : pushFor 0 = some 0x60 := by decide
example : pushFor 256 = some 0x61 := by decide
example : fromSlice Gen.cancun [0x61, 1, 2] = .ok 3 0x61 := by decide
example : fromSlice Gen.cancun [0x61, 1] = .tryInto := by decide
example : fromSlice Gen.cancun [0x01, 1] = .noImmediate := by decide

/-- `FromStr` accepts exactly the table's mnemonics (source-level: the arms of the generated `match`), nothing else -/
theorem C17_from_str :
    Gen.fromStr_london = Gen.london.map (·.mnem) ∧ Gen.fromStr_shanghai = Gen.shanghai.map (·.mnem) ∧
    Gen.fromStr_cancun = Gen.cancun.map (·.mnem) := by decide +kernel

/-- hence the model's `parse` accepts a string iff it is one of the generated arms -/
theorem C17_parse_iff_arm (m : List Nat) : (parse Gen.cancun m).isSome ↔ m ∈ Gen.fromStr_cancun := by
  rw [C17_from_str.2.2]
  simp only [parse, Option.isSome_map, List.find?_isSome, List.mem_map, beq_iff_eq]

/-- the opcodes a fork has (per the specification) that the fork's table does NOT define -/
def missingFromTable (f : Fork) (t : OpTable) : List Nat :=
  (List.range 256).filter (fun b => (ofFork f b).isSome && isUndefRow (rowOf t b))

/-- The converse direction of "defined only if the fork has it" — which the property does not ask for, but which matters
to the analysis properties: the London and Shanghai tables define every opcode of their fork; the Cancun table lacks
exactly BLOBHASH 0x49, BLOBBASEFEE 0x4a, TLOAD 0x5c, TSTORE 0x5d (finding D27: the analysis treats these real Cancun
opcodes as halting invalid instructions). Kernel evaluation over the regenerated tables: the day etk adds the rows,
this statement stops checking and the finding is obsolete. -/
theorem C17_fork_completeness :
    missingFromTable .london Gen.london = [] ∧ missingFromTable .shanghai Gen.shanghai = [] ∧
    missingFromTable .cancun Gen.cancun = [0x49, 0x4a, 0x5c, 0x5d] := by decide +kernel

end EtkVerif.C17
