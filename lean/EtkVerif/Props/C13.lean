/-
C13 — Programs assemble exactly when well formed; faults yield the matching error.

`WellFormed` spells out what the property lists, on the hygienically expanded
program (`Spec.flattenAll`: every instruction macro used is defined once in the
scope — `declareMacros` rejects a name defined twice, instruction and expression
macros sharing one namespace — every invocation supplies exactly as many
arguments as parameters, expansion ends):
* no label is defined twice (`firstDuplicate … = none`);
* every label and expression macro an operand mentions is defined
  (`mentioned` succeeds and nothing is `missing`);
* under the final layout every operand evaluates — every expression-macro
  invocation supplies at least as many arguments as the macro has parameters (else
  `undefinedVariable` naming the first parameter left without argument, whether or
  not the body reads it: `C13_missing_argument_rejected`; surplus arguments are
  ignored), every `$variable` read is a parameter of the macro whose body reads it,
  no division by zero — to a value that fits its push (`finish` succeeds).
`C13_iff` (T-asm): the implementation model — feeding items one at a time with
provisional label positions, the undeclared-label set, feed-time and
emission-time checks, deferral of label-dependent range errors — returns bytes
if and only if the program is well formed, and then exactly the specification's
bytes; otherwise it returns an error value and no bytes (`C13_error_no_bytes`).
`C13_error_*`: the error kinds name real faults:
* `C13_error_undeclared_labels`: `UndeclaredLabels ls` names — as a set — EXACTLY
  the labels that operands of the expanded scope mention and the scope (the
  program itself or a nested include) does not define, and `ls` is not empty;
* `C13_error_undeclared_macro`: `UndeclaredInstructionMacro n` ⇒ `n` is not an
  instruction macro of the scope it was invoked in;
* `C13_error_duplicate_macro`, `C13_error_duplicate_macro_conv`: `DuplicateMacro n`
  ⇔ (for the scope that reports it) `n` is defined twice.
Which error is reported when several faults coexist is not specified by the
property and not claimed here.
-/
import EtkVerif.Asm.Refine
import EtkVerif.Asm.Corollaries
import EtkVerif.Asm.ErrorKinds
import EtkVerif.Asm.ErrorKinds2
import EtkVerif.Asm.ErrorKinds4
import EtkVerif.Asm.ErrorKinds5
namespace EtkVerif.C13
open Asm

/-- the scope `ops` is well formed and assembles to `bytes` (final random-suffix counter `k'`) -/
def WellFormed (rnd : Nat → Nat) (fuel k : Nat) (ops : RawOps) (bytes : List Nat) (k' : Nat) : Prop :=
  ∃ f ms items,
    fuel = f + 1 ∧
    declareMacros ops.toList [] = .ok ms ∧                        -- every macro name defined once
    Spec.flattenAll rnd f ms k ops = .ok (items, k') ∧            -- macros used are defined, arities match, expansion ends
    Spec.firstDuplicate (Spec.itemLabels items) = none ∧          -- no label defined twice
    (∃ used, Spec.mentioned ms items = .ok used ∧                 -- every mentioned label / expression macro is defined
       (used.filter (fun l => !(Spec.itemLabels items).contains l)).isEmpty = true) ∧
    finish { ready := items, labels := (Spec.itemLabels items).map (fun l => (l, some 0)), macros := ms } = .ok bytes

theorem wellFormed_iff_spec (rnd : Nat → Nat) (fuel k : Nat) (ops : RawOps) (bytes : List Nat) (k' : Nat) :
    WellFormed rnd fuel k ops bytes k' ↔ Spec.assembleScope rnd fuel k ops = .ok (bytes, k') := by
  constructor
  · rintro ⟨f, ms, items, rfl, hd, hf, hdup, ⟨used, hm, hmiss⟩, hfin⟩
    simp only [Spec.assembleScope, hd, hf, Spec.assembleItems, hdup, hm]
    simp only [hmiss, Bool.not_true, Bool.false_eq_true, if_false]
    simp [hfin, Except.map]
  · intro h
    cases fuel with
    | zero => simp [Spec.assembleScope] at h
    | succ f =>
      simp only [Spec.assembleScope] at h
      cases hd : declareMacros ops.toList [] with
      | error e => simp [hd] at h
      | ok ms =>
        simp only [hd] at h
        cases hf : Spec.flattenAll rnd f ms k ops with
        | error e => simp [hf] at h
        | ok r =>
          obtain ⟨items, k2⟩ := r
          simp only [hf] at h
          cases ha : Spec.assembleItems ms items with
          | error e => simp [ha, Except.map] at h
          | ok out =>
            simp only [ha, Except.map] at h
            cases h
            simp only [Spec.assembleItems] at ha
            cases hdup : Spec.firstDuplicate (Spec.itemLabels items) with
            | some l => simp [hdup] at ha
            | none =>
              simp only [hdup] at ha
              cases hm : Spec.mentioned ms items with
              | error e => simp [hm] at ha
              | ok used =>
                simp only [hm] at ha
                by_cases hmiss : (used.filter (fun l => !(Spec.itemLabels items).contains l)).isEmpty = true
                · simp only [hmiss, Bool.not_true, Bool.false_eq_true, if_false] at ha
                  exact ⟨f, ms, items, rfl, hd, hf, hdup, ⟨used, hm, hmiss⟩, ha⟩
                · exfalso
                  have hne : (!(used.filter (fun l => !(Spec.itemLabels items).contains l)).isEmpty) = true := by
                    simpa using hmiss
                  rw [if_pos hne] at ha
                  cases ha

/-- C13: the implementation model assembles exactly the well-formed programs, to the specified bytes. -/
theorem C13_iff (rnd : Nat → Nat) (fuel k : Nat) (ops : RawOps) (bytes : List Nat) (k' : Nat) :
    assemble rnd fuel { fresh := k } ops = .ok (bytes, k') ↔ WellFormed rnd fuel k ops bytes k' := by
  rw [wellFormed_iff_spec]; exact assemble_refines rnd fuel k ops (bytes, k')

/-- otherwise: an error value, never bytes -/
theorem C13_error_no_bytes (rnd : Nat → Nat) (fuel k : Nat) (ops : RawOps)
    (h : ¬ ∃ bytes k', WellFormed rnd fuel k ops bytes k') :
    ∃ e, assemble rnd fuel { fresh := k } ops = .error e := by
  cases ha : assemble rnd fuel { fresh := k } ops with
  | error e => exact ⟨e, rfl⟩
  | ok r => exact absurd ⟨r.1, r.2, (C13_iff rnd fuel k ops r.1 r.2).1 ha⟩ h

/-- the only internal failure the model can report is running out of its own fuel -/
theorem C13_no_internal_panic (rnd : Nat → Nat) (fuel k : Nat) (ops : RawOps) (site : String)
    (h : assemble rnd fuel { fresh := k } ops = .error (.panic site)) : site = "fuel" :=
  assemble_no_panic rnd fuel k ops site h

/-- a duplicate macro name is reported as such, with the name, before anything else -/
theorem C13_error_duplicate_macro (rnd : Nat → Nat) (fuel k : Nat) (ops : RawOps) (n : String)
    (h : declareMacros ops.toList [] = .error (.duplicateMacro n)) :
    assemble rnd (fuel + 1) { fresh := k } ops = .error (.duplicateMacro n) := by
  simp [assemble, h]

/-- `UndeclaredLabels ls` names exactly the offending labels of the scope that reports it -/
theorem C13_error_undeclared_labels (rnd : Nat → Nat) (fuel k : Nat) (ops : RawOps) (ls : List String)
    (h : assemble rnd fuel { fresh := k } ops = .error (.undeclaredLabels ls)) :
    ∃ (sub : RawOps) (f k0 k1 : Nat) (ms : List (String × MacroDef)) (items : List Item) (used : List String),
      SubScope sub ops ∧
      declareMacros sub.toList [] = .ok ms ∧
      Spec.flattenAll rnd f ms k0 sub = .ok (items, k1) ∧
      Spec.mentioned ms items = .ok used ∧
      ls ≠ [] ∧ ∀ l, l ∈ ls ↔ (l ∈ used ∧ l ∉ Spec.itemLabels items) :=
  undeclaredLabels_exact rnd fuel k ops ls h

/-- `UndeclaredInstructionMacro n`: `n` is not an instruction macro of the scope it was invoked in -/
theorem C13_error_undeclared_macro (rnd : Nat → Nat) (fuel k : Nat) (ops : RawOps) (n : String)
    (h : assemble rnd fuel { fresh := k } ops = .error (.undeclaredInstructionMacro n)) :
    ∃ (sub : RawOps) (ms : List (String × MacroDef)),
      SubScope sub ops ∧ declareMacros sub.toList [] = .ok ms ∧
      ∀ ps body, lookupMacro ms n ≠ some (.instr ps body) :=
  undeclaredInstructionMacro_provenance rnd fuel k ops n h

/-- `DuplicateMacro n` is only ever reported by a scope that defines `n` twice -/
theorem C13_error_duplicate_macro_conv (rnd : Nat → Nat) (fuel k : Nat) (ops : RawOps) (n : String)
    (h : assemble rnd fuel { fresh := k } ops = .error (.duplicateMacro n)) :
    ∃ sub : RawOps, SubScope sub ops ∧ declareMacros sub.toList [] = .error (.duplicateMacro n) :=
  duplicateMacro_provenance rnd fuel k ops n h

/-- `UndeclaredExpressionMacro n`: the scope that reports it declares no EXPRESSION macro `n` (an instruction macro of
that name does not count) -/
theorem C13_error_undeclared_expression_macro (rnd : Nat → Nat) (fuel k : Nat) (ops : RawOps) (n : String)
    (h : assemble rnd fuel { fresh := k } ops = .error (.undeclaredExpressionMacro n)) :
    ∃ (sub : RawOps) (ms : List (String × MacroDef)),
      SubScope sub ops ∧ declareMacros sub.toList [] = .ok ms ∧
      ∀ ps body, lookupMacro ms n ≠ some (.expr ps body) :=
  undeclaredExpressionMacro_provenance rnd fuel k ops n h

/-- `MacroArgumentCount n`: `n` is an INSTRUCTION macro declared in the scope that reports it (expression macros never
yield this error: too few arguments are always an error, but of the kind `UndeclaredVariableMacro`, naming the first
parameter left without argument — `C13_missing_argument_rejected` —, surplus ones are ignored) -/
theorem C13_error_argument_count (rnd : Nat → Nat) (fuel k : Nat) (ops : RawOps) (n : String)
    (h : assemble rnd fuel { fresh := k } ops = .error (.macroArgumentCount n)) :
    ∃ (sub : RawOps) (ms : List (String × MacroDef)) (ps : List String) (body : List AOp),
      SubScope sub ops ∧ declareMacros sub.toList [] = .ok ms ∧ lookupMacro ms n = some (.instr ps body) :=
  macroArgumentCount_provenance_instr rnd fuel k ops n h

/-- the evaluator's fuel marker starts with a NUL character: no macro name the assembler's grammar can produce (letters,
digits and `_`) equals it — in particular not a user macro called `fuel` -/
theorem C13_fuel_mark_not_identifier : evalFuelMark.front = Char.ofNat 0 := by decide

/-- in particular the marker is not the identifier `fuel`, and not made of identifier characters -/
theorem C13_fuel_mark_ne_fuel : evalFuelMark ≠ "fuel" := by decide

theorem evalFuelMark_not_name : ¬ ∀ c ∈ evalFuelMark.toList, (c.isAlphanum || c == '_') = true := by decide

/-- `MacroRecursionLimit n`: `n` is a macro declared in the scope that reports it — or the marker of the evaluator
model's own fuel (operands nested deeper than `evalFuel` = 100000 levels; DESIGN §11).  The first disjunct is the
marker `evalFuelMark` (`"\x00fuel"`), NOT the plain string `fuel`: no macro name can equal it because it starts with a
NUL character (`C13_fuel_mark_not_identifier`), so for a program whose user macro is called `fuel` the theorem still
says that the reported name is a declared macro. -/
theorem C13_error_recursion_limit (rnd : Nat → Nat) (fuel k : Nat) (ops : RawOps) (n : String)
    (h : assemble rnd fuel { fresh := k } ops = .error (.macroRecursionLimit n)) :
    n = evalFuelMark ∨
    ∃ (sub : RawOps) (ms : List (String × MacroDef)) (d : MacroDef),
      SubScope sub ops ∧ declareMacros sub.toList [] = .ok ms ∧ lookupMacro ms n = some d :=
  macroRecursionLimit_provenance rnd fuel k ops n h

/-! ### use-site forms: the scope that lacks (has) the definition is the scope whose text contains the offending use

The provenance theorems above name SOME scope; an unrelated scope could satisfy them (audit 3).  In the following the
same scope `sub` — the program or a nested `%include` scope — both contains the use (in a statement, an invocation
argument or the body of one of its macro definitions: `AOp.callsMacro`, `AOp.invokesWith`, `AOp.mentionsVar`; for a
parameter left without argument, the definition that declares it: `AOp.declaresParam`) and lacks / has the
definition. -/

/-- `UndeclaredExpressionMacro n`: some scope calls `n(…)` and declares no expression macro `n` -/
theorem C13_error_undeclared_expression_macro_use (rnd : Nat → Nat) (fuel k : Nat) (ops : RawOps) (n : String)
    (h : assemble rnd fuel { fresh := k } ops = .error (.undeclaredExpressionMacro n)) :
    ∃ (sub : RawOps) (ms : List (String × MacroDef)) (o : AOp),
      SubScope sub ops ∧ declareMacros sub.toList [] = .ok ms ∧
      (∀ ps body, lookupMacro ms n ≠ some (.expr ps body)) ∧
      RawOp.op o ∈ sub.toList ∧ o.callsMacro n = true :=
  undeclaredExpressionMacro_use rnd fuel k ops n h

/-- `UndeclaredInstructionMacro n`: some scope invokes `%n(…)` and declares no instruction macro `n` -/
theorem C13_error_undeclared_macro_use (rnd : Nat → Nat) (fuel k : Nat) (ops : RawOps) (n : String)
    (h : assemble rnd fuel { fresh := k } ops = .error (.undeclaredInstructionMacro n)) :
    ∃ (sub : RawOps) (ms : List (String × MacroDef)) (o : AOp) (a : Nat),
      SubScope sub ops ∧ declareMacros sub.toList [] = .ok ms ∧
      (∀ ps body, lookupMacro ms n ≠ some (.instr ps body)) ∧
      RawOp.op o ∈ sub.toList ∧ o.invokesWith n a = true :=
  undeclaredInstructionMacro_use rnd fuel k ops n h

/-- `MacroArgumentCount n`: some scope declares the instruction macro `n` with `ps` parameters and invokes it with a
different number of arguments -/
theorem C13_error_argument_count_use (rnd : Nat → Nat) (fuel k : Nat) (ops : RawOps) (n : String)
    (h : assemble rnd fuel { fresh := k } ops = .error (.macroArgumentCount n)) :
    ∃ (sub : RawOps) (ms : List (String × MacroDef)) (ps : List String) (body : List AOp) (o : AOp) (a : Nat),
      SubScope sub ops ∧ declareMacros sub.toList [] = .ok ms ∧
      lookupMacro ms n = some (.instr ps body) ∧
      RawOp.op o ∈ sub.toList ∧ o.invokesWith n a = true ∧ a ≠ ps.length :=
  macroArgumentCount_use rnd fuel k ops n h

/-- `UndeclaredVariableMacro v`: `$v` occurs literally in the text of some scope (operand, invocation argument, or the
body of one of its macro definitions), or `v` is a parameter of an expression-macro definition statement of some scope
(an invocation with too few arguments names the first parameter left without argument, read or not) -/
theorem C13_error_undeclared_variable (rnd : Nat → Nat) (fuel k : Nat) (ops : RawOps) (v : String)
    (h : assemble rnd fuel { fresh := k } ops = .error (.undeclaredVariableMacro v)) :
    ∃ (sub : RawOps) (o : AOp), SubScope sub ops ∧ RawOp.op o ∈ sub.toList ∧
      (o.mentionsVar v = true ∨ o.declaresParam v = true) :=
  undeclaredVariable_provenance rnd fuel k ops v h

/-- `DivisionByZero`: the text of some scope contains a division (operand, invocation argument, or body of one of its
macro definitions) -/
theorem C13_error_division_by_zero (rnd : Nat → Nat) (fuel k : Nat) (ops : RawOps)
    (h : assemble rnd fuel { fresh := k } ops = .error .divisionByZero) :
    ∃ (sub : RawOps) (o : AOp), SubScope sub ops ∧ RawOp.op o ∈ sub.toList ∧ o.hasDivision = true :=
  divisionByZero_use rnd fuel k ops h

/-- `DuplicateLabel l`: in some scope the label `l` is written twice — two label statements `l:` at the scope's top level,
or two inside the body of one of its instruction macros — or `l` is a mangled name `macro_label_suffix` (two expansions
drew the same suffix, or a user label collides with a mangled one) -/
theorem C13_error_duplicate_label (rnd : Nat → Nat) (fuel k : Nat) (ops : RawOps) (l : String)
    (h : assemble rnd fuel { fresh := k } ops = .error (.duplicateLabel l)) :
    ∃ (sub : RawOps) (ms : List (String × MacroDef)),
      SubScope sub ops ∧ declareMacros sub.toList [] = .ok ms ∧
      (2 ≤ (sub.toList.filter (fun r => match r with | .op o => o.isLabel l | _ => false)).length ∨
       (∃ n ps body, lookupMacro ms n = some (.instr ps body) ∧ 2 ≤ (body.filter (fun o => o.isLabel l)).length) ∨
       IsMangled rnd l) :=
  duplicateLabel_use rnd fuel k ops l h

/-! ### Finding D28 (repaired): too few arguments for an expression macro are an error even when the missing parameter
is never read

The property counts an expression-macro invocation with fewer arguments than parameters as ill formed.  etk used to
bind the parameters to the arguments pairwise (`zip`) and only noticed a missing one when the body read it, so
`%def f(x, y) $x %end; push1 f(1)` assembled to `60 01` (finding D28).  The defect was repaired (`fix:` 841db2a): a
parameter left without argument is now `UndeclaredVariableMacro` naming the first such parameter, whether or not the
body reads it.  The model follows the repaired code (`evalArgs`), and the theorem below records the repaired
behaviour on the former counterexample. -/

def d28Program : RawOps := RawOps.ofList
  [.op (.exprDef "f" ["x", "y"] (.var "x")), .op (.op 0x60 (some (.macro "f" (.cons (.num 1) .nil))))]

def assemblesTo (r : Except AsmErr (List Nat × Nat)) (bs : List Nat) : Bool :=
  match r with | .ok (b, _) => b == bs | .error _ => false

/-- the result is exactly the error `e` -/
def failsWith (r : Except AsmErr (List Nat × Nat)) (e : AsmErr) : Bool :=
  match r with | .ok _ => false | .error e' => decide (e' = e)

theorem failsWith_iff (r : Except AsmErr (List Nat × Nat)) (e : AsmErr) : failsWith r e = true ↔ r = .error e := by
  cases r with
  | ok x => simp [failsWith]
  | error e' => simp [failsWith]

/-- the model, following the repaired assembler, rejects the ill-formed program (that of
corpus/C13/d28-missing-unused-argument.json),
naming the parameter `y` that `f(1)` leaves without argument — although the body `$x` never reads it -/
theorem C13_missing_argument_rejected :
    assemble (fun k => k) 50 { fresh := 0 } d28Program = .error (.undeclaredVariableMacro "y") :=
  (failsWith_iff _ _).1 (by decide +kernel)

end EtkVerif.C13
