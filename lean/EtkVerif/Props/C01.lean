/-
C01 — Label values equal the real byte offsets of the labelled instructions.

For every macro-free, scope-free item list `items` (what a scope flattens to:
`Spec.flattenAll`, T-asm ties it to the implementation model in `Props/C13.lean`)
that assembles to `out`: with `(ls, ws)` the label table and push widths of the
final layout,
* every label's value — what any operand mentioning it evaluates to, `lookupLabel
  ls l` — is the number of bytes emitted for the items before the label, i.e. the
  offset in `out` of the first instruction after its definition (`C01_offsets`);
  this holds for ANY number and order of labels, fixed and variable-sized pushes,
  whatever widths they finally receive (the statement quantifies over all items);
* if that instruction is a `jumpdest`, `out[value] = 0x5b` (`C01_jumpdest`).
Nested scopes are assembled by `Spec.assembleScope` on their own items, so the
statement applies to each scope with offsets counted from its own start.
-/
import EtkVerif.Asm.Corollaries
import EtkVerif.Asm.ProgTextAsm
namespace EtkVerif.C01
open Asm

theorem C01_layout_exists (ms : List (String × MacroDef)) (items : List Item) (out : List Nat)
    (h : Spec.assembleItems ms items = .ok out) : Nonempty (Assembled ms items out) :=
  assembleItems_ok ms items out h

theorem C01_offsets (ms : List (String × MacroDef)) (items : List Item) (out : List Nat)
    (a : Assembled ms items out)
    (himm : ∀ code imm, Item.op code imm ∈ items → (imm.isSome ↔ (0x60 ≤ code ∧ code ≤ 0x7f)))
    (pre post : List Item) (l : String) (hsplit : items = pre ++ Item.label l :: post) :
    ∃ outPre, emit { labels := a.ls, macros := ms, vars := none, depth := 0 } pre a.ws = .ok outPre ∧
      out.take outPre.length = outPre ∧ outPre.length ≤ out.length ∧
      lookupLabel a.ls l = some (some outPre.length) ∧
      eval evalFuel { labels := a.ls, macros := ms, vars := none, depth := 0 } (.label l) = .ok (Int.ofNat outPre.length) :=
  label_value_is_offset ms items out a himm pre post l hsplit

theorem C01_jumpdest (ms : List (String × MacroDef)) (items : List Item) (out : List Nat)
    (a : Assembled ms items out)
    (himm : ∀ code imm, Item.op code imm ∈ items → (imm.isSome ↔ (0x60 ≤ code ∧ code ≤ 0x7f)))
    (pre post : List Item) (l : String) (hsplit : items = pre ++ Item.label l :: Item.op 0x5b none :: post) :
    ∃ p, lookupLabel a.ls l = some (some p) ∧ out[p]? = some 0x5b :=
  label_lands_on_jumpdest ms items out a himm pre post l hsplit

open Asm.ProgText in
/-- at the level of source TEXT (macro-free programs, any layout, `Asm/ProgText.lean`): if the text assembles to
`bytes`, then there is a final layout for the statements' items — the witness to which `C01_offsets` and
`C01_jumpdest` apply: every label's value is the number of bytes emitted before it -/
theorem C01_text (rnd : Nat → Nat) (k : Nat) (items : List ProgText.Item) (fuel : Nat) (hf : items.length + 3 ≤ fuel)
    (bytes : List Nat) (k' : Nat)
    (h : assemble rnd fuel { fresh := k } (RawOps.ofList (items.map (fun x => RawOp.op x.stmt.aop))) = .ok (bytes, k')) :
    Nonempty (Assembled [] (items.map (fun x => x.stmt.item)) bytes) :=
  C01_layout_exists [] _ bytes ((assemble_prog rnd fuel k items hf bytes k').1 h).1

/-- … and the side condition `himm` of `C01_offsets` / `C01_jumpdest` (an operand exactly on the pushN opcodes) holds for
the items of every well-formed program text -/
theorem C01_text_himm (head : List Asm.Layout.BlankLine) (items : List Asm.ProgText.Item) (h : Asm.ProgText.WF head items) :
    ∀ code imm, Asm.Item.op code imm ∈ items.map (fun x => x.stmt.item) → (imm.isSome ↔ (0x60 ≤ code ∧ code ≤ 0x7f)) :=
  Asm.ProgText.himm_prog head items h

end EtkVerif.C01
