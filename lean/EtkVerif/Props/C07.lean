/-
C07 — Auto-sized pushes hold their exact value; constants get the minimal width.

* `C07_exact`: in a successful emission a `%push(e)` item is a single push
  instruction, opcode `0x5f + w`, whose `w` immediate bytes are the big-endian
  value of `e` under the final layout, `0 ≤ v < 256^w` (so a negative value or one
  needing more than 32 bytes cannot be emitted: `C07_reject`).
* `C07_minimal`: when `e` mentions no label, `w` is the minimal byte length of the
  value (one byte for zero) — wherever the push stands in the program.
* `C07_spellings`: two label-free operands with equal values get identical bytes.
-/
import EtkVerif.Asm.Corollaries
namespace EtkVerif.C07
open Asm

theorem C07_exact (c : Ctx) (pre post : List Item) (e : Expr) (ws : List Nat) (out : List Nat)
    (h : emit c (pre ++ Item.push e :: post) ws = .ok out) :
    ∃ (outPre outPost : List Nat) (v : Int),
      emit c pre ws = .ok outPre ∧ eval evalFuel c e = .ok v ∧ 0 ≤ v ∧
      v.toNat < 256 ^ (ws.drop (pushCount pre)).headD 1 ∧
      out = outPre ++ ((0x5f + (ws.drop (pushCount pre)).headD 1) ::
              (List.replicate ((ws.drop (pushCount pre)).headD 1 - (bytesBE v.toNat).length) 0 ++ bytesBE v.toNat)) ++ outPost :=
  emit_push_exact c pre post e ws out h

theorem C07_minimal (ms : List (String × MacroDef)) (items : List Item) (out : List Nat)
    (a : Assembled ms items out) (pre post : List Item) (e : Expr) (hsplit : items = pre ++ Item.push e :: post)
    (hclosed : labelsOf ms evalFuel 0 e = .ok []) :
    ∃ v : Int, eval evalFuel { labels := a.ls, macros := ms, vars := none, depth := 0 } e = .ok v ∧ 0 ≤ v ∧
      (a.ws.drop (pushCount pre)).headD 1 = (bytesBE v.toNat).length :=
  closed_push_width ms items out a pre post e hsplit hclosed

/-- a value below zero or needing more than 32 bytes is refused by `concretizeOp` at every width the layout can allot -/
theorem C07_reject (c : Ctx) (e : Expr) (w : Nat) (hw : 1 ≤ w ∧ w ≤ 32) (v : Int) (hv : eval evalFuel c e = .ok v)
    (hbad : v < 0 ∨ 32 < (bytesBE v.toNat).length) :
    ∀ bs, encodeItem c w (.push e) ≠ .ok bs := by
  intro bs
  simp only [encodeItem, concretizeOp, hv]
  rcases hbad with hneg | hbig
  · simp [hneg]
  · have hn : immLen (0x5f + w) = w := by unfold immLen; split <;> omega
    by_cases hneg : v < 0
    · simp [hneg]
    · simp only [hneg, if_false, hn]
      have : (bytesBE v.toNat).length > w := by omega
      simp [this]

/-- identical spellings: the bytes a label-free `%push(e)` contributes are determined by the VALUE of `e` alone — the
opcode `0x5f + byte length`, then the minimal big-endian bytes — so a literal, an arithmetic expression and an
expression-macro call with the same value give identical bytes; they stand right after the emission `outPre` of the
items before the push -/
theorem C07_spellings (ms : List (String × MacroDef)) (items : List Item) (out : List Nat)
    (a : Assembled ms items out) (pre post : List Item) (e : Expr) (hsplit : items = pre ++ Item.push e :: post)
    (hclosed : labelsOf ms evalFuel 0 e = .ok []) :
    ∃ (outPre outPost : List Nat) (v : Int),
      emit { labels := a.ls, macros := ms, vars := none, depth := 0 } pre a.ws = .ok outPre ∧
      eval evalFuel { labels := a.ls, macros := ms, vars := none, depth := 0 } e = .ok v ∧ 0 ≤ v ∧
      out = outPre ++ ((0x5f + (bytesBE v.toNat).length) :: bytesBE v.toNat) ++ outPost := by
  subst hsplit
  obtain ⟨v, hv, hv0, hw⟩ := C07_minimal ms _ out a pre post e rfl hclosed
  obtain ⟨outPre, outPost, v', hpre, hv', _, _, hout⟩ := C07_exact _ pre post e a.ws out a.emitted
  have : v' = v := by rw [hv] at hv'; injection hv' with h; exact h.symm
  subst this
  refine ⟨outPre, outPost, v', hpre, hv, hv0, ?_⟩
  rw [hout, hw]
  simp

end EtkVerif.C07
