/-
C10 — Instruction macros behave as hygienic textual expansion.

`C10_expansion`: flattening a scope in which an invocation `%name(args)` follows
only plain items yields the same item list as flattening the scope with the
invocation replaced by its instantiated body (`instantiate`: the arity must
match; every label the body defines is renamed to a name drawn for this
expansion; every parameter is replaced — simultaneously, wherever it occurs:
compound operands, `%push` operands, arguments of nested invocations and of
expression macro calls — by the argument expression, which is not itself
re-examined, so it keeps its call-site meaning), with the random-suffix counter
advanced past the suffixes drawn.  Same items ⇒ same bytes or same failure of the
later phases.  Iterating removes every invocation (`flattenAll` is that iteration).
Definitions may follow uses because the macro table is filled before flattening
(`Spec.assembleScope` calls `declareMacros` first).
`C10_substitution_*`: what instantiation does to expressions.
`C10_text`: the parser side, for the WHOLE surface language (`Asm/FullText.lean`):
every structured program text — instruction-macro definitions `%macro name(params)
… %end` with bodies of instructions, pushes, `%push`, labels and nested invocations,
invocations `%name(args)`, expression-macro definitions and calls, `$variables`,
`selector`/`topic`, directives with escaped paths, any legal layout — goes through
the full pest interpreter over the regenerated grammar and the walk of `parse_asm`
to exactly one node per statement: the definition node carries the declared name,
the parameter list and the body's abstract ops; the invocation node the name and
the argument expressions.
-/
import EtkVerif.Asm.Corollaries
import EtkVerif.Asm.FullTextPest
namespace EtkVerif.C10
open Asm

theorem C10_expansion (rnd : Nat → Nat) (fuel : Nat) (ms : List (String × MacroDef)) (k : Nat)
    (pre : List AOp) (name : String) (args : List Expr) (post : RawOps)
    (params : List String) (body body' : List AOp) (k' : Nat)
    (hplain : ∀ o ∈ pre, match o with | .macro _ _ => False | _ => True)
    (hm : lookupMacro ms name = some (.instr params body))
    (hinst : instantiate rnd name params body args k = .ok (body', k'))
    (r : List Item × Nat)
    (h : Spec.flattenAll rnd (fuel + pre.length + 3) ms k
          (RawOps.ofList (pre.map RawOp.op ++ RawOp.op (.macro name args) :: post.toList)) = .ok r) :
    ∃ fuel', Spec.flattenAll rnd fuel' ms k'
          (RawOps.ofList (pre.map RawOp.op ++ body'.map RawOp.op ++ post.toList)) = .ok r :=
  flatten_invocation rnd fuel ms k pre name args post params body body' k' hplain hm hinst r h

/-- parameters are replaced wherever they occur, by the argument itself -/
theorem C10_substitution_var (bs : List (String × Expr)) (v : String) (e : Expr) (h : lookupBinding bs v = some e) :
    fillVars bs (.var v) = e := by
  simp [fillVars, h]

theorem C10_substitution_compound (bs : List (String × Expr)) (a b : Expr) :
    fillVars bs (.plus a b) = .plus (fillVars bs a) (fillVars bs b) ∧
    fillVars bs (.minus a b) = .minus (fillVars bs a) (fillVars bs b) ∧
    fillVars bs (.times a b) = .times (fillVars bs a) (fillVars bs b) ∧
    fillVars bs (.divide a b) = .divide (fillVars bs a) (fillVars bs b) ∧
    fillVars bs (.paren a) = .paren (fillVars bs a) := by
  simp [fillVars]

/-- … also inside the arguments of expression macro calls -/
theorem C10_substitution_call (bs : List (String × Expr)) (n : String) (a : Expr) (as : Exprs) :
    fillVars bs (.macro n (.cons a as)) = .macro n (.cons (fillVars bs a) (fillVarsArgs bs as)) := by
  simp [fillVars, fillVarsArgs]

/-- … and inside the arguments of nested instruction macro invocations and `%push` operands -/
theorem C10_substitution_nested (renames : List (String × String)) (bs : List (String × Expr)) (n : String) (as : List Expr) (e : Expr) :
    substBody renames bs [.macro n as, .push e] =
      [.macro n (as.map (fun x => fillVars bs (renames.foldl (fun e (o, n) => replaceLabel o n e) x))),
       .push (fillVars bs (renames.foldl (fun e (o, n) => replaceLabel o n e) e))] := by
  simp [substBody]

/-- labels keep their names unless renamed: uses of a local label follow its definition -/
theorem C10_rename_label (old new l : String) :
    replaceLabel old new (.label l) = if l = old then .label new else .label l := by
  simp [replaceLabel]

open Asm.Layout Asm.FullText in
/-- text → nodes for the whole surface language (macros, calls, directives included), any layout -/
theorem C10_text (head : List BlankLine) (items : List FullText.Item) (h : FullText.WF head items) :
    parseAsm (FullText.render head items) = .ok (items.map (fun x => x.stmt.node)) :=
  parse_full head items h

end EtkVerif.C10
