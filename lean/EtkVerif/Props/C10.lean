/-
C10 — Instruction macros behave as hygienic textual expansion.

`C10_expansion`: flattening a scope in which an invocation `%name(args)` follows
only plain items yields the same item list as flattening the scope with the
invocation replaced by its instantiated body (`instantiate`: the arity must
match; every label the body defines is renamed to a name drawn for this
expansion; every parameter is replaced — simultaneously, wherever it occurs:
compound operands, `%push` operands, arguments of nested invocations and of
expression macro calls — by the argument expression, which is not itself
re-examined, so it keeps its call-site meaning), with the random-suffix counter
advanced past the suffixes drawn.  Same items ⇒ same bytes or same failure of the
later phases.  Iterating removes every invocation (`flattenAll` is that iteration).
Definitions may follow uses because the macro table is filled before flattening
(`Spec.assembleScope` calls `declareMacros` first).
`C10_substitution_*`: what instantiation does to expressions.
`C10_text`: the parser side, for the WHOLE surface language (`Asm/FullText.lean`):
every structured program text — instruction-macro definitions `%macro name(params)
… %end` with bodies of instructions, pushes, `%push`, labels and nested invocations,
invocations `%name(args)`, expression-macro definitions and calls, `$variables`,
`selector`/`topic`, directives with escaped paths, any legal layout — goes through
the full pest interpreter over the regenerated grammar and the walk of `parse_asm`
to exactly one node per statement: the definition node carries the declared name,
the parameter list and the body's abstract ops; the invocation node the name and
the argument expressions.
-/
import EtkVerif.Asm.Corollaries
import EtkVerif.Asm.FlattenErrors
import EtkVerif.Asm.AssembleInvocation
import EtkVerif.Asm.FullTextPest
import EtkVerif.Asm.FullTextAsm
namespace EtkVerif.C10
open Asm

theorem C10_expansion (rnd : Nat → Nat) (fuel : Nat) (ms : List (String × MacroDef)) (k : Nat)
    (pre : List AOp) (name : String) (args : List Expr) (post : RawOps)
    (params : List String) (body body' : List AOp) (k' : Nat)
    (hplain : ∀ o ∈ pre, match o with | .macro _ _ => False | _ => True)
    (hm : lookupMacro ms name = some (.instr params body))
    (hinst : instantiate rnd name params body args k = .ok (body', k'))
    (r : List Item × Nat)
    (h : Spec.flattenAll rnd (fuel + pre.length + 3) ms k
          (RawOps.ofList (pre.map RawOp.op ++ RawOp.op (.macro name args) :: post.toList)) = .ok r) :
    ∃ fuel', Spec.flattenAll rnd fuel' ms k'
          (RawOps.ofList (pre.map RawOp.op ++ body'.map RawOp.op ++ post.toList)) = .ok r :=
  flatten_invocation rnd fuel ms k pre name args post params body body' k' hplain hm hinst r h

/-- "… or fails in the same way" for the SPECIFICATION's flatten phase (for the assembler model see `C10_assemble_*`
below), part 1: an invocation that cannot be expanded at all fails with the matching error,
whatever follows it — unknown instruction macro, wrong number of arguments, or the failure of the instantiation itself
(a label defined twice in the body) -/
theorem C10_rejects (rnd : Nat → Nat) (fuel : Nat) (ms : List (String × MacroDef)) (k : Nat)
    (pre : List AOp) (name : String) (args : List Expr) (post : RawOps)
    (hplain : ∀ o ∈ pre, match o with | .macro _ _ => False | _ => True) :
    ((∀ params body, lookupMacro ms name ≠ some (.instr params body)) →
      Spec.flattenAll rnd (fuel + pre.length + 3) ms k
        (RawOps.ofList (pre.map RawOp.op ++ RawOp.op (.macro name args) :: post.toList)) =
        .error (.undeclaredInstructionMacro name)) ∧
    (∀ params body, lookupMacro ms name = some (.instr params body) → params.length ≠ args.length →
      Spec.flattenAll rnd (fuel + pre.length + 3) ms k
        (RawOps.ofList (pre.map RawOp.op ++ RawOp.op (.macro name args) :: post.toList)) =
        .error (.macroArgumentCount name)) ∧
    (∀ params body e, lookupMacro ms name = some (.instr params body) → params.length = args.length →
      instantiate rnd name params body args k = .error e →
      Spec.flattenAll rnd (fuel + pre.length + 3) ms k
        (RawOps.ofList (pre.map RawOp.op ++ RawOp.op (.macro name args) :: post.toList)) = .error e) :=
  flatten_invocation_rejects rnd fuel ms k pre name args post hplain

/-- part 2: when the program with the invocation fails — with anything but the macro recursion limit (the expanded
program sits one nesting level lower and may get further) or the model's fuel marker — the program with the invocation
replaced by its instantiated body fails with the SAME error -/
theorem C10_expansion_error (rnd : Nat → Nat) (fuel : Nat) (ms : List (String × MacroDef)) (k : Nat)
    (pre : List AOp) (name : String) (args : List Expr) (post : RawOps)
    (params : List String) (body body' : List AOp) (k' : Nat)
    (hplain : ∀ o ∈ pre, match o with | .macro _ _ => False | _ => True)
    (hm : lookupMacro ms name = some (.instr params body))
    (hinst : instantiate rnd name params body args k = .ok (body', k'))
    (e : AsmErr) (hrec : ∀ n, e ≠ .macroRecursionLimit n) (hfuel : e ≠ .panic "fuel")
    (h : Spec.flattenAll rnd fuel ms k
          (RawOps.ofList (pre.map RawOp.op ++ RawOp.op (.macro name args) :: post.toList)) = .error e) :
    ∃ fuel', Spec.flattenAll rnd fuel' ms k'
          (RawOps.ofList (pre.map RawOp.op ++ body'.map RawOp.op ++ post.toList)) = .error e :=
  flatten_invocation_error rnd fuel ms k pre name args post params body body' k' hplain hm hinst e hrec hfuel h

/-- part 3, the converse of both directions: whatever the EXPANDED program yields — items or an error — the program
with the invocation yields the same, unless it stops at the recursion limit (255 nested expansions) -/
theorem C10_expansion_conv (rnd : Nat → Nat) (fuel : Nat) (ms : List (String × MacroDef)) (k : Nat)
    (pre : List AOp) (name : String) (args : List Expr) (post : RawOps)
    (params : List String) (body body' : List AOp) (k' : Nat)
    (hplain : ∀ o ∈ pre, match o with | .macro _ _ => False | _ => True)
    (hm : lookupMacro ms name = some (.instr params body)) (harity : params.length = args.length)
    (hinst : instantiate rnd name params body args k = .ok (body', k'))
    (res : Except AsmErr (List Item × Nat)) (hfuel : res ≠ .error (.panic "fuel"))
    (h : Spec.flattenAll rnd fuel ms k'
          (RawOps.ofList (pre.map RawOp.op ++ body'.map RawOp.op ++ post.toList)) = res) :
    ∃ fuel', Spec.flattenAll rnd fuel' ms k
          (RawOps.ofList (pre.map RawOp.op ++ RawOp.op (.macro name args) :: post.toList)) = res ∨
      ∃ n, Spec.flattenAll rnd fuel' ms k
          (RawOps.ofList (pre.map RawOp.op ++ RawOp.op (.macro name args) :: post.toList)) = .error (.macroRecursionLimit n) :=
  flatten_invocation_conv rnd fuel ms k pre name args post params body body' k' hplain hm harity hinst res hfuel h

/-! ### the same for the IMPLEMENTATION model `assemble` (= `Assembler::assemble`), successes and failures

The three theorems above are about the specification's flatten phase.  Errors of the specification and of the assembler
are not related by the refinement theorem (the specification reports faults phase by phase, the assembler in feed order:
`a: a: %q()` is `DuplicateLabel a` for the assembler, `UndeclaredInstructionMacro q` for the specification), so "or fails
in the same way" is proved here for `assemble` directly (`Asm/AssembleInvocation.lean`; audit 3). -/

/-- the program `pre; %name(args); post` (pre: plain statements) yields exactly what `pre; body'; post` yields — the same
bytes and final suffix counter, or the same error — unless the result is the macro recursion limit (the expanded program
sits one nesting level lower) or the model's fuel marker -/
theorem C10_assemble_expansion (rnd : Nat → Nat) (fuel k : Nat) (pre : List AOp) (name : String) (args : List Expr)
    (post : RawOps) (params : List String) (body body' : List AOp) (k' : Nat) (ms : List (String × MacroDef))
    (hplain : ∀ o ∈ pre, match o with | .macro _ _ => False | _ => True)
    (hms : declareMacros (invProg pre name args post).toList [] = .ok ms)
    (hm : lookupMacro ms name = some (.instr params body))
    (hnodef : ∀ o ∈ body, o.isDef = false)
    (hinst : instantiate rnd name params body args k = .ok (body', k'))
    (res : Except AsmErr (List Nat × Nat))
    (hres : assemble rnd fuel { fresh := k } (invProg pre name args post) = res)
    (hrec : ∀ n, res ≠ .error (.macroRecursionLimit n)) (hfuel : res ≠ .error (.panic "fuel")) :
    ∃ fuel', assemble rnd fuel' { fresh := k' } (expProg pre body' post) = res :=
  assemble_invocation rnd fuel k pre name args post params body body' k' ms hplain hms hm hnodef hinst res hres hrec hfuel

/-- conversely: whatever the expanded program yields, the program with the invocation yields, or it stops at the
recursion limit -/
theorem C10_assemble_expansion_conv (rnd : Nat → Nat) (fuel k : Nat) (pre : List AOp) (name : String) (args : List Expr)
    (post : RawOps) (params : List String) (body body' : List AOp) (k' : Nat) (ms : List (String × MacroDef))
    (hplain : ∀ o ∈ pre, match o with | .macro _ _ => False | _ => True)
    (hms : declareMacros (invProg pre name args post).toList [] = .ok ms)
    (hm : lookupMacro ms name = some (.instr params body))
    (hnodef : ∀ o ∈ body, o.isDef = false)
    (hinst : instantiate rnd name params body args k = .ok (body', k'))
    (res : Except AsmErr (List Nat × Nat))
    (hres : assemble rnd fuel { fresh := k' } (expProg pre body' post) = res)
    (hfuel : res ≠ .error (.panic "fuel")) :
    ∃ fuel', assemble rnd fuel' { fresh := k } (invProg pre name args post) = res ∨
      ∃ n, assemble rnd fuel' { fresh := k } (invProg pre name args post) = .error (.macroRecursionLimit n) :=
  assemble_invocation_conv rnd fuel k pre name args post params body body' k' ms hplain hms hm hnodef hinst res hres hfuel

/-- an invocation that cannot be expanded fails with the matching error — provided the statements before it are fed
without error (the assembler reports faults in feed order) -/
theorem C10_assemble_rejects (rnd : Nat → Nat) (f k : Nat) (pre : List AOp) (name : String) (args : List Expr)
    (post : RawOps) (ms : List (String × MacroDef)) (s1 : St)
    (hplain : ∀ o ∈ pre, match o with | .macro _ _ => False | _ => True)
    (hms : declareMacros (invProg pre name args post).toList [] = .ok ms)
    (hpre : feedAll rnd f { macros := ms, fresh := k } (RawOps.ofList (pre.map RawOp.op)) = .ok s1) :
    ∃ f0, ∀ fuel, f0 ≤ fuel →
      ((∀ params body, lookupMacro ms name ≠ some (.instr params body)) →
        assemble rnd fuel { fresh := k } (invProg pre name args post) = .error (.undeclaredInstructionMacro name)) ∧
      (∀ params body, lookupMacro ms name = some (.instr params body) → params.length ≠ args.length →
        assemble rnd fuel { fresh := k } (invProg pre name args post) = .error (.macroArgumentCount name)) ∧
      (∀ params body e, lookupMacro ms name = some (.instr params body) → params.length = args.length →
        instantiate rnd name params body args k = .error e →
        assemble rnd fuel { fresh := k } (invProg pre name args post) = .error e) :=
  assemble_invocation_rejects rnd f k pre name args post ms s1 hplain hms hpre

/-- non-vacuity: `%macro m(x) a: push1 $x push2 a %end; jumpdest; %m(7); pc` — every hypothesis discharged, both programs
assemble to `5b 60 07 61 00 01 58` -/
example := @InvocationExample.expanded_same

/-- parameters are replaced wherever they occur, by the argument itself -/
theorem C10_substitution_var (bs : List (String × Expr)) (v : String) (e : Expr) (h : lookupBinding bs v = some e) :
    fillVars bs (.var v) = e := by
  simp [fillVars, h]

theorem C10_substitution_compound (bs : List (String × Expr)) (a b : Expr) :
    fillVars bs (.plus a b) = .plus (fillVars bs a) (fillVars bs b) ∧
    fillVars bs (.minus a b) = .minus (fillVars bs a) (fillVars bs b) ∧
    fillVars bs (.times a b) = .times (fillVars bs a) (fillVars bs b) ∧
    fillVars bs (.divide a b) = .divide (fillVars bs a) (fillVars bs b) ∧
    fillVars bs (.paren a) = .paren (fillVars bs a) := by
  simp [fillVars]

/-- … also inside the arguments of expression macro calls -/
theorem C10_substitution_call (bs : List (String × Expr)) (n : String) (a : Expr) (as : Exprs) :
    fillVars bs (.macro n (.cons a as)) = .macro n (.cons (fillVars bs a) (fillVarsArgs bs as)) := by
  simp [fillVars, fillVarsArgs]

/-- … and inside the arguments of nested instruction macro invocations and `%push` operands -/
theorem C10_substitution_nested (renames : List (String × String)) (bs : List (String × Expr)) (n : String) (as : List Expr) (e : Expr) :
    substBody renames bs [.macro n as, .push e] =
      [.macro n (as.map (fun x => fillVars bs (renames.foldl (fun e (o, n) => replaceLabel o n e) x))),
       .push (fillVars bs (renames.foldl (fun e (o, n) => replaceLabel o n e) e))] := by
  simp [substBody]

/-- labels keep their names unless renamed: uses of a local label follow its definition -/
theorem C10_rename_label (old new l : String) :
    replaceLabel old new (.label l) = if l = old then .label new else .label l := by
  simp [replaceLabel]

open Asm.Layout Asm.FullText in
/-- text → nodes for the whole surface language (macros, calls, directives included), any layout -/
theorem C10_text (head : List BlankLine) (items : List FullText.Item) (h : FullText.WF head items) :
    parseAsm (FullText.render head items) = .ok (items.map (fun x => x.stmt.node)) :=
  parse_full head items h

open Asm.Layout Asm.FullText in
/-- … and for programs without file directives `Ingest::preprocess` reads no file and hands the assembler exactly the
ops of those nodes, definitions and invocations included: `assemble` on the TEXT is `assemble` on these ops, to which
`C10_expansion`, `C13_iff` and the evaluation theorems apply -/
theorem C10_text_preprocess (fs : FS) (cwd : PathC) (prog : Program) (tr : List Event)
    (head : List BlankLine) (items : List FullText.Item) (h : FullText.WF head items) (ops : List AOp)
    (hops : items.mapM (fun x => x.stmt.aop?) = some ops) (fuel : Nat) (hf : items.length + 2 ≤ fuel) :
    preprocess fs cwd fuel prog (FullText.render head items) tr = .ok (ops.map RawOp.op, tr) :=
  preprocess_full fs cwd prog tr head items h ops hops fuel hf

open Asm.Layout Asm.ExprText Asm.FullText in
-- non-vacuity of `C10_text`: a program with a macro definition (local label, nested invocation with a `$variable` and a
-- call as arguments), an expression-macro definition and a directive with an escaped quote is well formed
-- `%macro m(x)` / ` a:` / ` %inner($x, f(1))` / `%end` ; `%def f(p)` / `$p+1` / `%end` ; `%include("a\"b")`
example : FullText.WF []
    [⟨[], .macroDef [32] ⟨[109], [], [([], [120], [])]⟩ [] none false []
        [⟨[32], .label [97] [], [], none, false, []⟩,
         ⟨[32], .invoke [105, 110, 110, 101, 114] [] (.some [] (.mk (.var [120]) .nil) []
            (.cons [32] (.mk (.call [102] [] (.some [] (.mk (.num .dec [49]) .nil) [] .nil)) .nil) [] .nil)), [], none, false, []⟩] [],
      .line [] none false []⟩,
     ⟨[], .exprDef [32] ⟨[102], [], [([], [112], [])]⟩ [] false [] (.mk (.var [112]) (.cons [] .plus [] (.num .dec [49]) .nil)) [] false [],
      .line [] none false []⟩,
     ⟨[], .directive .include [] [] [.plain 97, .quote, .plain 98] [], .open_ [] none⟩] := by
  refine ⟨(by intro b hb; cases hb), ?_, ?_⟩
  · intro x hx
    simp only [List.mem_cons, List.mem_nil_iff, or_false] at hx
    rcases hx with rfl | rfl | rfl <;>
      simp [FullText.Stmt.WF, Layout.IsBlanks, ExprText.IsBlanks, Layout.Term.WF, Decl.WF, IsFnName, IsParam, BLine.WF, BStmt.WF,
        ExprText.IsLabel, XArgs.WF, XMore.WF, XSeq.WF, XRest.WF, XTerm.WF, PChar.WF, reservedName, isAlpha, isAlnum, toDigit,
        Radix.minDigits, Radix.base, IsCommentBody] <;> decide
  · simp [FullText.OpenOnlyLast, Layout.Term.isOpen]

open Asm.Layout Asm.ExprText Asm.FullText in
-- the family accepts invocation names that merely START with a builtin word or with `end` (only the exact words `push`,
-- `import`, `include`, `include_hex` and the prefixes `macro` / `def` are reserved, `reservedName`):
-- `%macro m()` / `%endx()` / `%end` ; `%push_all(1)` ; `%include_hexx()`
example : FullText.WF []
    [⟨[], .macroDef [32] ⟨[109], [], []⟩ [] none false []
        [⟨[], .invoke [101, 110, 100, 120] [] (.none []), [], none, false, []⟩] [],
      .line [] none false []⟩,
     ⟨[], .plain (.invoke [112, 117, 115, 104, 95, 97, 108, 108] [] (.some [] (.mk (.num .dec [49]) .nil) [] .nil)),
      .line [] none false []⟩,
     ⟨[], .plain (.invoke [105, 110, 99, 108, 117, 100, 101, 95, 104, 101, 120, 120] [32] (.none [])), .open_ [] none⟩] := by
  refine ⟨(by intro b hb; cases hb), ?_, ?_⟩
  · intro x hx
    simp only [List.mem_cons, List.mem_nil_iff, or_false] at hx
    rcases hx with rfl | rfl | rfl <;>
      simp [FullText.Stmt.WF, Layout.IsBlanks, ExprText.IsBlanks, Layout.Term.WF, Decl.WF, IsFnName, BLine.WF, BStmt.WF,
        XArgs.WF, XMore.WF, XSeq.WF, XRest.WF, XTerm.WF, reservedName, isAlpha, isAlnum, toDigit,
        Radix.minDigits, Radix.base, IsCommentBody] <;> decide
  · simp [FullText.OpenOnlyLast, Layout.Term.isOpen]

end EtkVerif.C10
