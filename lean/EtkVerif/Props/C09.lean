/-
C09 — Out-of-range operands are rejected, never truncated.

In any successful emission (`emit … = .ok out`, whatever the final label values
are): every `pushN e` has `0 ≤ v < 256^N` and every `%push(e)` has
`0 ≤ v < 256^w ≤ 2^256` for the value `v` of `e` under the final layout, and the
bytes written are exactly the big-endian digits of `v` (`C09_pushN`, `C09_push`).
Contrapositive: an operand out of range makes emission fail — by construction the
result type `Except AsmErr (List Nat)` carries no bytes in the error case, and
`ingestFile` writes to the output only from a successful result (`C09_no_output`).
The check is made under the FINAL label values: operands whose value depends on
labels are not range-checked when read (`pushInstr` defers them), see T-asm.
-/
import EtkVerif.Asm.Corollaries
import EtkVerif.Asm.Ingest
namespace EtkVerif.C09
open Asm

theorem C09_pushN (c : Ctx) (pre post : List Item) (code : Nat) (e : Expr) (ws : List Nat) (out : List Nat)
    (h : emit c (pre ++ Item.op code (some e) :: post) ws = .ok out) :
    ∃ (outPre outPost : List Nat) (v : Int),
      emit c pre ws = .ok outPre ∧ eval evalFuel c e = .ok v ∧ 0 ≤ v ∧ v.toNat < 256 ^ immLen code ∧
      out = outPre ++ (code :: (List.replicate (immLen code - (bytesBE v.toNat).length) 0 ++ bytesBE v.toNat)) ++ outPost :=
  emit_op_exact c pre post code e ws out h

theorem C09_push (c : Ctx) (pre post : List Item) (e : Expr) (ws : List Nat) (out : List Nat)
    (h : emit c (pre ++ Item.push e :: post) ws = .ok out) :
    ∃ (outPre outPost : List Nat) (v : Int),
      emit c pre ws = .ok outPre ∧ eval evalFuel c e = .ok v ∧ 0 ≤ v ∧
      v.toNat < 256 ^ (ws.drop (pushCount pre)).headD 1 ∧
      out = outPre ++ ((0x5f + (ws.drop (pushCount pre)).headD 1) ::
              (List.replicate ((ws.drop (pushCount pre)).headD 1 - (bytesBE v.toNat).length) 0 ++ bytesBE v.toNat)) ++ outPost :=
  emit_push_exact c pre post e ws out h

/-- `Ingest::ingest_file` hands bytes to the output only when assembly succeeded. -/
theorem C09_no_output (fs : FS) (cwd : PathC) (rnd : Nat → Nat) (fuel : Nat) (path : PathC) (e : IngErr)
    (h : ingestFile fs cwd rnd fuel path = .error e) :
    ¬ ∃ bytes tr, ingestFile fs cwd rnd fuel path = .ok (bytes, tr) := by
  rintro ⟨b, t, h'⟩; rw [h] at h'; cases h'

end EtkVerif.C09
