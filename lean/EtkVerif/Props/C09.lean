/-
C09 — Out-of-range operands are rejected, never truncated.

In any successful emission (`emit … = .ok out`, whatever the final label values
are): every `pushN e` has `0 ≤ v < 256^N` and every `%push(e)` has
`0 ≤ v < 256^w ≤ 2^256` for the value `v` of `e` under the final layout, and the
bytes written are exactly the big-endian digits of `v` (`C09_pushN`, `C09_push`).
Contrapositive: an operand out of range makes emission fail — by construction the
result type `Except AsmErr (List Nat)` carries no bytes in the error case, and
`ingestFile` writes to the output only from a successful result (`C09_no_output`).
The check is made under the FINAL label values: operands whose value depends on
labels are not range-checked when read (`pushInstr` defers them), see T-asm.
-/
import EtkVerif.Asm.Corollaries
import EtkVerif.Asm.Ingest
import EtkVerif.Props.C13
namespace EtkVerif.C09
open Asm

theorem C09_pushN (c : Ctx) (pre post : List Item) (code : Nat) (e : Expr) (ws : List Nat) (out : List Nat)
    (h : emit c (pre ++ Item.op code (some e) :: post) ws = .ok out) :
    ∃ (outPre outPost : List Nat) (v : Int),
      emit c pre ws = .ok outPre ∧ eval evalFuel c e = .ok v ∧ 0 ≤ v ∧ v.toNat < 256 ^ immLen code ∧
      out = outPre ++ (code :: (List.replicate (immLen code - (bytesBE v.toNat).length) 0 ++ bytesBE v.toNat)) ++ outPost :=
  emit_op_exact c pre post code e ws out h

theorem C09_push (c : Ctx) (pre post : List Item) (e : Expr) (ws : List Nat) (out : List Nat)
    (h : emit c (pre ++ Item.push e :: post) ws = .ok out) :
    ∃ (outPre outPost : List Nat) (v : Int),
      emit c pre ws = .ok outPre ∧ eval evalFuel c e = .ok v ∧ 0 ≤ v ∧
      v.toNat < 256 ^ (ws.drop (pushCount pre)).headD 1 ∧
      out = outPre ++ ((0x5f + (ws.drop (pushCount pre)).headD 1) ::
              (List.replicate ((ws.drop (pushCount pre)).headD 1 - (bytesBE v.toNat).length) 0 ++ bytesBE v.toNat)) ++ outPost :=
  emit_push_exact c pre post e ws out h

/-- `Ingest::ingest_file` hands bytes to the output only when assembly succeeded. -/
theorem C09_no_output (fs : FS) (cwd : PathC) (rnd : Nat → Nat) (fuel : Nat) (path : PathC) (e : IngErr)
    (h : ingestFile fs cwd rnd fuel path = .error e) :
    ¬ ∃ bytes tr, ingestFile fs cwd rnd fuel path = .ok (bytes, tr) := by
  rintro ⟨b, t, h'⟩; rw [h] at h'; cases h'

/-- C09 for whole programs: when the assembler model returns bytes, there are the expanded items of the program, a final
layout (label table `ls`, push widths `ws`, every width between 1 and 32) under which those items are emitted to exactly
these bytes, and EVERY fixed-width push `pushN e` among the items has a value `0 ≤ v < 256^N` under that final layout,
every `%push(e)` a value `0 ≤ v < 256^w ≤ 2^256` (w its final width) — wherever it stands, whether `e` mentions labels
defined before or after it, macro arguments, or constants -/
theorem C09_assemble (rnd : Nat → Nat) (fuel k : Nat) (ops : RawOps) (bytes : List Nat) (k' : Nat)
    (h : assemble rnd fuel { fresh := k } ops = .ok (bytes, k')) :
    ∃ (f : Nat) (ms : List (String × MacroDef)) (items : List Item) (ls : List (String × Option Nat)) (ws : List Nat),
      declareMacros ops.toList [] = .ok ms ∧ Spec.flattenAll rnd f ms k ops = .ok (items, k') ∧
      (∀ w ∈ ws, 1 ≤ w ∧ w ≤ 32) ∧
      emit ⟨ls, ms, none, 0⟩ items ws = .ok bytes ∧
      (∀ pre post code e, items = pre ++ Item.op code (some e) :: post →
        ∃ v : Int, eval evalFuel ⟨ls, ms, none, 0⟩ e = .ok v ∧ 0 ≤ v ∧ v.toNat < 256 ^ immLen code) ∧
      (∀ pre post e, items = pre ++ Item.push e :: post →
        ∃ v : Int, eval evalFuel ⟨ls, ms, none, 0⟩ e = .ok v ∧ 0 ≤ v ∧
          v.toNat < 256 ^ (ws.drop (pushCount pre)).headD 1 ∧ (ws.drop (pushCount pre)).headD 1 ≤ 32) := by
  obtain ⟨f, ms, items, _, hd, hf, _, _, hfin⟩ := (C13.C13_iff rnd fuel k ops bytes k').1 h
  rw [finish_unfold] at hfin
  simp only [List.isEmpty_nil, Bool.not_true, Bool.false_eq_true, if_false] at hfin
  have hst := layoutLoop_stable
    { ready := items, labels := (Spec.itemLabels items).map (fun l => (l, some 0)), macros := ms } (pushCount items) rfl
  refine ⟨f, ms, items, _, _, hd, hf, hst.2.1, hfin, ?_, ?_⟩
  · intro pre post code e hit
    subst hit
    obtain ⟨_, _, v, _, hv, h0, hlt, _⟩ := C09_pushN _ pre post code e _ bytes hfin
    exact ⟨v, hv, h0, hlt⟩
  · intro pre post e hit
    subst hit
    obtain ⟨_, _, v, _, hv, h0, hlt, _⟩ := C09_push _ pre post e _ bytes hfin
    refine ⟨v, hv, h0, hlt, ?_⟩
    -- the width read at this push's index is one of the final widths (or the default 1)
    have hb := hst.2.1
    revert hb
    generalize (layoutLoop _ _ _).2 = ws
    intro hb
    cases hd' : ws.drop (pushCount pre) with
    | nil => simp
    | cons w rest =>
      have : w ∈ ws := List.mem_of_mem_drop (by rw [hd']; exact List.mem_cons_self)
      simpa using (hb w this).2
end EtkVerif.C09
