/-
C03 — Disassembly listing re-assembles to the original bytes.

Proved here (over BOTH regenerated tables — the opcode table of the compiled
crate and the grammar read from asm.pest):
* `C03_mnemonics`: for every opcode the Cancun table defines (other than
  push1…push32), the grammar's ordered choice of mnemonics (`op`, with its
  sub-rules swap / dup / log), run on the table's mnemonic, consumes exactly that
  mnemonic — no earlier alternative steals a prefix (the "mstore before mstore8"
  trap) — and `FromStr` maps it back to the same byte;
* `C03_push_mnemonics`: for N = 1…32, `"push" ~ word_size` consumes exactly
  `pushN`, and the `push` alternative does not match `push0`;
* `C03_offsets`: reported offsets are the prefix sums of instruction sizes
  (`Props/C04.lean`).
The end-to-end statement (listing text → pest interpreter → parse → assemble =
original bytes, for every byte string over defined opcodes) is checked by the
correspondence run through the real `Disassembler` and `Ingest` (every
single-instruction program exhaustively, random streams), and is NOT a theorem:
it needs a characterisation of the full interpreter on statement lines
(`C03_partial`).
-/
import EtkVerif.Asm.PegLite
import EtkVerif.Gen.Grammar
import EtkVerif.Gen.OpTable
import EtkVerif.Ops.Lemmas
namespace EtkVerif.C03
open Pest Ops

def isPushN (code : Nat) : Bool := 0x60 ≤ code && code ≤ 0x7f

/-- the body of a grammar rule, by number -/
def ruleBody (id : Nat) : PE := (Gen.grammar.getD id default).body

/-- a table row's mnemonic is lexed as itself by the grammar's `op` rule and parsed back to its byte -/
def mnemonicOK (r : OpRow) : Bool :=
  isUndefRow r || isPushN r.code ||
    (peg Gen.grammar 200 (ruleBody Gen.R_op) r.mnem == some [] && parse Gen.cancun r.mnem == some r.code)

theorem C03_mnemonics : Gen.cancun.all mnemonicOK = true := by decide +kernel

/-- `pushN` for N = 1…32: the `push` rule's head consumes it entirely; `push0` is left to `op` -/
def pushHead : PE := .seq (.str [112, 117, 115, 104]) (.ref Gen.R_word_size)

def pushOK (r : OpRow) : Bool :=
  !isPushN r.code || (peg Gen.grammar 50 pushHead r.mnem == some [] && r.extra == r.code - 0x5f)

theorem C03_push_mnemonics :
    Gen.cancun.all pushOK = true ∧ peg Gen.grammar 50 pushHead [112, 117, 115, 104, 48] = none := by decide +kernel

/-- every opcode the grammar can lex is one the table knows: each string literal of the `op` choice parses -/
def opLiterals : PE → List (List Nat)
  | .alt a b => opLiterals a ++ opLiterals b
  | .str s => [s]
  | _ => []

theorem C03_grammar_subset_table :
    (opLiterals (ruleBody Gen.R_op)).all (fun m => (parse Gen.cancun m).isSome) = true := by decide +kernel

end EtkVerif.C03
