/-
C03 — Disassembly listing re-assembles to the original bytes.

Proved here (over BOTH regenerated tables — the opcode table of the compiled
crate and the grammar read from asm.pest):
* `C03_mnemonics`: for every opcode the Cancun table defines (other than
  push1…push32), the grammar's ordered choice of mnemonics (`op`, with its
  sub-rules swap / dup / log), run on the table's mnemonic, consumes exactly that
  mnemonic — no earlier alternative steals a prefix (the "mstore before mstore8"
  trap) — and `FromStr` maps it back to the same byte;
* `C03_push_mnemonics`: for N = 1…32, `"push" ~ word_size` consumes exactly
  `pushN`, and the `push` alternative does not match `push0`;
* reported offsets are the prefix sums of instruction sizes: `C04_lossless`
  (`OffsetsFrom`, `Props/C04.lean`).
* `C03_parse`, `C03_roundtrip`: the END-TO-END statement, for every byte string
  of complete instructions over defined Cancun opcodes: the listing text
  (`Listing.listing`: `mnemonic` or `mnemonic 0x<hex>` per line), run through the
  full pest interpreter over the regenerated grammar (`Pest.parse`), the pair-tree
  walk (`parseAsm`), `Ingest::preprocess` and `Assembler::assemble`, gives back
  exactly the original bytes.  The interpreter part (`Listing.parse_listing`) is
  proved with a three-valued window interpreter (`Asm/PestK.lean`) that is sound
  for `Pest.matchE` (`Asm/PestLogic.lean`) and is evaluated by the kernel once per
  table row on a window of character classes (`Asm/ListingTable.lean`).
-/
import EtkVerif.Asm.PegLite
import EtkVerif.Gen.Grammar
import EtkVerif.Gen.OpTable
import EtkVerif.Ops.Lemmas
import EtkVerif.Asm.ListingPest
import EtkVerif.Asm.ListingNodes
import EtkVerif.Asm.ListingAsm
import EtkVerif.Asm.Ingest
namespace EtkVerif.C03
open Pest Ops

def isPushN (code : Nat) : Bool := 0x60 ≤ code && code ≤ 0x7f

/-- the body of a grammar rule, by number -/
def ruleBody (id : Nat) : PE := (Gen.grammar.getD id default).body

/-- a table row's mnemonic is lexed as itself by the grammar's `op` rule and parsed back to its byte -/
def mnemonicOK (r : OpRow) : Bool :=
  isUndefRow r || isPushN r.code ||
    (peg Gen.grammar 200 (ruleBody Gen.R_op) r.mnem == some [] && parse Gen.cancun r.mnem == some r.code)

theorem C03_mnemonics : Gen.cancun.all mnemonicOK = true := by decide +kernel

/-- `pushN` for N = 1…32: the `push` rule's head consumes it entirely; `push0` is left to `op` -/
def pushHead : PE := .seq (.str [112, 117, 115, 104]) (.ref Gen.R_word_size)

def pushOK (r : OpRow) : Bool :=
  !isPushN r.code || (peg Gen.grammar 50 pushHead r.mnem == some [] && r.extra == r.code - 0x5f)

theorem C03_push_mnemonics :
    Gen.cancun.all pushOK = true ∧ peg Gen.grammar 50 pushHead [112, 117, 115, 104, 48] = none := by decide +kernel

/-- every opcode the grammar can lex is one the table knows: each string literal of the `op` choice parses -/
def opLiterals : PE → List (List Nat)
  | .alt a b => opLiterals a ++ opLiterals b
  | .str s => [s]
  | _ => []

theorem C03_grammar_subset_table :
    (opLiterals (ruleBody Gen.R_op)).all (fun m => (parse Gen.cancun m).isSome) = true := by decide +kernel

/-! ### the end-to-end round trip -/

open Asm Asm.Listing in
/-- the listing of any valid instruction list parses (full interpreter + pair-tree
walk) to one `Op` node per instruction: opcode byte, and for pushN the value of
the immediate -/
theorem C03_parse (is : List Disasm.Instr) (hv : ∀ i ∈ is, Valid i) :
    parseAsm (listing is) = .ok (is.map nodeOf) := by
  unfold parseAsm
  rw [parse_listing is hv]
  exact nodes_listing is hv

open Asm Asm.Listing in
theorem nodesLoop_listing (fs : FS) (cwd : PathC) (prog : Program) (tr : List Event) :
    ∀ (is : List Disasm.Instr) (fuel : Nat), is.length + 1 ≤ fuel →
      nodesLoop fs cwd fuel prog (is.map nodeOf) tr = .ok (is.map rawOf, tr) := by
  intro is
  induction is with
  | nil => intro fuel hf; cases fuel with
    | zero => omega
    | succ f => simp [nodesLoop]
  | cons i is ih =>
    intro fuel hf
    cases fuel with
    | zero => omega
    | succ f =>
      have h := ih f (by simp at hf; omega)
      simp only [List.map_cons, nodesLoop, nodeOf, h, rawOf]
      rfl

open Asm Asm.Listing in
/-- **Round trip.** For every byte string whose linear sweep consists of complete
instructions with defined opcodes: `Ingest` run on the listing text reads no file
(the event trace is unchanged), hands the assembler one raw op per instruction,
and the assembler returns exactly the original bytes.  (`fuel` only has to exceed
the number of instructions; `rnd`, the file system, the program context are arbitrary.) -/
theorem C03_roundtrip (fs : FS) (cwd : PathC) (prog : Program) (tr : List Event) (rnd : Nat → Nat)
    (bytes : List Nat) (hb : ∀ b ∈ bytes, b < 256) (items : List Disasm.Item) (off : Nat)
    (hd : Disasm.decodeAll Gen.cancun bytes = (items, (off, [])))
    (hdef : ∀ it ∈ items, Ops.isUndefRow (Ops.rowOf Gen.cancun it.2.op) = false)
    (fuel : Nat) (hf : items.length + 2 ≤ fuel) :
    preprocess fs cwd fuel prog (listing (items.map (·.2))) tr = .ok ((items.map (·.2)).map rawOf, tr) ∧
    assemble rnd fuel {} (RawOps.ofList ((items.map (·.2)).map rawOf)) = .ok (bytes, 0) := by
  obtain ⟨hv, hcat⟩ := decodeAll_valid bytes hb items off hd hdef
  constructor
  · cases fuel with
    | zero => omega
    | succ f =>
      simp only [preprocess, C03_parse _ hv]
      exact nodesLoop_listing fs cwd prog tr _ f (by simp; omega)
  · have := assemble_listing rnd fuel (items.map (·.2)) hv (by simpa using hf)
    rw [this, hcat]

-- non-vacuity: a concrete byte string (push1 00; stop; push2 00ff; push0; mstore8) meets the hypotheses
example : Disasm.decodeAll Gen.cancun [0x60, 0, 0, 0x61, 0, 255, 0x5f, 0x53]
    = ([(0, ⟨0x60, [0]⟩), (2, ⟨0, []⟩), (3, ⟨0x61, [0, 255]⟩), (6, ⟨0x5f, []⟩), (7, ⟨0x53, []⟩)], (8, [])) := by decide

end EtkVerif.C03
