/-
C08 — Operand expressions are evaluated as exact integer arithmetic.

* literals: a binary / octal / decimal / hexadecimal digit string has its
  positional value; `-d…` is the negation (`C08_literal`; the negative arm is the
  `negative_decimal` case of `parseExpr`, covered at text level by `C08_text`);
* precedence: the climber's parse of `term (op term)*` is the stratified grammar
  E → T ((+|−) T)*, T → F ((×|÷) F)*: × ÷ bind tighter, equal precedence
  associates to the left; parentheses group because a parenthesised term is a
  single `expression` pair parsed recursively (`C08_precedence`);
* evaluation is unbounded `Int` arithmetic with division truncating toward zero
  (`C08_arithmetic`);
* `selector` / `topic` are the first 4 / all 32 bytes of Keccak-256 (`parseExpr`
  calls `Keccak.keccak256`; `C08_keccak_vectors`: kernel-evaluated published vectors —
  the hash of the empty string and the ERC-20 `transfer(address,uint256)` selector);
* the assembled immediate is exactly that value: `Props/C02.lean`
  (`emit_op_exact`);
* `C08_text`: the TEXT of an operand — any flat sequence `term (blanks op blanks
  term)*` whose terms are literals in the four radixes (any digit count, upper or
  lower case hex), negative decimals, labels and parenthesised sequences nested
  to any depth, with arbitrary blanks around operators and inside parentheses —
  written as `%push(<text>)`, goes through the FULL pest interpreter over the
  regenerated grammar and the walk of `parse_asm` to exactly the expression the
  climber builds from its terms (`TSeq.expr`), i.e. by `C08_precedence` the
  stratified-grammar reading; no bound on length or nesting.
-/
import EtkVerif.Asm.ExprLemmas
import EtkVerif.Asm.ExprTextPest
namespace EtkVerif.C08
open Asm

theorem C08_literal (radix : Nat) (s ds : List Nat) (hne : s ≠ [])
    (hd : s.map (toDigit radix) = ds.map some) :
    parseRadix s radix = .ok (Int.ofNat (positional radix ds)) :=
  parseRadix_value radix s ds hne hd

theorem C08_literal_total (radix : Nat) (s : List Nat) :
    (∃ v, parseRadix s radix = .ok v) ↔ (s ≠ [] ∧ ∀ c ∈ s, (toDigit radix c).isSome) :=
  parseRadix_ok_iff radix s

theorem C08_precedence (first : Expr) (rest : List (BinOp × Expr)) :
    climb first rest = stratified first rest :=
  climb_eq_stratified first rest

theorem C08_arithmetic (fuel : Nat) (ctx : Ctx) (a b : Expr) (x y : Int)
    (ha : eval fuel ctx a = .ok x) (hb : eval fuel ctx b = .ok y) :
    eval (fuel + 1) ctx (.plus a b) = .ok (x + y) ∧
    eval (fuel + 1) ctx (.minus a b) = .ok (x - y) ∧
    eval (fuel + 1) ctx (.times a b) = .ok (x * y) ∧
    eval (fuel + 1) ctx (.divide a b) = (if y = 0 then .error .divisionByZero else .ok (Int.tdiv x y)) :=
  eval_arith fuel ctx a b x y ha hb

/-- truncation toward zero, all sign combinations -/
theorem C08_division_signs :
    Int.tdiv 7 2 = 3 ∧ Int.tdiv (-7) 2 = -3 ∧ Int.tdiv 7 (-2) = -3 ∧ Int.tdiv (-7) (-2) = 3 := by decide

-- non-vacuity / examples: 1+2*3-4/2 ; (1+2)*3 ; left associativity 10-4-3 and 100/5/2
example : stratified (.num 1) [(.plus, .num 2), (.times, .num 3), (.minus, .num 4), (.divide, .num 2)]
    = .minus (.plus (.num 1) (.times (.num 2) (.num 3))) (.divide (.num 4) (.num 2)) := rfl
example : climb (.num 10) [(.minus, .num 4), (.minus, .num 3)] = .minus (.minus (.num 10) (.num 4)) (.num 3) := rfl
example : parseRadix [49, 48, 49] 2 = .ok 5 := rfl
example : parseRadix [102, 70] 16 = .ok 255 := rfl

open Asm.ExprText in
/-- text of an operand → the climber's expression over its terms (lexing and walk included) -/
theorem C08_text (l r : List Nat) (s : TSeq) (hl : IsBlanks l) (hr : IsBlanks r) (hs : s.WF) :
    parseAsm (pushText l s r) = .ok [.op (.push s.expr)] :=
  parse_pushText l r s hl hr hs

open Asm.ExprText in
/-- … which is the stratified-grammar reading of the term sequence -/
theorem C08_text_stratified (t : TTerm) (rest : TRest) :
    (TSeq.mk t rest).expr = stratified t.expr rest.list := by
  simp only [TSeq.expr]
  exact climb_eq_stratified _ _

/-- the executable Keccak-256 definition on published vectors: Keccak-256("") and the first four bytes of
Keccak-256("transfer(address,uint256)") = a9059cbb (kernel evaluation; not a proof against FIPS-202 text) -/
theorem C08_keccak_vectors :
    Keccak.keccak256 [] = [0xc5,0xd2,0x46,0x01,0x86,0xf7,0x23,0x3c,0x92,0x7e,0x7d,0xb2,0xdc,0xc7,0x03,0xc0,0xe5,0x00,0xb6,0x53,
                           0xca,0x82,0x27,0x3b,0x7b,0xfa,0xd8,0x04,0x5d,0x85,0xa4,0x70] ∧
    (Keccak.keccak256 [116,114,97,110,115,102,101,114,40,97,100,100,114,101,115,115,44,117,105,110,116,50,53,54,41]).take 4
      = [0xa9,0x05,0x9c,0xbb] := by decide +kernel

end EtkVerif.C08
