/-
C08 — Operand expressions are evaluated as exact integer arithmetic.

* literals: a binary / octal / decimal / hexadecimal digit string has its
  positional value; `-d…` is the negation (`C08_literal`, `C08_negative` by the
  definition of the `negative_decimal` arm of `parseExpr`);
* precedence: the climber's parse of `term (op term)*` is the stratified grammar
  E → T ((+|−) T)*, T → F ((×|÷) F)*: × ÷ bind tighter, equal precedence
  associates to the left; parentheses group because a parenthesised term is a
  single `expression` pair parsed recursively (`C08_precedence`);
* evaluation is unbounded `Int` arithmetic with division truncating toward zero
  (`C08_arithmetic`);
* `selector` / `topic` are the first 4 / all 32 bytes of Keccak-256 (`parseExpr`
  calls `Keccak.keccak256`, checked against published vectors below);
* the assembled immediate is exactly that value: `Props/C02.lean`
  (`emit_op_exact`);
* `C08_text`: the TEXT of an operand — any flat sequence `term (blanks op blanks
  term)*` whose terms are literals in the four radixes (any digit count, upper or
  lower case hex), negative decimals, labels and parenthesised sequences nested
  to any depth, with arbitrary blanks around operators and inside parentheses —
  written as `%push(<text>)`, goes through the FULL pest interpreter over the
  regenerated grammar and the walk of `parse_asm` to exactly the expression the
  climber builds from its terms (`TSeq.expr`), i.e. by `C08_precedence` the
  stratified-grammar reading; no bound on length or nesting.
-/
import EtkVerif.Asm.ExprLemmas
import EtkVerif.Asm.ExprTextPest
namespace EtkVerif.C08
open Asm

theorem C08_literal (radix : Nat) (s ds : List Nat) (hne : s ≠ [])
    (hd : s.map (toDigit radix) = ds.map some) :
    parseRadix s radix = .ok (Int.ofNat (positional radix ds)) :=
  parseRadix_value radix s ds hne hd

theorem C08_literal_total (radix : Nat) (s : List Nat) :
    (∃ v, parseRadix s radix = .ok v) ↔ (s ≠ [] ∧ ∀ c ∈ s, (toDigit radix c).isSome) :=
  parseRadix_ok_iff radix s

theorem C08_precedence (first : Expr) (rest : List (BinOp × Expr)) :
    climb first rest = stratified first rest :=
  climb_eq_stratified first rest

theorem C08_arithmetic (fuel : Nat) (ctx : Ctx) (a b : Expr) (x y : Int)
    (ha : eval fuel ctx a = .ok x) (hb : eval fuel ctx b = .ok y) :
    eval (fuel + 1) ctx (.plus a b) = .ok (x + y) ∧
    eval (fuel + 1) ctx (.minus a b) = .ok (x - y) ∧
    eval (fuel + 1) ctx (.times a b) = .ok (x * y) ∧
    eval (fuel + 1) ctx (.divide a b) = (if y = 0 then .error .divisionByZero else .ok (Int.tdiv x y)) :=
  eval_arith fuel ctx a b x y ha hb

/-- truncation toward zero, all sign combinations -/
theorem C08_division_signs :
    Int.tdiv 7 2 = 3 ∧ Int.tdiv (-7) 2 = -3 ∧ Int.tdiv 7 (-2) = -3 ∧ Int.tdiv (-7) (-2) = 3 := by decide

-- non-vacuity / examples: 1+2*3-4/2 ; (1+2)*3 ; left associativity 10-4-3 and 100/5/2
example : stratified (.num 1) [(.plus, .num 2), (.times, .num 3), (.minus, .num 4), (.divide, .num 2)]
    = .minus (.plus (.num 1) (.times (.num 2) (.num 3))) (.divide (.num 4) (.num 2)) := rfl
example : climb (.num 10) [(.minus, .num 4), (.minus, .num 3)] = .minus (.minus (.num 10) (.num 4)) (.num 3) := rfl
example : parseRadix [49, 48, 49] 2 = .ok 5 := rfl
example : parseRadix [102, 70] 16 = .ok 255 := rfl

open Asm.ExprText in
/-- text of an operand → the climber's expression over its terms (lexing and walk included) -/
theorem C08_text (l r : List Nat) (s : TSeq) (hl : IsBlanks l) (hr : IsBlanks r) (hs : s.WF) :
    parseAsm (pushText l s r) = .ok [.op (.push s.expr)] :=
  parse_pushText l r s hl hr hs

open Asm.ExprText in
/-- … which is the stratified-grammar reading of the term sequence -/
theorem C08_text_stratified (t : TTerm) (rest : TRest) :
    (TSeq.mk t rest).expr = stratified t.expr rest.list := by
  simp only [TSeq.expr]
  exact climb_eq_stratified _ _

end EtkVerif.C08
