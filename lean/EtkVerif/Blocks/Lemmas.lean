/-
Lemmas about the separator model: the schedule invariant (T-sep).
-/
import EtkVerif.Blocks.Model
namespace EtkVerif
namespace Blocks
open Ops

/-! ### Abstract view of a run: finished blocks, block in progress, items fed -/

/-- Blocks that are finished (handed out or waiting in `complete`), in order. -/
def Run.done (r : Run) : List Block := r.out ++ r.sep.complete

theorem Run.allBlocks_eq (r : Run) : r.allBlocks = r.done ++ r.sep.inProgress.toList := rfl

/-- The block in progress after appending `instr` (a fresh block if there is none). -/
def extend : Option Block → Nat → Disasm.Instr → Block
  | some p, _, instr => ⟨p.offset, p.ops ++ [instr]⟩
  | none, o, instr => ⟨o, [instr]⟩

@[simp] theorem extend_some (p : Block) (o : Nat) (instr : Disasm.Instr) :
    extend (some p) o instr = ⟨p.offset, p.ops ++ [instr]⟩ := rfl
@[simp] theorem extend_none (o : Nat) (instr : Disasm.Instr) :
    extend none o instr = ⟨o, [instr]⟩ := rfl

/-- `Separator::push` on the abstract state. -/
def pushAbs (t : OpTable) (done : List Block) (ip : Option Block) (o : Nat) (instr : Disasm.Instr) :
    List Block × Option Block :=
  if isJumpTarget t instr then (done ++ ip.toList, some ⟨o, [instr]⟩)
  else if endsBlock t instr then (done ++ [extend ip o instr], none)
  else (done, some (extend ip o instr))

theorem step_push_abs (t : OpTable) (r : Run) (o : Nat) (instr : Disasm.Instr) :
    (step t r (.push (o, instr))).done = (pushAbs t r.done r.sep.inProgress o instr).1 ∧
    (step t r (.push (o, instr))).sep.inProgress = (pushAbs t r.done r.sep.inProgress o instr).2 ∧
    (step t r (.push (o, instr))).fed = r.fed ++ [(o, instr)] := by
  obtain ⟨⟨complete, ip⟩, fed, out, p⟩ := r
  refine ⟨?_, ?_, rfl⟩
  · cases ip <;> simp only [step, push, pushAbs, Run.done, extend] <;>
      split <;> (try split) <;> simp
  · cases ip <;> simp only [step, push, pushAbs, Run.done, extend] <;>
      split <;> (try split) <;> simp

theorem pushAll_fst_aux (t : OpTable) : ∀ (its : List Disasm.Item) (acc : Sep × Bool),
    (its.foldl (fun (acc : Sep × Bool) it =>
        let (s', a) := push t acc.1 it; (s', acc.2 || a)) acc).1 =
      its.foldl (fun s it => (push t s it).1) acc.1 := by
  intro its
  induction its with
  | nil => intro acc; rfl
  | cons it its ih => intro acc; rw [List.foldl_cons, List.foldl_cons, ih]

theorem pushAll_fst (t : OpTable) (s : Sep) (its : List Disasm.Item) :
    (pushAll t s its).1 = its.foldl (fun s it => (push t s it).1) s :=
  pushAll_fst_aux t its (s, false)

/-- `push_all` is the same as pushing the items one at a time. -/
theorem step_pushAll (t : OpTable) : ∀ (its : List Disasm.Item) (r : Run),
    step t r (.pushAll its) = its.foldl (fun r it => step t r (.push it)) r := by
  intro its
  induction its with
  | nil =>
    intro r
    obtain ⟨sep, fed, out, p⟩ := r
    simp [step, pushAll]
  | cons it its ih =>
    intro r
    rw [List.foldl_cons, ← ih]
    simp only [step, pushAll_fst, List.foldl_cons, List.append_assoc, List.singleton_append]

/-- Induction over schedules on the abstract state.  `allowFin` says whether
`finish` may occur in the schedule. -/
theorem foldl_abs (t : OpTable) (P : List Block → Option Block → List Disasm.Item → Prop)
    (allowFin : Prop)
    (hpush : ∀ done ip fed o instr, P done ip fed →
      P (pushAbs t done ip o instr).1 (pushAbs t done ip o instr).2 (fed ++ [(o, instr)]))
    (hfin : allowFin → ∀ done ip fed, P done ip fed → P (done ++ ip.toList) none fed) :
    ∀ (h : List Ev) (r : Run), (∀ e ∈ h, e = Ev.finish → allowFin) →
      P r.done r.sep.inProgress r.fed →
      P (h.foldl (step t) r).done (h.foldl (step t) r).sep.inProgress (h.foldl (step t) r).fed := by
  have push1 : ∀ (r : Run) (it : Disasm.Item), P r.done r.sep.inProgress r.fed →
      P (step t r (.push it)).done (step t r (.push it)).sep.inProgress (step t r (.push it)).fed := by
    intro r it hp
    obtain ⟨o, instr⟩ := it
    obtain ⟨h₁, h₂, h₃⟩ := step_push_abs t r o instr
    rw [h₁, h₂, h₃]
    exact hpush _ _ _ o instr hp
  have pushN : ∀ (its : List Disasm.Item) (r : Run), P r.done r.sep.inProgress r.fed →
      P (its.foldl (fun r it => step t r (.push it)) r).done
        (its.foldl (fun r it => step t r (.push it)) r).sep.inProgress
        (its.foldl (fun r it => step t r (.push it)) r).fed := by
    intro its
    induction its with
    | nil => intro r hp; exact hp
    | cons it its ih => intro r hp; rw [List.foldl_cons]; exact ih _ (push1 r it hp)
  intro h
  induction h with
  | nil => intro r _ hp; exact hp
  | cons e h ih =>
    intro r hf hp
    rw [List.foldl_cons]
    apply ih _ (fun e' he' => hf e' (List.mem_cons_of_mem _ he'))
    cases e with
    | push it => exact push1 r it hp
    | pushAll its => rw [step_pushAll]; exact pushN its r hp
    | take =>
      obtain ⟨⟨complete, ip⟩, fed, out, p⟩ := r
      simpa [step, take, Run.done] using hp
    | finish =>
      have af : allowFin := hf _ (List.mem_cons_self ..) rfl
      obtain ⟨⟨complete, ip⟩, fed, out, p⟩ := r
      cases complete with
      | nil =>
        have := hfin af _ _ _ hp
        cases ip with
        | none => simpa [step, finish, Run.done] using this
        | some b => simpa [step, finish, Run.done] using this
      | cons c cs => simpa [step, finish, Run.done] using hp

theorem run_abs (t : OpTable) (P : List Block → Option Block → List Disasm.Item → Prop)
    (allowFin : Prop) (h0 : P [] none [])
    (hpush : ∀ done ip fed o instr, P done ip fed →
      P (pushAbs t done ip o instr).1 (pushAbs t done ip o instr).2 (fed ++ [(o, instr)]))
    (hfin : allowFin → ∀ done ip fed, P done ip fed → P (done ++ ip.toList) none fed)
    (h : List Ev) (hf : ∀ e ∈ h, e = Ev.finish → allowFin) :
    P (run t h).done (run t h).sep.inProgress (run t h).fed :=
  foldl_abs t P allowFin hpush hfin h {} hf h0

/-! ### Partition -/

theorem run_flat (t : OpTable) (h : List Ev) :
    (run t h).allBlocks.flatMap (·.ops) = (run t h).fed.map (·.2) := by
  rw [Run.allBlocks_eq]
  refine run_abs t (fun done ip fed => (done ++ ip.toList).flatMap (·.ops) = fed.map (·.2)) True
    rfl ?_ ?_ h (fun _ _ _ => trivial)
  · intro done ip fed o instr hp
    simp only [List.flatMap_append, List.map_append, List.map_cons, List.map_nil] at hp ⊢
    rw [← hp]
    unfold pushAbs
    cases ip <;> split <;> (try split) <;> simp
  · intro _ done ip fed hp
    simpa using hp

/-- The block in progress is non-empty, has a jump target at most in front and
contains no block-ending instruction. -/
def Open (t : OpTable) (p : Block) : Prop :=
  p.ops ≠ [] ∧ (∀ i ∈ p.ops.tail, isJumpTarget t i = false) ∧ (∀ i ∈ p.ops, endsBlock t i = false)

theorem Open.shaped {t : OpTable} {p : Block} (h : Open t p) : p.Shaped t :=
  ⟨h.1, h.2.1, fun i hi => h.2.2 i (List.dropLast_subset _ hi)⟩

/-- No jump target ends a block (true of every EVM table: `jumpdest` neither
jumps nor halts). -/
def JtNotEnd (t : OpTable) : Prop := ∀ i, isJumpTarget t i = true → endsBlock t i = false

theorem run_shaped (t : OpTable) (hjt : JtNotEnd t) (h : List Ev) :
    ∀ b ∈ (run t h).allBlocks, b.Shaped t := by
  rw [Run.allBlocks_eq]
  have key := run_abs t
    (fun done ip _ => (∀ b ∈ done, b.Shaped t) ∧ (∀ p, ip = some p → Open t p)) True
    ⟨fun _ h => (by cases h), fun _ h => (by cases h)⟩ ?_ ?_ h (fun _ _ _ => trivial)
  · intro b hb
    rcases List.mem_append.mp hb with hb | hb
    · exact key.1 b hb
    · exact (key.2 b (by simpa using hb)).shaped
  · intro done ip fed o instr ⟨hd, hip⟩
    have hall : ∀ b ∈ done ++ ip.toList, b.Shaped t := by
      intro b hb
      rcases List.mem_append.mp hb with hb | hb
      · exact hd b hb
      · exact (hip b (by simpa using hb)).shaped
    unfold pushAbs
    by_cases hj : isJumpTarget t instr = true
    · rw [if_pos hj]
      refine ⟨hall, ?_⟩
      intro p hp
      cases hp
      refine ⟨by simp, by simp, ?_⟩
      intro i hi
      rw [List.mem_singleton] at hi
      subst hi
      exact hjt i hj
    · rw [if_neg hj]
      have hj' : isJumpTarget t instr = false := by simpa using hj
      -- the extended block, before looking at `endsBlock`
      have hb : ∀ b : Block, b = extend ip o instr →
          b.ops ≠ [] ∧ (∀ i ∈ b.ops.tail, isJumpTarget t i = false) ∧
          (∀ i ∈ b.ops.dropLast, endsBlock t i = false) ∧ b.ops.getLast? = some instr := by
        intro b hb
        cases ip with
        | none =>
          subst hb
          simp
        | some p =>
          subst hb
          obtain ⟨hne, htl, hen⟩ := hip p rfl
          refine ⟨by simp, ?_, ?_, by simp⟩
          · intro i hi
            simp only [extend_some] at hi
            rw [List.tail_append_of_ne_nil hne] at hi
            rcases List.mem_append.mp hi with hi | hi
            · exact htl i hi
            · rw [List.mem_singleton] at hi; subst hi; exact hj'
          · intro i hi
            simp only [extend_some] at hi
            rw [List.dropLast_concat] at hi
            exact hen i hi
      obtain ⟨hne, htl, hdl, hlast⟩ := hb _ rfl
      generalize extend ip o instr = b at hne htl hdl hlast
      by_cases he : endsBlock t instr = true
      · simp only [if_pos he]
        refine ⟨?_, fun p hp => by cases hp⟩
        intro c hc
        rcases List.mem_append.mp hc with hc | hc
        · exact hd c hc
        · rw [List.mem_singleton] at hc; subst hc
          exact ⟨hne, htl, hdl⟩
      · simp only [if_neg he]
        refine ⟨hd, ?_⟩
        intro p hp
        cases hp
        refine ⟨hne, htl, ?_⟩
        intro i hi
        have hsplit := List.dropLast_concat_getLast hne
        rw [← hsplit] at hi
        rcases List.mem_append.mp hi with hi | hi
        · exact hdl i hi
        · rw [List.mem_singleton] at hi
          have : b.ops.getLast hne = instr := by
            have := List.getLast?_eq_some_getLast hne
            rw [hlast] at this
            exact (Option.some.inj this).symm
          rw [hi, this]
          simpa using he
  · intro _ done ip fed ⟨hd, hip⟩
    refine ⟨?_, fun p hp => by cases hp⟩
    intro b hb
    rcases List.mem_append.mp hb with hb | hb
    · exact hd b hb
    · exact (hip b (by simpa using hb)).shaped

/-- The partition property, for tables in which no jump target ends a block. -/
theorem run_partition_of_jtNotEnd (t : OpTable) (hjt : JtNotEnd t) (h : List Ev) :
    let r := run t h
    r.allBlocks.flatMap (·.ops) = r.fed.map (·.2) ∧
    (∀ b ∈ r.allBlocks, b.Shaped t) :=
  ⟨run_flat t h, run_shaped t hjt h⟩

/-- Boolean check of `JtNotEnd` on a concrete table (bytes beyond the table get
the default row, whose flags are all `false`). -/
theorem jtNotEnd_of_all (t : OpTable)
    (h : (t.all fun r => !(r.jt && (r.jump || r.exit))) = true) : JtNotEnd t := by
  intro i hj
  unfold isJumpTarget at hj
  unfold endsBlock
  have hmem : rowOf t i.op ∈ t ∨ rowOf t i.op = default := by
    unfold rowOf
    by_cases hlt : i.op < t.length
    · left
      have : t.getD i.op default = t[i.op] := by simp [List.getD, hlt]
      rw [this]
      exact List.getElem_mem hlt
    · right
      simp [List.getD, Nat.le_of_not_lt hlt]
  rcases hmem with hm | hd
  · have := List.all_eq_true.mp h _ hm
    rw [hj] at this
    simpa using this
  · rw [hd] at hj
    cases hj

/-- `run_partition` below is FALSE for an arbitrary table: if some opcode is
flagged both as a jump target and as block-ending (impossible for a real EVM
table, but not excluded by `OpTable`), `push` opens a block with it and then
keeps appending, so the block-ending instruction is not last.  Corrected
statement: `run_partition_of_jtNotEnd` (the first conjunct alone holds
unconditionally: `run_flat`). -/
theorem run_partition_counterexample :
    ¬ ∀ (t : OpTable) (h : List Ev),
      (let r := run t h
       r.allBlocks.flatMap (·.ops) = r.fed.map (·.2) ∧
       (∀ b ∈ r.allBlocks, b.Shaped t)) := by
  intro H
  have h₁ := (H [⟨0, [], 0, 0, 0, true, false, true, 1, 0, 0, []⟩]
    [.push (0, ⟨0, []⟩), .push (1, ⟨1, []⟩)]).2 ⟨0, [⟨0, []⟩, ⟨1, []⟩]⟩ (by decide)
  have h₂ := h₁.2.2 ⟨0, []⟩ (by decide)
  revert h₂
  decide

/-! ### Offsets -/

/-- Total encoded length of the items fed. -/
def lenSum (fed : List Disasm.Item) : Nat := (fed.map (·.2.len)).sum

/-- Total encoded length of a list of blocks. -/
def total (l : List Block) : Nat := (l.map Block.byteLen).sum

@[simp] theorem lenSum_nil : lenSum [] = 0 := rfl
@[simp] theorem lenSum_cons (it : Disasm.Item) (fed : List Disasm.Item) :
    lenSum (it :: fed) = it.2.len + lenSum fed := by simp [lenSum]
@[simp] theorem lenSum_snoc (fed : List Disasm.Item) (it : Disasm.Item) :
    lenSum (fed ++ [it]) = lenSum fed + it.2.len := by
  induction fed with
  | nil => simp
  | cons x fed ih => simp [ih, Nat.add_assoc]

@[simp] theorem total_nil : total [] = 0 := rfl
@[simp] theorem total_cons (b : Block) (l : List Block) :
    total (b :: l) = b.byteLen + total l := by simp [total]
@[simp] theorem total_append (l m : List Block) : total (l ++ m) = total l + total m := by
  induction l with
  | nil => simp
  | cons x l ih => simp [ih, Nat.add_assoc]

@[simp] theorem byteLen_single (o : Nat) (i : Disasm.Instr) :
    Block.byteLen ⟨o, [i]⟩ = i.len := by simp [Block.byteLen]
@[simp] theorem byteLen_snoc (o : Nat) (ops : List Disasm.Instr) (i : Disasm.Instr) :
    Block.byteLen ⟨o, ops ++ [i]⟩ = Block.byteLen ⟨o, ops⟩ + i.len := by
  simp only [Block.byteLen]
  induction ops with
  | nil => simp
  | cons x ops ih => simp only [List.cons_append, List.map_cons, List.sum_cons, ih, Nat.add_assoc]

theorem chained_snoc : ∀ (fed : List Disasm.Item) (off o : Nat) (i : Disasm.Instr),
    Chained off (fed ++ [(o, i)]) → Chained off fed ∧ o = off + lenSum fed := by
  intro fed
  induction fed with
  | nil => intro off o i h; exact ⟨trivial, by simpa using h.1⟩
  | cons x fed ih =>
    intro off o i h
    obtain ⟨o', i'⟩ := x
    obtain ⟨h₁, h₂⟩ := h
    obtain ⟨h₃, h₄⟩ := ih _ _ _ h₂
    exact ⟨⟨h₁, h₃⟩, by rw [h₄, lenSum_cons, Nat.add_assoc]⟩

theorem blocksChained_append : ∀ (l : List Block) (off : Nat) (m : List Block),
    BlocksChained off (l ++ m) ↔ BlocksChained off l ∧ BlocksChained (off + total l) m := by
  intro l
  induction l with
  | nil => intro off m; simp [BlocksChained]
  | cons b l ih =>
    intro off m
    simp only [List.cons_append, BlocksChained, ih, total_cons, Nat.add_assoc, and_assoc]

theorem blocksChained_single (off : Nat) (b : Block) :
    BlocksChained off [b] ↔ b.offset = off := by simp [BlocksChained]

theorem extend_offsets (done : List Block) (ip : Option Block) (o off : Nat) (instr : Disasm.Instr)
    (hb : BlocksChained off (done ++ ip.toList)) (ho : o = off + total (done ++ ip.toList)) :
    BlocksChained off (done ++ [extend ip o instr]) := by
  cases ip with
  | none =>
    simp only [Option.toList_none, List.append_nil] at hb ho
    rw [blocksChained_append, blocksChained_single]
    exact ⟨hb, ho⟩
  | some p =>
    simp only [Option.toList_some] at hb
    rw [blocksChained_append, blocksChained_single] at hb ⊢
    exact hb

theorem extend_total (done : List Block) (ip : Option Block) (o : Nat) (instr : Disasm.Instr) :
    total (done ++ [extend ip o instr]) = total (done ++ ip.toList) + instr.len := by
  cases ip with
  | none => simp
  | some p =>
    have hp : Block.byteLen ⟨p.offset, p.ops⟩ = p.byteLen := rfl
    simp only [extend_some, Option.toList_some, total_append, total_cons, total_nil, byteLen_snoc, hp]
    omega

/-- Offsets: if the instructions fed carry chained offsets (as the disassembler
produces them), block offsets are chained by block size; provided `finish` did
not cut a block short (no `finish` in the schedule) the blocks are also maximal. -/
theorem run_offsets (t : OpTable) (h : List Ev) (off : Nat)
    (hc : Chained off (run t h).fed) :
    BlocksChained off (run t h).allBlocks := by
  rw [Run.allBlocks_eq]
  have key := run_abs t
    (fun done ip fed => total (done ++ ip.toList) = lenSum fed ∧
      ∀ off, Chained off fed → BlocksChained off (done ++ ip.toList)) True
    ⟨rfl, fun _ _ => trivial⟩ ?_ ?_ h (fun _ _ _ => trivial)
  · exact key.2 off hc
  · intro done ip fed o instr ⟨htot, hch⟩
    have hbc : ∀ off, Chained off (fed ++ [(o, instr)]) →
        BlocksChained off (done ++ ip.toList) ∧ o = off + total (done ++ ip.toList) := by
      intro off hc
      obtain ⟨h₁, h₂⟩ := chained_snoc fed off o instr hc
      exact ⟨hch off h₁, by rw [htot]; exact h₂⟩
    unfold pushAbs
    by_cases hj : isJumpTarget t instr = true
    · simp only [if_pos hj, Option.toList_some]
      refine ⟨by rw [total_append, total_cons, total_nil, byteLen_single, htot, lenSum_snoc,
        Nat.add_zero], ?_⟩
      intro off hc
      obtain ⟨h₁, h₂⟩ := hbc off hc
      rw [blocksChained_append, blocksChained_single]
      exact ⟨h₁, h₂⟩
    · by_cases he : endsBlock t instr = true
      · simp only [if_neg hj, if_pos he, Option.toList_none, List.append_nil]
        refine ⟨by rw [extend_total, htot, lenSum_snoc], ?_⟩
        intro off hc
        obtain ⟨h₁, h₂⟩ := hbc off hc
        exact extend_offsets done ip o off instr h₁ h₂
      · simp only [if_neg hj, if_neg he, Option.toList_some]
        refine ⟨by rw [extend_total, htot, lenSum_snoc], ?_⟩
        intro off hc
        obtain ⟨h₁, h₂⟩ := hbc off hc
        exact extend_offsets done ip o off instr h₁ h₂
  · intro _ done ip fed hp
    simpa using hp

/-! ### Maximality -/

/-- Consecutive blocks `b`, `c` are separated for a reason. -/
def Link (t : OpTable) (b c : Block) : Prop :=
  (∃ i, b.ops.getLast? = some i ∧ endsBlock t i = true) ∨
  (∃ i, c.ops.head? = some i ∧ isJumpTarget t i = true)

/-- The last finished block (if any) ends with a block-ending instruction. -/
def Closed (t : OpTable) (l : List Block) : Prop :=
  ∀ b, l.getLast? = some b → ∃ i, b.ops.getLast? = some i ∧ endsBlock t i = true

theorem maximal_snoc (t : OpTable) : ∀ (l : List Block) (c : Block),
    Maximal t (l ++ [c]) ↔ Maximal t l ∧ ∀ b, l.getLast? = some b → Link t b c := by
  intro l
  induction l with
  | nil => intro c; simp [Maximal]
  | cons b l ih =>
    intro c
    cases l with
    | nil => simp [Maximal, Link]
    | cons b' rest =>
      have ih' := ih c
      simp only [List.cons_append] at ih' ⊢
      simp only [Maximal, ih', List.getLast?_cons_cons, and_assoc]

theorem extend_getLast (ip : Option Block) (o : Nat) (instr : Disasm.Instr) :
    (extend ip o instr).ops.getLast? = some instr := by
  cases ip <;> simp

theorem run_maximal (t : OpTable) (h : List Ev)
    (hnf : ∀ e ∈ h, (match e with | Ev.finish => true | _ => false) = false) :
    Maximal t (run t h).allBlocks := by
  rw [Run.allBlocks_eq]
  have key := run_abs t
    (fun done ip _ => Maximal t (done ++ ip.toList) ∧ (ip = none → Closed t done)) False
    ⟨trivial, fun _ b hb => (by simp at hb)⟩ ?_ (fun hF => hF.elim) h ?_
  · exact key.1
  · intro done ip fed o instr ⟨hmax, hcl⟩
    unfold pushAbs
    by_cases hj : isJumpTarget t instr = true
    · simp only [if_pos hj, Option.toList_some]
      refine ⟨?_, fun hn => by cases hn⟩
      rw [maximal_snoc]
      exact ⟨hmax, fun b _ => Or.inr ⟨instr, rfl, hj⟩⟩
    · -- appending to the block in progress keeps it linked to its predecessor
      have hext : Maximal t (done ++ [extend ip o instr]) := by
        rw [maximal_snoc]
        cases ip with
        | none =>
          simp only [Option.toList_none, List.append_nil] at hmax
          exact ⟨hmax, fun b hb => Or.inl (hcl rfl b hb)⟩
        | some p =>
          simp only [Option.toList_some] at hmax
          rw [maximal_snoc] at hmax
          refine ⟨hmax.1, fun b hb => ?_⟩
          rcases hmax.2 b hb with hl | ⟨i, hi, hji⟩
          · exact Or.inl hl
          · refine Or.inr ⟨i, ?_, hji⟩
            simp only [extend_some, List.head?_append, hi, Option.some_or]
      by_cases he : endsBlock t instr = true
      · simp only [if_neg hj, if_pos he, Option.toList_none, List.append_nil]
        refine ⟨hext, fun _ b hb => ?_⟩
        rw [List.getLast?_concat] at hb
        cases hb
        exact ⟨instr, extend_getLast ip o instr, he⟩
      · simp only [if_neg hj, if_neg he, Option.toList_some]
        exact ⟨hext, fun hn => by cases hn⟩
  · intro e he hfin
    subst hfin
    have := hnf _ he
    simp at this

/-! ### `finish` does not panic -/

theorem no_panic_aux (t : OpTable) : ∀ (h : List Ev) (r : Run), r.panicked = false →
    (∀ rest, h = Ev.finish :: rest → r.sep.complete = []) → FinishAfterTake h →
    (h.foldl (step t) r).panicked = false := by
  intro h
  induction h with
  | nil => intro r hp _ _; exact hp
  | cons e h ih =>
    intro r hp hc hf
    rw [List.foldl_cons]
    apply ih
    · cases e with
      | push it => exact hp
      | pushAll its => exact hp
      | take => exact hp
      | finish =>
        have hce := hc h rfl
        obtain ⟨⟨complete, ip⟩, fed, out, p⟩ := r
        simp only at hce hp
        subst hce
        cases ip <;> simpa [step, finish] using hp
    · intro rest hrest
      subst hrest
      have h₁ := hf.1 rfl
      cases e with
      | take => rfl
      | push it => simp at h₁
      | pushAll its => simp at h₁
      | finish => simp at h₁
    · cases h with
      | nil => trivial
      | cons e₂ rest => exact hf.2

/-- `finish` panics only when completed blocks have not been taken. -/
theorem run_no_panic (t : OpTable) (h : List Ev) (hf : FinishAfterTake h) :
    (run t h).panicked = false :=
  no_panic_aux t h {} rfl (fun _ _ => rfl) hf

/-- With a consistent table, `BasicBlock::size` is the encoded length. -/
theorem size_eq_byteLen (t : OpTable) (b : Block)
    (hs : ∀ i ∈ b.ops, sizeOf t i.op = i.len) : b.size t = b.byteLen := by
  unfold Block.size Block.byteLen
  rw [List.map_congr_left hs]

/-- The separator as a function of the instruction list alone: blocks completed and block in progress. -/
def blocksOf (t : OpTable) (fed : List Disasm.Item) : List Block × Option Block :=
  fed.foldl (fun acc it => pushAbs t acc.1 acc.2 it.1 it.2) ([], none)

/-- For a schedule without `finish`, the blocks (completed, in that order, and in progress) are a function of the
instructions fed so far — whatever the grouping into `push` / `push_all` and wherever `take` was called. -/
theorem run_blocksOf (t : OpTable) (h : List Ev) (hnf : ∀ e ∈ h, e ≠ Ev.finish) :
    ((run t h).done, (run t h).sep.inProgress) = blocksOf t (run t h).fed := by
  refine run_abs t (fun done ip fed => (done, ip) = blocksOf t fed) False rfl ?_ ?_ h
    (fun e he hfin => hnf e he hfin)
  · intro done ip fed o instr hp
    unfold blocksOf at hp ⊢
    rw [List.foldl_append, ← hp]
    rfl
  · intro hf; exact hf.elim

/-- The instructions of the push / push_all events of a schedule, in order. -/
def pushedOf (h : List Ev) : List Disasm.Item :=
  h.flatMap (fun e => match e with | .push it => [it] | .pushAll its => its | .take => [] | .finish => [])

theorem step_fed (t : OpTable) (r : Run) (e : Ev) : (step t r e).fed = r.fed ++ pushedOf [e] := by
  cases e with
  | push it => simp [step, pushedOf]
  | pushAll its => simp [step, pushedOf]
  | take => simp [step, pushedOf]
  | finish =>
    simp only [step]
    split <;> simp [pushedOf]

theorem foldl_fed (t : OpTable) : ∀ (h : List Ev) (r : Run),
    (h.foldl (step t) r).fed = r.fed ++ pushedOf h
  | [], r => by simp [pushedOf]
  | e :: h, r => by
    rw [List.foldl_cons, foldl_fed t h (step t r e), step_fed]
    simp [pushedOf]

end Blocks
end EtkVerif
