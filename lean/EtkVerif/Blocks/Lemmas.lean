/-
Lemmas about the separator model: the schedule invariant (T-sep).
-/
import EtkVerif.Blocks.Model
namespace EtkVerif
namespace Blocks
open Ops

/-- The schedule invariant: whatever the schedule of `push`, `push_all`, `take`
and `finish`, the blocks handed out, completed and in progress, in that order,
partition exactly the instructions fed so far. -/
theorem run_partition (t : OpTable) (h : List Ev) :
    let r := run t h
    r.allBlocks.flatMap (·.ops) = r.fed.map (·.2) ∧
    (∀ b ∈ r.allBlocks, b.Shaped t) := by
  sorry

/-- Offsets: if the instructions fed carry chained offsets (as the disassembler
produces them), block offsets are chained by block size; provided `finish` did
not cut a block short (no `finish` in the schedule) the blocks are also maximal. -/
theorem run_offsets (t : OpTable) (h : List Ev) (off : Nat)
    (hc : Chained off (run t h).fed) :
    BlocksChained off (run t h).allBlocks := by
  sorry

theorem run_maximal (t : OpTable) (h : List Ev)
    (hnf : ∀ e ∈ h, (match e with | Ev.finish => true | _ => false) = false) :
    Maximal t (run t h).allBlocks := by
  sorry

/-- `finish` panics only when completed blocks have not been taken. -/
theorem run_no_panic (t : OpTable) (h : List Ev) (hf : FinishAfterTake h) :
    (run t h).panicked = false := by
  sorry

/-- With a consistent table, `BasicBlock::size` is the encoded length. -/
theorem size_eq_byteLen (t : OpTable) (b : Block)
    (hs : ∀ i ∈ b.ops, sizeOf t i.op = i.len) : b.size t = b.byteLen := by
  sorry

end Blocks
end EtkVerif
