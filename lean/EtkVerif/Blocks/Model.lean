/-
Model of `etk_dasm::blocks::basic::{BasicBlock, Separator}`.
-/
import EtkVerif.Disasm.Model
namespace EtkVerif
namespace Blocks
open Ops

/-- `BasicBlock { offset, ops }`. -/
structure Block where
  offset : Nat
  ops : List Disasm.Instr
  deriving Repr, DecidableEq

/-- `BasicBlock::size`: sum of `Op::size` = encoded lengths. -/
def Block.size (t : OpTable) (b : Block) : Nat := (b.ops.map (fun o => sizeOf t o.op)).sum

/-- Encoded length as a byte count (equals `size` for a consistent table). -/
def Block.byteLen (b : Block) : Nat := (b.ops.map Disasm.Instr.len).sum

structure Sep where
  complete : List Block := []
  inProgress : Option Block := none
  deriving Repr, DecidableEq

def isJumpTarget (t : OpTable) (instr : Disasm.Instr) : Bool := (rowOf t instr.op).jt
def endsBlock (t : OpTable) (instr : Disasm.Instr) : Bool :=
  (rowOf t instr.op).jump || (rowOf t instr.op).exit

/-- `Separator::push`. -/
def push (t : OpTable) (s : Sep) (it : Disasm.Item) : Sep × Bool :=
  let (off, instr) := it
  if isJumpTarget t instr then
    match s.inProgress with
    | some b => ({ complete := s.complete ++ [b], inProgress := some ⟨off, [instr]⟩ }, true)
    | none => ({ s with inProgress := some ⟨off, [instr]⟩ }, false)
  else
    let ip : Block := match s.inProgress with
      | some p => { p with ops := p.ops ++ [instr] }
      | none => ⟨off, [instr]⟩
    if endsBlock t instr then ({ complete := s.complete ++ [ip], inProgress := none }, true)
    else ({ s with inProgress := some ip }, false)

/-- `Separator::push_all`: fold of `push`, or-ing the results. -/
def pushAll (t : OpTable) (s : Sep) (its : List Disasm.Item) : Sep × Bool :=
  its.foldl (fun (acc : Sep × Bool) it => let (s', a) := push t acc.1 it; (s', acc.2 || a)) (s, false)

/-- `Separator::take`. -/
def take (s : Sep) : Sep × List Block := ({ s with complete := [] }, s.complete)

inductive Fin
  | block (b : Option Block)
  | panic                      -- "not all basic blocks have been taken"
  deriving Repr, DecidableEq

/-- `Separator::finish`. -/
def finish (s : Sep) : Sep × Fin :=
  if s.complete.isEmpty then ({ s with inProgress := none }, .block s.inProgress) else (s, .panic)

/-! ### Schedules -/

inductive Ev
  | push (it : Disasm.Item)
  | pushAll (its : List Disasm.Item)
  | take
  | finish
  deriving Repr

/-- What a schedule has produced so far. -/
structure Run where
  sep : Sep := {}
  fed : List Disasm.Item := []          -- instructions fed so far, in order
  out : List Block := []               -- blocks handed out by `take` / `finish`, in order
  panicked : Bool := false
  deriving Repr

def step (t : OpTable) (r : Run) : Ev → Run
  | .push it => { r with sep := (push t r.sep it).1, fed := r.fed ++ [it] }
  | .pushAll its => { r with sep := (pushAll t r.sep its).1, fed := r.fed ++ its }
  | .take => { r with sep := (take r.sep).1, out := r.out ++ (take r.sep).2 }
  | .finish =>
    match finish r.sep with
    | (s, .block (some b)) => { r with sep := s, out := r.out ++ [b] }
    | (s, .block none) => { r with sep := s }
    | (_, .panic) => { r with panicked := true }

def run (t : OpTable) (h : List Ev) : Run := h.foldl (step t) {}

/-- All blocks a run holds or has handed out, in order. -/
def Run.allBlocks (r : Run) : List Block := r.out ++ r.sep.complete ++ r.sep.inProgress.toList

/-- Offsets of a list of items are chained from `off` by encoded length. -/
def Chained : Nat → List Disasm.Item → Prop
  | _, [] => True
  | off, (o, instr) :: rest => o = off ∧ Chained (off + instr.len) rest

/-- Block offsets are chained by encoded size, starting at `off`. -/
def BlocksChained : Nat → List Block → Prop
  | _, [] => True
  | off, b :: rest => b.offset = off ∧ BlocksChained (off + b.byteLen) rest

/-- A jump target occurs only as the first instruction; a jump / jumpi / halting
instruction only as the last. -/
def Block.Shaped (t : OpTable) (b : Block) : Prop :=
  b.ops ≠ [] ∧ (∀ i ∈ b.ops.tail, isJumpTarget t i = false) ∧ (∀ i ∈ b.ops.dropLast, endsBlock t i = false)

/-- Blocks are maximal: each block but the last either ends with a jump / halting
instruction or is followed by a block that starts with a jump target. -/
def Maximal (t : OpTable) : List Block → Prop
  | [] => True
  | [_] => True
  | b :: c :: rest =>
    ((∃ i, b.ops.getLast? = some i ∧ endsBlock t i = true) ∨
     (∃ i, c.ops.head? = some i ∧ isJumpTarget t i = true)) ∧ Maximal t (c :: rest)

/-- `finish` is only called directly after `take` (its documented precondition). -/
def FinishAfterTake : List Ev → Prop
  | [] => True
  | [_] => True
  | e₁ :: e₂ :: rest =>
    ((match e₂ with | .finish => true | _ => false) = true →
      (match e₁ with | .take => true | _ => false) = true) ∧ FinishAfterTake (e₂ :: rest)

end Blocks
end EtkVerif
