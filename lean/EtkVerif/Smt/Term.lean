/-
The fragment of SMT-LIB that `etk_analyze::sym::Z3Visit` and the query builders
of `etk_analyze::cfg` emit, with SMT-LIB semantics.  Values are naturals below
`2^width`; signed operations go through `BitVec`.
-/
namespace EtkVerif
namespace Smt

/-- Declared constants (`BV::new_const`): one per name for the whole query. -/
inductive Name
  | var (i : Nat)      -- `etk_var<i>`
  | address | origin | caller | callvalue | calldatasize | codesize | gasprice | coinbase
  | timestamp | number | difficulty | gaslimit | chainid | basefee
  deriving Repr, DecidableEq

/-- Prefixes of fresh constants (`BV::fresh_const`): a new constant per occurrence. -/
inductive FName
  | returndatasize | selfbalance | msize | gas | keccak256 | extcodesize | extcodehash | mload | sload
  | balance | create | create2 | callcode | call | staticcall | delegatecall
  deriving Repr, DecidableEq

/-- Uninterpreted unary functions. -/
inductive UF | calldataload | blockhash
  deriving Repr, DecidableEq

inductive Bin
  | bvadd | bvsub | bvmul | bvudiv | bvsdiv | bvurem | bvsrem | bvsmod | bvand | bvor | bvxor
  | bvshl | bvlshr | bvashr
  deriving Repr, DecidableEq

inductive Cmp | eq | bvult | bvugt | bvslt | bvsgt
  deriving Repr, DecidableEq

mutual
inductive Term
  | lit (w v : Nat)                       -- numeral of width w
  | named (n : Name)                      -- width 256
  | fresh (f : FName) (k : Nat)           -- width 256, printed `f!k`
  | app (u : UF) (a : Term)               -- width 256
  | bin (op : Bin) (a b : Term)
  | bvnot (a : Term)
  | ite (c : BTerm) (a b : Term)
  | zext (k : Nat) (a : Term)             -- `(_ zero_extend k)`
  | extract (hi lo : Nat) (a : Term)      -- `(_ extract hi lo)`
  | powInt (a b : Term)                   -- `((_ int2bv 256) (^ (bv2int a) (bv2int b)))`
inductive BTerm
  | cmp (op : Cmp) (a b : Term)
  | not (b : BTerm)
end

/-- An interpretation of the free symbols of a query. -/
structure Interp where
  named : Name → Nat
  fresh : Nat → Nat            -- by fresh index (each index occurs once)
  uf : UF → Nat → Nat
  pow00 : Nat                  -- the value Z3 gives the unspecified `0^0` on integers

def toSigned (w v : Nat) : Int := (BitVec.ofNat w v).toInt

def evalBin (op : Bin) (w a b : Nat) : Nat :=
  match op with
  | .bvadd => (a + b) % 2 ^ w
  | .bvsub => (a + 2 ^ w - b % 2 ^ w) % 2 ^ w
  | .bvmul => (a * b) % 2 ^ w
  | .bvudiv => if b = 0 then 2 ^ w - 1 else a / b
  | .bvurem => if b = 0 then a else a % b
  | .bvsdiv => ((BitVec.ofNat w a).smtSDiv (BitVec.ofNat w b)).toNat
  | .bvsrem => ((BitVec.ofNat w a).srem (BitVec.ofNat w b)).toNat
  | .bvsmod => ((BitVec.ofNat w a).smod (BitVec.ofNat w b)).toNat
  | .bvand => a &&& b
  | .bvor => a ||| b
  | .bvxor => a ^^^ b
  | .bvshl => if w ≤ b then 0 else (a * 2 ^ b) % 2 ^ w
  | .bvlshr => if w ≤ b then 0 else a / 2 ^ b
  | .bvashr => ((BitVec.ofNat w a).sshiftRight b).toNat

def evalCmp (op : Cmp) (w a b : Nat) : Bool :=
  match op with
  | .eq => a == b
  | .bvult => decide (a < b)
  | .bvugt => decide (a > b)
  | .bvslt => decide (toSigned w a < toSigned w b)
  | .bvsgt => decide (toSigned w a > toSigned w b)

mutual
def Term.width : Term → Nat
  | .lit w _ => w
  | .named _ => 256
  | .fresh _ _ => 256
  | .app _ _ => 256
  | .bin _ a _ => a.width
  | .bvnot a => a.width
  | .ite _ a _ => a.width
  | .zext k a => a.width + k
  | .extract hi lo _ => hi + 1 - lo
  | .powInt _ _ => 256
end

mutual
def Term.eval (I : Interp) : Term → Nat
  | .lit w v => v % 2 ^ w
  | .named n => I.named n % 2 ^ 256
  | .fresh _ k => I.fresh k % 2 ^ 256
  | .app u a => I.uf u (a.eval I) % 2 ^ 256
  | .bin op a b => evalBin op a.width (a.eval I) (b.eval I)
  | .bvnot a => 2 ^ a.width - 1 - a.eval I
  | .ite c a b => if c.eval I then a.eval I else b.eval I
  | .zext _ a => a.eval I
  | .extract hi lo a => (a.eval I / 2 ^ lo) % 2 ^ (hi + 1 - lo)
  | .powInt a b =>
      (if a.eval I = 0 ∧ b.eval I = 0 then I.pow00 else (a.eval I) ^ (b.eval I)) % 2 ^ 256
def BTerm.eval (I : Interp) : BTerm → Bool
  | .cmp op a b => evalCmp op a.width (a.eval I) (b.eval I)
  | .not b => !(b.eval I)
end

/-! ### rendering (as Z3 prints it) -/

def hexDigit (n : Nat) : Char := if n < 10 then Char.ofNat (48 + n) else Char.ofNat (87 + n)

def hexPad (digits v : Nat) : String :=
  String.ofList ((List.range digits).reverse.map (fun i => hexDigit (v / 16 ^ i % 16)))

def Name.render : Name → String
  | .var i => s!"etk_var{i}" | .address => "address" | .origin => "origin" | .caller => "caller"
  | .callvalue => "callvalue" | .calldatasize => "calldatasize" | .codesize => "codesize"
  | .gasprice => "gasprice" | .coinbase => "coinbase" | .timestamp => "timestamp" | .number => "number"
  | .difficulty => "difficulty" | .gaslimit => "gaslimit" | .chainid => "chainid" | .basefee => "basefee"

def FName.render : FName → String
  | .returndatasize => "returndatasize" | .selfbalance => "selfbalance" | .msize => "msize" | .gas => "gas"
  | .keccak256 => "keccak256" | .extcodesize => "extcodesize" | .extcodehash => "extcodehash"
  | .mload => "mload" | .sload => "sload" | .balance => "balance" | .create => "create"
  | .create2 => "create2" | .callcode => "callcode" | .call => "call" | .staticcall => "staticcall"
  | .delegatecall => "delegatecall"

def Bin.render : Bin → String
  | .bvadd => "bvadd" | .bvsub => "bvsub" | .bvmul => "bvmul" | .bvudiv => "bvudiv" | .bvsdiv => "bvsdiv"
  | .bvurem => "bvurem" | .bvsrem => "bvsrem" | .bvsmod => "bvsmod" | .bvand => "bvand" | .bvor => "bvor"
  | .bvxor => "bvxor" | .bvshl => "bvshl" | .bvlshr => "bvlshr" | .bvashr => "bvashr"

def Cmp.render : Cmp → String
  | .eq => "=" | .bvult => "bvult" | .bvugt => "bvugt" | .bvslt => "bvslt" | .bvsgt => "bvsgt"

mutual
def Term.render : Term → String
  | .lit w v => "#x" ++ hexPad (w / 4) v
  | .named n => n.render
  | .fresh f k => s!"{f.render}!{k}"
  | .app u a => s!"({match u with | .calldataload => "calldataload" | .blockhash => "blockhash"} {a.render})"
  | .bin op a b => s!"({op.render} {a.render} {b.render})"
  | .bvnot a => s!"(bvnot {a.render})"
  | .ite c a b => s!"(ite {c.render} {a.render} {b.render})"
  | .zext k a => s!"((_ zero_extend {k}) {a.render})"
  | .extract hi lo a => s!"((_ extract {hi} {lo}) {a.render})"
  | .powInt a b => s!"((_ int2bv 256) (^ (bv2int {a.render}) (bv2int {b.render})))"
def BTerm.render : BTerm → String
  | .cmp op a b => s!"({op.render} {a.render} {b.render})"
  | .not b => s!"(not {b.render})"
end

end Smt
end EtkVerif
